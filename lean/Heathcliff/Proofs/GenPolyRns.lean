import Heathcliff.Proofs.GenPoly
import Heathcliff.Proofs.GenScaling
import Heathcliff.Model.Evaluator

/-!
  Phase 4b', the multi-component wrappers (`_p`: all RNS components of one polynomial, `_ps`: several polynomials) of
  src/util/polysmallmod.rs against the model's `RnsPoly`-level folds (`rnsZip` = `compsZip l.qs`, `rnsNeg`, `compsMap l.qs`) on
  `unflattenRns` / `flattenRns` (Proofs/GenScaling.lean).  Generic part: a wrapper loop is `gp_bloop` of a step of one of two shapes
  (`gp_step`, `gp_stepI`); `gp_step*_blocks` turns it into `gp_blocks` (kernel applied blockwise), `gp_blocks_model` into the model's
  component fold via the FLATTEN LEMMA `flattenRns_blocks`.  Helper names start with `gp_`.
-/
namespace HC
open HC.GenW HC.GenP

/-! ### blocks of the flat layout and the model's `RnsPoly` -/

/-- block `j` (words `j*n … j*n+n-1`) of a flat buffer -/
def gp_blk (n : Nat) (r : List Nat) (j : Nat) : List Nat := (r.drop (j * n)).take n

theorem gp_slice_blk (b : List Nat) (j n : Nat) (h : j * n + n ≤ b.length) : GenP.slice b (j * n) (j * n + n) = .ok (gp_blk n b j) := by
  unfold GenP.slice gp_blk
  rw [if_pos ⟨by omega, h⟩, Nat.add_sub_cancel_left]

theorem gp_blk_length (n : Nat) (r : List Nat) (j : Nat) (h : j * n + n ≤ r.length) : (gp_blk n r j).length = n := by
  unfold gp_blk; rw [List.length_take, List.length_drop]; omega

theorem gp_blk_getD (n : Nat) (r : List Nat) (j k : Nat) (hk : k < n) : (gp_blk n r j).getD k 0 = r.getD (j * n + k) 0 := by
  unfold gp_blk
  simp [List.getD, hk, List.getElem?_drop]

theorem gp_unflatten_blk (size n : Nat) (r : List Nat) (j : Nat) (hj : j < size) (h : j * n + n ≤ r.length) :
    (unflattenRns size n r).getD j #[] = (gp_blk n r j).toArray := by
  unfold unflattenRns
  rw [gz_toArray_getD, gz_getD_map_range _ _ _ _ hj]
  congr 1
  apply List.ext_getElem
  · simp [gp_blk_length n r j h]
  · intro k h1 h2
    have hk : k < n := by simpa using h1
    simp only [List.getElem_map, List.getElem_range]
    have := gp_blk_getD n r j k hk
    rw [← this]
    simp [List.getD, h2]

theorem gp_range_map_getD (b : List Nat) (n : Nat) (h : b.length = n) : (List.range n).map (fun x => b.getD x 0) = b := by
  apply List.ext_getElem
  · simp [h]
  · intro k h1 h2
    simp [List.getD, h2]

/-- FLATTEN LEMMA: the flat layout of an `RnsPoly` given as a list of `n`-blocks is the concatenation of the blocks -/
theorem flattenRns_blocks (n : Nat) : ∀ (bs : List (List Nat)), (∀ b, b ∈ bs → b.length = n) →
    flattenRns bs.length n (bs.map List.toArray).toArray = bs.flatten := by
  intro bs
  induction bs with
  | nil => intro _; simp [flattenRns]
  | cons b t ih =>
    intro h
    have hb : b.length = n := h b List.mem_cons_self
    have ht := ih (fun c hc => h c (List.mem_cons_of_mem _ hc))
    unfold flattenRns at ht ⊢
    rw [List.length_cons, Nat.succ_mul, Nat.add_comm (t.length * n) n, List.range_add, List.map_append, List.flatten_cons]
    congr 1
    · refine Eq.trans ?_ (gp_range_map_getD b n hb)
      apply List.map_congr_left
      intro x hx
      have hx : x < n := List.mem_range.mp hx
      rw [Nat.div_eq_of_lt hx, Nat.mod_eq_of_lt hx]
      simp
    · rw [← ht, List.map_map]
      apply List.map_congr_left
      intro y hy
      have hn : 0 < n := by
        have := List.mem_range.mp hy
        rcases Nat.eq_zero_or_pos n with h0 | h0
        · subst h0; simp at this
        · exact h0
      simp only [Function.comp]
      rw [Nat.add_div_left _ hn, Nat.add_mod_left]
      simp

/-! ### `gp_blocks` against the model's component folds -/

theorem gp_mapM_congr' {α β : Type} (f g : α → R β) : ∀ (l : List α), (∀ k, k ∈ l → f k = g k) → l.mapM f = l.mapM g := by
  intro l
  induction l with
  | nil => intro _; rfl
  | cons x t ih =>
    intro h
    rw [List.mapM_cons, List.mapM_cons, h x (List.mem_cons_self), ih (fun k hk => h k (List.mem_cons_of_mem _ hk))]


theorem gp_blocks_mapM (B : Nat → List Nat → R (List Nat)) (n : Nat) (r0 : List Nat) : ∀ cnt i,
    gp_blocks B n cnt i (r0.drop (i * n)) =
      (do let outs ← (List.range' i cnt).mapM (fun j => B j (gp_blk n r0 j)); pure (outs.flatten ++ r0.drop ((i + cnt) * n))) := by
  intro cnt
  induction cnt with
  | zero => intro i; simp [gp_blocks]
  | succ c ih =>
    intro i
    rw [gp_blocks, List.drop_drop, show i * n + n = (i + 1) * n by rw [Nat.succ_mul], ih (i + 1), List.range'_succ, List.mapM_cons]
    show (do let o ← B i (gp_blk n r0 i); _) = _
    cases B i (gp_blk n r0 i) with
    | error e => rfl
    | ok o =>
      simp only [bind, Except.bind]
      cases (List.range' (i + 1) c).mapM (fun j => B j (gp_blk n r0 j)) with
      | error e => rfl
      | ok outs =>
        simp only [pure, Except.pure, List.flatten_cons, List.append_assoc]
        rw [show i + 1 + c = i + (c + 1) by omega]

theorem gp_foldl_pushG {α β : Type} (h : α → R β) : ∀ (l : List α) (acc : Array β),
    l.foldlM (fun acc i => do let y ← h i; pure (acc.push y)) acc = (do let vs ← l.mapM h; pure (acc ++ vs.toArray)) := by
  intro l
  induction l with
  | nil => intro acc; simp
  | cons x t ih =>
    intro acc
    simp only [List.foldlM_cons, List.mapM_cons, bind_assoc, pure_bind, ih]
    congr 1; funext y; congr 1; funext vs
    simp

theorem gp_mapM_map {α β γ : Type} (f : α → R β) (g : β → γ) : ∀ (l : List α),
    l.mapM (fun j => Except.map g (f j)) = Except.map (List.map g) (l.mapM f) := by
  intro l
  induction l with
  | nil => rfl
  | cons x t ih =>
    rw [List.mapM_cons, List.mapM_cons, ih]
    cases f x with
    | error e => rfl
    | ok y =>
      cases t.mapM f with
      | error e => rfl
      | ok ys => rfl

theorem gp_mapM_all {α β : Type} (f : α → R β) (P : β → Prop) : ∀ (l : List α) (cs : List β), l.mapM f = .ok cs →
    (∀ j c, j ∈ l → f j = .ok c → P c) → ∀ c, c ∈ cs → P c := by
  intro l
  induction l with
  | nil => intro cs h _ c hc; simp at h; cases h; simp at hc
  | cons x t ih =>
    intro cs h hP c hc
    rw [List.mapM_cons] at h
    cases hx : f x with
    | error e => rw [hx] at h; cases h
    | ok y =>
      rw [hx] at h
      cases ht : t.mapM f with
      | error e => rw [ht] at h; cases h
      | ok ys =>
        rw [ht] at h
        cases h
        rcases List.mem_cons.mp hc with rfl | hc'
        · exact hP x _ List.mem_cons_self hx
        · exact ih ys ht (fun j c' hj => hP j c' (List.mem_cons_of_mem _ hj)) c hc'

theorem gp_mapM_lengthG {α β : Type} (f : α → R β) : ∀ (l : List α) (vs : List β), l.mapM f = .ok vs → vs.length = l.length := by
  intro l
  induction l with
  | nil => intro vs h; simp at h; cases h; rfl
  | cons x t ih =>
    intro vs h
    rw [List.mapM_cons] at h
    cases hx : f x with
    | error e => rw [hx] at h; cases h
    | ok y =>
      rw [hx] at h
      cases ht : t.mapM f with
      | error e => rw [ht] at h; cases h
      | ok ws => rw [ht] at h; cases h; simp [ih ws ht]

/-- a blockwise computation on the flat buffer whose blocks are the model's component computations `C j` IS the model's component fold
    (`rnsZip` / `rnsMap` / `rnsNeg` … are literally such folds), flattened -/
theorem gp_blocks_model (B : Nat → List Nat → R (List Nat)) (C : Nat → R (Array Nat)) (n size : Nat) (r0 : List Nat)
    (hl : r0.length = size * n)
    (hBC : ∀ j, j < size → B j (gp_blk n r0 j) = Except.map Array.toList (C j))
    (hlen : ∀ j o, j < size → C j = .ok o → o.size = n) :
    gp_blocks B n size 0 r0 =
      Except.map (flattenRns size n) ((List.range size).foldlM (fun acc j => do let c ← C j; pure (acc.push c)) #[]) := by
  have h := gp_blocks_mapM B n r0 size 0
  simp only [Nat.zero_mul, List.drop_zero, Nat.zero_add] at h
  rw [h, gp_foldl_pushG, ← List.range_eq_range',
    gp_mapM_congr' _ (fun j => Except.map Array.toList (C j)) _ (fun j hj => hBC j (List.mem_range.mp hj)), gp_mapM_map]
  cases hm : (List.range size).mapM C with
  | error e => rfl
  | ok cs =>
    have hcl : cs.length = size := by rw [gp_mapM_lengthG _ _ _ hm, List.length_range]
    have hall : ∀ c, c ∈ cs → c.size = n :=
      gp_mapM_all C (fun c => c.size = n) _ cs hm (fun j c hj hc => hlen j c (List.mem_range.mp hj) hc)
    have hfl := flattenRns_blocks n (cs.map Array.toList) (by
      intro b hb
      obtain ⟨c, hc, rfl⟩ := List.mem_map.mp hb
      simpa using hall c hc)
    have hmm : (cs.map Array.toList).map List.toArray = cs := by simp [List.map_map, Function.comp_def]
    rw [hmm, List.length_map, hcl] at hfl
    have e1 : (#[] : Array (Array Nat)) ++ cs.toArray = cs.toArray := by simp
    show (Except.ok ((cs.map Array.toList).flatten ++ r0.drop (size * n)) : R (List Nat)) = Except.ok (flattenRns size n (#[] ++ cs.toArray))
    rw [e1, hfl, ← hl, List.drop_length, List.append_nil]

/-! ### the two shapes of a wrapper iteration -/

/-- out-of-place shape: the other arguments (`Pre`: sub-slices of the inputs, `&moduli[i]`) are evaluated before the destination block -/
def gp_step {α : Type} (Pre : Nat → Nat → Nat → R α) (K : Nat → α → List Nat → R (List Nat)) (i off up : Nat) (r : List Nat) : R (List Nat) := do
  let a ← Pre i off up
  let t ← GenP.slice r off up
  let o ← K i a t
  pure (GenP.splice r off o)

/-- in-place shape: the destination block is the first argument -/
def gp_stepI {α : Type} (Post : Nat → Nat → Nat → R α) (K : Nat → α → List Nat → R (List Nat)) (i off up : Nat) (r : List Nat) : R (List Nat) := do
  let t ← GenP.slice r off up
  let a ← Post i off up
  let o ← K i a t
  pure (GenP.splice r off o)

theorem gp_step_blocks {α : Type} (Pre : Nat → Nat → Nat → R α) (K : Nat → α → List Nat → R (List Nat)) (n : Nat)
    (hlen : ∀ i a x o, K i a x = .ok o → o.length = x.length) (size : Nat) (r : List Nat) (hr : size * n ≤ r.length) (hB : r.length < B64) :
    gp_bloop (gp_step Pre K) n size 0 r 0 = gp_blocks (fun j x => do let a ← Pre j (j * n) (j * n + n); K j a x) n size 0 r := by
  have h := gp_bloop_blocks (gp_step Pre K) (fun j x => do let a ← Pre j (j * n) (j * n + n); K j a x) n
    (by
      intro i pre rest hp hn
      simp only [gp_step, bind_assoc]
      cases h1 : Pre i (i * n) (i * n + n) with
      | error e => rfl
      | ok a =>
        simp only [bind, Except.bind, gp_slice_block pre rest i n hp hn]
        cases h3 : K i a (rest.take n) with
        | error e => rfl
        | ok o =>
          have ho : o.length = n := by rw [hlen _ _ _ _ h3, List.length_take, Nat.min_eq_left hn]
          simp only [pure, Except.pure, gp_splice_block pre rest o i n hp ho])
    (by
      intro i x o h
      cases h1 : Pre i (i * n) (i * n + n) with
      | error e => simp only [h1, bind, Except.bind] at h; cases h
      | ok a => simp only [h1, bind, Except.bind] at h; exact hlen _ _ _ _ h)
    size 0 [] r (by simp) hr (by simpa using hB)
  simp only [List.nil_append, Nat.zero_mul] at h
  rw [h]
  cases gp_blocks (fun j x => do let a ← Pre j (j * n) (j * n + n); K j a x) n size 0 r with
  | error e => rfl
  | ok x => rfl

theorem gp_stepI_blocks {α : Type} (Post : Nat → Nat → Nat → R α) (K : Nat → α → List Nat → R (List Nat)) (n : Nat)
    (hlen : ∀ i a x o, K i a x = .ok o → o.length = x.length) (size : Nat) (r : List Nat) (hr : size * n ≤ r.length) (hB : r.length < B64) :
    gp_bloop (gp_stepI Post K) n size 0 r 0 = gp_blocks (fun j x => do let a ← Post j (j * n) (j * n + n); K j a x) n size 0 r := by
  have h := gp_bloop_blocks (gp_stepI Post K) (fun j x => do let a ← Post j (j * n) (j * n + n); K j a x) n
    (by
      intro i pre rest hp hn
      simp only [gp_stepI, bind_assoc, gp_slice_block pre rest i n hp hn]
      simp only [bind, Except.bind]
      cases h1 : Post i (i * n) (i * n + n) with
      | error e => rfl
      | ok a =>
        simp only []
        cases h3 : K i a (rest.take n) with
        | error e => rfl
        | ok o =>
          have ho : o.length = n := by rw [hlen _ _ _ _ h3, List.length_take, Nat.min_eq_left hn]
          simp only [pure, Except.pure, gp_splice_block pre rest o i n hp ho])
    (by
      intro i x o h
      cases h1 : Post i (i * n) (i * n + n) with
      | error e => simp only [h1, bind, Except.bind] at h; cases h
      | ok a => simp only [h1, bind, Except.bind] at h; exact hlen _ _ _ _ h)
    size 0 [] r (by simp) hr (by simpa using hB)
  simp only [List.nil_append, Nat.zero_mul] at h
  rw [h]
  cases gp_blocks (fun j x => do let a ← Post j (j * n) (j * n + n); K j a x) n size 0 r with
  | error e => rfl
  | ok x => rfl
theorem gp_loop_length (g : Nat → List Nat → R Nat) : ∀ cnt i r o, gp_loop g cnt i r = .ok o → o.length = r.length := by
  intro cnt
  induction cnt with
  | zero => intro i r o h; rw [gp_loop] at h; cases h; rfl
  | succ n ih =>
    intro i r o h
    rw [gp_loop] at h
    cases hg : g i r with
    | error e => simp only [hg, bind, Except.bind] at h; cases h
    | ok v =>
      simp only [hg, bind, Except.bind] at h
      unfold GenW.setIdx at h
      by_cases hi : i < r.length
      · rw [if_pos hi] at h
        have := ih (i + 1) _ o h
        rw [this, List.length_set]
      · rw [if_neg hi] at h; cases h

theorem gp_idxT_getD {α : Type} [Inhabited α] (l : List α) (i : Nat) (h : i < l.length) : GenP.idxT l i = .ok (l.getD i default) := by
  unfold GenP.idxT; simp [List.getD, h]

theorem gp_zipM'_size (A B : Array Nat) (f : Nat → Nat → R Nat) (o : Array Nat) (h : zipM' A B f = .ok o) : o.size = A.size := by
  rw [gp_zipM'_eq] at h
  cases hm : (List.range A.size).mapM (fun i => f (A.getD i 0) (B.getD i 0)) with
  | error e => simp only [hm, bind, Except.bind] at h; cases h
  | ok vs =>
    simp only [hm, bind, Except.bind, pure, Except.pure] at h
    cases h
    simp [gp_mapM_lengthG _ _ _ hm]

theorem gp_mapM'_size (A : Array Nat) (f : Nat → R Nat) (o : Array Nat) (h : mapM' A f = .ok o) : o.size = A.size := by
  rw [gp_mapM'_eq] at h
  cases hm : A.toList.mapM f with
  | error e => simp only [hm, bind, Except.bind] at h; cases h
  | ok vs =>
    simp only [hm, bind, Except.bind, pure, Except.pure] at h
    cases h
    simp [gp_mapM_lengthG _ _ _ hm]

theorem gp_blk_bound {j size n : Nat} (hj : j < size) : j * n + n ≤ size * n := by
  have h1 : (j + 1) * n ≤ size * n := Nat.mul_le_mul_right _ hj
  rw [Nat.succ_mul] at h1; exact h1

theorem gp_compsZip_eq (l : Level) (a b : RnsPoly) (f : Nat → Nat → Modulus → R Nat) : rnsZip l a b f = compsZip l.qs a b f := rfl
theorem gp_rnsNeg_eq (l : Level) (a : RnsPoly) : rnsNeg l a = compsMap l.qs a negateMod := rfl

/-! ### in-place binary wrappers (`add_inplace_p`, `sub_inplace_p`, `dyadic_product_inplace_p`) -/

/-- the other arguments of an in-place binary wrapper iteration: block of the second operand, `&moduli[i]` -/
def gp_binPost (b : List Nat) (mods : List Modulus) (i off up : Nat) : R (List Nat × Modulus) := do
  let t3 ← GenP.slice b off up
  let t4 ← GenP.idxT mods i
  pure (t3, t4)

theorem gp_binI_model (Kf : List Nat → List Nat → Modulus → R (List Nat)) (f : Nat → Nat → Modulus → R Nat)
    (hK : ∀ x y m, x.length ≤ y.length → Kf x y m = Except.map Array.toList (zipM' x.toArray (y.take x.length).toArray (fun u v => f u v m)))
    (hKlen : ∀ x y m o, Kf x y m = .ok o → o.length = x.length)
    (l : Level) (a b : List Nat) (ha : a.length = l.size * l.n) (hb : l.size * l.n ≤ b.length) (hB : a.length < B64) :
    gp_bloop (gp_stepI (gp_binPost b l.qs.toList) (fun _ p x => Kf x p.1 p.2)) l.n l.size 0 a 0 =
      Except.map (flattenRns l.size l.n) (compsZip l.qs (unflattenRns l.size l.n a) (unflattenRns l.size l.n b) f) := by
  rw [gp_stepI_blocks _ _ l.n (fun _ p x o h => hKlen x p.1 p.2 o h) l.size a (by omega) hB]
  unfold compsZip
  apply gp_blocks_model _ (fun j => zipM' ((unflattenRns l.size l.n a).getD j #[]) ((unflattenRns l.size l.n b).getD j #[])
    (fun x y => f x y (l.qs.getD j default))) l.n l.size a ha
  · intro j hj
    have hja : j * l.n + l.n ≤ a.length := by rw [ha]; exact gp_blk_bound hj
    have hjb : j * l.n + l.n ≤ b.length := by omega
    simp only [gp_binPost, gp_slice_blk b j l.n hjb, gp_idxT_getD l.qs.toList j (by simpa [Level.size] using hj), bind, Except.bind,
      pure, Except.pure]
    rw [hK _ _ _ (by rw [gp_blk_length _ _ _ hja, gp_blk_length _ _ _ hjb]), gp_unflatten_blk _ _ _ _ hj hja,
      gp_unflatten_blk _ _ _ _ hj hjb, gp_blk_length _ _ _ hja, gz_toList_getD,
      List.take_of_length_le (by rw [gp_blk_length _ _ _ hjb])]
  · intro j o hj h
    have hja : j * l.n + l.n ≤ a.length := by rw [ha]; exact gp_blk_bound hj
    rw [gp_zipM'_size _ _ _ _ h, gp_unflatten_blk _ _ _ _ hj hja]
    simp only [List.size_toArray]
    exact gp_blk_length _ _ _ hja

/-! ### in-place unary wrappers (`negate_inplace_p`, `multiply_scalar_inplace_p`) -/

theorem gp_unI_model (Ku : List Nat → Modulus → R (List Nat)) (F : Nat → Modulus → R Nat)
    (hK : ∀ x m, Ku x m = Except.map Array.toList (mapM' x.toArray (fun u => F u m)))
    (l : Level) (a : List Nat) (ha : a.length = l.size * l.n) (hB : a.length < B64) :
    gp_bloop (gp_stepI (fun i _ _ => GenP.idxT l.qs.toList i) (fun _ m x => Ku x m)) l.n l.size 0 a 0 =
      Except.map (flattenRns l.size l.n) (compsMap l.qs (unflattenRns l.size l.n a) F) := by
  have hKlen : ∀ x m o, Ku x m = .ok o → o.length = x.length := by
    intro x m o h
    rw [hK] at h
    cases hm : mapM' x.toArray (fun u => F u m) with
    | error e => rw [hm] at h; cases h
    | ok v =>
      rw [hm] at h; cases h
      have := gp_mapM'_size _ _ _ hm
      simpa using this
  rw [gp_stepI_blocks _ _ l.n (fun _ m x o h => hKlen x m o h) l.size a (by omega) hB]
  unfold compsMap
  apply gp_blocks_model _ (fun j => mapM' ((unflattenRns l.size l.n a).getD j #[]) (fun x => F x (l.qs.getD j default))) l.n l.size a ha
  · intro j hj
    have hja : j * l.n + l.n ≤ a.length := by rw [ha]; exact gp_blk_bound hj
    simp only [gp_idxT_getD l.qs.toList j (by simpa [Level.size] using hj), bind, Except.bind]
    rw [hK, gp_unflatten_blk _ _ _ _ hj hja, gz_toList_getD]
  · intro j o hj h
    have hja : j * l.n + l.n ≤ a.length := by rw [ha]; exact gp_blk_bound hj
    rw [gp_mapM'_size _ _ _ h, gp_unflatten_blk _ _ _ _ hj hja]
    simp only [List.size_toArray]
    exact gp_blk_length _ _ _ hja

/-! ### the library's in-place `_p` wrappers = the model's component folds -/

theorem gp_add_inplace_len (x y : List Nat) (m : Modulus) (o : List Nat) (h : GenP.poly_add_inplace x y m = .ok o) : o.length = x.length := by
  unfold GenP.poly_add_inplace at h
  simp only [] at h
  split at h
  · exact gp_loop_length _ _ _ _ _ (by rw [← gp_add_inplace_loop_eq]; exact h)
  · cases h

theorem gp_add_inplace_p_loop_eq (b : List Nat) (n : Nat) (mods : List Modulus) : ∀ cnt i r off,
    GenP.poly_add_inplace_p_loop1 b n mods cnt i r off =
      gp_bloop (gp_stepI (gp_binPost b mods) (fun _ p x => GenP.poly_add_inplace x p.1 p.2)) n cnt i r off := by
  intro cnt
  induction cnt with
  | zero => intro i r off; rfl
  | succ c ih =>
    intro i r off
    rw [GenP.poly_add_inplace_p_loop1, gp_bloop]
    simp only [gp_stepI, gp_binPost, bind_assoc, pure_bind, ih]

/-- `add_inplace_p(poly1, poly2, degree, moduli)` on the flat layout = the hand model's `rnsAdd` -/
theorem gp_poly_add_inplace_p_model (l : Level) (a b : List Nat) (ha : a.length = l.size * l.n) (hb : l.size * l.n ≤ b.length)
    (hB : a.length < B64) :
    GenP.poly_add_inplace_p a b l.n l.qs.toList =
      Except.map (flattenRns l.size l.n) (rnsAdd l (unflattenRns l.size l.n a) (unflattenRns l.size l.n b)) := by
  unfold GenP.poly_add_inplace_p rnsAdd
  simp only []
  rw [gp_add_inplace_p_loop_eq, gp_compsZip_eq, show l.qs.toList.length = l.size by simp [Level.size]]
  exact gp_binI_model _ addMod
    (fun x y m h => by rw [gp_poly_add_inplace_eq, if_pos h]) gp_add_inplace_len l a b ha hb hB

theorem gp_sub_inplace_len (x y : List Nat) (m : Modulus) (o : List Nat) (h : GenP.poly_sub_inplace x y m = .ok o) : o.length = x.length := by
  unfold GenP.poly_sub_inplace at h
  simp only [] at h
  split at h
  · exact gp_loop_length _ _ _ _ _ (by rw [← gp_sub_inplace_loop_eq]; exact h)
  · cases h

theorem gp_sub_inplace_p_loop_eq (b : List Nat) (n : Nat) (mods : List Modulus) : ∀ cnt i r off,
    GenP.poly_sub_inplace_p_loop1 b n mods cnt i r off =
      gp_bloop (gp_stepI (gp_binPost b mods) (fun _ p x => GenP.poly_sub_inplace x p.1 p.2)) n cnt i r off := by
  intro cnt
  induction cnt with
  | zero => intro i r off; rfl
  | succ c ih =>
    intro i r off
    rw [GenP.poly_sub_inplace_p_loop1, gp_bloop]
    simp only [gp_stepI, gp_binPost, bind_assoc, pure_bind, ih]

/-- `sub_inplace_p` = the hand model's `rnsSub` -/
theorem gp_poly_sub_inplace_p_model (l : Level) (a b : List Nat) (ha : a.length = l.size * l.n) (hb : l.size * l.n ≤ b.length)
    (hB : a.length < B64) :
    GenP.poly_sub_inplace_p a b l.n l.qs.toList =
      Except.map (flattenRns l.size l.n) (rnsSub l (unflattenRns l.size l.n a) (unflattenRns l.size l.n b)) := by
  unfold GenP.poly_sub_inplace_p rnsSub
  simp only []
  rw [gp_sub_inplace_p_loop_eq, gp_compsZip_eq, show l.qs.toList.length = l.size by simp [Level.size]]
  exact gp_binI_model _ subMod
    (fun x y m h => by rw [gp_poly_sub_inplace_eq, if_pos h]) gp_sub_inplace_len l a b ha hb hB

theorem gp_dyadic_inplace_len (x y : List Nat) (m : Modulus) (o : List Nat) (h : GenP.poly_dyadic_product_inplace x y m = .ok o) :
    o.length = x.length := by
  unfold GenP.poly_dyadic_product_inplace at h
  simp only [] at h
  exact gp_loop_length _ _ _ _ _ (by rw [← gp_dyadic_inplace_loop_eq]; exact h)

theorem gp_dyadic_inplace_p_loop_eq (b : List Nat) (n : Nat) (mods : List Modulus) : ∀ cnt i r off,
    GenP.poly_dyadic_product_inplace_p_loop1 b n mods cnt i r off =
      gp_bloop (gp_stepI (gp_binPost b mods) (fun _ p x => GenP.poly_dyadic_product_inplace x p.1 p.2)) n cnt i r off := by
  intro cnt
  induction cnt with
  | zero => intro i r off; rfl
  | succ c ih =>
    intro i r off
    rw [GenP.poly_dyadic_product_inplace_p_loop1, gp_bloop]
    simp only [gp_stepI, gp_binPost, bind_assoc, pure_bind, ih]

/-- `dyadic_product_inplace_p` = the hand model's `rnsDyadic` -/
theorem gp_poly_dyadic_product_inplace_p_model (l : Level) (a b : List Nat) (ha : a.length = l.size * l.n) (hb : l.size * l.n ≤ b.length)
    (hB : a.length < B64) :
    GenP.poly_dyadic_product_inplace_p a b l.n l.qs.toList =
      Except.map (flattenRns l.size l.n) (rnsDyadic l (unflattenRns l.size l.n a) (unflattenRns l.size l.n b)) := by
  unfold GenP.poly_dyadic_product_inplace_p rnsDyadic
  simp only []
  rw [gp_dyadic_inplace_p_loop_eq, gp_compsZip_eq, show l.qs.toList.length = l.size by simp [Level.size]]
  exact gp_binI_model _ mulMod
    (fun x y m h => by rw [gp_poly_dyadic_product_inplace_eq _ _ _ h]; rfl) gp_dyadic_inplace_len l a b ha hb hB

theorem gp_multiply_scalar_inplace_p_loop_eq (s n : Nat) (mods : List Modulus) : ∀ cnt i r off,
    GenP.poly_multiply_scalar_inplace_p_loop1 s n mods cnt i r off =
      gp_bloop (gp_stepI (fun i _ _ => GenP.idxT mods i) (fun _ m x => GenP.poly_multiply_scalar_inplace x s m)) n cnt i r off := by
  intro cnt
  induction cnt with
  | zero => intro i r off; rfl
  | succ c ih =>
    intro i r off
    rw [GenP.poly_multiply_scalar_inplace_p_loop1, gp_bloop]
    simp only [gp_stepI, bind_assoc, pure_bind, ih]

/-- `multiply_scalar_inplace_p` = the model's component map with `mulMod · scalar` (`rnsScale`, the `scale` step of `ctTranslateBalanced`) -/
theorem gp_poly_multiply_scalar_inplace_p_model (l : Level) (a : List Nat) (s : Nat) (ha : a.length = l.size * l.n) (hB : a.length < B64) :
    GenP.poly_multiply_scalar_inplace_p a s l.n l.qs.toList =
      Except.map (flattenRns l.size l.n) (compsMap l.qs (unflattenRns l.size l.n a) (fun x m => mulMod x s m)) := by
  unfold GenP.poly_multiply_scalar_inplace_p
  simp only []
  rw [gp_multiply_scalar_inplace_p_loop_eq, show l.qs.toList.length = l.size by simp [Level.size]]
  exact gp_unI_model _ (fun x m => mulMod x s m) (fun x m => gp_poly_multiply_scalar_inplace_eq x s m) l a ha hB

theorem gp_negate_inplace_p_loop_eq (n : Nat) (mods : List Modulus) : ∀ cnt i r off,
    GenP.poly_negate_inplace_p_loop1 n mods cnt i r off =
      gp_bloop (gp_stepI (fun i _ _ => GenP.idxT mods i) (fun _ m x => GenP.poly_negate_inplace x m)) n cnt i r off := by
  intro cnt
  induction cnt with
  | zero => intro i r off; rfl
  | succ c ih =>
    intro i r off
    rw [GenP.poly_negate_inplace_p_loop1, gp_bloop]
    cases hck : ckAdd off n with
    | error e => rfl
    | ok up =>
      simp only [gp_stepI, ih, bind, Except.bind]
      cases GenP.slice r off up with
      | error e => rfl
      | ok v =>
        cases GenP.idxT mods i with
        | error e => rfl
        | ok m =>
          simp only []
          cases GenP.poly_negate_inplace v m with
          | error e => rfl
          | ok o => rfl

/-- `negate_inplace_p` = the hand model's `rnsNeg` -/
theorem gp_poly_negate_inplace_p_model (l : Level) (a : List Nat) (ha : a.length = l.size * l.n) (hB : a.length < B64) :
    GenP.poly_negate_inplace_p a l.n l.qs.toList = Except.map (flattenRns l.size l.n) (rnsNeg l (unflattenRns l.size l.n a)) := by
  unfold GenP.poly_negate_inplace_p
  simp only []
  rw [gp_negate_inplace_p_loop_eq, gp_rnsNeg_eq, show l.qs.toList.length = l.size by simp [Level.size]]
  exact gp_unI_model _ negateMod (fun x m => gp_poly_negate_inplace_eq x m) l a ha hB
/-! ### `_ps` wrappers: a `_p` wrapper applied to the consecutive polynomials of a ciphertext buffer -/

theorem gp_stepI_length {α : Type} (Post : Nat → Nat → Nat → R α) (K : Nat → α → List Nat → R (List Nat))
    (hlen : ∀ i a x o, K i a x = .ok o → o.length = x.length) (i off up : Nat) (r r' : List Nat)
    (h : gp_stepI Post K i off up r = .ok r') : r'.length = r.length := by
  unfold gp_stepI GenP.slice at h
  by_cases hs : off ≤ up ∧ up ≤ r.length
  · rw [if_pos hs] at h
    simp only [bind, Except.bind] at h
    cases hp : Post i off up with
    | error e => rw [hp] at h; cases h
    | ok a =>
      rw [hp] at h
      simp only [] at h
      cases hk : K i a ((r.drop off).take (up - off)) with
      | error e => rw [hk] at h; cases h
      | ok o =>
        rw [hk] at h
        cases h
        have ho := hlen _ _ _ _ hk
        rw [List.length_take, List.length_drop] at ho
        unfold GenP.splice
        simp only [List.length_append, List.length_take, List.length_drop]
        omega
  · rw [if_neg hs] at h; cases h

theorem gp_bloop_length (step : Nat → Nat → Nat → List Nat → R (List Nat)) (n : Nat)
    (hs : ∀ i off up r r', step i off up r = .ok r' → r'.length = r.length) :
    ∀ cnt i r off o, gp_bloop step n cnt i r off = .ok o → o.length = r.length := by
  intro cnt
  induction cnt with
  | zero => intro i r off o h; rw [gp_bloop] at h; cases h; rfl
  | succ c ih =>
    intro i r off o h
    rw [gp_bloop] at h
    cases hc : ckAdd off n with
    | error e => simp only [hc, bind, Except.bind] at h; cases h
    | ok up =>
      simp only [hc, bind, Except.bind] at h
      cases hst : step i off up r with
      | error e => rw [hst] at h; cases h
      | ok r1 =>
        rw [hst] at h
        rw [ih _ _ _ _ h, hs _ _ _ _ _ hst]

theorem gp_ps_model {α : Type} (Post : Nat → Nat → Nat → R α) (K : Nat → α → List Nat → R (List Nat)) (d pc : Nat) (a : List Nat)
    (M : Nat → R RnsPoly) (FL : RnsPoly → List Nat)
    (hlen : ∀ i p x o, K i p x = .ok o → o.length = x.length)
    (hBM : ∀ i, i < pc → (do let p ← Post i (i * d) (i * d + d); K i p (gp_blk d a i)) = Except.map FL (M i))
    (hr : pc * d ≤ a.length) (hB : a.length < B64) :
    gp_bloop (gp_stepI Post K) d pc 0 a 0 =
      (do let outs ← (List.range pc).mapM M; pure ((outs.map FL).flatten ++ a.drop (pc * d))) := by
  rw [gp_stepI_blocks Post K d hlen pc a hr hB]
  have h := gp_blocks_mapM (fun j x => do let p ← Post j (j * d) (j * d + d); K j p x) d a pc 0
  simp only [Nat.zero_mul, List.drop_zero, Nat.zero_add] at h
  rw [h, ← List.range_eq_range', gp_mapM_congr' _ (fun j => Except.map FL (M j)) _ (fun j hj => hBM j (List.mem_range.mp hj)),
    gp_mapM_map]
  cases (List.range pc).mapM M with
  | error e => rfl
  | ok outs => rfl

/-! #### add_inplace_ps / sub_inplace_ps / negate_inplace_ps / multiply_scalar_inplace_ps -/

theorem gp_add_inplace_p_len (x y : List Nat) (n : Nat) (mods : List Modulus) (o : List Nat)
    (h : GenP.poly_add_inplace_p x y n mods = .ok o) : o.length = x.length := by
  unfold GenP.poly_add_inplace_p at h
  simp only [] at h
  rw [gp_add_inplace_p_loop_eq] at h
  exact gp_bloop_length _ _ (gp_stepI_length _ _ (fun _ p x o h => gp_add_inplace_len x p.1 p.2 o h)) _ _ _ _ _ h

theorem gp_add_inplace_ps_loop_eq (b : List Nat) (pc n : Nat) (mods : List Modulus) (d : Nat) : ∀ cnt i r off,
    GenP.poly_add_inplace_ps_loop1 b pc n mods d cnt i r off =
      gp_bloop (gp_stepI (fun _ off up => GenP.slice b off up) (fun _ t3 x => GenP.poly_add_inplace_p x t3 n mods)) d cnt i r off := by
  intro cnt
  induction cnt with
  | zero => intro i r off; rfl
  | succ c ih =>
    intro i r off
    rw [GenP.poly_add_inplace_ps_loop1, gp_bloop]
    simp only [gp_stepI, bind_assoc, pure_bind, ih]

/-- `add_inplace_ps(polys1, polys2, pcount, degree, moduli)`: `rnsAdd` of the first `pcount` polynomials, the rest of `polys1` kept -/
theorem gp_poly_add_inplace_ps_model (l : Level) (a b : List Nat) (pc : Nat) (hd : l.n * l.size < B64)
    (ha : pc * (l.size * l.n) ≤ a.length) (hb : pc * (l.size * l.n) ≤ b.length) (hB : a.length < B64) :
    GenP.poly_add_inplace_ps a b pc l.n l.qs.toList =
      (do let outs ← (List.range pc).mapM (fun i => rnsAdd l (unflattenRns l.size l.n (gp_blk (l.size * l.n) a i))
                                                           (unflattenRns l.size l.n (gp_blk (l.size * l.n) b i)))
          pure ((outs.map (flattenRns l.size l.n)).flatten ++ a.drop (pc * (l.size * l.n)))) := by
  unfold GenP.poly_add_inplace_ps
  have hck : ckMul l.n l.qs.toList.length = .ok (l.size * l.n) := by
    unfold ckMul; rw [show l.qs.toList.length = l.size by simp [Level.size], if_pos hd, Nat.mul_comm]
  simp only [hck, bind, Except.bind]
  rw [gp_add_inplace_ps_loop_eq]
  apply gp_ps_model _ _ _ _ _ _ _ (fun _ p x o h => gp_add_inplace_p_len x p l.n _ o h) _ ha hB
  intro i hi
  have hia : i * (l.size * l.n) + l.size * l.n ≤ a.length := Nat.le_trans (gp_blk_bound hi) ha
  have hib : i * (l.size * l.n) + l.size * l.n ≤ b.length := Nat.le_trans (gp_blk_bound hi) hb
  simp only [gp_slice_blk b i _ hib, bind, Except.bind]
  exact gp_poly_add_inplace_p_model l _ _ (gp_blk_length _ _ _ hia) (by rw [gp_blk_length _ _ _ hib])
    (by rw [gp_blk_length _ _ _ hia]; omega)

theorem gp_sub_inplace_p_len (x y : List Nat) (n : Nat) (mods : List Modulus) (o : List Nat)
    (h : GenP.poly_sub_inplace_p x y n mods = .ok o) : o.length = x.length := by
  unfold GenP.poly_sub_inplace_p at h
  simp only [] at h
  rw [gp_sub_inplace_p_loop_eq] at h
  exact gp_bloop_length _ _ (gp_stepI_length _ _ (fun _ p x o h => gp_sub_inplace_len x p.1 p.2 o h)) _ _ _ _ _ h

theorem gp_sub_inplace_ps_loop_eq (b : List Nat) (pc n : Nat) (mods : List Modulus) (d : Nat) : ∀ cnt i r off,
    GenP.poly_sub_inplace_ps_loop1 b pc n mods d cnt i r off =
      gp_bloop (gp_stepI (fun _ off up => GenP.slice b off up) (fun _ t3 x => GenP.poly_sub_inplace_p x t3 n mods)) d cnt i r off := by
  intro cnt
  induction cnt with
  | zero => intro i r off; rfl
  | succ c ih =>
    intro i r off
    rw [GenP.poly_sub_inplace_ps_loop1, gp_bloop]
    simp only [gp_stepI, bind_assoc, pure_bind, ih]

/-- `sub_inplace_ps`: `rnsSub` of the first `pcount` polynomials, the rest of `polys1` kept -/
theorem gp_poly_sub_inplace_ps_model (l : Level) (a b : List Nat) (pc : Nat) (hd : l.n * l.size < B64)
    (ha : pc * (l.size * l.n) ≤ a.length) (hb : pc * (l.size * l.n) ≤ b.length) (hB : a.length < B64) :
    GenP.poly_sub_inplace_ps a b pc l.n l.qs.toList =
      (do let outs ← (List.range pc).mapM (fun i => rnsSub l (unflattenRns l.size l.n (gp_blk (l.size * l.n) a i))
                                                           (unflattenRns l.size l.n (gp_blk (l.size * l.n) b i)))
          pure ((outs.map (flattenRns l.size l.n)).flatten ++ a.drop (pc * (l.size * l.n)))) := by
  unfold GenP.poly_sub_inplace_ps
  have hck : ckMul l.n l.qs.toList.length = .ok (l.size * l.n) := by
    unfold ckMul; rw [show l.qs.toList.length = l.size by simp [Level.size], if_pos hd, Nat.mul_comm]
  simp only [hck, bind, Except.bind]
  rw [gp_sub_inplace_ps_loop_eq]
  apply gp_ps_model _ _ _ _ _ _ _ (fun _ p x o h => gp_sub_inplace_p_len x p l.n _ o h) _ ha hB
  intro i hi
  have hia : i * (l.size * l.n) + l.size * l.n ≤ a.length := Nat.le_trans (gp_blk_bound hi) ha
  have hib : i * (l.size * l.n) + l.size * l.n ≤ b.length := Nat.le_trans (gp_blk_bound hi) hb
  simp only [gp_slice_blk b i _ hib, bind, Except.bind]
  exact gp_poly_sub_inplace_p_model l _ _ (gp_blk_length _ _ _ hia) (by rw [gp_blk_length _ _ _ hib])
    (by rw [gp_blk_length _ _ _ hia]; omega)

theorem gp_unI_len (Ku : List Nat → Modulus → R (List Nat)) (F : Nat → Modulus → R Nat)
    (hK : ∀ x m, Ku x m = Except.map Array.toList (mapM' x.toArray (fun u => F u m))) (x : List Nat) (m : Modulus) (o : List Nat)
    (h : Ku x m = .ok o) : o.length = x.length := by
  rw [hK] at h
  cases hm : mapM' x.toArray (fun u => F u m) with
  | error e => rw [hm] at h; cases h
  | ok v =>
    rw [hm] at h; cases h
    have := gp_mapM'_size _ _ _ hm
    simpa using this

theorem gp_negate_inplace_p_len (x : List Nat) (n : Nat) (mods : List Modulus) (o : List Nat)
    (h : GenP.poly_negate_inplace_p x n mods = .ok o) : o.length = x.length := by
  unfold GenP.poly_negate_inplace_p at h
  simp only [] at h
  rw [gp_negate_inplace_p_loop_eq] at h
  exact gp_bloop_length _ _ (gp_stepI_length _ _
    (fun _ m x o h => gp_unI_len _ negateMod (fun x m => gp_poly_negate_inplace_eq x m) x m o h)) _ _ _ _ _ h

theorem gp_negate_inplace_ps_loop_eq (pc n : Nat) (mods : List Modulus) (d : Nat) : ∀ cnt i r off,
    GenP.poly_negate_inplace_ps_loop1 pc n mods d cnt i r off =
      gp_bloop (gp_stepI (fun _ _ _ => (pure () : R Unit)) (fun _ _ x => GenP.poly_negate_inplace_p x n mods)) d cnt i r off := by
  intro cnt
  induction cnt with
  | zero => intro i r off; rfl
  | succ c ih =>
    intro i r off
    rw [GenP.poly_negate_inplace_ps_loop1, gp_bloop]
    cases hck : ckAdd off d with
    | error e => rfl
    | ok up =>
      simp only [gp_stepI, ih, bind, Except.bind, pure, Except.pure]
      cases GenP.slice r off up with
      | error e => rfl
      | ok v =>
        simp only []
        cases GenP.poly_negate_inplace_p v n mods with
        | error e => rfl
        | ok o => rfl

/-- `negate_inplace_ps(polys, pcount, degree, moduli)`: `rnsNeg` of the first `pcount` polynomials (the body of `ctNegate`) -/
theorem gp_poly_negate_inplace_ps_model (l : Level) (a : List Nat) (pc : Nat) (hd : l.n * l.size < B64)
    (ha : pc * (l.size * l.n) ≤ a.length) (hB : a.length < B64) :
    GenP.poly_negate_inplace_ps a pc l.n l.qs.toList =
      (do let outs ← (List.range pc).mapM (fun i => rnsNeg l (unflattenRns l.size l.n (gp_blk (l.size * l.n) a i)))
          pure ((outs.map (flattenRns l.size l.n)).flatten ++ a.drop (pc * (l.size * l.n)))) := by
  unfold GenP.poly_negate_inplace_ps
  have hck : ckMul l.n l.qs.toList.length = .ok (l.size * l.n) := by
    unfold ckMul; rw [show l.qs.toList.length = l.size by simp [Level.size], if_pos hd, Nat.mul_comm]
  simp only [hck, bind, Except.bind]
  rw [gp_negate_inplace_ps_loop_eq]
  apply gp_ps_model _ _ _ _ _ _ _ (fun _ _ x o h => gp_negate_inplace_p_len x l.n _ o h) _ ha hB
  intro i hi
  have hia : i * (l.size * l.n) + l.size * l.n ≤ a.length := Nat.le_trans (gp_blk_bound hi) ha
  simp only [bind, Except.bind, pure, Except.pure]
  exact gp_poly_negate_inplace_p_model l _ (gp_blk_length _ _ _ hia) (by rw [gp_blk_length _ _ _ hia]; omega)

theorem gp_multiply_scalar_inplace_p_len (x : List Nat) (s n : Nat) (mods : List Modulus) (o : List Nat)
    (h : GenP.poly_multiply_scalar_inplace_p x s n mods = .ok o) : o.length = x.length := by
  unfold GenP.poly_multiply_scalar_inplace_p at h
  simp only [] at h
  rw [gp_multiply_scalar_inplace_p_loop_eq] at h
  exact gp_bloop_length _ _ (gp_stepI_length _ _
    (fun _ m x o h => gp_unI_len _ (fun u m => mulMod u s m) (fun x m => gp_poly_multiply_scalar_inplace_eq x s m) x m o h)) _ _ _ _ _ h

theorem gp_multiply_scalar_inplace_ps_loop_eq (s pc n : Nat) (mods : List Modulus) (d : Nat) : ∀ cnt i r off,
    GenP.poly_multiply_scalar_inplace_ps_loop1 s pc n mods d cnt i r off =
      gp_bloop (gp_stepI (fun _ _ _ => (pure () : R Unit)) (fun _ _ x => GenP.poly_multiply_scalar_inplace_p x s n mods)) d cnt i r off := by
  intro cnt
  induction cnt with
  | zero => intro i r off; rfl
  | succ c ih =>
    intro i r off
    rw [GenP.poly_multiply_scalar_inplace_ps_loop1, gp_bloop]
    simp only [gp_stepI, bind_assoc, pure_bind, ih]

/-- `multiply_scalar_inplace_ps`: every word of the first `pcount` polynomials times the scalar (the `scale` step of `ctTranslateBalanced`) -/
theorem gp_poly_multiply_scalar_inplace_ps_model (l : Level) (a : List Nat) (s pc : Nat) (hd : l.n * l.size < B64)
    (ha : pc * (l.size * l.n) ≤ a.length) (hB : a.length < B64) :
    GenP.poly_multiply_scalar_inplace_ps a s pc l.n l.qs.toList =
      (do let outs ← (List.range pc).mapM (fun i => compsMap l.qs (unflattenRns l.size l.n (gp_blk (l.size * l.n) a i)) (fun x m => mulMod x s m))
          pure ((outs.map (flattenRns l.size l.n)).flatten ++ a.drop (pc * (l.size * l.n)))) := by
  unfold GenP.poly_multiply_scalar_inplace_ps
  have hck : ckMul l.n l.qs.toList.length = .ok (l.size * l.n) := by
    unfold ckMul; rw [show l.qs.toList.length = l.size by simp [Level.size], if_pos hd, Nat.mul_comm]
  simp only [hck, bind, Except.bind]
  rw [gp_multiply_scalar_inplace_ps_loop_eq]
  apply gp_ps_model _ _ _ _ _ _ _ (fun _ _ x o h => gp_multiply_scalar_inplace_p_len x s l.n _ o h) _ ha hB
  intro i hi
  have hia : i * (l.size * l.n) + l.size * l.n ≤ a.length := Nat.le_trans (gp_blk_bound hi) ha
  simp only [bind, Except.bind, pure, Except.pure]
  exact gp_poly_multiply_scalar_inplace_p_model l _ s (gp_blk_length _ _ _ hia) (by rw [gp_blk_length _ _ _ hia]; omega)
end HC
