/-
  C20N: `MatmulBoltCcCr` end to end over the model (`Model/Matmul.lean`): inputs column-major, weights row-major, the product
  collected by diagonals.

    * `c20_CcOK`               arithmetic facts about an accepted helper (N = gsc·gap, gsc = 2·half = 2^(g+1), 0 < m ≤ gap);
    * `c20_boltCrNew_ok`       `BoltCc.newCr` establishes them (N a power of two below 2^64; `ceilTwoPower` is the LEAST power of two);
    * `c20_boltSumAll_spec`    `sum_inplace`: log-many rotations (the last one across the rows) fold all columns onto every column;
    * `c20_crMulSmall_spec`    `MatmulBoltCcCrSmall::multiply`: diagonal `sh` of the block product at polynomial `sh / gsc`,
                               slots `(sh mod gsc)·gap + u`;
    * `c20_boltCr_whole`, `c20_boltCr_new`   the end-to-end theorems.
-/
import Heathcliff.Proofs.C20M
namespace HC
open Finset HC.MM

variable {S : Type}

/-! ### the accepted helpers -/

structure c20_CcOK (h : BoltCc) (half g : Nat) : Prop where
  hN : h.N = h.gsc * h.gap
  hgsc : h.gsc = 2 * half
  hhalf : half = 2 ^ g
  hg : g ≤ 63
  hm0 : 0 < h.m
  hmg : h.m ≤ h.gap

theorem c20_CcOK.half_pos {h : BoltCc} {half g : Nat} (ok : c20_CcOK h half g) : 0 < half := by
  rw [ok.hhalf]; exact Nat.two_pow_pos g

theorem c20_CcOK.gap_pos {h : BoltCc} {half g : Nat} (ok : c20_CcOK h half g) : 0 < h.gap := lt_of_lt_of_le ok.hm0 ok.hmg

theorem c20_CcOK.hN2 {h : BoltCc} {half g : Nat} (ok : c20_CcOK h half g) : h.N = 2 * (half * h.gap) := by
  rw [ok.hN, ok.hgsc, Nat.mul_assoc]

theorem c20_CcOK.hNdiv {h : BoltCc} {half g : Nat} (ok : c20_CcOK h half g) : h.N / 2 = half * h.gap := by
  rw [ok.hN2, Nat.mul_div_cancel_left _ (by decide : 0 < 2)]

theorem c20_CcOK.gsc_pos {h : BoltCc} {half g : Nat} (ok : c20_CcOK h half g) : 0 < h.gsc := by
  have := ok.half_pos; rw [ok.hgsc]; omega

theorem c20_ceilTwoPower_go_min (n e : Nat) (hn : n ≤ 2^e) : ∀ f k, k ≤ e → ceilTwoPower.go n f (2^k) ≤ 2^e
  | 0, k, hk => Nat.pow_le_pow_right (by decide) hk
  | f+1, k, hk => by
    unfold ceilTwoPower.go
    split
    · rename_i hlt
      have hke : k < e := by
        by_contra hge
        have : 2^e ≤ 2^k := Nat.pow_le_pow_right (by decide) (by omega)
        omega
      have e2 : 2 * 2^k = 2^(k+1) := by rw [Nat.pow_succ, Nat.mul_comm]
      rw [e2]
      exact c20_ceilTwoPower_go_min n e hn f (k+1) hke
    · exact Nat.pow_le_pow_right (by decide) hk

/-- the common part of `MatmulBoltCcCr::new` / `MatmulBoltCcDc::new`: block side `mr ≤ N/2`, `gap = ceilTwoPower mr`, `gsc = ⌈N/gap⌉` -/
theorem c20_boltCc_params {N mr : Nat} (hpow : ∃ e, N = 2^e) (hN64 : N < 2^64) (hmr : mr ≤ N / 2) (hN2 : N / 2 ≠ 0) :
    ∃ half g, N = ceilDiv N (ceilTwoPower mr) * ceilTwoPower mr ∧ ceilDiv N (ceilTwoPower mr) = 2 * half ∧ half = 2^g ∧ g ≤ 63 ∧
      mr ≤ ceilTwoPower mr := by
  obtain ⟨e, rfl⟩ := hpow
  have he : 1 ≤ e := by
    rcases Nat.eq_zero_or_pos e with h | h
    · subst h; simp at hN2
    · exact h
  have he64 : e < 64 := (Nat.pow_lt_pow_iff_right (by decide : 1 < 2)).mp hN64
  have hdiv : 2^e / 2 = 2^(e-1) := by
    have : 2^e = 2 * 2^(e-1) := by rw [Nat.mul_comm, ← Nat.pow_succ]; congr 1; omega
    rw [this, Nat.mul_div_cancel_left _ (by decide : 0 < 2)]
  obtain ⟨a, ha, hale⟩ := c20_ceilTwoPower_spec mr
  have hmr64 : mr ≤ 2^64 := by
    have : 2^e / 2 ≤ 2^e := Nat.div_le_self _ _
    omega
  have hmin : ceilTwoPower mr ≤ 2^(e-1) := by
    have := c20_ceilTwoPower_go_min mr (e-1) (by rw [← hdiv]; exact hmr) 64 0 (Nat.zero_le _)
    simpa [ceilTwoPower] using this
  rw [ha] at hmin ⊢
  have hae : a ≤ e - 1 := (Nat.pow_le_pow_iff_right (by decide : 1 < 2)).mp hmin
  have hsplit : 2^e = 2^(e-a) * 2^a := by rw [← Nat.pow_add]; congr 1; omega
  have hcd : ceilDiv (2^e) (2^a) = 2^(e-a) := by
    unfold ceilDiv
    have hp := Nat.two_pow_pos a
    rw [hsplit, Nat.add_sub_assoc (by omega), Nat.add_comm, Nat.add_mul_div_right _ _ hp, Nat.div_eq_of_lt (by omega), Nat.zero_add]
  refine ⟨2^(e-a-1), e-a-1, ?_, ?_, rfl, by omega, hale hmr64⟩
  · rw [hcd]; exact hsplit
  · rw [hcd, Nat.mul_comm, ← Nat.pow_succ]; congr 1; omega

theorem c20_boltCrNew_ok {m r n N : Nat} {h : BoltCc} (hnew : BoltCc.newCr m r n N = .ok h) (hpow : ∃ e, N = 2^e) (hN64 : N < 2^64) :
    h.N = N ∧ h.mAll = m ∧ h.r = r ∧ h.nAll = n ∧ 0 < r ∧ ∃ half g, c20_CcOK h half g := by
  unfold BoltCc.newCr at hnew
  dsimp only at hnew
  split at hnew
  · cases hnew
  rename_i hc
  cases hnew
  have h1 : min (max m n) (N / 2) ≠ 0 := fun h => hc (Or.inl h)
  have h2 : r ≠ 0 := fun h => hc (Or.inr (Or.inl h))
  have h3 : N / 2 ≠ 0 := fun h => hc (Or.inr (Or.inr h))
  obtain ⟨half, g, e1, e2, e3, e4, e5⟩ := c20_boltCc_params hpow hN64 (Nat.min_le_right _ _) h3
  exact ⟨rfl, rfl, rfl, rfl, Nat.pos_of_ne_zero h2, half, g,
    { hN := e1, hgsc := e2, hhalf := e3, hg := e4, hm0 := Nat.pos_of_ne_zero h1, hmg := e5 }⟩

/-! ### `sum_inplace` -/

theorem c20_sumAll_go_succ (add : S → S → S) (z : S) (N f rc : Nat) (a : Array S) :
    boltSumAll.go add z N (f+1) rc a = if rc = N then a else
      boltSumAll.go add z N f (2 * rc) (slotZip add z N a (if rc < N / 2 then rotRows z N rc a else swapRows z N a)) := rfl

/-- the rotation phase: `j` more doublings starting from the sum over `2^k` columns -/
theorem c20_sumAll_phase [AddCommMonoid S] (half gap g : Nat) (hhalf : half = 2^g) (hgap : 0 < gap) (a : Array S) :
    ∀ j k f (ak : Array S), k + j = g →
      (∀ p, p < 2 * (half * gap) → ak.getD p 0 = ∑ d ∈ range (2^k), a.getD (c20_rho (half * gap) (d * gap) p) 0) →
      ∃ a', boltSumAll.go (· + ·) 0 (2 * (half * gap)) (f + j) (2^k * gap) ak
          = boltSumAll.go (· + ·) 0 (2 * (half * gap)) f (half * gap) a' ∧
        ∀ p, p < 2 * (half * gap) → a'.getD p 0 = ∑ d ∈ range half, a.getD (c20_rho (half * gap) (d * gap) p) 0 := by
  subst hhalf
  have hH : 0 < 2^g * gap := Nat.mul_pos (Nat.two_pow_pos g) hgap
  intro j
  induction j with
  | zero =>
    intro k f ak hk hak
    have : k = g := by omega
    subst this
    exact ⟨ak, rfl, hak⟩
  | succ j ih =>
    intro k f ak hk hak
    have hkg : k < g := by omega
    have hlt : 2^k * gap < 2^g * gap :=
      Nat.mul_lt_mul_of_pos_right (Nat.pow_lt_pow_right (by decide) hkg) hgap
    show ∃ a', boltSumAll.go (· + ·) 0 (2 * (2^g * gap)) ((f + j) + 1) (2^k * gap) ak = _ ∧ _
    rw [c20_sumAll_go_succ, if_neg (by omega), Nat.mul_div_cancel_left _ (by decide : 0 < 2), if_pos hlt]
    have e2 : 2 * (2^k * gap) = 2^(k+1) * gap := by rw [Nat.pow_succ]; ring
    rw [e2]
    apply ih (k+1) f _ (by omega)
    intro p hp
    rw [c20_slotZip_get _ _ _ _ _ hp, c20_rotRows_get 0 _ _ ak hp, hak p hp, hak _ (c20_rho_lt hH hp), Nat.pow_succ, Nat.mul_two,
      Finset.sum_range_add]
    congr 1
    apply Finset.sum_congr rfl
    intro d _
    rw [c20_rho_rho hH]
    congr 2
    ring

/-- **`sum_inplace`**: every column receives the sum of all columns (entry by entry) -/
theorem c20_boltSumAll_spec [AddCommMonoid S] (half gap g : Nat) (hhalf : half = 2^g) (hg : g ≤ 63) (hgap : 0 < gap) (a : Array S) :
    (boltSumAll (· + ·) 0 (2 * (half * gap)) gap a).size = 2 * (half * gap) ∧
    ∀ c j, c < 2 * half → j < gap →
      (boltSumAll (· + ·) 0 (2 * (half * gap)) gap a).getD (c * gap + j) 0 = ∑ c' ∈ range (2 * half), a.getD (c' * gap + j) 0 := by
  have hh : 0 < half := by rw [hhalf]; exact Nat.two_pow_pos g
  have hH : 0 < half * gap := Nat.mul_pos hh hgap
  obtain ⟨a', hgo, ha'⟩ := c20_sumAll_phase half gap g hhalf hgap a g 0 (63 - g + 1) a (by omega) (by
    intro p hp
    rw [Nat.pow_zero, Finset.sum_range_one, Nat.zero_mul]
    congr 1
    unfold c20_rho
    rw [Nat.add_zero, Nat.mod_mod, Nat.div_add_mod'])
  have hrun : boltSumAll (· + ·) 0 (2 * (half * gap)) gap a
      = slotZip (· + ·) 0 (2 * (half * gap)) a' (swapRows 0 (2 * (half * gap)) a') := by
    unfold boltSumAll
    have e64 : 64 = (63 - g + 1) + g := by omega
    rw [e64]
    rw [Nat.pow_zero, Nat.one_mul] at hgo
    rw [hgo, c20_sumAll_go_succ, if_neg (by omega), Nat.mul_div_cancel_left _ (by decide : 0 < 2), if_neg (by omega)]
    cases (63 - g) with
    | zero => rfl
    | succ f => rw [c20_sumAll_go_succ, if_pos rfl]
  rw [hrun]
  refine ⟨c20_slotZip_size _ _ _ _ _, ?_⟩
  intro c j hc hj
  have hp : c * gap + j < 2 * (half * gap) := by
    have := c20_succ_mul_le (ib := gap) hc
    rw [← Nat.mul_assoc]; omega
  -- the sum over one row
  have hrow : ∀ c0, c0 < 2 * half → (∑ d ∈ range half, a.getD (c20_rho (half * gap) (d * gap) (c0 * gap + j)) 0)
      = ∑ e ∈ range half, a.getD ((c0 / half * half + e) * gap + j) 0 := by
    intro c0 hc0
    have hp0 : c0 * gap + j < 2 * (half * gap) := by
      have := c20_succ_mul_le (ib := gap) hc0
      rw [← Nat.mul_assoc]; omega
    have e1 : ∀ d, c20_rho (half * gap) (d * gap) (c0 * gap + j) = (c0 / half * half + (d + c0 % half) % half) * gap + j := by
      intro d
      have := c20_rho_iter_col (irc := 1) hh d c0 j hc0 hj
      rw [Nat.one_mul, c20_rho_iter hH hp0, Nat.mul_one] at this
      rw [this, Nat.add_comm d]
    rw [Finset.sum_congr rfl (fun d _ => by rw [e1 d])]
    exact c20_sum_rot (fun e => a.getD ((c0 / half * half + e) * gap + j) 0) half (c0 % half)
  rw [c20_slotZip_get _ _ _ _ _ hp, c20_swapRows_get 0 _ a' hp, ha' _ hp, ha' _ (c20_sigma_lt hH), c20_sigma_col hh c j hj,
    hrow c hc, hrow _ (Nat.mod_lt _ (by omega)), Nat.two_mul, Finset.sum_range_add]
  rcases Nat.lt_or_ge c half with hlt | hge
  · have d1 : c / half = 0 := Nat.div_eq_of_lt hlt
    have d2 : (c + half) % (half + half) / half = 1 := by
      rw [Nat.mod_eq_of_lt (by omega)]; exact c20_div_half (by omega) (by omega)
    rw [d1, d2, Nat.zero_mul, Nat.one_mul]
    congr 1
    apply Finset.sum_congr rfl; intro e _; rw [Nat.zero_add]
  · have d1 : c / half = 1 := c20_div_half hge hc
    have d2 : (c + half) % (half + half) / half = 0 := by
      have e : c + half = c - half + (half + half) := by omega
      rw [e, Nat.add_mod_right, Nat.mod_eq_of_lt (by omega)]
      exact Nat.div_eq_of_lt (by omega)
    rw [d1, d2, Nat.zero_mul, Nat.one_mul, add_comm]
    congr 1
    apply Finset.sum_congr rfl; intro e _; rw [Nat.zero_add]

/-! ### rotations that stay inside a column -/

theorem c20_rho_incol_add {half gap : Nat} (hh : 0 < half) {c t a : Nat} (ht : t + a < gap) :
    c20_rho (half * gap) a (c * gap + t) = c * gap + (t + a) := by
  unfold c20_rho
  obtain ⟨d1, d2⟩ := c20_col_divmod (x := c) (w := half) (j := t) (gap := gap) hh (by omega)
  rw [d1, d2]
  have hlt : c % half * gap + t + a < half * gap := by
    have := c20_succ_mul_le (ib := gap) (Nat.mod_lt c hh); omega
  rw [Nat.mod_eq_of_lt hlt]
  have := Nat.div_add_mod' c half
  calc c / half * (half * gap) + (c % half * gap + t + a) = (c / half * half + c % half) * gap + (t + a) := by ring
    _ = _ := by rw [this]

theorem c20_rho_incol_sub {half gap : Nat} (hh : 0 < half) {c t d : Nat} (ht : t < gap) (hd : d ≤ t) :
    c20_rho (half * gap) (half * gap - d) (c * gap + t) = c * gap + (t - d) := by
  unfold c20_rho
  obtain ⟨d1, d2⟩ := c20_col_divmod (x := c) (w := half) (j := t) hh ht
  rw [d1, d2]
  have hlt : c % half * gap + t < half * gap := by
    have := c20_succ_mul_le (ib := gap) (Nat.mod_lt c hh); omega
  have e : c % half * gap + t + (half * gap - d) = c % half * gap + (t - d) + half * gap := by omega
  rw [e, Nat.add_mod_right, Nat.mod_eq_of_lt (by omega)]
  have := Nat.div_add_mod' c half
  calc c / half * (half * gap) + (c % half * gap + (t - d)) = (c / half * half + c % half) * gap + (t - d) := by ring
    _ = _ := by rw [this]

/-! ### the weight encoder (row-major strips) -/

theorem c20_boltCrEncW_spec (z : S) (h : BoltCc) {half g : Nat} (ok : c20_CcOK h half g) (b : Nat → S) (blen cs ce i : Nat) :
    ∃ arr, boltCrEncW h z b blen cs ce i = .ok arr ∧ arr.size = h.N ∧
      ∀ c j, c < h.gsc → j < h.gap → arr.getD (c * h.gap + j) z =
        if (i * h.gsc + c < h.r ∧ j < min h.m (ce - cs)) ∧ (i * h.gsc + c) * h.nAll + j + cs < blen
        then b ((i * h.gsc + c) * h.nAll + j + cs) else z := by
  unfold boltCrEncW
  have hmemI : ∀ rj : Nat × Nat, rj ∈ ((pairs (min h.r (i * h.gsc + h.gsc) - i * h.gsc) (min h.m (ce - cs))).filter
      fun rj => (i * h.gsc + rj.1) * h.nAll + rj.2 + cs < blen) ↔
      (rj.1 < min h.r (i * h.gsc + h.gsc) - i * h.gsc ∧ rj.2 < min h.m (ce - cs)) ∧ (i * h.gsc + rj.1) * h.nAll + rj.2 + cs < blen := by
    intro rj
    rw [List.mem_filter, c20_mem_pairs, decide_eq_true_eq]
  have hmod : ∀ c, c < h.gsc → (i * h.gsc + c) % h.gsc = c := fun c hc => (c20_divmod hc).2
  have hmg := ok.hmg
  obtain ⟨arr, hok, hsz, hz, hv⟩ := c20_scatter_map z h.N h.N
    ((pairs (min h.r (i * h.gsc + h.gsc) - i * h.gsc) (min h.m (ce - cs))).filter
      fun rj => (i * h.gsc + rj.1) * h.nAll + rj.2 + cs < blen)
    (fun rj => (i * h.gsc + rj.1) % h.gsc * h.gap + rj.2) (fun rj => b ((i * h.gsc + rj.1) * h.nAll + rj.2 + cs))
    (by
      intro rj hrj
      obtain ⟨⟨h1, h2⟩, _⟩ := (hmemI rj).mp hrj
      have hc : rj.1 < h.gsc := by omega
      show (i * h.gsc + rj.1) % h.gsc * h.gap + rj.2 < h.N ∧ (i * h.gsc + rj.1) % h.gsc * h.gap + rj.2 < h.N
      rw [hmod _ hc, ok.hN]
      have := c20_succ_mul_le (ib := h.gap) hc
      omega)
    (by
      intro k hk k' hk' heq
      obtain ⟨⟨h1, h2⟩, _⟩ := (hmemI k).mp hk
      obtain ⟨⟨h1', h2'⟩, _⟩ := (hmemI k').mp hk'
      have hc : k.1 < h.gsc := by omega
      have hc' : k'.1 < h.gsc := by omega
      have heq' : (i * h.gsc + k.1) % h.gsc * h.gap + k.2 = (i * h.gsc + k'.1) % h.gsc * h.gap + k'.2 := heq
      rw [hmod _ hc, hmod _ hc'] at heq'
      obtain ⟨e2, e1⟩ := c20_digit_unique (W := h.gap) (by omega) (by omega) heq'
      show b _ = b _
      rw [e1, e2])
  refine ⟨arr, hok, hsz, ?_⟩
  intro c j hc hj
  split
  · rename_i hcond
    have hin : (c, j) ∈ ((pairs (min h.r (i * h.gsc + h.gsc) - i * h.gsc) (min h.m (ce - cs))).filter
        fun rj => (i * h.gsc + rj.1) * h.nAll + rj.2 + cs < blen) :=
      (hmemI (c, j)).mpr ⟨⟨by show c < _; omega, hcond.1.2⟩, hcond.2⟩
    have := hv (c, j) hin
    simp only [hmod c hc] at this
    exact this
  · rename_i hcond
    apply hz
    intro k hk heq
    obtain ⟨⟨h1, h2⟩, h3⟩ := (hmemI k).mp hk
    have hck : k.1 < h.gsc := by omega
    have heq' : (i * h.gsc + k.1) % h.gsc * h.gap + k.2 = c * h.gap + j := heq
    rw [hmod _ hck] at heq'
    obtain ⟨e2, e1⟩ := c20_digit_unique (W := h.gap) hj (by omega) heq'
    apply hcond
    rw [← e1, ← e2]
    exact ⟨⟨by omega, h2⟩, h3⟩

/-- the weight polynomial of column strip `q`, row group `i` -/
def c20_crW (z : S) (h : BoltCc) (w : Nat → S) (q i : Nat) : Array S :=
  c20_val #[] (boltCrEncW h z w (h.r * h.nAll) (q * h.m) (min (q * h.m + h.m) h.nAll) i)

theorem c20_boltCrEncodeWeights_ok (z : S) (h : BoltCc) {half g : Nat} (ok : c20_CcOK h half g) (w : Nat → S) :
    boltCrEncodeWeights h z w (h.r * h.nAll)
      = .ok ((List.range (ceilDiv h.nAll h.m)).map fun q => (List.range (ceilDiv h.r h.gsc)).map fun i => c20_crW z h w q i) := by
  unfold boltCrEncodeWeights
  rw [if_neg (by simp)]
  apply c20_mapM_eq
  intro q _
  apply c20_mapM_eq
  intro i _
  obtain ⟨arr, hok, _⟩ := c20_boltCrEncW_spec z h ok w (h.r * h.nAll) (q * h.m) (min (q * h.m + h.m) h.nAll) i
  exact c20_val_ok #[] hok

theorem c20_crW_get (z : S) (h : BoltCc) {half g : Nat} (ok : c20_CcOK h half g) (w : Nat → S) (q i : Nat) {c j : Nat}
    (hc : c < h.gsc) (hj : j < h.gap) :
    (c20_crW z h w q i).size = h.N ∧
    (c20_crW z h w q i).getD (c * h.gap + j) z =
      if i * h.gsc + c < h.r ∧ q * h.m + j < min (q * h.m + h.m) h.nAll then w ((i * h.gsc + c) * h.nAll + (q * h.m + j)) else z := by
  obtain ⟨arr, hok, hsz, hget⟩ := c20_boltCrEncW_spec z h ok w (h.r * h.nAll) (q * h.m) (min (q * h.m + h.m) h.nAll) i
  have e : c20_crW z h w q i = arr := by unfold c20_crW; rw [hok]; rfl
  rw [e, hget c j hc hj]
  refine ⟨hsz, ?_⟩
  by_cases hcond : i * h.gsc + c < h.r ∧ q * h.m + j < min (q * h.m + h.m) h.nAll
  · have h1 := c20_succ_mul_le (ib := h.nAll) hcond.1
    rw [if_pos ⟨⟨hcond.1, by omega⟩, by omega⟩, if_pos hcond]
    congr 1; omega
  · rw [if_neg (fun hc' => hcond ⟨hc'.1.1, by have := hc'.1.2; omega⟩), if_neg hcond]

/-! ### `MatmulBoltCcCrSmall::multiply` -/

theorem c20_unwrapAcc_getD {o : Option (Array S)} (h : o ≠ none) : unwrapAcc o = .ok (o.getD #[]) := by
  cases o with
  | none => exact absurd rfl h
  | some v => rfl

theorem c20_og_getD [Zero S] {o : Option (Array S)} (h : o ≠ none) (p : Nat) : (o.getD #[]).getD p 0 = c20_og o p := by
  cases o with
  | none => exact absurd rfl h
  | some v => rfl

theorem c20_list_sum_single {M : Type} [AddCommMonoid M] (l : List Nat) (hnd : l.Nodup) (F : Nat → M) (x0 : Nat)
    (hz : ∀ x ∈ l, x ≠ x0 → F x = 0) : (l.map F).sum = if x0 ∈ l then F x0 else 0 := by
  rw [← List.sum_toFinset F hnd]
  by_cases hx : x0 ∈ l
  · rw [if_pos hx]
    exact Finset.sum_eq_single_of_mem x0 (List.mem_toFinset.mpr hx) (fun b hb hne => hz b (List.mem_toFinset.mp hb) hne)
  · rw [if_neg hx]
    exact Finset.sum_eq_zero (fun b hb => hz b (List.mem_toFinset.mp hb) (fun h => hx (h ▸ List.mem_toFinset.mp hb)))

/-- the product of the rotated weight polynomials and the input polynomials, summed over the polynomials (`Option` fold) -/
def c20_crPsO [Add S] [Mul S] [Zero S] (N ic : Nat) (fa fb : Nat → Array S) (rot : Nat) : Option (Array S) :=
  (List.range ic).foldl (fun acc i => accAdd (· + ·) 0 N acc (slotZip (· * ·) 0 N (rotRows 0 N rot (fb i)) (fa i))) none

/-- one `diag` call of `multiply`: the masked all-column sum -/
def c20_crDiag [Add S] [Mul S] [Zero S] (h : BoltCc) (ic : Nat) (fa fb : Nat → Array S) (rot lo hi : Nat) : Array S :=
  slotMask 0 h.N lo hi (boltSumAll (· + ·) 0 h.N h.gap ((c20_crPsO h.N ic fa fb rot).getD #[]))

theorem c20_crDiag_get [CommRing S] (h : BoltCc) {half g : Nat} (ok : c20_CcOK h half g) (ic : Nat) (hic : 0 < ic)
    (fa fb : Nat → Array S) (rot lo hi : Nat) {c j : Nat} (hc : c < h.gsc) (hj : j < h.gap) :
    (c20_crDiag h ic fa fb rot lo hi).size = h.N ∧
    (c20_crDiag h ic fa fb rot lo hi).getD (c * h.gap + j) 0 =
      if lo ≤ c * h.gap + j ∧ c * h.gap + j < hi then
        ∑ c' ∈ range h.gsc, ∑ i ∈ range ic,
          (fb i).getD (c20_rho (half * h.gap) rot (c' * h.gap + j)) 0 * (fa i).getD (c' * h.gap + j) 0
      else 0 := by
  have hp : c * h.gap + j < h.N := by rw [ok.hN]; have := c20_succ_mul_le (ib := h.gap) hc; omega
  unfold c20_crDiag
  refine ⟨c20_slotMask_size _ _ _ _ _, ?_⟩
  rw [c20_slotMask_get _ _ _ _ _ hp]
  split
  · have hne : c20_crPsO h.N ic fa fb rot ≠ none :=
      c20_accFold_ne_none _ _ _ _ _ (Or.inl (by intro h0; have := congrArg List.length h0; simp at this; omega))
    have hs := (c20_boltSumAll_spec half h.gap g ok.hhalf ok.hg ok.gap_pos ((c20_crPsO h.N ic fa fb rot).getD #[])).2 c j
      (by rw [← ok.hgsc]; exact hc) hj
    rw [← ok.hN2, ← ok.hgsc] at hs
    rw [hs]
    apply Finset.sum_congr rfl
    intro c' hc'
    have hp' : c' * h.gap + j < h.N := by
      rw [ok.hN]; have := c20_succ_mul_le (ib := h.gap) (Finset.mem_range.mp hc'); omega
    rw [c20_og_getD hne]
    unfold c20_crPsO
    rw [c20_accFold_og h.N _ hp', c20_list_sum_range]
    show 0 + _ = _
    rw [zero_add]
    apply Finset.sum_congr rfl
    intro i _
    rw [c20_slotZip_get _ _ _ _ _ hp']
    congr 1
    have hp2 := hp'
    rw [ok.hN2] at hp2 ⊢
    exact c20_rotRows_get 0 _ _ _ hp2
  · rfl

theorem c20_col_eq {gap σ τ u : Nat} (hu : u < gap) (h1 : τ * gap ≤ σ * gap + u) (h2 : σ * gap + u < τ * gap + gap) : σ = τ := by
  rcases Nat.lt_trichotomy σ τ with hlt | heq | hgt
  · have := c20_succ_mul_le (ib := gap) hlt; omega
  · exact heq
  · have := c20_succ_mul_le (ib := gap) hgt; omega

/-- **`MatmulBoltCcCrSmall::multiply`** on ANY input polynomials `fa i` (column-major block of the LHS) and weight polynomials `fb i`
    (row-major block of the RHS): never fails; diagonal `sh` of the block product is found at polynomial `sh / gsc`, column
    `sh mod gsc`: entry `u` holds `Σ_c Σ_i (fb i)[c][(u + sh) mod m] · (fa i)[c][u]` -/
theorem c20_crMulSmall_spec [CommRing S] (h : BoltCc) {half g : Nat} (ok : c20_CcOK h half g) (ic : Nat) (hic : 0 < ic)
    (fa fb : Nat → Array S) :
    ∃ Yq, boltCrMulSmall h (· + ·) (· * ·) 0 ((List.range ic).map fa) ((List.range ic).map fb) = .ok Yq ∧
      Yq.length = ceilDiv h.m h.gsc ∧
      ∀ sh u, sh < h.m → u < h.m → ∃ v, Yq[sh / h.gsc]? = some v ∧ v.size = h.N ∧
        v.getD (sh % h.gsc * h.gap + u) 0
          = ∑ c ∈ range h.gsc, ∑ i ∈ range ic, (fb i).getD (c * h.gap + (u + sh) % h.m) 0 * (fa i).getD (c * h.gap + u) 0 := by
  have hh := ok.half_pos
  have hgs := ok.gsc_pos
  have hmg := ok.hmg
  have hH : h.N / 2 = half * h.gap := ok.hNdiv
  have hgapH : h.gap ≤ half * h.gap := Nat.le_mul_of_pos_left _ hh
  unfold boltCrMulSmall
  simp only [List.length_map, List.length_range, ne_eq, not_true_eq_false, if_false]
  refine c20_mapM_spec' _ (fun (o : Nat) (v : Array S) => v.size = h.N ∧ ∀ σ u, σ < h.gsc → o * h.gsc + σ < h.m → u < h.m →
      v.getD (σ * h.gap + u) 0 = ∑ c ∈ range h.gsc, ∑ i ∈ range ic,
        (fb i).getD (c * h.gap + (u + (o * h.gsc + σ)) % h.m) 0 * (fa i).getD (c * h.gap + u) 0) _ _ ?_ ?_
  swap
  · intro Yq hlen hall
    refine ⟨by simpa using hlen, ?_⟩
    intro sh u hsh hu
    have ho : sh / h.gsc < ceilDiv h.m h.gsc := c20_div_lt_ceilDiv hgs hsh
    obtain ⟨v, hv, hP⟩ := hall (sh / h.gsc) (by simpa using ho)
    rw [List.getElem_range] at hP
    refine ⟨v, hv, hP.1, ?_⟩
    have := hP.2 (sh % h.gsc) u (Nat.mod_lt _ hgs) (by rw [Nat.div_add_mod']; exact hsh) hu
    rw [Nat.div_add_mod'] at this
    exact this
  intro o ho
  have ho' : o < ceilDiv h.m h.gsc := List.mem_range.mp ho
  have hbind : ∀ {α β : Type} (a : α) (f : α → R β), (Except.ok a >>= f) = f a := fun _ _ => rfl
  have hne0 : ∀ rot, c20_crPsO h.N ic fa fb rot ≠ none := fun rot =>
    c20_accFold_ne_none _ _ _ _ _ (Or.inl (by intro h0; have := congrArg List.length h0; simp at this; omega))
  have hdiag : ∀ (rot lo hi : Nat) (acc : Option (Array S)),
      (do
        let ps ← (List.range ic).foldlM (fun (acc : Option (Array S)) i => do
          let ai ← getSlots ((List.range ic).map fa) i
          let bi ← getSlots ((List.range ic).map fb) i
          (pure (accAdd (· + ·) 0 h.N acc (slotZip (· * ·) 0 h.N (rotRows 0 h.N rot bi) ai)) : R (Option (Array S)))) none
        let ps ← unwrapAcc ps
        (pure (accAdd (· + ·) 0 h.N acc (slotMask 0 h.N lo hi (boltSumAll (· + ·) 0 h.N h.gap ps))) : R (Option (Array S))))
      = .ok (accAdd (· + ·) 0 h.N acc (c20_crDiag h ic fa fb rot lo hi)) := by
    intro rot lo hi acc
    rw [c20_foldlM_pure _ (fun acc i => accAdd (· + ·) 0 h.N acc (slotZip (· * ·) 0 h.N (rotRows 0 h.N rot (fb i)) (fa i)))]
    swap
    · intro st i hi
      rw [c20_getSlots_map _ _ _ (List.mem_range.mp hi), c20_getSlots_map _ _ _ (List.mem_range.mp hi)]
      rfl
    simp only [hbind]
    have := c20_unwrapAcc_getD (hne0 rot)
    unfold c20_crPsO at this
    rw [this]
    rfl
  rw [c20_foldlM_pure _ (fun acc sh => accAdd (· + ·) 0 h.N acc
    (c20_crDiag h ic fa fb (sh % (h.N / 2)) (sh % h.gsc * h.gap) (sh % h.gsc * h.gap + h.m - sh)))
    _ _ (fun st sh _ => hdiag _ _ _ st)]
  simp only [hbind]
  rw [c20_foldlM_pure _ (fun acc sh => accAdd (· + ·) 0 h.N acc
    (c20_crDiag h ic fa fb ((h.N / 2 - (h.m - sh) % (h.N / 2)) % (h.N / 2)) (sh % h.gsc * h.gap + h.m - sh) (sh % h.gsc * h.gap + h.m)))
    _ _ (fun st sh _ => hdiag _ _ _ st)]
  -- the accumulated diagonals
  have hosh : o * h.gsc < h.m := by
    have h1 : (o + 1) * h.gsc ≤ h.m + h.gsc - 1 := by
      rw [← Nat.le_div_iff_mul_le hgs]; exact ho'
    rw [Nat.succ_mul] at h1
    omega
  have hmem1 : ∀ sh, sh ∈ ((List.range h.m).filter fun sh => sh / h.gsc = o) ↔ sh < h.m ∧ sh / h.gsc = o := by
    intro sh; rw [List.mem_filter, List.mem_range, decide_eq_true_eq]
  have hmem2 : ∀ sh, sh ∈ ((List.range h.m).reverse.filter fun sh => sh ≠ 0 ∧ sh / h.gsc = o) ↔ sh < h.m ∧ sh ≠ 0 ∧ sh / h.gsc = o := by
    intro sh; rw [List.mem_filter, List.mem_reverse, List.mem_range, decide_eq_true_eq]
  have hl1 : ((List.range h.m).filter fun sh => sh / h.gsc = o) ≠ [] :=
    List.ne_nil_of_mem ((hmem1 (o * h.gsc)).mpr ⟨hosh, Nat.mul_div_cancel _ hgs⟩)
  have hnd1 : ((List.range h.m).filter fun sh => sh / h.gsc = o).Nodup := List.nodup_range.filter _
  have hnd2 : ((List.range h.m).reverse.filter fun sh => sh ≠ 0 ∧ sh / h.gsc = o).Nodup :=
    (List.nodup_reverse.mpr List.nodup_range).filter _
  have hne := c20_accFold_ne_none (· + ·) h.N
    (fun sh => c20_crDiag h ic fa fb ((h.N / 2 - (h.m - sh) % (h.N / 2)) % (h.N / 2)) (sh % h.gsc * h.gap + h.m - sh) (sh % h.gsc * h.gap + h.m))
    ((List.range h.m).reverse.filter fun sh => sh ≠ 0 ∧ sh / h.gsc = o) _
    (Or.inr (c20_accFold_ne_none (· + ·) h.N
      (fun sh => c20_crDiag h ic fa fb (sh % (h.N / 2)) (sh % h.gsc * h.gap) (sh % h.gsc * h.gap + h.m - sh))
      ((List.range h.m).filter fun sh => sh / h.gsc = o) none (Or.inl hl1)))
  have hwf := c20_accFold_wf (· + ·) h.N
    (fun sh => c20_crDiag h ic fa fb ((h.N / 2 - (h.m - sh) % (h.N / 2)) % (h.N / 2)) (sh % h.gsc * h.gap + h.m - sh) (sh % h.gsc * h.gap + h.m))
    ((List.range h.m).reverse.filter fun sh => sh ≠ 0 ∧ sh / h.gsc = o) _
    (fun x _ => (c20_crDiag_get h ok ic hic fa fb _ _ _ hgs ok.gap_pos).1)
    (c20_accFold_wf (· + ·) h.N
      (fun sh => c20_crDiag h ic fa fb (sh % (h.N / 2)) (sh % h.gsc * h.gap) (sh % h.gsc * h.gap + h.m - sh))
      ((List.range h.m).filter fun sh => sh / h.gsc = o) none
      (fun x _ => (c20_crDiag_get h ok ic hic fa fb _ _ _ hgs ok.gap_pos).1) (c20_wf_none _))
  refine ⟨_, c20_unwrapAcc_getD hne, ?_, ?_⟩
  · obtain ⟨v, hv⟩ := Option.ne_none_iff_exists'.mp hne
    rw [hv]; exact hwf v hv
  intro σ u hσ hsh0 hu
  have hug : u < h.gap := by omega
  have hp : σ * h.gap + u < h.N := by rw [ok.hN]; have := c20_succ_mul_le (ib := h.gap) hσ; omega
  obtain ⟨d0, m0⟩ := c20_divmod (X := o) hσ
  rw [c20_og_getD hne, c20_accFold_og h.N _ hp, c20_accFold_og h.N _ hp]
  -- only the shift `o·gsc + σ` reaches column `σ`
  have hz1 : ∀ x ∈ ((List.range h.m).filter fun sh => sh / h.gsc = o), x ≠ o * h.gsc + σ →
      (c20_crDiag h ic fa fb (x % (h.N / 2)) (x % h.gsc * h.gap) (x % h.gsc * h.gap + h.m - x)).getD (σ * h.gap + u) 0 = 0 := by
    intro x hx hne'
    obtain ⟨hx1, hx2⟩ := (hmem1 x).mp hx
    rw [(c20_crDiag_get h ok ic hic fa fb _ _ _ hσ hug).2, if_neg]
    rintro ⟨c1, c2⟩
    have : σ = x % h.gsc := c20_col_eq hug c1 (by omega)
    have := Nat.div_add_mod' x h.gsc
    rw [hx2] at this
    omega
  have hz2 : ∀ x ∈ ((List.range h.m).reverse.filter fun sh => sh ≠ 0 ∧ sh / h.gsc = o), x ≠ o * h.gsc + σ →
      (c20_crDiag h ic fa fb ((h.N / 2 - (h.m - x) % (h.N / 2)) % (h.N / 2)) (x % h.gsc * h.gap + h.m - x)
        (x % h.gsc * h.gap + h.m)).getD (σ * h.gap + u) 0 = 0 := by
    intro x hx hne'
    obtain ⟨hx1, _, hx2⟩ := (hmem2 x).mp hx
    rw [(c20_crDiag_get h ok ic hic fa fb _ _ _ hσ hug).2, if_neg]
    rintro ⟨c1, c2⟩
    have : σ = x % h.gsc := c20_col_eq hug (by omega) (by omega)
    have := Nat.div_add_mod' x h.gsc
    rw [hx2] at this
    omega
  rw [c20_list_sum_single _ hnd1 _ (o * h.gsc + σ) hz1, c20_list_sum_single _ hnd2 _ (o * h.gsc + σ) hz2,
    if_pos ((hmem1 _).mpr ⟨hsh0, d0⟩), (c20_crDiag_get h ok ic hic fa fb _ _ _ hσ hug).2,
    (c20_crDiag_get h ok ic hic fa fb _ _ _ hσ hug).2, m0, hH]
  show 0 + _ + _ = _
  rw [zero_add]
  have hc2h : ∀ c', c' ∈ range h.gsc → c' < 2 * half := fun c' hc' => by rw [← ok.hgsc]; exact Finset.mem_range.mp hc'
  rcases Nat.lt_or_ge u (h.m - (o * h.gsc + σ)) with hlo | hhi
  · -- the part of the diagonal that does not wrap
    rw [if_pos ⟨by omega, by omega⟩]
    have h2z : (if o * h.gsc + σ ∈ ((List.range h.m).reverse.filter fun sh => sh ≠ 0 ∧ sh / h.gsc = o) then
        (if σ * h.gap + h.m - (o * h.gsc + σ) ≤ σ * h.gap + u ∧ σ * h.gap + u < σ * h.gap + h.m then
          ∑ c' ∈ range h.gsc, ∑ i ∈ range ic,
            (fb i).getD (c20_rho (half * h.gap) ((half * h.gap - (h.m - (o * h.gsc + σ)) % (half * h.gap)) % (half * h.gap))
              (c' * h.gap + u)) 0 * (fa i).getD (c' * h.gap + u) 0
        else 0) else (0 : S)) = 0 := by
      split
      · rw [if_neg]; omega
      · rfl
    rw [h2z, add_zero]
    apply Finset.sum_congr rfl; intro c' hc'
    apply Finset.sum_congr rfl; intro i _
    rw [Nat.mod_eq_of_lt (by omega : o * h.gsc + σ < half * h.gap),
      c20_rho_incol_add hh (by omega : u + (o * h.gsc + σ) < h.gap), Nat.mod_eq_of_lt (by omega : u + (o * h.gsc + σ) < h.m)]
  · -- the wrapped part
    have hsh0ne : o * h.gsc + σ ≠ 0 := by omega
    rw [if_neg (by omega), zero_add, if_pos ((hmem2 _).mpr ⟨hsh0, hsh0ne, d0⟩), if_pos ⟨by omega, by omega⟩]
    apply Finset.sum_congr rfl; intro c' hc'
    apply Finset.sum_congr rfl; intro i _
    have e1 : (h.m - (o * h.gsc + σ)) % (half * h.gap) = h.m - (o * h.gsc + σ) := Nat.mod_eq_of_lt (by omega)
    have e2 : (half * h.gap - (h.m - (o * h.gsc + σ))) % (half * h.gap) = half * h.gap - (h.m - (o * h.gsc + σ)) :=
      Nat.mod_eq_of_lt (by omega)
    have e3 : (u + (o * h.gsc + σ)) % h.m = u - (h.m - (o * h.gsc + σ)) := by
      have e : u + (o * h.gsc + σ) = (u - (h.m - (o * h.gsc + σ))) + h.m := by omega
      rw [e, Nat.add_mod_right, Nat.mod_eq_of_lt (by omega)]
    rw [e1, e2, c20_rho_incol_sub hh hug hhi, e3]

/-! ### decoding by diagonals -/

/-- `decode_outputs` (cc_cr) over all blocks, for ANY family of polynomial sets whose reads succeed (value `V i j sh u`) and carry
    `F row col` at the read position of every entry inside the matrix -/
theorem c20_boltCrDecode_spec (z : S) (h : BoltCc) (hm : 0 < h.m) (Y : List (List (Array S))) (F : Nat → Nat → S)
    (V : Nat → Nat → Nat → Nat → S) (hlen : Y.length = ceilDiv h.mAll h.m * ceilDiv h.nAll h.m)
    (hY : ∀ i j, i < ceilDiv h.mAll h.m → j < ceilDiv h.nAll h.m → ∃ part, getRow Y (i * ceilDiv h.nAll h.m + j) = .ok part ∧
      ∀ sh u, sh < h.m → u < h.m → ∃ poly, getSlots part (sh / h.gsc) = .ok poly ∧
        readAt poly (sh % h.gsc * h.gap + u) = .ok (V i j sh u) ∧
        (i * h.m + u < h.mAll → j * h.m + (u + sh) % h.m < h.nAll → V i j sh u = F (i * h.m + u) (j * h.m + (u + sh) % h.m))) :
    ∃ out, boltCrDecodeOutputs h z Y = .ok out ∧ out.size = h.mAll * h.nAll ∧
      ∀ row col, row < h.mAll → col < h.nAll → out.getD (row * h.nAll + col) z = F row col := by
  let ws : List (List (Nat × S)) := (pairs (ceilDiv h.mAll h.m) (ceilDiv h.nAll h.m)).map fun ij =>
    ((((pairs h.m h.m).map fun su => (su.2, (su.2 + su.1) % h.m, V ij.1 ij.2 su.1 su.2)).filter
      fun e => ij.1 * h.m + e.1 < h.mAll ∧ ij.2 * h.m + e.2.1 < h.nAll).map
      fun e => ((ij.1 * h.m + e.1) * h.nAll + (ij.2 * h.m + e.2.1), e.2.2))
  have hmem : ∀ pv, pv ∈ ws.flatten ↔ ∃ i j sh u, (i < ceilDiv h.mAll h.m ∧ j < ceilDiv h.nAll h.m) ∧ (sh < h.m ∧ u < h.m) ∧
      (i * h.m + u < h.mAll ∧ j * h.m + (u + sh) % h.m < h.nAll) ∧
      pv = ((i * h.m + u) * h.nAll + (j * h.m + (u + sh) % h.m), V i j sh u) := by
    intro pv
    simp only [ws, List.mem_flatten, List.mem_map]
    constructor
    · rintro ⟨l, ⟨ij, hij, rfl⟩, hpv⟩
      obtain ⟨e, he, rfl⟩ := List.mem_map.mp hpv
      rw [List.mem_filter, decide_eq_true_eq] at he
      obtain ⟨su, hsu, rfl⟩ := List.mem_map.mp he.1
      exact ⟨ij.1, ij.2, su.1, su.2, c20_mem_pairs.mp hij, c20_mem_pairs.mp hsu, he.2, rfl⟩
    · rintro ⟨i, j, sh, u, hij, hsu, hin, rfl⟩
      refine ⟨_, ⟨(i, j), c20_mem_pairs.mpr hij, rfl⟩, List.mem_map.mpr ⟨(u, (u + sh) % h.m, V i j sh u), ?_, rfl⟩⟩
      rw [List.mem_filter, decide_eq_true_eq]
      exact ⟨List.mem_map.mpr ⟨(sh, u), c20_mem_pairs.mpr hsu, rfl⟩, hin⟩
  have hrun : boltCrDecodeOutputs h z Y = scatterA z (h.mAll * h.nAll) (h.mAll * h.nAll) ws.flatten := by
    unfold boltCrDecodeOutputs
    simp only [hlen, ne_eq, not_true_eq_false, if_false]
    rw [c20_mapM_eq _ (fun ij => ((((pairs h.m h.m).map fun su => (su.2, (su.2 + su.1) % h.m, V ij.1 ij.2 su.1 su.2)).filter
      fun e => ij.1 * h.m + e.1 < h.mAll ∧ ij.2 * h.m + e.2.1 < h.nAll).map
      fun e => ((ij.1 * h.m + e.1) * h.nAll + (ij.2 * h.m + e.2.1), e.2.2)))]
    · rfl
    intro ij hij
    obtain ⟨hi, hj⟩ := c20_mem_pairs.mp hij
    obtain ⟨part, hpart, hread⟩ := hY ij.1 ij.2 hi hj
    rw [hpart]
    have hbind : ∀ {α β : Type} (a : α) (f : α → R β), (Except.ok a >>= f) = f a := fun _ _ => rfl
    simp only [hbind]
    rw [c20_mapM_eq _ (fun su => (su.2, (su.2 + su.1) % h.m, V ij.1 ij.2 su.1 su.2))]
    · rfl
    intro su hsu
    obtain ⟨h1, h2⟩ := c20_mem_pairs.mp hsu
    obtain ⟨poly, hpoly, hr, _⟩ := hread su.1 su.2 h1 h2
    rw [hpoly]
    simp only [hbind]
    rw [hr]
    rfl
  have hb : ∀ pv ∈ ws.flatten, pv.1 < h.mAll * h.nAll ∧ pv.1 < (Array.replicate (h.mAll * h.nAll) z).size := by
    intro pv hpv
    obtain ⟨i, j, sh, u, _, _, hin, rfl⟩ := (hmem pv).mp hpv
    have h4 := c20_succ_mul_le (ib := h.nAll) hin.1
    simp only [Array.size_replicate]
    constructor <;> omega
  obtain ⟨out, hout, hsz, _, hval⟩ := c20_scatter_fold (h.mAll * h.nAll) ws.flatten (Array.replicate (h.mAll * h.nAll) z) hb
  refine ⟨out, by rw [hrun]; exact hout, by simpa using hsz, ?_⟩
  intro row col hrow hcol
  have er : row / h.m * h.m + row % h.m = row := Nat.div_add_mod' row h.m
  have ec : col / h.m * h.m + col % h.m = col := Nat.div_add_mod' col h.m
  have hmr := Nat.mod_lt row hm
  have hmc := Nat.mod_lt col hm
  -- the shift of the diagonal through (row, col)
  have hsh : (row % h.m + (col % h.m + h.m - row % h.m) % h.m) % h.m = col % h.m := by
    rcases Nat.lt_or_ge (col % h.m) (row % h.m) with hlt | hge
    · rw [Nat.mod_eq_of_lt (by omega : col % h.m + h.m - row % h.m < h.m)]
      have e : row % h.m + (col % h.m + h.m - row % h.m) = col % h.m + h.m := by omega
      rw [e, Nat.add_mod_right, Nat.mod_mod]
    · have e : col % h.m + h.m - row % h.m = (col % h.m - row % h.m) + h.m := by omega
      rw [e, Nat.add_mod_right, Nat.mod_eq_of_lt (by omega : col % h.m - row % h.m < h.m)]
      have e2 : row % h.m + (col % h.m - row % h.m) = col % h.m := by omega
      rw [e2, Nat.mod_mod]
  have hin : (row * h.nAll + col, F row col) ∈ ws.flatten := by
    rw [hmem]
    refine ⟨row / h.m, col / h.m, (col % h.m + h.m - row % h.m) % h.m, row % h.m,
      ⟨c20_div_lt_ceilDiv hm hrow, c20_div_lt_ceilDiv hm hcol⟩, ⟨Nat.mod_lt _ hm, hmr⟩, ?_, ?_⟩
    · rw [hsh, er, ec]; exact ⟨hrow, hcol⟩
    · obtain ⟨part, _, hread⟩ := hY (row / h.m) (col / h.m) (c20_div_lt_ceilDiv hm hrow) (c20_div_lt_ceilDiv hm hcol)
      obtain ⟨_, _, _, hV⟩ := hread ((col % h.m + h.m - row % h.m) % h.m) (row % h.m) (Nat.mod_lt _ hm) hmr
      rw [hV (by rw [er]; exact hrow) (by rw [hsh, ec]; exact hcol), hsh, er, ec]
  have huniq : ∀ pv ∈ ws.flatten, pv.1 = row * h.nAll + col → pv.2 = F row col := by
    intro pv hpv heq
    obtain ⟨i, j, sh, u, ⟨hi, hj⟩, ⟨hs, hu⟩, hin', rfl⟩ := (hmem pv).mp hpv
    obtain ⟨e2, e1⟩ := c20_digit_unique (W := h.nAll) hcol hin'.2 heq
    obtain ⟨part, _, hread⟩ := hY i j hi hj
    obtain ⟨_, _, _, hV⟩ := hread sh u hs hu
    show V i j sh u = F row col
    rw [hV hin'.1 hin'.2, e1, e2]
  have := hval (row * h.nAll + col) (F row col) hin huniq
  rw [Array.getD_eq_getD_getElem?, this]; rfl

/-! ### end to end -/

theorem c20_boltCrEncodeInputs_ok (z : S) (h : BoltCc) {half g : Nat} (ok : c20_CcOK h half g) (x : Nat → S) :
    boltCrEncodeInputs h z x (h.mAll * h.r)
      = .ok ((List.range (ceilDiv h.mAll h.m)).map fun p => (List.range (ceilDiv h.r h.gsc)).map fun i =>
          c20_colMajorArr z h.N h.gap h.gsc h.m h.mAll h.r x p i) := by
  unfold boltCrEncodeInputs
  rw [if_neg (by simp)]
  exact c20_boltRowParts_ok z h.N h.gap h.gsc h.m h.mAll h.r x ok.hN ok.hmg

/-- **`MatmulBoltCcCr`, whole pipeline** (any commutative ring, every helper satisfying `c20_CcOK`, `r > 0`): encode the LHS column-major
    and the RHS row-major, run `multiply` on the slot vectors for every block pair (rotate the RHS, multiply, `sum_inplace`, mask
    the diagonal, accumulate) and decode by diagonals: the result is `x · w`, row major `m × n` -/
theorem c20_boltCr_whole [CommRing S] (h : BoltCc) {half g : Nat} (ok : c20_CcOK h half g) (hr : 0 < h.r) (x w : Nat → S) :
    ∃ X W Y out, boltCrEncodeInputs h 0 x (h.mAll * h.r) = .ok X ∧ boltCrEncodeWeights h 0 w (h.r * h.nAll) = .ok W ∧
      boltCrMultiply h (· + ·) (· * ·) 0 X W = .ok Y ∧ boltCrDecodeOutputs h 0 Y = .ok out ∧ out.size = h.mAll * h.nAll ∧
      ∀ i j, i < h.mAll → j < h.nAll → out.getD (i * h.nAll + j) 0 = ∑ k ∈ range h.r, x (i * h.r + k) * w (k * h.nAll + j) := by
  have hgs := ok.gsc_pos
  have hic : 0 < ceilDiv h.r h.gsc := c20_ceilDiv_pos hr hgs
  have hbind : ∀ {α β : Type} (a : α) (f : α → R β), (Except.ok a >>= f) = f a := fun _ _ => rfl
  let Xr : Nat → List (Array S) := fun p => (List.range (ceilDiv h.r h.gsc)).map fun i =>
    c20_colMajorArr 0 h.N h.gap h.gsc h.m h.mAll h.r x p i
  let Wr : Nat → List (Array S) := fun q => (List.range (ceilDiv h.r h.gsc)).map fun i => c20_crW 0 h w q i
  have hmul : boltCrMultiply h (· + ·) (· * ·) 0 ((List.range (ceilDiv h.mAll h.m)).map Xr) ((List.range (ceilDiv h.nAll h.m)).map Wr)
      = .ok ((pairs (ceilDiv h.mAll h.m) (ceilDiv h.nAll h.m)).map fun ij =>
          c20_val [] (boltCrMulSmall h (· + ·) (· * ·) 0 (Xr ij.1) (Wr ij.2))) := by
    unfold boltCrMultiply
    simp only [List.length_map, List.length_range, ne_eq, not_true_eq_false, or_self, if_false]
    apply c20_mapM_eq
    intro ij hij
    obtain ⟨hi, hj⟩ := c20_mem_pairs.mp hij
    rw [c20_getRow_map _ _ _ hi, c20_getRow_map _ _ _ hj]
    simp only [hbind]
    obtain ⟨Yq, hYq, _⟩ := c20_crMulSmall_spec h ok (ceilDiv h.r h.gsc) hic
      (fun i => c20_colMajorArr 0 h.N h.gap h.gsc h.m h.mAll h.r x ij.1 i) (fun i => c20_crW 0 h w ij.2 i)
    exact c20_val_ok [] hYq
  obtain ⟨out, hout, hosz, hoval⟩ := c20_boltCrDecode_spec (0 : S) h ok.hm0
    ((pairs (ceilDiv h.mAll h.m) (ceilDiv h.nAll h.m)).map fun ij =>
      c20_val [] (boltCrMulSmall h (· + ·) (· * ·) 0 (Xr ij.1) (Wr ij.2)))
    (fun row col => ∑ k ∈ range h.r, x (row * h.r + k) * w (k * h.nAll + col))
    (fun p q sh u => ∑ c ∈ range h.gsc, ∑ i ∈ range (ceilDiv h.r h.gsc),
      (c20_crW 0 h w q i).getD (c * h.gap + (u + sh) % h.m) 0
        * (c20_colMajorArr 0 h.N h.gap h.gsc h.m h.mAll h.r x p i).getD (c * h.gap + u) 0)
    (by rw [List.length_map, c20_pairs_eq, List.length_map, List.length_range])
    (by
      intro p q hp hq
      obtain ⟨Yq, hYq, _, hv⟩ := c20_crMulSmall_spec h ok (ceilDiv h.r h.gsc) hic
        (fun i => c20_colMajorArr 0 h.N h.gap h.gsc h.m h.mAll h.r x p i) (fun i => c20_crW 0 h w q i)
      have eY : c20_val [] (boltCrMulSmall h (· + ·) (· * ·) 0 (Xr p) (Wr q)) = Yq := by
        show c20_val [] (boltCrMulSmall h (· + ·) (· * ·) 0 ((List.range _).map _) ((List.range _).map _)) = Yq
        rw [hYq]; rfl
      refine ⟨Yq, by unfold getRow; rw [c20_pairs_map_getElem? _ _ _ _ _ hp hq, eY], ?_⟩
      intro sh u hsh hu
      obtain ⟨v, hvg, hvs, hvv⟩ := hv sh u hsh hu
      have hug : u < h.gap := by have := ok.hmg; omega
      have hlt : sh % h.gsc * h.gap + u < v.size := by
        rw [hvs, ok.hN]; have := c20_succ_mul_le (ib := h.gap) (Nat.mod_lt sh hgs); omega
      refine ⟨v, by unfold getSlots; rw [hvg], by rw [c20_readAt_getD 0 v hlt, hvv], ?_⟩
      intro hrow hcol
      have hjg : (u + sh) % h.m < h.gap := by have := Nat.mod_lt (u + sh) ok.hm0; have := ok.hmg; omega
      have hjm : (u + sh) % h.m < h.m := Nat.mod_lt _ ok.hm0
      let G : Nat → S := fun k => if k < h.r then w (k * h.nAll + (q * h.m + (u + sh) % h.m)) * x ((p * h.m + u) * h.r + k) else 0
      have hterm : ∀ c, c < h.gsc → ∀ i,
          (c20_crW 0 h w q i).getD (c * h.gap + (u + sh) % h.m) 0
            * (c20_colMajorArr 0 h.N h.gap h.gsc h.m h.mAll h.r x p i).getD (c * h.gap + u) 0 = G (i * h.gsc + c) := by
        intro c hc i
        rw [(c20_crW_get 0 h ok w q i hc hjg).2, (c20_colMajorArr_get 0 h.N h.gap h.gsc h.m h.mAll h.r x ok.hN ok.hmg p i hc hug).2]
        show _ = if _ < h.r then _ else 0
        by_cases hk : i * h.gsc + c < h.r
        · rw [if_pos ⟨hk, by omega⟩, if_pos ⟨by omega, hk⟩, if_pos hk]
        · rw [if_neg (fun hc' => hk hc'.1), if_neg hk, zero_mul]
      rw [Finset.sum_congr rfl (fun c hc => Finset.sum_congr rfl (fun i _ => hterm c (Finset.mem_range.mp hc) i)), Finset.sum_comm,
        c20_sum_range_mul G]
      have hsub : range h.r ⊆ range (ceilDiv h.r h.gsc * h.gsc) := by
        intro k hk
        have := c20_le_ceilDiv_mul h.r h.gsc hgs
        exact Finset.mem_range.mpr (lt_of_lt_of_le (Finset.mem_range.mp hk) this)
      rw [← Finset.sum_subset hsub (fun k _ hk => by
        show (if k < h.r then _ else 0) = 0
        rw [if_neg (fun hlt => hk (Finset.mem_range.mpr hlt))])]
      apply Finset.sum_congr rfl
      intro k hk
      show (if k < h.r then _ else 0) = _
      rw [if_pos (Finset.mem_range.mp hk), mul_comm])
  exact ⟨_, _, _, out, c20_boltCrEncodeInputs_ok 0 h ok x, c20_boltCrEncodeWeights_ok 0 h ok w, hmul, hout, hosz, hoval⟩

/-- **... for every helper `MatmulBoltCcCr::new` accepts** (`N` a power of two in the `usize` range) -/
theorem c20_boltCr_new [CommRing S] {m r n N : Nat} {h : BoltCc} (hnew : BoltCc.newCr m r n N = .ok h) (hpow : ∃ e, N = 2^e)
    (hN64 : N < 2^64) (x w : Nat → S) :
    ∃ X W Y out, boltCrEncodeInputs h 0 x (m * r) = .ok X ∧ boltCrEncodeWeights h 0 w (r * n) = .ok W ∧
      boltCrMultiply h (· + ·) (· * ·) 0 X W = .ok Y ∧ boltCrDecodeOutputs h 0 Y = .ok out ∧ out.size = m * n ∧
      ∀ i j, i < m → j < n → out.getD (i * n + j) 0 = ∑ k ∈ range r, x (i * r + k) * w (k * n + j) := by
  obtain ⟨_, hm, hr, hn, hr0, half, g, ok⟩ := c20_boltCrNew_ok hnew hpow hN64
  have := c20_boltCr_whole h ok (by rw [hr]; exact hr0) x w
  rw [hm, hr, hn] at this
  exact this

end HC
