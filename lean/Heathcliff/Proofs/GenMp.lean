/-
  Generated skeletons of src/multiparty/participant.rs (Gen/MpFns.lean) = the round functions of Model/Multiparty.lean.
-/
import Heathcliff.Gen.MpFns
namespace HC
open HC.MP

variable {α : Type}

/-! ### one draw -/

@[simp] theorem genmp_ok_bind {β γ : Type} (a : β) (f : β → R γ) : ((Except.ok a : R β) >>= f) = f a := rfl

theorem genmp_draw_hit (k : DrawKind) (x : α) (rest : Tape α) : draw k ((k, x) :: rest) = .ok (x, rest) := by
  simp [draw]

theorem genmp_sample_noise (o : Ops α) (sch : Scheme) (t : Nat) (e : α) (rest : Tape α) :
    GenMp.sample_noise o sch t true ((.cbd, e) :: rest) = (do let x ← noiseOf o sch t e; pure (x, rest)) := by
  unfold GenMp.sample_noise noiseOf
  by_cases h : sch = .bgv <;> simp [h, genmp_draw_hit, bind, Except.bind, pure, Except.pure]

/-! ### constructors on ciphertexts -/

theorem genmp_key_switch (o : Ops α) (sch : Scheme) (t count pid : Nat) (ntt : Bool) (s s' c1 e : α) (rest : Tape α) :
    GenMp.key_switch o sch t count pid 2 ntt s s' c1 ((.cbd, e) :: rest)
      = (do let h ← ksShare o sch t ntt s s' c1 e; pure (Reveal.new count pid h, rest)) := by
  unfold GenMp.key_switch ksShare
  cases ntt <;> simp [need, Reveal.new, genmp_sample_noise, genmp_ok_bind, bind_assoc, pure_bind]

theorem genmp_decrypt (o : Ops α) (sch : Scheme) (t count pid : Nat) (ntt : Bool) (s c1 e : α) (rest : Tape α) :
    GenMp.decrypt o sch t count pid 2 false true ntt s c1 ((.cbd, e) :: rest)
      = (do let h ← decShare o sch t ntt s c1 e; pure (Reveal.new count pid h, rest)) := by
  unfold GenMp.decrypt decShare
  cases ntt <;> simp [need, Reveal.new, genmp_sample_noise, genmp_ok_bind, bind_assoc, pure_bind, Gen.HE_CIPHERTEXT_SIZE_MIN]

theorem genmp_public_key_switch (o : Ops α) (sch : Scheme) (t count pid : Nat) (ntt : Bool) (s c1 p0 p1 u e0 e1 : α) (rest : Tape α) :
    GenMp.public_key_switch o sch t count pid 2 ntt s c1 p0 p1 ((.ternary, u) :: (.cbd, e0) :: (.cbd, e1) :: rest)
      = (do let h ← pksShare o sch t ntt s c1 p0 p1 u e0 e1
            pure (Reveal.new count pid h.1, Reveal.new count pid h.2, rest)) := by
  unfold GenMp.public_key_switch pksShare
  cases ntt <;> simp [need, Reveal.new, genmp_draw_hit, genmp_sample_noise, genmp_ok_bind, bind_assoc, pure_bind]

/-! ### PolynomialRevelationProtocol -/

theorem genmp_reveal_receive (p : Reveal α) (sender : Nat) (m : α) (rest : List α) :
    GenMp.reveal_receive p sender (m :: rest) = (do let p' ← p.receive sender m; pure (p', rest)) := by
  unfold GenMp.reveal_receive Reveal.receive nextPoly setP
  by_cases h : sender < p.slots.length <;> simp [h, genmp_ok_bind, bind, Except.bind, pure, Except.pure]

/-- `send` does not look at the slots -/
theorem genmp_reveal_send_receive (p : Reveal α) (sender : Nat) (m : α) (p' : Reveal α) (h : p.receive sender m = .ok p') :
    GenMp.reveal_send p' = GenMp.reveal_send p := by
  unfold Reveal.receive at h
  by_cases hs : sender < p.slots.length <;> simp [hs] at h
  subst h; rfl

theorem genmp_allSent (id : Nat) (l : List (Option α)) : ∀ i,
    enumAllFrom (fun i (x : Option α) => x.isSome || i == id) i l = allSentFrom id i l := by
  induction l with
  | nil => intro i; rfl
  | cons x xs ih => intro i; simp [enumAllFrom, allSentFrom, ih]

theorem genmp_sumSlots (add : α → α → R α) (id : Nat) (l : List (Option α)) : ∀ i acc, allSentFrom id i l = true →
    enumForFrom (fun i x acc => match x with | some m => add acc m | none => do need (i == id); pure acc) i l acc
      = sumSlots add acc l := by
  induction l with
  | nil => intro i acc _; rfl
  | cons x xs ih =>
    intro i acc h
    simp only [allSentFrom, Bool.and_eq_true, Bool.or_eq_true] at h
    cases x with
    | none =>
      have hi : (i == id) = true := by simpa using h.1
      simp only [enumForFrom, sumSlots, need, hi, genmp_ok_bind, ite_true, pure, Except.pure]
      exact ih (i + 1) acc h.2
    | some m =>
      simp only [enumForFrom, sumSlots]
      cases add acc m with
      | error e => rfl
      | ok a => exact ih (i + 1) a h.2

theorem genmp_reveal_finish (o : Ops α) (plainAdd : α → α → R α) (p : Reveal α) :
    GenMp.reveal_finish o plainAdd false p = p.finish o := by
  unfold GenMp.reveal_finish Reveal.finish Reveal.allSent
  rw [genmp_allSent]
  by_cases h : allSentFrom p.id 0 p.slots = true
  · simp only [h, need, ite_true, genmp_ok_bind, Bool.not_false]
    exact genmp_sumSlots o.add p.id p.slots 0 p.own h
  · simp only [h, need]; rfl

/-! ### `finish` of the protocol objects -/

theorem genmp_key_switch_finish (o : Ops α) (pa : α → α → R α) (c0 c1 : α) (p : Reveal α) :
    GenMp.key_switch_finish o c0 c1 pa p = (do let h ← p.finish o; let c ← addToC0 o c0 h; pure (c, c1)) := by
  unfold GenMp.key_switch_finish addToC0; rw [genmp_reveal_finish]

theorem genmp_decrypt_finish (o : Ops α) (pa : α → α → R α) (c0 c1 : α) (p : Reveal α) :
    GenMp.decrypt_finish o c0 c1 pa p = (do let h ← p.finish o; addToC0 o c0 h) := by
  unfold GenMp.decrypt_finish addToC0; rw [genmp_reveal_finish]

theorem genmp_public_key_switch_finish (o : Ops α) (pa : α → α → R α) (c0 c1 : α) (p0 p1 : Reveal α) :
    GenMp.public_key_switch_finish o c0 c1 pa p0 p1
      = (do let h0 ← p0.finish o; let h1 ← p1.finish o; let c ← addToC0 o c0 h0; pure (c, h1)) := by
  unfold GenMp.public_key_switch_finish addToC0; simp only [genmp_reveal_finish]

theorem genmp_public_key_finish (o : Ops α) (pa : α → α → R α) (c0 c1 : α) (p : Reveal α) :
    GenMp.public_key_finish o c0 c1 pa p = (do let h ← p.finish o; pure (h, c1)) := by
  unfold GenMp.public_key_finish; rw [genmp_reveal_finish]

/-! ### receive wrappers and a whole delivery history through the GENERATED `receive` -/

theorem genmp_key_switch_receive (p : Reveal α) (sender : Nat) (m : α) (rest : List α) :
    GenMp.key_switch_receive p sender (m :: rest) = (do let p' ← p.receive sender m; pure (p', rest)) := by
  unfold GenMp.key_switch_receive; rw [genmp_reveal_receive]; simp [bind_assoc]

theorem genmp_decrypt_receive (p : Reveal α) (sender : Nat) (m : α) (rest : List α) :
    GenMp.decrypt_receive p sender (m :: rest) = (do let p' ← p.receive sender m; pure (p', rest)) := by
  unfold GenMp.decrypt_receive; rw [genmp_reveal_receive]; simp [bind_assoc]

theorem genmp_public_key_receive (p : Reveal α) (sender : Nat) (m : α) (rest : List α) :
    GenMp.public_key_receive p sender (m :: rest) = (do let p' ← p.receive sender m; pure (p', rest)) := by
  unfold GenMp.public_key_receive; rw [genmp_reveal_receive]; simp [bind_assoc]

/-- the public-key switch message is TWO polynomials: the first goes to the h0 object, the second to the h1 object, same slot -/
theorem genmp_public_key_switch_receive (p0 p1 : Reveal α) (sender : Nat) (m0 m1 : α) (rest : List α) :
    GenMp.public_key_switch_receive p0 p1 sender (m0 :: m1 :: rest)
      = (do let p0' ← p0.receive sender m0; let p1' ← p1.receive sender m1; pure (p0', p1', rest)) := by
  unfold GenMp.public_key_switch_receive
  rw [genmp_reveal_receive]
  cases p0.receive sender m0 with
  | error e => rfl
  | ok q => simp [genmp_ok_bind, genmp_reveal_receive, bind_assoc]

/-- a delivery history fed message by message to the generated `receive` -/
def genRecvAll (p : Reveal α) : List (Nat × α) → R (Reveal α)
  | [] => .ok p
  | (s, m) :: rest => match GenMp.reveal_receive p s [m] with
    | .ok (p', _) => genRecvAll p' rest
    | .error e => .error e

theorem genmp_recvAll (d : List (Nat × α)) : ∀ p : Reveal α, genRecvAll p d = p.receiveAll d := by
  induction d with
  | nil => intro p; rfl
  | cons x xs ih =>
    intro p; obtain ⟨s, m⟩ := x
    simp only [genRecvAll, Reveal.receiveAll, genmp_reveal_receive]
    cases p.receive s m with
    | error e => rfl
    | ok q => simp [genmp_ok_bind, pure, Except.pure, ih]

/-- generated receive* + generated finish = the model's `revealRun` -/
theorem genmp_run (o : Ops α) (pa : α → α → R α) (count id : Nat) (own : α) (d : List (Nat × α)) :
    (do let p ← genRecvAll (Reveal.new count id own) d; GenMp.reveal_finish o pa false p) = revealRun o count id own d := by
  unfold revealRun; rw [genmp_recvAll]
  cases (Reveal.new count id own).receiveAll d with
  | error e => rfl
  | ok q => simp [genmp_ok_bind, genmp_reveal_finish]
