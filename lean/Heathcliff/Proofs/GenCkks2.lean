import Heathcliff.Proofs.GenCkks

/- Translator phase 4k, second part (worker Y): the DISPATCH of the generated `encode_internal_c64_array` / `encode_internal_f64_polynomial`
   (Gen/CkksFns.lean) as an equality, and the assembled integer stage for the ≤ 64-bit and ≤ 128-bit paths.
   `gkRow64` / `gkRow128` / `gkRowBig` are the row bodies EXACTLY as generated (copied text; the unfolding theorems below are `rfl`, so any
   change of the generated dispatch or of a row body breaks them). -/
namespace HC
open Ckks GenK

def gkRow64 (moduli : List Modulus) (v2 : Nat) (rc : List Int) (v5 : Nat) (dest : List Nat) : R (List Nat) := do
  let v1 : Nat := moduli.length
  let t4 ← idxI rc v5
  let v6 : Int := t4
  let v7 : Bool := decide (v6 < 0)
  let v8 : Nat := (fToU64 (fabs v6))
  let dest ← (if (v7 = true) then (do
      let dest ← forRange 0 v1 dest (fun v9 dest => do
          let t5 ← ckMul v9 v2
          let t6 ← ckAdd v5 t5
          let t7 ← idxT moduli v9
          let t8 ← GenP.mod_reduce t7 v8
          let t9 ← idxT moduli v9
          let t10 ← GenW.negate_u64_mod t8 t9
          let dest ← setIdx dest t6 t10
          pure dest
        )
      pure dest
    ) else (do
      let dest ← forRange 0 v1 dest (fun v10 dest => do
          let t11 ← ckMul v10 v2
          let t12 ← ckAdd v5 t11
          let t13 ← idxT moduli v10
          let t14 ← GenP.mod_reduce t13 v8
          let dest ← setIdx dest t12 t14
          pure dest
        )
      pure dest
    ) : R (List Nat))
  pure dest

def gkRow128 (moduli : List Modulus) (v2 : Nat) (rc : List Int) (v11 : Nat) (dest : List Nat) : R (List Nat) := do
  let v1 : Nat := moduli.length
  let t15 ← idxI rc v11
  let v12 : Int := t15
  let v13 : Bool := decide (v12 < 0)
  let v12 : Int := (fabs v12)
  let dest ← (if (v13 = true) then (do
      let dest ← forRange 0 v1 dest (fun v14 dest => do
          let t16 ← ckMul v14 v2
          let t17 ← ckAdd v11 t16
          let t18 ← idxT moduli v14
          let t19 ← GenW.barrett_reduce_u128 (fToU64 (fmod64 v12)) (fToU64 (fdiv64 v12)) t18
          let t20 ← idxT moduli v14
          let t21 ← GenW.negate_u64_mod t19 t20
          let dest ← setIdx dest t17 t21
          pure dest
        )
      pure dest
    ) else (do
      let dest ← forRange 0 v1 dest (fun v15 dest => do
          let t22 ← ckMul v15 v2
          let t23 ← ckAdd v11 t22
          let t24 ← idxT moduli v15
          let t25 ← GenW.barrett_reduce_u128 (fToU64 (fmod64 v12)) (fToU64 (fdiv64 v12)) t24
          let dest ← setIdx dest t23 t25
          pure dest
        )
      pure dest
    ) : R (List Nat))
  pure dest

def gkRowBig (moduli : List Modulus) (v2 : Nat) (rc : List Int) (decompose : List Nat → R (List Nat)) (v16 : Nat) (dest : List Nat) : R (List Nat) := do
  let v1 : Nat := moduli.length
  let t26 ← idxI rc v16
  let v17 : Int := t26
  let v18 : Bool := decide (v17 < 0)
  let v17 : Int := (fabs v17)
  let v19 : List Nat := (List.replicate v1 0)
  let v20 : Nat := 0
  let (v19, v17, v20) ← whileFuel (fun (v19, v17, v20) => decide (v17 ≥ 1)) (fun (v19, v17, v20) => do
      let v19 ← setIdx v19 v20 (fToU64 (fmod64 v17))
      let v17 : Int := (fdiv64 v17)
      let t27 ← ckAdd v20 1
      let v20 : Nat := t27
      pure (v19, v17, v20)
    ) (Int.natAbs v17 + 1) (v19, v17, v20)
  let t28 ← decompose v19
  let v19 : List Nat := t28
  let dest ← (if (v18 = true) then (do
      let dest ← forRange 0 v1 dest (fun v21 dest => do
          let t29 ← ckMul v21 v2
          let t30 ← ckAdd v16 t29
          let t31 ← idx v19 v21
          let t32 ← idxT moduli v21
          let t33 ← GenW.negate_u64_mod t31 t32
          let dest ← setIdx dest t30 t33
          pure dest
        )
      pure dest
    ) else (do
      let dest ← forRange 0 v1 dest (fun v22 dest => do
          let t34 ← ckMul v22 v2
          let t35 ← ckAdd v16 t34
          let t36 ← idx v19 v22
          let dest ← setIdx dest t35 t36
          pure dest
        )
      pure dest
    ) : R (List Nat))
  pure dest

/-- the three-way selection on the bit count, EXACTLY as generated: `<= 64`, else `<= 128`, else the multi-word rows -/
def gkStageRaw (bits n : Nat) (moduli : List Modulus) (cc : Nat) (rc : List Int) (decompose : List Nat → R (List Nat)) (dest : List Nat) : R (List Nat) :=
  (if (bits ≤ 64) then (do
      let dest ← forRange 0 n dest (gkRow64 moduli cc rc)
      pure dest
    ) else (do
      let dest ← (if (bits ≤ 128) then (do
          let dest ← forRange 0 n dest (gkRow128 moduli cc rc)
          pure dest
        ) else (do
          let dest ← forRange 0 n dest (gkRowBig moduli cc rc decompose)
          pure dest
        ) : R (List Nat))
      pure dest
    ) : R (List Nat))

/-- … the same without the administrative `pure`s -/
def gkStage (bits n : Nat) (moduli : List Modulus) (cc : Nat) (rc : List Int) (decompose : List Nat → R (List Nat)) (dest : List Nat) : R (List Nat) :=
  if bits ≤ 64 then forRange 0 n dest (gkRow64 moduli cc rc)
  else if bits ≤ 128 then forRange 0 n dest (gkRow128 moduli cc rc)
  else forRange 0 n dest (gkRowBig moduli cc rc decompose)

theorem gkStageRaw_eq (bits n : Nat) (moduli : List Modulus) (cc : Nat) (rc : List Int) (decompose : List Nat → R (List Nat)) (dest : List Nat) :
    gkStageRaw bits n moduli cc rc decompose dest = gkStage bits n moduli cc rc decompose dest := by
  unfold gkStageRaw gkStage
  by_cases h1 : bits ≤ 64 <;> by_cases h2 : bits ≤ 128 <;> simp only [h1, h2, if_true, if_false, bind_pure]

/-- DISPATCH EQUALITY (definitional: `rfl`): the generated `encode_internal_c64_array` is its guards, the scan over ALL entries, the refusal,
    the resize, then the three-way selection at the scanned bit count over `2·slots` coefficients, the table-count assertion and `ntt_p` -/
theorem gk_c64_array_unfold (valid is_ckks : Bool) (nvalues slots : Nat) (scale_ok : Bool) (total_bits : Nat) (moduli : List Modulus)
    (degree ntt_len : Nat) (cb : List Nat) (rc : List Int) (decompose : List Nat → R (List Nat)) (nttP : List Nat → Nat → R (List Nat)) (dest : List Nat) :
    encode_internal_c64_array valid is_ckks nvalues slots scale_ok total_bits moduli degree ntt_len cb rc decompose nttP dest =
      (if ¬ (valid = true) then .error .refused else
       if ¬ (is_ckks = true) then .error .refused else
       if nvalues > slots then .error .refused else
       if ¬ (scale_ok = true) then .error .refused else do
       let n ← ckMul slots 2
       let mb ← maxAll cb
       if satAdd mb 1 ≥ total_bits then .error .refused else do
       let sz ← ckMul degree moduli.length
       let d ← gkStageRaw (satAdd mb 1) n moduli degree rc decompose (resizeL dest sz)
       if ntt_len ≠ moduli.length then .error .refused else
       (nttP d degree >>= fun t => pure t)) := rfl

/-- the same for `encode_internal_f64_polynomial`: `nvalues ≤ 2·slots` coefficients, resize and zero-fill BEFORE the scan -/
theorem gk_f64_polynomial_unfold (valid is_ckks : Bool) (nvalues slots : Nat) (scale_ok : Bool) (total_bits : Nat) (moduli : List Modulus)
    (degree ntt_len : Nat) (cb : List Nat) (rc : List Int) (decompose : List Nat → R (List Nat)) (nttP : List Nat → Nat → R (List Nat)) (dest : List Nat) :
    encode_internal_f64_polynomial valid is_ckks nvalues slots scale_ok total_bits moduli degree ntt_len cb rc decompose nttP dest =
      (if ¬ (valid = true) then .error .refused else
       if ¬ (is_ckks = true) then .error .refused else do
       let n2 ← ckMul slots 2
       if nvalues > n2 then .error .refused else
       if ¬ (scale_ok = true) then .error .refused else do
       let sz ← ckMul degree moduli.length
       let mb ← maxAll cb
       if satAdd mb 1 ≥ total_bits then .error .refused else do
       let d ← gkStageRaw (satAdd mb 1) nvalues moduli degree rc decompose (fillL (resizeL dest sz) 0)
       if ntt_len ≠ moduli.length then .error .refused else
       (nttP d degree >>= fun t => pure t)) := rfl

end HC
