import Heathcliff.Proofs.GenCkks

/- Translator phase 4k, second part (worker Y): the DISPATCH of the generated `encode_internal_c64_array` / `encode_internal_f64_polynomial`
   (Gen/CkksFns.lean) as an equality, and the assembled integer stage for the ≤ 64-bit and ≤ 128-bit paths.
   `gkRow64` / `gkRow128` / `gkRowBig` are the row bodies EXACTLY as generated (copied text; the unfolding theorems below are `rfl`, so any
   change of the generated dispatch or of a row body breaks them). -/
namespace HC
open Ckks GenK

/-- the six inner `for j` bodies, EXACTLY as generated (i = coefficient index, cc = coeff_count) -/
def gkNeg64 (moduli : List Modulus) (v2 v5 v8 : Nat) (v9 : Nat) (dest : List Nat) : R (List Nat) := do
  let t5 ← ckMul v9 v2
  let t6 ← ckAdd v5 t5
  let t7 ← idxT moduli v9
  let t8 ← GenP.mod_reduce t7 v8
  let t9 ← idxT moduli v9
  let t10 ← GenW.negate_u64_mod t8 t9
  let dest ← setIdx dest t6 t10
  pure dest
def gkPos64 (moduli : List Modulus) (v2 v5 v8 : Nat) (v10 : Nat) (dest : List Nat) : R (List Nat) := do
  let t11 ← ckMul v10 v2
  let t12 ← ckAdd v5 t11
  let t13 ← idxT moduli v10
  let t14 ← GenP.mod_reduce t13 v8
  let dest ← setIdx dest t12 t14
  pure dest
def gkNeg128 (moduli : List Modulus) (v2 v11 : Nat) (v12 : Int) (v14 : Nat) (dest : List Nat) : R (List Nat) := do
  let t16 ← ckMul v14 v2
  let t17 ← ckAdd v11 t16
  let t18 ← idxT moduli v14
  let t19 ← GenW.barrett_reduce_u128 (fToU64 (fmod64 v12)) (fToU64 (fdiv64 v12)) t18
  let t20 ← idxT moduli v14
  let t21 ← GenW.negate_u64_mod t19 t20
  let dest ← setIdx dest t17 t21
  pure dest
def gkPos128 (moduli : List Modulus) (v2 v11 : Nat) (v12 : Int) (v15 : Nat) (dest : List Nat) : R (List Nat) := do
  let t22 ← ckMul v15 v2
  let t23 ← ckAdd v11 t22
  let t24 ← idxT moduli v15
  let t25 ← GenW.barrett_reduce_u128 (fToU64 (fmod64 v12)) (fToU64 (fdiv64 v12)) t24
  let dest ← setIdx dest t23 t25
  pure dest

def gkRow64 (moduli : List Modulus) (v2 : Nat) (rc : List Int) (v5 : Nat) (dest : List Nat) : R (List Nat) := do
  let v1 : Nat := moduli.length
  let t4 ← idxI rc v5
  let v6 : Int := t4
  let v7 : Bool := decide (v6 < 0)
  let v8 : Nat := (fToU64 (fabs v6))
  let dest ← (if (v7 = true) then (do
      let dest ← forRange 0 v1 dest (gkNeg64 moduli v2 v5 v8)
      pure dest
    ) else (do
      let dest ← forRange 0 v1 dest (gkPos64 moduli v2 v5 v8)
      pure dest
    ) : R (List Nat))
  pure dest

def gkRow128 (moduli : List Modulus) (v2 : Nat) (rc : List Int) (v11 : Nat) (dest : List Nat) : R (List Nat) := do
  let v1 : Nat := moduli.length
  let t15 ← idxI rc v11
  let v12 : Int := t15
  let v13 : Bool := decide (v12 < 0)
  let v12 : Int := (fabs v12)
  let dest ← (if (v13 = true) then (do
      let dest ← forRange 0 v1 dest (gkNeg128 moduli v2 v11 v12)
      pure dest
    ) else (do
      let dest ← forRange 0 v1 dest (gkPos128 moduli v2 v11 v12)
      pure dest
    ) : R (List Nat))
  pure dest

def gkRowBig (moduli : List Modulus) (v2 : Nat) (rc : List Int) (decompose : List Nat → R (List Nat)) (v16 : Nat) (dest : List Nat) : R (List Nat) := do
  let v1 : Nat := moduli.length
  let t26 ← idxI rc v16
  let v17 : Int := t26
  let v18 : Bool := decide (v17 < 0)
  let v17 : Int := (fabs v17)
  let v19 : List Nat := (List.replicate v1 0)
  let v20 : Nat := 0
  let (v19, v17, v20) ← whileFuel (fun (v19, v17, v20) => decide (v17 ≥ 1)) (fun (v19, v17, v20) => do
      let v19 ← setIdx v19 v20 (fToU64 (fmod64 v17))
      let v17 : Int := (fdiv64 v17)
      let t27 ← ckAdd v20 1
      let v20 : Nat := t27
      pure (v19, v17, v20)
    ) (Int.natAbs v17 + 1) (v19, v17, v20)
  let t28 ← decompose v19
  let v19 : List Nat := t28
  let dest ← (if (v18 = true) then (do
      let dest ← forRange 0 v1 dest (fun v21 dest => do
          let t29 ← ckMul v21 v2
          let t30 ← ckAdd v16 t29
          let t31 ← idx v19 v21
          let t32 ← idxT moduli v21
          let t33 ← GenW.negate_u64_mod t31 t32
          let dest ← setIdx dest t30 t33
          pure dest
        )
      pure dest
    ) else (do
      let dest ← forRange 0 v1 dest (fun v22 dest => do
          let t34 ← ckMul v22 v2
          let t35 ← ckAdd v16 t34
          let t36 ← idx v19 v22
          let dest ← setIdx dest t35 t36
          pure dest
        )
      pure dest
    ) : R (List Nat))
  pure dest

/-- the three-way selection on the bit count, EXACTLY as generated: `<= 64`, else `<= 128`, else the multi-word rows -/
def gkStageRaw (bits n : Nat) (moduli : List Modulus) (cc : Nat) (rc : List Int) (decompose : List Nat → R (List Nat)) (dest : List Nat) : R (List Nat) :=
  (if (bits ≤ 64) then (do
      let dest ← forRange 0 n dest (gkRow64 moduli cc rc)
      pure dest
    ) else (do
      let dest ← (if (bits ≤ 128) then (do
          let dest ← forRange 0 n dest (gkRow128 moduli cc rc)
          pure dest
        ) else (do
          let dest ← forRange 0 n dest (gkRowBig moduli cc rc decompose)
          pure dest
        ) : R (List Nat))
      pure dest
    ) : R (List Nat))

/-- … the same without the administrative `pure`s -/
def gkStage (bits n : Nat) (moduli : List Modulus) (cc : Nat) (rc : List Int) (decompose : List Nat → R (List Nat)) (dest : List Nat) : R (List Nat) :=
  if bits ≤ 64 then forRange 0 n dest (gkRow64 moduli cc rc)
  else if bits ≤ 128 then forRange 0 n dest (gkRow128 moduli cc rc)
  else forRange 0 n dest (gkRowBig moduli cc rc decompose)

theorem gkStageRaw_eq (bits n : Nat) (moduli : List Modulus) (cc : Nat) (rc : List Int) (decompose : List Nat → R (List Nat)) (dest : List Nat) :
    gkStageRaw bits n moduli cc rc decompose dest = gkStage bits n moduli cc rc decompose dest := by
  unfold gkStageRaw gkStage
  by_cases h1 : bits ≤ 64 <;> by_cases h2 : bits ≤ 128 <;> simp only [h1, h2, if_true, if_false, bind_pure]

/-- DISPATCH EQUALITY (definitional: `rfl`): the generated `encode_internal_c64_array` is its guards, the scan over ALL entries, the refusal,
    the resize, then the three-way selection at the scanned bit count over `2·slots` coefficients, the table-count assertion and `ntt_p` -/
theorem gk_c64_array_unfold (valid is_ckks : Bool) (nvalues slots : Nat) (scale_ok : Bool) (total_bits : Nat) (moduli : List Modulus)
    (degree ntt_len : Nat) (cb : List Nat) (rc : List Int) (decompose : List Nat → R (List Nat)) (nttP : List Nat → Nat → R (List Nat)) (dest : List Nat) :
    encode_internal_c64_array valid is_ckks nvalues slots scale_ok total_bits moduli degree ntt_len cb rc decompose nttP dest =
      (if ¬ (valid = true) then .error .refused else
       if ¬ (is_ckks = true) then .error .refused else
       if nvalues > slots then .error .refused else
       if ¬ (scale_ok = true) then .error .refused else do
       let n ← ckMul slots 2
       let mb ← maxAll cb
       if satAdd mb 1 ≥ total_bits then .error .refused else do
       let sz ← ckMul degree moduli.length
       let d ← gkStageRaw (satAdd mb 1) n moduli degree rc decompose (resizeL dest sz)
       if ntt_len ≠ moduli.length then .error .refused else
       (nttP d degree >>= fun t => pure t)) := rfl

/-- the same for `encode_internal_f64_polynomial`: `nvalues ≤ 2·slots` coefficients, resize and zero-fill BEFORE the scan -/
theorem gk_f64_polynomial_unfold (valid is_ckks : Bool) (nvalues slots : Nat) (scale_ok : Bool) (total_bits : Nat) (moduli : List Modulus)
    (degree ntt_len : Nat) (cb : List Nat) (rc : List Int) (decompose : List Nat → R (List Nat)) (nttP : List Nat → Nat → R (List Nat)) (dest : List Nat) :
    encode_internal_f64_polynomial valid is_ckks nvalues slots scale_ok total_bits moduli degree ntt_len cb rc decompose nttP dest =
      (if ¬ (valid = true) then .error .refused else
       if ¬ (is_ckks = true) then .error .refused else do
       let n2 ← ckMul slots 2
       if nvalues > n2 then .error .refused else
       if ¬ (scale_ok = true) then .error .refused else do
       let sz ← ckMul degree moduli.length
       let mb ← maxAll cb
       if satAdd mb 1 ≥ total_bits then .error .refused else do
       let d ← gkStageRaw (satAdd mb 1) nvalues moduli degree rc decompose (fillL (resizeL dest sz) 0)
       if ntt_len ≠ moduli.length then .error .refused else
       (nttP d degree >>= fun t => pure t)) := rfl

/-! ### the rows compute c mod q_j -/

theorem gk_reduce64 {m : Modulus} (h : m.WF) {c : Int} (hc : c.natAbs < 2^64) :
    GenP.mod_reduce m (fToU64 (fabs c)) = .ok (c.natAbs % m.value) := by
  have hs : fToU64 (fabs c) = c.natAbs := by
    rw [gk_fabs_nat, gk_fToU64_nat]; unfold satU64; rw [if_pos (by rw [B64_eq]; exact hc)]
  rw [hs]; unfold GenP.mod_reduce; rw [gw_barrett_reduce_u64_eq]; exact barrett64_exact h hc

theorem gk_reduce128 {m : Modulus} (h : m.WF) {c : Int} (hc : c.natAbs < 2^128) :
    GenW.barrett_reduce_u128 (fToU64 (fmod64 (fabs c))) (fToU64 (fdiv64 (fabs c))) m = .ok (c.natAbs % m.value) := by
  have hhi : c.natAbs / B64 < 2^64 := by
    rw [B64_eq, Nat.div_lt_iff_lt_mul (by norm_num)]; norm_num at hc ⊢; exact hc
  have hlo : c.natAbs % B64 < 2^64 := by rw [B64_eq]; exact Nat.mod_lt _ (by norm_num)
  have h0 : fToU64 (fmod64 (fabs c)) = c.natAbs % B64 := by
    rw [gk_fabs_nat, gk_fmod64_nat, gk_fToU64_nat]; unfold satU64; rw [if_pos (by rw [B64_eq]; exact hlo)]
  have h1 : fToU64 (fdiv64 (fabs c)) = c.natAbs / B64 := by
    rw [gk_fabs_nat, gk_fdiv64_nat, gk_fToU64_nat]; unfold satU64; rw [if_pos (by rw [B64_eq]; exact hhi)]
  have e : c.natAbs % B64 + 2 ^ 64 * (c.natAbs / B64) = c.natAbs := by
    rw [← B64_eq]; exact Nat.mod_add_div _ _
  rw [h0, h1, gw_barrett_reduce_u128_eq, barrett128_exact h hlo hhi, e]

theorem gk_negate_res {m : Modulus} (h : m.WF) {c : Int} (hneg : c < 0) :
    GenW.negate_u64_mod (c.natAbs % m.value) m = .ok (c12_res c m.value) := by
  have := c12a_signFix h c
  unfold signFix at this
  rw [decide_eq_true hneg, if_pos rfl] at this
  rw [gw_negate_u64_mod_eq]; exact this

theorem gk_pos_res {m : Modulus} {c : Int} (hpos : ¬ c < 0) : c.natAbs % m.value = c12_res c m.value :=
  (c12a_res_nonneg (by omega) _).symm

section rows
variable {moduli : List Modulus} {cc i : Nat}

theorem gk_pos_cks (hi : i < cc) {j : Nat} (hj : j < moduli.length) (hsz : cc * moduli.length < 2^64) :
    ckMul j cc = .ok (j * cc) ∧ ckAdd i (j * cc) = .ok (i + j * cc) := by
  have := gk_pos_lt hi hj
  exact ⟨gk_ckMul_ok (by omega), gk_ckAdd_ok (by omega)⟩

theorem gkNeg64_ok (hwf : ∀ j (h : j < moduli.length), moduli[j].WF) (hi : i < cc) (hsz : cc * moduli.length < 2^64)
    {c : Int} (hneg : c < 0) (hc : c.natAbs < 2^64) {j : Nat} (hj : j < moduli.length) (d : List Nat) (hd : d.length = cc * moduli.length) :
    gkNeg64 moduli cc i (fToU64 (fabs c)) j d = .ok (d.set (i + j * cc) (c12_res c moduli[j].value)) := by
  obtain ⟨e1, e2⟩ := gk_pos_cks hi hj hsz
  have e3 := gk_setIdx_ok (l := d) (c12_res c moduli[j].value) (by rw [hd]; exact gk_pos_lt hi hj)
  simp only [gkNeg64, e1, e2, gk_idxT_ok hj, gk_reduce64 (hwf j hj) hc, gk_negate_res (hwf j hj) hneg, e3, bind, Except.bind, pure, Except.pure]

theorem gkPos64_ok (hwf : ∀ j (h : j < moduli.length), moduli[j].WF) (hi : i < cc) (hsz : cc * moduli.length < 2^64)
    {c : Int} (hpos : ¬ c < 0) (hc : c.natAbs < 2^64) {j : Nat} (hj : j < moduli.length) (d : List Nat) (hd : d.length = cc * moduli.length) :
    gkPos64 moduli cc i (fToU64 (fabs c)) j d = .ok (d.set (i + j * cc) (c12_res c moduli[j].value)) := by
  obtain ⟨e1, e2⟩ := gk_pos_cks hi hj hsz
  have e3 := gk_setIdx_ok (l := d) (c12_res c moduli[j].value) (by rw [hd]; exact gk_pos_lt hi hj)
  rw [← gk_pos_res hpos] at e3 ⊢
  simp only [gkPos64, e1, e2, gk_idxT_ok hj, gk_reduce64 (hwf j hj) hc, e3, bind, Except.bind, pure, Except.pure]

theorem gkNeg128_ok (hwf : ∀ j (h : j < moduli.length), moduli[j].WF) (hi : i < cc) (hsz : cc * moduli.length < 2^64)
    {c : Int} (hneg : c < 0) (hc : c.natAbs < 2^128) {j : Nat} (hj : j < moduli.length) (d : List Nat) (hd : d.length = cc * moduli.length) :
    gkNeg128 moduli cc i (fabs c) j d = .ok (d.set (i + j * cc) (c12_res c moduli[j].value)) := by
  obtain ⟨e1, e2⟩ := gk_pos_cks hi hj hsz
  have e3 := gk_setIdx_ok (l := d) (c12_res c moduli[j].value) (by rw [hd]; exact gk_pos_lt hi hj)
  simp only [gkNeg128, e1, e2, gk_idxT_ok hj, gk_reduce128 (hwf j hj) hc, gk_negate_res (hwf j hj) hneg, e3, bind, Except.bind, pure, Except.pure]

theorem gkPos128_ok (hwf : ∀ j (h : j < moduli.length), moduli[j].WF) (hi : i < cc) (hsz : cc * moduli.length < 2^64)
    {c : Int} (hpos : ¬ c < 0) (hc : c.natAbs < 2^128) {j : Nat} (hj : j < moduli.length) (d : List Nat) (hd : d.length = cc * moduli.length) :
    gkPos128 moduli cc i (fabs c) j d = .ok (d.set (i + j * cc) (c12_res c moduli[j].value)) := by
  obtain ⟨e1, e2⟩ := gk_pos_cks hi hj hsz
  have e3 := gk_setIdx_ok (l := d) (c12_res c moduli[j].value) (by rw [hd]; exact gk_pos_lt hi hj)
  rw [← gk_pos_res hpos] at e3 ⊢
  simp only [gkPos128, e1, e2, gk_idxT_ok hj, gk_reduce128 (hwf j hj) hc, e3, bind, Except.bind, pure, Except.pure]

/-- the property of one finished row -/
def GkRowDone (moduli : List Modulus) (cc i : Nat) (c : Int) (d d' : List Nat) : Prop :=
  d'.length = cc * moduli.length ∧ (∀ j (hj : j < moduli.length), d'[i + j * cc]? = some (c12_res c moduli[j].value)) ∧
    (∀ p, p % cc ≠ i → d'[p]? = d[p]?)

theorem gk_getD_mod {j : Nat} (hj : j < moduli.length) : moduli.getD j default = moduli[j] := by
  simp [List.getD, List.getElem?_eq_getElem hj]

/-- ≤ 64-bit row as generated: row i of the buffer receives c_i mod q_j for every j, whatever the sign -/
theorem gkRow64_spec (hwf : ∀ j (h : j < moduli.length), moduli[j].WF) (hi : i < cc) (hsz : cc * moduli.length < 2^64)
    {rc : List Int} (hir : i < rc.length) (hc : rc[i].natAbs < 2^64) (d : List Nat) (hd : d.length = cc * moduli.length) :
    ∃ d', gkRow64 moduli cc rc i d = .ok d' ∧ GkRowDone moduli cc i rc[i] d d' := by
  have hf : ∀ j (hj : j < moduli.length), c12_res rc[i] (moduli.getD j default).value = c12_res rc[i] moduli[j].value := by
    intro j hj; rw [gk_getD_mod hj]
  by_cases hneg : rc[i] < 0
  · obtain ⟨d', e, hl, h1, h2⟩ := gk_row_spec (cc := cc) (k := moduli.length) (i := i)
      (fun j => c12_res rc[i] (moduli.getD j default).value) (gkNeg64 moduli cc i (fToU64 (fabs rc[i]))) d
      (by intro j d1 hj hd1; rw [hf j hj]; exact gkNeg64_ok hwf hi hsz hneg hc hj d1 hd1) hi hd
    refine ⟨d', ?_, hl, fun j hj => by rw [h1 j hj, hf j hj], h2⟩
    simp only [gkRow64, gk_idxI_ok hir, bind, Except.bind, decide_eq_true hneg, if_true, e, pure, Except.pure]
  · obtain ⟨d', e, hl, h1, h2⟩ := gk_row_spec (cc := cc) (k := moduli.length) (i := i)
      (fun j => c12_res rc[i] (moduli.getD j default).value) (gkPos64 moduli cc i (fToU64 (fabs rc[i]))) d
      (by intro j d1 hj hd1; rw [hf j hj]; exact gkPos64_ok hwf hi hsz hneg hc hj d1 hd1) hi hd
    refine ⟨d', ?_, hl, fun j hj => by rw [h1 j hj, hf j hj], h2⟩
    simp only [gkRow64, gk_idxI_ok hir, bind, Except.bind, decide_eq_false hneg, Bool.false_eq_true, if_false, e, pure, Except.pure]

/-- ≤ 128-bit row as generated -/
theorem gkRow128_spec (hwf : ∀ j (h : j < moduli.length), moduli[j].WF) (hi : i < cc) (hsz : cc * moduli.length < 2^64)
    {rc : List Int} (hir : i < rc.length) (hc : rc[i].natAbs < 2^128) (d : List Nat) (hd : d.length = cc * moduli.length) :
    ∃ d', gkRow128 moduli cc rc i d = .ok d' ∧ GkRowDone moduli cc i rc[i] d d' := by
  have hf : ∀ j (hj : j < moduli.length), c12_res rc[i] (moduli.getD j default).value = c12_res rc[i] moduli[j].value := by
    intro j hj; rw [gk_getD_mod hj]
  by_cases hneg : rc[i] < 0
  · obtain ⟨d', e, hl, h1, h2⟩ := gk_row_spec (cc := cc) (k := moduli.length) (i := i)
      (fun j => c12_res rc[i] (moduli.getD j default).value) (gkNeg128 moduli cc i (fabs rc[i])) d
      (by intro j d1 hj hd1; rw [hf j hj]; exact gkNeg128_ok hwf hi hsz hneg hc hj d1 hd1) hi hd
    refine ⟨d', ?_, hl, fun j hj => by rw [h1 j hj, hf j hj], h2⟩
    simp only [gkRow128, gk_idxI_ok hir, bind, Except.bind, decide_eq_true hneg, if_true, e, pure, Except.pure]
  · obtain ⟨d', e, hl, h1, h2⟩ := gk_row_spec (cc := cc) (k := moduli.length) (i := i)
      (fun j => c12_res rc[i] (moduli.getD j default).value) (gkPos128 moduli cc i (fabs rc[i])) d
      (by intro j d1 hj hd1; rw [hf j hj]; exact gkPos128_ok hwf hi hsz hneg hc hj d1 hd1) hi hd
    refine ⟨d', ?_, hl, fun j hj => by rw [h1 j hj, hf j hj], h2⟩
    simp only [gkRow128, gk_idxI_ok hir, bind, Except.bind, decide_eq_false hneg, Bool.false_eq_true, if_false, e, pure, Except.pure]

end rows

/-! ### the stage (≤ 64-bit and ≤ 128-bit paths) -/

/-- the three-way selection, for bit counts up to 128: every coefficient that fits the selected path ends up as c_i mod q_j at i + j·N -/
theorem gkStage_small_spec {moduli : List Modulus} (hwf : ∀ j (h : j < moduli.length), moduli[j].WF) {cc n bits : Nat} (hn : n ≤ cc)
    (hsz : cc * moduli.length < 2^64) {rc : List Int} (hrc : n ≤ rc.length) (hb : bits ≤ 128)
    (h64 : bits ≤ 64 → ∀ i (h : i < rc.length), i < n → rc[i].natAbs < 2^64)
    (h128 : ∀ i (h : i < rc.length), i < n → rc[i].natAbs < 2^128)
    (decompose : List Nat → R (List Nat)) (d : List Nat) (hd : d.length = cc * moduli.length) :
    ∃ d', gkStage bits n moduli cc rc decompose d = .ok d' ∧ d'.length = cc * moduli.length ∧
      (∀ i j (hi : i < rc.length) (hj : j < moduli.length), i < n → d'[i + j * cc]? = some (c12_res rc[i] moduli[j].value)) ∧
      (∀ p, n ≤ p % cc → d'[p]? = d[p]?) := by
  have conv : ∀ i j (hi : i < rc.length) (hj : j < moduli.length),
      c12_res (rc.getD i 0) (moduli.getD j default).value = c12_res rc[i] moduli[j].value := by
    intro i j hi hj; rw [gk_getD_mod hj]; simp [List.getD, List.getElem?_eq_getElem hi]
  unfold gkStage
  by_cases hs : bits ≤ 64
  · rw [if_pos hs]
    obtain ⟨d', e, hl, h1, h2⟩ := gk_rows_spec (cc := cc) (k := moduli.length) (n := n)
      (fun i j => c12_res (rc.getD i 0) (moduli.getD j default).value) (gkRow64 moduli cc rc) d
      (by
        intro i d1 hi hd1
        have hir : i < rc.length := by omega
        obtain ⟨d2, e2, hl2, r1, r2⟩ := gkRow64_spec hwf (by omega : i < cc) hsz hir (h64 hs i hir hi) d1 hd1
        exact ⟨d2, e2, hl2, fun j hj => by rw [r1 j hj, conv i j hir hj], r2⟩) hn hd
    exact ⟨d', e, hl, fun i j hi hj hin => by rw [h1 i j hin hj, conv i j hi hj], h2⟩
  · rw [if_neg hs, if_pos hb]
    obtain ⟨d', e, hl, h1, h2⟩ := gk_rows_spec (cc := cc) (k := moduli.length) (n := n)
      (fun i j => c12_res (rc.getD i 0) (moduli.getD j default).value) (gkRow128 moduli cc rc) d
      (by
        intro i d1 hi hd1
        have hir : i < rc.length := by omega
        obtain ⟨d2, e2, hl2, r1, r2⟩ := gkRow128_spec hwf (by omega : i < cc) hsz hir (h128 i hir hi) d1 hd1
        exact ⟨d2, e2, hl2, fun j hj => by rw [r1 j hj, conv i j hir hj], r2⟩) hn hd
    exact ⟨d', e, hl, fun i j hi hj hin => by rw [h1 i j hin hj, conv i j hi hj], h2⟩

theorem gk_satAdd_small {mb : Nat} (h : mb + 1 ≤ 128) : satAdd mb 1 = mb + 1 := by
  unfold satAdd; rw [if_pos (by rw [B64_eq]; omega)]

theorem gk_resizeL_length (l : List Nat) (n : Nat) : (resizeL l n).length = n := by
  unfold resizeL; simp; omega

theorem gk_mag_lt {c : Int} {b mb e : Nat} (hc : c.natAbs ≤ 2^b) (hb : b ≤ mb) (he : mb + 1 ≤ e) : c.natAbs < 2^e := by
  have h1 : 2^b ≤ 2^mb := Nat.pow_le_pow_right (by norm_num) hb
  have h2 : 2^mb < 2^e := Nat.pow_lt_pow_right (by norm_num) (by omega)
  omega

theorem gk_base_q {b : RNSBase} {j : Nat} (hj : j < b.base.toList.length) : b.base.toList[j] = b.q j := by
  have hj' : j < b.base.size := by simpa using hj
  simp [RNSBase.q, Array.getD, hj']

/-- INTEGER STAGE of the generated `encode_internal_c64_array`, ≤ 64-bit and ≤ 128-bit paths (the multi-word path is not covered: `_partial`).
    For a well-formed RNS base (moduli = its list), N = 2·slots coefficients, per-coefficient bit data `cb` with |c_i| ≤ 2^cb[i], scanned bit
    count mb + 1 below the total bit count and ≤ 128: the function computes, for EVERY coefficient, exactly the model's
    `Ckks.coeffToRns base (mb + 1) c_i` (the model's dispatch at the bit count the scan over ALL coefficients gives) laid out at i + j·N
    — i.e. c_i mod q_j, negatives included — and hands that buffer to `ntt_p`. -/
theorem gk_c64_array_integer_stage_partial {b : RNSBase} (hb : b.WF) {cc slots nvalues total_bits mb : Nat}
    (hcc : slots * 2 = cc) (hsz : cc * b.base.toList.length < 2^64) (hv : nvalues ≤ slots)
    {cb : List Nat} {rc : List Int} (hcb : cb.length = cc) (hrc : rc.length = cc)
    (hmag : ∀ i (h1 : i < cb.length) (h2 : i < rc.length), rc[i].natAbs ≤ 2^cb[i])
    (hm : maxAll cb = .ok mb) (hfit : mb + 1 < total_bits) (hsmall : mb + 1 ≤ 128)
    (decompose : List Nat → R (List Nat)) (nttP : List Nat → Nat → R (List Nat)) (dest : List Nat) :
    ∃ d', d'.length = cc * b.size ∧
      (∀ i (hi : i < rc.length), ∃ rs, coeffToRns b (mb + 1) rc[i] = .ok rs ∧ rs.size = b.size ∧
         ∀ j, j < b.size → d'[i + j * cc]? = some (rs.getD j 0) ∧ rs.getD j 0 = c12_res rc[i] (b.q j).value) ∧
      encode_internal_c64_array true true nvalues slots true total_bits b.base.toList cc b.base.toList.length cb rc decompose nttP dest
        = nttP d' cc := by
  have hk : b.base.toList.length = b.size := by simp [RNSBase.size]
  have hne : cb ≠ [] := by intro h; rw [h] at hm; simp [maxAll] at hm
  obtain ⟨mb', hm', hbound⟩ := gk_maxAll_spec hne
  have : mb' = mb := by rw [hm] at hm'; exact (Except.ok.inj hm').symm
  subst this
  have hwf : ∀ j (h : j < b.base.toList.length), b.base.toList[j].WF := by
    intro j h; rw [gk_base_q h]; exact hb.mwf j (by omega)
  have hlt : ∀ e, mb' + 1 ≤ e → ∀ i (h : i < rc.length), rc[i].natAbs < 2^e := by
    intro e he i h
    exact gk_mag_lt (hmag i (by omega) h) (hbound i (by omega)) he
  have hpos := hb.pos
  subst hcc
  have hcc64 : slots * 2 < 2^64 := by
    have : slots * 2 ≤ slots * 2 * b.base.toList.length := Nat.le_mul_of_pos_right _ (by omega)
    omega
  obtain ⟨d', e, hl, hcont, _⟩ := gkStage_small_spec hwf (n := slots * 2) (cc := slots * 2) (bits := mb' + 1) (Nat.le_refl _) hsz
    (rc := rc) (by omega) hsmall (fun hs i h _ => hlt 64 hs i h) (fun i h _ => hlt 128 hsmall i h) decompose
    (resizeL dest (slots * 2 * b.base.toList.length)) (gk_resizeL_length _ _)
  refine ⟨d', by rw [hl, hk], ?_, ?_⟩
  · intro i hi
    obtain ⟨rs, e1, e2, e3⟩ := coeffToRns_spec hb (bits := mb' + 1) (c := rc[i]) (fun h => hlt 64 h i hi)
      (fun _ h => hlt 128 h i hi) (fun h => absurd hsmall (by omega))
    refine ⟨rs, e1, e2, fun j hj => ⟨?_, e3 j hj⟩⟩
    have hj' : j < b.base.toList.length := by omega
    rw [hcont i j hi hj' (by omega), e3 j hj, gk_base_q hj']
  · rw [gk_c64_array_unfold]
    have h1 : ¬ nvalues > slots := by omega
    have h2 : ¬ mb' + 1 ≥ total_bits := by omega
    simp only [not_true_eq_false, if_false, h1, gk_ckMul_ok hcc64, gk_ckMul_ok hsz, hm, bind, Except.bind, gk_satAdd_small hsmall, h2,
      gkStageRaw_eq, e, ne_eq, not_true_eq_false, if_false]
    cases nttP d' (slots * 2) <;> rfl

theorem gk_fillL_length (l : List Nat) (v : Nat) : (fillL l v).length = l.length := by unfold fillL; simp

/-- INTEGER STAGE of the generated `encode_internal_f64_polynomial`, ≤ 64-bit and ≤ 128-bit paths: `nvalues ≤ N = 2·slots` coefficients;
    coefficient i < nvalues is the model's `coeffToRns base (mb + 1) c_i` at i + j·N, every other position of the (zero-filled) buffer is 0 -/
theorem gk_f64_polynomial_integer_stage_partial {b : RNSBase} (hb : b.WF) {cc slots nvalues total_bits mb : Nat}
    (hcc : slots * 2 = cc) (hsz : cc * b.base.toList.length < 2^64) (hv : nvalues ≤ cc)
    {cb : List Nat} {rc : List Int} (hcb : cb.length = nvalues) (hrc : rc.length = nvalues)
    (hmag : ∀ i (h1 : i < cb.length) (h2 : i < rc.length), rc[i].natAbs ≤ 2^cb[i])
    (hm : maxAll cb = .ok mb) (hfit : mb + 1 < total_bits) (hsmall : mb + 1 ≤ 128)
    (decompose : List Nat → R (List Nat)) (nttP : List Nat → Nat → R (List Nat)) (dest : List Nat) :
    ∃ d', d'.length = cc * b.size ∧
      (∀ i (hi : i < rc.length), ∃ rs, coeffToRns b (mb + 1) rc[i] = .ok rs ∧ rs.size = b.size ∧
         ∀ j, j < b.size → d'[i + j * cc]? = some (rs.getD j 0) ∧ rs.getD j 0 = c12_res rc[i] (b.q j).value) ∧
      (∀ i j, nvalues ≤ i → i < cc → j < b.size → d'[i + j * cc]? = some 0) ∧
      encode_internal_f64_polynomial true true nvalues slots true total_bits b.base.toList cc b.base.toList.length cb rc decompose nttP dest
        = nttP d' cc := by
  have hk : b.base.toList.length = b.size := by simp [RNSBase.size]
  have hne : cb ≠ [] := by intro h; rw [h] at hm; simp [maxAll] at hm
  obtain ⟨mb', hm', hbound⟩ := gk_maxAll_spec hne
  have : mb' = mb := by rw [hm] at hm'; exact (Except.ok.inj hm').symm
  subst this
  have hwf : ∀ j (h : j < b.base.toList.length), b.base.toList[j].WF := by
    intro j h; rw [gk_base_q h]; exact hb.mwf j (by omega)
  have hlt : ∀ e, mb' + 1 ≤ e → ∀ i (h : i < rc.length), rc[i].natAbs < 2^e := by
    intro e he i h
    exact gk_mag_lt (hmag i (by omega) h) (hbound i (by omega)) he
  have hpos := hb.pos
  subst hcc
  have hcc64 : slots * 2 < 2^64 := by
    have : slots * 2 ≤ slots * 2 * b.base.toList.length := Nat.le_mul_of_pos_right _ (by omega)
    omega
  have hd0 : (fillL (resizeL dest (slots * 2 * b.base.toList.length)) 0).length = slots * 2 * b.base.toList.length := by
    rw [gk_fillL_length, gk_resizeL_length]
  obtain ⟨d', e, hl, hcont, hrest⟩ := gkStage_small_spec hwf (n := nvalues) (cc := slots * 2) (bits := mb' + 1) hv hsz
    (rc := rc) (by omega) hsmall (fun hs i h _ => hlt 64 hs i h) (fun i h _ => hlt 128 hsmall i h) decompose
    (fillL (resizeL dest (slots * 2 * b.base.toList.length)) 0) hd0
  refine ⟨d', by rw [hl, hk], ?_, ?_, ?_⟩
  · intro i hi
    obtain ⟨rs, e1, e2, e3⟩ := coeffToRns_spec hb (bits := mb' + 1) (c := rc[i]) (fun h => hlt 64 h i hi)
      (fun _ h => hlt 128 h i hi) (fun h => absurd hsmall (by omega))
    refine ⟨rs, e1, e2, fun j hj => ⟨?_, e3 j hj⟩⟩
    have hj' : j < b.base.toList.length := by omega
    rw [hcont i j hi hj' (by omega), e3 j hj, gk_base_q hj']
  · intro i j hi1 hi2 hj
    have hj' : j < b.base.toList.length := by omega
    rw [hrest _ (by rw [gk_pos_mod hi2]; exact hi1)]
    have hp := gk_pos_lt hi2 hj'
    unfold fillL
    rw [List.getElem?_replicate, if_pos (by rw [gk_resizeL_length]; exact hp)]
  · rw [gk_f64_polynomial_unfold]
    have h1 : ¬ nvalues > slots * 2 := by omega
    have h2 : ¬ mb' + 1 ≥ total_bits := by omega
    simp only [not_true_eq_false, if_false, h1, gk_ckMul_ok hcc64, gk_ckMul_ok hsz, hm, bind, Except.bind, gk_satAdd_small hsmall, h2,
      gkStageRaw_eq, e, ne_eq, not_true_eq_false, if_false]
    cases nttP d' (slots * 2) <;> rfl

end HC
