/- Translator phase 4j: `Ciphertext::expand_seed` (src/text.rs), skeleton over the flat data buffer (Gen/RngFns.lean `expand_seed`):
   for `degree · moduli ≥ 9` it is `sample::uniform` on `BlakeRNG::from_seed(the 64 bytes stored after the flag word)` written over
   polynomial 1; for `degree · moduli < 9` the raw-pointer read of the seed leaves the buffer.  Helper prefix `gs_`. -/
import Heathcliff.Proofs.GenRng5
import Heathcliff.Model.Encrypt
namespace HC.GenRng
open HC HC.Rng

/-- the 64 seed bytes: little-endian bytes of the 8 words after the flag word `data[kn]` -/
def gs_seedBytes (data : List Nat) (kn : Nat) : List Nat :=
  ((data.drop (kn + 1)).take 8).flatMap fun w => (List.range 8).map fun b => w / 256 ^ b % 256

theorem gs_slice_ok {l : List Nat} {a b : Nat} (h1 : a ≤ b) (h2 : b ≤ l.length) : slice l a b = .ok ((l.drop a).take (b - a)) := by
  simp [slice, h1, h2]

theorem gs_expand_arith {n k : Nat} (hn : 0 < n) (hk : 0 < k) (hB : 2 * (n * k) < B64) :
    ckMul 1 k = .ok k ∧ ckAdd k 0 = .ok k ∧ ckMul n k = .ok (n * k) ∧ ckAdd (n * k) n = .ok (n * k + n) ∧ ckAdd (n * k) 1 = .ok (n * k + 1) ∧
    ckMul 1 (n * k) = .ok (n * k) ∧ ckAdd 1 1 = .ok 2 ∧ ckMul 2 (n * k) = .ok (2 * (n * k)) := by
  have h1 : k ≤ n * k := Nat.le_mul_of_pos_left k hn
  have h2 : n ≤ n * k := Nat.le_mul_of_pos_right n hk
  have h64 : B64 = 18446744073709551616 := rfl
  refine ⟨?_, ?_, ?_, ?_, ?_, ?_, ?_, ?_⟩
  · simpa using gn_ckMul (a := 1) (b := k) (by omega)
  · simpa using gn_ckAdd (a := k) (b := 0) (by omega)
  · exact gn_ckMul (by omega)
  · exact gn_ckAdd (by omega)
  · exact gn_ckAdd (by omega)
  · simpa using gn_ckMul (a := 1) (b := n * k) (by omega)
  · exact gn_ckAdd (by omega)
  · exact gn_ckMul (by omega)

/-- `CIPHERTEXT_SEED_FLAG` -/
def gs_FLAG : Nat := 18446744073709551615

/-- `contains_seed` (skeleton): `size == 2 && c1[0] == FLAG`; on a size-2 ciphertext with an EMPTY polynomial 1 it panics (index 0 of an empty slice) -/
theorem gs_contains_seed_eq (data : List Nat) (n k : Nat) (hn : 0 < n) (hk : 0 < k) (hlen : data.length = 2 * (n * k)) (hB : 2 * (n * k) < B64) :
    contains_seed data 2 n k = .ok (decide (data.getD (n * k) 0 = gs_FLAG)) := by
  obtain ⟨_, _, a3, _, _, a6, a7, a8⟩ := gs_expand_arith hn hk hB
  have h2 : n ≤ n * k := Nat.le_mul_of_pos_right n hk
  have s2 := gs_slice_ok (l := data) (a := n * k) (b := 2 * (n * k)) (by omega) (by omega)
  have hi : idx ((data.drop (n * k)).take (2 * (n * k) - n * k)) 0 = .ok (data.getD (n * k) 0) := by
    rw [gs_idx (by simp [hlen]; omega)]
    simp only [List.getD_eq_getElem?_getD, List.getElem?_take, List.getElem?_drop, Nat.add_zero]
    rw [if_pos (by omega)]
  unfold contains_seed
  rw [if_neg (by simp)]
  simp only [a3, a6, a7, a8, s2, hi, gs_ok_bind, pure, Except.pure, gs_FLAG]
  simp

theorem gs_contains_seed_size (data : List Nat) (size n k : Nat) (hs : size ≠ 2) : contains_seed data size n k = .ok false := by
  unfold contains_seed
  rw [if_pos hs]
  simp [gs_ok_bind, pure, Except.pure]

/-- `expand_seed` on a flagged size-2 ciphertext whose polynomials have at least 9 words: polynomial 0 is kept, polynomial 1 becomes the
    flat layout of `uniform` drawn from the generator seeded with the stored bytes -/
theorem gs_expand_seed_eq (U : Uniform) (xof : Xof) (data moduli : List Nat) (n k : Nat) (hk : moduli.length = k)
    (hlen : data.length = 2 * (n * k)) (hflag : data.getD (n * k) 0 = gs_FLAG) (h9 : 9 ≤ n * k) (hB : 2 * (n * k) < B64)
    (c : List (List Nat)) (s' : St) (h : uniformPoly U xof (fromSeed (gs_seedBytes data (n * k))) n moduli = .ok (c, s')) :
    expand_seed (blakeOps U xof) data 2 n k moduli n = .ok (data.take (n * k) ++ flatCM k n c) := by
  have hn : 0 < n := Nat.pos_of_ne_zero (by rintro rfl; simp at h9)
  have hk0 : 0 < k := Nat.pos_of_ne_zero (by rintro rfl; simp at h9)
  obtain ⟨a1, a2, a3, a4, a5, a6, a7, a8⟩ := gs_expand_arith hn hk0 hB
  have h2 : n ≤ n * k := Nat.le_mul_of_pos_right n hk0
  have s1 := gs_slice_ok (l := data) (a := n * k) (b := n * k + n) (by omega) (by omega)
  have s2 := gs_slice_ok (l := data) (a := n * k) (b := 2 * (n * k)) (by omega) (by omega)
  have lb : leBytes data (n * k + 1) 8 = .ok (gs_seedBytes data (n * k)) := by
    unfold leBytes gs_seedBytes; rw [if_pos (by omega)]
  have hsub : ((data.drop (n * k)).take (2 * (n * k) - n * k)).length = moduli.length * n := by
    simp [hk, hlen]; rw [Nat.mul_comm k n]; omega
  have hu := gs_uniform_fwd U xof (fromSeed (gs_seedBytes data (n * k))) n moduli _ hsub (by rw [hk, Nat.mul_comm]; omega) c s' h
  rw [hk] at hu
  unfold expand_seed
  rw [gs_contains_seed_eq data n k hn hk0 hlen hB, hflag]
  simp only [gs_ok_bind, decide_true, not_true_eq_false, if_false]
  rw [if_neg (by simp)]
  simp only [a1, a2, a3, a4, a5, a6, a7, a8, s1, s2, lb, gn_from_seed_eq, hu, gs_ok_bind]
  simp only [pure, Except.pure, splice, gs_flatCM_length, Except.ok.injEq]
  have hd : data.drop (n * k + k * n) = [] := List.drop_eq_nil_of_le (by rw [hlen, Nat.mul_comm k n]; omega)
  rw [hd, List.append_nil]

/-- … and when they have fewer than 9 words (`degree · moduli < 9`: e.g. N = 4 or 8 with one prime, N = 4 with two) the read of the
    seed bytes LEAVES THE BUFFER (in Rust: undefined behaviour - observed on the real code: the result depends on adjacent memory) -/
theorem gs_expand_seed_oob (B : RngOps BlakeRNG) (data qs : List Nat) (pn n k : Nat) (hn : 0 < n) (hk : 0 < k)
    (hlen : data.length = 2 * (n * k)) (hflag : data.getD (n * k) 0 = gs_FLAG) (h9 : n * k < 9) :
    expand_seed B data 2 n k qs pn = .error .oob := by
  have h64 : B64 = 18446744073709551616 := rfl
  obtain ⟨a1, a2, a3, a4, a5, _, _, _⟩ := gs_expand_arith hn hk (by omega)
  have h2 : n ≤ n * k := Nat.le_mul_of_pos_right n hk
  have s1 := gs_slice_ok (l := data) (a := n * k) (b := n * k + n) (by omega) (by omega)
  have lb : leBytes data (n * k + 1) 8 = .error .oob := by
    unfold leBytes; rw [if_neg (by omega)]
  unfold expand_seed
  rw [gs_contains_seed_eq data n k hn hk hlen (by omega), hflag]
  simp only [gs_ok_bind, decide_true, not_true_eq_false, if_false]
  rw [if_neg (by simp)]
  simp only [a1, a2, a3, a4, a5, s1, lb, gs_ok_bind]
  rfl

/-- a ciphertext that is not flagged is refused -/
theorem gs_expand_seed_refuses (B : RngOps BlakeRNG) (data qs : List Nat) (pn n k : Nat) (hn : 0 < n) (hk : 0 < k)
    (hlen : data.length = 2 * (n * k)) (hB : 2 * (n * k) < B64) (hflag : data.getD (n * k) 0 ≠ gs_FLAG) :
    expand_seed B data 2 n k qs pn = .error .refused := by
  unfold expand_seed
  rw [gs_contains_seed_eq data n k hn hk hlen hB]
  simp only [gs_ok_bind, hflag, decide_false]
  rfl

/-- tie to `Model/Encrypt.lean`: whatever `expandSeed` returns for the seeded ciphertext `(c0, seed)` at level `l` is what the generated
    function writes over polynomial 1 -/
theorem gs_expand_seed_model (U : Uniform) (xof : Xof) (l : Level) (data : List Nat) (c0 : RnsPoly) (ntt : Bool) (cf : Nat)
    (hlen : data.length = 2 * (l.n * l.qs.size)) (hflag : data.getD (l.n * l.qs.size) 0 = gs_FLAG) (h9 : 9 ≤ l.n * l.qs.size)
    (hB : 2 * (l.n * l.qs.size) < B64) (ct : Ct)
    (h : expandSeed U xof l ⟨c0, gs_seedBytes data (l.n * l.qs.size), ntt, cf⟩ = .ok ct) :
    ∃ c : List (List Nat), ct.polys = #[c0, toRns c] ∧
      expand_seed (blakeOps U xof) data 2 l.n l.qs.size (l.qs.toList.map (·.value)) l.n =
        .ok (data.take (l.n * l.qs.size) ++ flatCM l.qs.size l.n c) := by
  unfold expandSeed at h
  obtain ⟨r, hr, h⟩ := gs_bind_ok h
  obtain ⟨c, s'⟩ := r
  simp only [pure, Except.pure, Except.ok.injEq] at h
  refine ⟨c, by rw [← h], ?_⟩
  exact gs_expand_seed_eq U xof data _ l.n l.qs.size (by simp) hlen hflag h9 hB c s' hr

end HC.GenRng
