/-
  C13 helper proofs: TOTALITY of the model of `HeContext::validate` / `HeContext::new` up to `RNSTool::new`.

  Every `.error` of the model is a panic of the code (`unwrap`, `assert!`, arithmetic overflow).  Shown here: on EVERY input
  (any primality oracle, any parameter object, any security level) the only panics `validate` can reach are those inside
  `RNSTool::new` (`get_primes(..).unwrap()`, `create_ntt_tables(..).unwrap()`, the `assert!(try_invert ..)` family): if that call
  returns (`Ok` or `Err`), `validate` returns a `ContextData` whose error code is classified by the ladder — `Success`
  (`parameters_set`) or one specific code, never the initial `None`.  All other partial operations on the way (`RNSBase::new`'s
  inversions, `Modulus::new`, `MultiplyU64ModOperand::new`, the checked subtractions of the plain-lift constants, Barrett reductions)
  are proved total on the values that reach them.  `Context.new` is total under the same hypothesis for every prefix of the modulus
  chain.  (That `RNSTool::new` itself never panics needs the existence of up to 67 61-bit NTT primes per degree under the REAL
  primality test — a number-theoretic fact outside the model; the model takes the primality test as a parameter, for which the
  statement is false in general.)
-/
import Heathcliff.Proofs.C13Ladder
import Heathcliff.Proofs.C13Chain
namespace HC.Ctx
open HC Chain

/-! ### the scheme-specific steps are total -/

theorem validateBfv_total (isPrime : Nat → Bool) (c : ContextData) (kp : Nat)
    (hq : ∀ q ∈ c.parms.q, 2 ≤ q ∧ q < 2^60) : ∃ r, validateBfv isPrime c kp (prodL c.parms.q) = .ok r := by
  unfold validateBfv
  simp only []
  split
  · exact ⟨_, rfl⟩
  rename_i hbits
  split
  · exact ⟨_, rfl⟩
  split
  · exact ⟨_, rfl⟩
  rename_i hlt
  obtain ⟨ht2, _⟩ := plainBitOk_iff.mp hbits
  have hlt' : c.parms.t < prodL c.parms.q := by simpa using hlt
  -- the quotient fits when there is a single modulus
  have hk1 : c.parms.q.length ≤ 1 → prodL c.parms.q / c.parms.t < B64 ∧ ∀ q ∈ c.parms.q, prodL c.parms.q / c.parms.t < q := by
    intro hl
    match hqs : c.parms.q, hl with
    | [], _ =>
      rw [hqs] at hlt'
      simp [prodL] at hlt'
      omega
    | [q], _ =>
      have h1 := hq q (by rw [hqs]; simp)
      have e : prodL [q] = q := by simp [prodL]
      rw [e]
      have hd : q / c.parms.t < q := Nat.div_lt_self (by omega) (by omega)
      refine ⟨lt_trans hd (lt_of_lt_of_le h1.2 (by unfold B64; norm_num)), fun q' hq' => ?_⟩
      rw [List.mem_singleton.mp hq']; exact hd
    | _ :: _ :: _, hl => simp at hl
  have hcdp := bfv_cdp_eval (x := prodL c.parms.q / c.parms.t) hq hk1
  unfold decomp at hcdp
  simp only [bind, Except.bind] at hcdp ⊢
  rw [hcdp]
  simp only []
  by_cases hfast : (c.parms.q.all fun q => !decide (q ≤ c.parms.t)) = true
  · have hall : ∀ q ∈ c.parms.q, c.parms.t < q := by
      intro q hqm
      have := List.all_eq_true.mp hfast q hqm
      simpa using this
    rw [if_pos hfast, puhi_fast_eval hall]
    exact ⟨_, rfl⟩
  · rw [if_neg hfast]
    exact ⟨_, rfl⟩

theorem validateCkks_total (c : ContextData) (Q : Nat) (hq : ∀ q ∈ c.parms.q, 2 ≤ q ∧ q < 2^60) :
    ∃ r, validateCkks c Q = .ok r := by
  unfold validateCkks
  simp only []
  split
  · exact ⟨_, rfl⟩
  simp only [bind, Except.bind]
  have := ckks_puhi_eval hq
  simp only [bind, Except.bind] at this
  rw [this]
  exact ⟨_, rfl⟩

theorem schemeStep_total (isPrime : Nat → Bool) (p : Params) (kp : Nat) (c : ContextData) (hc : c.parms = p)
    (hq : ∀ q ∈ p.q, 2 ≤ q ∧ q < 2^60) : ∃ r, schemeStep isPrime p kp (prodL p.q) c = .ok r := by
  unfold schemeStep
  cases p.scheme with
  | None => exact ⟨_, rfl⟩
  | BFV =>
    have := validateBfv_total isPrime { c with ntt := true } kp (by show ∀ q ∈ c.parms.q, _; rw [hc]; exact hq)
    rw [show ({ c with ntt := true } : ContextData).parms.q = p.q by show c.parms.q = p.q; rw [hc]] at this
    exact this
  | BGV =>
    have := validateBfv_total isPrime { c with ntt := true } kp (by show ∀ q ∈ c.parms.q, _; rw [hc]; exact hq)
    rw [show ({ c with ntt := true } : ContextData).parms.q = p.q by show c.parms.q = p.q; rw [hc]] at this
    exact this
  | CKKS => exact validateCkks_total { c with ntt := true } _ (by show ∀ q ∈ c.parms.q, _; rw [hc]; exact hq)

/-- the tail of `validate` is total as soon as `RNSTool::new` returns -/
theorem validateTail_total (isPrime : Nat → Bool) (p : Params) (kp : Nat) (c : ContextData) (hc : c.parms = p)
    (hne : p.q ≠ []) (hq : ∀ q ∈ p.q, 2 ≤ q ∧ q < 2^60)
    (hT : ∃ b, rnsToolNew isPrime p.n p.q p.t = .ok b) : ∃ r, validateTail isPrime p kp (prodL p.q) c = .ok r := by
  unfold validateTail
  rw [rnsBaseNew_eq hne (fun q hqm => ⟨(hq q hqm).1, by have := (hq q hqm).2; omega⟩)]
  simp only [bind, Except.bind]
  split
  · exact ⟨_, rfl⟩
  split
  · exact ⟨_, rfl⟩
  obtain ⟨r, hr⟩ := schemeStep_total isPrime p kp c hc hq
  rw [hr]
  dsimp only
  split
  · exact ⟨_, rfl⟩
  obtain ⟨b, hb⟩ := hT
  rw [hb]
  dsimp only
  split <;> exact ⟨_, rfl⟩

/-! ### `validate` -/

/-- **totality of `HeContext::validate` up to `RNSTool::new`**: for every primality oracle, parameter object and security level, if
    `RNSTool::new(n, q, t)` returns (does not panic), `validate` returns -/
theorem validate_total (isPrime : Nat → Bool) (p : Params) (sec : SecLevel)
    (hT : ∃ b, rnsToolNew isPrime p.n p.q p.t = .ok b) : ∃ c, validate isPrime p sec = .ok c := by
  unfold validate
  simp only []
  split
  · exact ⟨_, rfl⟩
  split
  · exact ⟨_, rfl⟩
  rename_i h2
  split
  · exact ⟨_, rfl⟩
  rename_i h3
  split
  · exact ⟨_, rfl⟩
  split
  · exact ⟨_, rfl⟩
  rename_i kp _
  split
  · exact ⟨_, rfl⟩
  split
  · exact ⟨_, rfl⟩
  have hq : ∀ q ∈ p.q, 2 ≤ q ∧ q < 2^60 := by
    intro q hqm
    rw [← bitOk_iff]
    intro hc
    apply h3
    rw [List.any_eq_true]
    exact ⟨q, hqm, by simpa using hc⟩
  have hne : p.q ≠ [] := by
    intro h0
    rw [h0] at h2
    simp [Gen.HE_COEFF_MOD_COUNT_MIN] at h2
  exact validateTail_total isPrime p kp (ctx2 p sec) rfl hne hq hT

theorem firstFailing_ne_none : ∀ (l : List (Prop × ErrorType)), (∀ ce ∈ l, ce.2 ≠ .None) → firstFailing l ≠ .None
  | [], _ => by simp [firstFailing]
  | (c, e) :: r, h => by
    unfold firstFailing
    split
    · exact h (c, e) (by simp)
    · exact firstFailing_ne_none r (fun ce hce => h ce (by simp [hce]))

theorem ladder_codes (isPrime : Nat → Bool) (p : Params) (sec : SecLevel) : ∀ ce ∈ ladder isPrime p sec, ce.2 ≠ .None := by
  intro ce hce
  have h2 : ce.2 ∈ (ladder isPrime p sec).map Prod.snd := List.mem_map.mpr ⟨ce, hce, rfl⟩
  have key : ∀ e ∈ (ladder isPrime p sec).map Prod.snd, e ≠ Gen.ErrorType.None := by
    rcases p with ⟨s, n, q, t, sp⟩
    unfold ladder
    cases s <;> simp only [List.map_append, List.map_cons, List.map_nil] <;> decide
  exact key _ h2

/-- **`validate` is total and its verdict classified**: whenever `RNSTool::new` returns, `validate` returns a `ContextData` whose
    error code is the code of the first failing rung of the ladder (`Success` = `parameters_set` if none fails) — in particular
    never the initial `ErrorType::None` -/
theorem validate_total_classified (isPrime : Nat → Bool) (p : Params) (sec : SecLevel)
    (hT : ∃ b, rnsToolNew isPrime p.n p.q p.t = .ok b) :
    ∃ c, validate isPrime p sec = .ok c ∧ c.parms = p ∧ c.err = firstFailing (ladder isPrime p sec) ∧ c.err ≠ .None ∧
      (c.valid = true ↔ c.err = .Success) := by
  obtain ⟨c, hc⟩ := validate_total isPrime p sec hT
  have he := error_ladder hc
  refine ⟨c, hc, validate_parms hc, he, ?_, ?_⟩
  · rw [he]; exact firstFailing_ne_none _ (ladder_codes isPrime p sec)
  · unfold ContextData.valid; simp

/-- before `RNSTool::new` is reached nothing can panic: a parameter object rejected by an earlier rung is classified without any
    hypothesis — stated for the rungs up to the security test -/
theorem validate_total_early (isPrime : Nat → Bool) (p : Params) (sec : SecLevel)
    (h : p.scheme = .None ∨ p.q.length > 64 ∨ p.q.length < 1 ∨ (∃ q ∈ p.q, q < 2 ∨ 2^60 ≤ q) ∨ p.n < 2 ∨ 131072 < p.n ∨
      (¬ ∃ e, p.n = 2^e)) : ∃ c, validate isPrime p sec = .ok c ∧ c.err ≠ .Success ∧ c.err ≠ .None := by
  have key : ∀ c, validate isPrime p sec = .ok c → c.err ≠ .None := fun c hc => by
    rw [error_ladder hc]; exact firstFailing_ne_none _ (ladder_codes isPrime p sec)
  have hnot : ∀ c, validate isPrime p sec = .ok c → c.err ≠ .Success := by
    intro c hc hs
    obtain ⟨h1, h2, h3, h4, _, _, kp, hkp, _⟩ := validate_success hc hs
    have h5 := (powerOfTwo?_some hkp).1
    rcases h with h | h | h | ⟨q, hq, h⟩ | h | h | h
    · exact h1 h
    · omega
    · omega
    · have := h3 q hq; omega
    · omega
    · omega
    · exact h ⟨kp, h5⟩
  suffices ∃ c, validate isPrime p sec = .ok c by
    obtain ⟨c, hc⟩ := this
    exact ⟨c, hc, hnot c hc, key c hc⟩
  unfold validate
  simp only []
  split
  · exact ⟨_, rfl⟩
  rename_i h1
  split
  · exact ⟨_, rfl⟩
  rename_i h2
  split
  · exact ⟨_, rfl⟩
  rename_i h3
  split
  · exact ⟨_, rfl⟩
  rename_i h4
  split
  · exact ⟨_, rfl⟩
  rename_i kp hkp
  exfalso
  have h5 := (powerOfTwo?_some hkp).1
  simp only [Gen.HE_COEFF_MOD_COUNT_MAX, Gen.HE_COEFF_MOD_COUNT_MIN] at h2
  simp only [Gen.HE_POLY_MOD_DEGREE_MIN, Gen.HE_POLY_MOD_DEGREE_MAX] at h4
  rcases h with h | h | h | ⟨q, hq, h⟩ | h | h | h
  · exact h1 h
  · omega
  · omega
  · apply h3
    rw [List.any_eq_true]
    refine ⟨q, hq, ?_⟩
    simp only [decide_eq_true_eq]
    by_contra hc
    have := bitOk_iff.mp hc
    omega
  · omega
  · omega
  · exact h ⟨kp, h5⟩

/-! ### `create_next_context_data`, the expansion loop and `HeContext::new` -/

theorem modulusOk_of_range {v : Nat} (h : 2 ≤ v ∧ v < 2^60) : modulusOk v = true := by
  unfold modulusOk
  have : v / 2^Gen.HE_MOD_BIT_COUNT_MAX = 0 := Nat.div_eq_of_lt (by simp only [Gen.HE_MOD_BIT_COUNT_MAX]; omega)
  simp [this]; omega

/-- `create_next_context_data` is total on a parameter object with a scheme, ≥ 2 and ≤ 64 moduli in the user range, as soon as
    `RNSTool::new` returns for the shortened chain -/
theorem createNext_total (isPrime : Nat → Bool) (prev : Params) (sec : SecLevel) (hs : prev.scheme ≠ .None)
    (hl : 2 ≤ prev.q.length ∧ prev.q.length ≤ 65) (hq : ∀ v ∈ prev.q, 2 ≤ v ∧ v < 2^60)
    (hT : ∃ b, rnsToolNew isPrime prev.n prev.q.dropLast prev.t = .ok b) : ∃ o, createNext isPrime prev sec = .ok o := by
  unfold createNext
  have hset : prev.setCoeff prev.q.dropLast = .ok (dropLastP prev) := by
    unfold Params.setCoeff
    have h1 : (prev.q.dropLast.all modulusOk) = true := by
      rw [List.all_eq_true]
      intro v hv
      exact modulusOk_of_range (hq v (List.dropLast_subset _ hv))
    rw [if_neg (by simp [h1]), if_neg (by intro h; exact hs h.1),
      if_neg (by simp only [Gen.HE_COEFF_MOD_COUNT_MAX, Gen.HE_COEFF_MOD_COUNT_MIN, List.length_dropLast]; omega)]
    rfl
  rw [hset]
  obtain ⟨c, hc⟩ := validate_total isPrime (dropLastP prev) sec hT
  simp only [bind, Except.bind, hc]
  split <;> exact ⟨_, rfl⟩

theorem dropLast_take {l : List Nat} {j : Nat} (hj : j ≤ l.length) : (l.take j).dropLast = l.take (j - 1) := by
  rw [List.dropLast_eq_take, List.length_take, Nat.min_eq_left hj, List.take_take, Nat.min_eq_left (by omega)]

/-- the `while` loop of `HeContext::new` is total -/
theorem expandFrom_total (isPrime : Nat → Bool) (sec : SecLevel) (P : Params)
    (hT : ∀ j, 1 ≤ j → j ≤ P.q.length → ∃ b, rnsToolNew isPrime P.n (P.q.take j) P.t = .ok b)
    (hq : ∀ v ∈ P.q, 2 ≤ v ∧ v < 2^60) (hl : P.q.length ≤ 65) :
    ∀ (fuel : Nat) (prev : Params), prev.scheme ≠ .None → prev.n = P.n → prev.t = P.t →
      (∃ j, j ≤ P.q.length ∧ prev.q = P.q.take j) → ∃ l, expandFrom isPrime sec fuel prev = .ok l
  | 0, _, _, _, _, _ => ⟨_, rfl⟩
  | fuel + 1, prev, hs, hn, ht, ⟨j, hj, hpq⟩ => by
    unfold expandFrom
    split
    · rename_i hlen
      have hjl : prev.q.length = j := by rw [hpq, List.length_take, Nat.min_eq_left hj]
      have hqp : ∀ v ∈ prev.q, 2 ≤ v ∧ v < 2^60 := fun v hv => hq v (by rw [hpq] at hv; exact List.take_subset _ _ hv)
      have hdl : prev.q.dropLast = P.q.take (j - 1) := by rw [hpq, dropLast_take hj]
      obtain ⟨o, ho⟩ := createNext_total isPrime prev sec hs ⟨by omega, by omega⟩ hqp
        (by rw [hn, ht, hdl]; exact hT (j - 1) (by omega) (by omega))
      rw [ho]
      cases o with
      | none => exact ⟨_, rfl⟩
      | some c =>
        obtain ⟨hcp, _, _⟩ := createNext_some ho
        obtain ⟨l, hrest⟩ := expandFrom_total isPrime sec P hT hq hl fuel c.parms (by rw [hcp]; exact hs)
          (by rw [hcp]; exact hn) (by rw [hcp]; exact ht) ⟨j - 1, by omega, by rw [hcp]; exact hdl⟩
        simp only [bind, Except.bind, hrest]
        exact ⟨_, rfl⟩
    · exact ⟨_, rfl⟩

/-- **totality of `HeContext::new` up to `RNSTool::new`**: for every primality oracle, parameter object, expansion flag and security
    level, if `RNSTool::new` returns (`Ok` or `Err`, no panic) for every non-empty prefix of the modulus chain, the model of
    `HeContext::new` returns a context.  (By `chain_wellformed` / `error_ladder` every level of it then carries `Success` or one
    specific error code.) -/
theorem new_total (isPrime : Nat → Bool) (p : Params) (expand : Bool) (sec : SecLevel)
    (hT : ∀ j, 1 ≤ j → j ≤ p.q.length → ∃ b, rnsToolNew isPrime p.n (p.q.take j) p.t = .ok b) :
    ∃ x, Context.new isPrime p expand sec = .ok x := by
  have hTkey : ∃ b, rnsToolNew isPrime p.n p.q p.t = .ok b := by
    by_cases h0 : p.q = []
    · rw [h0]
      refine ⟨false, ?_⟩
      unfold rnsToolNew
      simp [Gen.HE_COEFF_MOD_COUNT_MIN]
      rfl
    · have := hT p.q.length (by have := List.length_pos_iff.mpr h0; omega) (le_refl _)
      rwa [List.take_length] at this
  obtain ⟨key, hkey⟩ := validate_total isPrime p sec hTkey
  unfold Context.new
  rw [hkey]
  simp only [bind, Except.bind]
  by_cases hcond : (!key.valid || p.q.length == 1 || p.special) = true
  · -- no separate first level
    rw [if_pos hcond]
    simp only [pure, Except.pure, Option.getD_none]
    by_cases he : (expand && key.valid) = true
    · rw [if_pos he]
      have hval : key.err = .Success := by
        have : key.valid = true := by simp at he; exact he.2
        unfold ContextData.valid at this; simpa using this
      obtain ⟨hs, hlen, hq, _⟩ := validate_success hkey hval
      have hkp := validate_parms hkey
      obtain ⟨l, hl⟩ := expandFrom_total isPrime sec p hT hq (by omega) key.parms.q.length key.parms (by rw [hkp]; exact hs)
        (by rw [hkp]) (by rw [hkp]) ⟨p.q.length, le_refl _, by rw [hkp, List.take_length]⟩
      rw [hl]
      exact ⟨_, rfl⟩
    · rw [if_neg he]
      exact ⟨_, rfl⟩
  · rw [if_neg hcond]
    have hc' : key.valid = true ∧ p.q.length ≠ 1 ∧ p.special = false := by
      simp only [Bool.or_eq_true, Bool.not_eq_true', beq_iff_eq, not_or] at hcond
      refine ⟨by simpa using hcond.1.1, hcond.1.2, by simpa using hcond.2⟩
    have hval : key.err = .Success := by
      have := hc'.1; unfold ContextData.valid at this; simpa using this
    obtain ⟨hs, hlen, hq, _⟩ := validate_success hkey hval
    obtain ⟨o, ho⟩ := createNext_total isPrime p sec hs ⟨by omega, by omega⟩ hq
      (by rw [List.dropLast_eq_take]; exact hT (p.q.length - 1) (by omega) (by omega))
    rw [ho]
    simp only []
    by_cases he : (expand && (o.getD key).valid) = true
    · rw [if_pos he]
      have hfd : ∃ j, j ≤ p.q.length ∧ (o.getD key).parms.q = p.q.take j ∧ (o.getD key).parms.scheme ≠ .None ∧
          (o.getD key).parms.n = p.n ∧ (o.getD key).parms.t = p.t := by
        cases o with
        | none => exact ⟨p.q.length, le_refl _, by simp [validate_parms hkey], by simp [validate_parms hkey]; exact hs,
            by simp [validate_parms hkey], by simp [validate_parms hkey]⟩
        | some c =>
          obtain ⟨hcp, _, _⟩ := createNext_some ho
          refine ⟨p.q.length - 1, by omega, ?_, ?_, ?_, ?_⟩ <;> simp only [Option.getD_some, hcp, dropLastP]
          · exact List.dropLast_eq_take
          · exact hs
      obtain ⟨j, hj, h1, h2, h3, h4⟩ := hfd
      obtain ⟨l, hl⟩ := expandFrom_total isPrime sec p hT hq (by omega) (o.getD key).parms.q.length (o.getD key).parms h2 h3 h4
        ⟨j, hj, h1⟩
      rw [hl]
      exact ⟨_, rfl⟩
    · rw [if_neg he]
      exact ⟨_, rfl⟩

end HC.Ctx
