/- C02 (task P, part 3): THE PROGRAM-LEVEL HOMOMORPHISM THEOREM for BGV, by induction over programs (`BProg`, Model/Program.lean).

   `BProg.shadow` evaluates the program in ℤ[X]/(X^N+1) on the messages (the result is read modulo t at the end).
   `c02p_Enc l sk ct m V`: `ct` is canonical, NTT form, unit correction factor, and its exact phase is congruent modulo Q to an integer
   polynomial `v` with `v ≡ cf·m (mod t)` and `‖v‖∞ ≤ V` (for a fresh ciphertext `v = m + t·e`).
   `c02p_prog_inv` (the induction): whenever the model does not refuse, `BProg.noiseUB` returns the correction factor of the result and a
   bound `V` with `c02p_Enc (eval prog) (shadow prog) V`.
   `hom_program_bgv`: if moreover `2·V < Q`, `bgvDecrypt (eval prog) = trim (shadow prog mod t)`.  For every degree, chain, sizes. -/
import Heathcliff.Proofs.C02PL
namespace HC
open Finset

/-- the shadow program over ℤ[X]/(X^n+1): `M i` the message of ciphertext input i, `PL k` the integer reading of plaintext input k -/
def BProg.shadow (n : Nat) (M PL : Nat → Nat → Int) : BProg → Nat → Int
  | .inp i => M i
  | .neg p => fun j => - p.shadow n M PL j
  | .add p q => fun j => p.shadow n M PL j + q.shadow n M PL j
  | .sub p q => fun j => p.shadow n M PL j - q.shadow n M PL j
  | .mul p q => negMulR n (p.shadow n M PL) (q.shadow n M PL)
  | .mulPlain p k => negMulR n (p.shadow n M PL) (PL k)

/-- `ct` encrypts `m` with phase norm at most `V` -/
def c02p_Enc (l : Level) (sk : Array Int) (ct : Ct) (m : Nat → Int) (V : Nat) : Prop :=
  c02p_Good l ct ∧ ∃ v : Nat → Int,
    (∀ j, j < l.n → c02p_ph l sk ct j ≡ v j [ZMOD l.tool.baseQ.prod]) ∧
    (∀ j, j < l.n → v j ≡ (ct.cf : Int) * m j [ZMOD l.t.value]) ∧
    (∀ j, j < l.n → (v j).natAbs ≤ V)

theorem c02p_negMul_smul_right {R : Type} [CommRing R] (n : Nat) (k : R) (a b : Nat → R) (c : Nat) :
    negMulR n a (fun i => k * b i) c = k * negMulR n a b c := by
  unfold negMulR
  rw [Finset.mul_sum]
  apply Finset.sum_congr rfl
  intro i _
  split <;> ring

theorem c02p_bal_modEq {t e1 e2 f1 f2 f : Nat} (hm1 : (e1 * f1) % t = f) (hm2 : (e2 * f2) % t = f) {va vb ma mb : Int}
    (ha : va ≡ (f1 : Int) * ma [ZMOD t]) (hb : vb ≡ (f2 : Int) * mb [ZMOD t]) (sub : Bool) :
    (e1 : Int) * va + (if sub then -(e2 : Int) else (e2 : Int)) * vb ≡ (f : Int) * (if sub then ma - mb else ma + mb) [ZMOD t] := by
  have k1 : (e1 : Int) * (f1 : Int) ≡ (f : Int) [ZMOD t] := by
    have : Nat.ModEq t (e1 * f1) f := by unfold Nat.ModEq; rw [← hm1, Nat.mod_mod]
    have := Int.natCast_modEq_iff.mpr this
    push_cast at this
    exact this
  have k2 : (e2 : Int) * (f2 : Int) ≡ (f : Int) [ZMOD t] := by
    have : Nat.ModEq t (e2 * f2) f := by unfold Nat.ModEq; rw [← hm2, Nat.mod_mod]
    have := Int.natCast_modEq_iff.mpr this
    push_cast at this
    exact this
  have a1 : (e1 : Int) * va ≡ (f : Int) * ma [ZMOD t] :=
    (ha.mul_left _).trans (by rw [← mul_assoc]; exact k1.mul_right _)
  have b1 : (e2 : Int) * vb ≡ (f : Int) * mb [ZMOD t] :=
    (hb.mul_left _).trans (by rw [← mul_assoc]; exact k2.mul_right _)
  cases sub
  · simp only [Bool.false_eq_true, if_false]
    rw [mul_add]; exact a1.add b1
  · simp only [if_true]
    rw [mul_sub, neg_mul, ← sub_eq_add_neg]; exact a1.sub b1

/-- one add / sub step of the induction -/
theorem c02p_step_tr {l : Level} (h : c02p_LevelOK l) {sk : Array Int} (hsk : sk.size = l.n) {a b r : Ct} {ma mb : Nat → Int}
    {Va Vb : Nat} (ha : c02p_Enc l sk a ma Va) (hb : c02p_Enc l sk b mb Vb) (sub : Bool)
    (hr : ctTranslateBalanced l a b sub = .ok r) :
    ∃ e1 e2 : Nat, c02p_balance l.t a.cf b.cf = some (r.cf, e1, e2) ∧
      c02p_Enc l sk r (fun j => if sub then ma j - mb j else ma j + mb j) (e1 * Va + e2 * Vb) := by
  obtain ⟨ga, va, a1, a2, a3⟩ := ha
  obtain ⟨gb, vb, b1, b2, b3⟩ := hb
  obtain ⟨e1, e2, hbal, gr, _, hm1, hm2, hph⟩ := c02p_translate_ph h hsk ga gb sub hr (sk := sk)
  refine ⟨e1, e2, hbal, gr, fun j => (e1 : Int) * va j + (if sub then -(e2 : Int) else (e2 : Int)) * vb j, fun j hj => ?_,
    fun j hj => ?_, fun j hj => ?_⟩
  · exact (hph j hj).trans (((a1 j hj).mul_left _).add ((b1 j hj).mul_left _))
  · exact c02p_bal_modEq hm1 hm2 (a2 j hj) (b2 j hj) sub
  · refine le_trans (Int.natAbs_add_le _ _) ?_
    rw [Int.natAbs_mul, Int.natAbs_mul, Int.natAbs_natCast]
    have : (if sub then -(e2 : Int) else (e2 : Int)).natAbs = e2 := by cases sub <;> simp
    rw [this]
    exact Nat.add_le_add (Nat.mul_le_mul_left _ (a3 j hj)) (Nat.mul_le_mul_left _ (b3 j hj))

/-- THE INDUCTION: for every program the model does not refuse, on inputs that encrypt `M i` with phase norms `≤ (inB i).2` and correction
    factors `(inB i).1`, the a-priori bookkeeping `noiseUB` succeeds, returns the correction factor of the result, and the result encrypts
    the shadow program's value with phase norm at most the returned bound -/
theorem c02p_prog_inv {l : Level} (h : c02p_LevelOK l) {sk : Array Int} (hsk : sk.size = l.n) (cts : Nat → Ct) (pls : Nat → RnsPoly)
    (M PL : Nat → Nat → Int) (inB : Nat → Nat × Nat) (plB : Nat → Nat) :
    ∀ (prog : BProg) (r : Ct),
      (∀ i ∈ prog.ctInputs, c02p_Enc l sk (cts i) (M i) (inB i).2 ∧ (cts i).cf = (inB i).1) →
      (∀ k ∈ prog.plInputs, RnsCanon l (pls k) ∧ c02p_PlainLift l (pls k) (PL k) ∧ ∀ j, j < l.n → (PL k j).natAbs ≤ plB k) →
      prog.eval l cts pls = .ok r →
      ∃ V, prog.noiseUB l.t l.n inB plB = some (r.cf, V) ∧ c02p_Enc l sk r (prog.shadow l.n M PL) V := by
  intro prog
  induction prog with
  | inp i =>
    intro r hin _ hev
    have hr : cts i = r := Except.ok.inj hev
    subst hr
    obtain ⟨he, hcf⟩ := hin i (by simp [BProg.ctInputs])
    refine ⟨(inB i).2, ?_, he⟩
    show some (inB i) = _
    rw [hcf]
  | neg p ih =>
    intro r hin hpl hev
    obtain ⟨a, hea, hra⟩ := c01p_bind_ok (show (p.eval l cts pls >>= fun a => ctNegate l a) = .ok r from hev)
    obtain ⟨V, hub, ga, va, a1, a2, a3⟩ := ih a hin hpl hea
    obtain ⟨gr, hcf, _, hph⟩ := c02p_negate_ph h hsk ga hra (sk := sk)
    refine ⟨V, by rw [hcf]; exact hub, gr, fun j => - va j, fun j hj => (hph j hj).trans (a1 j hj).neg, fun j hj => ?_,
      fun j hj => by rw [Int.natAbs_neg]; exact a3 j hj⟩
    show - va j ≡ (r.cf : Int) * (- p.shadow l.n M PL j) [ZMOD l.t.value]
    rw [hcf, mul_neg]
    exact (a2 j hj).neg
  | add p q ihp ihq =>
    intro r hin hpl hev
    obtain ⟨a, hea, hev2⟩ := c01p_bind_ok (show (p.eval l cts pls >>= fun a => q.eval l cts pls >>= fun b =>
      ctTranslateBalanced l a b false) = .ok r from hev)
    obtain ⟨b, heb, hrb⟩ := c01p_bind_ok hev2
    obtain ⟨Va, huba, ea⟩ := ihp a (fun i hi => hin i (by simp [BProg.ctInputs, hi])) (fun k hk => hpl k (by simp [BProg.plInputs, hk])) hea
    obtain ⟨Vb, hubb, eb⟩ := ihq b (fun i hi => hin i (by simp [BProg.ctInputs, hi])) (fun k hk => hpl k (by simp [BProg.plInputs, hk])) heb
    obtain ⟨e1, e2, hbal, hE⟩ := c02p_step_tr h hsk ea eb false hrb
    refine ⟨e1 * Va + e2 * Vb, ?_, ?_⟩
    · show (match p.noiseUB l.t l.n inB plB, q.noiseUB l.t l.n inB plB with
        | some (f1, b1), some (f2, b2) => (match c02p_balance l.t f1 f2 with
          | some (f, e1, e2) => some (f, e1 * b1 + e2 * b2)
          | none => none)
        | _, _ => none) = _
      rw [huba, hubb]
      dsimp only
      rw [hbal]
    · have hE' : c02p_Enc l sk r (fun j => p.shadow l.n M PL j + q.shadow l.n M PL j) (e1 * Va + e2 * Vb) := by simpa using hE
      exact hE'
  | sub p q ihp ihq =>
    intro r hin hpl hev
    obtain ⟨a, hea, hev2⟩ := c01p_bind_ok (show (p.eval l cts pls >>= fun a => q.eval l cts pls >>= fun b =>
      ctTranslateBalanced l a b true) = .ok r from hev)
    obtain ⟨b, heb, hrb⟩ := c01p_bind_ok hev2
    obtain ⟨Va, huba, ea⟩ := ihp a (fun i hi => hin i (by simp [BProg.ctInputs, hi])) (fun k hk => hpl k (by simp [BProg.plInputs, hk])) hea
    obtain ⟨Vb, hubb, eb⟩ := ihq b (fun i hi => hin i (by simp [BProg.ctInputs, hi])) (fun k hk => hpl k (by simp [BProg.plInputs, hk])) heb
    obtain ⟨e1, e2, hbal, hE⟩ := c02p_step_tr h hsk ea eb true hrb
    refine ⟨e1 * Va + e2 * Vb, ?_, ?_⟩
    · show (match p.noiseUB l.t l.n inB plB, q.noiseUB l.t l.n inB plB with
        | some (f1, b1), some (f2, b2) => (match c02p_balance l.t f1 f2 with
          | some (f, e1, e2) => some (f, e1 * b1 + e2 * b2)
          | none => none)
        | _, _ => none) = _
      rw [huba, hubb]
      dsimp only
      rw [hbal]
    · have hE' : c02p_Enc l sk r (fun j => p.shadow l.n M PL j - q.shadow l.n M PL j) (e1 * Va + e2 * Vb) := by simpa using hE
      exact hE'
  | mul p q ihp ihq =>
    intro r hin hpl hev
    obtain ⟨a, hea, hev2⟩ := c01p_bind_ok (show (p.eval l cts pls >>= fun a => q.eval l cts pls >>= fun b =>
      bgvMultiply l a b) = .ok r from hev)
    obtain ⟨b, heb, hrb⟩ := c01p_bind_ok hev2
    obtain ⟨Va, huba, ga, va, a1, a2, a3⟩ := ihp a (fun i hi => hin i (by simp [BProg.ctInputs, hi]))
      (fun k hk => hpl k (by simp [BProg.plInputs, hk])) hea
    obtain ⟨Vb, hubb, gb, vb, b1, b2, b3⟩ := ihq b (fun i hi => hin i (by simp [BProg.ctInputs, hi]))
      (fun k hk => hpl k (by simp [BProg.plInputs, hk])) heb
    obtain ⟨gr, hcf, _, hph⟩ := c02p_mul_ph h hsk ga gb hrb (sk := sk)
    refine ⟨l.n * Va * Vb, ?_, gr, negMulR l.n va vb, fun j hj => ?_, fun j hj => ?_, fun j hj => ?_⟩
    · show (match p.noiseUB l.t l.n inB plB, q.noiseUB l.t l.n inB plB with
        | some (f1, b1), some (f2, b2) => some ((f1 * f2) % l.t.value, l.n * b1 * b2)
        | _, _ => none) = _
      rw [huba, hubb, hcf]
    · exact (hph j hj).trans (c02x_negMulR_modEq l.n _ a1 b1 hj)
    · show negMulR l.n va vb j ≡ (r.cf : Int) * negMulR l.n (p.shadow l.n M PL) (q.shadow l.n M PL) j [ZMOD l.t.value]
      refine (c02x_negMulR_modEq l.n _ a2 b2 hj).trans ?_
      rw [c05u_negMul_smul, c02p_negMul_smul_right, ← mul_assoc, hcf]
      refine Int.ModEq.mul_right _ ?_
      have := (Int.emod_emod_of_dvd ((a.cf : Int) * (b.cf : Int)) (dvd_refl (l.t.value : Int)))
      rw [Int.natCast_mod, Nat.cast_mul]
      exact (Int.mod_modEq _ _).symm
    · exact c02p_negMul_bound l.n va vb Va Vb j hj a3 b3
  | mulPlain p k ih =>
    intro r hin hpl hev
    obtain ⟨a, hea, hra⟩ := c01p_bind_ok (show (p.eval l cts pls >>= fun a => ctMultiplyPlainNtt l a (pls k)) = .ok r from hev)
    obtain ⟨Va, huba, ga, va, a1, a2, a3⟩ := ih a hin (fun k' hk => hpl k' (by simp [BProg.plInputs, hk])) hea
    obtain ⟨hpc, hpL, hpB⟩ := hpl k (by simp [BProg.plInputs])
    obtain ⟨gr, hcf, _, hph⟩ := c02p_mulPlain_ph h hsk ga hpc hpL hra (sk := sk)
    refine ⟨l.n * Va * plB k, ?_, gr, negMulR l.n va (PL k), fun j hj => ?_, fun j hj => ?_, fun j hj => ?_⟩
    · show (match p.noiseUB l.t l.n inB plB with
        | some (f1, b1) => some (f1, l.n * b1 * plB k)
        | none => none) = _
      rw [huba, hcf]
    · exact (hph j hj).trans (c02x_negMulR_modEq l.n _ a1 (fun i _ => Int.ModEq.refl _) hj)
    · show negMulR l.n va (PL k) j ≡ (r.cf : Int) * negMulR l.n (p.shadow l.n M PL) (PL k) j [ZMOD l.t.value]
      refine (c02x_negMulR_modEq l.n _ a2 (fun i _ => Int.ModEq.refl _) hj).trans ?_
      rw [c05u_negMul_smul, hcf]
    · exact c02p_negMul_bound l.n va (PL k) Va (plB k) j hj a3 hpB

/-! ## decryption of an encryption with small phase -/

theorem c02p_decrypt_of_enc {l : Level} (h : c02p_LevelOK l) {sk : Array Int} (hsk : sk.size = l.n) {r : Ct} {m : Nat → Int} {V : Nat}
    (he : c02p_Enc l sk r m V) (hV : 2 * V < l.tool.baseQ.prod) :
    bgvDecrypt l sk r = .ok (Spec.trim (Array.ofFn (n := l.n) fun j => Spec.imod (m j.val) l.t.value)) := by
  obtain ⟨g, v, h1, h2, h3⟩ := he
  have htw := h.twf
  have ht2 := htw.two_le
  have ht61 := htw.lt
  have hcflt := g.cf_lt h
  have hQ := c01p_prodL_qvals h.dec
  have h2s := g.canon.two_le
  have hne : r.polys.toList.map (rnsIntt l) ≠ [] := by simpa using c01q_polys_ne h2s
  have hsz : ∀ p ∈ r.polys.toList.map (rnsIntt l), p.size = l.size := fun p hp => by
    obtain ⟨p', -, rfl⟩ := List.mem_map.mp hp; exact c01p_rnsIntt_size l p'
  have hpv : ∀ j, j < l.n → c02p_ph l sk r j = v j := by
    intro j hj
    obtain ⟨c1, c2⟩ := c01q_phase_centred h.lq (sk := sk) hne hsz hj
    have hv : |v j| ≤ (V : Int) := by rw [Int.abs_eq_natAbs]; exact_mod_cast h3 j hj
    obtain ⟨v1, v2⟩ := abs_le.mp hv
    have hd : (l.tool.baseQ.prod : Int) ∣ c02p_ph l sk r j - v j := (h1 j hj).symm.dvd
    have hlt : |c02p_ph l sk r j - v j| < (l.tool.baseQ.prod : Int) := by
      unfold c02p_ph
      rw [abs_lt]
      constructor <;> omega
    have := Int.eq_zero_of_abs_lt_dvd hd hlt
    omega
  have hr : r = ⟨r.polys, true, r.cf⟩ := by
    cases r with
    | mk polys ntt cf => have := g.ntt; simp only at this; subst this; rfl
  rw [hr]
  rw [bgvDecrypt_eq_spec h.wf h.dec hsk h2s g.canon.canon (by omega : r.cf < 2^63) g.unit (fun j hj => by
    have := hpv j hj
    unfold c02p_ph at this
    rw [this, hQ]
    have hv : |v j| ≤ (V : Int) := by rw [Int.abs_eq_natAbs]; exact_mod_cast h3 j hj
    obtain ⟨v1, v2⟩ := abs_le.mp hv
    omega)]
  congr 2
  have hps := (c01q_phase_general h.lq (sk := sk) hne hsz h.npos).1
  apply array_ext_getD (n := l.n) (by rw [c01p_bgvDecode_size, hps]) (by simp)
  intro j hj
  rw [c01p_bgvDecode_getD _ _ _ (by rw [hps]; exact hj), c01o_ofFn_getD _ _ _ hj]
  have ht0 : 0 < l.t.value := by omega
  apply cast_inj_lt (Nat.mod_lt _ ht0) (c07l_imod_lt ht0 _)
  have hp := hpv j hj
  unfold c02p_ph at hp
  have hinv := c02v_inv_zmod ht2 (by omega : l.t.value < 2^199) g.unit
  have hvm := (ZMod.intCast_eq_intCast_iff _ _ _).mpr (h2 j hj)
  push_cast at hvm
  rw [ZMod.natCast_mod]
  push_cast
  rw [c02v_imod_zmod _ ht0, c02v_imod_zmod _ ht0, hp, hvm]
  linear_combination ((m j : Int) : ZMod l.t.value) * hinv

/-! ## Property theorems -/

/-- THE PROGRAM-LEVEL HOMOMORPHISM THEOREM (BGV, ring operations).  For every level built by the constructors (`c02p_LevelOK`: any
    degree N = 2^k, any chain of moduli, any plain modulus), every secret key, every program `prog` over negate / add / sub (all size pairs,
    balancing of different correction factors included) / multiply and square (all size pairs) / multiply_plain, every assignment of inputs:
    if each ciphertext input is canonical, in NTT form, has a unit correction factor `(inB i).1` and an exact phase congruent modulo Q to
    some `v_i ≡ cf_i·M_i (mod t)` with `‖v_i‖∞ ≤ (inB i).2`, each plaintext input is canonical with integer reading `PL k`, `‖PL k‖∞ ≤ plB k`,
    the MODEL DOES NOT REFUSE the program (`eval = .ok r`), and the decidable a-priori bound `noiseUB prog = some (f, V)` satisfies
    `2·V < Q`, then `bgvDecrypt (eval prog)` succeeds and is the shadow program evaluated in ℤ[X]/(X^N+1), read modulo t. -/
theorem hom_program_bgv {l : Level} (h : c02p_LevelOK l) {sk : Array Int} (hsk : sk.size = l.n) (cts : Nat → Ct) (pls : Nat → RnsPoly)
    (M PL : Nat → Nat → Int) (inB : Nat → Nat × Nat) (plB : Nat → Nat) (prog : BProg) {r : Ct}
    (hin : ∀ i ∈ prog.ctInputs, c02p_Enc l sk (cts i) (M i) (inB i).2 ∧ (cts i).cf = (inB i).1)
    (hpl : ∀ k ∈ prog.plInputs, RnsCanon l (pls k) ∧ c02p_PlainLift l (pls k) (PL k) ∧ ∀ j, j < l.n → (PL k j).natAbs ≤ plB k)
    (hev : prog.eval l cts pls = .ok r) {f V : Nat} (hub : prog.noiseUB l.t l.n inB plB = some (f, V))
    (hV : 2 * V < l.tool.baseQ.prod) :
    bgvDecrypt l sk r = .ok (Spec.trim (Array.ofFn (n := l.n) fun j => Spec.imod (prog.shadow l.n M PL j.val) l.t.value)) := by
  obtain ⟨V', hub', he⟩ := c02p_prog_inv h hsk cts pls M PL inB plB prog r hin hpl hev
  rw [hub] at hub'
  have hVV : V = V' := by injection hub' with h1; injection h1
  subst hVV
  exact c02p_decrypt_of_enc h hsk he hV

/-- the bookkeeping never fails where the model succeeds, and returns the result's correction factor (first half of `c02p_prog_inv`) -/
theorem hom_program_bgv_noiseUB {l : Level} (h : c02p_LevelOK l) {sk : Array Int} (hsk : sk.size = l.n) (cts : Nat → Ct)
    (pls : Nat → RnsPoly) (M PL : Nat → Nat → Int) (inB : Nat → Nat × Nat) (plB : Nat → Nat) (prog : BProg) {r : Ct}
    (hin : ∀ i ∈ prog.ctInputs, c02p_Enc l sk (cts i) (M i) (inB i).2 ∧ (cts i).cf = (inB i).1)
    (hpl : ∀ k ∈ prog.plInputs, RnsCanon l (pls k) ∧ c02p_PlainLift l (pls k) (PL k) ∧ ∀ j, j < l.n → (PL k j).natAbs ≤ plB k)
    (hev : prog.eval l cts pls = .ok r) :
    ∃ V, prog.noiseUB l.t l.n inB plB = some (r.cf, V) ∧ c02p_Enc l sk r (prog.shadow l.n M PL) V :=
  c02p_prog_inv h hsk cts pls M PL inB plB prog r hin hpl hev

/-- inputs: a canonical NTT-form ciphertext with unit factor whose exact phase is `cf·m + t·e` (as integers) with `‖m‖∞ ≤ Bm`, `‖e‖∞ ≤ Be`
    satisfies the input hypothesis with `V = cf·Bm + t·Be` (fresh ciphertext: cf = 1) -/
theorem c02p_enc_of_fresh {l : Level} {sk : Array Int} {ct : Ct} (g : c02p_Good l ct) (m e : Nat → Int) (Bm Be : Nat)
    (hph : ∀ j, j < l.n → c02p_ph l sk ct j = (ct.cf : Int) * m j + (l.t.value : Int) * e j)
    (hm : ∀ j, j < l.n → (m j).natAbs ≤ Bm) (he : ∀ j, j < l.n → (e j).natAbs ≤ Be) :
    c02p_Enc l sk ct m (ct.cf * Bm + l.t.value * Be) := by
  refine ⟨g, fun j => (ct.cf : Int) * m j + (l.t.value : Int) * e j, fun j hj => by rw [hph j hj], fun j _ => ?_, fun j hj => ?_⟩
  · rw [Int.modEq_iff_dvd]
    exact ⟨- e j, by ring⟩
  · refine le_trans (Int.natAbs_add_le _ _) ?_
    rw [Int.natAbs_mul, Int.natAbs_mul, Int.natAbs_natCast, Int.natAbs_natCast]
    exact Nat.add_le_add (Nat.mul_le_mul_left _ (hm j hj)) (Nat.mul_le_mul_left _ (he j hj))

/-- the level bundle from the constructors: whatever `RNSBase.new` / `RNSTool.new` / `NTTTables.new` build (`c01q_Built`) for a BGV level
    with a well-formed plain modulus satisfies `c02p_LevelOK` -/
theorem c02p_levelOK_of_built {l : Level} (hb : c01q_Built l) (ht : l.t.WF) (hs : l.scheme = .bgv) : c02p_LevelOK l := by
  obtain ⟨a1, a2, _, a4⟩ := level_bundles_of_constructors hb
  exact ⟨a1, a2, (a4 ht).1, hs⟩

end HC
