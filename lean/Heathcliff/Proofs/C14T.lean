/-
  C14T: the converse of `c14s_ctC_valid` / `c14s_ctTermsC_valid` — what the validity predicate of the ciphertext codecs says in
  plain terms, as an IFF (helpers tagged `c14t_`).

  `c14s_CtWF ∧ head fits ⇒ valid` was proved in C14S.  The naive converse `valid ⇒ c14s_CtWF` is FALSE for the model's
  `Ct` (its `scale` and `cf` fields are unbounded naturals, and a field that the level's scheme does not put on the wire is not
  constrained by `valid`): `c14t_validImpCtWF_refuted` (witness: BFV level, scale = 2^64).  The strongest true version:

    valid  ⇔  `c14t_CtWFw` (= `c14s_CtWF` with the two word bounds required only for the scheme that serializes the field)
               ∧ polynomial 0 fits                                                   (`c14t_ctC_valid_iff`, `c14t_ctTermsC_valid_iff`)
    c14s_CtWF ⇔ c14t_CtWFw ∧ scale < 2^64 ∧ cf < 2^64                                 (`c14t_CtWF_iff`)
    valid ∧ scale < 2^64 ∧ cf < 2^64 ⇒ c14s_CtWF ∧ polynomial 0 fits                   (`c14t_ctC_valid_imp_CtWF`)

  (every Rust `Ciphertext` has `scale: f64` and `correction_factor: u64`, so the last form is the converse on the image of the code).
  Core Lean only.
-/
import Heathcliff.Proofs.C14S
namespace HC.Codec

/-! ## converses of the elementary validity lemmas -/

theorem c14t_repC_valid_iff {α} (c : Codec α) : ∀ (n : Nat) (l : List α),
    (repC n c).valid l ↔ (l.length = n ∧ ∀ x ∈ l, c.valid x) := by
  intro n
  induction n with
  | zero =>
    intro l
    cases l with
    | nil => exact ⟨fun _ => ⟨rfl, fun _ h => by cases h⟩, fun _ => trivial⟩
    | cons x xs => exact ⟨fun h => False.elim h, fun h => by simp at h⟩
  | succ n ih =>
    intro l
    cases l with
    | nil => exact ⟨fun h => False.elim h, fun h => by simp at h⟩
    | cons x xs =>
      constructor
      · intro h
        obtain ⟨h1, h2⟩ : c.valid x ∧ (repC n c).valid xs := h
        obtain ⟨hl, ha⟩ := (ih xs).mp h2
        refine ⟨by simp [hl], fun y hy => ?_⟩
        rcases List.mem_cons.mp hy with rfl | hy
        · exact h1
        · exact ha y hy
      · rintro ⟨hl, ha⟩
        exact repC_valid_of c (n + 1) (x :: xs) hl ha

theorem c14t_limC_valid_iff (l v : Nat) : (limC l).valid v ↔ v < 256 ^ l :=
  ⟨fun h => h.2, limC_valid_of_lt l v⟩

theorem c14t_u64_valid_iff (v : Nat) : u64C.valid v ↔ v < 2 ^ 64 := by
  constructor
  · intro h
    have h' : v < 256 ^ 8 := h
    rw [c14s_pow256] at h'; exact h'
  · exact c14s_u64_valid v

theorem c14t_repC_u64_valid_iff (n : Nat) (l : List Nat) :
    (repC n u64C).valid l ↔ (l.length = n ∧ ∀ w ∈ l, w < 2 ^ 64) := by
  rw [c14t_repC_valid_iff]
  exact ⟨fun h => ⟨h.1, fun w hw => (c14t_u64_valid_iff w).mp (h.2 w hw)⟩,
    fun h => ⟨h.1, fun w hw => (c14t_u64_valid_iff w).mpr (h.2 w hw)⟩⟩

/-- converse of `c14s_polyFits_valid`: the compact polynomial codec accepts exactly the polynomials that fit -/
theorem c14t_polyFits_iff (m : Nat) : ∀ (qs : List Nat) (p : Poly),
    seqValid (qs.map fun q => repC m (limC (u64Limit q))) p ↔ c14s_PolyFits m qs p := by
  intro qs
  induction qs with
  | nil =>
    intro p
    cases p with
    | nil => exact ⟨fun _ => trivial, fun _ => trivial⟩
    | cons _ _ => exact ⟨fun h => False.elim h, fun h => False.elim h⟩
  | cons q qs ih =>
    intro p
    cases p with
    | nil => exact ⟨fun h => False.elim h, fun h => False.elim h⟩
    | cons comp p =>
      constructor
      · intro h
        obtain ⟨h1, h2⟩ : (repC m (limC (u64Limit q))).valid comp ∧
            seqValid (qs.map fun q => repC m (limC (u64Limit q))) p := h
        obtain ⟨hl, ha⟩ := (c14t_repC_valid_iff _ _ _).mp h1
        exact ⟨⟨hl, fun v hv => (c14t_limC_valid_iff _ _).mp (ha v hv)⟩, (ih p).mp h2⟩
      · exact c14s_polyFits_valid m (q :: qs) (comp :: p)

theorem c14t_polyC_valid_iff (lv : Level) (p : Poly) : (polyC lv).valid p ↔ c14s_PolyFits lv.n lv.moduli p :=
  c14t_polyFits_iff lv.n lv.moduli p

theorem c14t_termsPolyC_valid_iff (t : Nat) (lv : Level) (p : Poly) :
    (termsPolyC t lv).valid p ↔ c14s_PolyFits t lv.moduli p :=
  c14t_polyFits_iff t lv.moduli p

/-- the scheme-dependent header field constrains exactly the field that is on the wire -/
theorem c14t_extraC_valid_iff (s scale cf : Nat) :
    (extraC s).valid (if s == 2 then [scale] else if s == 3 then [cf] else []) ↔
      ((s = 2 → scale < 2 ^ 64) ∧ (s = 3 → cf < 2 ^ 64)) := by
  by_cases e2 : s = 2
  · subst e2
    show (repC 1 u64C).valid [scale] ↔ _
    rw [c14t_repC_u64_valid_iff]
    exact ⟨fun h => ⟨fun _ => h.2 scale (by simp), fun h3 => absurd h3 (by decide)⟩,
      fun h => ⟨rfl, fun w hw => by rw [List.mem_singleton.mp hw]; exact h.1 rfl⟩⟩
  · by_cases e3 : s = 3
    · subst e3
      show (repC 1 u64C).valid [cf] ↔ _
      rw [c14t_repC_u64_valid_iff]
      exact ⟨fun h => ⟨fun h2 => absurd h2 (by decide), fun _ => h.2 cf (by simp)⟩,
        fun h => ⟨rfl, fun w hw => by rw [List.mem_singleton.mp hw]; exact h.2 rfl⟩⟩
    · have e2' : (s == 2) = false := by simp [e2]
      have e3' : (s == 3) = false := by simp [e3]
      unfold extraC
      simp only [e2', e3', Bool.false_eq_true, if_false]
      rw [c14t_repC_u64_valid_iff]
      exact ⟨fun _ => ⟨fun h => absurd h e2, fun h => absurd h e3⟩, fun _ => ⟨rfl, fun w hw => by cases hw⟩⟩

/-! ## the body: converse of `c14s_body_valid` -/

theorem c14t_body_valid_conv (lv : Level) (first : Codec Poly) (size : Nat) (polys : List Poly) (seed : List Nat)
    (h : (ctBodyC lv size first).valid (!seed.isEmpty, polys, seed)) :
    (polys.length = if (!seed.isEmpty) then 1 else size) ∧
    (seed = [] ∨ (seed.length = 8 ∧ ∀ w ∈ seed, w < 2 ^ 64)) ∧
    (∀ p0, polys.head? = some p0 → first.valid p0) ∧
    (∀ p ∈ polys.tail, c14s_PolyFits lv.n lv.moduli p) := by
  obtain ⟨_, _, hseq, hseed⟩ := h
  cases hse : seed.isEmpty with
  | false =>
    have hseq' : seqValid [first] polys := by
      have : seqValid (if (!seed.isEmpty) = true then [first]
          else (first :: List.replicate (size - 1) (polyC lv)).take size) polys := hseq
      simpa [hse] using this
    have hseed' : (repC seedWords u64C).valid seed := by
      have : (repC (if (!seed.isEmpty) = true then seedWords else 0) u64C).valid seed := hseed
      simpa [hse] using this
    obtain ⟨hl, hu⟩ := (c14t_repC_u64_valid_iff _ _).mp hseed'
    cases polys with
    | nil => exact False.elim hseq'
    | cons p0 ps =>
      cases ps with
      | cons _ _ => exact False.elim hseq'.2
      | nil =>
        refine ⟨by simp, Or.inr ⟨hl, hu⟩, fun q hq => ?_, fun p hp => (by simp at hp)⟩
        have : p0 = q := by simpa using hq
        subst this
        exact hseq'.1
  | true =>
    have hs0 : seed = [] := List.isEmpty_iff.mp hse
    have hseq' : seqValid ((first :: List.replicate (size - 1) (polyC lv)).take size) polys := by
      have : seqValid (if (!seed.isEmpty) = true then [first]
          else (first :: List.replicate (size - 1) (polyC lv)).take size) polys := hseq
      simpa [hse] using this
    cases size with
    | zero =>
      cases polys with
      | nil => exact ⟨by simp, Or.inl hs0, fun q hq => (by simp at hq), fun p hp => (by simp at hp)⟩
      | cons _ _ => exact False.elim hseq'
    | succ k =>
      have e : (first :: List.replicate (k + 1 - 1) (polyC lv)).take (k + 1) = first :: List.replicate k (polyC lv) := by
        simp
      rw [e] at hseq'
      cases polys with
      | nil => exact False.elim hseq'
      | cons p0 ps =>
        obtain ⟨h0, hrest⟩ : first.valid p0 ∧ (repC k (polyC lv)).valid ps := hseq'
        obtain ⟨hl, ha⟩ := (c14t_repC_valid_iff _ _ _).mp hrest
        refine ⟨by simp [hl], Or.inl hs0, fun q hq => ?_, fun p hp => (c14t_polyC_valid_iff lv p).mp (ha p hp)⟩
        have : p0 = q := by simpa using hq
        subst this
        exact h0

/-! ## the ciphertext codecs -/

/-- `c14s_CtWF` with the two header word bounds required only where the level's scheme serializes the field
    (scheme 2 = CKKS: the scale; scheme 3 = BGV: the correction factor) -/
structure c14t_CtWFw (ctx : Ctx) (c : Ct) : Prop where
  pid_len : c.pid.length = 4
  pid_u64 : ∀ w ∈ c.pid, w < 2 ^ 64
  known : (ctx.find c.pid).isSome = true
  size_u64 : c.size < 2 ^ 64
  scale_u64 : ((ctx.find c.pid).getD noLevel).scheme = 2 → c.scale < 2 ^ 64
  cf_u64 : ((ctx.find c.pid).getD noLevel).scheme = 3 → c.cf < 2 ^ 64
  count : c.polys.length = if c.seeded then 1 else c.size
  seed_ok : c.seed = [] ∨ (c.seed.length = 8 ∧ ∀ w ∈ c.seed, w < 2 ^ 64)
  tail_fit : ∀ p ∈ c.polys.tail,
    c14s_PolyFits ((ctx.find c.pid).getD noLevel).n ((ctx.find c.pid).getD noLevel).moduli p

theorem c14t_CtWF_iff (ctx : Ctx) (c : Ct) :
    c14s_CtWF ctx c ↔ (c14t_CtWFw ctx c ∧ c.scale < 2 ^ 64 ∧ c.cf < 2 ^ 64) :=
  ⟨fun h => ⟨⟨h.pid_len, h.pid_u64, h.known, h.size_u64, fun _ => h.scale_u64, fun _ => h.cf_u64, h.count, h.seed_ok,
      h.tail_fit⟩, h.scale_u64, h.cf_u64⟩,
   fun h => ⟨h.1.pid_len, h.1.pid_u64, h.1.known, h.1.size_u64, h.2.1, h.2.2, h.1.count, h.1.seed_ok, h.1.tail_fit⟩⟩

/-- the polynomial list on the wire (head transformed by `tr`) -/
def c14t_wirePolys (ctx : Ctx) (tr : Level → Bool → Poly → Poly) (c : Ct) : List Poly :=
  match c.polys with
  | [] => []
  | p0 :: ps => tr ((ctx.find c.pid).getD noLevel) c.ntt p0 :: ps

theorem c14t_wirePolys_length (ctx : Ctx) (tr : Level → Bool → Poly → Poly) (c : Ct) :
    (c14t_wirePolys ctx tr c).length = c.polys.length := by
  unfold c14t_wirePolys; cases c.polys <;> rfl

theorem c14t_wirePolys_tail (ctx : Ctx) (tr : Level → Bool → Poly → Poly) (c : Ct) :
    (c14t_wirePolys ctx tr c).tail = c.polys.tail := by
  unfold c14t_wirePolys; cases c.polys <;> rfl

theorem c14t_wirePolys_head (ctx : Ctx) (tr : Level → Bool → Poly → Poly) (c : Ct) :
    (c14t_wirePolys ctx tr c).head? = c.polys.head?.map (tr ((ctx.find c.pid).getD noLevel) c.ntt) := by
  unfold c14t_wirePolys; cases c.polys <;> rfl

/-- converse of `c14s_ctWire_valid` (generic in the codec of polynomial 0) -/
theorem c14t_ctWire_valid_conv (ctx : Ctx) (first : Level → Codec Poly) (tr : Level → Bool → Poly → Poly) (c : Ct)
    (h : (ctWireC ctx first).valid (ctToWire ctx tr c)) :
    c14t_CtWFw ctx c ∧ ∀ p0, c.polys.head? = some p0 →
      (first ((ctx.find c.pid).getD noLevel)).valid (tr ((ctx.find c.pid).getD noLevel) c.ntt p0) := by
  obtain ⟨⟨hpv, hknown⟩, hnorm, hsz, _, _, hextra, hbody⟩ := h
  have hnorm' : pidC.norm c.pid = c.pid := hnorm
  have hknown' : (ctx.find (pidC.norm c.pid)).isSome = true := hknown
  rw [hnorm'] at hknown'
  have hpv' : (repC 4 u64C).valid c.pid := hpv
  obtain ⟨hpl, hpu⟩ := (c14t_repC_u64_valid_iff _ _).mp hpv'
  have hsz' : c.size < 2 ^ 64 := (c14t_u64_valid_iff c.size).mp hsz
  have hextra' : (extraC ((ctx.find c.pid).getD noLevel).scheme).valid
      (if ((ctx.find c.pid).getD noLevel).scheme == 2 then [c.scale]
       else if ((ctx.find c.pid).getD noLevel).scheme == 3 then [c.cf] else []) := hextra
  obtain ⟨hsc, hcf⟩ := (c14t_extraC_valid_iff _ _ _).mp hextra'
  have hbody' : (ctBodyC ((ctx.find c.pid).getD noLevel) c.size (first ((ctx.find c.pid).getD noLevel))).valid
      (!c.seed.isEmpty, c14t_wirePolys ctx tr c, c.seed) := hbody
  obtain ⟨hcount, hseed, hhead, htail⟩ := c14t_body_valid_conv _ _ _ _ _ hbody'
  rw [c14t_wirePolys_length] at hcount
  rw [c14t_wirePolys_tail] at htail
  refine ⟨⟨hpl, hpu, hknown', hsz', hsc, hcf, hcount, hseed, htail⟩, fun p0 hp0 => ?_⟩
  exact hhead _ (by rw [c14t_wirePolys_head, hp0]; rfl)

/-- the ciphertext with the two header fields that the level's scheme does NOT serialize set to 0: same wire tuple -/
def c14t_clip (ctx : Ctx) (c : Ct) : Ct :=
  { c with scale := if ((ctx.find c.pid).getD noLevel).scheme = 2 then c.scale else 0,
           cf := if ((ctx.find c.pid).getD noLevel).scheme = 3 then c.cf else 0 }

theorem c14t_clip_wire (ctx : Ctx) (tr : Level → Bool → Poly → Poly) (c : Ct) :
    ctToWire ctx tr (c14t_clip ctx c) = ctToWire ctx tr c := by
  unfold ctToWire c14t_clip Ct.seeded
  by_cases h2 : ((ctx.find c.pid).getD noLevel).scheme = 2
  · simp [h2]
  · by_cases h3 : ((ctx.find c.pid).getD noLevel).scheme = 3
    · simp [h3]
    · simp [h2, h3]

/-- `c14s_ctWire_valid` under the weak bundle (the unconditional word bounds of `c14s_CtWF` are not needed) -/
theorem c14t_ctWire_valid_of (ctx : Ctx) (first : Level → Codec Poly) (tr : Level → Bool → Poly → Poly) (c : Ct)
    (hw : c14t_CtWFw ctx c)
    (h0 : ∀ p0, c.polys.head? = some p0 →
      (first ((ctx.find c.pid).getD noLevel)).valid (tr ((ctx.find c.pid).getD noLevel) c.ntt p0)) :
    (ctWireC ctx first).valid (ctToWire ctx tr c) := by
  rw [← c14t_clip_wire ctx tr c]
  refine c14s_ctWire_valid ctx first tr (c14t_clip ctx c)
    ⟨hw.pid_len, hw.pid_u64, hw.known, hw.size_u64, ?_, ?_, hw.count, hw.seed_ok, hw.tail_fit⟩ h0
  · show (if ((ctx.find c.pid).getD noLevel).scheme = 2 then c.scale else 0) < 2 ^ 64
    split
    · exact hw.scale_u64 (by assumption)
    · decide
  · show (if ((ctx.find c.pid).getD noLevel).scheme = 3 then c.cf else 0) < 2 ^ 64
    split
    · exact hw.cf_u64 (by assumption)
    · decide

/-- COMPACT FORMAT, the validity predicate in plain terms (IFF): header words in range where they are on the wire, the parms id
    known to the context, the polynomial count right for the seed flag, the seed 8 words or absent, every polynomial of the
    level's shape with coefficients representable in `limit(q_j)` bytes -/
theorem c14t_ctC_valid_iff (ctx : Ctx) (expand : List Nat → Level → Poly) (c : Ct) :
    (ctC ctx expand).valid c ↔
      (c14t_CtWFw ctx c ∧ ∀ p0, c.polys.head? = some p0 →
        c14s_PolyFits ((ctx.find c.pid).getD noLevel).n ((ctx.find c.pid).getD noLevel).moduli p0) := by
  constructor
  · intro h
    obtain ⟨hw, h0⟩ := c14t_ctWire_valid_conv ctx polyC (fun _ _ p => p) c h
    exact ⟨hw, fun p0 hp => (c14t_polyC_valid_iff _ p0).mp (h0 p0 hp)⟩
  · rintro ⟨hw, h0⟩
    exact c14t_ctWire_valid_of ctx polyC (fun _ _ p => p) c hw (fun p0 hp => (c14t_polyC_valid_iff _ p0).mpr (h0 p0 hp))

/-- SELECTED-TERMS FORMAT, the validity predicate in plain terms (IFF): as above, with polynomial 0 judged on its gathered
    coefficients -/
theorem c14t_ctTermsC_valid_iff (ctx : Ctx) (expand : List Nat → Level → Poly)
    (fwd inv : Level → Nat → List Nat → List Nat) (T : List Nat) (c : Ct) :
    (ctTermsC ctx expand fwd inv T).valid c ↔
      (c14t_CtWFw ctx c ∧ ∀ p0, c.polys.head? = some p0 →
        c14s_PolyFits T.length ((ctx.find c.pid).getD noLevel).moduli
          (mapIdx (fun j comp => gather T (if c.ntt then inv ((ctx.find c.pid).getD noLevel) j comp else comp)) 0 p0)) := by
  constructor
  · intro h
    obtain ⟨hw, h0⟩ := c14t_ctWire_valid_conv ctx (termsPolyC T.length) _ c h
    exact ⟨hw, fun p0 hp => (c14t_termsPolyC_valid_iff _ _ _).mp (h0 p0 hp)⟩
  · rintro ⟨hw, h0⟩
    exact c14t_ctWire_valid_of ctx (termsPolyC T.length) _ c hw
      (fun p0 hp => (c14t_termsPolyC_valid_iff _ _ _).mpr (h0 p0 hp))

/-- THE CONVERSE on the image of the code (every Rust `Ciphertext` has `scale: f64`, `correction_factor: u64`, i.e. both fields
    are 64-bit words): a valid ciphertext is well formed in the sense of `c14s_CtWF` and its polynomial 0 fits -/
theorem c14t_ctC_valid_imp_CtWF (ctx : Ctx) (expand : List Nat → Level → Poly) (c : Ct)
    (hv : (ctC ctx expand).valid c) (hs : c.scale < 2 ^ 64) (hc : c.cf < 2 ^ 64) :
    c14s_CtWF ctx c ∧ ∀ p0, c.polys.head? = some p0 →
      c14s_PolyFits ((ctx.find c.pid).getD noLevel).n ((ctx.find c.pid).getD noLevel).moduli p0 := by
  obtain ⟨hw, h0⟩ := (c14t_ctC_valid_iff ctx expand c).mp hv
  exact ⟨(c14t_CtWF_iff ctx c).mpr ⟨hw, hs, hc⟩, h0⟩

theorem c14t_ctTermsC_valid_imp_CtWF (ctx : Ctx) (expand : List Nat → Level → Poly)
    (fwd inv : Level → Nat → List Nat → List Nat) (T : List Nat) (c : Ct)
    (hv : (ctTermsC ctx expand fwd inv T).valid c) (hs : c.scale < 2 ^ 64) (hc : c.cf < 2 ^ 64) :
    c14s_CtWF ctx c ∧ ∀ p0, c.polys.head? = some p0 →
      c14s_PolyFits T.length ((ctx.find c.pid).getD noLevel).moduli
        (mapIdx (fun j comp => gather T (if c.ntt then inv ((ctx.find c.pid).getD noLevel) j comp else comp)) 0 p0) := by
  obtain ⟨hw, h0⟩ := (c14t_ctTermsC_valid_iff ctx expand fwd inv T c).mp hv
  exact ⟨(c14t_CtWF_iff ctx c).mpr ⟨hw, hs, hc⟩, h0⟩

/-- `valid ⇔ c14s_CtWF ∧ head fits` for objects whose two header fields are words -/
theorem c14t_ctC_valid_iff_CtWF (ctx : Ctx) (expand : List Nat → Level → Poly) (c : Ct)
    (hs : c.scale < 2 ^ 64) (hc : c.cf < 2 ^ 64) :
    (ctC ctx expand).valid c ↔
      (c14s_CtWF ctx c ∧ ∀ p0, c.polys.head? = some p0 →
        c14s_PolyFits ((ctx.find c.pid).getD noLevel).n ((ctx.find c.pid).getD noLevel).moduli p0) :=
  ⟨fun hv => c14t_ctC_valid_imp_CtWF ctx expand c hv hs hc, fun h => c14s_ctC_valid ctx expand c h.1 h.2⟩

/-! ## the naive converse is false for the model's unbounded fields -/

/-- the naive statement `valid ⇒ c14s_CtWF` -/
def c14t_ValidImpCtWFStatement : Prop :=
  ∀ (ctx : Ctx) (expand : List Nat → Level → Poly) (c : Ct), (ctC ctx expand).valid c → c14s_CtWF ctx c

/-- the BFV example ciphertext with a `scale` field that is not a 64-bit word: BFV does not serialize the scale, so the codec's
    domain does not constrain it -/
def c14t_exCtBigScale : Ct := { c14s_exCt with scale := 2 ^ 64 }

theorem c14t_exCtBigScale_valid (expand : List Nat → Level → Poly) : (ctC c14s_exCtx expand).valid c14t_exCtBigScale := by
  refine (c14t_ctC_valid_iff _ _ _).mpr ⟨⟨rfl, by decide, by decide, by decide, fun h => ?_, fun h => ?_, rfl, Or.inl rfl, ?_⟩, ?_⟩
  · exact absurd h (by decide)
  · exact absurd h (by decide)
  · exact c14s_exCt_wf.tail_fit
  · intro p0 hp
    have : p0 = [[1, 2, 3, 16], [0, 256, 5, 7]] := by
      have h : some [[1, 2, 3, 16], [0, 256, 5, 7]] = some p0 := hp
      injection h with h; exact h.symm
    subst this
    exact ⟨⟨rfl, by decide⟩, ⟨rfl, by decide⟩, trivial⟩

/-- REFUTED: `valid ⇒ c14s_CtWF` fails (witness: one BFV level, scale field = 2^64).  A finding about the model's domain (unbounded
    naturals for word-sized fields), not about the library; the true versions are `c14t_ctC_valid_iff` and
    `c14t_ctC_valid_imp_CtWF`. -/
theorem c14t_validImpCtWF_refuted : ¬ c14t_ValidImpCtWFStatement := by
  intro h
  have hw := h c14s_exCtx (fun _ _ => []) c14t_exCtBigScale (c14t_exCtBigScale_valid _)
  exact absurd hw.scale_u64 (by decide)

/-- the hypotheses of the positive converse are satisfiable: the example ciphertexts of C14S -/
example (expand : List Nat → Level → Poly) : c14s_CtWF c14s_exCtx c14s_exCt :=
  (c14t_ctC_valid_imp_CtWF _ expand _ (c14s_exCt_valid expand) (by decide) (by decide)).1

end HC.Codec
