/-
  C03K — CKKS evaluation at the INTEGER level for the MODEL (property C03).

  Every theorem speaks about `Spec.phase` (the exact centred big-integer phase Σ c_k s^k in Z_Q[X]/(X^N+1)) of the result of a MODEL
  operation (`ctTranslate`, `ctNegate`, `ctMultiplyDyadic`, `ctMultiplyPlainNtt`, `modSwitchScaleNext`, `modSwitchDropNext`,
  `relinearize`) on canonical NTT-form ciphertexts of any admissible sizes, for any level satisfying `Level.WF` and `c07s_LevelQ`
  (both derived from the model's constructors in C01Q: `level_bundles_of_constructors`, `mkLevel_ok`).

  K1: `ckks_add_phase`, `ckks_sub_phase`, `ckks_negate_phase`, `ckks_multiply_phase`, `ckks_multiply_plain_phase`,
      `ckks_mod_switch_drop_phase` (the name `ckks_drop_phase` is taken by C07L), `ckks_rescale_phase` (+ `_exact`),
      `ckks_relinearize_phase` (+ `ckks_relinearize_noise`), `ckks_phase_centred`, `ckks_phase_exact`.
  K2: programs `c03k_Prog`, model evaluator `c03k_run`, reference evaluator `c03k_ref` (exact rationals + interval bounds),
      `ckks_program_inv`, `ckks_program_sound`.
  K3: `ckks_*_refuses_*`, `ckks_rescale_refusals`, `ckks_relinearize_refusals`, `ckks_scaleOk_false_iff`, `ckks_prog_refuses_*`.
  Non-vacuity: `c03k_exChainOK`, `c03k_exNext`, `c03k_exEnv`, `c03k_program_nonvacuous`, `c03k_exRelinOK`,
      `c03k_relinearize_nonvacuous`, `c03k_program_relin_nonvacuous`; `c03k_plainLift_crt`, `c03k_Canon.of_ctCanon`.

  Method: per prime q_m the phase is an element of the commutative ring `c03k_NP (ZMod q_m) N` = Z_{q_m}[X]/(X^N+1) (coefficient functions
  with the negacyclic product `negMulR`; the ring axioms come from C04K's `c04k_comm/_assoc/...`); in that ring the phase algebra of C02K
  (`ct_mul_phase`, `translate_phase`, `negate_phase`, `mul_plain_phase`) applies verbatim; the per-prime identities are merged by CRT.
  All helper names carry the prefix `c03k_`.
-/
import Heathcliff.Proofs.C01Q
import Heathcliff.Proofs.C02V
import Heathcliff.Proofs.C04K
import Mathlib.Algebra.Ring.MinimalAxioms
import Mathlib.Algebra.BigOperators.Intervals
import Mathlib.Algebra.BigOperators.Ring.Finset
import Mathlib.Algebra.Order.BigOperators.Group.Finset
import Mathlib.Data.ZMod.Basic
import Mathlib.Data.Int.ModEq
import Mathlib.Tactic.Ring
import Mathlib.Tactic.Linarith
import Mathlib.Tactic.NormNum
import Mathlib.Algebra.Order.Field.Rat
import Mathlib.Algebra.Order.Field.Basic
import Mathlib.Tactic.Positivity
import Mathlib.Tactic.FieldSimp

namespace HC
open Finset

/-! ## Part 1: the ring R[X]/(X^n+1) on coefficient functions -/

/-- coefficient functions supported on [0, n): the elements of R[X]/(X^n + 1) -/
@[ext] structure c03k_NP (R : Type) [CommRing R] (n : Nat) where
  co : Nat → R
  supp : ∀ i, n ≤ i → co i = 0

namespace c03k_NP
variable {R : Type} [CommRing R] {n : Nat}

instance : Zero (c03k_NP R n) := ⟨⟨fun _ => 0, fun _ _ => rfl⟩⟩
instance : Add (c03k_NP R n) := ⟨fun a b => ⟨fun i => a.co i + b.co i, fun i hi => by rw [a.supp i hi, b.supp i hi, add_zero]⟩⟩
instance : Neg (c03k_NP R n) := ⟨fun a => ⟨fun i => - a.co i, fun i hi => by rw [a.supp i hi, neg_zero]⟩⟩
instance : Mul (c03k_NP R n) :=
  ⟨fun a b => ⟨fun c => if c < n then negMulR n a.co b.co c else 0, fun i hi => by rw [if_neg (by omega)]⟩⟩
instance : One (c03k_NP R n) := ⟨⟨fun c => if c = 0 ∧ 0 < n then 1 else 0, fun i hi => by rw [if_neg (by omega)]⟩⟩

theorem zero_co (i : Nat) : (0 : c03k_NP R n).co i = 0 := rfl
theorem add_co (a b : c03k_NP R n) (i : Nat) : (a + b).co i = a.co i + b.co i := rfl
theorem neg_co (a : c03k_NP R n) (i : Nat) : (-a).co i = - a.co i := rfl
theorem mul_co (a b : c03k_NP R n) (c : Nat) : (a * b).co c = if c < n then negMulR n a.co b.co c else 0 := rfl
theorem one_co (c : Nat) : (1 : c03k_NP R n).co c = if c = 0 ∧ 0 < n then 1 else 0 := rfl

theorem mul_co_lt (a b : c03k_NP R n) {c : Nat} (hc : c < n) : (a * b).co c = negMulR n a.co b.co c := by
  rw [mul_co, if_pos hc]

theorem c03k_one_mul (a : c03k_NP R n) : 1 * a = a := by
  ext c
  by_cases hc : c < n
  · rw [mul_co_lt _ _ hc]
    unfold negMulR
    rw [Finset.sum_eq_single 0]
    · rw [if_pos (Nat.zero_le c), one_co, if_pos ⟨rfl, by omega⟩, one_mul, Nat.sub_zero]
    · intro i _ hi
      have h1 : (1 : c03k_NP R n).co i = 0 := by rw [one_co, if_neg (by omega)]
      rw [h1]
      split <;> simp
    · intro h; exact absurd (mem_range.mpr (by omega)) h
  · rw [mul_co, if_neg hc, a.supp c (by omega)]

theorem c03k_mul_comm (a b : c03k_NP R n) : a * b = b * a := by
  ext c
  by_cases hc : c < n
  · rw [mul_co_lt _ _ hc, mul_co_lt _ _ hc, c04k_comm n _ _ hc]
  · rw [mul_co, mul_co, if_neg hc, if_neg hc]

theorem c03k_mul_assoc (a b s : c03k_NP R n) : a * b * s = a * (b * s) := by
  ext c
  by_cases hc : c < n
  · rw [mul_co_lt _ _ hc, mul_co_lt _ _ hc]
    have e1 : negMulR n (a * b).co s.co c = negMulR n (negMulR n a.co b.co) s.co c :=
      c05u_negMul_congr n _ _ _ c (fun i hi => mul_co_lt a b hi)
    have e2 : negMulR n a.co (b * s).co c = negMulR n a.co (negMulR n b.co s.co) c :=
      c04k_congr_right n _ _ _ hc (fun i hi => mul_co_lt b s hi)
    rw [e1, e2, c04k_assoc n _ _ _ hc]
  · rw [mul_co, mul_co, if_neg hc, if_neg hc]

theorem c03k_left_distrib (a b s : c03k_NP R n) : a * (b + s) = a * b + a * s := by
  ext c
  by_cases hc : c < n
  · rw [add_co, mul_co_lt _ _ hc, mul_co_lt _ _ hc, mul_co_lt _ _ hc]
    exact c04k_add_right n a.co b.co s.co hc
  · simp only [add_co, mul_co, if_neg hc, add_zero]

instance : CommRing (c03k_NP R n) :=
  CommRing.ofMinimalAxioms
    (fun a b c => by ext i; simp only [add_co]; ring)
    (fun a => by ext i; simp only [add_co, zero_co]; ring)
    (fun a => by ext i; simp only [add_co, neg_co, zero_co]; ring)
    c03k_mul_assoc c03k_mul_comm c03k_one_mul c03k_left_distrib

theorem sub_co (a b : c03k_NP R n) (i : Nat) : (a - b).co i = a.co i - b.co i := by
  rw [sub_eq_add_neg, add_co, neg_co, sub_eq_add_neg]

end c03k_NP

/-- truncation of a coefficient function to an element of R[X]/(X^n+1) -/
def c03k_toNP {R : Type} [CommRing R] (n : Nat) (f : Nat → R) : c03k_NP R n :=
  ⟨fun i => if i < n then f i else 0, fun i hi => by rw [if_neg (by omega)]⟩

section toNP
variable {R : Type} [CommRing R] {n : Nat}

theorem c03k_toNP_co (f : Nat → R) {i : Nat} (hi : i < n) : (c03k_toNP n f).co i = f i := by
  unfold c03k_toNP; simp only; rw [if_pos hi]

theorem c03k_toNP_congr {f g : Nat → R} (h : ∀ i, i < n → f i = g i) : c03k_toNP n f = c03k_toNP n g := by
  ext i
  unfold c03k_toNP
  simp only
  split
  · rename_i hi; exact h i hi
  · rfl

theorem c03k_toNP_inj {f g : Nat → R} (h : c03k_toNP n f = c03k_toNP n g) {i : Nat} (hi : i < n) : f i = g i := by
  have := congrArg (fun x => x.co i) h
  beta_reduce at this
  rwa [c03k_toNP_co f hi, c03k_toNP_co g hi] at this

theorem c03k_toNP_zero : c03k_toNP n (0 : Nat → R) = 0 := by
  ext i
  show (if i < n then (0 : R) else 0) = 0
  split <;> rfl

theorem c03k_toNP_add (f g : Nat → R) : c03k_toNP n (f + g) = c03k_toNP n f + c03k_toNP n g := by
  ext i
  rw [c03k_NP.add_co]
  unfold c03k_toNP
  simp only [Pi.add_apply]
  split <;> simp

theorem c03k_toNP_add' (f g : Nat → R) : c03k_toNP n (fun i => f i + g i) = c03k_toNP n f + c03k_toNP n g :=
  c03k_toNP_add f g

theorem c03k_toNP_neg (f : Nat → R) : c03k_toNP n (fun i => - f i) = - c03k_toNP n f := by
  ext i
  rw [c03k_NP.neg_co]
  unfold c03k_toNP
  simp only
  split <;> simp

theorem c03k_toNP_sub (f g : Nat → R) : c03k_toNP n (fun i => f i - g i) = c03k_toNP n f - c03k_toNP n g := by
  ext i
  rw [c03k_NP.sub_co]
  unfold c03k_toNP
  simp only
  split <;> simp

/-- truncation is multiplicative for the negacyclic product -/
theorem c03k_toNP_mul (f g : Nat → R) : c03k_toNP n (negMulR n f g) = c03k_toNP n f * c03k_toNP n g := by
  ext c
  by_cases hc : c < n
  · rw [c03k_toNP_co _ hc, c03k_NP.mul_co_lt _ _ hc]
    have e1 : negMulR n (c03k_toNP n f).co (c03k_toNP n g).co c = negMulR n f (c03k_toNP n g).co c :=
      c05u_negMul_congr n _ _ _ c (fun i hi => c03k_toNP_co f hi)
    rw [e1]
    exact (c04k_congr_right n f _ _ hc (fun i hi => c03k_toNP_co g hi)).symm
  · rw [c03k_NP.mul_co, if_neg hc, (c03k_toNP n _).supp c (by omega)]

/-- ring homomorphisms act coefficient-wise -/
theorem c03k_toNP_map {S : Type} [CommRing S] (φ : R →+* S) (f g : Nat → R) :
    c03k_toNP n (fun i => φ (negMulR n f g i)) = c03k_toNP n (fun i => φ (f i)) * c03k_toNP n (fun i => φ (g i)) := by
  rw [← c03k_toNP_mul]
  apply c03k_toNP_congr
  intro i _
  exact c04k_map φ n f g i

end toNP

/-! ## Part 2: Horner evaluation (`c07s_evalZ`) is `ctPhase` in the ring -/

theorem c03k_ctPhase_succ {S : Type} [CommRing S] (k : Nat) (c : Nat → S) (s : S) :
    ctPhase (k + 1) c s = c 0 + s * ctPhase k (fun i => c (i + 1)) s := by
  unfold ctPhase
  rw [Finset.sum_range_succ', Finset.mul_sum, pow_zero, mul_one, add_comm]
  congr 1
  apply Finset.sum_congr rfl
  intro i _
  rw [pow_succ]; ring

theorem c03k_ctPhase_congr {S : Type} [CommRing S] (k : Nat) {c c' : Nat → S} (s : S) (h : ∀ i, i < k → c i = c' i) :
    ctPhase k c s = ctPhase k c' s := by
  unfold ctPhase
  exact Finset.sum_congr rfl (fun i hi => by rw [h i (mem_range.mp hi)])

theorem c03k_mulS_toNP (q n : Nat) (s a : Nat → ZMod q) :
    c03k_toNP n (c07s_mulS q n s a) = c03k_toNP n a * c03k_toNP n s := by
  rw [← c03k_toNP_mul]
  apply c03k_toNP_congr
  intro i hi
  unfold c07s_mulS
  rw [if_pos hi]
  rfl

/-- the Horner value of C07S, truncated, is the phase Σ_k c_k s^k in the ring -/
theorem c03k_evalZ_toNP (q n : Nat) (s : Nat → ZMod q) (cs : List (Nat → ZMod q)) :
    c03k_toNP n (c07s_evalZ (c07s_mulS q n s) cs) =
      ctPhase cs.length (fun k => c03k_toNP n (cs.getD k 0)) (c03k_toNP n s) := by
  induction cs with
  | nil => simp [c07s_evalZ, ctPhase, c03k_toNP_zero]
  | cons c cs ih =>
    rw [c07s_evalZ, c03k_toNP_add, c03k_mulS_toNP, ih, List.length_cons, c03k_ctPhase_succ, mul_comm]
    rfl

/-! ## Part 3: `Spec.phase` per prime, and the CRT merge -/

/-- the exact centred big-integer phase of an NTT-form ciphertext (the oracle `Spec.phase` on the coefficient forms), as a
    coefficient function -/
def c03k_phase (l : Level) (sk : Array Int) (ct : Ct) : Nat → Int :=
  fun j => (Spec.phase (c01p_qvals l) l.n sk (ct.polys.toList.map (rnsIntt l))).getD j 0

/-- the total modulus Q = Π q_i of the level -/
def c03k_Q (l : Level) : Nat := Spec.prodL (c01p_qvals l)

/-- every polynomial of the ciphertext is canonical at level `l` (any number ≥ 1 of polynomials), NTT form -/
structure c03k_Canon (l : Level) (ct : Ct) : Prop where
  ntt : ct.ntt = true
  pos : 1 ≤ ct.polys.size
  canon : ∀ k, k < ct.polys.size → RnsCanon l (ct.polys.getD k #[])

theorem c03k_Canon.of_ctCanon {l : Level} {ct : Ct} (h : CtCanon l ct) (hn : ct.ntt = true) : c03k_Canon l ct :=
  ⟨hn, by have := h.two_le; omega, h.canon⟩

/-- coefficient form of polynomial k, component m, in the ring Z_{q_m}[X]/(X^N+1) -/
def c03k_cpoly (l : Level) (ct : Ct) (m k : Nat) : c03k_NP (ZMod (l.q m).value) l.n :=
  c03k_toNP l.n (c07s_vecN (l.q m).value (intt (l.tbl m) ((ct.polys.getD k #[]).getD m #[])))

/-- the secret key in the ring Z_{q_m}[X]/(X^N+1) -/
def c03k_sNP (l : Level) (sk : Array Int) (m : Nat) : c03k_NP (ZMod (l.q m).value) l.n :=
  c03k_toNP l.n (c07s_vecZ (l.q m).value sk)

/-- the phase Σ_k c_k s^k in the ring Z_{q_m}[X]/(X^N+1) -/
def c03k_phNP (l : Level) (sk : Array Int) (ct : Ct) (m : Nat) : c03k_NP (ZMod (l.q m).value) l.n :=
  ctPhase ct.polys.size (c03k_cpoly l ct m) (c03k_sNP l sk m)

/-- reduction of an integer coefficient function into the ring Z_q[X]/(X^n+1) -/
def c03k_red (q n : Nat) (f : Nat → Int) : c03k_NP (ZMod q) n := c03k_toNP n (fun j => ((f j : Int) : ZMod q))

theorem c03k_qvals_qsv {l : Level} (hq : c07s_LevelQ l) : c01p_qvals l = c07s_qsv l.tool.baseQ := by
  unfold c01p_qvals c07s_qsv; rw [hq.base]

theorem c03k_Q_eq {l : Level} (hq : c07s_LevelQ l) : c03k_Q l = l.tool.baseQ.prod := by
  unfold c03k_Q; rw [c03k_qvals_qsv hq, c07s_prodL_qsv hq.bwf]

theorem c03k_q_dvd {l : Level} (hq : c07s_LevelQ l) {m : Nat} (hm : m < l.size) : (l.q m).value ∣ l.tool.baseQ.prod := by
  rw [← hq.q_eq hm]; exact hq.bwf.q_dvd_prod (by rw [hq.size_eq]; exact hm)

theorem c03k_centred_cast {q Q : Nat} (h : q ∣ Q) (X : Nat) : ((Spec.centred X Q : Int) : ZMod q) = ((X : Nat) : ZMod q) := by
  have h1 := (c01p_centred_modEq X Q).of_dvd (Int.natCast_dvd_natCast.mpr h)
  have h2 := (ZMod.intCast_eq_intCast_iff _ _ q).mpr h1
  rwa [Int.cast_natCast] at h2

/-- P0: the exact phase reduced modulo q_m is the ring phase Σ_k c_k s^k of the coefficient forms -/
theorem c03k_phase_np {l : Level} (hl : l.WF) (hq : c07s_LevelQ l) (sk : Array Int) {ct : Ct}
    (hc : c03k_Canon l ct) {m : Nat} (hm : m < l.size) :
    c03k_red (l.q m).value l.n (c03k_phase l sk ct) = c03k_phNP l sk ct m := by
  have hb := hq.bwf
  have hQ := hb.prod_pos
  have hdvd := c03k_q_dvd hq hm
  have hcan : ∀ p ∈ ct.polys.toList.map (rnsIntt l), RnsCanon l p := by
    intro p hp
    obtain ⟨p', hp', rfl⟩ := List.mem_map.mp hp
    exact c07s_rnsIntt_canon hl (c01q_polys_mem hc.canon p' hp')
  have hzs : ∀ z ∈ (ct.polys.toList.map (rnsIntt l)).map (fun p => Spec.crtPoly (c07s_qsv l.tool.baseQ) p l.n),
      z.size = l.n ∧ ∀ j, 0 ≤ z.getD j 0 := by
    intro z hz
    obtain ⟨p, _, rfl⟩ := List.mem_map.mp hz
    refine ⟨c07s_crtPoly_size _ _ _, fun j => ?_⟩
    by_cases hj : j < l.n
    · rw [c07s_crtPoly_getD _ _ _ hj]; exact Int.natCast_nonneg _
    · rw [c07s_getD_oob _ _ (by rw [c07s_crtPoly_size]; exact hj)]
  have hne : (ct.polys.toList.map (rnsIntt l)).map (fun p => Spec.crtPoly (c07s_qsv l.tool.baseQ) p l.n) ≠ [] := by
    intro h
    have h1 := congrArg List.length h
    rw [List.length_map, List.length_map, Array.length_toList, List.length_nil] at h1
    have := hc.pos
    omega
  obtain ⟨H, e1, e2, e3, e4⟩ := c07s_evalO_spec hdvd hQ sk _ hzs hne
  have hph : ∀ j, j < l.n → ((c03k_phase l sk ct j : Int) : ZMod (l.q m).value) = c07s_vecZ (l.q m).value H j := by
    intro j hj
    unfold c03k_phase
    rw [c03k_qvals_qsv hq, c07s_phase_unfold, c07s_prodL_qsv hb, e1, Option.getD_some,
      c07s_map_getD _ _ (0 : Int) (0 : Int) (by rw [e2]; exact hj), c03k_centred_cast hdvd, c07s_cast_toNat (e3 j)]
    rfl
  unfold c03k_red
  rw [c03k_toNP_congr hph, e4, List.map_map, c03k_evalZ_toNP]
  unfold c03k_phNP c03k_sNP
  rw [List.length_map, List.length_map, Array.length_toList]
  apply c03k_ctPhase_congr
  intro k hk
  unfold c03k_cpoly
  congr 1
  have hk' : k < (ct.polys.toList.map (rnsIntt l)).length := by simpa using hk
  rw [List.getD_eq_getElem?_getD, List.getElem?_eq_getElem (by simpa using hk), Option.getD_some, List.getElem_map,
    List.getElem_map]
  simp only [Function.comp]
  have e : ct.polys.toList[k]'(by simpa using hk) = ct.polys.getD k #[] := by simp [Array.getD, hk]
  rw [e, c07s_vecZ_crtPoly hq (c07s_rnsIntt_canon hl (hc.canon k hk)) hm, c01o_rnsIntt_getD l _ hm]

/-- CRT merge: equality of the reductions modulo every q_m is congruence modulo Q -/
theorem c03k_merge {l : Level} (hq : c07s_LevelQ l) {f g : Nat → Int}
    (h : ∀ m, m < l.size → c03k_red (l.q m).value l.n f = c03k_red (l.q m).value l.n g) :
    ∀ j, j < l.n → f j ≡ g j [ZMOD (c03k_Q l : Int)] := by
  intro j hj
  rw [c03k_Q_eq hq]
  apply c04k_crt_merge hq.bwf
  intro i hi
  rw [hq.size_eq] at hi
  rw [hq.q_eq hi]
  exact (ZMod.intCast_eq_intCast_iff _ _ _).mp (c03k_toNP_inj (h i hi) hj)

theorem c03k_red_add (q n : Nat) (f g : Nat → Int) :
    c03k_red q n (fun j => f j + g j) = c03k_red q n f + c03k_red q n g := by
  unfold c03k_red
  rw [← c03k_toNP_add']
  exact c03k_toNP_congr (fun i _ => by push_cast; rfl)

theorem c03k_red_sub (q n : Nat) (f g : Nat → Int) :
    c03k_red q n (fun j => f j - g j) = c03k_red q n f - c03k_red q n g := by
  unfold c03k_red
  rw [← c03k_toNP_sub]
  exact c03k_toNP_congr (fun i _ => by push_cast; rfl)

theorem c03k_red_neg (q n : Nat) (f : Nat → Int) :
    c03k_red q n (fun j => - f j) = - c03k_red q n f := by
  unfold c03k_red
  rw [← c03k_toNP_neg]
  exact c03k_toNP_congr (fun i _ => by push_cast; rfl)

theorem c03k_red_mul (q n : Nat) (f g : Nat → Int) :
    c03k_red q n (negMulR n f g) = c03k_red q n f * c03k_red q n g :=
  c03k_toNP_map (Int.castRingHom (ZMod q)) f g

/-- the exact phase is the centred representative -/
theorem c03k_phase_centred {l : Level} (hq : c07s_LevelQ l) (sk : Array Int) {ct : Ct} (hc : c03k_Canon l ct)
    {j : Nat} (hj : j < l.n) :
    - (c03k_Q l : Int) < 2 * c03k_phase l sk ct j ∧ 2 * c03k_phase l sk ct j ≤ (c03k_Q l : Int) := by
  rw [c03k_Q_eq hq]
  have hne : ct.polys.toList.map (rnsIntt l) ≠ [] := by
    intro h
    have h1 := congrArg List.length h
    rw [List.length_map, Array.length_toList, List.length_nil] at h1
    have := hc.pos
    omega
  exact c01q_phase_centred hq hne (fun p hp => by
    obtain ⟨p', -, rfl⟩ := List.mem_map.mp hp; exact c01p_rnsIntt_size l p') hj

/-- two centred representatives that are congruent modulo Q are equal -/
theorem c03k_centred_unique {Q : Nat} {x y : Int} (h : x ≡ y [ZMOD (Q : Int)])
    (hx : - (Q : Int) < 2 * x ∧ 2 * x ≤ Q) (hy : - (Q : Int) < 2 * y ∧ 2 * y ≤ Q) : x = y := by
  obtain ⟨k, hk⟩ := (Int.modEq_iff_dvd.mp h)
  have : k = 0 := by
    by_contra hk0
    rcases lt_or_gt_of_ne hk0 with h1 | h1
    · have : (Q : Int) * k ≤ (Q : Int) * (-1) := Int.mul_le_mul_of_nonneg_left (by omega) (by omega)
      omega
    · have : (Q : Int) * 1 ≤ (Q : Int) * k := Int.mul_le_mul_of_nonneg_left (by omega) (by omega)
      omega
  rw [this, mul_zero] at hk
  omega

/-! ## Part 4: the model's operations on the coefficient forms, per prime -/

/-- `intt` is Z_q-linear on canonical vectors -/
theorem c03k_intt_lin {t : NTTTables} (hw : t.WF) {q N : Nat} (hq : t.modulus.value = q) (hN : 2^t.k = N) {x y z : Array Nat}
    (hx : x.size = N) (hy : y.size = N) (hz : z.size = N)
    (hxl : ∀ j, j < N → x.getD j 0 < q) (hyl : ∀ j, j < N → y.getD j 0 < q) (hzl : ∀ j, j < N → z.getD j 0 < q)
    (α β : ZMod q)
    (hzv : ∀ j, j < N → ((z.getD j 0 : Nat) : ZMod q) = α * ((x.getD j 0 : Nat) : ZMod q) + β * ((y.getD j 0 : Nat) : ZMod q)) :
    ∀ j, j < N → (((intt t z).getD j 0 : Nat) : ZMod q)
      = α * (((intt t x).getD j 0 : Nat) : ZMod q) + β * (((intt t y).getD j 0 : Nat) : ZMod q) := by
  subst hq hN
  have hq2 := hw.mwf.two_le
  have hq0 : 0 < t.modulus.value := by omega
  have : NeZero t.modulus.value := ⟨by omega⟩
  obtain ⟨a1, a2⟩ := intt_sim hw x hx (fun j hj => by have := hxl j hj; omega)
  obtain ⟨b1, b2⟩ := intt_sim hw y hy (fun j hj => by have := hyl j hj; omega)
  generalize hwdef : ((List.range (2^t.k)).map fun j =>
      (α * (((intt t x).getD j 0 : Nat) : ZMod t.modulus.value)
        + β * (((intt t y).getD j 0 : Nat) : ZMod t.modulus.value)).val).toArray = w
  have hws : w.size = 2^t.k := by rw [← hwdef]; simp
  have hwv : ∀ j, j < 2^t.k → w.getD j 0 = (α * (((intt t x).getD j 0 : Nat) : ZMod t.modulus.value)
        + β * (((intt t y).getD j 0 : Nat) : ZMod t.modulus.value)).val := by
    intro j hj; rw [← hwdef]; exact getD_rangeMap _ _ hj
  have hwl : ∀ j, j < 2^t.k → w.getD j 0 < t.modulus.value := by
    intro j hj; rw [hwv j hj]; exact ZMod.val_lt _
  have hnw : ntt t w = z := by
    obtain ⟨e1, e2⟩ := ntt_eval hw w hws (fun j hj => by have := hwl j hj; omega)
    apply array_ext_getD e1 hz
    intro i hi
    have hxx := ntt_intt hw x hx hxl
    have hyy := ntt_intt hw y hy hyl
    obtain ⟨_, ex⟩ := ntt_eval hw (intt t x) a1 (fun j hj => by have := (a2 j hj).1; omega)
    obtain ⟨_, ey⟩ := ntt_eval hw (intt t y) b1 (fun j hj => by have := (b2 j hj).1; omega)
    have hx' : x.getD i 0 = evalSpec t (intt t x) i := by rw [← ex i hi, hxx]
    have hy' : y.getD i 0 = evalSpec t (intt t y) i := by rw [← ey i hi, hyy]
    rw [e2 i hi]
    apply cast_inj_lt (c01o_evalSpec_lt t hq0 _ _) (hzl i hi)
    rw [hzv i hi, hx', hy', c01o_evalSpec_cast, c01o_evalSpec_cast, c01o_evalSpec_cast, Finset.mul_sum, Finset.mul_sum,
      ← Finset.sum_add_distrib]
    apply Finset.sum_congr rfl
    intro j hj
    rw [hwv j (mem_range.mp hj), ZMod.natCast_zmod_val]; ring
  intro j hj
  rw [← hnw, intt_ntt hw w hws hwl, hwv j hj, ZMod.natCast_zmod_val]

theorem c03k_cpoly_co (l : Level) (ct : Ct) (m k : Nat) {j : Nat} (hj : j < l.n) :
    (c03k_cpoly l ct m k).co j =
      (((intt (l.tbl m) ((ct.polys.getD k #[]).getD m #[])).getD j 0 : Nat) : ZMod (l.q m).value) := by
  unfold c03k_cpoly
  rw [c03k_toNP_co _ hj]
  rfl

/-- a Z_q-linear relation between NTT-form residues is the same relation between the coefficient forms -/
theorem c03k_cpoly_lin {l : Level} (hl : l.WF) {r a b : Ct} {k ka kb m : Nat} (hm : m < l.size)
    (hr : RnsCanon l (r.polys.getD k #[])) (ha : RnsCanon l (a.polys.getD ka #[])) (hb : RnsCanon l (b.polys.getD kb #[]))
    (α β : ZMod (l.q m).value)
    (h : ∀ j, j < l.n → ((r.c02v_res k m j : Nat) : ZMod (l.q m).value)
      = α * ((a.c02v_res ka m j : Nat) : ZMod (l.q m).value) + β * ((b.c02v_res kb m j : Nat) : ZMod (l.q m).value)) :
    ∀ j, j < l.n → (c03k_cpoly l r m k).co j = α * (c03k_cpoly l a m ka).co j + β * (c03k_cpoly l b m kb).co j := by
  obtain ⟨htw, htm, htn, _⟩ := c01o_level_comp hl hm
  intro j hj
  rw [c03k_cpoly_co _ _ _ _ hj, c03k_cpoly_co _ _ _ _ hj, c03k_cpoly_co _ _ _ _ hj]
  exact c03k_intt_lin htw htm htn (ha.2 m hm).1 (hb.2 m hm).1 (hr.2 m hm).1 (ha.2 m hm).2 (hb.2 m hm).2 (hr.2 m hm).2 α β h j hj

theorem c03k_np_ext {R : Type} [CommRing R] {n : Nat} {a b : c03k_NP R n} (h : ∀ j, j < n → a.co j = b.co j) : a = b := by
  ext j
  by_cases hj : j < n
  · exact h j hj
  · rw [a.supp j (by omega), b.supp j (by omega)]

theorem c03k_cast_submod {q x y : Nat} (hy : y ≤ q) : (((x + q - y) % q : Nat) : ZMod q) = (x : ZMod q) - (y : ZMod q) := by
  rw [ZMod.natCast_mod, Nat.add_sub_assoc hy, Nat.cast_add, Nat.cast_sub hy, ZMod.natCast_self]
  ring

theorem c03k_cast_negmod {q y : Nat} (hy : y ≤ q) : (((q - y) % q : Nat) : ZMod q) = - (y : ZMod q) := by
  rw [ZMod.natCast_mod, Nat.cast_sub hy, ZMod.natCast_self]
  ring

/-- ADD / SUB, per prime: the ring phase of the result of `ctTranslate` is the sum / difference of the ring phases -/
theorem c03k_translate_np {l : Level} (hl : l.WF) {a b r : Ct} (ha : CtCanon l a) (hb : CtCanon l b) (sub : Bool)
    (hntt : a.ntt = b.ntt) (hcf : a.cf = b.cf) (hr : ctTranslate l a b sub = .ok r) (sk : Array Int) {m : Nat} (hm : m < l.size) :
    c03k_phNP l sk r m = if sub then c03k_phNP l sk a m - c03k_phNP l sk b m else c03k_phNP l sk a m + c03k_phNP l sk b m := by
  obtain ⟨r', hr', hcr, hsz, _, _, hres⟩ := ctTranslate_spec (c02v_qsWF_of_levelWF hl) ha hb sub hntt hcf
  rw [hr] at hr'
  obtain rfl := Except.ok.inj hr'
  unfold c03k_phNP
  rw [hsz, ← translate_phase]
  apply c03k_ctPhase_congr
  intro k hk
  rw [c02k_tr_getD _ _ sub _ _ hk]
  have hrk : RnsCanon l (r.polys.getD k #[]) := hcr.canon k (by rw [hsz]; exact hk)
  have hq2 := (c01o_level_comp hl hm).2.2.2.two_le
  apply c03k_np_ext
  intro j hj
  by_cases h1 : k < a.polys.size <;> by_cases h2 : k < b.polys.size
  · have hble : b.c02v_res k m j ≤ (l.q m).value := le_of_lt (((hb.canon k h2).2 m hm).2 j hj)
    have := c03k_cpoly_lin hl hm hrk (ha.canon k h1) (hb.canon k h2) 1 (if sub then -1 else 1) (fun j' hj' => by
      have hble' : b.c02v_res k m j' ≤ (l.q m).value := le_of_lt (((hb.canon k h2).2 m hm).2 j' hj')
      rw [hres k hk m hm j' hj', if_pos ⟨h1, h2⟩]
      cases sub
      · simp only [Bool.false_eq_true, if_false]
        rw [ZMod.natCast_mod, Nat.cast_add]; ring
      · simp only [if_true]
        rw [c03k_cast_submod hble']; ring) j hj
    rw [this, if_pos h1, if_pos h2]
    cases sub
    · simp only [Bool.false_eq_true, if_false, c03k_NP.add_co]; ring
    · simp only [if_true, c03k_NP.add_co, c03k_NP.neg_co]; ring
  · have := c03k_cpoly_lin hl hm hrk (ha.canon k h1) (ha.canon k h1) 1 0 (fun j' hj' => by
      rw [hres k hk m hm j' hj', if_neg (by omega), if_pos h1]; ring) j hj
    rw [this, if_pos h1, if_neg h2]
    cases sub
    · simp only [Bool.false_eq_true, if_false, c03k_NP.add_co, c03k_NP.zero_co]; ring
    · simp only [if_true, c03k_NP.add_co, c03k_NP.neg_co, c03k_NP.zero_co]; ring
  · have := c03k_cpoly_lin hl hm hrk (hb.canon k h2) (hb.canon k h2) (if sub then -1 else 1) 0 (fun j' hj' => by
      have hble' : b.c02v_res k m j' ≤ (l.q m).value := le_of_lt (((hb.canon k h2).2 m hm).2 j' hj')
      rw [hres k hk m hm j' hj', if_neg (by omega), if_neg h1]
      cases sub
      · simp only [Bool.false_eq_true, if_false]; ring
      · simp only [if_true]
        rw [c03k_cast_negmod hble']; ring) j hj
    rw [this, if_neg h1, if_pos h2]
    cases sub
    · simp only [Bool.false_eq_true, if_false, c03k_NP.add_co, c03k_NP.zero_co]; ring
    · simp only [if_true, c03k_NP.add_co, c03k_NP.neg_co, c03k_NP.zero_co]; ring
  · omega

/-- NEGATE, per prime -/
theorem c03k_negate_np {l : Level} (hl : l.WF) {a r : Ct} (ha : CtCanon l a) (hr : ctNegate l a = .ok r)
    (sk : Array Int) {m : Nat} (hm : m < l.size) :
    c03k_phNP l sk r m = - c03k_phNP l sk a m := by
  obtain ⟨r', hr', hcr, hsz, _, _, hres⟩ := ctNegate_spec (c02v_qsWF_of_levelWF hl) ha
  rw [hr] at hr'
  obtain rfl := Except.ok.inj hr'
  unfold c03k_phNP
  rw [hsz, ← negate_phase]
  apply c03k_ctPhase_congr
  intro k hk
  apply c03k_np_ext
  intro j hj
  have := c03k_cpoly_lin hl hm (hcr.canon k (by rw [hsz]; exact hk)) (ha.canon k hk) (ha.canon k hk) (-1) 0 (fun j' hj' => by
    have hle : a.c02v_res k m j' ≤ (l.q m).value := le_of_lt (((ha.canon k hk).2 m hm).2 j' hj')
    rw [hres k hk m hm j' hj', c03k_cast_negmod hle]; ring) j hj
  rw [this, c03k_NP.neg_co]; ring

theorem c03k_listsum_co {R : Type} [CommRing R] {n : Nat} {ι : Type} (L : List ι) (F : ι → c03k_NP R n) (c : Nat) :
    ((L.map F).sum).co c = (L.map (fun p => (F p).co c)).sum := by
  induction L with
  | nil => rfl
  | cons x L ih => rw [List.map_cons, List.sum_cons, c03k_NP.add_co, ih, List.map_cons, List.sum_cons]

theorem c03k_negMulNat_np {l : Level} (hl : l.WF) {m : Nat} (hm : m < l.size) (x y : Array Nat) {j : Nat} (hj : j < l.n) :
    ((negMulNat l.n (l.q m).value x y j : Nat) : ZMod (l.q m).value)
      = (c03k_toNP l.n (c07s_vecN (l.q m).value x) * c03k_toNP l.n (c07s_vecN (l.q m).value y)).co j := by
  have hq2 := (c01o_level_comp hl hm).2.2.2.two_le
  rw [c07s_negMulNat_cast (by omega), ← c03k_toNP_mul, c03k_toNP_co _ hj]
  rfl

/-- MULTIPLY, per prime: the ring phase of the dyadic product is the product of the ring phases -/
theorem c03k_mul_np {l : Level} (hl : l.WF) {a b r : Ct} (ha : CtCanon l a) (hb : CtCanon l b)
    (hna : a.ntt = true) (hnb : b.ntt = true) (hr : ctMultiplyDyadic l a b = .ok r) (sk : Array Int) {m : Nat} (hm : m < l.size) :
    c03k_phNP l sk r m = c03k_phNP l sk a m * c03k_phNP l sk b m := by
  obtain ⟨r', hr', hsz, _, _, _, _, _⟩ := ctMultiplyDyadic_spec (c02v_qsWF_of_levelWF hl) ha hb hna hnb
    (ctMultiplyDyadic_ok_le16 hr)
  rw [hr] at hr'
  obtain rfl := Except.ok.inj hr'
  have hco := ctMultiplyDyadic_coeff hl ha hb hr
  have h2a := ha.two_le; have h2b := hb.two_le
  unfold c03k_phNP
  rw [hsz, ← ct_mul_phase (by omega) (by omega)]
  apply c03k_ctPhase_congr
  intro k hk
  apply c03k_np_ext
  intro j hj
  rw [c03k_cpoly_co _ _ _ _ hj, hco k hk m hm j hj, ZMod.natCast_mod, c03k_listsum_co, Nat.cast_list_sum, List.map_map]
  congr 1
  apply List.map_congr_left
  intro p _
  simp only [Function.comp]
  rw [c03k_negMulNat_np hl hm _ _ hj]
  rfl

/-- the plaintext (NTT form) as an element of Z_{q_m}[X]/(X^N+1) -/
def c03k_plainNP (l : Level) (p : RnsPoly) (m : Nat) : c03k_NP (ZMod (l.q m).value) l.n :=
  c03k_toNP l.n (c07s_vecN (l.q m).value (intt (l.tbl m) (p.getD m #[])))

/-- MULTIPLY_PLAIN, per prime -/
theorem c03k_mul_plain_np {l : Level} (hl : l.WF) {a r : Ct} (ha : CtCanon l a) (hna : a.ntt = true) {p : RnsPoly}
    (hp : RnsCanon l p) (hr : ctMultiplyPlainNtt l a p = .ok r) (sk : Array Int) {m : Nat} (hm : m < l.size) :
    c03k_phNP l sk r m = c03k_phNP l sk a m * c03k_plainNP l p m := by
  obtain ⟨r', hr', hcr, hsz, _, _, hres⟩ := ctMultiplyPlainNtt_spec (c02v_qsWF_of_levelWF hl) ha hna hp
  rw [hr] at hr'
  obtain rfl := Except.ok.inj hr'
  obtain ⟨htw, htm, htn, hqw⟩ := c01o_level_comp hl hm
  unfold c03k_phNP
  rw [hsz, ← mul_plain_phase]
  apply c03k_ctPhase_congr
  intro k hk
  apply c03k_np_ext
  intro j hj
  have hak := (ha.canon k hk).2 m hm
  have hpm := hp.2 m hm
  have hrk := (hcr.canon k (by rw [hsz]; exact hk)).2 m hm
  obtain ⟨i1, i2⟩ := c01q_intt_comp hl (ha.canon k hk) hm
  obtain ⟨p1, p2⟩ := c01q_intt_comp hl hp hm
  have hnta : ntt (l.tbl m) (intt (l.tbl m) ((a.polys.getD k #[]).getD m #[])) = (a.polys.getD k #[]).getD m #[] :=
    ntt_intt htw _ (by rw [hak.1, htn]) (fun j hj => by rw [htm]; exact hak.2 j (by omega))
  have hntp : ntt (l.tbl m) (intt (l.tbl m) (p.getD m #[])) = p.getD m #[] :=
    ntt_intt htw _ (by rw [hpm.1, htn]) (fun j hj => by rw [htm]; exact hpm.2 j (by omega))
  have := (c01o_comp_coeff htw htm htn (x1 := intt (l.tbl m) ((a.polys.getD k #[]).getD m #[]))
    (b := intt (l.tbl m) (p.getD m #[])) (d := (r.polys.getD k #[]).getD m #[]) i1 p1 hrk.1 i2 p2
    (fun j' hj' => by rw [hnta, hntp]; exact hres k hk m hm j' hj')).2 j hj
  rw [c03k_cpoly_co _ _ _ _ hj, this.1, c03k_negMulNat_np hl hm _ _ hj]
  rfl

/-! ## Part 5: integer level -/

/-- if x ≡ y (mod Q), x is a centred representative and |y| < Q/2, then x = y -/
theorem c03k_eq_of_small {Q : Nat} {x y : Int} (h : x ≡ y [ZMOD (Q : Int)])
    (hx : - (Q : Int) < 2 * x ∧ 2 * x ≤ Q) (hy : 2 * y.natAbs < Q) : x = y :=
  c03k_centred_unique h hx ⟨by omega, by omega⟩

/-- `M` is an integer lift of the coefficient form of the NTT-form plaintext `p`: M ≡ INTT(p_m) modulo every q_m -/
def c03k_PlainLift (l : Level) (p : RnsPoly) (M : Nat → Int) : Prop :=
  ∀ m, m < l.size → c03k_red (l.q m).value l.n M = c03k_plainNP l p m

/-- the CRT lift of the coefficient form (`Spec.crtPoly`, values in [0, Q)) is a plaintext lift -/
theorem c03k_plainLift_crt {l : Level} (hl : l.WF) (hq : c07s_LevelQ l) {p : RnsPoly} (hp : RnsCanon l p) :
    c03k_PlainLift l p (fun j => (Spec.crtPoly (c01p_qvals l) (rnsIntt l p) l.n).getD j 0) := by
  intro m hm
  unfold c03k_red c03k_plainNP
  apply c03k_toNP_congr
  intro j _
  have := congrFun (c07s_vecZ_crtPoly hq (c07s_rnsIntt_canon hl hp) hm) j
  rw [c01o_rnsIntt_getD l _ hm, ← c03k_qvals_qsv hq] at this
  exact this

/-- the centred CRT lift (the oracle's plaintext polynomial) is a plaintext lift -/
theorem c03k_plainLift_centred {l : Level} (hl : l.WF) (hq : c07s_LevelQ l) {p : RnsPoly} (hp : RnsCanon l p) :
    c03k_PlainLift l p (fun j => Spec.centred ((Spec.crtPoly (c01p_qvals l) (rnsIntt l p) l.n).getD j 0).toNat (c03k_Q l)) := by
  intro m hm
  rw [← c03k_plainLift_crt hl hq hp m hm]
  unfold c03k_red
  apply c03k_toNP_congr
  intro j hj
  rw [c03k_Q_eq hq, c03k_centred_cast (c03k_q_dvd hq hm), c07s_cast_toNat]
  rw [c03k_qvals_qsv hq, c07s_crtPoly_getD _ _ _ hj]
  exact Int.natCast_nonneg _

/-! ## Part 6: ring homomorphisms, integer lifts, norms -/

/-- a ring homomorphism acts coefficient-wise on R[X]/(X^n+1) -/
def c03k_NP.map {R S : Type} [CommRing R] [CommRing S] {n : Nat} (φ : R →+* S) : c03k_NP R n →+* c03k_NP S n where
  toFun a := ⟨fun i => φ (a.co i), fun i hi => by rw [a.supp i hi, map_zero]⟩
  map_one' := by
    ext c
    show φ ((1 : c03k_NP R n).co c) = (1 : c03k_NP S n).co c
    rw [c03k_NP.one_co, c03k_NP.one_co]
    split <;> simp
  map_mul' a b := by
    ext c
    show φ ((a * b).co c) = _
    rw [c03k_NP.mul_co, c03k_NP.mul_co]
    split
    · exact c04k_map φ n _ _ c
    · exact map_zero φ
  map_zero' := by
    ext c
    show φ ((0 : c03k_NP R n).co c) = (0 : c03k_NP S n).co c
    rw [c03k_NP.zero_co, c03k_NP.zero_co, map_zero]
  map_add' a b := by
    ext c
    show φ ((a + b).co c) = _
    rw [c03k_NP.add_co, map_add]
    rfl

theorem c03k_map_co {R S : Type} [CommRing R] [CommRing S] {n : Nat} (φ : R →+* S) (a : c03k_NP R n) (i : Nat) :
    (c03k_NP.map φ a).co i = φ (a.co i) := rfl

theorem c03k_map_ctPhase {R S : Type} [CommRing R] [CommRing S] {n : Nat} (φ : R →+* S) (k : Nat) (c : Nat → c03k_NP R n)
    (s : c03k_NP R n) :
    c03k_NP.map φ (ctPhase k c s) = ctPhase k (fun i => c03k_NP.map φ (c i)) (c03k_NP.map φ s) := by
  unfold ctPhase
  rw [map_sum]
  apply Finset.sum_congr rfl
  intro i _
  rw [map_mul, map_pow]

theorem c03k_red_eq_map (q n : Nat) (f : Nat → Int) :
    c03k_red q n f = c03k_NP.map (Int.castRingHom (ZMod q)) (c03k_toNP n f) := by
  apply c03k_np_ext
  intro j hj
  unfold c03k_red
  rw [c03k_toNP_co _ hj, c03k_map_co, c03k_toNP_co _ hj]
  rfl

theorem c03k_red_co (q n : Nat) (a : c03k_NP Int n) :
    c03k_red q n (fun j => a.co j) = c03k_NP.map (Int.castRingHom (ZMod q)) a := by
  apply c03k_np_ext
  intro j hj
  unfold c03k_red
  rw [c03k_toNP_co _ hj, c03k_map_co]
  rfl

/-- the secret key as an integer coefficient function -/
def c03k_skf (sk : Array Int) : Nat → Int := fun i => sk.getD i 0

/-- the integer phase Σ_k Z_k ⋆ s^k of integer polynomials Z_k, in ℤ[X]/(X^n+1) -/
def c03k_phZ (n size : Nat) (Z : Nat → Nat → Int) (sk : Array Int) : c03k_NP Int n :=
  ctPhase size (fun k => c03k_toNP n (Z k)) (c03k_toNP n (c03k_skf sk))

/-- LIFT: for ANY integer lifts Z_k of the coefficient forms (Z_k ≡ INTT(c_k[m]) mod every q_m), the exact phase is
    Σ_k Z_k ⋆ s^k modulo Q -/
theorem c03k_phase_lift {l : Level} (hl : l.WF) (hq : c07s_LevelQ l) (sk : Array Int) {ct : Ct} (hc : c03k_Canon l ct)
    (Z : Nat → Nat → Int)
    (hZ : ∀ k, k < ct.polys.size → ∀ m, m < l.size → c03k_red (l.q m).value l.n (Z k) = c03k_cpoly l ct m k) :
    ∀ j, j < l.n → c03k_phase l sk ct j ≡ (c03k_phZ l.n ct.polys.size Z sk).co j [ZMOD (c03k_Q l : Int)] := by
  apply c03k_merge hq
  intro m hm
  rw [c03k_phase_np hl hq sk hc hm, c03k_red_co]
  unfold c03k_phZ c03k_phNP
  rw [c03k_map_ctPhase]
  have hs : c03k_NP.map (Int.castRingHom (ZMod (l.q m).value)) (c03k_toNP l.n (c03k_skf sk)) = c03k_sNP l sk m := by
    rw [← c03k_red_eq_map]; rfl
  rw [hs]
  apply c03k_ctPhase_congr
  intro k hk
  rw [← c03k_red_eq_map, hZ k hk m hm]

/-- the CRT lift of the coefficient form of polynomial k (values in [0, Q)) -/
def c03k_X (l : Level) (ct : Ct) (k j : Nat) : Nat :=
  Spec.crt (c07s_qsv l.tool.baseQ) ((rnsIntt l (ct.polys.getD k #[])).toList.map (fun c => c.getD j 0))

theorem c03k_X_isCrt {l : Level} (hl : l.WF) (hq : c07s_LevelQ l) {ct : Ct} {k : Nat} (hk : RnsCanon l (ct.polys.getD k #[]))
    {j : Nat} (hj : j < l.n) :
    c03k_X l ct k j < l.tool.baseQ.prod ∧
      ∀ i, i < l.size → c03k_X l ct k j % (l.q i).value = ((rnsIntt l (ct.polys.getD k #[])).getD i #[]).getD j 0 := by
  obtain ⟨h1, h2⟩ := c07s_crt_spec hq.bwf ((rnsIntt l (ct.polys.getD k #[])).toList.map (fun c => c.getD j 0))
  refine ⟨h1, fun i hi => ?_⟩
  have := h2 i (by rw [hq.size_eq]; exact hi)
  rw [hq.q_eq hi, c07s_listcol_getD] at this
  show Spec.crt _ _ % _ = _
  rw [this]
  exact Nat.mod_eq_of_lt (((c07s_rnsIntt_canon hl hk).2 i hi).2 j hj)

theorem c03k_X_lift {l : Level} (hl : l.WF) (hq : c07s_LevelQ l) {ct : Ct} {k : Nat} (hk : RnsCanon l (ct.polys.getD k #[]))
    {m : Nat} (hm : m < l.size) :
    c03k_red (l.q m).value l.n (fun j => (c03k_X l ct k j : Int)) = c03k_cpoly l ct m k := by
  apply c03k_np_ext
  intro j hj
  unfold c03k_red
  rw [c03k_toNP_co _ hj, c03k_cpoly_co _ _ _ _ hj, Int.cast_natCast]
  have := (c03k_X_isCrt hl hq hk hj).2 m hm
  rw [c01o_rnsIntt_getD l _ hm] at this
  rw [← this, ZMod.natCast_mod]

/-- constants of R[X]/(X^n+1) -/
def c03k_C {R : Type} [CommRing R] (n : Nat) (x : R) : c03k_NP R n := c03k_toNP n (fun i => if i = 0 then x else 0)

theorem c03k_C_mul {R : Type} [CommRing R] {n : Nat} (x : R) (a : c03k_NP R n) (c : Nat) :
    (c03k_C n x * a).co c = x * a.co c := by
  by_cases hc : c < n
  · rw [c03k_NP.mul_co_lt _ _ hc]
    unfold negMulR
    rw [Finset.sum_eq_single 0]
    · rw [if_pos (Nat.zero_le c), Nat.sub_zero]
      unfold c03k_C
      rw [c03k_toNP_co _ (by omega), if_pos rfl]
    · intro i hi hi0
      have h1 : (c03k_C n x).co i = 0 := by
        unfold c03k_C
        rw [c03k_toNP_co _ (mem_range.mp hi), if_neg hi0]
      rw [h1]
      split <;> simp
    · intro h; exact absurd (mem_range.mpr (by omega)) h
  · rw [c03k_NP.mul_co, if_neg hc, a.supp c (by omega), mul_zero]

/-- ℓ¹ norm of an integer element -/
def c03k_l1 {n : Nat} (a : c03k_NP Int n) : Nat := ∑ j ∈ range n, (a.co j).natAbs

/-- for fixed i the index map c ↦ c − i (resp. n + c − i) is a permutation of [0, n) -/
theorem c03k_sum_perm' (n i : Nat) (hi : i < n) (f : Nat → Nat) :
    ∑ c ∈ range n, f (if i ≤ c then c - i else n + c - i) = ∑ k ∈ range n, f k := by
  apply Finset.sum_nbij' (fun c => if i ≤ c then c - i else n + c - i) (fun d => if d + i < n then d + i else d + i - n)
  · intro c hc
    have := mem_range.mp hc
    simp only [mem_range]
    split <;> omega
  · intro d hd
    have := mem_range.mp hd
    simp only [mem_range]
    split <;> omega
  · intro c hc
    have := mem_range.mp hc
    split <;> split <;> omega
  · intro d hd
    have := mem_range.mp hd
    split <;> split <;> omega
  · intro c _; rfl

theorem c03k_l1_mul {n : Nat} (a b : c03k_NP Int n) : c03k_l1 (a * b) ≤ c03k_l1 a * c03k_l1 b := by
  unfold c03k_l1
  have h1 : ∀ c ∈ range n, ((a * b).co c).natAbs ≤
      ∑ i ∈ range n, (a.co i).natAbs * (b.co (if i ≤ c then c - i else n + c - i)).natAbs := by
    intro c hc
    rw [c03k_NP.mul_co_lt _ _ (mem_range.mp hc)]
    unfold negMulR
    refine le_trans (Int.natAbs_sum_le _ _) (Finset.sum_le_sum (fun i _ => ?_))
    split
    · rw [Int.natAbs_mul]
    · rw [Int.natAbs_neg, Int.natAbs_mul]
  refine le_trans (Finset.sum_le_sum h1) ?_
  rw [Finset.sum_comm, Finset.sum_mul]
  apply Finset.sum_le_sum
  intro i hi
  rw [← Finset.mul_sum, c03k_sum_perm' n i (mem_range.mp hi) (fun k => (b.co k).natAbs)]

theorem c03k_l1_one {n : Nat} : c03k_l1 (1 : c03k_NP Int n) ≤ 1 := by
  unfold c03k_l1
  by_cases hn : 0 < n
  · rw [Finset.sum_eq_single 0]
    · rw [c03k_NP.one_co]; split <;> simp
    · intro i _ hi; rw [c03k_NP.one_co, if_neg (by omega)]; rfl
    · intro h; exact absurd (mem_range.mpr hn) h
  · have : n = 0 := by omega
    subst this; simp

theorem c03k_l1_pow {n : Nat} (s : c03k_NP Int n) (k : Nat) : c03k_l1 (s ^ k) ≤ (c03k_l1 s) ^ k := by
  induction k with
  | zero => rw [pow_zero, pow_zero]; exact c03k_l1_one
  | succ k ih =>
    rw [pow_succ, pow_succ]
    exact le_trans (c03k_l1_mul _ _) (Nat.mul_le_mul_right _ ih)

/-- ‖a·b‖∞ ≤ ‖a‖∞ · ‖b‖₁ -/
theorem c03k_linf_mul {n : Nat} (a b : c03k_NP Int n) (A : Nat) (ha : ∀ i, i < n → (a.co i).natAbs ≤ A) {c : Nat} (hc : c < n) :
    ((a * b).co c).natAbs ≤ A * c03k_l1 b := by
  rw [c03k_NP.mul_co_lt _ _ hc]
  exact c05u_negMul_bound n a.co b.co A c hc ha

/-- ‖Σ_k D_k s^k‖∞ ≤ A · Σ_k ‖s‖₁^k when every ‖D_k‖∞ ≤ A -/
theorem c03k_phase_bound {n : Nat} (size : Nat) (D : Nat → c03k_NP Int n) (s : c03k_NP Int n) (A : Nat)
    (hD : ∀ k, k < size → ∀ i, i < n → ((D k).co i).natAbs ≤ A) {c : Nat} (hc : c < n) :
    ((ctPhase size D s).co c).natAbs ≤ A * ∑ k ∈ range size, (c03k_l1 s) ^ k := by
  induction size with
  | zero => simp [ctPhase, c03k_NP.zero_co]
  | succ m ih =>
    unfold ctPhase at ih ⊢
    rw [Finset.sum_range_succ, Finset.sum_range_succ, c03k_NP.add_co, Nat.mul_add]
    refine le_trans (Int.natAbs_add_le _ _) (Nat.add_le_add (ih (fun k hk => hD k (by omega))) ?_)
    exact le_trans (c03k_linf_mul _ _ A (hD m (by omega)) hc) (Nat.mul_le_mul_left _ (c03k_l1_pow s m))

/-- `l'` is the level below `l`: last modulus dropped, same degree, same moduli and NTT tables on the remaining components -/
structure c03k_Next (l l' : Level) : Prop extends c05u_IsNext l l' where
  tbl : ∀ i, i < l'.size → l'.tbl i = l.tbl i

/-- Q = Q' · q_last for consecutive levels -/
theorem c03k_Q_next {l l' : Level} (hq : c07s_LevelQ l) (hq' : c07s_LevelQ l') (hn : c05u_IsNext l l') :
    c03k_Q l = c03k_Q l' * (l.q (l.size - 1)).value := by
  rw [c03k_Q_eq hq, c03k_Q_eq hq', hq.bwf.prod_eq, hq'.bwf.prod_eq, hq.size_eq, hq'.size_eq, ← hn.size, List.range_succ,
    List.map_append, List.prod_append]
  simp only [List.map_cons, List.map_nil, List.prod_cons, List.prod_nil, Nat.mul_one, Nat.add_sub_cancel]
  rw [hq.q_eq (by have := hn.size; omega)]
  congr 2
  apply List.map_congr_left
  intro i hi
  have hi' := List.mem_range.mp hi
  rw [hq.q_eq (by have := hn.size; omega), hq'.q_eq hi', hn.q i hi']

theorem c03k_modEq_of_red {q n : Nat} {f g : Nat → Int} (h : c03k_red q n f = c03k_red q n g) {j : Nat} (hj : j < n) :
    f j ≡ g j [ZMOD (q : Int)] :=
  (ZMod.intCast_eq_intCast_iff _ _ _).mp (c03k_toNP_inj h hj)

theorem c03k_merge' {l : Level} (hq : c07s_LevelQ l) {x y : Int}
    (h : ∀ m, m < l.size → x ≡ y [ZMOD ((l.q m).value : Int)]) : x ≡ y [ZMOD (c03k_Q l : Int)] := by
  rw [c03k_Q_eq hq]
  apply c04k_crt_merge hq.bwf
  intro i hi
  rw [hq.size_eq] at hi
  rw [hq.q_eq hi]
  exact h i hi

/-- the ring phase at the lower level, rewritten over the data of the upper level -/
theorem c03k_phNP_next {l l' : Level} (hn : c03k_Next l l') (sk : Array Int) (ct' : Ct) {m : Nat} (hm : m < l'.size)
    (f : Nat → Int) (h : c03k_red (l'.q m).value l'.n f = c03k_phNP l' sk ct' m) :
    c03k_red (l.q m).value l.n f =
      ctPhase ct'.polys.size (fun k => c03k_toNP l.n (c07s_vecN (l.q m).value (intt (l.tbl m) ((ct'.polys.getD k #[]).getD m #[]))))
        (c03k_sNP l sk m) := by
  unfold c03k_phNP c03k_cpoly c03k_sNP at h
  rw [hn.q m hm, hn.n, hn.tbl m hm] at h
  exact h

/-- the last modulus of the level (the prime dropped by rescaling) -/
def c03k_qL (l : Level) : Nat := (l.q (l.size - 1)).value

/-- rescaling, exact side: the rounded quotient Y_k = ⌊(X_k + q_L/2)/q_L⌋ of the CRT lift X_k of polynomial k -/
def c03k_Y (l : Level) (ct : Ct) (k j : Nat) : Nat := (c03k_X l ct k j + c03k_qL l / 2) / c03k_qL l

/-- the rounding remainder ρ_k = q_L·Y_k − X_k of polynomial k (|ρ_k| ≤ q_L/2 coefficient-wise) -/
def c03k_rho (l : Level) (ct : Ct) (k j : Nat) : Int := (c03k_qL l : Int) * (c03k_Y l ct k j : Int) - (c03k_X l ct k j : Int)

/-- the rescaling error polynomial ρ = Σ_k ρ_k ⋆ s^k -/
def c03k_rescaleErr (l : Level) (sk : Array Int) (ct : Ct) : Nat → Int :=
  fun j => (c03k_phZ l.n ct.polys.size (c03k_rho l ct) sk).co j

/-- ‖s‖₁ of the secret key -/
def c03k_skL1 (n : Nat) (sk : Array Int) : Nat := ∑ i ∈ range n, (sk.getD i 0).natAbs

theorem c03k_skL1_eq (n : Nat) (sk : Array Int) : c03k_l1 (c03k_toNP n (c03k_skf sk)) = c03k_skL1 n sk := by
  unfold c03k_l1 c03k_skL1
  apply Finset.sum_congr rfl
  intro i hi
  rw [c03k_toNP_co _ (mem_range.mp hi)]
  rfl

theorem c03k_rho_bound {l : Level} (hqL : 0 < c03k_qL l) (ct : Ct) (k j : Nat) : (c03k_rho l ct k j).natAbs ≤ c03k_qL l / 2 := by
  obtain ⟨ρ, h1, h2⟩ := c05u_round_facts hqL (c03k_X l ct k j)
  have : c03k_rho l ct k j = ρ := by unfold c03k_rho c03k_Y; linarith
  rw [this]; omega

theorem c03k_rescaleErr_bound {l : Level} (hqL : 0 < c03k_qL l) (sk : Array Int) (ct : Ct) {j : Nat} (hj : j < l.n) :
    2 * (c03k_rescaleErr l sk ct j).natAbs ≤ c03k_qL l * ∑ k ∈ range ct.polys.size, (c03k_skL1 l.n sk) ^ k := by
  have := c03k_phase_bound ct.polys.size (fun k => c03k_toNP l.n (c03k_rho l ct k)) (c03k_toNP l.n (c03k_skf sk)) (c03k_qL l / 2)
    (fun k _ i hi => by rw [c03k_toNP_co _ hi]; exact c03k_rho_bound hqL ct k i) hj
  rw [c03k_skL1_eq] at this
  unfold c03k_rescaleErr c03k_phZ
  have h2 : 2 * (c03k_qL l / 2 * ∑ k ∈ range ct.polys.size, (c03k_skL1 l.n sk) ^ k)
      ≤ c03k_qL l * ∑ k ∈ range ct.polys.size, (c03k_skL1 l.n sk) ^ k := by
    rw [← Nat.mul_assoc]
    exact Nat.mul_le_mul_right _ (by omega)
  omega

/-- q_L · Σ Y_k s^k = Σ X_k s^k + Σ ρ_k s^k in ℤ[X]/(X^n+1) -/
theorem c03k_rescale_ring (l : Level) (sk : Array Int) (ct : Ct) (j : Nat) :
    (c03k_qL l : Int) * (c03k_phZ l.n ct.polys.size (fun k i => (c03k_Y l ct k i : Int)) sk).co j
      = (c03k_phZ l.n ct.polys.size (fun k i => (c03k_X l ct k i : Int)) sk).co j + c03k_rescaleErr l sk ct j := by
  have h := c05u_phase_switch ct.polys.size (c03k_C l.n (c03k_qL l : Int))
    (fun k => c03k_toNP l.n (fun i => (c03k_X l ct k i : Int))) (fun k => c03k_toNP l.n (fun i => (c03k_Y l ct k i : Int)))
    (fun k => c03k_toNP l.n (c03k_rho l ct k)) (c03k_toNP l.n (c03k_skf sk)) (fun k _ => by
      apply c03k_np_ext
      intro i hi
      rw [c03k_C_mul, c03k_NP.add_co, c03k_toNP_co _ hi, c03k_toNP_co _ hi, c03k_toNP_co _ hi]
      unfold c03k_rho; ring)
  have h' := congrArg (fun x => x.co j) h
  beta_reduce at h'
  rw [c03k_C_mul, c03k_NP.add_co] at h'
  exact h'

/-! ## Part 7: programs — the model evaluator, the reference evaluator with interval bounds -/

theorem c03k_negMul_castQ (n : Nat) (f g : Nat → Int) (c : Nat) :
    ((negMulR n f g c : Int) : ℚ) = negMulR n (fun i => (f i : ℚ)) (fun i => (g i : ℚ)) c :=
  c04k_map (Int.castRingHom ℚ) n f g c

/-- ‖a ⋆ b‖∞ ≤ n · ‖a‖∞ · ‖b‖∞ over ℚ -/
theorem c03k_negMul_absQ (n : Nat) (a b : Nat → ℚ) (A B : ℚ) (ha : ∀ i, i < n → |a i| ≤ A) (hb : ∀ i, i < n → |b i| ≤ B)
    (hA : 0 ≤ A) {c : Nat} (hc : c < n) : |negMulR n a b c| ≤ n * (A * B) := by
  unfold negMulR
  refine le_trans (Finset.abs_sum_le_sum_abs _ _) ?_
  have h1 : ∀ i ∈ range n, |if i ≤ c then a i * b (c - i) else -(a i * b (n + c - i))| ≤ A * B := by
    intro i hi
    have hi' := mem_range.mp hi
    split
    · rw [abs_mul]; exact mul_le_mul (ha i hi') (hb _ (by omega)) (abs_nonneg _) hA
    · rw [abs_neg, abs_mul]; exact mul_le_mul (ha i hi') (hb _ (by omega)) (abs_nonneg _) hA
  refine le_trans (Finset.sum_le_sum h1) ?_
  rw [Finset.sum_const, Finset.card_range, nsmul_eq_mul]

theorem c03k_negMul_diffQ (n : Nat) (a a' b b' : Nat → ℚ) {c : Nat} (hc : c < n) :
    negMulR n a b c - negMulR n a' b' c
      = negMulR n (fun i => a i - a' i) b c + negMulR n a' (fun i => b i - b' i) c := by
  have h1 := c04k_sub_left n a a' b c
  have h2 : negMulR n a' (fun i => b i - b' i) c = negMulR n a' b c - negMulR n a' b' c := by
    rw [c04k_comm n a' _ hc, c04k_sub_left, c04k_comm n b a' hc, c04k_comm n b' a' hc]
  rw [h1, h2]; ring

theorem c03k_small_of_q {Q : Nat} {y : Int} {B : ℚ} (h1 : |(y : ℚ)| ≤ B) (h2 : 2 * B < (Q : ℚ)) : 2 * y.natAbs < Q := by
  have : ((2 * y.natAbs : Nat) : ℚ) < (Q : ℚ) := by
    push_cast
    rw [Nat.cast_natAbs, Int.cast_abs]
    linarith
  exact_mod_cast this

/-- from a congruence to a bound: if x is centred, x ≡ y (mod Q), y is within e of the reference v, |v| ≤ m and 2(m+e) < Q,
    then x = y -/
theorem c03k_exact_of_close {Q : Nat} {x y : Int} {v m e : ℚ} (h : x ≡ y [ZMOD (Q : Int)])
    (hx : - (Q : Int) < 2 * x ∧ 2 * x ≤ Q) (hy : |(y : ℚ) - v| ≤ e) (hv : |v| ≤ m) (hf : 2 * (m + e) < (Q : ℚ)) : x = y := by
  apply c03k_eq_of_small h hx
  apply c03k_small_of_q (B := m + e) _ hf
  have : (y : ℚ) = ((y : ℚ) - v) + v := by ring
  rw [this]
  exact le_trans (abs_add_le _ _) (by linarith)

/-- CKKS programs over the modelled operations -/
inductive c03k_Prog where
  | input (i : Nat)
  | add (a b : c03k_Prog)
  | sub (a b : c03k_Prog)
  | neg (a : c03k_Prog)
  | mul (a b : c03k_Prog)
  | mulPlain (a : c03k_Prog) (p : Nat)
  | rescale (a : c03k_Prog)
  | drop (a : c03k_Prog)
  | relin (a : c03k_Prog)

/-- does the program contain a relinearisation? (only then the key-switching hypotheses are needed) -/
def c03k_Prog.hasRelin : c03k_Prog → Bool
  | .input _ => false
  | .add a b => a.hasRelin || b.hasRelin
  | .sub a b => a.hasRelin || b.hasRelin
  | .neg a => a.hasRelin
  | .mul a b => a.hasRelin || b.hasRelin
  | .mulPlain a _ => a.hasRelin
  | .rescale a => a.hasRelin
  | .drop a => a.hasRelin
  | .relin _ => true

/-- a ciphertext value of the model evaluator: level index in the chain, ciphertext, recorded scale (an exact rational) -/
structure c03k_Val where
  lv : Nat
  ct : Ct
  scale : ℚ

/-- a plaintext operand: level index, NTT-form polynomial, scale -/
structure c03k_Plain where
  lv : Nat
  poly : RnsPoly
  scale : ℚ

/-- the operand check of every evaluator entry point (`Ciphertext::is_valid_for` via the model's `ctValid`, non-empty, NTT form) -/
def c03k_valid (l : Level) (ct : Ct) : Bool := ctValid l ct true false && ct.ntt && decide (ct.polys.size ≠ 0)

/-- `is_scale_within_bounds` on exact rationals: 0 < scale < 2^bits (cf. the model's float predicate `ckksScaleOk`) -/
def c03k_scaleOk (s : ℚ) (bits : Nat) : Bool := decide (0 < s ∧ s < 2 ^ bits)

def c03k_liftR (x : R Ct) (f : Ct → c03k_Val) : R c03k_Val :=
  match x with
  | .ok r => .ok (f r)
  | .error e => .error e

theorem c03k_liftR_ok {x : R Ct} {f : Ct → c03k_Val} {v : c03k_Val} (h : c03k_liftR x f = .ok v) : ∃ r, x = .ok r ∧ v = f r := by
  cases x with
  | ok r => exact ⟨r, rfl, (Except.ok.inj h).symm⟩
  | error e => cases h

/-- add / sub: same level (`match_parms_id`), same scale (`match_scale`), valid operands, then the model's `ctTranslate` -/
def c03k_opTranslate (chain : Nat → Level) (sub : Bool) (x y : c03k_Val) : R c03k_Val :=
  if x.lv ≠ y.lv then .error .refused
  else if x.scale ≠ y.scale then .error .refused
  else if !(c03k_valid (chain x.lv) x.ct && c03k_valid (chain x.lv) y.ct) then .error .refused
  else c03k_liftR (ctTranslate (chain x.lv) x.ct y.ct sub) (fun r => ⟨x.lv, r, x.scale⟩)

def c03k_opNeg (chain : Nat → Level) (x : c03k_Val) : R c03k_Val :=
  if !(c03k_valid (chain x.lv) x.ct) then .error .refused
  else c03k_liftR (ctNegate (chain x.lv) x.ct) (fun r => ⟨x.lv, r, x.scale⟩)

/-- multiply: same level, valid operands, the model's `ctMultiplyDyadic`; the scale is the product, refused when out of bounds -/
def c03k_opMul (chain : Nat → Level) (x y : c03k_Val) : R c03k_Val :=
  if x.lv ≠ y.lv then .error .refused
  else if !(c03k_valid (chain x.lv) x.ct && c03k_valid (chain x.lv) y.ct) then .error .refused
  else if !(c03k_scaleOk (x.scale * y.scale) (bitCount (c03k_Q (chain x.lv)))) then .error .refused
  else c03k_liftR (ctMultiplyDyadic (chain x.lv) x.ct y.ct) (fun r => ⟨x.lv, r, x.scale * y.scale⟩)

def c03k_opMulPlain (chain : Nat → Level) (x : c03k_Val) (p : c03k_Plain) : R c03k_Val :=
  if x.lv ≠ p.lv then .error .refused
  else if !(c03k_valid (chain x.lv) x.ct) then .error .refused
  else if !(c03k_scaleOk (x.scale * p.scale) (bitCount (c03k_Q (chain x.lv)))) then .error .refused
  else c03k_liftR (ctMultiplyPlainNtt (chain x.lv) x.ct p.poly) (fun r => ⟨x.lv, r, x.scale * p.scale⟩)

/-- rescale to the next level: the scale is divided by the dropped prime -/
def c03k_opRescale (chain : Nat → Level) (x : c03k_Val) : R c03k_Val :=
  if x.lv = 0 then .error .refused
  else if !(c03k_valid (chain x.lv) x.ct) then .error .refused
  else c03k_liftR (modSwitchScaleNext (chain x.lv) x.ct) (fun r => ⟨x.lv - 1, r, x.scale / (c03k_qL (chain x.lv) : ℚ)⟩)

def c03k_opDrop (chain : Nat → Level) (x : c03k_Val) : R c03k_Val :=
  if x.lv = 0 then .error .refused
  else if !(c03k_valid (chain x.lv) x.ct) then .error .refused
  else c03k_liftR (modSwitchDropNext (chain x.lv) x.ct) (fun r => ⟨x.lv - 1, r, x.scale⟩)

/-- relinearise a size-3 ciphertext with the model's `relinearize` (key level `kl`, keys `keys`, fuel 3) -/
def c03k_opRelin (chain : Nat → Level) (kl : KeyLevel) (keys : Nat → Option KSKey) (x : c03k_Val) : R c03k_Val :=
  if !(c03k_valid (chain x.lv) x.ct) then .error .refused
  else if x.ct.polys.size ≠ 3 then .error .refused
  else c03k_liftR (relinearize kl .ckks (chain x.lv).size keys (1 + 2) x.ct) (fun r => ⟨x.lv, r, x.scale⟩)

/-- the MODEL evaluator of programs -/
def c03k_run (chain : Nat → Level) (cts : Array c03k_Val) (pls : Array c03k_Plain) (kl : KeyLevel) (keys : Nat → Option KSKey) :
    c03k_Prog → R c03k_Val
  | .input i => match cts[i]? with
      | some v => .ok v
      | none => .error .refused
  | .add a b => do let x ← c03k_run chain cts pls kl keys a; let y ← c03k_run chain cts pls kl keys b; c03k_opTranslate chain false x y
  | .sub a b => do let x ← c03k_run chain cts pls kl keys a; let y ← c03k_run chain cts pls kl keys b; c03k_opTranslate chain true x y
  | .neg a => do let x ← c03k_run chain cts pls kl keys a; c03k_opNeg chain x
  | .mul a b => do let x ← c03k_run chain cts pls kl keys a; let y ← c03k_run chain cts pls kl keys b; c03k_opMul chain x y
  | .mulPlain a p => do
      let x ← c03k_run chain cts pls kl keys a
      match pls[p]? with
      | some q => c03k_opMulPlain chain x q
      | none => .error .refused
  | .rescale a => do let x ← c03k_run chain cts pls kl keys a; c03k_opRescale chain x
  | .drop a => do let x ← c03k_run chain cts pls kl keys a; c03k_opDrop chain x
  | .relin a => do let x ← c03k_run chain cts pls kl keys a; c03k_opRelin chain kl keys x

/-- a reference value: level, exact rational polynomial, bound on its ∞-norm (magnitude), bound on the distance of the model's
    phase from it (noise), exact scale, number of polynomials -/
structure c03k_Ref where
  lv : Nat
  val : Nat → ℚ
  mag : ℚ
  err : ℚ
  scale : ℚ
  size : Nat

/-- the interval fits into the modulus of its level: 2(mag + err) < Q -/
def c03k_fits (chain : Nat → Level) (r : c03k_Ref) : Bool := decide (2 * (r.mag + r.err) < (c03k_Q (chain r.lv) : ℚ))

def c03k_refTranslate (sub : Bool) (x y : c03k_Ref) : c03k_Ref :=
  ⟨x.lv, fun j => if sub then x.val j - y.val j else x.val j + y.val j, x.mag + y.mag, x.err + y.err, x.scale, max x.size y.size⟩

def c03k_refNeg (x : c03k_Ref) : c03k_Ref := ⟨x.lv, fun j => - x.val j, x.mag, x.err, x.scale, x.size⟩

def c03k_refMul (N : Nat) (x y : c03k_Ref) : c03k_Ref :=
  ⟨x.lv, negMulR N x.val y.val, N * (x.mag * y.mag), N * (x.err * (y.mag + y.err)) + N * (x.mag * y.err), x.scale * y.scale,
    x.size + y.size - 1⟩

/-- reference data of a plaintext: an integer lift of its polynomial and a bound on its ∞-norm -/
structure c03k_PlainRef where
  M : Nat → Int
  bound : ℚ

def c03k_refMulPlain (N : Nat) (x : c03k_Ref) (p : c03k_PlainRef) (ps : ℚ) : c03k_Ref :=
  ⟨x.lv, negMulR N x.val (fun i => (p.M i : ℚ)), N * (x.mag * p.bound), N * (x.err * p.bound), x.scale * ps, x.size⟩

/-- rescaling divides value, magnitude, noise and scale by the dropped prime and adds the rounding error
    (1/2)·Σ_{k<size} ‖s‖₁^k -/
def c03k_refRescale (chain : Nat → Level) (S1 : Nat) (x : c03k_Ref) : c03k_Ref :=
  ⟨x.lv - 1, fun j => x.val j / (c03k_qL (chain x.lv) : ℚ), x.mag / (c03k_qL (chain x.lv) : ℚ),
    (x.err + (c03k_qL (chain x.lv) : ℚ) * ((∑ k ∈ range x.size, S1 ^ k : Nat) : ℚ) / 2) / (c03k_qL (chain x.lv) : ℚ),
    x.scale / (c03k_qL (chain x.lv) : ℚ), x.size⟩

def c03k_refDrop (x : c03k_Ref) : c03k_Ref := ⟨x.lv - 1, x.val, x.mag, x.err, x.scale, x.size⟩

/-- relinearisation leaves the reference polynomial unchanged and adds the key-switching noise bound of the level -/
def c03k_refRelin (Bnu : Nat → ℚ) (x : c03k_Ref) : c03k_Ref := ⟨x.lv, x.val, x.mag, x.err + Bnu x.lv, x.scale, 2⟩

def c03k_guard (chain : Nat → Level) (r : c03k_Ref) : Option c03k_Ref := if c03k_fits chain r then some r else none

/-- the REFERENCE evaluator: exact rational polynomials with interval bounds (magnitude, noise); `none` when an interval does not
    fit into the modulus of its level -/
def c03k_ref (chain : Nat → Level) (N S1 : Nat) (refIn : Nat → c03k_Ref) (pls : Array c03k_Plain) (plRef : Nat → c03k_PlainRef)
    (Bnu : Nat → ℚ) :
    c03k_Prog → Option c03k_Ref
  | .input i => some (refIn i)
  | .add a b => do
      let x ← c03k_ref chain N S1 refIn pls plRef Bnu a; let y ← c03k_ref chain N S1 refIn pls plRef Bnu b
      c03k_guard chain (c03k_refTranslate false x y)
  | .sub a b => do
      let x ← c03k_ref chain N S1 refIn pls plRef Bnu a; let y ← c03k_ref chain N S1 refIn pls plRef Bnu b
      c03k_guard chain (c03k_refTranslate true x y)
  | .neg a => do let x ← c03k_ref chain N S1 refIn pls plRef Bnu a; c03k_guard chain (c03k_refNeg x)
  | .mul a b => do
      let x ← c03k_ref chain N S1 refIn pls plRef Bnu a; let y ← c03k_ref chain N S1 refIn pls plRef Bnu b
      c03k_guard chain (c03k_refMul N x y)
  | .mulPlain a p => do
      let x ← c03k_ref chain N S1 refIn pls plRef Bnu a
      match pls[p]? with
      | some q => c03k_guard chain (c03k_refMulPlain N x (plRef p) q.scale)
      | none => none
  | .rescale a => do let x ← c03k_ref chain N S1 refIn pls plRef Bnu a; c03k_guard chain (c03k_refRescale chain S1 x)
  | .drop a => do let x ← c03k_ref chain N S1 refIn pls plRef Bnu a; c03k_guard chain (c03k_refDrop x)
  | .relin a => do let x ← c03k_ref chain N S1 refIn pls plRef Bnu a; c03k_guard chain (c03k_refRelin Bnu x)

/-- a chain of CKKS levels 0 … top: well-formed, tools of the levels' moduli, consecutive levels differ by the last prime -/
structure c03k_ChainOK (chain : Nat → Level) (top N : Nat) : Prop where
  wf : ∀ c, c ≤ top → (chain c).WF
  tool : ∀ c, c ≤ top → c05u_ToolOK (chain c)
  ckks : ∀ c, c ≤ top → (chain c).scheme = .ckks
  n : ∀ c, c ≤ top → (chain c).n = N
  next : ∀ c, c < top → c03k_Next (chain (c + 1)) (chain c)

/-- the invariant relating a model value to its reference value -/
structure c03k_Inv (chain : Nat → Level) (top N : Nat) (sk : Array Int) (v : c03k_Val) (r : c03k_Ref) : Prop where
  lv : v.lv = r.lv
  le : v.lv ≤ top
  scale : v.scale = r.scale
  size : v.ct.polys.size = r.size
  canon : c03k_Canon (chain v.lv) v.ct
  close : ∀ j, j < N → |((c03k_phase (chain v.lv) sk v.ct j : Int) : ℚ) - r.val j| ≤ r.err
  mag : ∀ j, j < N → |r.val j| ≤ r.mag
  mag0 : 0 ≤ r.mag
  err0 : 0 ≤ r.err
  fits : c03k_fits chain r = true

theorem c03k_valid_canon {l : Level} {ct : Ct} (h : c03k_valid l ct = true) : CtCanon l ct ∧ ct.ntt = true := by
  unfold c03k_valid at h
  simp only [Bool.and_eq_true, decide_eq_true_eq] at h
  exact ⟨CtCanon.of_ctValid h.1.1 h.2, h.1.2⟩

theorem c03k_cf_one {l : Level} (hs : l.scheme = .ckks) {ct : Ct} (h : CtCanon l ct) : ct.cf = 1 := by
  have := h.cf
  unfold c02v_cfOk at this
  rw [hs] at this
  exact this

theorem c03k_guard_some {chain : Nat → Level} {r r' : c03k_Ref} (h : c03k_guard chain r = some r') : r' = r ∧ c03k_fits chain r = true := by
  unfold c03k_guard at h
  split at h
  · rename_i hf; exact ⟨(Option.some.inj h).symm, hf⟩
  · cases h

theorem c03k_fits_q {chain : Nat → Level} {r : c03k_Ref} (h : c03k_fits chain r = true) :
    2 * (r.mag + r.err) < (c03k_Q (chain r.lv) : ℚ) := by
  unfold c03k_fits at h
  exact of_decide_eq_true h

/-! ## Part 8: relinearisation — from the per-prime statement of C04K to `Spec.phase` -/

/-- the ciphertext level `l` sits inside the key level `kl`: the first `l.size` key-level moduli, same degree, same NTT tables -/
structure c03k_KeyLevelOf (kl : KeyLevel) (l : Level) : Prop extends c04k_LevelOf kl l where
  tb : ∀ i, i < l.size → l.tbl i = kl.tb i

theorem c03k_ctPhase_two {S : Type} [CommRing S] (c : Nat → S) (s : S) : ctPhase 2 c s = c 0 + c 1 * s := by
  unfold ctPhase
  rw [Finset.sum_range_succ, Finset.sum_range_one]; ring

theorem c03k_ctPhase_three {S : Type} [CommRing S] (c : Nat → S) (s : S) : ctPhase 3 c s = c 0 + c 1 * s + c 2 * (s * s) := by
  unfold ctPhase
  rw [Finset.sum_range_succ, Finset.sum_range_succ, Finset.sum_range_one]; ring

theorem c03k_red_of_modEq {q n : Nat} {f g : Nat → Int} (h : ∀ j, j < n → f j ≡ g j [ZMOD (q : Int)]) :
    c03k_red q n f = c03k_red q n g := by
  unfold c03k_red
  exact c03k_toNP_congr (fun j hj => (ZMod.intCast_eq_intCast_iff _ _ _).mpr (h j hj))

/-- the integer coefficient function of C04K (`c04k_polyI`, NTT form) reduces to the ring element `c03k_cpoly` -/
theorem c03k_red_polyI (l : Level) (ct : Ct) (m k : Nat) :
    c03k_red (l.q m).value l.n (c04k_polyI (l.tbl m) true ((ct.polys.getD k #[]).getD m #[])) = c03k_cpoly l ct m k := by
  apply c03k_np_ext
  intro j hj
  unfold c03k_red
  rw [c03k_toNP_co _ hj, c03k_cpoly_co _ _ _ _ hj]
  unfold c04k_polyI c04t_coefOf
  rw [if_pos rfl, Int.cast_natCast]

theorem c03k_red_skf (l : Level) (sk : Array Int) (m : Nat) : c03k_red (l.q m).value l.n (c03k_skf sk) = c03k_sNP l sk m := rfl

theorem c03k_red_phase2 (l : Level) (sk : Array Int) (ct : Ct) (m : Nat) (h2 : ct.polys.size = 2) :
    c03k_red (l.q m).value l.n (fun c => c05u_phase2 l.n (c04k_polyI (l.tbl m) true ((ct.polys.getD 0 #[]).getD m #[]))
      (c04k_polyI (l.tbl m) true ((ct.polys.getD 1 #[]).getD m #[])) (c03k_skf sk) c) = c03k_phNP l sk ct m := by
  unfold c05u_phase2 c03k_phNP
  rw [h2, c03k_ctPhase_two, c03k_red_add, c03k_red_mul, c03k_red_polyI, c03k_red_polyI, c03k_red_skf]

theorem c03k_red_phase3 (l : Level) (sk : Array Int) (ct : Ct) (m : Nat) (h3 : ct.polys.size = 3) :
    c03k_red (l.q m).value l.n (fun c => c04k_phase3 l.n (c04k_polyI (l.tbl m) true ((ct.polys.getD 0 #[]).getD m #[]))
      (c04k_polyI (l.tbl m) true ((ct.polys.getD 1 #[]).getD m #[]))
      (c04k_polyI (l.tbl m) true ((ct.polys.getD 2 #[]).getD m #[])) (c03k_skf sk) c) = c03k_phNP l sk ct m := by
  unfold c04k_phase3 c03k_phNP
  rw [h3, c03k_ctPhase_three]
  have e : (fun c => c04k_polyI (l.tbl m) true ((ct.polys.getD 0 #[]).getD m #[]) c
        + negMulR l.n (c04k_polyI (l.tbl m) true ((ct.polys.getD 1 #[]).getD m #[])) (c03k_skf sk) c
        + negMulR l.n (c04k_polyI (l.tbl m) true ((ct.polys.getD 2 #[]).getD m #[]))
            (fun p => negMulR l.n (c03k_skf sk) (c03k_skf sk) p) c)
      = (fun c => (fun c' => c04k_polyI (l.tbl m) true ((ct.polys.getD 0 #[]).getD m #[]) c'
        + negMulR l.n (c04k_polyI (l.tbl m) true ((ct.polys.getD 1 #[]).getD m #[])) (c03k_skf sk) c') c
        + negMulR l.n (c04k_polyI (l.tbl m) true ((ct.polys.getD 2 #[]).getD m #[]))
            (negMulR l.n (c03k_skf sk) (c03k_skf sk)) c) := rfl
  rw [e, c03k_red_add, c03k_red_add, c03k_red_mul, c03k_red_mul, c03k_red_mul, c03k_red_polyI, c03k_red_polyI, c03k_red_polyI,
    c03k_red_skf]

-- @@PROPS@@
/-! ## Property theorems -/

/-- K1 ADD (`ctTranslate … false`, any two sizes): on canonical NTT-form ciphertexts with equal correction factor (CKKS: both 1)
    the model succeeds, the result is canonical of size max(n1, n2), and its exact phase is the sum of the exact phases modulo Q -/
theorem ckks_add_phase {l : Level} (hl : l.WF) (hq : c07s_LevelQ l) (sk : Array Int) {a b : Ct} (ha : CtCanon l a) (hb : CtCanon l b)
    (hna : a.ntt = true) (hnb : b.ntt = true) (hcf : a.cf = b.cf) :
    ∃ r, ctTranslate l a b false = .ok r ∧ CtCanon l r ∧ r.ntt = true ∧ r.cf = a.cf ∧
      r.polys.size = max a.polys.size b.polys.size ∧
      ∀ j, j < l.n → c03k_phase l sk r j ≡ c03k_phase l sk a j + c03k_phase l sk b j [ZMOD (c03k_Q l : Int)] := by
  obtain ⟨r, hr, hcr, hsz, hn, hf, _⟩ := ctTranslate_spec (c02v_qsWF_of_levelWF hl) ha hb false (hna.trans hnb.symm) hcf
  refine ⟨r, hr, hcr, hn.trans hna, hf, hsz, ?_⟩
  apply c03k_merge hq
  intro m hm
  rw [c03k_red_add, c03k_phase_np hl hq sk (.of_ctCanon hcr (hn.trans hna)) hm, c03k_phase_np hl hq sk (.of_ctCanon ha hna) hm,
    c03k_phase_np hl hq sk (.of_ctCanon hb hnb) hm, c03k_translate_np hl ha hb false (hna.trans hnb.symm) hcf hr sk hm]
  rfl

/-- K1 SUB (`ctTranslate … true`): the exact phase of the result is the difference of the exact phases modulo Q -/
theorem ckks_sub_phase {l : Level} (hl : l.WF) (hq : c07s_LevelQ l) (sk : Array Int) {a b : Ct} (ha : CtCanon l a) (hb : CtCanon l b)
    (hna : a.ntt = true) (hnb : b.ntt = true) (hcf : a.cf = b.cf) :
    ∃ r, ctTranslate l a b true = .ok r ∧ CtCanon l r ∧ r.ntt = true ∧ r.cf = a.cf ∧
      r.polys.size = max a.polys.size b.polys.size ∧
      ∀ j, j < l.n → c03k_phase l sk r j ≡ c03k_phase l sk a j - c03k_phase l sk b j [ZMOD (c03k_Q l : Int)] := by
  obtain ⟨r, hr, hcr, hsz, hn, hf, _⟩ := ctTranslate_spec (c02v_qsWF_of_levelWF hl) ha hb true (hna.trans hnb.symm) hcf
  refine ⟨r, hr, hcr, hn.trans hna, hf, hsz, ?_⟩
  apply c03k_merge hq
  intro m hm
  rw [c03k_red_sub, c03k_phase_np hl hq sk (.of_ctCanon hcr (hn.trans hna)) hm, c03k_phase_np hl hq sk (.of_ctCanon ha hna) hm,
    c03k_phase_np hl hq sk (.of_ctCanon hb hnb) hm, c03k_translate_np hl ha hb true (hna.trans hnb.symm) hcf hr sk hm]
  rfl

/-- K1 NEGATE (`ctNegate`): the exact phase is negated modulo Q -/
theorem ckks_negate_phase {l : Level} (hl : l.WF) (hq : c07s_LevelQ l) (sk : Array Int) {a : Ct} (ha : CtCanon l a)
    (hna : a.ntt = true) :
    ∃ r, ctNegate l a = .ok r ∧ CtCanon l r ∧ r.ntt = true ∧ r.cf = a.cf ∧ r.polys.size = a.polys.size ∧
      ∀ j, j < l.n → c03k_phase l sk r j ≡ - c03k_phase l sk a j [ZMOD (c03k_Q l : Int)] := by
  obtain ⟨r, hr, hcr, hsz, hn, hf, _⟩ := ctNegate_spec (c02v_qsWF_of_levelWF hl) ha
  refine ⟨r, hr, hcr, hn.trans hna, hf, hsz, ?_⟩
  apply c03k_merge hq
  intro m hm
  rw [c03k_red_neg, c03k_phase_np hl hq sk (.of_ctCanon hcr (hn.trans hna)) hm, c03k_phase_np hl hq sk (.of_ctCanon ha hna) hm,
    c03k_negate_np hl ha hr sk hm]

/-- K1 MULTIPLY (`ctMultiplyDyadic` = `ckks_multiply`, any sizes n1, n2 in 2..16 with n1 + n2 − 1 ≤ 16 — a larger product is
    refused by `resize`, in the code and in the model): the model succeeds, the result is a canonical ciphertext of n1 + n2 − 1
    polynomials, and its exact phase is the NEGACYCLIC PRODUCT of the exact phases modulo Q: phase(r) ≡ phase(a) ⋆ phase(b).
    No noise is added by the tensor product. -/
theorem ckks_multiply_phase {l : Level} (hl : l.WF) (hq : c07s_LevelQ l) (sk : Array Int) {a b : Ct} (ha : CtCanon l a)
    (hb : CtCanon l b) (hna : a.ntt = true) (hnb : b.ntt = true) (hsz16 : a.polys.size + b.polys.size - 1 ≤ 16) :
    ∃ r, ctMultiplyDyadic l a b = .ok r ∧ c03k_Canon l r ∧ r.cf = a.cf ∧ r.polys.size = a.polys.size + b.polys.size - 1 ∧
      CtCanon l r ∧
      ∀ j, j < l.n → c03k_phase l sk r j ≡ negMulR l.n (c03k_phase l sk a) (c03k_phase l sk b) j [ZMOD (c03k_Q l : Int)] := by
  obtain ⟨r, hr, hsz, hn, hf, hcan, h16, _⟩ := ctMultiplyDyadic_spec (c02v_qsWF_of_levelWF hl) ha hb hna hnb hsz16
  have h2a := ha.two_le; have h2b := hb.two_le
  have hcr : c03k_Canon l r := ⟨hn, by rw [hsz]; omega, fun k hk => hcan k (by rw [← hsz]; exact hk)⟩
  refine ⟨r, hr, hcr, hf, hsz, h16 hsz16, ?_⟩
  apply c03k_merge hq
  intro m hm
  rw [c03k_red_mul, c03k_phase_np hl hq sk hcr hm, c03k_phase_np hl hq sk (.of_ctCanon ha hna) hm,
    c03k_phase_np hl hq sk (.of_ctCanon hb hnb) hm, c03k_mul_np hl ha hb hna hnb hr sk hm]

/-- K1 MULTIPLY_PLAIN (`ctMultiplyPlainNtt`): for ANY integer lift `M` of the plaintext polynomial (`c03k_PlainLift`; e.g. the CRT
    lift or the centred CRT lift, `c03k_plainLift_crt/_centred`) the exact phase of the result is phase(a) ⋆ M modulo Q -/
theorem ckks_multiply_plain_phase {l : Level} (hl : l.WF) (hq : c07s_LevelQ l) (sk : Array Int) {a : Ct} (ha : CtCanon l a)
    (hna : a.ntt = true) {p : RnsPoly} (hp : RnsCanon l p) {M : Nat → Int} (hM : c03k_PlainLift l p M) :
    ∃ r, ctMultiplyPlainNtt l a p = .ok r ∧ CtCanon l r ∧ r.ntt = true ∧ r.cf = a.cf ∧ r.polys.size = a.polys.size ∧
      ∀ j, j < l.n → c03k_phase l sk r j ≡ negMulR l.n (c03k_phase l sk a) M j [ZMOD (c03k_Q l : Int)] := by
  obtain ⟨r, hr, hcr, hsz, hn, hf, _⟩ := ctMultiplyPlainNtt_spec (c02v_qsWF_of_levelWF hl) ha hna hp
  refine ⟨r, hr, hcr, hn, hf, hsz, ?_⟩
  apply c03k_merge hq
  intro m hm
  rw [c03k_red_mul, c03k_phase_np hl hq sk (.of_ctCanon hcr hn) hm, c03k_phase_np hl hq sk (.of_ctCanon ha hna) hm,
    c03k_mul_plain_np hl ha hna hp hr sk hm, hM m hm]

/-- every exact phase is the centred representative: coefficients in (−Q/2, Q/2] -/
theorem ckks_phase_centred {l : Level} (hq : c07s_LevelQ l) (sk : Array Int) {ct : Ct} (hc : c03k_Canon l ct)
    {j : Nat} (hj : j < l.n) :
    - (c03k_Q l : Int) < 2 * c03k_phase l sk ct j ∧ 2 * c03k_phase l sk ct j ≤ (c03k_Q l : Int) :=
  c03k_phase_centred hq sk hc hj

/-- no wrap-around: a congruence `phase ≡ y (mod Q)` with |y| < Q/2 is an equality of integers -/
theorem ckks_phase_exact {l : Level} (hq : c07s_LevelQ l) (sk : Array Int) {ct : Ct} (hc : c03k_Canon l ct)
    {j : Nat} (hj : j < l.n) {y : Int} (h : c03k_phase l sk ct j ≡ y [ZMOD (c03k_Q l : Int)]) (hy : 2 * y.natAbs < c03k_Q l) :
    c03k_phase l sk ct j = y :=
  c03k_eq_of_small h (c03k_phase_centred hq sk hc hj) hy


/-- K1 DROP (`modSwitchDropNext` = CKKS `mod_switch_to_next`): the last RNS component is removed, nothing else changes; the exact
    phase at the lower level is the old exact phase modulo Q' = Q / q_last (so it is its centred remainder, `ckks_phase_exact`) -/
theorem ckks_mod_switch_drop_phase {l l' : Level} (hl : l.WF) (hl' : l'.WF) (hq : c07s_LevelQ l) (hq' : c07s_LevelQ l') (hn : c03k_Next l l')
    (sk : Array Int) {ct : Ct} (hc : c03k_Canon l ct) :
    ∃ ct', modSwitchDropNext l ct = .ok ct' ∧ c03k_Canon l' ct' ∧ ct'.cf = ct.cf ∧ ct'.polys.size = ct.polys.size ∧
      c03k_Q l = c03k_Q l' * c03k_qL l ∧
      ∀ j, j < l.n → c03k_phase l' sk ct' j ≡ c03k_phase l sk ct j [ZMOD (c03k_Q l' : Int)] := by
  have h2 : 2 ≤ l.size := by
    have h1 := hn.size; have h3 := hq'.bwf.pos; rw [hq'.size_eq] at h3; omega
  obtain ⟨ct', hok, hsz, hntt, hcf, hcomp, hcan⟩ := modSwitchDropNext_spec h2 (fun _ => hc.ntt) hc.canon
  have hc' : c03k_Canon l' ct' := ⟨hntt.trans hc.ntt, by rw [hsz]; exact hc.pos, hcan l' hn.toc05u_IsNext⟩
  refine ⟨ct', hok, hc', hcf, hsz, c03k_Q_next hq hq' hn.toc05u_IsNext, fun j hj => ?_⟩
  apply c03k_merge' hq'
  intro m hm
  have hm' : m < l.size := by have := hn.size; omega
  have h1 := c03k_phNP_next hn sk ct' hm _ (c03k_phase_np hl' hq' sk hc' hm)
  have h3 := c03k_phase_np hl hq sk hc hm'
  have e : ctPhase ct'.polys.size (fun k => c03k_toNP l.n (c07s_vecN (l.q m).value
        (intt (l.tbl m) ((ct'.polys.getD k #[]).getD m #[])))) (c03k_sNP l sk m) = c03k_phNP l sk ct m := by
    unfold c03k_phNP
    rw [hsz]
    apply c03k_ctPhase_congr
    intro k hk
    unfold c03k_cpoly
    rw [(hcomp k hk).2 m (by have := hn.size; omega)]
  rw [hn.q m hm]
  exact c03k_modEq_of_red (h1.trans (e.trans h3.symm)) hj

/-- K1 RESCALE (`modSwitchScaleNext` on a CKKS level = `rescale_to_next`, any size): the model succeeds, the result is canonical at
    the next level, and with the explicit error polynomial ρ = Σ_k ρ_k ⋆ s^k (`c03k_rescaleErr`; ρ_k the rounding remainders of the
    CRT lifts of the polynomials)
        q_L · phase(result) ≡ phase(ct) + ρ   (mod Q),     2‖ρ‖∞ ≤ q_L · Σ_{k<size} ‖s‖₁^k
    (size 2: 2‖ρ‖∞ ≤ q_L(1 + ‖s‖₁)). -/
theorem ckks_rescale_phase {l l' : Level} (hl : l.WF) (hl' : l'.WF) (ht : c05u_ToolOK l) (hq' : c07s_LevelQ l') (hn : c03k_Next l l')
    (hs : l.scheme = .ckks) (sk : Array Int) {ct : Ct} (hc : c03k_Canon l ct) :
    ∃ ct', modSwitchScaleNext l ct = .ok ct' ∧ c03k_Canon l' ct' ∧ ct'.cf = ct.cf ∧ ct'.polys.size = ct.polys.size ∧
      c03k_Q l = c03k_Q l' * c03k_qL l ∧
      (∀ j, j < l.n → (c03k_qL l : Int) * c03k_phase l' sk ct' j
          ≡ c03k_phase l sk ct j + c03k_rescaleErr l sk ct j [ZMOD (c03k_Q l : Int)]) ∧
      ∀ j, j < l.n → 2 * (c03k_rescaleErr l sk ct j).natAbs ≤ c03k_qL l * ∑ k ∈ range ct.polys.size, (c03k_skL1 l.n sk) ^ k := by
  have hq := c01q_levelQ_of_toolOK ht
  have h2 : 2 ≤ l.size := by
    have h1 := hn.size; have h3 := hq'.bwf.pos; rw [hq'.size_eq] at h3; omega
  have hqLwf := (c01o_level_comp hl (show l.size - 1 < l.size by omega)).2.2.2
  have hqL : 0 < c03k_qL l := by have := hqLwf.two_le; unfold c03k_qL; omega
  obtain ⟨ct', hok, hsz, hntt, hcf, hrd⟩ := modSwitchScaleNext_ckks_spec hl ht h2 hs hc.ntt hc.canon
  have hc' : c03k_Canon l' ct' := ⟨hntt, by rw [hsz]; exact hc.pos,
    fun k hk => c05u_roundDivNtt_canon hn.toc05u_IsNext (hrd k (by rw [← hsz]; exact hk))⟩
  have hQ := c03k_Q_next hq hq' hn.toc05u_IsNext
  refine ⟨ct', hok, hc', hcf, hsz, hQ, fun j hj => ?_, fun j hj => c03k_rescaleErr_bound hqL sk ct hj⟩
  -- lifts
  have lift1 := c03k_phase_lift hl hq sk hc (fun k i => (c03k_X l ct k i : Int))
    (fun k hk m hm => c03k_X_lift hl hq (hc.canon k hk) hm) j hj
  have hZ' : ∀ k, k < ct'.polys.size → ∀ m, m < l'.size →
      c03k_red (l'.q m).value l'.n (fun i => (c03k_Y l ct k i : Int)) = c03k_cpoly l' ct' m k := by
    intro k hk m hm
    have hm' : m < l.size - 1 := by have := hn.size; omega
    unfold c03k_cpoly
    rw [hn.q m hm, hn.n, hn.tbl m hm]
    apply c03k_np_ext
    intro i hi
    unfold c03k_red
    rw [c03k_toNP_co _ hi, c03k_toNP_co _ hi]
    have hX := c03k_X_isCrt hl hq (hc.canon k (by rw [← hsz]; exact hk)) hi
    have := ((hrd k (by rw [← hsz]; exact hk)).2 m hm').2.2 i hi (c03k_X l ct k i) (by
      unfold c05u_IsCrt c05u_Q; exact hX)
    show _ = (((intt (l.tbl m) ((ct'.polys.getD k #[]).getD m #[])).getD i 0 : Nat) : ZMod (l.q m).value)
    rw [this, ZMod.natCast_mod, Int.cast_natCast]
    rfl
  have lift2 := c03k_phase_lift hl' hq' sk hc' (fun k i => (c03k_Y l ct k i : Int)) hZ' j (by rw [hn.n]; exact hj)
  rw [hn.n, hsz] at lift2
  have hQz : (c03k_Q l : Int) = (c03k_qL l : Int) * (c03k_Q l' : Int) := by rw [hQ]; unfold c03k_qL; push_cast; ring
  have s1 := Int.ModEq.mul_left' (c := (c03k_qL l : Int)) lift2
  rw [← hQz, c03k_rescale_ring] at s1
  exact s1.trans (lift1.symm.add_right _)

/-- K1 RELINEARIZE (+ν) (`relinearize` of C04 on a CKKS level, size 3 → 2): with a relinearisation key satisfying the key equation
    for s² → s (`c04k_KeyEq`, hypotheses of C04K's `relinearize_phase`; concrete instance `c04k_exRelinKeyEq`), the model succeeds,
    the result is a canonical size-2 ciphertext and its exact phase is the old exact phase plus the key-switching noise
    ν = `c04k_nuStd` modulo Q; ‖ν‖∞ is bounded by `switchKey_noise_bound` (restated below) -/
theorem ckks_relinearize_phase {l : Level} (hl : l.WF) (hq : c07s_LevelQ l) {kl : KeyLevel} (hlo : c03k_KeyLevelOf kl l)
    (sk : Array Int) {ct : Ct} (hc : CtCanon l ct) (hn : ct.ntt = true) (h3 : ct.polys.size = 3)
    {key : KSKey} (keys : Nat → Option KSKey) (fuel : Nat) (hk : keys 2 = some key)
    (h : c04t_KSInput kl l.size ct (ct.polys.getD 2 #[]) key) (hkcc : (key.getD 0 #[]).size = 2)
    {e : Nat → Nat → Int} {G : Nat → Int}
    (hke : c04k_KeyEq kl l.size key (c03k_skf sk) (fun p => negMulR kl.n (c03k_skf sk) (c03k_skf sk) p) e G) :
    ∃ r, relinearize kl .ckks l.size keys (fuel + 2) ct = .ok r ∧ CtCanon l r ∧ r.ntt = true ∧ r.cf = ct.cf ∧ r.polys.size = 2 ∧
      ∀ j, j < l.n → c03k_phase l sk r j ≡ c03k_phase l sk ct j
        + c04k_nuStd kl l.size true (ct.polys.getD 2 #[]) key e (c03k_skf sk) j [ZMOD (c03k_Q l : Int)] := by
  have hmode : c04t_StdMode .ckks ct.ntt := Or.inr ⟨rfl, hn⟩
  obtain ⟨r, hr, hsz, hnr, hcf, hcan, hph⟩ := relinearize_phase keys fuel h3 hk h hmode hkcc hke
  rw [hn] at hph hnr
  have hrc : ∀ k, k < r.polys.size → RnsCanon l (r.polys.getD k #[]) := by
    intro k hk'
    obtain ⟨s1, s2⟩ := hcan k (by omega)
    refine ⟨s1, fun i hi => ?_⟩
    rw [hlo.n, hlo.q i hi]
    exact s2 i hi
  have hcr : CtCanon l r := ⟨⟨by omega, by omega, hrc⟩, by rw [hcf]; exact hc.cf⟩
  refine ⟨r, hr, hcr, hnr, hcf, hsz, ?_⟩
  apply c03k_merge hq
  intro m hm
  have hm3 := hph m hm
  rw [← hlo.n, ← hlo.q m hm, ← hlo.tb m hm] at hm3
  rw [c03k_red_add, c03k_phase_np hl hq sk (.of_ctCanon hcr hnr) hm, c03k_phase_np hl hq sk (.of_ctCanon hc hn) hm,
    ← c03k_red_phase2 l sk r m hsz, ← c03k_red_phase3 l sk ct m h3, ← c03k_red_add]
  exact c03k_red_of_modEq hm3

/-- the relinearisation noise: P·‖ν‖∞ ≤ dsz·A·n·Be + ⌊P/2⌋·(1 + ‖s‖₁) for level moduli ≤ A and key errors ‖e_i‖∞ ≤ Be -/
theorem ckks_relinearize_noise {l : Level} {kl : KeyLevel} (sk : Array Int) {ct : Ct} {key : KSKey}
    (h : c04t_KSInput kl l.size ct (ct.polys.getD 2 #[]) key) (hn : ct.ntt = true)
    {s' : Nat → Int} {e : Nat → Nat → Int} {G : Nat → Int} (hke : c04k_KeyEq kl l.size key (c03k_skf sk) s' e G) {A Be : Nat}
    (hA : ∀ i, i < l.size → (kl.m i).value ≤ A) (he : ∀ i, i < l.size → ∀ p, p < kl.n → (e i p).natAbs ≤ Be) :
    ∀ c, c < kl.n → (c04k_nuStd kl l.size true (ct.polys.getD 2 #[]) key e (c03k_skf sk) c).natAbs * kl.c04t_P
      ≤ l.size * (A * (kl.n * Be)) + kl.c04t_P / 2 * (1 + ∑ p ∈ range kl.n, (c03k_skf sk p).natAbs) := by
  have := switchKey_noise_bound h hke hA he
  rw [hn] at this
  exact this

/-- K1 RESCALE, exact form: when phase(ct) + ρ does not wrap around modulo Q the congruence is an equality of integers; then
    |q_L·phase(result) − phase(ct)| ≤ (q_L/2)·Σ_{k<size}‖s‖₁^k, i.e. |phase(result) − phase(ct)/q_L| ≤ (1/2)·Σ_{k<size}‖s‖₁^k
    (size 2: (1 + ‖s‖₁)/2) -/
theorem ckks_rescale_phase_exact {l l' : Level} (hl : l.WF) (hl' : l'.WF) (ht : c05u_ToolOK l) (hq' : c07s_LevelQ l')
    (hn : c03k_Next l l') (hs : l.scheme = .ckks) (sk : Array Int) {ct ct' : Ct} (hc : c03k_Canon l ct)
    (hok : modSwitchScaleNext l ct = .ok ct') {j : Nat} (hj : j < l.n)
    (hsmall : 2 * (c03k_phase l sk ct j + c03k_rescaleErr l sk ct j).natAbs < c03k_Q l) :
    (c03k_qL l : Int) * c03k_phase l' sk ct' j = c03k_phase l sk ct j + c03k_rescaleErr l sk ct j ∧
      2 * ((c03k_qL l : Int) * c03k_phase l' sk ct' j - c03k_phase l sk ct j).natAbs
        ≤ c03k_qL l * ∑ k ∈ range ct.polys.size, (c03k_skL1 l.n sk) ^ k := by
  obtain ⟨r, hr, hcr, _, _, hQ, hph, hbd⟩ := ckks_rescale_phase hl hl' ht hq' hn hs sk hc
  rw [hok] at hr
  obtain rfl := Except.ok.inj hr
  have hcen := c03k_phase_centred hq' sk hcr (j := j) (by rw [hn.n]; exact hj)
  have hQz : (c03k_Q l : Int) = (c03k_Q l' : Int) * (c03k_qL l : Int) := by rw [hQ]; push_cast; ring
  have hqLn : 0 < c03k_qL l := by
    by_contra h0
    have : c03k_qL l = 0 := by omega
    rw [this, Nat.mul_zero] at hQ
    omega
  have hqLz : (0 : Int) < (c03k_qL l : Int) := by exact_mod_cast hqLn
  have e := c03k_eq_of_small (hph j hj) (by rw [hQz]; constructor <;> nlinarith [hcen.1, hcen.2, hqLz]) hsmall
  refine ⟨e, ?_⟩
  rw [e, add_sub_cancel_left]
  exact hbd j hj

/-- model level: relinearising a size-3 ciphertext without a key for s² is refused; a size-2 ciphertext is returned unchanged;
    fewer than two polynomials are refused -/
theorem ckks_relinearize_refusals (kl : KeyLevel) (scheme : Scheme) (dsz : Nat) (keys : Nat → Option KSKey) (fuel : Nat) (ct : Ct) :
    (ct.polys.size < 2 → relinearize kl scheme dsz keys (fuel + 1) ct = .error .refused) ∧
    (ct.polys.size = 2 → relinearize kl scheme dsz keys (fuel + 1) ct = .ok ct) ∧
    (ct.polys.size = 3 → keys 2 = none → relinearize kl scheme dsz keys (fuel + 1) ct = .error .refused) := by
  refine ⟨fun h => ?_, fun h => relinearize_size2 kl scheme dsz keys fuel ct h, fun h hk => ?_⟩
  · rw [relinearize]
    simp only [if_pos h]
  · rw [relinearize]
    simp only [h, hk]
    rfl

/-! ### K2, program level: soundness of every operation against the reference evaluator (helpers), then the theorem -/

theorem c03k_inv_of_modEq {chain : Nat → Level} {top N : Nat} {sk : Array Int} (hch : c03k_ChainOK chain top N)
    {v : c03k_Val} {r : c03k_Ref} (hlv : v.lv = r.lv) (hle : v.lv ≤ top) (hsc : v.scale = r.scale)
    (hsz : v.ct.polys.size = r.size) (hcan : c03k_Canon (chain v.lv) v.ct) (y : Nat → Int)
    (hcong : ∀ j, j < N → c03k_phase (chain v.lv) sk v.ct j ≡ y j [ZMOD (c03k_Q (chain v.lv) : Int)])
    (hy : ∀ j, j < N → |((y j : Int) : ℚ) - r.val j| ≤ r.err) (hmag : ∀ j, j < N → |r.val j| ≤ r.mag)
    (hmag0 : 0 ≤ r.mag) (herr0 : 0 ≤ r.err) (hf : c03k_fits chain r = true) : c03k_Inv chain top N sk v r := by
  have hq := c01q_levelQ_of_toolOK (hch.tool _ hle)
  have hfq := c03k_fits_q hf
  rw [← hlv] at hfq
  refine ⟨hlv, hle, hsc, hsz, hcan, fun j hj => ?_, hmag, hmag0, herr0, hf⟩
  have e := c03k_exact_of_close (hcong j hj) (c03k_phase_centred hq sk hcan (by rw [hch.n _ hle]; exact hj)) (hy j hj)
    (hmag j hj) hfq
  rw [e]; exact hy j hj

theorem c03k_translate_sound {chain : Nat → Level} {top N : Nat} {sk : Array Int} (hch : c03k_ChainOK chain top N) (sub : Bool)
    {x y v : c03k_Val} {rx ry : c03k_Ref} (hx : c03k_Inv chain top N sk x rx) (hy : c03k_Inv chain top N sk y ry)
    (hop : c03k_opTranslate chain sub x y = .ok v) (hf : c03k_fits chain (c03k_refTranslate sub rx ry) = true) :
    c03k_Inv chain top N sk v (c03k_refTranslate sub rx ry) := by
  unfold c03k_opTranslate at hop
  split at hop
  · cases hop
  rename_i h1
  split at hop
  · cases hop
  rename_i h2
  split at hop
  · cases hop
  rename_i h3
  have hlv : y.lv = x.lv := (not_not.mp h1).symm
  simp only [Bool.not_eq_true', Bool.and_eq_false_iff, not_or, Bool.not_eq_false] at h3
  obtain ⟨r, hr, rfl⟩ := c03k_liftR_ok hop
  have hl := hch.wf _ hx.le
  have hq := c01q_levelQ_of_toolOK (hch.tool _ hx.le)
  have hs := hch.ckks _ hx.le
  have hn := hch.n _ hx.le
  obtain ⟨ha, hna⟩ := c03k_valid_canon h3.1
  obtain ⟨hb, hnb⟩ := c03k_valid_canon h3.2
  have hcf : x.ct.cf = y.ct.cf := by rw [c03k_cf_one hs ha, c03k_cf_one hs hb]
  have hyc := hy.close
  rw [hlv] at hyc
  cases sub
  · obtain ⟨r', hr', hcr, hnr, _, hsz, hph⟩ := ckks_add_phase hl hq sk ha hb hna hnb hcf
    rw [hr] at hr'
    obtain rfl := Except.ok.inj hr'
    refine c03k_inv_of_modEq hch hx.lv hx.le hx.scale (by show r.polys.size = max rx.size ry.size; rw [hsz, hx.size, hy.size])
      (.of_ctCanon hcr hnr) (fun j => c03k_phase (chain x.lv) sk x.ct j + c03k_phase (chain x.lv) sk y.ct j)
      (fun j hj => hph j (by rw [hn]; exact hj)) (fun j hj => ?_) (fun j hj => ?_) (add_nonneg hx.mag0 hy.mag0)
      (add_nonneg hx.err0 hy.err0) hf
    · show |((c03k_phase (chain x.lv) sk x.ct j + c03k_phase (chain x.lv) sk y.ct j : Int) : ℚ) - (rx.val j + ry.val j)| ≤ rx.err + ry.err
      have e : ((c03k_phase (chain x.lv) sk x.ct j + c03k_phase (chain x.lv) sk y.ct j : Int) : ℚ) - (rx.val j + ry.val j)
          = ((c03k_phase (chain x.lv) sk x.ct j : ℚ) - rx.val j) + ((c03k_phase (chain x.lv) sk y.ct j : ℚ) - ry.val j) := by
        push_cast; ring
      rw [e]
      exact le_trans (abs_add_le _ _) (add_le_add (hx.close j hj) (hyc j hj))
    · show |rx.val j + ry.val j| ≤ rx.mag + ry.mag
      exact le_trans (abs_add_le _ _) (add_le_add (hx.mag j hj) (hy.mag j hj))
  · obtain ⟨r', hr', hcr, hnr, _, hsz, hph⟩ := ckks_sub_phase hl hq sk ha hb hna hnb hcf
    rw [hr] at hr'
    obtain rfl := Except.ok.inj hr'
    refine c03k_inv_of_modEq hch hx.lv hx.le hx.scale (by show r.polys.size = max rx.size ry.size; rw [hsz, hx.size, hy.size])
      (.of_ctCanon hcr hnr) (fun j => c03k_phase (chain x.lv) sk x.ct j - c03k_phase (chain x.lv) sk y.ct j)
      (fun j hj => hph j (by rw [hn]; exact hj)) (fun j hj => ?_) (fun j hj => ?_) (add_nonneg hx.mag0 hy.mag0)
      (add_nonneg hx.err0 hy.err0) hf
    · show |((c03k_phase (chain x.lv) sk x.ct j - c03k_phase (chain x.lv) sk y.ct j : Int) : ℚ) - (rx.val j - ry.val j)| ≤ rx.err + ry.err
      have e : ((c03k_phase (chain x.lv) sk x.ct j - c03k_phase (chain x.lv) sk y.ct j : Int) : ℚ) - (rx.val j - ry.val j)
          = ((c03k_phase (chain x.lv) sk x.ct j : ℚ) - rx.val j) - ((c03k_phase (chain x.lv) sk y.ct j : ℚ) - ry.val j) := by
        push_cast; ring
      rw [e]
      exact le_trans (abs_sub _ _) (add_le_add (hx.close j hj) (hyc j hj))
    · show |rx.val j - ry.val j| ≤ rx.mag + ry.mag
      exact le_trans (abs_sub _ _) (add_le_add (hx.mag j hj) (hy.mag j hj))

theorem c03k_neg_sound {chain : Nat → Level} {top N : Nat} {sk : Array Int} (hch : c03k_ChainOK chain top N)
    {x v : c03k_Val} {rx : c03k_Ref} (hx : c03k_Inv chain top N sk x rx)
    (hop : c03k_opNeg chain x = .ok v) (hf : c03k_fits chain (c03k_refNeg rx) = true) :
    c03k_Inv chain top N sk v (c03k_refNeg rx) := by
  unfold c03k_opNeg at hop
  split at hop
  · cases hop
  rename_i h3
  simp only [Bool.not_eq_true', Bool.not_eq_false] at h3
  obtain ⟨r, hr, rfl⟩ := c03k_liftR_ok hop
  have hl := hch.wf _ hx.le
  have hq := c01q_levelQ_of_toolOK (hch.tool _ hx.le)
  have hn := hch.n _ hx.le
  obtain ⟨ha, hna⟩ := c03k_valid_canon h3
  obtain ⟨r', hr', hcr, hnr, _, hsz, hph⟩ := ckks_negate_phase hl hq sk ha hna
  rw [hr] at hr'
  obtain rfl := Except.ok.inj hr'
  refine c03k_inv_of_modEq hch hx.lv hx.le hx.scale (by show r.polys.size = rx.size; rw [hsz, hx.size])
    (.of_ctCanon hcr hnr) (fun j => - c03k_phase (chain x.lv) sk x.ct j)
    (fun j hj => hph j (by rw [hn]; exact hj)) (fun j hj => ?_) (fun j hj => ?_) hx.mag0 hx.err0 hf
  · show |((- c03k_phase (chain x.lv) sk x.ct j : Int) : ℚ) - (- rx.val j)| ≤ rx.err
    have e : ((- c03k_phase (chain x.lv) sk x.ct j : Int) : ℚ) - (- rx.val j)
        = - ((c03k_phase (chain x.lv) sk x.ct j : ℚ) - rx.val j) := by push_cast; ring
    rw [e, abs_neg]
    exact hx.close j hj
  · show |- rx.val j| ≤ rx.mag
    rw [abs_neg]; exact hx.mag j hj


theorem c03k_mul_sound {chain : Nat → Level} {top N : Nat} {sk : Array Int} (hch : c03k_ChainOK chain top N)
    {x y v : c03k_Val} {rx ry : c03k_Ref} (hx : c03k_Inv chain top N sk x rx) (hy : c03k_Inv chain top N sk y ry)
    (hop : c03k_opMul chain x y = .ok v) (hf : c03k_fits chain (c03k_refMul N rx ry) = true) :
    c03k_Inv chain top N sk v (c03k_refMul N rx ry) := by
  unfold c03k_opMul at hop
  split at hop
  · cases hop
  rename_i h1
  split at hop
  · cases hop
  rename_i h3
  split at hop
  · cases hop
  have hlv : y.lv = x.lv := (not_not.mp h1).symm
  simp only [Bool.not_eq_true', Bool.and_eq_false_iff, not_or, Bool.not_eq_false] at h3
  obtain ⟨r, hr, rfl⟩ := c03k_liftR_ok hop
  have hl := hch.wf _ hx.le
  have hq := c01q_levelQ_of_toolOK (hch.tool _ hx.le)
  have hn := hch.n _ hx.le
  obtain ⟨ha, hna⟩ := c03k_valid_canon h3.1
  obtain ⟨hb, hnb⟩ := c03k_valid_canon h3.2
  have hyc := hy.close
  rw [hlv] at hyc
  obtain ⟨r', hr', hcr, _, hsz, _, hph⟩ := ckks_multiply_phase hl hq sk ha hb hna hnb (ctMultiplyDyadic_ok_le16 hr)
  rw [hr] at hr'
  obtain rfl := Except.ok.inj hr'
  rw [hn] at hph
  have hN0 : (0 : ℚ) ≤ (N : ℚ) := Nat.cast_nonneg N
  have hpb : ∀ i, i < N → |((c03k_phase (chain x.lv) sk y.ct i : Int) : ℚ)| ≤ ry.mag + ry.err := by
    intro i hi
    have e : ((c03k_phase (chain x.lv) sk y.ct i : Int) : ℚ) = ry.val i + (((c03k_phase (chain x.lv) sk y.ct i : Int) : ℚ) - ry.val i) := by ring
    rw [e]
    exact le_trans (abs_add_le _ _) (add_le_add (hy.mag i hi) (hyc i hi))
  refine c03k_inv_of_modEq hch hx.lv hx.le (by show x.scale * y.scale = rx.scale * ry.scale; rw [hx.scale, hy.scale])
    (by show r.polys.size = rx.size + ry.size - 1; rw [hsz, hx.size, hy.size])
    hcr (fun j => negMulR N (c03k_phase (chain x.lv) sk x.ct) (c03k_phase (chain x.lv) sk y.ct) j)
    (fun j hj => hph j hj) (fun j hj => ?_) (fun j hj => ?_)
    (mul_nonneg hN0 (mul_nonneg hx.mag0 hy.mag0))
    (add_nonneg (mul_nonneg hN0 (mul_nonneg hx.err0 (add_nonneg hy.mag0 hy.err0))) (mul_nonneg hN0 (mul_nonneg hx.mag0 hy.err0))) hf
  · show |((negMulR N (c03k_phase (chain x.lv) sk x.ct) (c03k_phase (chain x.lv) sk y.ct) j : Int) : ℚ) - negMulR N rx.val ry.val j|
      ≤ N * (rx.err * (ry.mag + ry.err)) + N * (rx.mag * ry.err)
    rw [c03k_negMul_castQ, c03k_negMul_diffQ N _ _ _ _ hj]
    refine le_trans (abs_add_le _ _) (add_le_add ?_ ?_)
    · exact c03k_negMul_absQ N _ _ _ _ (fun i hi => hx.close i hi) hpb hx.err0 hj
    · exact c03k_negMul_absQ N _ _ _ _ (fun i hi => hx.mag i hi) (fun i hi => hyc i hi) hx.mag0 hj
  · show |negMulR N rx.val ry.val j| ≤ N * (rx.mag * ry.mag)
    exact c03k_negMul_absQ N _ _ _ _ (fun i hi => hx.mag i hi) (fun i hi => hy.mag i hi) hx.mag0 hj

theorem c03k_mulPlain_sound {chain : Nat → Level} {top N : Nat} {sk : Array Int} (hch : c03k_ChainOK chain top N)
    {x v : c03k_Val} {rx : c03k_Ref} {p : c03k_Plain} {pr : c03k_PlainRef} (hx : c03k_Inv chain top N sk x rx)
    (hp : RnsCanon (chain p.lv) p.poly) (hM : c03k_PlainLift (chain p.lv) p.poly pr.M)
    (hMb : ∀ j, j < N → |((pr.M j : Int) : ℚ)| ≤ pr.bound) (hb0 : 0 ≤ pr.bound)
    (hop : c03k_opMulPlain chain x p = .ok v) (hf : c03k_fits chain (c03k_refMulPlain N rx pr p.scale) = true) :
    c03k_Inv chain top N sk v (c03k_refMulPlain N rx pr p.scale) := by
  unfold c03k_opMulPlain at hop
  split at hop
  · cases hop
  rename_i h1
  split at hop
  · cases hop
  rename_i h3
  split at hop
  · cases hop
  have hlv : p.lv = x.lv := (not_not.mp h1).symm
  rw [hlv] at hp hM
  simp only [Bool.not_eq_true', Bool.not_eq_false] at h3
  obtain ⟨r, hr, rfl⟩ := c03k_liftR_ok hop
  have hl := hch.wf _ hx.le
  have hq := c01q_levelQ_of_toolOK (hch.tool _ hx.le)
  have hn := hch.n _ hx.le
  obtain ⟨ha, hna⟩ := c03k_valid_canon h3
  obtain ⟨r', hr', hcr, hnr, _, hsz, hph⟩ := ckks_multiply_plain_phase hl hq sk ha hna hp hM
  rw [hr] at hr'
  obtain rfl := Except.ok.inj hr'
  rw [hn] at hph
  have hN0 : (0 : ℚ) ≤ (N : ℚ) := Nat.cast_nonneg N
  refine c03k_inv_of_modEq hch hx.lv hx.le (by show x.scale * p.scale = rx.scale * p.scale; rw [hx.scale])
    (by show r.polys.size = rx.size; rw [hsz, hx.size])
    (.of_ctCanon hcr hnr) (fun j => negMulR N (c03k_phase (chain x.lv) sk x.ct) pr.M j)
    (fun j hj => hph j hj) (fun j hj => ?_) (fun j hj => ?_)
    (mul_nonneg hN0 (mul_nonneg hx.mag0 hb0)) (mul_nonneg hN0 (mul_nonneg hx.err0 hb0)) hf
  · show |((negMulR N (c03k_phase (chain x.lv) sk x.ct) pr.M j : Int) : ℚ) - negMulR N rx.val (fun i => (pr.M i : ℚ)) j|
      ≤ N * (rx.err * pr.bound)
    rw [c03k_negMul_castQ, ← c04k_sub_left]
    exact c03k_negMul_absQ N _ _ _ _ (fun i hi => hx.close i hi) hMb hx.err0 hj
  · show |negMulR N rx.val (fun i => (pr.M i : ℚ)) j| ≤ N * (rx.mag * pr.bound)
    exact c03k_negMul_absQ N _ _ _ _ (fun i hi => hx.mag i hi) hMb hx.mag0 hj

theorem c03k_drop_sound {chain : Nat → Level} {top N : Nat} {sk : Array Int} (hch : c03k_ChainOK chain top N)
    {x v : c03k_Val} {rx : c03k_Ref} (hx : c03k_Inv chain top N sk x rx)
    (hop : c03k_opDrop chain x = .ok v) (hf : c03k_fits chain (c03k_refDrop rx) = true) :
    c03k_Inv chain top N sk v (c03k_refDrop rx) := by
  unfold c03k_opDrop at hop
  split at hop
  · cases hop
  rename_i h0
  split at hop
  · cases hop
  obtain ⟨r, hr, rfl⟩ := c03k_liftR_ok hop
  have hle := hx.le
  have e : x.lv - 1 + 1 = x.lv := by omega
  have hnx := hch.next (x.lv - 1) (by omega)
  rw [e] at hnx
  have hl := hch.wf _ hx.le
  have hl' := hch.wf (x.lv - 1) (by omega)
  have hq := c01q_levelQ_of_toolOK (hch.tool _ hx.le)
  have hq' := c01q_levelQ_of_toolOK (hch.tool (x.lv - 1) (by omega))
  have hn := hch.n _ hx.le
  obtain ⟨r', hr', hcr, _, hsz, _, hph⟩ := ckks_mod_switch_drop_phase hl hl' hq hq' hnx sk hx.canon
  rw [hr] at hr'
  obtain rfl := Except.ok.inj hr'
  rw [hn] at hph
  exact c03k_inv_of_modEq hch (v := ⟨x.lv - 1, r, x.scale⟩) (r := c03k_refDrop rx)
    (by show x.lv - 1 = rx.lv - 1; rw [hx.lv]) (by show x.lv - 1 ≤ top; omega) hx.scale
    (by show r.polys.size = rx.size; rw [hsz, hx.size]) hcr (fun j => c03k_phase (chain x.lv) sk x.ct j)
    (fun j hj => hph j hj) (fun j hj => hx.close j hj) (fun j hj => hx.mag j hj) hx.mag0 hx.err0 hf

theorem c03k_abs_natAbs_le {ρ : Int} {B : Nat} (h : 2 * ρ.natAbs ≤ B) : |((ρ : Int) : ℚ)| ≤ (B : ℚ) / 2 := by
  have h1 : ((2 * ρ.natAbs : Nat) : ℚ) ≤ (B : ℚ) := by exact_mod_cast h
  push_cast at h1
  rw [Nat.cast_natAbs, Int.cast_abs] at h1
  linarith

theorem c03k_rescale_sound {chain : Nat → Level} {top N : Nat} {sk : Array Int} (hch : c03k_ChainOK chain top N)
    {x v : c03k_Val} {rx : c03k_Ref} (hx : c03k_Inv chain top N sk x rx)
    (hop : c03k_opRescale chain x = .ok v) (hf : c03k_fits chain (c03k_refRescale chain (c03k_skL1 N sk) rx) = true) :
    c03k_Inv chain top N sk v (c03k_refRescale chain (c03k_skL1 N sk) rx) := by
  unfold c03k_opRescale at hop
  split at hop
  · cases hop
  rename_i h0
  split at hop
  · cases hop
  obtain ⟨r, hr, rfl⟩ := c03k_liftR_ok hop
  have hle := hx.le
  have e : x.lv - 1 + 1 = x.lv := by omega
  have hnx := hch.next (x.lv - 1) (by omega)
  rw [e] at hnx
  have hl := hch.wf _ hx.le
  have hl' := hch.wf (x.lv - 1) (by omega)
  have ht := hch.tool _ hx.le
  have hq := c01q_levelQ_of_toolOK ht
  have hq' := c01q_levelQ_of_toolOK (hch.tool (x.lv - 1) (by omega))
  have hn := hch.n _ hx.le
  obtain ⟨r', hr', hcr, _, hsz, hQ, hph, hbd⟩ := ckks_rescale_phase hl hl' ht hq' hnx (hch.ckks _ hx.le) sk hx.canon
  rw [hr] at hr'
  obtain rfl := Except.ok.inj hr'
  rw [hn] at hph hbd
  have h2 : 2 ≤ (chain x.lv).size := by
    have h1 := hnx.size; have h3 := hq'.bwf.pos; rw [hq'.size_eq] at h3; omega
  have hqLwf := (c01o_level_comp hl (show (chain x.lv).size - 1 < (chain x.lv).size by omega)).2.2.2
  have hqLn : 0 < c03k_qL (chain x.lv) := by have := hqLwf.two_le; unfold c03k_qL; omega
  have hqL : (0 : ℚ) < (c03k_qL (chain x.lv) : ℚ) := by exact_mod_cast hqLn
  have hfq := c03k_fits_q hf
  have hlv' : (c03k_refRescale chain (c03k_skL1 N sk) rx).lv = x.lv - 1 := by show rx.lv - 1 = x.lv - 1; rw [hx.lv]
  rw [hlv'] at hfq
  have hrlv : rx.lv = x.lv := hx.lv.symm
  -- abbreviations
  generalize hS : ((∑ k ∈ range rx.size, (c03k_skL1 N sk) ^ k : Nat) : ℚ) = S at hfq
  have hfq' : 2 * (rx.mag / (c03k_qL (chain x.lv) : ℚ)
      + (rx.err + (c03k_qL (chain x.lv) : ℚ) * S / 2) / (c03k_qL (chain x.lv) : ℚ)) < (c03k_Q (chain (x.lv - 1)) : ℚ) := by
    have := hfq
    simp only [c03k_refRescale, hrlv, hS] at this
    exact this
  have hQq : (c03k_Q (chain x.lv) : ℚ) = (c03k_Q (chain (x.lv - 1)) : ℚ) * (c03k_qL (chain x.lv) : ℚ) := by
    rw [hQ]; push_cast; ring
  have hfits : 2 * (rx.mag + (rx.err + (c03k_qL (chain x.lv) : ℚ) * S / 2)) < (c03k_Q (chain x.lv) : ℚ) := by
    rw [hQq]
    have := mul_lt_mul_of_pos_right hfq' hqL
    have e2 : 2 * (rx.mag / (c03k_qL (chain x.lv) : ℚ)
      + (rx.err + (c03k_qL (chain x.lv) : ℚ) * S / 2) / (c03k_qL (chain x.lv) : ℚ)) * (c03k_qL (chain x.lv) : ℚ)
        = 2 * (rx.mag + (rx.err + (c03k_qL (chain x.lv) : ℚ) * S / 2)) := by
      field_simp
    rw [e2] at this
    exact this
  have hrho : ∀ j, j < N → |((c03k_rescaleErr (chain x.lv) sk x.ct j : Int) : ℚ)| ≤ (c03k_qL (chain x.lv) : ℚ) * S / 2 := by
    intro j hj
    have := c03k_abs_natAbs_le (hbd j hj)
    rw [hx.size] at this
    push_cast at this
    rw [← hS]
    push_cast
    exact this
  have hexact : ∀ j, j < N → (c03k_qL (chain x.lv) : Int) * c03k_phase (chain (x.lv - 1)) sk r j
      = c03k_phase (chain x.lv) sk x.ct j + c03k_rescaleErr (chain x.lv) sk x.ct j := by
    intro j hj
    have hcen := c03k_phase_centred hq' sk hcr (j := j) (by rw [hch.n _ (show x.lv - 1 ≤ top by omega)]; exact hj)
    have hQz : (c03k_Q (chain x.lv) : Int) = (c03k_Q (chain (x.lv - 1)) : Int) * (c03k_qL (chain x.lv) : Int) := by
      rw [hQ]; push_cast; ring
    have hqLz : (0 : Int) < (c03k_qL (chain x.lv) : Int) := by exact_mod_cast hqLn
    refine c03k_exact_of_close (v := rx.val j) (m := rx.mag) (e := rx.err + (c03k_qL (chain x.lv) : ℚ) * S / 2)
      (hph j hj) ?_ ?_ (hx.mag j hj) hfits
    · rw [hQz]
      constructor <;> nlinarith [hcen.1, hcen.2, hqLz]
    · have e3 : ((c03k_phase (chain x.lv) sk x.ct j + c03k_rescaleErr (chain x.lv) sk x.ct j : Int) : ℚ) - rx.val j
          = (((c03k_phase (chain x.lv) sk x.ct j : Int) : ℚ) - rx.val j) + ((c03k_rescaleErr (chain x.lv) sk x.ct j : Int) : ℚ) := by
        push_cast; ring
      rw [e3]
      exact le_trans (abs_add_le _ _) (add_le_add (hx.close j hj) (hrho j hj))
  have hSnn : (0 : ℚ) ≤ S := by rw [← hS]; exact Nat.cast_nonneg _
  refine ⟨by show x.lv - 1 = rx.lv - 1; rw [hx.lv], by show x.lv - 1 ≤ top; omega,
    by show x.scale / _ = rx.scale / (c03k_qL (chain rx.lv) : ℚ); rw [hx.scale, hrlv],
    by show r.polys.size = rx.size; rw [hsz, hx.size], hcr, fun j hj => ?_, fun j hj => ?_, ?_, ?_, hf⟩
  · show |((c03k_phase (chain (x.lv - 1)) sk r j : Int) : ℚ) - rx.val j / (c03k_qL (chain rx.lv) : ℚ)|
      ≤ (rx.err + (c03k_qL (chain rx.lv) : ℚ) * ((∑ k ∈ range rx.size, (c03k_skL1 N sk) ^ k : Nat) : ℚ) / 2) / (c03k_qL (chain rx.lv) : ℚ)
    rw [hrlv, hS]
    have h1 : ((c03k_phase (chain (x.lv - 1)) sk r j : Int) : ℚ)
        = (((c03k_phase (chain x.lv) sk x.ct j : Int) : ℚ) + ((c03k_rescaleErr (chain x.lv) sk x.ct j : Int) : ℚ))
          / (c03k_qL (chain x.lv) : ℚ) := by
      have := congrArg (fun z : Int => (z : ℚ)) (hexact j hj)
      beta_reduce at this
      push_cast at this
      rw [← this]
      field_simp
    rw [h1, ← sub_div, abs_div, abs_of_pos hqL]
    apply div_le_div_of_nonneg_right _ (le_of_lt hqL)
    have e3 : ((c03k_phase (chain x.lv) sk x.ct j : Int) : ℚ) + ((c03k_rescaleErr (chain x.lv) sk x.ct j : Int) : ℚ) - rx.val j
        = (((c03k_phase (chain x.lv) sk x.ct j : Int) : ℚ) - rx.val j) + ((c03k_rescaleErr (chain x.lv) sk x.ct j : Int) : ℚ) := by ring
    rw [e3]
    exact le_trans (abs_add_le _ _) (add_le_add (hx.close j hj) (hrho j hj))
  · show |rx.val j / (c03k_qL (chain rx.lv) : ℚ)| ≤ rx.mag / (c03k_qL (chain rx.lv) : ℚ)
    rw [hrlv, abs_div, abs_of_pos hqL]
    exact div_le_div_of_nonneg_right (hx.mag j hj) (le_of_lt hqL)
  · show 0 ≤ rx.mag / (c03k_qL (chain rx.lv) : ℚ)
    rw [hrlv]; exact div_nonneg hx.mag0 (le_of_lt hqL)
  · show 0 ≤ (rx.err + (c03k_qL (chain rx.lv) : ℚ) * ((∑ k ∈ range rx.size, (c03k_skL1 N sk) ^ k : Nat) : ℚ) / 2) / (c03k_qL (chain rx.lv) : ℚ)
    rw [hrlv, hS]
    exact div_nonneg (add_nonneg hx.err0 (div_nonneg (mul_nonneg (le_of_lt hqL) hSnn) (by norm_num))) (le_of_lt hqL)

/-- hypotheses for programs that relinearise: the key level `kl` contains every level of the chain (same moduli, degree, tables),
    `keys 2 = some key` is a two-component key whose rows are canonical etc. (`c04t_KSInput` for every canonical size-3 ciphertext),
    the KEY EQUATION for s² → s holds at every level with errors e_i, ‖e_i‖∞ ≤ Be, the level moduli are ≤ A, and `Bnu lv` dominates
    the noise bound (dsz·A·N·Be + ⌊P/2⌋(1 + ‖s‖₁))/P of `switchKey_noise_bound` -/
structure c03k_RelinOK (chain : Nat → Level) (top N : Nat) (sk : Array Int) (kl : KeyLevel) (keys : Nat → Option KSKey)
    (key : KSKey) (e : Nat → Nat → Int) (G : Nat → Nat → Int) (A Be : Nat) (Bnu : Nat → ℚ) : Prop where
  of : ∀ lv, lv ≤ top → c03k_KeyLevelOf kl (chain lv)
  key2 : keys 2 = some key
  kcc : (key.getD 0 #[]).size = 2
  ksin : ∀ lv, lv ≤ top → ∀ ct : Ct, CtCanon (chain lv) ct → ct.polys.size = 3 →
    c04t_KSInput kl (chain lv).size ct (ct.polys.getD 2 #[]) key
  keyEq : ∀ lv, lv ≤ top → c04k_KeyEq kl (chain lv).size key (c03k_skf sk)
    (fun p => negMulR kl.n (c03k_skf sk) (c03k_skf sk) p) e (G lv)
  hA : ∀ lv, lv ≤ top → ∀ i, i < (chain lv).size → (kl.m i).value ≤ A
  he : ∀ lv, lv ≤ top → ∀ i, i < (chain lv).size → ∀ p, p < kl.n → (e i p).natAbs ≤ Be
  hB : ∀ lv, lv ≤ top →
    ((((chain lv).size * (A * (kl.n * Be)) + kl.c04t_P / 2 * (1 + c03k_skL1 kl.n sk) : Nat) : ℚ)) / (kl.c04t_P : ℚ) ≤ Bnu lv

theorem c03k_relin_sound {chain : Nat → Level} {top N : Nat} {sk : Array Int} (hch : c03k_ChainOK chain top N)
    {kl : KeyLevel} {keys : Nat → Option KSKey} {key : KSKey} {e : Nat → Nat → Int} {G : Nat → Nat → Int} {A Be : Nat}
    {Bnu : Nat → ℚ} (hrel : c03k_RelinOK chain top N sk kl keys key e G A Be Bnu)
    {x v : c03k_Val} {rx : c03k_Ref} (hx : c03k_Inv chain top N sk x rx)
    (hop : c03k_opRelin chain kl keys x = .ok v) (hf : c03k_fits chain (c03k_refRelin Bnu rx) = true) :
    c03k_Inv chain top N sk v (c03k_refRelin Bnu rx) := by
  unfold c03k_opRelin at hop
  split at hop
  · cases hop
  rename_i h3
  split at hop
  · cases hop
  rename_i hs3
  simp only [Bool.not_eq_true', Bool.not_eq_false] at h3
  have hsz3 : x.ct.polys.size = 3 := not_not.mp hs3
  obtain ⟨r, hr, rfl⟩ := c03k_liftR_ok hop
  have hl := hch.wf _ hx.le
  have hq := c01q_levelQ_of_toolOK (hch.tool _ hx.le)
  have hn := hch.n _ hx.le
  have hlo := hrel.of _ hx.le
  obtain ⟨ha, hna⟩ := c03k_valid_canon h3
  have hks := hrel.ksin _ hx.le x.ct ha hsz3
  have hke := hrel.keyEq _ hx.le
  obtain ⟨r', hr', hcr, hnr, _, hsz, hph⟩ := ckks_relinearize_phase hl hq hlo sk ha hna hsz3 keys 1 hrel.key2 hks hrel.kcc hke
  rw [hr] at hr'
  obtain rfl := Except.ok.inj hr'
  rw [hn] at hph
  have hkn : kl.n = N := by rw [← hlo.n, hn]
  have hnoise := ckks_relinearize_noise sk hks hna hke (hrel.hA _ hx.le) (hrel.he _ hx.le)
  have hP2 := (c04t_kl_comp hks.hkl (show kl.ms.size - 1 < kl.ms.size by have := hks.hsz; omega)).2.2.2.two_le
  have hP : (0 : ℚ) < (kl.c04t_P : ℚ) := by
    have : 0 < kl.c04t_P := by unfold KeyLevel.c04t_P; omega
    exact_mod_cast this
  have hnu : ∀ j, j < N → |((c04k_nuStd kl (chain x.lv).size true (x.ct.polys.getD 2 #[]) key e (c03k_skf sk) j : Int) : ℚ)|
      ≤ Bnu x.lv := by
    intro j hj
    refine le_trans ?_ (hrel.hB _ hx.le)
    rw [le_div_iff₀ hP, ← Int.cast_abs, ← Nat.cast_natAbs]
    have := hnoise j (by rw [hkn]; exact hj)
    have e1 : (∑ p ∈ range kl.n, (c03k_skf sk p).natAbs) = c03k_skL1 kl.n sk := rfl
    rw [e1] at this
    exact_mod_cast this
  have hrlv : rx.lv = x.lv := hx.lv.symm
  have hB0 : 0 ≤ Bnu x.lv := by
    refine le_trans ?_ (hrel.hB _ hx.le)
    exact div_nonneg (Nat.cast_nonneg _) (le_of_lt hP)
  refine c03k_inv_of_modEq hch hx.lv hx.le hx.scale (by show r.polys.size = 2; exact hsz) (.of_ctCanon hcr hnr)
    (fun j => c03k_phase (chain x.lv) sk x.ct j
      + c04k_nuStd kl (chain x.lv).size true (x.ct.polys.getD 2 #[]) key e (c03k_skf sk) j)
    (fun j hj => hph j hj) (fun j hj => ?_) (fun j hj => hx.mag j hj) hx.mag0
    (by show 0 ≤ rx.err + Bnu rx.lv; rw [hrlv]; exact add_nonneg hx.err0 hB0) hf
  show |((c03k_phase (chain x.lv) sk x.ct j
      + c04k_nuStd kl (chain x.lv).size true (x.ct.polys.getD 2 #[]) key e (c03k_skf sk) j : Int) : ℚ) - rx.val j| ≤ rx.err + Bnu rx.lv
  have e3 : ((c03k_phase (chain x.lv) sk x.ct j
      + c04k_nuStd kl (chain x.lv).size true (x.ct.polys.getD 2 #[]) key e (c03k_skf sk) j : Int) : ℚ) - rx.val j
      = (((c03k_phase (chain x.lv) sk x.ct j : Int) : ℚ) - rx.val j)
        + ((c04k_nuStd kl (chain x.lv).size true (x.ct.polys.getD 2 #[]) key e (c03k_skf sk) j : Int) : ℚ) := by
    push_cast; ring
  rw [e3, hrlv]
  exact le_trans (abs_add_le _ _) (add_le_add (hx.close j hj) (hnu j hj))

theorem c03k_obind {α β : Type} {x : Option α} {f : α → Option β} {b : β} (h : (x >>= f) = some b) :
    ∃ a, x = some a ∧ f a = some b := by
  cases x with
  | none => cases h
  | some a => exact ⟨a, rfl, h⟩

/-- the environment: every input ciphertext satisfies the invariant against its reference (level, scale, size, canonical,
    |phase − reference| ≤ noise, |reference| ≤ magnitude, the interval fits); every plaintext is canonical at its level, its
    reference polynomial is an integer lift (`c03k_PlainLift`) bounded by `bound` -/
structure c03k_EnvOK (chain : Nat → Level) (top N : Nat) (sk : Array Int) (cts : Array c03k_Val) (refIn : Nat → c03k_Ref)
    (pls : Array c03k_Plain) (plRef : Nat → c03k_PlainRef) : Prop where
  inputs : ∀ (i : Nat) (v : c03k_Val), cts[i]? = some v → c03k_Inv chain top N sk v (refIn i)
  plainCanon : ∀ (i : Nat) (q : c03k_Plain), pls[i]? = some q → RnsCanon (chain q.lv) q.poly
  plainLift : ∀ (i : Nat) (q : c03k_Plain), pls[i]? = some q → c03k_PlainLift (chain q.lv) q.poly (plRef i).M
  plainBound : ∀ i j, j < N → |(((plRef i).M j : Int) : ℚ)| ≤ (plRef i).bound
  plainBound0 : ∀ i, 0 ≤ (plRef i).bound

/-- K2 (invariant form): if the MODEL evaluation of a program succeeds and the reference evaluation (interval arithmetic) is defined,
    the model's result satisfies the invariant against the reference result -/
theorem ckks_program_inv {chain : Nat → Level} {top N : Nat} {sk : Array Int} (hch : c03k_ChainOK chain top N)
    {cts : Array c03k_Val} {refIn : Nat → c03k_Ref} {pls : Array c03k_Plain} {plRef : Nat → c03k_PlainRef}
    (henv : c03k_EnvOK chain top N sk cts refIn pls plRef)
    {kl : KeyLevel} {keys : Nat → Option KSKey} {key : KSKey} {e : Nat → Nat → Int} {G : Nat → Nat → Int} {A Be : Nat}
    {Bnu : Nat → ℚ} (prog : c03k_Prog)
    (hrel : prog.hasRelin = true → c03k_RelinOK chain top N sk kl keys key e G A Be Bnu) {v : c03k_Val} {r : c03k_Ref}
    (hrun : c03k_run chain cts pls kl keys prog = .ok v)
    (href : c03k_ref chain N (c03k_skL1 N sk) refIn pls plRef Bnu prog = some r) :
    c03k_Inv chain top N sk v r := by
  induction prog generalizing v r with
  | relin a iha =>
    rw [c03k_run] at hrun
    rw [c03k_ref] at href
    obtain ⟨x, hx, h1⟩ := c01p_bind_ok hrun
    obtain ⟨rx, hrx, g1⟩ := c03k_obind href
    obtain ⟨rfl, hf⟩ := c03k_guard_some g1
    exact c03k_relin_sound hch (hrel rfl) (iha (fun _ => hrel rfl) hx hrx) h1 hf
  | input i =>
    rw [c03k_run] at hrun
    rw [c03k_ref] at href
    obtain rfl := Option.some.inj href
    cases hc : cts[i]? with
    | none => rw [hc] at hrun; cases hrun
    | some w =>
      rw [hc] at hrun
      obtain rfl := Except.ok.inj hrun
      exact henv.inputs i w hc
  | add a b iha ihb =>
    rw [c03k_run] at hrun
    rw [c03k_ref] at href
    obtain ⟨x, hx, h1⟩ := c01p_bind_ok hrun
    obtain ⟨y, hy, h2⟩ := c01p_bind_ok h1
    obtain ⟨rx, hrx, g1⟩ := c03k_obind href
    obtain ⟨ry, hry, g2⟩ := c03k_obind g1
    obtain ⟨rfl, hf⟩ := c03k_guard_some g2
    exact c03k_translate_sound hch false (iha (fun h => hrel (by simp [c03k_Prog.hasRelin, h])) hx hrx) (ihb (fun h => hrel (by simp [c03k_Prog.hasRelin, h])) hy hry) h2 hf
  | sub a b iha ihb =>
    rw [c03k_run] at hrun
    rw [c03k_ref] at href
    obtain ⟨x, hx, h1⟩ := c01p_bind_ok hrun
    obtain ⟨y, hy, h2⟩ := c01p_bind_ok h1
    obtain ⟨rx, hrx, g1⟩ := c03k_obind href
    obtain ⟨ry, hry, g2⟩ := c03k_obind g1
    obtain ⟨rfl, hf⟩ := c03k_guard_some g2
    exact c03k_translate_sound hch true (iha (fun h => hrel (by simp [c03k_Prog.hasRelin, h])) hx hrx) (ihb (fun h => hrel (by simp [c03k_Prog.hasRelin, h])) hy hry) h2 hf
  | neg a iha =>
    rw [c03k_run] at hrun
    rw [c03k_ref] at href
    obtain ⟨x, hx, h1⟩ := c01p_bind_ok hrun
    obtain ⟨rx, hrx, g1⟩ := c03k_obind href
    obtain ⟨rfl, hf⟩ := c03k_guard_some g1
    exact c03k_neg_sound hch (iha (fun h => hrel (by simp [c03k_Prog.hasRelin, h])) hx hrx) h1 hf
  | mul a b iha ihb =>
    rw [c03k_run] at hrun
    rw [c03k_ref] at href
    obtain ⟨x, hx, h1⟩ := c01p_bind_ok hrun
    obtain ⟨y, hy, h2⟩ := c01p_bind_ok h1
    obtain ⟨rx, hrx, g1⟩ := c03k_obind href
    obtain ⟨ry, hry, g2⟩ := c03k_obind g1
    obtain ⟨rfl, hf⟩ := c03k_guard_some g2
    exact c03k_mul_sound hch (iha (fun h => hrel (by simp [c03k_Prog.hasRelin, h])) hx hrx) (ihb (fun h => hrel (by simp [c03k_Prog.hasRelin, h])) hy hry) h2 hf
  | mulPlain a p iha =>
    rw [c03k_run] at hrun
    rw [c03k_ref] at href
    obtain ⟨x, hx, h1⟩ := c01p_bind_ok hrun
    obtain ⟨rx, hrx, g1⟩ := c03k_obind href
    cases hc : pls[p]? with
    | none => rw [hc] at h1; cases h1
    | some q =>
      rw [hc] at h1 g1
      obtain ⟨rfl, hf⟩ := c03k_guard_some g1
      exact c03k_mulPlain_sound hch (iha (fun h => hrel (by simp [c03k_Prog.hasRelin, h])) hx hrx) (henv.plainCanon p q hc) (henv.plainLift p q hc) (henv.plainBound p)
        (henv.plainBound0 p) h1 hf
  | rescale a iha =>
    rw [c03k_run] at hrun
    rw [c03k_ref] at href
    obtain ⟨x, hx, h1⟩ := c01p_bind_ok hrun
    obtain ⟨rx, hrx, g1⟩ := c03k_obind href
    obtain ⟨rfl, hf⟩ := c03k_guard_some g1
    exact c03k_rescale_sound hch (iha (fun h => hrel (by simp [c03k_Prog.hasRelin, h])) hx hrx) h1 hf
  | drop a iha =>
    rw [c03k_run] at hrun
    rw [c03k_ref] at href
    obtain ⟨x, hx, h1⟩ := c01p_bind_ok hrun
    obtain ⟨rx, hrx, g1⟩ := c03k_obind href
    obtain ⟨rfl, hf⟩ := c03k_guard_some g1
    exact c03k_drop_sound hch (iha (fun h => hrel (by simp [c03k_Prog.hasRelin, h])) hx hrx) h1 hf

/-- K2: the integer-level statement of C03's first sentence.  For every program over add, sub, negate, multiply, multiply_plain,
    rescale, mod-switch, relinearize (the key-switching hypotheses `c03k_RelinOK` are needed only if the program relinearises): if the MODEL evaluation succeeds with value `v` and the reference evaluation yields `r`, then the result is
    at the level the reference predicts, its recorded scale is EXACTLY the reference scale (products for multiplications, quotients
    by the dropped primes for rescalings), it has the predicted number of polynomials, and every coefficient of its exact phase is
    within the computed worst-case bound `r.err` of the reference polynomial `r.val` (itself bounded by `r.mag`) -/
theorem ckks_program_sound {chain : Nat → Level} {top N : Nat} {sk : Array Int} (hch : c03k_ChainOK chain top N)
    {cts : Array c03k_Val} {refIn : Nat → c03k_Ref} {pls : Array c03k_Plain} {plRef : Nat → c03k_PlainRef}
    (henv : c03k_EnvOK chain top N sk cts refIn pls plRef)
    {kl : KeyLevel} {keys : Nat → Option KSKey} {key : KSKey} {e : Nat → Nat → Int} {G : Nat → Nat → Int} {A Be : Nat}
    {Bnu : Nat → ℚ} (prog : c03k_Prog)
    (hrel : prog.hasRelin = true → c03k_RelinOK chain top N sk kl keys key e G A Be Bnu) {v : c03k_Val} {r : c03k_Ref}
    (hrun : c03k_run chain cts pls kl keys prog = .ok v)
    (href : c03k_ref chain N (c03k_skL1 N sk) refIn pls plRef Bnu prog = some r) :
    v.lv = r.lv ∧ v.scale = r.scale ∧ v.ct.polys.size = r.size ∧ c03k_Canon (chain v.lv) v.ct ∧
      ∀ j, j < N → |((c03k_phase (chain v.lv) sk v.ct j : Int) : ℚ) - r.val j| ≤ r.err ∧ |r.val j| ≤ r.mag := by
  have h := ckks_program_inv hch henv prog hrel hrun href
  exact ⟨h.lv, h.scale, h.size, h.canon, fun j hj => ⟨h.close j hj, h.mag j hj⟩⟩

/-! ### K3: refusals.  The model's ciphertext operations take ONE level `l` for all operands, so "operands on different levels"
     cannot even be expressed at the model level; at the program level the level indices are compared (`match_parms_id`). -/

/-- operands in different representations are refused by add / sub -/
theorem ckks_add_refuses_repr (l : Level) (a b : Ct) (sub : Bool) (h : a.ntt ≠ b.ntt) :
    ctTranslate l a b sub = .error .refused := ctTranslate_refuse_ntt l a b sub h

/-- multiply refuses coefficient-form operands -/
theorem ckks_multiply_refuses_coeff (l : Level) (a b : Ct) (h : a.ntt = false ∨ b.ntt = false) :
    ctMultiplyDyadic l a b = .error .refused := ctMultiplyDyadic_refuse l a b h

/-- multiply_plain refuses a coefficient-form ciphertext -/
theorem ckks_multiply_plain_refuses_coeff (l : Level) (a : Ct) (p : RnsPoly) (h : a.ntt = false) :
    ctMultiplyPlainNtt l a p = .error .refused := ctMultiplyPlainNtt_refuse l a p h

/-- rescale / mod-switch refuse on the last level and (CKKS) on coefficient-form input -/
theorem ckks_rescale_refusals {l : Level} (ct : Ct) :
    (l.size < 2 → modSwitchScaleNext l ct = .error .refused) ∧
    (l.scheme = .ckks → ct.ntt = false → modSwitchScaleNext l ct = .error .refused) ∧
    (l.size < 2 → modSwitchDropNext l ct = .error .refused) ∧
    (l.scheme = .ckks → ct.ntt = false → modSwitchDropNext l ct = .error .refused) :=
  ⟨(modSwitchScaleNext_refusals ct).1, (modSwitchScaleNext_refusals ct).2.2.1, (modSwitchDropNext_refusals ct).1,
    (modSwitchDropNext_refusals ct).2⟩

/-- the model's float scale predicate: refusal exactly when scale ≤ 0 or scale ≥ 2^bits (IEEE comparisons) -/
theorem ckks_scaleOk_false_iff (scale : Float) (totalBits : Nat) :
    ckksScaleOk scale totalBits = false ↔
      (scale ≤ 0.0 ∨ ¬ scale < Float.ofScientific 1 false 0 * (Float.ofNat 2) ^ (Float.ofNat totalBits)) := by
  unfold ckksScaleOk
  simp only [Bool.and_eq_false_iff, Bool.not_eq_false', decide_eq_true_eq, decide_eq_false_iff_not]

theorem c03k_scaleOk_iff (s : ℚ) (bits : Nat) : c03k_scaleOk s bits = true ↔ 0 < s ∧ s < 2 ^ bits := by
  unfold c03k_scaleOk
  exact decide_eq_true_iff

/-- program level: operands on different levels are refused by add / sub / multiply / multiply_plain -/
theorem ckks_prog_refuses_levels (chain : Nat → Level) (x y : c03k_Val) (p : c03k_Plain) :
    (x.lv ≠ y.lv → ∀ sub, c03k_opTranslate chain sub x y = .error .refused) ∧
    (x.lv ≠ y.lv → c03k_opMul chain x y = .error .refused) ∧
    (x.lv ≠ p.lv → c03k_opMulPlain chain x p = .error .refused) := by
  refine ⟨fun h sub => ?_, fun h => ?_, fun h => ?_⟩
  · unfold c03k_opTranslate; rw [if_pos h]
  · unfold c03k_opMul; rw [if_pos h]
  · unfold c03k_opMulPlain; rw [if_pos h]

/-- program level: disagreeing scales are refused by add / sub -/
theorem ckks_prog_refuses_scale_mismatch (chain : Nat → Level) (sub : Bool) (x y : c03k_Val) (h : x.scale ≠ y.scale) :
    c03k_opTranslate chain sub x y = .error .refused := by
  unfold c03k_opTranslate
  by_cases h1 : x.lv ≠ y.lv
  · rw [if_pos h1]
  · rw [if_neg h1, if_pos h]

/-- program level: a product scale out of bounds (not 0 < s·s' < 2^bits(Q)) is refused by multiply / multiply_plain -/
theorem ckks_prog_refuses_oversize_scale (chain : Nat → Level) (x y : c03k_Val) (p : c03k_Plain) :
    (c03k_scaleOk (x.scale * y.scale) (bitCount (c03k_Q (chain x.lv))) = false → c03k_opMul chain x y = .error .refused) ∧
    (c03k_scaleOk (x.scale * p.scale) (bitCount (c03k_Q (chain x.lv))) = false →
      c03k_opMulPlain chain x p = .error .refused) := by
  refine ⟨fun h => ?_, fun h => ?_⟩
  · unfold c03k_opMul
    split
    · rfl
    · split
      · rfl
      · rw [if_pos (by rw [h]; rfl)]
  · unfold c03k_opMulPlain
    split
    · rfl
    · split
      · rfl
      · rw [if_pos (by rw [h]; rfl)]

/-- program level: invalid operands (`ctValid` false, empty, or coefficient form) are refused by every operation -/
theorem ckks_prog_refuses_invalid (chain : Nat → Level) (x : c03k_Val) (h : c03k_valid (chain x.lv) x.ct = false) :
    c03k_opNeg chain x = .error .refused ∧ (∀ y sub, c03k_opTranslate chain sub x y = .error .refused) ∧
    (∀ y, c03k_opMul chain x y = .error .refused) ∧ (∀ p, c03k_opMulPlain chain x p = .error .refused) ∧
    c03k_opRescale chain x = .error .refused ∧ c03k_opDrop chain x = .error .refused := by
  refine ⟨?_, fun y sub => ?_, fun y => ?_, fun p => ?_, ?_, ?_⟩
  · unfold c03k_opNeg; rw [if_pos (by rw [h]; rfl)]
  · unfold c03k_opTranslate
    split
    · rfl
    · split
      · rfl
      · rw [if_pos (by rw [h]; rfl)]
  · unfold c03k_opMul
    split
    · rfl
    · rw [if_pos (by rw [h]; rfl)]
  · unfold c03k_opMulPlain
    split
    · rfl
    · rw [if_pos (by rw [h]; rfl)]
  · unfold c03k_opRescale
    split
    · rfl
    · rw [if_pos (by rw [h]; rfl)]
  · unfold c03k_opDrop
    split
    · rfl
    · rw [if_pos (by rw [h]; rfl)]

/-- program level: relinearisation refuses invalid operands and sizes other than 3 -/
theorem ckks_prog_relin_refusals (chain : Nat → Level) (kl : KeyLevel) (keys : Nat → Option KSKey) (x : c03k_Val) :
    (c03k_valid (chain x.lv) x.ct = false → c03k_opRelin chain kl keys x = .error .refused) ∧
    (x.ct.polys.size ≠ 3 → c03k_opRelin chain kl keys x = .error .refused) := by
  refine ⟨fun h => ?_, fun h => ?_⟩
  · unfold c03k_opRelin; rw [if_pos (by rw [h]; rfl)]
  · unfold c03k_opRelin
    by_cases h1 : (!(c03k_valid (chain x.lv) x.ct)) = true
    · rw [if_pos h1]
    · rw [if_neg h1, if_pos h]

/-- program level: rescale / mod-switch below level 0 are refused -/
theorem ckks_prog_refuses_last_level (chain : Nat → Level) (x : c03k_Val) (h : x.lv = 0) :
    c03k_opRescale chain x = .error .refused ∧ c03k_opDrop chain x = .error .refused := by
  constructor
  · unfold c03k_opRescale; rw [if_pos h]
  · unfold c03k_opDrop; rw [if_pos h]

/-! ### non-vacuity: a concrete two-level CKKS chain built by the driver's constructor (N = 4, q = {97, 113}), a size-2 input with
     non-trivial phase, and the program `rescale (mul x x)`: all hypothesis bundles hold, the model evaluation succeeds and the
     reference evaluation is defined -/

@[instance_reducible] def c03k_decModulus : DecidableEq Modulus := fun a b =>
  decidable_of_iff (a.value = b.value ∧ a.cr0 = b.cr0 ∧ a.cr1 = b.cr1 ∧ a.cr2 = b.cr2 ∧ a.bits = b.bits)
    (by cases a; cases b; simp)
@[instance_reducible] def c03k_decMulOperand : DecidableEq MulOperand := fun a b =>
  decidable_of_iff (a.operand = b.operand ∧ a.quotient = b.quotient) (by cases a; cases b; simp)
attribute [local instance] c03k_decModulus c03k_decMulOperand
@[instance_reducible] def c03k_decNTTTables : DecidableEq NTTTables := fun a b =>
  decidable_of_iff (a.k = b.k ∧ a.modulus = b.modulus ∧ a.root = b.root ∧ a.rootPowers = b.rootPowers ∧
      a.invRootPowers = b.invRootPowers ∧ a.invDegree = b.invDegree) (by cases a; cases b; simp)
@[instance_reducible] def c03k_decRnsCanon (l : Level) (p : RnsPoly) : Decidable (RnsCanon l p) :=
  inferInstanceAs (Decidable (p.size = l.size ∧ ∀ i, i < l.size → (p.getD i #[]).size = l.n ∧
    ∀ j, j < l.n → (p.getD i #[]).getD j 0 < (l.q i).value))
attribute [local instance] c03k_decNTTTables c03k_decRnsCanon

def c03k_exL1 : Level := (Drv.Sch.mkLevel .ckks 4 [97, 113] 0).toOption.getD default
def c03k_exL0 : Level := (Drv.Sch.mkLevel .ckks 4 [97] 0).toOption.getD default

theorem c03k_exL1_ok : Drv.Sch.mkLevel .ckks 4 [97, 113] 0 = .ok c03k_exL1 := by
  have h : (Drv.Sch.mkLevel .ckks 4 [97, 113] 0).toOption.isSome = true := by decide +kernel
  unfold c03k_exL1
  cases hl : Drv.Sch.mkLevel .ckks 4 [97, 113] 0 with
  | error e => rw [hl] at h; cases h
  | ok l => rfl

theorem c03k_exL0_ok : Drv.Sch.mkLevel .ckks 4 [97] 0 = .ok c03k_exL0 := by
  have h : (Drv.Sch.mkLevel .ckks 4 [97] 0).toOption.isSome = true := by decide +kernel
  unfold c03k_exL0
  cases hl : Drv.Sch.mkLevel .ckks 4 [97] 0 with
  | error e => rw [hl] at h; cases h
  | ok l => rfl

/-- `c03k_Next` holds between the two levels the driver builds for {97, 113} and {97} -/
theorem c03k_exNext : c03k_Next c03k_exL1 c03k_exL0 :=
  ⟨⟨by decide +kernel, by decide +kernel, by decide +kernel⟩, by decide +kernel⟩

def c03k_exChain : Nat → Level := fun c => if c = 0 then c03k_exL0 else c03k_exL1

/-- `c03k_ChainOK` is satisfiable (all parts except the concrete `Next` come from `mkLevel_ok`, i.e. from the model's constructors) -/
theorem c03k_exChainOK : c03k_ChainOK c03k_exChain 1 4 := by
  obtain ⟨a1, _, a3, _, a5, a6, _⟩ := mkLevel_ok c03k_exL1_ok
  obtain ⟨b1, _, b3, _, b5, b6, _⟩ := mkLevel_ok c03k_exL0_ok
  have h01 : ∀ c, c ≤ 1 → c = 0 ∨ c = 1 := fun c hc => by omega
  refine ⟨fun c hc => ?_, fun c hc => ?_, fun c hc => ?_, fun c hc => ?_, fun c hc => ?_⟩
  · rcases h01 c hc with rfl | rfl
    · exact b1
    · exact a1
  · rcases h01 c hc with rfl | rfl
    · exact b3
    · exact a3
  · rcases h01 c hc with rfl | rfl
    · exact b5
    · exact a5
  · rcases h01 c hc with rfl | rfl
    · exact b6
    · exact a6
  · have : c = 0 := by omega
    subst this
    exact c03k_exNext

def c03k_exSk : Array Int := #[1, 0, -1, 1]

/-- coefficient forms c0 = 20 − 3X + 7X², c1 = 1, transformed by the model's `rnsNtt`: phase = c0 + c1·s = 21 − 3X + 6X² + X³ -/
def c03k_exCt : Ct :=
  ⟨#[rnsNtt c03k_exL1 #[#[20, 94, 7, 0], #[20, 110, 7, 0]], rnsNtt c03k_exL1 #[#[1, 0, 0, 0], #[1, 0, 0, 0]]], true, 1⟩

def c03k_exVal : c03k_Val := ⟨1, c03k_exCt, 8⟩

def c03k_exRef : Nat → c03k_Ref := fun _ =>
  ⟨1, fun j => ((c03k_phase c03k_exL1 c03k_exSk c03k_exCt j : Int) : ℚ), 21, 0, 8, 2⟩

def c03k_exProg : c03k_Prog := .rescale (.mul (.input 0) (.input 0))

theorem c03k_exPhase : ∀ j, j < 4 → (c03k_phase c03k_exL1 c03k_exSk c03k_exCt j).natAbs ≤ 21 := by decide +kernel

theorem c03k_exPhase0 : c03k_phase c03k_exL1 c03k_exSk c03k_exCt 0 = 21 ∧ c03k_phase c03k_exL1 c03k_exSk c03k_exCt 3 = 1 := by
  decide +kernel

theorem c03k_exCanon : c03k_Canon c03k_exL1 c03k_exCt :=
  ⟨rfl, by decide, by decide +kernel⟩

theorem c03k_exInv : c03k_Inv c03k_exChain 1 4 c03k_exSk c03k_exVal (c03k_exRef 0) := by
  refine ⟨rfl, by decide, rfl, rfl, c03k_exCanon, fun j hj => ?_, fun j hj => ?_, by norm_num [c03k_exRef], by norm_num [c03k_exRef],
    by decide +kernel⟩
  · show |((c03k_phase c03k_exL1 c03k_exSk c03k_exCt j : Int) : ℚ) - ((c03k_phase c03k_exL1 c03k_exSk c03k_exCt j : Int) : ℚ)| ≤ 0
    rw [sub_self, abs_zero]
  · show |((c03k_phase c03k_exL1 c03k_exSk c03k_exCt j : Int) : ℚ)| ≤ 21
    have := c03k_exPhase j hj
    rw [← Int.cast_abs, ← Nat.cast_natAbs]
    exact_mod_cast this

/-- an environment with one input ciphertext and no plaintexts -/
theorem c03k_env_single {chain : Nat → Level} {top N : Nat} {sk : Array Int} {v : c03k_Val} {refIn : Nat → c03k_Ref}
    (hv : c03k_Inv chain top N sk v (refIn 0)) :
    c03k_EnvOK chain top N sk #[v] refIn #[] (fun _ => ⟨fun _ => 0, 0⟩) := by
  refine ⟨fun i w h => ?_, fun i q h => ?_, fun i q h => ?_, fun i j _ => by simp, fun i => le_refl _⟩
  · have hi : i = 0 := by
      by_contra hne
      have : (#[v] : Array c03k_Val)[i]? = none := by
        apply Array.getElem?_eq_none; simp; omega
      rw [this] at h; cases h
    subst hi
    have : w = v := by simpa using h.symm
    subst this
    exact hv
  · simp at h
  · simp at h

/-- `c03k_EnvOK` is satisfiable -/
theorem c03k_exEnv : c03k_EnvOK c03k_exChain 1 4 c03k_exSk #[c03k_exVal] c03k_exRef #[] (fun _ => ⟨fun _ => 0, 0⟩) :=
  c03k_env_single c03k_exInv

theorem c03k_exRun_ok : (c03k_run c03k_exChain #[c03k_exVal] #[] default (fun _ => none) c03k_exProg).toOption.isSome = true := by decide +kernel

theorem c03k_exRef_ok :
    (c03k_ref c03k_exChain 4 (c03k_skL1 4 c03k_exSk) c03k_exRef #[] (fun _ => ⟨fun _ => 0, 0⟩) (fun _ => 0) c03k_exProg).isSome = true := by
  decide +kernel

/-- the main theorem applies to a concrete run: level 0, scale 8·8/113, size 3, and every phase coefficient within the bound -/
theorem c03k_program_nonvacuous :
    ∃ v r, c03k_run c03k_exChain #[c03k_exVal] #[] default (fun _ => none) c03k_exProg = .ok v ∧
      c03k_ref c03k_exChain 4 (c03k_skL1 4 c03k_exSk) c03k_exRef #[] (fun _ => ⟨fun _ => 0, 0⟩) (fun _ => 0) c03k_exProg = some r ∧
      v.lv = r.lv ∧ v.scale = r.scale ∧ v.ct.polys.size = r.size ∧
      ∀ j, j < 4 → |((c03k_phase (c03k_exChain v.lv) c03k_exSk v.ct j : Int) : ℚ) - r.val j| ≤ r.err ∧ |r.val j| ≤ r.mag := by
  have h1 := c03k_exRun_ok
  have h2 := c03k_exRef_ok
  cases hv : c03k_run c03k_exChain #[c03k_exVal] #[] default (fun _ => none) c03k_exProg with
  | error e => rw [hv] at h1; cases h1
  | ok v =>
    cases hr : c03k_ref c03k_exChain 4 (c03k_skL1 4 c03k_exSk) c03k_exRef #[] (fun _ => ⟨fun _ => 0, 0⟩) (fun _ => 0) c03k_exProg with
    | none => rw [hr] at h2; cases h2
    | some r =>
      obtain ⟨a, b, c, _, d⟩ := ckks_program_sound c03k_exChainOK c03k_exEnv (key := #[]) (e := fun _ _ => 0) (G := fun _ _ => 0)
        (A := 0) (Be := 0) c03k_exProg (fun h => by cases h) hv hr
      exact ⟨v, r, rfl, rfl, a, b, c, d⟩

/-! ### non-vacuity of `ckks_relinearize_phase`: the key level of C04T/C04K (N = 2, q = 13, P = 17), a CKKS level on it whose tool
     carries the base built by `RNSBase.new`, the size-3 ciphertext and the relinearisation key of C04K -/

def c03k_exRL : Level :=
  ⟨.ckks, 2, 1, #[c04t_exMod 13], c04t_exMod 5, #[c04t_exTbl 13 5], { (default : RNSTool) with baseQ := c04k_exBase, n := 2 }⟩

theorem c03k_exRL_wf : c03k_exRL.WF := by
  refine ⟨rfl, rfl, fun i hi => ?_⟩
  have : i < 1 := hi
  interval_cases i
  obtain ⟨h1, h2, h3⟩ := c04t_exKL_wf.twf 0 (by decide)
  refine ⟨h1, h2, ?_⟩
  have : (2 : Nat) ^ (c04t_exKL.tb 0).k = 2 ^ 1 := h3
  exact Nat.pow_right_injective (le_refl 2) this

theorem c03k_exRL_levelQ : c07s_LevelQ c03k_exRL := by
  obtain ⟨b, hb⟩ := c04t_isOk_ok (x := RNSBase.new [c04t_exMod 13]) (by decide)
  have e : c04k_exBase = b := by unfold c04k_exBase; rw [hb]
  refine ⟨c04k_exBaseOf.wf, ?_⟩
  show c04k_exBase.base = #[c04t_exMod 13]
  rw [e, c01q_base_of_new hb]

/-- `c03k_KeyLevelOf` is satisfiable -/
theorem c03k_exRL_of : c03k_KeyLevelOf c04t_exKL c03k_exRL := by
  refine ⟨⟨rfl, rfl, fun i hi => ?_⟩, fun i hi => ?_⟩
  · have : i < 1 := hi
    interval_cases i
    rfl
  · have : i < 1 := hi
    interval_cases i
    rfl

theorem c03k_exRL_ct : CtCanon c03k_exRL (c04k_exCt3 true) := by
  refine ⟨⟨by decide, by decide, by decide +kernel⟩, ?_⟩
  show (1 : Nat) = 1
  rfl

/-- all hypotheses of `ckks_relinearize_phase` hold simultaneously; its conclusion on the instance -/
theorem c03k_relinearize_nonvacuous (keys : Nat → Option KSKey) (hk : keys 2 = some c04k_exRelinKey) (fuel : Nat) :
    ∃ r, relinearize c04t_exKL .ckks 1 keys (fuel + 2) (c04k_exCt3 true) = .ok r ∧ CtCanon c03k_exRL r ∧ r.polys.size = 2 ∧
      ∀ j, j < 2 → c03k_phase c03k_exRL #[1, -1] r j ≡ c03k_phase c03k_exRL #[1, -1] (c04k_exCt3 true) j
        + c04k_nuStd c04t_exKL 1 true ((c04k_exCt3 true).polys.getD 2 #[]) c04k_exRelinKey c04k_exE (c03k_skf #[1, -1]) j
          [ZMOD (c03k_Q c03k_exRL : Int)] := by
  have hke : c04k_KeyEq c04t_exKL c03k_exRL.size c04k_exRelinKey (c03k_skf #[1, -1])
      (fun p => negMulR c04t_exKL.n (c03k_skf #[1, -1]) (c03k_skf #[1, -1]) p) c04k_exE c04k_exG := by
    have h := c04k_exRelinKeyEq
    rw [c04k_exS_eq] at h
    exact h
  obtain ⟨r, h1, h2, _, _, h5, h6⟩ := ckks_relinearize_phase c03k_exRL_wf c03k_exRL_levelQ c03k_exRL_of #[1, -1] c03k_exRL_ct rfl rfl
    keys fuel hk (c04k_exKSInput3 true) (by decide) hke
  exact ⟨r, h1, h2, h5, h6⟩

/-! ### non-vacuity of the program theorem WITH relinearisation: the one-level chain {13} (N = 2), key level {13, 17}, the
     relinearisation key of C04K, input phase 1 (c0 = X, c1 = 1, s = 1 − X), program `relin (mul x x)` -/

theorem c03k_canon_kl {kl : KeyLevel} {l : Level} (hlo : c03k_KeyLevelOf kl l) {p : RnsPoly} (h : RnsCanon l p) :
    c04t_Canon kl l.size p := by
  intro j hj
  obtain ⟨h1, h2⟩ := h.2 j hj
  rw [← hlo.n, ← hlo.q j hj]
  exact ⟨h1, h2⟩

theorem c03k_exRL_tool : c05u_ToolOK c03k_exRL :=
  ⟨c03k_exRL_levelQ.bwf, c03k_exRL_levelQ.base, rfl, fun i hi => by
    have : c03k_exRL.size = 1 := rfl
    omega⟩

def c03k_exChain1 : Nat → Level := fun _ => c03k_exRL

theorem c03k_exChain1OK : c03k_ChainOK c03k_exChain1 0 2 :=
  ⟨fun _ _ => c03k_exRL_wf, fun _ _ => c03k_exRL_tool, fun _ _ => rfl, fun _ _ => rfl, fun c hc => by omega⟩

def c03k_exKeys : Nat → Option KSKey := fun i => if i = 2 then some c04k_exRelinKey else none

def c03k_exCt2 : Ct := ⟨#[rnsNtt c03k_exRL #[#[0, 1]], rnsNtt c03k_exRL #[#[1, 0]]], true, 1⟩
def c03k_exVal2 : c03k_Val := ⟨0, c03k_exCt2, 2⟩
def c03k_exRef2 : Nat → c03k_Ref := fun _ => ⟨0, fun j => ((c03k_phase c03k_exRL #[1, -1] c03k_exCt2 j : Int) : ℚ), 1, 0, 2, 2⟩
def c03k_exProg2 : c03k_Prog := .relin (.mul (.input 0) (.input 0))
def c03k_exBnu : Nat → ℚ := fun _ => 50 / 17

theorem c03k_exPhase2 : ∀ j, j < 2 → (c03k_phase c03k_exRL #[1, -1] c03k_exCt2 j).natAbs ≤ 1 := by decide +kernel

theorem c03k_exInv2 : c03k_Inv c03k_exChain1 0 2 #[1, -1] c03k_exVal2 (c03k_exRef2 0) := by
  refine ⟨rfl, by decide, rfl, rfl, ⟨rfl, by decide, by decide +kernel⟩, fun j hj => ?_, fun j hj => ?_, by norm_num [c03k_exRef2],
    by norm_num [c03k_exRef2], by decide +kernel⟩
  · show |((c03k_phase c03k_exRL #[1, -1] c03k_exCt2 j : Int) : ℚ) - ((c03k_phase c03k_exRL #[1, -1] c03k_exCt2 j : Int) : ℚ)| ≤ 0
    rw [sub_self, abs_zero]
  · show |((c03k_phase c03k_exRL #[1, -1] c03k_exCt2 j : Int) : ℚ)| ≤ 1
    have := c03k_exPhase2 j hj
    rw [← Int.cast_abs, ← Nat.cast_natAbs]
    exact_mod_cast this

/-- `c03k_RelinOK` is satisfiable -/
theorem c03k_exRelinOK :
    c03k_RelinOK c03k_exChain1 0 2 #[1, -1] c04t_exKL c03k_exKeys c04k_exRelinKey c04k_exE (fun _ => c04k_exG) 13 1 c03k_exBnu := by
  have h := c04k_exKSInput3 true
  refine ⟨fun _ _ => c03k_exRL_of, rfl, by decide, fun lv _ ct hc h3 => ?_, fun lv _ => ?_, fun lv _ i hi => ?_,
    fun lv _ i hi p hp => ?_, fun lv _ => ?_⟩
  · exact ⟨h.hkl, h.hsz, h.hd, h.hks, c03k_canon_kl c03k_exRL_of (hc.canon 2 (by omega)), h.hkey, h.hov,
      fun k hk => c03k_canon_kl c03k_exRL_of (hc.canon k (by
        have : (c04k_exRelinKey.getD 0 #[]).size = 2 := by decide
        omega)), h.hinv⟩
  · show c04k_KeyEq c04t_exKL 1 c04k_exRelinKey (c03k_skf #[1, -1])
      (fun p => negMulR c04t_exKL.n (c03k_skf #[1, -1]) (c03k_skf #[1, -1]) p) c04k_exE c04k_exG
    have h' := c04k_exRelinKeyEq
    rw [c04k_exS_eq] at h'
    exact h'
  · have : i < 1 := hi
    interval_cases i
    decide +kernel
  · have hp2 : p < 2 := hp
    interval_cases p
    · show ((1 : Int)).natAbs ≤ 1
      decide
    · show ((-1 : Int)).natAbs ≤ 1
      decide
  · show (((c03k_exRL.size * (13 * (c04t_exKL.n * 1)) + c04t_exKL.c04t_P / 2 * (1 + c03k_skL1 c04t_exKL.n #[1, -1]) : Nat) : ℚ))
        / (c04t_exKL.c04t_P : ℚ) ≤ 50 / 17
    decide +kernel

theorem c03k_exRun2_ok : (c03k_run c03k_exChain1 #[c03k_exVal2] #[] c04t_exKL c03k_exKeys c03k_exProg2).toOption.isSome = true := by
  decide +kernel

theorem c03k_exRef2_ok :
    (c03k_ref c03k_exChain1 2 (c03k_skL1 2 #[1, -1]) c03k_exRef2 #[] (fun _ => ⟨fun _ => 0, 0⟩) c03k_exBnu c03k_exProg2).isSome = true := by
  decide +kernel

/-- the program theorem applies to a concrete run that multiplies and relinearises -/
theorem c03k_program_relin_nonvacuous :
    ∃ v r, c03k_run c03k_exChain1 #[c03k_exVal2] #[] c04t_exKL c03k_exKeys c03k_exProg2 = .ok v ∧
      c03k_ref c03k_exChain1 2 (c03k_skL1 2 #[1, -1]) c03k_exRef2 #[] (fun _ => ⟨fun _ => 0, 0⟩) c03k_exBnu c03k_exProg2 = some r ∧
      v.lv = r.lv ∧ v.scale = r.scale ∧ v.ct.polys.size = 2 ∧ r.size = 2 ∧
      ∀ j, j < 2 → |((c03k_phase (c03k_exChain1 v.lv) #[1, -1] v.ct j : Int) : ℚ) - r.val j| ≤ r.err ∧ |r.val j| ≤ r.mag := by
  have h1 := c03k_exRun2_ok
  have h2 := c03k_exRef2_ok
  cases hv : c03k_run c03k_exChain1 #[c03k_exVal2] #[] c04t_exKL c03k_exKeys c03k_exProg2 with
  | error e => rw [hv] at h1; cases h1
  | ok v =>
    cases hr : c03k_ref c03k_exChain1 2 (c03k_skL1 2 #[1, -1]) c03k_exRef2 #[] (fun _ => ⟨fun _ => 0, 0⟩) c03k_exBnu c03k_exProg2 with
    | none => rw [hr] at h2; cases h2
    | some r =>
      obtain ⟨a, b, c, _, d⟩ := ckks_program_sound c03k_exChain1OK (c03k_env_single c03k_exInv2) c03k_exProg2
        (fun _ => c03k_exRelinOK) hv hr
      have hr2 : r.size = 2 := by
        rw [c03k_exProg2, c03k_ref] at hr
        obtain ⟨x, _, g⟩ := c03k_obind hr
        obtain ⟨rfl, _⟩ := c03k_guard_some g
        rfl
      exact ⟨v, r, rfl, rfl, a, b, by rw [c, hr2], hr2, d⟩

end HC
