/- Helper lemmas for C17 (invariants of the transition systems of `Model/Conc.lean`). Core Lean only. -/
import Heathcliff.Model.Conc
namespace HC.Conc

variable {P : Type} (A : Alg P)

/-! ### the correct cache `powers A n` -/

@[simp] theorem powers_length (n : Nat) : (powers A n).length = n := by simp [powers]

theorem powers_succ (n : Nat) : powers A (n + 1) = powers A n ++ [A.ent n] := by
  simp [powers, List.range_succ]

theorem powers_getElem? (n i : Nat) (h : i < n) : (powers A n)[i]? = some (A.pow (i + 1)) := by
  simp [powers, Alg.pow, h]

theorem take_powers {w n : Nat} (h : w ≤ n) : (powers A n).take w = powers A w := by
  simp [powers, ← List.map_take, List.take_range, Nat.min_eq_left h]

theorem head?_powers (n : Nat) : (powers A (n + 1)).head? = some A.s := by
  simp [powers, List.range_succ_eq_map, Alg.ent]

theorem getLast?_powers (n : Nat) : (powers A (n + 1)).getLast? = some (A.ent n) := by
  rw [powers_succ]; simp

theorem extendOnce_powers (n : Nat) : extendOnce A (powers A (n + 1)) = some (powers A (n + 2)) := by
  simp [extendOnce, getLast?_powers, head?_powers, powers_succ A (n + 1), Alg.ent]

/-- the compute loop extends a correct prefix to a correct array (needs a non-empty prefix) -/
theorem extend_powers (k n : Nat) : extend A k (powers A (n + 1)) = some (powers A (n + 1 + k)) := by
  induction k generalizing n with
  | zero => rfl
  | succ k ih =>
    simp only [extend, extendOnce_powers]
    rw [ih (n + 1)]
    congr 2
    omega

theorem powers_inj {a b : Nat} (h : powers A a = powers A b) : a = b := by
  have := congrArg List.length h
  simpa using this

/-! ### invariant of the power-cache protocol -/

/-- what is known about a thread when the cache holds `n` correct powers -/
def ThrOk (n : Nat) (t : Thr P) : Prop :=
  match t.pc with
  | .R => t.result = none
  | .C => 1 ≤ t.oldR ∧ t.oldR ≤ n ∧ t.oldR < t.want ∧ t.newArr = powers A t.oldR ∧ t.result = none
  | .W => t.oldR ≤ n ∧ t.oldR < t.want ∧ t.newArr = powers A t.want ∧ t.result = none
  | .U => t.want ≤ n ∧ t.result = none
  | .done => t.result = some (powers A t.want)
  | .panicked => False

theorem ThrOk.mono {n m : Nat} {t : Thr P} (h : ThrOk A n t) (hnm : n ≤ m) : ThrOk A m t := by
  unfold ThrOk at *
  cases hp : t.pc <;> simp only [hp] at h ⊢
  · exact h
  · exact ⟨h.1, Nat.le_trans h.2.1 hnm, h.2.2⟩
  · exact ⟨Nat.le_trans h.1 hnm, h.2⟩
  · exact ⟨Nat.le_trans h.1 hnm, h.2⟩
  · exact h

/-- the global invariant: the cache is exactly `[s^1..s^n]`, `n ≥ 1`, every thread is consistent with it -/
def Inv (σ : St P) : Prop :=
  1 ≤ σ.cache.length ∧ σ.cache = powers A σ.cache.length ∧ ∀ t ∈ σ.thr, ThrOk A σ.cache.length t

/-- one thread step from a consistent situation: the cache stays correct, never shrinks, the thread stays consistent -/
theorem stepThr_ok {n : Nat} (hn : 1 ≤ n) {t : Thr P} (ht : ThrOk A n t) :
    ∃ m, n ≤ m ∧ (stepThr true A (powers A n) t).1 = powers A m ∧ ThrOk A m (stepThr true A (powers A n) t).2
      ∧ (stepThr true A (powers A n) t).2.want = t.want := by
  unfold ThrOk at ht
  cases hp : t.pc <;> simp only [hp] at ht
  · -- R
    by_cases hw : n = max n t.want
    · refine ⟨n, Nat.le_refl _, ?_, ?_, ?_⟩ <;> simp [stepThr, hp, ← hw, ThrOk, ht]
      omega
    · refine ⟨n, Nat.le_refl _, ?_, ?_, ?_⟩ <;> simp [stepThr, hp, hw, ThrOk, ht]
      omega
  · -- C
    obtain ⟨h1, h2, h3, h4, h5⟩ := ht
    obtain ⟨o, ho⟩ : ∃ o, t.oldR = o + 1 := ⟨t.oldR - 1, by omega⟩
    have hext : extend A (max t.oldR t.want - t.oldR) t.newArr = some (powers A t.want) := by
      rw [h4, ho, extend_powers]
      congr 2
      omega
    refine ⟨n, Nat.le_refl _, ?_, ?_, ?_⟩ <;> simp [stepThr, hp, hext, ThrOk, h5]
    omega
  · -- W
    obtain ⟨h1, h2, h3, h4⟩ := ht
    by_cases hw : n = max n t.want
    · refine ⟨n, Nat.le_refl _, ?_, ?_, ?_⟩ <;> simp [stepThr, hp, ← hw, ThrOk, h4]
      omega
    · refine ⟨t.want, by omega, ?_, ?_, ?_⟩ <;> simp [stepThr, hp, hw, ThrOk, h3, h4]
  · -- U
    obtain ⟨h1, h2⟩ := ht
    refine ⟨n, Nat.le_refl _, ?_, ?_, ?_⟩ <;> simp [stepThr, hp, h1, ThrOk, take_powers A h1]
  · -- done
    exact ⟨n, Nat.le_refl _, by simp [stepThr, hp], by simp [stepThr, hp, ThrOk, ht], by simp [stepThr, hp]⟩

theorem step_inv (i : Nat) {σ : St P} (h : Inv A σ) :
    Inv A (step true A i σ) ∧ σ.cache.length ≤ (step true A i σ).cache.length := by
  obtain ⟨h1, h2, h3⟩ := h
  unfold step
  cases hg : σ.thr[i]? with
  | none => exact ⟨⟨h1, h2, h3⟩, Nat.le_refl _⟩
  | some t =>
    have htm : t ∈ σ.thr := List.mem_of_getElem? hg
    have hs := stepThr_ok A h1 (h3 t htm)
    rw [← h2] at hs
    obtain ⟨m, hm, hc, hk, _⟩ := hs
    simp only
    have hlen : (stepThr true A σ.cache t).1.length = m := by rw [hc]; simp
    refine ⟨⟨?_, ?_, ?_⟩, ?_⟩
    · rw [hlen]; omega
    · rw [hlen]; exact hc
    · intro u hu
      rw [hlen]
      rcases List.mem_or_eq_of_mem_set hu with hu | hu
      · exact (h3 u hu).mono A hm
      · rw [hu]; exact hk
    · rw [hlen]; exact hm

theorem run_inv (sched : List Nat) {σ : St P} (h : Inv A σ) :
    Inv A (run true A sched σ) ∧ σ.cache.length ≤ (run true A sched σ).cache.length := by
  induction sched generalizing σ with
  | nil => exact ⟨h, Nat.le_refl _⟩
  | cons i is ih =>
    have h1 := step_inv A i h
    have h2 := ih h1.1
    exact ⟨h2.1, Nat.le_trans h1.2 h2.2⟩

theorem init_inv {n0 : Nat} (h : 1 ≤ n0) (wants : List Nat) : Inv A (init A n0 wants) := by
  refine ⟨by simpa [init] using h, by simp [init], ?_⟩
  intro t ht
  simp only [init, List.mem_map] at ht
  obtain ⟨w, _, rfl⟩ := ht
  simp [ThrOk]

theorem run_append (rc : Bool) (s1 s2 : List Nat) (σ : St P) :
    run rc A (s1 ++ s2) σ = run rc A s2 (run rc A s1 σ) := by
  induction s1 generalizing σ with
  | nil => rfl
  | cons i is ih => exact ih _

/-! ### the threads' `want` never changes and the thread list keeps its length -/

theorem stepThr_want (rc : Bool) (c : List P) (t : Thr P) : (stepThr rc A c t).2.want = t.want := by
  unfold stepThr
  cases t.pc <;> simp only <;> (try split) <;> simp

theorem step_thr_length (rc : Bool) (i : Nat) (σ : St P) : (step rc A i σ).thr.length = σ.thr.length := by
  unfold step; cases σ.thr[i]? <;> simp

theorem run_thr_length (rc : Bool) (sched : List Nat) (σ : St P) : (run rc A sched σ).thr.length = σ.thr.length := by
  induction sched generalizing σ with
  | nil => rfl
  | cons j js ih => rw [run, ih, step_thr_length]

theorem step_want (rc : Bool) (i j : Nat) (σ : St P) :
    ((step rc A i σ).thr[j]?).map (·.want) = (σ.thr[j]?).map (·.want) := by
  unfold step
  cases hg : σ.thr[i]? with
  | none => rfl
  | some t =>
    simp only
    by_cases hij : i = j
    · subst hij
      have hi : i < σ.thr.length := by
        rcases Nat.lt_or_ge i σ.thr.length with h | h
        · exact h
        · rw [List.getElem?_eq_none h] at hg; cases hg
      rw [List.getElem?_set_self hi, hg]
      simp [stepThr_want]
    · rw [List.getElem?_set_ne hij]

theorem run_want (rc : Bool) (sched : List Nat) (j : Nat) (σ : St P) :
    ((run rc A sched σ).thr[j]?).map (·.want) = (σ.thr[j]?).map (·.want) := by
  induction sched generalizing σ with
  | nil => rfl
  | cons i is ih => rw [run, ih, step_want]

/-! ### Galois table cache -/

variable {T : Type} (gen : Nat → T)

/-- every generated table is the right one -/
def TabOk (tb : List (Option T)) : Prop := ∀ (i : Nat) (x : T), tb[i]? = some (some x) → x = gen i

/-- tables are only ever added -/
def TabLe (tb tb' : List (Option T)) : Prop :=
  tb.length = tb'.length ∧ ∀ (i : Nat) (x : T), tb[i]? = some (some x) → tb'[i]? = some (some x)

theorem TabLe.refl (tb : List (Option T)) : TabLe tb tb := ⟨rfl, fun _ _ h => h⟩
theorem TabLe.trans {a b c : List (Option T)} (h1 : TabLe a b) (h2 : TabLe b c) : TabLe a c :=
  ⟨h1.1.trans h2.1, fun i x h => h2.2 i x (h1.2 i x h)⟩

def GThrOk (tb : List (Option T)) (t : GThr T) : Prop :=
  t.pos ≤ t.calls.length ∧ (∀ idx ∈ t.calls, idx < tb.length) ∧
  t.seen = (t.calls.take t.pos).map (fun i => some (gen i)) ∧
  match t.pc with
  | .chk => t.pos < t.calls.length
  | .gen => t.pos < t.calls.length
  | .use => ∃ idx, t.calls[t.pos]? = some idx ∧ tb[idx]? = some (some (gen idx))
  | .done => t.pos = t.calls.length
  | .panicked => False

theorem GThrOk.mono {tb tb' : List (Option T)} {t : GThr T} (h : GThrOk gen tb t) (hle : TabLe tb tb') :
    GThrOk gen tb' t := by
  obtain ⟨h1, h2, h3, h4⟩ := h
  refine ⟨h1, fun idx hi => hle.1 ▸ h2 idx hi, h3, ?_⟩
  cases hp : t.pc <;> simp only [hp] at h4 ⊢
  · exact h4
  · exact h4
  · obtain ⟨idx, ha, hb⟩ := h4
    exact ⟨idx, ha, hle.2 _ _ hb⟩
  · exact h4

def GInv (σ : GSt T) : Prop := TabOk gen σ.tables ∧ ∀ t ∈ σ.thr, GThrOk gen σ.tables t

theorem gstepThr_ok {tb : List (Option T)} (htb : TabOk gen tb) {t : GThr T} (ht : GThrOk gen tb t) :
    TabOk gen (gstepThr gen tb t).1 ∧ TabLe tb (gstepThr gen tb t).1 ∧
      GThrOk gen (gstepThr gen tb t).1 (gstepThr gen tb t).2 ∧ (gstepThr gen tb t).2.calls = t.calls := by
  obtain ⟨h1, h2, h3, h4⟩ := ht
  unfold gstepThr
  cases hc : t.calls[t.pos]? with
  | none =>
    have hge : t.calls.length ≤ t.pos := by
      rcases Nat.lt_or_ge t.pos t.calls.length with h | h
      · rw [List.getElem?_eq_getElem h] at hc; cases hc
      · exact h
    refine ⟨htb, TabLe.refl _, ⟨h1, h2, h3, ?_⟩, rfl⟩
    simp only; omega
  | some idx =>
    have hlt : t.pos < t.calls.length := by
      rcases Nat.lt_or_ge t.pos t.calls.length with h | h
      · exact h
      · rw [List.getElem?_eq_none h] at hc; cases hc
    have hidx : idx < tb.length := h2 idx (List.mem_of_getElem? hc)
    simp only
    cases hp : t.pc <;> simp only [hp] at h4 ⊢
    · -- chk
      cases he : tb[idx]? with
      | none => rw [List.getElem?_eq_getElem hidx] at he; cases he
      | some e =>
        cases e with
        | none => exact ⟨htb, TabLe.refl _, ⟨h1, h2, h3, by simpa using hlt⟩, rfl⟩
        | some x =>
          refine ⟨htb, TabLe.refl _, ⟨h1, h2, h3, ?_⟩, rfl⟩
          exact ⟨idx, hc, by rw [he, htb idx x he]⟩
    · -- gen
      have hset : ∀ i, (tb.set idx (some (gen idx)))[i]? = if idx = i then some (some (gen idx)) else tb[i]? := by
        intro i
        rw [List.getElem?_set]
        by_cases hi : idx = i
        · subst hi; simp [hidx]
        · simp [hi]
      refine ⟨?_, ⟨by simp, ?_⟩, ⟨h1, ?_, h3, ?_⟩, trivial⟩
      · intro i x hx
        rw [hset] at hx
        by_cases hi : idx = i
        · subst hi; simp at hx; exact hx.symm
        · simp [hi] at hx; exact htb i x hx
      · intro i x hx
        rw [hset]
        by_cases hi : idx = i
        · subst hi; simp; exact (htb idx x hx).symm
        · simp [hi, hx]
      · intro j hj; simp; exact h2 j hj
      · exact ⟨idx, hc, by rw [hset]; simp⟩
    · -- use
      obtain ⟨idx', ha, hb⟩ := h4
      rw [hc] at ha
      cases ha
      simp only [hb]
      refine ⟨htb, TabLe.refl _, ⟨by simp only; omega, h2, ?_, ?_⟩, trivial⟩
      · simp only
        rw [List.take_add_one, hc, h3]
        simp
      · simp only
        by_cases hl : t.pos + 1 < t.calls.length
        · simp [hl]
        · simp [hl]; omega
    · -- done
      exact ⟨htb, TabLe.refl _, ⟨h1, h2, h3, by simp only [hp]; exact h4⟩, trivial⟩

theorem gstep_inv (i : Nat) {σ : GSt T} (h : GInv gen σ) :
    GInv gen (gstep gen i σ) ∧ TabLe σ.tables (gstep gen i σ).tables := by
  obtain ⟨h1, h2⟩ := h
  unfold gstep
  cases hg : σ.thr[i]? with
  | none => exact ⟨⟨h1, h2⟩, TabLe.refl _⟩
  | some t =>
    have htm : t ∈ σ.thr := List.mem_of_getElem? hg
    obtain ⟨ha, hb, hc, _⟩ := gstepThr_ok gen h1 (h2 t htm)
    refine ⟨⟨ha, ?_⟩, hb⟩
    intro u hu
    rcases List.mem_or_eq_of_mem_set hu with hu | hu
    · exact (h2 u hu).mono gen hb
    · rw [hu]; exact hc

theorem grun_inv (sched : List Nat) {σ : GSt T} (h : GInv gen σ) :
    GInv gen (grun gen sched σ) ∧ TabLe σ.tables (grun gen sched σ).tables := by
  induction sched generalizing σ with
  | nil => exact ⟨h, TabLe.refl _⟩
  | cons i is ih =>
    have h1 := gstep_inv gen i h
    have h2 := ih h1.1
    exact ⟨h2.1, h1.2.trans h2.2⟩

theorem ginitTables_getElem? (n : Nat) (pre : List Nat) (i : Nat) (x : T)
    (h : (ginitTables gen n pre)[i]? = some (some x)) : x = gen i := by
  unfold ginitTables at h
  rw [List.getElem?_map] at h
  by_cases hi : i < n
  · rw [List.getElem?_range hi] at h
    simp at h
    exact h.2.symm
  · rw [List.getElem?_eq_none (by simpa using Nat.le_of_not_lt hi)] at h
    simp at h

theorem ginit_inv (n : Nat) (pre : List Nat) (progs : List (List Nat))
    (hp : ∀ p ∈ progs, ∀ idx ∈ p, idx < n) : GInv gen (ginit gen n pre progs) := by
  refine ⟨fun i x h => ginitTables_getElem? gen n pre i x h, ?_⟩
  intro t ht
  simp only [ginit, List.mem_map] at ht
  obtain ⟨c, hc, rfl⟩ := ht
  refine ⟨Nat.zero_le _, ?_, by simp, ?_⟩
  · intro idx hi
    simp [ginit, ginitTables]
    exact hp c hc idx hi
  · cases c with
    | nil => simp
    | cons a l => simp

/-! ### progress: a live thread can always step, and finishes within four of its own steps -/

theorem stepThr_live_pc (rc : Bool) (c : List P) (t : Thr P) (h : t.pc.live = true) :
    (stepThr rc A c t).2.pc ≠ t.pc := by
  unfold stepThr
  cases hp : t.pc <;> simp only [hp, PC.live] at h ⊢ <;> (try split) <;> simp <;> cases h

theorem getElem?_lt_of_some {α : Type} {l : List α} {i : Nat} {a : α} (h : l[i]? = some a) : i < l.length := by
  rcases Nat.lt_or_ge i l.length with h' | h'
  · exact h'
  · rw [List.getElem?_eq_none h'] at h; cases h

theorem step_getElem?_self (rc : Bool) (i : Nat) (σ : St P) (t : Thr P) (h : σ.thr[i]? = some t) :
    (step rc A i σ).thr[i]? = some (stepThr rc A σ.cache t).2 := by
  unfold step
  simp only [h]
  exact List.getElem?_set_self (getElem?_lt_of_some h)

theorem step_getElem?_ne (rc : Bool) {i j : Nat} (hij : i ≠ j) (σ : St P) :
    (step rc A i σ).thr[j]? = σ.thr[j]? := by
  unfold step
  cases hg : σ.thr[i]? with
  | none => rfl
  | some t => simp only; exact List.getElem?_set_ne hij

/-- a live thread's step changes the state (its step is enabled: no step ever waits) -/
theorem step_ne_of_live (rc : Bool) (i : Nat) (σ : St P) (t : Thr P) (h : σ.thr[i]? = some t)
    (hl : t.pc.live = true) : step rc A i σ ≠ σ := by
  intro heq
  have h1 := step_getElem?_self A rc i σ t h
  rw [heq, h] at h1
  have h2 := stepThr_live_pc A rc σ.cache t hl
  injection h1 with h1
  rw [← h1] at h2
  exact h2 rfl

def PC.rem : PC → Nat
  | .R => 4 | .C => 3 | .W => 2 | .U => 1 | .done => 0 | .panicked => 0

/-- remaining own steps of thread `i` (0 for a finished or non-existent thread) -/
def remOf (σ : St P) (i : Nat) : Nat := match σ.thr[i]? with | some t => t.pc.rem | none => 0

theorem stepThr_rem (rc : Bool) (c : List P) (t : Thr P) : (stepThr rc A c t).2.pc.rem ≤ t.pc.rem - 1 := by
  unfold stepThr
  cases hp : t.pc <;> simp only <;> (try split) <;> simp [PC.rem, hp]

theorem remOf_step_self (rc : Bool) (i : Nat) (σ : St P) : remOf (step rc A i σ) i ≤ remOf σ i - 1 := by
  cases hg : σ.thr[i]? with
  | none => simp [remOf, step, hg]
  | some t =>
    have := step_getElem?_self A rc i σ t hg
    simp only [remOf, this, hg]
    exact stepThr_rem A rc σ.cache t

theorem remOf_step_ne (rc : Bool) {i j : Nat} (hij : i ≠ j) (σ : St P) : remOf (step rc A i σ) j = remOf σ j := by
  simp [remOf, step_getElem?_ne A rc hij σ]

theorem remOf_run (rc : Bool) (sched : List Nat) (i : Nat) (σ : St P) :
    remOf (run rc A sched σ) i ≤ remOf σ i - sched.count i := by
  induction sched generalizing σ with
  | nil => simp [run]
  | cons j js ih =>
    rw [run]
    by_cases hji : j = i
    · subst hji
      have h1 := ih (step rc A j σ)
      have h2 := remOf_step_self A rc j σ
      rw [List.count_cons_self]
      omega
    · have h1 := ih (step rc A j σ)
      rw [remOf_step_ne A rc hji] at h1
      rw [List.count_cons_of_ne hji]
      exact h1

theorem remOf_le_four (σ : St P) (i : Nat) : remOf σ i ≤ 4 := by
  unfold remOf; cases σ.thr[i]? with
  | none => simp
  | some t => cases hp : t.pc <;> simp [PC.rem, hp]

theorem sum_set_lt (l : List Nat) (i : Nat) (h : i < l.length) (v : Nat) (hv : v < l[i]) :
    (l.set i v).sum + (l[i] - v) = l.sum := by
  induction l generalizing i with
  | nil => simp at h
  | cons a l ih =>
    cases i with
    | zero => simp at hv ⊢; omega
    | succ i =>
      simp at h hv ⊢
      have := ih i h hv
      omega

/-- total number of steps all threads can still take -/
def measure (σ : St P) : Nat := (σ.thr.map fun t => t.pc.rem).sum

theorem measure_step_live (rc : Bool) (i : Nat) (σ : St P) (t : Thr P) (h : σ.thr[i]? = some t)
    (hl : t.pc.live = true) : measure (step rc A i σ) + 1 ≤ measure σ := by
  have hi := getElem?_lt_of_some h
  have hti : σ.thr[i] = t := by rw [List.getElem?_eq_getElem hi] at h; injection h
  unfold measure step
  simp only [h, List.map_set]
  have hr := stepThr_rem A rc σ.cache t
  have hpos : 1 ≤ t.pc.rem := by cases hp : t.pc <;> simp [hp, PC.live, PC.rem] at hl ⊢
  have hlen : i < (σ.thr.map fun t => t.pc.rem).length := by simpa using hi
  have hget : (σ.thr.map fun t => t.pc.rem)[i] = t.pc.rem := by simp [hti]
  have := sum_set_lt (σ.thr.map fun t => t.pc.rem) i hlen (stepThr rc A σ.cache t).2.pc.rem (by rw [hget]; omega)
  rw [hget] at this
  omega

/-- a schedule that only ever resumes live threads (what a scheduler does) -/
def Productive (rc : Bool) : List Nat → St P → Prop
  | [], _ => True
  | i :: is, σ => (∃ t, σ.thr[i]? = some t ∧ t.pc.live = true) ∧ Productive rc is (step rc A i σ)

theorem productive_length (rc : Bool) (sched : List Nat) (σ : St P) (h : Productive A rc sched σ) :
    sched.length + measure (run rc A sched σ) ≤ measure σ := by
  induction sched generalizing σ with
  | nil => simp [run]
  | cons i is ih =>
    obtain ⟨⟨t, ht, hl⟩, hp⟩ := h
    have h1 := ih _ hp
    have h2 := measure_step_live A rc i σ t ht hl
    rw [run]
    simp only [List.length_cons]
    omega

theorem measure_init (n0 : Nat) (wants : List Nat) : measure (init A n0 wants) = 4 * wants.length := by
  unfold measure init
  simp only [List.map_map]
  induction wants with
  | nil => rfl
  | cons w ws ih => simp only [List.map_cons, List.sum_cons, List.length_cons, Function.comp, PC.rem] at ih ⊢; omega

/-- wait-freedom: whatever the other threads do, a call that is given four steps has finished, with the
    sequential result -/
theorem thread_finishes {σ : St P} (h : Inv A σ) (sched : List Nat) (i : Nat) (t0 : Thr P)
    (h0 : σ.thr[i]? = some t0) (hc : 4 ≤ sched.count i) :
    ∃ t, (run true A sched σ).thr[i]? = some t ∧ t.pc = .done ∧ t.result = some (powers A t0.want) := by
  have hw := run_want A true sched i σ
  rw [h0] at hw
  cases hg : (run true A sched σ).thr[i]? with
  | none => rw [hg] at hw; cases hw
  | some t =>
    rw [hg] at hw
    have hwant : t.want = t0.want := by simpa using hw
    have hr := remOf_run A true sched i σ
    have h4 := remOf_le_four σ i
    have hrem : t.pc.rem = 0 := by
      have : remOf (run true A sched σ) i = t.pc.rem := by simp [remOf, hg]
      omega
    have hinv := (run_inv A sched h).1
    have hok := hinv.2.2 t (List.mem_of_getElem? hg)
    unfold ThrOk at hok
    cases hp : t.pc <;> simp only [hp, PC.rem] at hrem hok <;> try omega
    · exact ⟨t, rfl, hp, by rw [hok, hwant]⟩

theorem seqSchedule_succ (k : Nat) : seqSchedule (k + 1) = seqSchedule k ++ [k, k, k, k] := by
  simp [seqSchedule, List.range_succ, List.flatMap_append]

theorem count_seqSchedule {k i : Nat} (h : i < k) : 4 ≤ (seqSchedule k).count i := by
  induction k with
  | zero => omega
  | succ k ih =>
    rw [seqSchedule_succ, List.count_append]
    by_cases hik : i = k
    · subst hik; simp
    · have := ih (by omega); omega

/-! ### Galois cache: a live thread can always step -/

theorem gstepThr_live_ne (tb : List (Option T)) (t : GThr T) (h : t.pc.live = true) :
    (gstepThr gen tb t).2 ≠ t := by
  unfold gstepThr
  intro heq
  cases hc : t.calls[t.pos]? with
  | none =>
    rw [hc] at heq
    have := congrArg GThr.pc heq
    simp at this
    rw [← this] at h; cases h
  | some idx =>
    rw [hc] at heq
    simp only at heq
    cases hp : t.pc <;> rw [hp] at heq h <;> simp only [GPC.live] at heq h
    · cases he : tb[idx]? with
      | none => rw [he] at heq; have := congrArg GThr.pc heq; simp [hp] at this
      | some e =>
        cases e with
        | none => rw [he] at heq; have := congrArg GThr.pc heq; simp [hp] at this
        | some x => rw [he] at heq; have := congrArg GThr.pc heq; simp [hp] at this
    · have := congrArg GThr.pc heq; simp [hp] at this
    · cases he : tb[idx]? with
      | none => rw [he] at heq; have := congrArg GThr.pc heq; simp [hp] at this
      | some e => rw [he] at heq; have := congrArg GThr.pc heq |> fun _ => congrArg GThr.pos heq; simp at this
    · cases h
    · cases h

theorem gstep_ne_of_live (i : Nat) (σ : GSt T) (t : GThr T) (h : σ.thr[i]? = some t) (hl : t.pc.live = true) :
    gstep gen i σ ≠ σ := by
  intro heq
  have h1 : (gstep gen i σ).thr[i]? = some (gstepThr gen σ.tables t).2 := by
    unfold gstep; simp only [h]; exact List.getElem?_set_self (getElem?_lt_of_some h)
  rw [heq, h] at h1
  injection h1 with h1
  exact gstepThr_live_ne gen σ.tables t hl h1.symm

/-! ### lock level -/

def isInR (p : LPC) : Bool := decide (p = .inR)
def isInW (p : LPC) : Bool := decide (p = .inW)

/-- the lock word is consistent with the threads: reader count = threads inside a read region, writer flag =
    some thread inside a write region (at most one), never both -/
def LInv (σ : LSt) : Prop :=
  σ.readers = σ.thr.countP isInR ∧ (if σ.writer then 1 else 0) = σ.thr.countP isInW ∧ (σ.writer = true → σ.readers = 0)

theorem normNext_notIn (nxt : LPC) : isInR (normNext nxt) = false ∧ isInW (normNext nxt) = false := by
  cases nxt <;> simp [normNext, isInR, isInW]

theorem countP_set_add {α : Type} (p : α → Bool) (l : List α) (i : Nat) (hi : i < l.length) (a : α) :
    (l.set i a).countP p + (if p l[i] = true then 1 else 0) = l.countP p + (if p a = true then 1 else 0) := by
  have := List.boole_getElem_le_countP (p := p) hi
  rw [List.countP_set hi]; omega

theorem lstep_inv (nxt : LPC) (i : Nat) {σ : LSt} (h : LInv σ) : LInv (lstep nxt i σ) := by
  obtain ⟨h1, h2, h3⟩ := h
  unfold lstep
  cases hg : σ.thr[i]? with
  | none => exact ⟨h1, h2, h3⟩
  | some pc =>
    have hi := getElem?_lt_of_some hg
    have hti : σ.thr[i] = pc := by rw [List.getElem?_eq_getElem hi] at hg; injection hg
    simp only
    by_cases hen : lenabled σ pc = true
    · rw [if_pos hen]
      have hn := normNext_notIn nxt
      cases pc with
      | wantR =>
        dsimp only
        have eR := countP_set_add isInR σ.thr i hi .inR
        have eW := countP_set_add isInW σ.thr i hi .inR
        rw [hti] at eR eW
        have hw : σ.writer = false := by simpa [lenabled] using hen
        simp [isInR, isInW] at eR eW
        refine ⟨?_, ?_, ?_⟩
        · show σ.readers + 1 = List.countP isInR (σ.thr.set i LPC.inR)
          omega
        · show (if σ.writer = true then 1 else 0) = _
          rw [eW]; exact h2
        · intro hw'
          have : σ.writer = true := hw'
          rw [hw] at this; cases this
      | wantW =>
        dsimp only
        have eR := countP_set_add isInR σ.thr i hi .inW
        have eW := countP_set_add isInW σ.thr i hi .inW
        rw [hti] at eR eW
        simp only [lenabled, Bool.and_eq_true, Bool.not_eq_true', beq_iff_eq] at hen
        obtain ⟨hw, hr⟩ := hen
        simp [isInR, isInW] at eR eW
        simp only [hw] at h2
        refine ⟨?_, ?_, ?_⟩
        · show σ.readers = _
          rw [eR]; exact h1
        · show (if true = true then 1 else 0) = _
          simp at h2 ⊢; omega
        · intro _
          exact hr
      | inR =>
        dsimp only
        have eR := countP_set_add isInR σ.thr i hi (normNext nxt)
        have eW := countP_set_add isInW σ.thr i hi (normNext nxt)
        rw [hti, hn.1] at eR
        rw [hti, hn.2] at eW
        simp [isInR, isInW] at eR eW
        refine ⟨?_, ?_, ?_⟩
        · show σ.readers - 1 = List.countP isInR (σ.thr.set i (normNext nxt))
          omega
        · show (if σ.writer = true then 1 else 0) = _
          rw [eW]; exact h2
        · intro hw'
          show σ.readers - 1 = 0
          have := h3 hw'
          omega
      | inW =>
        dsimp only
        have eR := countP_set_add isInR σ.thr i hi (normNext nxt)
        have eW := countP_set_add isInW σ.thr i hi (normNext nxt)
        rw [hti, hn.1] at eR
        rw [hti, hn.2] at eW
        simp [isInR, isInW] at eR eW
        have hwr : σ.writer = true := by
          cases hw : σ.writer with
          | true => rfl
          | false => simp [hw] at h2; omega
        simp only [hwr] at h2
        refine ⟨?_, ?_, ?_⟩
        · show σ.readers = _
          rw [eR]; exact h1
        · show (if false = true then 1 else 0) = _
          simp at h2 ⊢; omega
        · intro hw'
          cases hw'
      | fin => simp [lenabled] at hen
    · rw [if_neg hen]; exact ⟨h1, h2, h3⟩

theorem lrun_inv (sched : List (Nat × LPC)) {σ : LSt} (h : LInv σ) : LInv (lrun sched σ) := by
  induction sched generalizing σ with
  | nil => exact h
  | cons a as ih => exact ih (lstep_inv a.2 a.1 h)

theorem linit_inv (k : Nat) : LInv (linit k) := by
  refine ⟨?_, ?_, by simp [linit]⟩ <;> simp [linit, List.countP_replicate, isInR, isInW]

/-- in a consistent lock state with an unfinished thread, some thread's next step is enabled -/
theorem lenabled_exists {σ : LSt} (h : LInv σ) (hl : ∃ pc ∈ σ.thr, pc ≠ LPC.fin) :
    ∃ (i : Nat) (pc : LPC), σ.thr[i]? = some pc ∧ lenabled σ pc = true := by
  obtain ⟨h1, h2, h3⟩ := h
  by_cases hold : ∃ pc ∈ σ.thr, pc = LPC.inR ∨ pc = LPC.inW
  · obtain ⟨pc, hm, hp⟩ := hold
    obtain ⟨i, hi⟩ := List.getElem?_of_mem hm
    exact ⟨i, pc, hi, by rcases hp with rfl | rfl <;> rfl⟩
  · have hR : σ.thr.countP isInR = 0 := by
      rw [List.countP_eq_zero]; intro a ha hc; exact hold ⟨a, ha, Or.inl (by simpa [isInR] using hc)⟩
    have hW : σ.thr.countP isInW = 0 := by
      rw [List.countP_eq_zero]; intro a ha hc; exact hold ⟨a, ha, Or.inr (by simpa [isInW] using hc)⟩
    rw [hR] at h1; rw [hW] at h2
    have hw : σ.writer = false := by cases hw : σ.writer <;> simp [hw] at h2 ⊢
    obtain ⟨pc, hm, hp⟩ := hl
    obtain ⟨i, hi⟩ := List.getElem?_of_mem hm
    refine ⟨i, pc, hi, ?_⟩
    cases pc with
    | wantR => simp [lenabled, hw]
    | wantW => simp [lenabled, hw, h1]
    | inR => exact absurd ⟨_, hm, Or.inl rfl⟩ hold
    | inW => exact absurd ⟨_, hm, Or.inr rfl⟩ hold
    | fin => exact absurd rfl hp

/-- an enabled step really changes the state -/
theorem lstep_ne (nxt : LPC) (i : Nat) (σ : LSt) (pc : LPC) (hg : σ.thr[i]? = some pc) (hen : lenabled σ pc = true) :
    lstep nxt i σ ≠ σ := by
  intro heq
  have hi := getElem?_lt_of_some hg
  have hth := congrArg LSt.thr heq
  unfold lstep at hth
  simp only [hg, hen, if_true] at hth
  have hn := normNext_notIn nxt
  cases pc with
  | wantR => simp only at hth; have := congrArg (·[i]?) hth; simp [List.getElem?_set_self hi, hg] at this
  | wantW => simp only at hth; have := congrArg (·[i]?) hth; simp [List.getElem?_set_self hi, hg] at this
  | inR =>
    simp only at hth; have := congrArg (·[i]?) hth
    simp only [List.getElem?_set_self hi, hg] at this
    injection this with this
    have h1 : isInR (normNext nxt) = false := hn.1
    rw [this] at h1; simp [isInR] at h1
  | inW =>
    simp only at hth; have := congrArg (·[i]?) hth
    simp only [List.getElem?_set_self hi, hg] at this
    injection this with this
    have h1 : isInW (normNext nxt) = false := hn.2
    rw [this] at h1; simp [isInW] at h1
  | fin => simp [lenabled] at hen

end HC.Conc
