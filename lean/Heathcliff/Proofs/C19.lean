/- C19 helper lemmas: array read-out of the phase-level operations, the scatter loop of X ↦ X^g as a signed
   permutation, its diagonal action on coefficients whose index is a multiple of N/2^m, the field trace by induction
   over its loop, the butterfly merge of PackLWEs and the index/sign rule of the monomial shift. -/
import Heathcliff.Model.Lwe
import Heathcliff.Proofs.NTTDefs
import Heathcliff.Proofs.C09D
import Mathlib.Data.Nat.ModEq
import Mathlib.Data.Nat.Prime.Basic
import Mathlib.Algebra.BigOperators.Group.Finset.Basic
import Mathlib.Tactic.Ring
import Mathlib.Tactic.Linarith
import Mathlib.Data.ZMod.Basic
namespace HC
open Finset

/-! ### reading arrays -/

theorem c19_getD_ofFn {α : Type} {n : Nat} (f : Fin n → α) (d : α) (j : Nat) (hj : j < n) :
    (Array.ofFn f).getD j d = f ⟨j, hj⟩ := by
  simp [hj]

theorem c19_getD_ofFn_ge {α : Type} {n : Nat} (f : Fin n → α) (d : α) (j : Nat) (hj : n ≤ j) :
    (Array.ofFn f).getD j d = d := by
  simp [Nat.not_lt.mpr hj]

theorem c19_getD_replicate {α : Type} (n : Nat) (v : α) (j : Nat) : (Array.replicate n v).getD j v = v := by
  by_cases hj : j < n <;> simp [hj]

theorem c19_getD_set {α : Type} (xs : Array α) (i j : Nat) (v d : α) :
    (xs.setIfInBounds i v).getD j d = if i = j ∧ i < xs.size then v else xs.getD j d := by
  by_cases hij : i = j
  · subst hij
    by_cases hi : i < xs.size <;> simp [hi]
  · simp [hij]

section Ring
variable {R : Type} [CommRing R]

theorem c19_addPoly_getD (n : Nat) (a b : Array R) (j : Nat) (hj : j < n) :
    (addPoly n a b).getD j 0 = a.getD j 0 + b.getD j 0 := by
  unfold addPoly; rw [c19_getD_ofFn _ _ _ hj]

theorem c19_subPoly_getD (n : Nat) (a b : Array R) (j : Nat) (hj : j < n) :
    (subPoly n a b).getD j 0 = a.getD j 0 - b.getD j 0 := by
  unfold subPoly; rw [c19_getD_ofFn _ _ _ hj]

theorem c19_scalePoly_getD (n : Nat) (c : R) (a : Array R) (j : Nat) (hj : j < n) :
    (scalePoly n c a).getD j 0 = c * a.getD j 0 := by
  unfold scalePoly; rw [c19_getD_ofFn _ _ _ hj]

/-- `shiftPoly` for a shift below the degree: no sign flip on the part that does not wrap -/
theorem c19_shiftPoly_getD_lt (n : Nat) (a : Array R) (s j : Nat) (hs : s < n) (hj : j < n) :
    (shiftPoly n a s).getD j 0 = if s ≤ j then a.getD (j - s) 0 else - a.getD (j + n - s) 0 := by
  unfold shiftPoly
  rw [c19_getD_ofFn _ _ _ hj]
  have h1 : s % n = s := Nat.mod_eq_of_lt hs
  have h2 : s / n = 0 := Nat.div_eq_of_lt hs
  simp [h1, h2]

/-! ### the scatter loop of `sigmaPoly` -/

/-- the loop after `cnt` iterations -/
def c19_sigmaLoop (n : Nat) (a : Array R) (g cnt : Nat) : Array R :=
  (List.range cnt).foldl (fun (res : Array R) i =>
      let raw := i * g
      res.setIfInBounds (raw % n) (if (raw / n) % 2 = 1 then - a.getD i 0 else a.getD i 0)) (Array.replicate n 0)

theorem c19_sigmaLoop_succ (n : Nat) (a : Array R) (g cnt : Nat) :
    c19_sigmaLoop n a g (cnt+1) =
      (c19_sigmaLoop n a g cnt).setIfInBounds (cnt * g % n) (if (cnt * g / n) % 2 = 1 then - a.getD cnt 0 else a.getD cnt 0) := by
  unfold c19_sigmaLoop
  rw [List.range_succ, List.foldl_append]
  rfl

theorem c19_sigmaLoop_size (n : Nat) (a : Array R) (g cnt : Nat) : (c19_sigmaLoop n a g cnt).size = n := by
  induction cnt with
  | zero => simp [c19_sigmaLoop]
  | succ c ih => rw [c19_sigmaLoop_succ, Array.size_setIfInBounds, ih]

theorem c19_sigmaPoly_eq (n : Nat) (a : Array R) (g : Nat) : sigmaPoly n a g = c19_sigmaLoop n a g n := rfl

/-- an index no iteration writes keeps the initial zero -/
theorem c19_sigmaLoop_untouched (n : Nat) (a : Array R) (g cnt e : Nat) (h : ∀ i < cnt, i * g % n ≠ e) :
    (c19_sigmaLoop n a g cnt).getD e 0 = 0 := by
  induction cnt with
  | zero => unfold c19_sigmaLoop; simpa using c19_getD_replicate n (0:R) e
  | succ c ih =>
    rw [c19_sigmaLoop_succ, c19_getD_set]
    have hc := h c (Nat.lt_succ_self c)
    rw [if_neg (fun hh => hc hh.1)]
    exact ih (fun i hi => h i (Nat.lt_succ_of_lt hi))

/-- with an injective index map, the value written by iteration `i` survives -/
theorem c19_sigmaLoop_written (n : Nat) (hn : 0 < n) (a : Array R) (g cnt : Nat)
    (hinj : ∀ i < cnt, ∀ j < cnt, i * g % n = j * g % n → i = j) (i : Nat) (hi : i < cnt) :
    (c19_sigmaLoop n a g cnt).getD (i * g % n) 0 = if (i * g / n) % 2 = 1 then - a.getD i 0 else a.getD i 0 := by
  induction cnt with
  | zero => omega
  | succ c ih =>
    rw [c19_sigmaLoop_succ, c19_getD_set, c19_sigmaLoop_size]
    by_cases hic : i = c
    · subst hic
      rw [if_pos ⟨rfl, Nat.mod_lt _ hn⟩]
    · have hlt : i < c := by omega
      have hne : ¬ (c * g % n = i * g % n) := fun hh => hic (hinj i hi c (Nat.lt_succ_self c) hh.symm)
      rw [if_neg (fun hh => hne hh.1)]
      exact ih (fun x hx y hy hxy => hinj x (Nat.lt_succ_of_lt hx) y (Nat.lt_succ_of_lt hy) hxy) hlt

/-- multiplication by a unit modulo n is injective on residues -/
theorem c19_mul_mod_inj (n g : Nat) (hco : Nat.Coprime n g) (i j : Nat) (hi : i < n) (hj : j < n)
    (h : i * g % n = j * g % n) : i = j := by
  have h1 : i ≡ j [MOD n] := Nat.ModEq.cancel_right_of_coprime hco h
  have h2 : i % n = j % n := h1
  rwa [Nat.mod_eq_of_lt hi, Nat.mod_eq_of_lt hj] at h2

theorem c19_coprime_pow_two (k m : Nat) (hm : 1 ≤ m) : Nat.Coprime (2^k) (2^m + 1) := by
  apply Nat.Coprime.pow_left
  rw [Nat.coprime_two_left]
  obtain ⟨m', rfl⟩ := Nat.exists_eq_succ_of_ne_zero (by omega : m ≠ 0)
  exact ⟨2^m', by rw [pow_succ]; ring⟩

/-! ### `σ_{2^m+1}` on N = 2^k coefficients: diagonal on the multiples of w = 2^(k-m) -/

theorem c19_pow_split (k m : Nat) (hm : m ≤ k) : 2^(k-m) * 2^m = 2^k := by
  rw [← pow_add]; congr 1; omega

/-- index and quotient of `(w·u)·(2^m+1)` -/
theorem c19_mult_index (k m u : Nat) (hm : m ≤ k) (hu : u < 2^m) :
    (2^(k-m) * u) * (2^m + 1) % 2^k = 2^(k-m) * u ∧ (2^(k-m) * u) * (2^m + 1) / 2^k = u := by
  have hw := c19_pow_split k m hm
  have hlt : 2^(k-m) * u < 2^k := by
    rw [← hw]; exact Nat.mul_lt_mul_of_pos_left hu (Nat.two_pow_pos _)
  have e : (2^(k-m) * u) * (2^m + 1) = 2^(k-m) * u + 2^k * u := by rw [← hw]; ring
  rw [e]
  constructor
  · rw [Nat.add_mul_mod_self_left, Nat.mod_eq_of_lt hlt]
  · rw [Nat.add_mul_div_left _ _ (Nat.two_pow_pos _), Nat.div_eq_of_lt hlt, Nat.zero_add]

theorem c19_sigma_inj (k m : Nat) (hm : 1 ≤ m) :
    ∀ i < 2^k, ∀ j < 2^k, i * (2^m+1) % 2^k = j * (2^m+1) % 2^k → i = j :=
  fun i hi j hj h => c19_mul_mod_inj _ _ (c19_coprime_pow_two k m hm) i j hi hj h

/-- coefficient `w·u` of `σ_{2^m+1}(a)` is `(-1)^u a_{w·u}` -/
theorem c19_sigma_at_mult (k m : Nat) (hm1 : 1 ≤ m) (hm : m ≤ k) (a : Array R) (u : Nat) (hu : u < 2^m) :
    (sigmaPoly (2^k) a (2^m+1)).getD (2^(k-m) * u) 0 =
      if u % 2 = 1 then - a.getD (2^(k-m) * u) 0 else a.getD (2^(k-m) * u) 0 := by
  obtain ⟨h1, h2⟩ := c19_mult_index k m u hm hu
  have hlt : 2^(k-m) * u < 2^k := by
    rw [← c19_pow_split k m hm]; exact Nat.mul_lt_mul_of_pos_left hu (Nat.two_pow_pos _)
  have := c19_sigmaLoop_written (2^k) (Nat.two_pow_pos _) a (2^m+1) (2^k) (c19_sigma_inj k m hm1) _ hlt
  rw [h1, h2] at this
  rw [c19_sigmaPoly_eq]; exact this

/-- if `a` vanishes off the multiples of `w`, so does `σ_{2^m+1}(a)` -/
theorem c19_sigma_support (k m : Nat) (hm : m ≤ k) (a : Array R)
    (ha : ∀ j < 2^k, ¬ 2^(k-m) ∣ j → a.getD j 0 = 0) (e : Nat) (he : ¬ 2^(k-m) ∣ e) :
    (sigmaPoly (2^k) a (2^m+1)).getD e 0 = 0 := by
  rw [c19_sigmaPoly_eq]
  -- by induction over the loop: every written value at an index that is not a multiple of w is ±0
  suffices h : ∀ cnt ≤ 2^k, (c19_sigmaLoop (2^k) a (2^m+1) cnt).getD e 0 = 0 from h _ (le_refl _)
  intro cnt
  induction cnt with
  | zero => intro _; exact c19_sigmaLoop_untouched _ _ _ _ _ (fun i hi => by omega)
  | succ c ih =>
    intro hc
    rw [c19_sigmaLoop_succ, c19_getD_set]
    split
    · next hh =>
      -- iteration c writes index e: then c is not a multiple of w, so a_c = 0
      have hcw : ¬ 2^(k-m) ∣ c := by
        intro ⟨u, hu⟩
        have hlt : c < 2^k := by omega
        have hu' : u < 2^m := by
          by_contra hge
          have : 2^(k-m) * 2^m ≤ 2^(k-m) * u := Nat.mul_le_mul_left _ (Nat.le_of_not_lt hge)
          rw [c19_pow_split k m hm] at this; omega
        have := (c19_mult_index k m u hm hu').1
        rw [← hu, hh.1] at this
        exact he ⟨u, by omega⟩
      have := ha c (by omega) hcw
      rw [this]; simp
    · exact ih (by omega)

/-! ### the field trace -/

/-- the first `i` iterations of the loop of `fieldTracePoly` -/
def c19_traceSteps (k i : Nat) (a : Array R) : Array R :=
  (List.range i).foldl (fun (a : Array R) i => addPoly (2^k) a (sigmaPoly (2^k) a (2^(k - i) + 1))) a

theorem c19_traceSteps_succ (k i : Nat) (a : Array R) :
    c19_traceSteps k (i+1) a =
      addPoly (2^k) (c19_traceSteps k i a) (sigmaPoly (2^k) (c19_traceSteps k i a) (2^(k - i) + 1)) := by
  unfold c19_traceSteps
  rw [List.range_succ, List.foldl_append]; rfl

theorem c19_fieldTrace_eq (k l : Nat) (a : Array R) : fieldTracePoly k l a = c19_traceSteps k (k - l) a := rfl

theorem c19_dvd_succ_pow (i j u : Nat) (hj : j = 2^i * u) : (2^(i+1) ∣ j) ↔ u % 2 = 0 := by
  subst hj
  rw [pow_succ]
  constructor
  · intro h
    have := Nat.dvd_of_mul_dvd_mul_left (Nat.two_pow_pos _) h
    omega
  · intro h
    exact Nat.mul_dvd_mul_left _ (Nat.dvd_of_mod_eq_zero h)

/-- invariant of the trace loop: after `i` steps coefficient j is `2^i·a_j` when `2^i ∣ j` and 0 otherwise -/
theorem c19_traceSteps_coeff (k i : Nat) (hi : i ≤ k) (a : Array R) (j : Nat) (hj : j < 2^k) :
    (c19_traceSteps k i a).getD j 0 = if 2^i ∣ j then (2:R)^i * a.getD j 0 else 0 := by
  induction i generalizing j with
  | zero => simp [c19_traceSteps]
  | succ i ih =>
    have hik : i ≤ k := by omega
    rw [c19_traceSteps_succ, c19_addPoly_getD _ _ _ _ hj]
    set s := c19_traceSteps k i a with hs
    have hkk : k - (k - i) = i := by omega
    by_cases hd : 2^i ∣ j
    · obtain ⟨u, hu⟩ := hd
      have hu' : u < 2^(k-i) := by
        by_contra hge
        have : 2^i * 2^(k-i) ≤ 2^i * u := Nat.mul_le_mul_left _ (Nat.le_of_not_lt hge)
        rw [← pow_add] at this
        have e : i + (k - i) = k := by omega
        rw [e] at this; omega
      have hsig := c19_sigma_at_mult k (k-i) (by omega) (by omega) s u hu'
      rw [hkk, ← hu] at hsig
      rw [hsig, ih hik j hj, if_pos ⟨u, hu⟩]
      have hiff := c19_dvd_succ_pow i j u hu
      by_cases hodd : u % 2 = 1
      · rw [if_pos hodd, if_neg (fun h => by have := hiff.mp h; omega)]; ring
      · rw [if_neg hodd, if_pos (hiff.mpr (by omega))]; rw [pow_succ]; ring
    · have hsup := c19_sigma_support k (k-i) (by omega) s
        (fun j' hj' hnd => by rw [hkk] at hnd; rw [ih hik j' hj', if_neg hnd]) j (by rw [hkk]; exact hd)
      rw [hsup, ih hik j hj, if_neg hd, if_neg]
      · ring
      · intro h; exact hd (Dvd.dvd.trans ⟨2, by rw [pow_succ]⟩ h)

/-! ### PackLWEs -/

theorem c19_packLogGo_spec (f c l0 : Nat) :
    l0 ≤ packLogGo f c l0 ∧ packLogGo f c l0 ≤ l0 + f ∧
    (∀ l', l0 ≤ l' → l' < packLogGo f c l0 → 2^l' < c) ∧
    (packLogGo f c l0 = l0 + f ∨ c ≤ 2^(packLogGo f c l0)) := by
  induction f generalizing l0 with
  | zero =>
    have e : packLogGo 0 c l0 = l0 := rfl
    rw [e]; exact ⟨le_refl _, le_refl _, fun l' h1 h2 => by omega, Or.inl rfl⟩
  | succ f ih =>
    unfold packLogGo
    split
    · next h =>
      obtain ⟨h1, h2, h3, h4⟩ := ih (l0+1)
      refine ⟨by omega, by omega, ?_, ?_⟩
      · intro l' hl hlt
        by_cases e : l' = l0
        · subst e; exact h
        · exact h3 l' (by omega) hlt
      · rcases h4 with h4 | h4
        · left; omega
        · right; exact h4
    · next h =>
      refine ⟨le_refl _, by omega, fun l' hl hlt => by omega, Or.inr (by omega)⟩

theorem c19_packLog_ge (c : Nat) : c ≤ 2^(packLog c) := by
  obtain ⟨_, _, _, h4⟩ := c19_packLogGo_spec c c 0
  unfold packLog
  rcases h4 with h4 | h4
  · rw [h4, Nat.zero_add]; exact le_of_lt (Nat.lt_two_pow_self)
  · exact h4

theorem c19_packLog_min (c l' : Nat) (h : c ≤ 2^l') : packLog c ≤ l' := by
  obtain ⟨_, _, h3, _⟩ := c19_packLogGo_spec c c 0
  unfold packLog
  by_contra hlt
  have := h3 l' (Nat.zero_le _) (by omega)
  omega

/-- one butterfly on the coefficients whose index is a multiple of w = N/2^(lam+1):
    even multiples come from `even` (doubled), odd multiples from `odd` one step to the left (doubled) -/
theorem c19_packMerge_at_mult (k lam : Nat) (hlam : lam + 1 ≤ k) (E O : Array R) (u : Nat) (hu : u < 2^(lam+1)) :
    (packMerge k lam E O).getD (2^(k-(lam+1)) * u) 0 =
      if u % 2 = 0 then 2 * E.getD (2^(k-(lam+1)) * u) 0 else 2 * O.getD (2^(k-(lam+1)) * (u - 1)) 0 := by
  have hw := c19_pow_split k (lam+1) hlam
  have hdiv : 2^k / 2^(lam+1) = 2^(k-(lam+1)) := Nat.pow_div hlam (by norm_num)
  have hlt : 2^(k-(lam+1)) * u < 2^k := by
    rw [← hw]; exact Nat.mul_lt_mul_of_pos_left hu (Nat.two_pow_pos _)
  have hslt : 2^(k-(lam+1)) < 2^k := Nat.pow_lt_pow_right (by norm_num) (by omega)
  unfold packMerge
  simp only [hdiv]
  rw [c19_addPoly_getD _ _ _ _ hlt, c19_addPoly_getD _ _ _ _ hlt,
      c19_sigma_at_mult k (lam+1) (by omega) hlam _ u hu, c19_subPoly_getD _ _ _ _ hlt,
      c19_shiftPoly_getD_lt _ _ _ _ hslt hlt]
  by_cases hodd : u % 2 = 1
  · have hu1 : 1 ≤ u := by omega
    have hle : 2^(k-(lam+1)) ≤ 2^(k-(lam+1)) * u := Nat.le_mul_of_pos_right _ hu1
    have hsub : 2^(k-(lam+1)) * u - 2^(k-(lam+1)) = 2^(k-(lam+1)) * (u - 1) := by
      rw [Nat.mul_sub, Nat.mul_one]
    rw [if_pos hodd, if_pos hle, if_neg (by omega : ¬ u % 2 = 0), hsub]; ring
  · rw [if_neg hodd, if_pos (by omega : u % 2 = 0)]; ring

/-- the array after the first `lam` layers -/
def c19_packLayers (k l lam : Nat) (leaves : Array (Array R)) : Array (Array R) :=
  (List.range lam).foldl (fun arr layer => packLayer k l layer arr) leaves

theorem c19_packLayers_succ (k l lam : Nat) (leaves : Array (Array R)) :
    c19_packLayers k l (lam+1) leaves = packLayer k l lam (c19_packLayers k l lam leaves) := by
  unfold c19_packLayers
  rw [List.range_succ, List.foldl_append]; rfl

theorem c19_packLayer_even (k l lam : Nat) (arr : Array (Array R)) (o : Nat) (ho : o < 2^l) (hmod : o % (2 * 2^lam) = 0) :
    (packLayer k l lam arr).getD o #[] = packMerge k lam (arr.getD o #[]) (arr.getD (o + 2^lam) #[]) := by
  unfold packLayer
  rw [c19_getD_ofFn _ _ _ ho]
  simp only [hmod, if_true]

theorem c19_mult_add_lt (l lam o : Nat) (hl : lam + 1 ≤ l) (ho : o < 2^l) (hd : 2^(lam+1) ∣ o) : o + 2^lam < 2^l := by
  obtain ⟨q, rfl⟩ := hd
  have e : 2^l = 2^(lam+1) * 2^(l-(lam+1)) := by rw [← pow_add]; congr 1; omega
  rw [e] at ho ⊢
  have hq : q < 2^(l-(lam+1)) := Nat.lt_of_mul_lt_mul_left ho
  have h2 : 2^(lam+1) * (q+1) ≤ 2^(lam+1) * 2^(l-(lam+1)) := Nat.mul_le_mul_left _ hq
  have h3 : 2^lam < 2^(lam+1) := Nat.pow_lt_pow_right (by norm_num) (by omega)
  rw [Nat.mul_add, Nat.mul_one] at h2
  omega

/-- invariant of the merge layers: after `lam` layers, slot `o` (a multiple of 2^lam) holds at coefficient
    `(N/2^lam)·u` the constant coefficient of leaf `o + brev lam u`, times 2^lam -/
theorem c19_packLayers_inv (k l : Nat) (hl : l ≤ k) (leaves : Array (Array R)) (lam : Nat) (hlam : lam ≤ l)
    (o : Nat) (ho : o < 2^l) (hd : 2^lam ∣ o) (u : Nat) (hu : u < 2^lam) :
    ((c19_packLayers k l lam leaves).getD o #[]).getD (2^(k-lam) * u) 0 =
      (2:R)^lam * ((leaves.getD (o + brev lam u) #[]).getD 0 0) := by
  induction lam generalizing o u with
  | zero =>
    have : u = 0 := by simpa using hu
    subst this
    simp [c19_packLayers, brev]
  | succ lam ih =>
    have hmod : o % (2 * 2^lam) = 0 := by
      rw [← pow_succ']; exact Nat.mod_eq_zero_of_dvd hd
    have hd' : 2^lam ∣ o := Dvd.dvd.trans ⟨2, by rw [pow_succ]⟩ hd
    have ho2 := c19_mult_add_lt l lam o hlam ho hd
    have hd2 : 2^lam ∣ o + 2^lam := Dvd.dvd.add hd' (dvd_refl _)
    have hkk : 2^(k-lam) = 2^(k-(lam+1)) * 2 := by
      rw [← pow_succ]; congr 1; omega
    rw [c19_packLayers_succ, c19_packLayer_even k l lam _ o ho hmod,
        c19_packMerge_at_mult k lam (by omega) _ _ u hu]
    by_cases hev : u % 2 = 0
    · obtain ⟨u', rfl⟩ : ∃ u', u = 2 * u' := ⟨u / 2, by omega⟩
      have hu' : u' < 2^lam := by rw [pow_succ] at hu; omega
      have e1 : 2^(k-(lam+1)) * (2 * u') = 2^(k-lam) * u' := by rw [hkk]; ring
      rw [if_pos hev, e1, ih (by omega) o ho hd' u' hu', brev_two_mul, pow_succ]; ring
    · obtain ⟨u', rfl⟩ : ∃ u', u = 2 * u' + 1 := ⟨u / 2, by omega⟩
      have hu' : u' < 2^lam := by rw [pow_succ] at hu; omega
      have e1 : 2^(k-(lam+1)) * (2 * u' + 1 - 1) = 2^(k-lam) * u' := by
        rw [hkk, Nat.add_sub_cancel]; ring
      rw [if_neg hev, e1, ih (by omega) (o + 2^lam) ho2 hd2 u' hu', brev_two_mul_add_one, pow_succ]
      have e2 : o + 2^lam + brev lam u' = o + (2^lam + brev lam u') := by ring
      rw [e2]; ring

theorem c19_packLeaves_const (k l : Nat) (ninv : R) (ins : Array (Array R)) (i : Nat) (hi : i < 2^l) :
    ((packLeaves k l ninv ins).getD i #[]).getD 0 0 =
      if brev l i < ins.size then ninv * (ins.getD (brev l i) #[]).getD 0 0 else 0 := by
  unfold packLeaves
  rw [c19_getD_ofFn _ _ _ hi]
  simp only
  split
  · exact c19_scalePoly_getD _ _ _ 0 (Nat.two_pow_pos _)
  · exact c19_getD_replicate _ _ _

theorem c19_packPoly_eq (k : Nat) (ninv : R) (ins : Array (Array R)) :
    packPoly k ninv ins =
      fieldTracePoly k (packLog ins.size)
        ((c19_packLayers k (packLog ins.size) (packLog ins.size) (packLeaves k (packLog ins.size) ninv ins)).getD 0 #[]) := rfl

/-! ### the monomial shift -/

/-- `shiftPoly` read-out at an index below the degree -/
theorem c19_shiftPoly_getD (n : Nat) (a : Array R) (s j : Nat) (hj : j < n) :
    (shiftPoly n a s).getD j 0 =
      if s % n ≤ j then (if (s / n) % 2 = 1 then - a.getD (j - s % n) 0 else a.getD (j - s % n) 0)
      else (if (s / n) % 2 = 1 then a.getD (j + n - s % n) 0 else - a.getD (j + n - s % n) 0) := by
  unfold shiftPoly
  rw [c19_getD_ofFn _ _ _ hj]

/-- the monomial `±X^(s mod n)` (sign `-` when `⌊s/n⌋` is odd, i.e. `X^s` reduced with `X^n = -1`) -/
def c19_mono (n s : Nat) (j : Nat) : R := if j = s % n then (if (s / n) % 2 = 1 then -1 else 1) else 0

/-- `shiftPoly` is the negacyclic product with the monomial X^s -/
theorem c19_shift_is_mul (n : Nat) (hn : 0 < n) (a : Array R) (s e : Nat) (he : e < n) :
    (shiftPoly n a s).getD e 0 = negMulR n (fun i => a.getD i 0) (c19_mono n s) e := by
  have hr : s % n < n := Nat.mod_lt _ hn
  rw [c19_shiftPoly_getD _ _ _ _ he]
  unfold negMulR
  by_cases hle : s % n ≤ e
  · rw [if_pos hle, Finset.sum_eq_single (e - s % n)]
    · rw [if_pos (Nat.sub_le _ _)]
      have e1 : e - (e - s % n) = s % n := by omega
      simp only [c19_mono, e1, if_true]
      by_cases hf : s / n % 2 = 1
      · rw [if_pos hf, if_pos hf]; ring
      · rw [if_neg hf, if_neg hf]; ring
    · intro i hi hne
      have hi' : i < n := Finset.mem_range.mp hi
      split
      · next h => simp only [c19_mono]; rw [if_neg (by omega)]; ring
      · next h => simp only [c19_mono]; rw [if_neg (by omega)]; ring
    · intro h; exact absurd (Finset.mem_range.mpr (by omega)) h
  · rw [if_neg hle, Finset.sum_eq_single (e + n - s % n)]
    · rw [if_neg (by omega : ¬ e + n - s % n ≤ e)]
      have e1 : n + e - (e + n - s % n) = s % n := by omega
      simp only [c19_mono, e1, if_true]
      by_cases hf : s / n % 2 = 1
      · rw [if_pos hf, if_pos hf]; ring
      · rw [if_neg hf, if_neg hf]; ring
    · intro i hi hne
      have hi' : i < n := Finset.mem_range.mp hi
      split
      · next h => simp only [c19_mono]; rw [if_neg (by omega)]; ring
      · next h => simp only [c19_mono]; rw [if_neg (by omega)]; ring
    · intro h; exact absurd (Finset.mem_range.mpr (by omega)) h

/-- the shift of the extraction: for 0 < t < n, X^(2n-t)·a has coefficient j equal to a_(j+t), wrapped ones negated -/
theorem c19_extract_shift (n : Nat) (a : Array R) (t j : Nat) (ht0 : 0 < t) (ht : t < n) (hj : j < n) :
    (shiftPoly n a (n * 2 - t)).getD j 0 = if j < n - t then a.getD (j + t) 0 else - a.getD (j + t - n) 0 := by
  have e0 : n * 2 - t = (n - t) + n * 1 := by omega
  have h1 : (n * 2 - t) % n = n - t := by
    rw [e0, Nat.add_mul_mod_self_left]; exact Nat.mod_eq_of_lt (by omega)
  have h2 : (n * 2 - t) / n = 1 := by
    rw [e0, Nat.add_mul_div_left _ _ (by omega : 0 < n), Nat.div_eq_of_lt (by omega)]
  rw [c19_shiftPoly_getD _ _ _ _ hj, h1, h2]
  by_cases hlt : j < n - t
  · rw [if_neg (by omega), if_pos hlt, if_pos (by norm_num)]
    congr 1; omega
  · rw [if_pos (by omega), if_neg hlt, if_pos (by norm_num)]
    congr 2; omega

theorem c19_sum_split (f : ℕ → R) (n t : Nat) (ht : t ≤ n) :
    ∑ j ∈ range n, f j = ∑ j ∈ range (n - t), f j + ∑ i ∈ range t, f (n - t + i) := by
  obtain ⟨m, rfl⟩ : ∃ m, n = m + t := ⟨n - t, by omega⟩
  rw [Finset.sum_range_add, Nat.add_sub_cancel]

theorem c19_sum_split' (f : ℕ → R) (n t : Nat) (ht : t ≤ n) :
    ∑ j ∈ range n, f j = ∑ i ∈ range t, f i + ∑ j ∈ range (n - t), f (t + j) := by
  obtain ⟨m, rfl⟩ : ∃ m, n = t + m := ⟨n - t, by omega⟩
  rw [Finset.sum_range_add, Nat.add_sub_cancel_left]

/-- the ring identity behind `extract_lwe`: with c1' = X^(-t)·c1 (the shift by 2n - t), the constant coefficient of
    c1'·s is coefficient t of c1·s -/
theorem c19_extract_identity (n : Nat) (a : Array R) (s : Nat → R) (t : Nat) (ht : t < n) :
    negMulR n (fun j => (shiftPoly n a (if t = 0 then 0 else n * 2 - t)).getD j 0) s 0 =
      negMulR n (fun j => a.getD j 0) s t := by
  by_cases ht0 : t = 0
  · subst ht0
    unfold negMulR
    apply Finset.sum_congr rfl
    intro j hj
    have hj' : j < n := Finset.mem_range.mp hj
    have : (shiftPoly n a 0).getD j 0 = a.getD j 0 := by
      rw [c19_shiftPoly_getD _ _ _ _ hj']; simp [Nat.zero_mod, Nat.zero_div]
    simp only [if_true, this]
  · have htp : 0 < t := Nat.pos_of_ne_zero ht0
    rw [if_neg ht0]
    unfold negMulR
    rw [c19_sum_split _ n t (le_of_lt ht), c19_sum_split' (fun i => if i ≤ t then _ else _) n t (le_of_lt ht), add_comm]
    congr 1
    · -- wrapped part: j = n - t + i  ↔  i < t
      apply Finset.sum_congr rfl
      intro i hi
      have hi' : i < t := Finset.mem_range.mp hi
      simp only []
      rw [c19_extract_shift n a t _ htp ht (by omega : n - t + i < n)]
      rw [if_neg (by omega : ¬ n - t + i ≤ 0), if_neg (by omega : ¬ n - t + i < n - t), if_pos (by omega : i ≤ t)]
      have e1 : n - t + i + t - n = i := by omega
      have e2 : n + 0 - (n - t + i) = t - i := by omega
      rw [e1, e2]; ring
    · apply Finset.sum_congr rfl
      intro j hj
      have hj' : j < n - t := Finset.mem_range.mp hj
      simp only []
      rw [c19_extract_shift n a t _ htp ht (by omega : j < n), if_pos hj']
      by_cases hj0 : j = 0
      · subst hj0
        rw [if_pos (le_refl _), if_pos (by omega : t + 0 ≤ t)]
        simp
      · rw [if_neg (by omega : ¬ j ≤ 0), if_neg (by omega : ¬ t + j ≤ t)]
        have e1 : n + 0 - j = n + t - (t + j) := by omega
        have e2 : j + t = t + j := by omega
        rw [e1, e2]

end Ring

/-! ### value level: the scatter loop of `negacyclicShift`, `extractLwe`, `assembleLwe` -/

def c19_scat (n : Nat) (π f : Nat → Nat) (cnt : Nat) : Array Nat :=
  (List.range cnt).foldl (fun (res : Array Nat) i => res.setIfInBounds (π i) (f i)) (Array.replicate n 0)

theorem c19_scat_succ (n : Nat) (π f : Nat → Nat) (cnt : Nat) :
    c19_scat n π f (cnt+1) = (c19_scat n π f cnt).setIfInBounds (π cnt) (f cnt) := by
  unfold c19_scat; rw [List.range_succ, List.foldl_append]; rfl

theorem c19_scat_size (n : Nat) (π f : Nat → Nat) (cnt : Nat) : (c19_scat n π f cnt).size = n := by
  induction cnt with
  | zero => simp [c19_scat]
  | succ c ih => rw [c19_scat_succ, Array.size_setIfInBounds, ih]

theorem c19_scat_written (n : Nat) (π f : Nat → Nat) (cnt : Nat) (hb : ∀ i < cnt, π i < n)
    (hinj : ∀ i < cnt, ∀ j < cnt, π i = π j → i = j) (i : Nat) (hi : i < cnt) :
    (c19_scat n π f cnt).getD (π i) 0 = f i := by
  induction cnt with
  | zero => omega
  | succ c ih =>
    rw [c19_scat_succ, c19_getD_set, c19_scat_size]
    by_cases hic : i = c
    · subst hic; rw [if_pos ⟨rfl, hb i hi⟩]
    · have hlt : i < c := by omega
      have hne : ¬ (π c = π i) := fun hh => hic (hinj i hi c (Nat.lt_succ_self c) hh.symm)
      rw [if_neg (fun hh => hne hh.1)]
      exact ih (fun x hx => hb x (Nat.lt_succ_of_lt hx))
        (fun x hx y hy hxy => hinj x (Nat.lt_succ_of_lt hx) y (Nat.lt_succ_of_lt hy) hxy) hlt

theorem c19_negacyclicShift_eq (a : Array Nat) (s : Nat) (m : Modulus) (hs : s ≠ 0) :
    negacyclicShift a s m = c19_scat a.size (fun i => (s + i) % a.size)
      (fun i => if a.getD i 0 = 0 ∨ ((s + i) / a.size) % 2 = 0 then a.getD i 0 else m.value - a.getD i 0) a.size := by
  unfold negacyclicShift c19_scat
  rw [if_neg hs]

/-- the negation the code uses: `0 ↦ 0`, `x ↦ q - x` -/
def c19_negQ (q x : Nat) : Nat := if x = 0 then 0 else q - x

theorem c19_shift_index (n s i c r e : Nat) (hn : 0 < n) (hs : s = n * c + r) (he : e < n) (hi : r + i = e + n * 0 ∨ r + i = e + n * 1) :
    (s + i) % n = e ∧ (s + i) / n = if r + i = e then c else c + 1 := by
  rcases hi with hi | hi
  · have e1 : s + i = n * c + e := by omega
    have hre : r + i = e := by omega
    rw [e1, Nat.mul_add_mod, Nat.mod_eq_of_lt he, Nat.mul_add_div hn, Nat.div_eq_of_lt he, if_pos hre]
    exact ⟨rfl, by omega⟩
  · have e1 : s + i = n * (c + 1) + e := by rw [Nat.mul_add]; omega
    have hre : ¬ r + i = e := by omega
    rw [e1, Nat.mul_add_mod, Nat.mod_eq_of_lt he, Nat.mul_add_div hn, Nat.div_eq_of_lt he, if_neg hre]
    exact ⟨rfl, by omega⟩

/-- coefficient / sign rule of `negacyclic_shift` for EVERY shift: output coefficient e is input coefficient
    e - s (mod n), negated once for every wrap past n -/
theorem c19_shift_coeff_rule (a : Array Nat) (s : Nat) (m : Modulus) (e : Nat) (he : e < a.size) :
    (negacyclicShift a s m).getD e 0 =
      if s % a.size ≤ e then
        (if (s / a.size) % 2 = 1 then c19_negQ m.value (a.getD (e - s % a.size) 0) else a.getD (e - s % a.size) 0)
      else
        (if (s / a.size) % 2 = 1 then a.getD (e + a.size - s % a.size) 0 else c19_negQ m.value (a.getD (e + a.size - s % a.size) 0)) := by
  have hn : 0 < a.size := by omega
  by_cases hs0 : s = 0
  · subst hs0
    unfold negacyclicShift
    simp
  · rw [c19_negacyclicShift_eq a s m hs0]
    set n := a.size with hnd
    have hr : s % n < n := Nat.mod_lt _ hn
    have hsd : s = n * (s / n) + s % n := (Nat.div_add_mod s n).symm
    have hinj : ∀ i < n, ∀ j < n, (s + i) % n = (s + j) % n → i = j := by
      intro i hi j hj h
      have h1 : i ≡ j [MOD n] := Nat.ModEq.add_left_cancel' s h
      have h2 : i % n = j % n := h1
      rwa [Nat.mod_eq_of_lt hi, Nat.mod_eq_of_lt hj] at h2
    by_cases hle : s % n ≤ e
    · have hi : e - s % n < n := by omega
      obtain ⟨h1, h2⟩ := c19_shift_index n s (e - s % n) (s / n) (s % n) e hn hsd he (Or.inl (by omega))
      have hw := c19_scat_written n (fun i => (s + i) % n)
        (fun i => if a.getD i 0 = 0 ∨ ((s + i) / n) % 2 = 0 then a.getD i 0 else m.value - a.getD i 0) n
        (fun i _ => Nat.mod_lt _ hn) hinj _ hi
      simp only [h1, h2] at hw
      rw [hw, if_pos hle, if_pos (by omega : s % n + (e - s % n) = e)]
      unfold c19_negQ
      by_cases hp : s / n % 2 = 1
      · rw [if_pos hp]
        by_cases hz : a.getD (e - s % n) 0 = 0
        · rw [if_pos (Or.inl hz), if_pos hz, hz]
        · rw [if_neg (by omega), if_neg hz]
      · rw [if_neg hp, if_pos (Or.inr (by omega))]
    · have hi : e + n - s % n < n := by omega
      obtain ⟨h1, h2⟩ := c19_shift_index n s (e + n - s % n) (s / n) (s % n) e hn hsd he (Or.inr (by omega))
      have hw := c19_scat_written n (fun i => (s + i) % n)
        (fun i => if a.getD i 0 = 0 ∨ ((s + i) / n) % 2 = 0 then a.getD i 0 else m.value - a.getD i 0) n
        (fun i _ => Nat.mod_lt _ hn) hinj _ hi
      simp only [h1, h2] at hw
      rw [hw, if_neg hle, if_neg (by omega : ¬ s % n + (e + n - s % n) = e)]
      unfold c19_negQ
      by_cases hp : s / n % 2 = 1
      · rw [if_pos hp, if_pos (Or.inr (by omega))]
      · rw [if_neg hp]
        by_cases hz : a.getD (e + n - s % n) 0 = 0
        · rw [if_pos (Or.inl hz), if_pos hz, hz]
        · rw [if_neg (by omega), if_neg hz]

theorem c19_negQ_cast (q x : Nat) (hx : x ≤ q) : ((c19_negQ q x : Nat) : ZMod q) = - (x : ZMod q) := by
  unfold c19_negQ
  split
  · next h => subst h; simp
  · rw [Nat.cast_sub hx, ZMod.natCast_self]; ring

theorem c19_map_getD (q : Nat) (a : Array Nat) (i : Nat) :
    (a.map (fun (x : Nat) => (x : ZMod q))).getD i 0 = ((a.getD i 0 : Nat) : ZMod q) := by
  by_cases hi : i < a.size <;> simp [hi]

/-- value level = phase level: the residues `negacyclic_shift` writes are, in Z_q, the coefficients of `shiftPoly` -/
theorem c19_shift_value_is_phase (a : Array Nat) (s : Nat) (m : Modulus) (hcan : ∀ i < a.size, a.getD i 0 ≤ m.value)
    (e : Nat) (he : e < a.size) :
    (((negacyclicShift a s m).getD e 0 : Nat) : ZMod m.value) =
      (shiftPoly a.size (a.map (fun (x : Nat) => (x : ZMod m.value))) s).getD e 0 := by
  have hn : 0 < a.size := by omega
  have hr : s % a.size < a.size := Nat.mod_lt _ hn
  rw [c19_shift_coeff_rule a s m e he, c19_shiftPoly_getD _ _ _ _ he]
  simp only [c19_map_getD]
  by_cases hle : s % a.size ≤ e
  · rw [if_pos hle, if_pos hle]
    by_cases hp : s / a.size % 2 = 1
    · rw [if_pos hp, if_pos hp, c19_negQ_cast _ _ (hcan _ (by omega))]
    · rw [if_neg hp, if_neg hp]
  · rw [if_neg hle, if_neg hle]
    by_cases hp : s / a.size % 2 = 1
    · rw [if_pos hp, if_pos hp]
    · rw [if_neg hp, if_neg hp, c19_negQ_cast _ _ (hcan _ (by omega))]

theorem c19_negacyclicShift_size (a : Array Nat) (s : Nat) (m : Modulus) : (negacyclicShift a s m).size = a.size := by
  by_cases hs0 : s = 0
  · subst hs0; unfold negacyclicShift; simp
  · rw [c19_negacyclicShift_eq a s m hs0, c19_scat_size]

/-- the coefficient-form polynomials `extract_lwe` works on (an NTT-form input is transformed back first) -/
def c19_coeffPoly (l : Level) (ct : Ct) (idx : Nat) : RnsPoly :=
  if ct.ntt then rnsIntt l (ct.polys.getD idx #[]) else ct.polys.getD idx #[]

theorem c19_extractLwe_ok (l : Level) (ct : Ct) (term : Nat) (h2 : ct.polys.size = 2) (hv : ctValidFor l ct = true)
    (ht : term < l.n) :
    extractLwe l ct term = .ok
      ⟨Array.ofFn (n := l.size) fun i =>
          negacyclicShift ((c19_coeffPoly l ct 1).getD i.val #[]) (if term = 0 then 0 else l.n * 2 - term) (l.q i.val),
       Array.ofFn (n := l.size) fun i => ((c19_coeffPoly l ct 0).getD i.val #[]).getD term 0,
       ct.cf⟩ := by
  unfold extractLwe c19_coeffPoly
  by_cases ht0 : term = 0
  · subst ht0
    simp [h2, hv, bind, Except.bind, pure, Except.pure]
    omega
  · have hle : term ≤ l.n * 2 := by omega
    simp [h2, hv, bind, Except.bind, pure, Except.pure, ht0, ckSub, hle, Nat.not_le.mpr ht]

theorem c19_assemble_c1 (l : Level) (w : Lwe) : (assembleLwe l w).polys.getD 1 #[] = w.c1 := by
  simp [assembleLwe]

theorem c19_assemble_c0 (l : Level) (w : Lwe) (i : Nat) (hi : i < l.size) (hn : 0 < l.n) :
    (((assembleLwe l w).polys.getD 0 #[]).getD i #[]).getD 0 0 = w.c0.getD i 0 := by
  have h0 : (assembleLwe l w).polys.getD 0 #[] =
      Array.ofFn (n := l.size) fun i => (Array.replicate l.n 0).setIfInBounds 0 (w.c0.getD i.val 0) := by
    simp [assembleLwe]
  rw [h0, c19_getD_ofFn _ _ _ hi, c19_getD_set]
  simp [hn]

/-- `extract_assemble` for one RNS component, any secret-key vector `s` over Z_q:
    constant coefficient of (c0' + c1'·s) of the assembled ciphertext = coefficient `term` of (c0 + c1·s) of the source -/
theorem c19_extract_assemble (l : Level) (ct : Ct) (term : Nat) (h2 : ct.polys.size = 2) (hv : ctValidFor l ct = true)
    (ht : term < l.n) :
    ∃ w, extractLwe l ct term = .ok w ∧ (assembleLwe l w).ntt = false ∧ (assembleLwe l w).cf = ct.cf ∧
      ∀ i, i < l.size →
        ((c19_coeffPoly l ct 1).getD i #[]).size = l.n →
        (∀ j < l.n, ((c19_coeffPoly l ct 1).getD i #[]).getD j 0 ≤ (l.q i).value) →
        ∀ s : Nat → ZMod (l.q i).value,
          ((((assembleLwe l w).polys.getD 0 #[]).getD i #[]).getD 0 0 : ZMod (l.q i).value)
            + negMulR l.n (fun j => (((((assembleLwe l w).polys.getD 1 #[]).getD i #[]).getD j 0 : Nat) : ZMod (l.q i).value)) s 0
          = ((((c19_coeffPoly l ct 0).getD i #[]).getD term 0 : Nat) : ZMod (l.q i).value)
            + negMulR l.n (fun j => ((((c19_coeffPoly l ct 1).getD i #[]).getD j 0 : Nat) : ZMod (l.q i).value)) s term := by
  refine ⟨_, c19_extractLwe_ok l ct term h2 hv ht, rfl, rfl, ?_⟩
  intro i hi hsz hcan s
  have hn : 0 < l.n := by omega
  rw [c19_assemble_c0 l _ i hi hn, c19_assemble_c1]
  simp only [c19_getD_ofFn _ _ _ hi]
  congr 1
  set c1 := (c19_coeffPoly l ct 1).getD i #[] with hc1
  have key := c19_extract_identity (R := ZMod (l.q i).value) l.n (c1.map (fun (x : Nat) => (x : ZMod (l.q i).value))) s term ht
  have e1 : negMulR l.n (fun j => (((negacyclicShift c1 (if term = 0 then 0 else l.n * 2 - term) (l.q i)).getD j 0 : Nat) : ZMod (l.q i).value)) s 0
      = negMulR l.n (fun j => (shiftPoly l.n (c1.map (fun (x : Nat) => (x : ZMod (l.q i).value))) (if term = 0 then 0 else l.n * 2 - term)).getD j 0) s 0 := by
    unfold negMulR
    apply Finset.sum_congr rfl
    intro j hj
    have hj' : j < c1.size := by rw [hsz]; exact Finset.mem_range.mp hj
    have := c19_shift_value_is_phase c1 (if term = 0 then 0 else l.n * 2 - term) (l.q i)
      (fun x hx => hcan x (by rw [← hsz]; exact hx)) j hj'
    rw [hsz] at this
    simp only [this]
  have e2 : negMulR l.n (fun j => ((c1.getD j 0 : Nat) : ZMod (l.q i).value)) s term
      = negMulR l.n (fun j => (c1.map (fun (x : Nat) => (x : ZMod (l.q i).value))).getD j 0) s term := by
    simp only [c19_map_getD]
  rw [e1, e2, key]

end HC
