/-
  L8: compositional codec laws (DESIGN.md Appendix A.5), core Lean only.
  `Lawful c`:  rt   decoding an encoding followed by anything returns the (normalised) object and the rest,
               pre  every strict prefix of an encoding decodes to `eof`,
               len  the encoding has exactly `size` bytes.
  Closed under every combinator of `Model/Codec.lean`.
-/
import Heathcliff.Model.Codec
namespace HC.Codec

structure Codec.Lawful {α} (c : Codec α) : Prop where
  rt  : ∀ x, c.valid x → ∀ r, c.dec (c.enc x ++ r) = .ok (c.norm x, r)
  pre : ∀ x, c.valid x → ∀ k, k < (c.enc x).length → ∃ s, c.dec ((c.enc x).take k) = .error (.eof s)
  len : ∀ x, c.valid x → (c.enc x).length = c.size x

theorem flat_append (a b : List Chunk) : flat (a ++ b) = flat a ++ flat b := by
  induction a with
  | nil => rfl
  | cons c cs ih => simp [flat, ih, List.append_assoc]

/-! ### little-endian bytes -/

theorem leBytes_length (n v : Nat) : (leBytes n v).length = n := by
  induction n generalizing v with
  | zero => rfl
  | succ n ih => simp [leBytes, ih]

theorem leVal_leBytes (n v : Nat) (h : v < 256 ^ n) : leVal (leBytes n v) = v := by
  induction n generalizing v with
  | zero => simp at h; subst h; rfl
  | succ n ih =>
    have h2 : v / 256 < 256 ^ n := by
      rw [Nat.div_lt_iff_lt_mul (by decide)]; rw [Nat.pow_succ] at h; exact h
    simp only [leBytes, leVal, ih _ h2]
    omega

theorem leBytes_lt (n v : Nat) : ∀ b ∈ leBytes n v, b < 256 := by
  induction n generalizing v with
  | zero => intro b hb; simp [leBytes] at hb
  | succ n ih =>
    intro b hb
    simp only [leBytes, List.mem_cons] at hb
    rcases hb with rfl | hb
    · exact Nat.mod_lt _ (by decide)
    · exact ih _ b hb

theorem leVal_lt (l : List Nat) (h : ∀ b ∈ l, b < 256) : leVal l < 256 ^ l.length := by
  induction l with
  | nil => simp [leVal]
  | cons b r ih =>
    have hb := h b (by simp)
    have hr := ih (fun x hx => h x (by simp [hx]))
    simp only [leVal, List.length_cons, Nat.pow_succ]
    omega

theorem leBytes_leVal (l : List Nat) (h : ∀ b ∈ l, b < 256) : leBytes l.length (leVal l) = l := by
  induction l with
  | nil => rfl
  | cons b r ih =>
    have hb := h b (by simp)
    have hr := ih (fun x hx => h x (by simp [hx]))
    simp only [List.length_cons, leBytes, leVal]
    have h1 : (b + 256 * leVal r) % 256 = b := by omega
    have h2 : (b + 256 * leVal r) / 256 = leVal r := by omega
    rw [h1, h2, hr]

/-! ### scalars -/

theorem scalarC_enc (s : SK) (n v : Nat) : (scalarC s n).enc v = leBytes n v := by
  simp [Codec.enc, scalarC, flat]

theorem scalarC_lawful (s : SK) (n : Nat) : (scalarC s n).Lawful := by
  constructor
  · intro v hv r
    have hl := leBytes_length n v
    simp only [scalarC_enc]
    simp only [scalarC, readExact, List.length_append, hl]
    have : ¬ (n + r.length < n) := by omega
    simp only [this, if_false]
    have h1 : (leBytes n v ++ r).take n = leBytes n v := by
      rw [List.take_append_of_le_length (by omega)]; exact List.take_of_length_le (by omega)
    have h2 : (leBytes n v ++ r).drop n = r := by
      have h := @List.drop_left _ (leBytes n v) r
      rw [hl] at h; exact h
    rw [h1, h2, leVal_leBytes n v hv]
  · intro v _ k hk
    simp only [scalarC_enc, leBytes_length] at hk ⊢
    refine ⟨s, ?_⟩
    simp only [scalarC, readExact, List.length_take, leBytes_length]
    have : min k n < n := by omega
    simp [this]
  · intro v _
    rw [scalarC_enc, leBytes_length]; rfl

theorem u64C_lawful : u64C.Lawful := scalarC_lawful _ _
theorem usizeC_lawful : usizeC.Lawful := scalarC_lawful _ _
theorem u8C_lawful : u8C.Lawful := scalarC_lawful _ _

/-! ### pair / dependent pair -/

theorem take_append_cases {α} (a b : List α) (k : Nat) :
    (k < a.length ∧ (a ++ b).take k = a.take k) ∨
    (a.length ≤ k ∧ (a ++ b).take k = a ++ b.take (k - a.length)) := by
  by_cases h : k < a.length
  · left; exact ⟨h, List.take_append_of_le_length (Nat.le_of_lt h)⟩
  · right
    have h' : a.length ≤ k := Nat.le_of_not_lt h
    refine ⟨h', ?_⟩
    rw [List.take_append, List.take_of_length_le h']

theorem depC_enc {α β} (a : Codec α) (b : α → Codec β) (p : α × β) :
    (depC a b).enc p = a.enc p.1 ++ (b p.1).enc p.2 := by
  simp [Codec.enc, depC, flat_append]

theorem depC_lawful {α β} (a : Codec α) (b : α → Codec β) (ha : a.Lawful) (hb : ∀ x, (b x).Lawful) :
    (depC a b).Lawful := by
  constructor
  · intro ⟨x, y⟩ hv r
    obtain ⟨hx, hn, hy⟩ := hv
    simp only at hx hn hy
    rw [depC_enc]
    simp only [depC, List.append_assoc, ha.rt x hx, hn, (hb x).rt y hy]
  · intro ⟨x, y⟩ hv k hk
    obtain ⟨hx, hn, hy⟩ := hv
    simp only at hx hn hy
    rw [depC_enc] at hk ⊢
    simp only at hk ⊢
    rcases take_append_cases (a.enc x) ((b x).enc y) k with ⟨h, e⟩ | ⟨h, e⟩
    · obtain ⟨s, hs⟩ := ha.pre x hx k h
      exact ⟨s, by simp only [depC, e, hs]⟩
    · have hk2 : k - (a.enc x).length < ((b x).enc y).length := by
        simp only [List.length_append] at hk; omega
      obtain ⟨s, hs⟩ := (hb x).pre y hy _ hk2
      exact ⟨s, by simp only [depC, e, ha.rt x hx, hn, hs]⟩
  · intro ⟨x, y⟩ hv
    obtain ⟨hx, _, hy⟩ := hv
    simp only at hx hy
    rw [depC_enc]
    simp only [List.length_append, ha.len x hx, (hb x).len y hy, depC]

theorem pairC_enc {α β} (a : Codec α) (b : Codec β) (p : α × β) :
    (pairC a b).enc p = a.enc p.1 ++ b.enc p.2 := by
  simp [Codec.enc, pairC, flat_append]

theorem pairC_lawful {α β} (a : Codec α) (b : Codec β) (ha : a.Lawful) (hb : b.Lawful) :
    (pairC a b).Lawful := by
  constructor
  · intro ⟨x, y⟩ hv r
    obtain ⟨hx, hy⟩ := hv
    simp only at hx hy
    rw [pairC_enc]
    simp only [pairC, List.append_assoc, ha.rt x hx, hb.rt y hy]
  · intro ⟨x, y⟩ hv k hk
    obtain ⟨hx, hy⟩ := hv
    simp only at hx hy
    rw [pairC_enc] at hk ⊢
    simp only at hk ⊢
    rcases take_append_cases (a.enc x) (b.enc y) k with ⟨h, e⟩ | ⟨h, e⟩
    · obtain ⟨s, hs⟩ := ha.pre x hx k h
      exact ⟨s, by simp only [pairC, e, hs]⟩
    · have hk2 : k - (a.enc x).length < (b.enc y).length := by
        simp only [List.length_append] at hk; omega
      obtain ⟨s, hs⟩ := hb.pre y hy _ hk2
      exact ⟨s, by simp only [pairC, e, ha.rt x hx, hs]⟩
  · intro ⟨x, y⟩ hv
    obtain ⟨hx, hy⟩ := hv
    simp only at hx hy
    rw [pairC_enc]
    simp only [List.length_append, ha.len x hx, hb.len y hy, pairC]

/-! ### map / guard -/

theorem mapC_enc {α β} (c : Codec α) (f : β → α) (g : α → β) (y : β) : (mapC c f g).enc y = c.enc (f y) := rfl

theorem mapC_lawful {α β} (c : Codec α) (f : β → α) (g : α → β) (hc : c.Lawful) : (mapC c f g).Lawful := by
  constructor
  · intro y hv r
    simp only [mapC_enc]
    simp only [mapC, hc.rt (f y) hv]
  · intro y hv k hk
    simp only [mapC_enc] at hk ⊢
    obtain ⟨s, hs⟩ := hc.pre (f y) hv k hk
    exact ⟨s, by simp only [mapC, hs]⟩
  · intro y hv
    simp only [mapC_enc]
    exact hc.len (f y) hv

theorem guardC_enc {α} (c : Codec α) (p : α → Bool) (x : α) : (guardC c p).enc x = c.enc x := rfl

theorem guardC_lawful {α} (c : Codec α) (p : α → Bool) (hc : c.Lawful) : (guardC c p).Lawful := by
  constructor
  · intro x hv r
    obtain ⟨hx, hp⟩ := hv
    simp only [guardC_enc]
    simp only [guardC, hc.rt x hx, hp, if_true]
  · intro x hv k hk
    obtain ⟨hx, _⟩ := hv
    simp only [guardC_enc] at hk ⊢
    obtain ⟨s, hs⟩ := hc.pre x hx k hk
    exact ⟨s, by simp only [guardC, hs]⟩
  · intro x hv
    simp only [guardC_enc]
    exact hc.len x hv.1

theorem restrictC_lawful {α} (c : Codec α) (P : α → Prop) (hc : c.Lawful) : (restrictC c P).Lawful :=
  ⟨fun x hv r => hc.rt x hv.1 r, fun x hv k hk => hc.pre x hv.1 k hk, fun x hv => hc.len x hv.1⟩

/-! ### sequences -/

theorem seqC_enc_cons {α} (c : Codec α) (cs : List (Codec α)) (x : α) (xs : List α) :
    (seqC (c :: cs)).enc (x :: xs) = c.enc x ++ (seqC cs).enc xs := by
  simp [Codec.enc, seqC, seqChunks, flat_append]

theorem seqC_dec_cons {α} (c : Codec α) (cs : List (Codec α)) (bs : Bytes) :
    (seqC (c :: cs)).dec bs = (match c.dec bs with
      | .error e => .error e
      | .ok (x, r) => match (seqC cs).dec r with
        | .error e => .error e
        | .ok (xs, r') => .ok (x :: xs, r')) := rfl

theorem seqC_lawful {α} (cs : List (Codec α)) (h : ∀ c ∈ cs, c.Lawful) : (seqC cs).Lawful := by
  induction cs with
  | nil =>
    constructor
    · intro xs hv r
      cases xs with
      | nil => rfl
      | cons x xs => exact absurd hv (by simp [seqC, seqValid])
    · intro xs hv k hk
      cases xs with
      | nil => simp [Codec.enc, seqC, seqChunks, flat] at hk
      | cons x xs => exact absurd hv (by simp [seqC, seqValid])
    · intro xs hv
      cases xs with
      | nil => rfl
      | cons x xs => exact absurd hv (by simp [seqC, seqValid])
  | cons c cs ih =>
    have hc : c.Lawful := h c (by simp)
    have ih := ih (fun d hd => h d (by simp [hd]))
    constructor
    · intro xs hv r
      cases xs with
      | nil => exact absurd hv (by simp [seqC, seqValid])
      | cons x xs =>
        obtain ⟨hx, hxs⟩ : c.valid x ∧ seqValid cs xs := hv
        rw [seqC_enc_cons, seqC_dec_cons]
        simp only [List.append_assoc, hc.rt x hx, ih.rt xs hxs r]
        rfl
    · intro xs hv k hk
      cases xs with
      | nil => simp [Codec.enc, seqC, seqChunks, flat] at hk
      | cons x xs =>
        obtain ⟨hx, hxs⟩ : c.valid x ∧ seqValid cs xs := hv
        rw [seqC_enc_cons] at hk ⊢
        rcases take_append_cases (c.enc x) ((seqC cs).enc xs) k with ⟨hlt, e⟩ | ⟨hge, e⟩
        · obtain ⟨s, hs⟩ := hc.pre x hx k hlt
          exact ⟨s, by rw [seqC_dec_cons, e, hs]⟩
        · have hk2 : k - (c.enc x).length < ((seqC cs).enc xs).length := by
            simp only [List.length_append] at hk; omega
          obtain ⟨s, hs⟩ := ih.pre xs hxs _ hk2
          exact ⟨s, by rw [seqC_dec_cons, e, hc.rt x hx]; simp only [hs]⟩
    · intro xs hv
      cases xs with
      | nil => exact absurd hv (by simp [seqC, seqValid])
      | cons x xs =>
        obtain ⟨hx, hxs⟩ : c.valid x ∧ seqValid cs xs := hv
        rw [seqC_enc_cons]
        simp only [List.length_append, hc.len x hx, ih.len xs hxs]
        rfl

theorem repC_lawful {α} (n : Nat) (c : Codec α) (hc : c.Lawful) : (repC n c).Lawful :=
  seqC_lawful _ (fun d hd => by rw [List.eq_of_mem_replicate hd]; exact hc)

theorem vecC_lawful {α} (c : Codec α) (hc : c.Lawful) : (vecC c).Lawful :=
  mapC_lawful _ _ _ (depC_lawful _ _ usizeC_lawful (fun n => repC_lawful n c hc))

/-! ### derived field codecs -/

theorem boolC_lawful : boolC.Lawful := mapC_lawful _ _ _ u8C_lawful
theorem schemeC_lawful : schemeC.Lawful := guardC_lawful _ _ u8C_lawful
theorem pidC_lawful : pidC.Lawful := repC_lawful _ _ u64C_lawful
theorem limC_lawful (l : Nat) : (limC l).Lawful :=
  restrictC_lawful _ _ (mapC_lawful _ _ _ (repC_lawful _ _ u8C_lawful))

theorem extraC_lawful (s : Nat) : (extraC s).Lawful := by
  unfold extraC
  split
  · exact repC_lawful _ _ u64C_lawful
  · split
    · exact repC_lawful _ _ u64C_lawful
    · exact repC_lawful _ _ u64C_lawful

theorem polyC_lawful (lv : Level) : (polyC lv).Lawful :=
  seqC_lawful _ (fun c hc => by
    obtain ⟨q, _, rfl⟩ := List.mem_map.mp hc
    exact repC_lawful _ _ (limC_lawful _))

theorem termsPolyC_lawful (t : Nat) (lv : Level) : (termsPolyC t lv).Lawful :=
  seqC_lawful _ (fun c hc => by
    obtain ⟨q, _, rfl⟩ := List.mem_map.mp hc
    exact repC_lawful _ _ (limC_lawful _))

theorem paramsC_lawful : paramsC.Lawful :=
  mapC_lawful _ _ _ (guardC_lawful _ _ (depC_lawful _ _ schemeC_lawful (fun _ =>
    pairC_lawful _ _ usizeC_lawful (pairC_lawful _ _ (vecC_lawful _ u64C_lawful)
      (pairC_lawful _ _ (repC_lawful _ _ u64C_lawful) boolC_lawful)))))

theorem plainC_lawful : plainC.Lawful :=
  mapC_lawful _ _ _ (pairC_lawful _ _ pidC_lawful (pairC_lawful _ _ (vecC_lawful _ u64C_lawful) u64C_lawful))

theorem ctBodyC_lawful (lv : Level) (size : Nat) (first : Codec Poly) (hf : first.Lawful) :
    (ctBodyC lv size first).Lawful :=
  depC_lawful _ _ boolC_lawful (fun seeded =>
    pairC_lawful _ _
      (seqC_lawful _ (fun c hc => by
        split at hc
        · rw [List.mem_singleton.mp hc]; exact hf
        · have hc := List.mem_of_mem_take hc
          rcases List.mem_cons.mp hc with rfl | hc
          · exact hf
          · rw [List.eq_of_mem_replicate hc]; exact polyC_lawful lv))
      (repC_lawful _ _ u64C_lawful))

theorem ctWireC_lawful (ctx : Ctx) (first : Level → Codec Poly) (hf : ∀ lv, (first lv).Lawful) :
    (ctWireC ctx first).Lawful :=
  depC_lawful _ _ (guardC_lawful _ _ pidC_lawful) (fun _ =>
    depC_lawful _ _ usizeC_lawful (fun _ =>
      pairC_lawful _ _ boolC_lawful (pairC_lawful _ _ (extraC_lawful _) (ctBodyC_lawful _ _ _ (hf _)))))

theorem ctC_lawful (ctx : Ctx) (expand : List Nat → Level → Poly) : (ctC ctx expand).Lawful :=
  mapC_lawful _ _ _ (ctWireC_lawful ctx polyC polyC_lawful)

theorem ctRawC_lawful (ctx : Ctx) : (ctRawC ctx).Lawful :=
  mapC_lawful _ _ _ (ctWireC_lawful ctx polyC polyC_lawful)

theorem ctTermsC_lawful (ctx : Ctx) (expand : List Nat → Level → Poly)
    (fwd inv : Level → Nat → List Nat → List Nat) (terms : List Nat) :
    (ctTermsC ctx expand fwd inv terms).Lawful :=
  mapC_lawful _ _ _ (ctWireC_lawful ctx _ (termsPolyC_lawful _))

theorem ctFullC_lawful (ctx : Ctx) (expand : List Nat → Level → List Nat) : (ctFullC ctx expand).Lawful :=
  mapC_lawful _ _ _ (guardC_lawful _ _ (depC_lawful _ _ (guardC_lawful _ _ pidC_lawful) (fun _ =>
    pairC_lawful _ _ usizeC_lawful (pairC_lawful _ _ boolC_lawful
      (pairC_lawful _ _ (extraC_lawful _) (vecC_lawful _ u64C_lawful))))))

theorem kswitchC_lawful {γ} (pk : Codec γ) (h : pk.Lawful) : (kswitchC pk).Lawful :=
  mapC_lawful _ _ _ (pairC_lawful _ _ pidC_lawful (vecC_lawful _ (vecC_lawful _ h)))

theorem c1dC_lawful {γ} (c : Codec γ) (h : c.Lawful) : (c1dC c).Lawful := vecC_lawful _ h
theorem c2dC_lawful {γ} (c : Codec γ) (h : c.Lawful) : (c2dC c).Lawful := vecC_lawful _ (vecC_lawful _ h)
theorem c3dC_lawful {γ} (c : Codec γ) (h : c.Lawful) : (c3dC c).Lawful :=
  vecC_lawful _ (vecC_lawful _ (vecC_lawful _ h))
theorem rnspC_lawful {γ} (cs : List (Codec γ)) (h : ∀ c ∈ cs, c.Lawful) : (rnspC cs).Lawful := seqC_lawful cs h

theorem polySerC_lawful (ctx : Ctx) : (polySerC ctx).Lawful :=
  depC_lawful _ _ (guardC_lawful _ _ pidC_lawful) (fun pid => by
    split
    · exact mapC_lawful _ _ _ (repC_lawful _ _ (limC_lawful _))
    · exact polyC_lawful _)

end HC.Codec
