/- C02 (task S), BFV: `bfvSquare` — the model of `bfv_square` (src/evaluator.rs): BEHZ steps (1)–(3), (5)–(8) as in `bfv_multiply`, step (4) the
   size-2 fast path `c0², c0·c1 + c0·c1, c1²` in base q and in base Bsk on the lazily transformed operands — IS `bfvMultiply l T x x` for
   every coefficient-form ciphertext with canonical polynomials at a level satisfying `MulOK` (Proofs/C02W.lean); hence every theorem about
   the BEHZ product (`bfvMultiply_ok`, `_coeff`, `_phase`, `_noise`, `_decode`, `bfvDecrypt_bfvMultiply`, …) applies to the square.
   Helper names carry the prefix `c02s_`. -/
import Heathcliff.Proofs.C02W
import Heathcliff.Proofs.C02S
namespace HC

/-- step (4) of `bfv_square` in one family of moduli -/
def c02s_sq (ms : Array Modulus) (xs : List RnsPoly) : R (List RnsPoly) := do
  let d0 ← compsZip ms (xs.getD 0 #[]) (xs.getD 0 #[]) mulMod
  let m ← compsZip ms (xs.getD 0 #[]) (xs.getD 1 #[]) mulMod
  let d1 ← compsZip ms m m addMod
  let d2 ← compsZip ms (xs.getD 1 #[]) (xs.getD 1 #[]) mulMod
  pure [d0, d1, d2]

/-- `bfvSquare` cut into the named stages of Proofs/C02W.lean (definitional) -/
theorem c02s_bfvSquare_stage (l : Level) (T : Array NTTTables) (a : Ct) :
    bfvSquare l T a =
      (if a.ntt then .error .refused else
       if a.polys.size ≠ 2 then bfvMultiply l T a a else
       if ctResizeRefuses (a.polys.size + a.polys.size - 1) then .error .refused else do
        let ab ← a.polys.toList.mapM (c02w_liftB l T)
        let dq ← c02s_sq l.qs (a.polys.toList.map (c02w_liftQ l))
        let db ← c02s_sq l.tool.baseBsk.base ab
        let outs ← (List.range 3).mapM (c02w_finish l
          (dq.map fun p => Array.ofFn (n := l.qs.size) fun i => intt (l.tbl i.val) (p.getD i.val #[]))
          (db.map fun p => Array.ofFn (n := l.tool.baseBsk.base.size) fun i =>
                    intt (T.getD i.val default) (p.getD i.val #[])))
        pure { a with polys := outs.toArray }) := rfl

/-- the tensor step of the product routine on (x, x) for two polynomials = the fast path, on lazily reduced (word-sized) operands -/
theorem c02s_tensor_sq {ms : Array Modulus} {n : Nat} (hq : c02v_QsWF (c02w_lv ms n)) (xs : List RnsPoly)
    (h0 : c02w_Lazy ms n (xs.getD 0 #[])) (h1 : c02w_Lazy ms n (xs.getD 1 #[])) :
    c02w_tensor 2 2 ms xs xs (Array.replicate ms.size (Array.replicate n 0)) = c02s_sq ms xs := by
  obtain ⟨d0, e0, c0, _⟩ := c02w_dyadic_spec hq h0 h0
  obtain ⟨m, em, cm, vm⟩ := c02w_dyadic_spec hq h0 h1
  obtain ⟨m', em', cm', vm'⟩ := c02w_dyadic_spec hq h1 h0
  obtain ⟨d2, e2, c2, _⟩ := c02w_dyadic_spec hq h1 h1
  have hmm : m' = m := c02s_rnsCanon_ext cm' cm (fun i hi j hj => by
    rw [vm' i hi j hj, vm i hi j hj, Nat.mul_comm])
  subst hmm
  obtain ⟨d1, e1, _, _⟩ := c02v_rnsAdd_spec hq cm' cm'
  have e1' : compsZip ms m' m' addMod = .ok d1 := e1
  have hz : ∀ x, RnsCanon (c02w_lv ms n) x → compsZip ms (Array.replicate ms.size (Array.replicate n 0)) x addMod = .ok x :=
    fun x hx => c02s_rnsAdd_zero hq hx
  unfold c02w_tensor c02s_sq
  have r3 : List.range (2 + 2 - 1) = [0, 1, 2] := by decide
  rw [r3]
  simp only [List.mapM_cons, List.mapM_nil, c02s_mulPairs_220, c02s_mulPairs_221, c02s_mulPairs_222, List.foldlM_cons,
    List.foldlM_nil, e0, em, em', e2, bind, Except.bind, pure, Except.pure, hz d0 c0, hz m' cm', hz d2 c2, e1']

/-- B1.  `bfvSquare l T x = bfvMultiply l T x x` for every ciphertext whose polynomials are canonical at a level satisfying `MulOK`
    (any size, either representation; the refusals - NTT form, result size 1 or > 16 - included).  `MulOK` (level well formed, tool built
    consistently, Bsk tables) is what makes the lazily transformed operands word-sized and the Bsk moduli well formed: the fast path
    `c0·c1 + c0·c1` and the routine's `(0 + c0·c1) + c1·c0` agree as VALUES on such operands. -/
theorem bfvSquare_eq {l : Level} {T : Array NTTTables} (hm : MulOK l T) {a : Ct}
    (ha : ∀ k, k < a.polys.size → RnsCanon l (a.polys.getD k #[])) :
    bfvSquare l T a = bfvMultiply l T a a := by
  rw [c02s_bfvSquare_stage]
  by_cases hn : a.ntt = true
  · rw [if_pos hn, bfvMultiply_refuse_ntt l T a a (Or.inl hn)]
  · rw [if_neg hn]
    by_cases hs : a.polys.size = 2
    · rw [if_neg (by simp [hs])]
      obtain ⟨bs, hA, hAl, hAv⟩ := c02w_lift_spec hm ha
      have hmap : a.polys.toList.mapM (c02w_liftB l T) = .ok bs := by
        unfold c02w_lift at hA
        cases hx : a.polys.toList.mapM (c02w_liftB l T) with
        | error e => rw [hx] at hA; cases hA
        | ok bs' =>
          rw [hx] at hA
          simp only [bind, Except.bind, pure, Except.pure] at hA
          have := Except.ok.inj hA
          rw [(Prod.mk.inj this).2]
      -- operands of the tensor step are lazily reduced words
      have hq0 : ∀ k, k < 2 → c02w_Lazy l.qs l.n ((a.polys.toList.map (c02w_liftQ l)).getD k #[]) := by
        intro k hk
        rw [c02w_map_getD _ _ #[] #[] (by simpa [hs] using hk), c02v_toList_getD]
        exact c02w_liftQ_lazy hm.lwf (ha k (by omega))
      have hb0 : ∀ k, k < 2 → c02w_Lazy l.tool.baseBsk.base l.n (bs.getD k #[]) := by
        intro k hk
        exact c02w_liftB_lazy hm (a.polys.getD k #[]) (fun i hi => hAv k (by omega) i hi)
      have hrz : ¬ (ctResizeRefuses (a.polys.size + a.polys.size - 1) = true) := by rw [hs]; decide
      rw [if_neg hrz, c02w_bfvMultiply_eq, if_neg (by simp [hn]), if_neg hrz, hA]
      simp only [ok_bind, hs, hmap]
      rw [if_neg (by omega)]
      rw [c02s_tensor_sq (c02w_q_qsWF hm) _ (hq0 0 (by omega)) (hq0 1 (by omega)),
        c02s_tensor_sq (c02w_bsk_qsWF hm) _ (hb0 0 (by omega)) (hb0 1 (by omega))]
    · rw [if_pos hs]

/-- refusals of the BFV square: NTT form; more than 8 polynomials (result size > 16) -/
theorem bfvSquare_refuse_ntt (l : Level) (T : Array NTTTables) (a : Ct) (h : a.ntt = true) : bfvSquare l T a = .error .refused := by
  rw [c02s_bfvSquare_stage, if_pos h]

theorem bfvSquare_refuse_size (l : Level) (T : Array NTTTables) (a : Ct) (h : 8 < a.polys.size) : bfvSquare l T a = .error .refused := by
  rw [c02s_bfvSquare_stage]
  split
  · rfl
  · rw [if_pos (by omega)]
    exact bfvMultiply_refuse_size l T a a ((ctResizeRefuses_eq_true_iff _).mpr (Or.inr (by omega)))

/-- B2.  totality, shape and closed form of the square (W1, `bfvMultiply_ok`, transferred): for a coefficient-form ciphertext of n ≤ 8
    canonical polynomials the square succeeds, has 2n − 1 canonical polynomials, stays in coefficient form, keeps the correction factor, and
    every residue is the closed form `c02w_mulVal l x x` of the BEHZ product of x with itself (to which `bfvMultiply_coeff`, `_phase`,
    `_noise`, `_decode` and `bfvDecrypt_bfvMultiply` of C02W / C02X apply through `bfvSquare_eq`) -/
theorem bfvSquare_ok {l : Level} {T : Array NTTTables} (hm : MulOK l T) {a : Ct} (ha : CtCanon l a) (hna : a.ntt = false)
    (h8 : a.polys.size ≤ 8) :
    ∃ r, bfvSquare l T a = .ok r ∧ CtCanon l r ∧ r.polys.size = 2 * a.polys.size - 1 ∧ r.ntt = false ∧ r.cf = a.cf ∧
      ∀ k, k < 2 * a.polys.size - 1 → ∀ i, i < l.size → ∀ c, c < l.n → r.c02v_res k i c = c02w_mulVal l a a k i c := by
  have h2 := ha.two_le
  obtain ⟨r, hr, hsz, hntt, hcf, hcan, hval⟩ := bfvMultiply_ok hm ha.canon ha.canon hna hna (by omega) (by omega)
    ((ctResizeRefuses_eq_false_iff _).mpr (by omega))
  refine ⟨r, by rw [bfvSquare_eq hm ha.canon]; exact hr, ⟨⟨by omega, by omega, fun k hk => hcan k (by omega)⟩, ?_⟩, by omega, hntt, hcf,
    fun k hk => hval k (by omega)⟩
  rw [hcf]; exact ha.cf

end HC
