import Heathcliff.Proofs.GenRns4

/-!
  Phase 4k of the translator tie, list level: `RNSTool::decrypt_scale_and_round` (src/util/rns.rs) as generated into
  `Heathcliff/Gen/RnsFns.lean`.  Three top-level loops (the continuation of each is emitted inside it): scaling by `|γt|_{q_i}` component by
  component into a scratch buffer, the conversion q → {t, γ} (an abstract function input), scaling by `−q⁻¹` in both output components, the
  γ-correction coefficient by coefficient into the destination.  Helper names start with `gr_`.
-/
namespace HC
open HC.GenW HC.GenR

/-- a top-level loop over the components of a flat buffer: step `i` replaces component `i` by `comp i (old component)`; the code after the loop
    (emitted inside the loop's definition at exhaustion) is `cont` -/
theorem gr_comploop (loop : Nat → Nat → List Nat → R (List Nat)) (comp : Nat → List Nat → R (List Nat)) (cont : List Nat → R (List Nat)) (N n : Nat)
    (h0 : ∀ i l, loop 0 i l = cont l)
    (hs : ∀ k i (cs : List (List Nat)), i < N → cs.length = N → (∀ c ∈ cs, c.length = n) →
      loop (k+1) i cs.flatten = (comp i (cs.getD i []) >>= fun c => loop k (i+1) (cs.set i c).flatten))
    (hlen : ∀ i c y, i < N → c.length = n → comp i c = .ok y → y.length = n) :
    ∀ k i (cs : List (List Nat)), i + k = N → cs.length = N → (∀ c ∈ cs, c.length = n) →
      loop k i cs.flatten = (gr_foldM (fun i cs => comp i (cs.getD i [])) k i cs >>= fun cs' => cont cs'.flatten) := by
  intro k
  induction k with
  | zero => intro i cs _ _ _; rw [h0, gr_foldM, gr_ok_bind]
  | succ k ih =>
    intro i cs hik hcs hcn
    rw [hs k i cs (by omega) hcs hcn, gr_foldM]
    cases hc : comp i (cs.getD i []) with
    | error e => rfl
    | ok c =>
      rw [gr_ok_bind, gr_ok_bind]
      have hcl : c.length = n := hlen i _ c (by omega) (hcn _ (gr_getD_mem cs i (by omega))) hc
      exact ih (i+1) (cs.set i c) (by omega) (by rw [List.length_set]; exact hcs) (gr_set_length_mem n cs i c hcn hcl)

/-- the whole loop, when every step succeeds with `C i (old component)` -/
theorem gr_comploop_pure (loop : Nat → Nat → List Nat → R (List Nat)) (C : Nat → List Nat → List Nat) (cont : List Nat → R (List Nat)) (N n : Nat)
    (h0 : ∀ i l, loop 0 i l = cont l)
    (hs : ∀ k i (cs : List (List Nat)), i < N → cs.length = N → (∀ c ∈ cs, c.length = n) →
      loop (k+1) i cs.flatten = loop k (i+1) (cs.set i (C i (cs.getD i []))).flatten)
    (hlen : ∀ i c, i < N → c.length = n → (C i c).length = n)
    (cs : List (List Nat)) (hcs : cs.length = N) (hcn : ∀ c ∈ cs, c.length = n) :
    loop N 0 cs.flatten = cont ((List.range' 0 N).map (fun i => C i (cs.getD i []))).flatten := by
  rw [gr_comploop loop (fun i c => .ok (C i c)) cont N n h0 (fun k i cs hi h1 h2 => by rw [hs k i cs hi h1 h2, gr_ok_bind])
    (fun i c y hi hc hy => by cases hy; exact hlen i c hi hc) N 0 cs (by omega) hcs hcn,
    gr_foldM_self (fun i c => .ok (C i c)) N 0 cs (by omega),
    gr_mapM_ok _ (fun i => C i (cs.getD i [])) _ (fun _ _ => rfl)]
  simp only [gr_ok_bind]
  rw [List.take_zero, List.nil_append, Nat.zero_add, List.drop_eq_nil_of_le (by omega), List.append_nil]

theorem gr_mulOpV_lt (x : Nat) (y : MulOperand) (m : Modulus) : mulOpV x y m < 2^64 := by
  have h : mulOperandModLazy x y m < 2^64 := by
    unfold mulOperandModLazy wSub
    exact Nat.mod_lt _ (by simp [B64])
  unfold mulOpV
  split <;> omega

/-! ### `RNSTool::decrypt_scale_and_round` -/

/-- one coefficient of the γ-correction: `a` = the `t` component, `g` = the `γ` component (both already multiplied by `−q⁻¹`) -/
def gr_dsrElt (t gamma : Modulus) (gdiv2 : Nat) (ig : MulOperand) (a g : Nat) : R Nat :=
  (if g > gdiv2 then (ckSub gamma.value g >>= fun ng => barrett64 ng t >>= fun rg => addMod a rg t)
   else (barrett64 g t >>= fun rg => subMod a rg t)) >>= fun d => if d ≠ 0 then mulOperandMod d ig t else .ok d

/-- the third loop: coefficient `j` of the destination := the corrected value; the old contents are irrelevant -/
theorem gr_dsr_loop3 (tg : List (List Nat)) (n gdiv2 : Nat) (t gamma : Modulus) (ig : MulOperand) (dest : List Nat)
    (htg : tg.length = 2) (htn : ∀ c ∈ tg, c.length = n) (hd : dest.length = n) (h2n : 2 * n < 2^64) :
    GenR.decrypt_scale_and_round_loop3 n tg.flatten gdiv2 t gamma ig n 0 dest
      = (List.range' 0 n).mapM (fun j => gr_dsrElt t gamma gdiv2 ig ((tg.getD 0 []).getD j 0) ((tg.getD 1 []).getD j 0)) := by
  have hfl := gr_flat_length n tg htn
  rw [htg] at hfl
  rw [gr_idxloop (GenR.decrypt_scale_and_round_loop3 n tg.flatten gdiv2 t gamma ig)
      (fun j _ => gr_dsrElt t gamma gdiv2 ig ((tg.getD 0 []).getD j 0) ((tg.getD 1 []).getD j 0)) n (fun _ _ => rfl) (by
      intro k j l hl hj
      have e1 : ckAdd n j = .ok (1 * n + j) := by rw [gr_ckAdd_ok (by omega)]; simp
      have hlt1 : 1 * n + j < tg.flatten.length := by omega
      have hlt0 : 0 * n + j < tg.flatten.length := by omega
      have e2 : GenW.idx tg.flatten (1 * n + j) = .ok ((tg.getD 1 []).getD j 0) := by
        rw [gw_idx_eq _ _ hlt1, ← gr_getD_of_lt _ _ hlt1, gr_flat_getD n tg 1 j htn (by omega) hj]
      have e3 : GenW.idx tg.flatten j = .ok ((tg.getD 0 []).getD j 0) := by
        have := gr_flat_getD n tg 0 j htn (by omega) hj
        rw [Nat.zero_mul, Nat.zero_add] at this hlt0
        rw [gw_idx_eq _ _ hlt0, ← gr_getD_of_lt _ _ hlt0, this]
      rw [GenR.decrypt_scale_and_round_loop3]
      simp only [e1, e2, e3, gr_ok_bind, gr_modulus_reduce_eq, gw_add_u64_mod_eq, gw_sub_u64_mod_eq, gw_multiply_u64operand_mod_eq]
      unfold gr_dsrElt
      by_cases hg : (tg.getD 1 []).getD j 0 > gdiv2
      · simp only [if_pos hg]
        cases ckSub gamma.value ((tg.getD 1 []).getD j 0) with
        | error e => rfl
        | ok ng =>
          simp only [gr_ok_bind]
          cases barrett64 ng t with
          | error e => rfl
          | ok rg =>
            simp only [gr_ok_bind]
            cases addMod ((tg.getD 0 []).getD j 0) rg t with
            | error e => rfl
            | ok d =>
              have hl' : j < (l.set j d).length := by rw [List.length_set]; exact hl
              simp only [gr_ok_bind, gx_setIdx_ok _ _ _ hl, gr_pure, gw_idx_eq _ _ hl', List.getElem_set_self]
              by_cases hd0 : d = 0
              · have h0 : ¬ (0 ≠ d) := by omega
                have h0' : ¬ (d ≠ 0) := by omega
                simp only [if_neg h0, if_neg h0', gr_ok_bind]
              · have h0 : 0 ≠ d := by omega
                simp only [if_pos h0, if_pos hd0, gr_mulOperandMod, gr_ok_bind, gx_setIdx_ok _ _ _ hl', List.set_set]
      · simp only [if_neg hg]
        cases barrett64 ((tg.getD 1 []).getD j 0) t with
        | error e => rfl
        | ok rg =>
          simp only [gr_ok_bind, gr_subMod]
          generalize subModV ((tg.getD 0 []).getD j 0) rg t = d
          have hl' : j < (l.set j d).length := by rw [List.length_set]; exact hl
          simp only [gr_ok_bind, gx_setIdx_ok _ _ _ hl, gr_pure, gw_idx_eq _ _ hl', List.getElem_set_self]
          by_cases hd0 : d = 0
          · have h0 : ¬ (0 ≠ d) := by omega
            have h0' : ¬ (d ≠ 0) := by omega
            simp only [if_neg h0, if_neg h0', gr_ok_bind]
          · have h0 : 0 ≠ d := by omega
            simp only [if_pos h0, if_pos hd0, gr_mulOperandMod, gr_ok_bind, gx_setIdx_ok _ _ _ hl', List.set_set])
    n 0 dest (by omega) (by omega)]
  cases (List.range' 0 n).mapM (fun j => gr_dsrElt t gamma gdiv2 ig ((tg.getD 0 []).getD j 0) ((tg.getD 1 []).getD j 0)) with
  | error e => rfl
  | ok ys => rw [gr_ok_bind, List.take_zero, List.nil_append]

theorem gr_getD_map_lt (f : Nat → Nat) (l : List Nat) (j : Nat) (h : j < l.length) : (l.map f).getD j 0 = f (l.getD j 0) := by
  rw [List.getD_eq_getElem?_getD, List.getD_eq_getElem?_getD, List.getElem?_map, List.getElem?_eq_getElem h]; rfl

/-- the second loop (`−q⁻¹ mod {t, γ}` in both components of the converted buffer) followed by the third -/
theorem gr_dsr_loop2 (tg : List (List Nat)) (n : Nat) (nops : List MulOperand) (tgs : List Modulus) (t gamma : Modulus) (ig : MulOperand) (dest : List Nat)
    (htg : tg.length = 2) (htn : ∀ c ∈ tg, c.length = n) (hd : dest.length = n) (h2n : 2 * n < 2^64)
    (htgs : tgs.length = 2) (hnops : 2 ≤ nops.length) :
    GenR.decrypt_scale_and_round_loop2 dest 2 n nops tgs t gamma ig 2 0 tg.flatten
      = (List.range' 0 n).mapM (fun j => gr_dsrElt t gamma ((tgs.getD 1 gr_dflt).value / 2) ig
          (mulOpV ((tg.getD 0 []).getD j 0) (nops.getD 0 default) (tgs.getD 0 gr_dflt))
          (mulOpV ((tg.getD 1 []).getD j 0) (nops.getD 1 default) (tgs.getD 1 gr_dflt))) := by
  rw [gr_comploop_pure (GenR.decrypt_scale_and_round_loop2 dest 2 n nops tgs t gamma ig)
    (fun i c => c.map (fun x => mulOpV x (nops.getD i default) (tgs.getD i gr_dflt)))
    (fun l => GenR.decrypt_scale_and_round_loop2 dest 2 n nops tgs t gamma ig 0 0 l) 2 n (fun _ _ => rfl) (by
      intro k i cs hi hcs hcn
      have hmul : ∀ a, a ≤ 2 → a * n < 2^64 := fun a ha => Nat.lt_of_le_of_lt (Nat.mul_le_mul_right n ha) h2n
      have e1 : ckMul i n = .ok (i * n) := gr_ckMul_ok (hmul i (by omega))
      have e2 : ckAdd i 1 = .ok (i + 1) := gr_ckAdd_ok (by omega)
      have e3 : ckMul (i+1) n = .ok (i * n + n) := by rw [gr_ckMul_ok (hmul (i+1) (by omega)), Nat.succ_mul]
      have e4 : GenR.slice cs.flatten (i*n) (i*n + n) = .ok (cs.getD i []) := gr_slice_flat n cs i hcn (by omega)
      have e5 : GenR.idxOp nops i = .ok (nops.getD i default) := gr_idxOp_ok nops i _ (by omega)
      have e6 : GenR.idxMod tgs i = .ok (tgs.getD i gr_dflt) := gr_idxMod_ok tgs i _ (by omega)
      have e7 : GenR.multiply_operand_inplace (cs.getD i []) (nops.getD i default) (tgs.getD i gr_dflt)
          = .ok ((cs.getD i []).map (fun x => mulOpV x (nops.getD i default) (tgs.getD i gr_dflt))) := by
        rw [gr_multiply_operand_inplace_eq]; exact gr_mapM_ok _ _ _ (fun x _ => gr_mulOperandMod _ _ _)
      have hcl : (cs.getD i []).length = n := hcn _ (gr_getD_mem cs i (by omega))
      have e8 := gr_splice_flat n cs i ((cs.getD i []).map (fun x => mulOpV x (nops.getD i default) (tgs.getD i gr_dflt))) hcn (by omega)
        (by rw [List.length_map]; exact hcl)
      rw [GenR.decrypt_scale_and_round_loop2]
      simp only [e1, e2, e3, e4, e5, e6, e7, e8, gr_ok_bind])
    (fun i c _ hc => by rw [List.length_map]; exact hc) tg htg htn]
  rw [GenR.decrypt_scale_and_round_loop2]
  have e1 : GenR.idxMod tgs 1 = .ok (tgs.getD 1 gr_dflt) := gr_idxMod_ok tgs 1 _ (by omega)
  simp only [e1, gr_ok_bind]
  have hsh : (tgs.getD 1 gr_dflt).value >>> 1 = (tgs.getD 1 gr_dflt).value / 2 := by rw [Nat.shiftRight_eq_div_pow]
  rw [hsh, gr_dsr_loop3 _ n _ t gamma ig dest (by simp) (by
    intro c hc
    obtain ⟨i, _, rfl⟩ := List.mem_map.mp hc
    rw [List.length_map]
    by_cases hi : i < tg.length
    · exact htn _ (gr_getD_mem tg i hi)
    · rw [List.mem_range'_1] at *; omega) hd h2n]
  apply gr_mapM_congr
  intro j hj
  rw [List.mem_range'_1] at hj
  rw [gr_getD_map_range' _ _ _ _ (by omega : 0 < 2), gr_getD_map_range' _ _ _ _ (by omega : 1 < 2),
    gr_getD_map_lt _ _ _ (by rw [htn _ (gr_getD_mem tg 0 (by omega))]; omega),
    gr_getD_map_lt _ _ _ (by rw [htn _ (gr_getD_mem tg 1 (by omega))]; omega)]

/-- the scaled input of the conversion: component `i` multiplied by `|γt|_{q_i}` -/
def gr_dsrTemp (inp : List (List Nat)) (sq : Nat) (pops : List MulOperand) (qs : List Modulus) : List (List Nat) :=
  (List.range' 0 sq).map (fun i => (inp.getD i []).map (fun x => mulOpV x (pops.getD i default) (qs.getD i gr_dflt)))

/-- the generated `decrypt_scale_and_round` on flat buffers (`sq` input components of `n` words, destination of `n` words); `F` = the conversion
    q → {t, γ}, called on the scaled input and a zeroed scratch buffer -/
theorem gr_dsr_list (inp : List (List Nat)) (dest : List Nat) (sq n : Nat) (qs tgs : List Modulus) (pops nops : List MulOperand) (t gamma : Modulus)
    (ig : MulOperand) (F : List Nat → List Nat → R (List Nat)) (conv : List (List Nat))
    (hinp : inp.length = sq) (hin : ∀ c ∈ inp, c.length = n) (hqs : qs.length = sq) (hpops : sq ≤ pops.length)
    (htgs : tgs.length = 2) (hnops : 2 ≤ nops.length) (hd : dest.length = n)
    (hsn : sq * n < 2^64) (h2n : 2 * n < 2^64) (hs64 : sq < 2^64)
    (hc1 : conv.length = 2) (hc2 : ∀ c ∈ conv, c.length = n)
    (hF : F (gr_dsrTemp inp sq pops qs).flatten (List.replicate (n * 2) 0) = .ok conv.flatten) :
    GenR.decrypt_scale_and_round inp.flatten dest sq qs 2 tgs n pops nops t gamma ig F
      = (List.range' 0 n).mapM (fun j => gr_dsrElt t gamma ((tgs.getD 1 gr_dflt).value / 2) ig
          (mulOpV ((conv.getD 0 []).getD j 0) (nops.getD 0 default) (tgs.getD 0 gr_dflt))
          (mulOpV ((conv.getD 1 []).getD j 0) (nops.getD 1 default) (tgs.getD 1 gr_dflt))) := by
  unfold GenR.decrypt_scale_and_round
  have e0 : ckMul n sq = .ok (n * sq) := gr_ckMul_ok (by rw [Nat.mul_comm]; exact hsn)
  simp only [e0, gr_ok_bind]
  have hz : List.replicate (n * sq) 0 = (List.replicate sq (List.replicate n 0)).flatten := by
    rw [List.flatten_replicate_replicate, Nat.mul_comm]
  rw [hz, gr_comploop_pure (GenR.decrypt_scale_and_round_loop1 inp.flatten dest sq 2 n pops qs F nops tgs t gamma ig)
    (fun i _ => (inp.getD i []).map (fun x => mulOpV x (pops.getD i default) (qs.getD i gr_dflt)))
    (fun l => GenR.decrypt_scale_and_round_loop1 inp.flatten dest sq 2 n pops qs F nops tgs t gamma ig 0 0 l) sq n (fun _ _ => rfl) (by
      intro k i cs hi hcs hcn
      have hmul : ∀ a, a ≤ sq → a * n < 2^64 := fun a ha => Nat.lt_of_le_of_lt (Nat.mul_le_mul_right n ha) hsn
      have e1 : ckMul i n = .ok (i * n) := gr_ckMul_ok (hmul i (by omega))
      have e2 : ckAdd i 1 = .ok (i + 1) := gr_ckAdd_ok (by omega)
      have e3 : ckMul (i+1) n = .ok (i * n + n) := by rw [gr_ckMul_ok (hmul (i+1) (by omega)), Nat.succ_mul]
      have e4 : GenR.slice inp.flatten (i*n) (i*n + n) = .ok (inp.getD i []) := gr_slice_flat n inp i hin (by omega)
      have e4' : GenR.slice cs.flatten (i*n) (i*n + n) = .ok (cs.getD i []) := gr_slice_flat n cs i hcn (by omega)
      have e5 : GenR.idxOp pops i = .ok (pops.getD i default) := gr_idxOp_ok pops i _ (by omega)
      have e6 : GenR.idxMod qs i = .ok (qs.getD i gr_dflt) := gr_idxMod_ok qs i _ (by omega)
      have hil : (inp.getD i []).length = n := hin _ (gr_getD_mem inp i (by omega))
      have hcl : (cs.getD i []).length = n := hcn _ (gr_getD_mem cs i (by omega))
      have e7 : GenR.multiply_operand (inp.getD i []) (pops.getD i default) (qs.getD i gr_dflt) (cs.getD i [])
          = .ok ((inp.getD i []).map (fun x => mulOpV x (pops.getD i default) (qs.getD i gr_dflt))) := by
        rw [gr_multiply_operand_eq _ _ _ _ (by rw [hcl, hil])]; exact gr_mapM_ok _ _ _ (fun x _ => gr_mulOperandMod _ _ _)
      have e8 := gr_splice_flat n cs i ((inp.getD i []).map (fun x => mulOpV x (pops.getD i default) (qs.getD i gr_dflt))) hcn (by omega)
        (by rw [List.length_map]; exact hil)
      rw [GenR.decrypt_scale_and_round_loop1]
      simp only [e1, e2, e3, e4, e4', e5, e6, e7, e8, gr_ok_bind])
    (fun i c hi _ => by rw [List.length_map]; exact hin _ (gr_getD_mem inp i (by omega))) _ (by simp) (by
      intro c hc; rw [List.mem_replicate] at hc; rw [hc.2, List.length_replicate])]
  rw [GenR.decrypt_scale_and_round_loop1]
  have e1 : ckMul n 2 = .ok (n * 2) := gr_ckMul_ok (by omega)
  simp only [e1, gr_ok_bind]
  unfold gr_dsrTemp at hF
  rw [hF, gr_ok_bind]
  exact gr_dsr_loop2 conv n nops tgs t gamma ig dest hc1 hc2 hd h2n htgs hnops

end HC
