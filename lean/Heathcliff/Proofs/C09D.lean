/- C09 part D: the generic butterfly network over ANY commutative ring is the evaluation map at the odd powers of psi
   (bit-reversed order), the inverse network undoes it up to the factor 2^k, and evaluation turns the negacyclic
   product into the pointwise product.  All statements proved. -/
import Heathcliff.Proofs.NTTDefs
import Mathlib.Tactic.IntervalCases
import Mathlib.Tactic.NormNum
namespace HC
open Finset

/-! ### L3: bit reversal -/
theorem brev_succ (k i : Nat) : brev (k+1) i = (i % 2) * 2^k + brev k (i / 2) := rfl

theorem brev_zero_right (k : Nat) : brev k 0 = 0 := by
  induction k with
  | zero => rfl
  | succ k ih => rw [brev_succ]; simp [ih]

theorem brev_lt (k i : Nat) : brev k i < 2^k := by
  induction k generalizing i with
  | zero => simp [brev]
  | succ k ih =>
    have h1 := ih (i/2)
    have h3 : (i % 2) * 2^k ≤ 1 * 2^k := Nat.mul_le_mul_right _ (by omega)
    rw [brev_succ, pow_succ]
    omega

/-- reversing a (k+1)-bit window whose top bit is `b` -/
theorem brev_high (k b m : Nat) (h : m < 2^k) : brev (k+1) (b*2^k+m) = 2 * brev k m + b % 2 := by
  induction k generalizing m with
  | zero =>
    have : m = 0 := by simpa using h
    subst this; simp [brev]
  | succ k ih =>
    have hm : m / 2 < 2^k := by rw [pow_succ] at h; omega
    have e0 : b * 2^(k+1) = 2 * (b * 2^k) := by ring
    have e1 : (b * 2^(k+1) + m) % 2 = m % 2 := by rw [e0]; omega
    have e2 : (b * 2^(k+1) + m) / 2 = b * 2^k + m / 2 := by rw [e0]; omega
    rw [brev_succ (k+1), e1, e2, ih _ hm, brev_succ k m, pow_succ]
    ring

theorem brev_brev {k i : Nat} (h : i < 2^k) : brev k (brev k i) = i := by
  induction k generalizing i with
  | zero =>
    have : i = 0 := by simpa using h
    subst this; rfl
  | succ k ih =>
    have hi : i / 2 < 2^k := by rw [pow_succ] at h; omega
    rw [brev_succ k i, brev_high k (i%2) _ (brev_lt k _), ih hi]
    omega

theorem brev_two_mul (k m : Nat) : brev (k+1) (2*m) = brev k m := by
  have e1 : 2*m % 2 = 0 := by omega
  have e2 : 2*m / 2 = m := by omega
  rw [brev_succ, e1, e2]; simp

theorem brev_two_mul_add_one (k m : Nat) : brev (k+1) (2*m+1) = 2^k + brev k m := by
  have e1 : (2*m+1) % 2 = 1 := by omega
  have e2 : (2*m+1) / 2 = m := by omega
  rw [brev_succ, e1, e2]; simp

/-- a value that fits in k bits, reversed in a (k+1)-bit window, is doubled -/
theorem brev_succ_of_lt {k m : Nat} (h : m < 2^k) : brev (k+1) m = 2 * brev k m := by
  have := brev_high k 0 m h
  simpa using this

/-- reversal of a concatenation: high part `x`, low `b` bits `y` -/
theorem brev_split (a b x y : Nat) (hy : y < 2^b) :
    brev (a+b) (x*2^b + y) = brev b y * 2^a + brev a x := by
  induction b generalizing y with
  | zero =>
    have : y = 0 := by simpa using hy
    subst this; simp [brev]
  | succ b ih =>
    have hy' : y / 2 < 2^b := by rw [pow_succ] at hy; omega
    have e0 : x * 2^(b+1) = 2 * (x * 2^b) := by ring
    have e1 : (x * 2^(b+1) + y) % 2 = y % 2 := by rw [e0]; omega
    have e2 : (x * 2^(b+1) + y) / 2 = x * 2^b + y / 2 := by rw [e0]; omega
    show brev (a+b+1) _ = _
    rw [brev_succ (a+b), e1, e2, ih _ hy', brev_succ b y, pow_add]
    ring

theorem brev_ones (b : Nat) : brev (b+1) (2^b - 1) = 2^(b+1) - 2 := by
  induction b with
  | zero => rfl
  | succ b ih =>
    have hp : 0 < 2^b := Nat.two_pow_pos b
    have e1 : (2^(b+1) - 1) % 2 = 1 := by rw [pow_succ]; omega
    have e2 : (2^(b+1) - 1) / 2 = 2^b - 1 := by rw [pow_succ]; omega
    rw [brev_succ (b+1), e1, e2, ih]
    simp only [pow_succ]
    omega

/-- the table index `2^l + i` (an (l+1)-bit number with leading one) reversed in `l+1+d` bits -/
theorem brev_top (l d i : Nat) (hi : i < 2^l) :
    brev (l+1+d) (2^l + i) = (2 * brev l i + 1) * 2^d := by
  have h := brev_split d (l+1) 0 (2^l + i) (by rw [pow_succ]; omega)
  rw [Nat.zero_mul, Nat.zero_add, brev_zero_right, Nat.add_zero] at h
  have h2 := brev_high l 1 i hi
  rw [Nat.one_mul] at h2
  have e : l+1+d = d+(l+1) := by omega
  rw [e, h, h2]
  norm_num

/-- index identity linking the scrambled inverse table to the bit-reversed forward table -/
theorem brev_pred {k l i : Nat} (hl : l < k) (hi : i < 2^l) :
    brev k (brev k (2^l + i) - 1) = 2^k - 2^(l+1) + i := by
  obtain ⟨d, rfl⟩ : ∃ d, k = l+1+d := ⟨k-l-1, by omega⟩
  rw [brev_top l d i hi]
  have hp : 0 < 2^d := Nat.two_pow_pos d
  have e1 : (2 * brev l i + 1) * 2^d = brev l i * 2^(d+1) + 2^d := by ring
  have e2 : (2 * brev l i + 1) * 2^d - 1 = brev l i * 2^(d+1) + (2^d - 1) := by rw [e1]; omega
  have e3 : l+1+d = l+(d+1) := by omega
  have hy : 2^d - 1 < 2^(d+1) := by rw [pow_succ]; omega
  rw [e2, e3, brev_split l (d+1) (brev l i) (2^d - 1) hy, brev_ones, brev_brev hi]
  have e4 : 2^(l+(d+1)) = 2^(d+1) * 2^l := by ring
  have e5 : 2^(l+1) = 2 * 2^l := by ring
  rw [e4, e5, Nat.sub_mul]

variable {R : Type} [CommRing R]

/-! ### index arithmetic inside a block of width `2g` -/
theorem half_up (g p : Nat) (h : p % (2*g) < g) :
    (p+g) % (2*g) = p % (2*g) + g ∧ (p+g) / (2*g) = p / (2*g) := by
  have hp := Nat.div_add_mod p (2*g)
  have e : p + g = 2*g*(p/(2*g)) + (p % (2*g) + g) := by omega
  have hlt : p % (2*g) + g < 2*g := by omega
  constructor
  · rw [e, Nat.mul_add_mod, Nat.mod_eq_of_lt hlt]
  · rw [e, Nat.mul_add_div (by omega), Nat.div_eq_of_lt hlt, Nat.add_zero]

theorem half_down (g p : Nat) (hg : 0 < g) (h : ¬ p % (2*g) < g) :
    g ≤ p ∧ (p-g) % (2*g) = p % (2*g) - g ∧ (p-g) / (2*g) = p / (2*g) := by
  have hp := Nat.div_add_mod p (2*g)
  have hm : p % (2*g) < 2*g := Nat.mod_lt _ (by omega)
  have e : p - g = 2*g*(p/(2*g)) + (p % (2*g) - g) := by omega
  have hlt : p % (2*g) - g < 2*g := by omega
  refine ⟨by omega, ?_, ?_⟩
  · rw [e, Nat.mul_add_mod, Nat.mod_eq_of_lt hlt]
  · rw [e, Nat.mul_add_div (by omega), Nat.div_eq_of_lt hlt, Nat.add_zero]

theorem block_bound (g M p : Nat) (hp : p < M * (2*g)) (h : p % (2*g) < g) : p + g < M * (2*g) := by
  have hg : 0 < 2*g := by omega
  have hq : p / (2*g) < M := (Nat.div_lt_iff_lt_mul hg).2 hp
  have h1 : 2*g*(p/(2*g) + 1) ≤ 2*g*M := Nat.mul_le_mul_left _ hq
  rw [Nat.mul_add, Nat.mul_one] at h1
  have hd := Nat.div_add_mod p (2*g)
  rw [Nat.mul_comm M]
  omega

theorem block_div_lt (g M p : Nat) (hg : 0 < g) (hp : p < M * (2*g)) : p / (2*g) < M :=
  (Nat.div_lt_iff_lt_mul (by omega)).2 hp

theorem two_pow_split (l d : Nat) : 2^(l+1+d) = 2^l * (2 * 2^d) := by ring

/-! ### the layers of the exact instance, subtraction-free -/
theorem fwdLayer_eq (k l d : Nat) (hk : k = l+1+d) (roots v : Nat → R) (p : Nat) :
    fwdLayer (exactArith R) k l roots v p =
      if p % (2*2^d) < 2^d then v p + v (p+2^d) * roots (2^l + p/(2*2^d))
      else v (p-2^d) - v p * roots (2^l + p/(2*2^d)) := by
  subst hk
  have : l+1+d-l-1 = d := by omega
  simp only [fwdLayer, this, exactArith]

theorem invLayer_eq (k lam d : Nat) (hk : k = lam+1+d) (roots v : Nat → R) (p : Nat) :
    invLayer (exactArith R) k lam roots v p =
      if p % (2*2^lam) < 2^lam then v p + v (p+2^lam)
      else (v (p-2^lam) - v p) * roots (2^k - 2*2^d + 1 + p/(2*2^lam)) := by
  subst hk
  have : lam+1+d-1-lam = d := by omega
  simp only [invLayer, this, exactArith]

theorem fwdLayer_congr (k l : Nat) (hl : l < k) (roots v v' : Nat → R) (h : ∀ p, p < 2^k → v p = v' p) :
    ∀ p, p < 2^k → fwdLayer (exactArith R) k l roots v p = fwdLayer (exactArith R) k l roots v' p := by
  intro p hp
  obtain ⟨d, hk⟩ : ∃ d, k = l+1+d := ⟨k-l-1, by omega⟩
  have hg : 0 < 2^d := Nat.two_pow_pos d
  rw [fwdLayer_eq k l d hk, fwdLayer_eq k l d hk]
  have hK : 2^k = 2^l * (2 * 2^d) := by rw [hk]; exact two_pow_split l d
  by_cases ho : p % (2*2^d) < 2^d
  · rw [if_pos ho, if_pos ho, h p hp, h (p+2^d) (by rw [hK] at hp ⊢; exact block_bound _ _ _ hp ho)]
  · rw [if_neg ho, if_neg ho, h p hp, h (p-2^d) (lt_of_le_of_lt (Nat.sub_le _ _) hp)]

theorem invLayer_congr (k lam : Nat) (hl : lam < k) (roots v v' : Nat → R) (h : ∀ p, p < 2^k → v p = v' p) :
    ∀ p, p < 2^k → invLayer (exactArith R) k lam roots v p = invLayer (exactArith R) k lam roots v' p := by
  intro p hp
  obtain ⟨d, hk⟩ : ∃ d, k = lam+1+d := ⟨k-lam-1, by omega⟩
  rw [invLayer_eq k lam d hk, invLayer_eq k lam d hk]
  have hK : 2^k = 2^d * (2 * 2^lam) := by rw [hk]; ring
  by_cases ho : p % (2*2^lam) < 2^lam
  · rw [if_pos ho, if_pos ho, h p hp, h (p+2^lam) (by rw [hK] at hp ⊢; exact block_bound _ _ _ hp ho)]
  · rw [if_neg ho, if_neg ho, h p hp, h (p-2^lam) (lt_of_le_of_lt (Nat.sub_le _ _) hp)]

theorem fwdLayer_smul (k l : Nat) (roots v : Nat → R) (c : R) (p : Nat) :
    fwdLayer (exactArith R) k l roots (fun q => c * v q) p = c * fwdLayer (exactArith R) k l roots v p := by
  simp only [fwdLayer, exactArith]
  split <;> ring

theorem invLayer_smul (k lam : Nat) (roots v : Nat → R) (c : R) (p : Nat) :
    invLayer (exactArith R) k lam roots (fun q => c * v q) p = c * invLayer (exactArith R) k lam roots v p := by
  simp only [invLayer, exactArith]
  split <;> ring

/-- the network only looks at indices below 2^k -/
theorem runFwd_congr (k : Nat) (roots : Nat → R) (a a' : Nat → R) (h : ∀ p, p < 2^k → a p = a' p) :
    ∀ l, l ≤ k → ∀ p, p < 2^k → runFwd (exactArith R) k roots a l p = runFwd (exactArith R) k roots a' l p := by
  intro l
  induction l with
  | zero => intro _ p hp; exact h p hp
  | succ l ih =>
    intro hl p hp
    exact fwdLayer_congr k l (by omega) roots _ _ (ih (by omega)) p hp
theorem runInv_congr (k : Nat) (roots : Nat → R) (a a' : Nat → R) (h : ∀ p, p < 2^k → a p = a' p) :
    ∀ l, l ≤ k → ∀ p, p < 2^k → runInv (exactArith R) k roots a l p = runInv (exactArith R) k roots a' l p := by
  intro l
  induction l with
  | zero => intro _ p hp; exact h p hp
  | succ l ih =>
    intro hl p hp
    exact invLayer_congr k l (by omega) roots _ _ (ih (by omega)) p hp

/-! ### forward network = evaluation -/
theorem sum_split (f : ℕ → R) (r : R) (m : ℕ) :
    ∑ s ∈ range (2*m), f s * r^s
      = ∑ t ∈ range m, f (2*t) * (r^2)^t + r * ∑ t ∈ range m, f (2*t+1) * (r^2)^t := by
  induction m with
  | zero => simp
  | succ m ih =>
    have : 2*(m+1) = 2*m + 1 + 1 := by ring
    rw [this, sum_range_succ, sum_range_succ, ih, sum_range_succ, sum_range_succ, mul_add]
    ring

/-- coefficient `j` of the input polynomial reduced modulo `X^w - ρ` (degree `< w·cnt`) -/
def blockVal (a : ℕ → R) (w cnt : ℕ) (ρ : R) (j : ℕ) : R := ∑ t ∈ range cnt, a (j + t*w) * ρ^t

theorem butterfly_left (a : ℕ → R) (g m : ℕ) (r : R) (j : ℕ) :
    blockVal a g (2*m) r j = blockVal a (2*g) m (r^2) j + r * blockVal a (2*g) m (r^2) (j+g) := by
  unfold blockVal
  have h := sum_split (fun s => a (j + s*g)) r m
  rw [h]; congr 1
  · apply sum_congr rfl; intro t _; congr 2; ring
  · congr 1; apply sum_congr rfl; intro t _; congr 2; ring

theorem butterfly_right (a : ℕ → R) (g m : ℕ) (r : R) (j : ℕ) :
    blockVal a g (2*m) (-r) j = blockVal a (2*g) m (r^2) j - r * blockVal a (2*g) m (r^2) (j+g) := by
  have := butterfly_left a g m (-r) j
  rw [this]; simp; ring

theorem idx_block (G q o : Nat) (ho : o < G) : (q*G + o) % G = o ∧ (q*G + o) / G = q := by
  have hG : 0 < G := by omega
  constructor
  · rw [Nat.mul_comm, Nat.mul_add_mod, Nat.mod_eq_of_lt ho]
  · rw [Nat.mul_comm, Nat.mul_add_div hG, Nat.div_eq_of_lt ho, Nat.add_zero]

/-- block invariant: after `l` layers, block `i` holds the input reduced modulo
    `X^(2^d) - ψ^((2·brev l i + 1)·2^d)` -/
theorem fwd_invariant (k : Nat) (ψ : R) (hψ : ψ^(2^k) = -1) (roots : Nat → R)
    (hroots : ∀ j, 0 < j → j < 2^k → roots j = ψ^(brev k j)) (a : Nat → R) :
    ∀ l d, l + d = k → ∀ i j, i < 2^l → j < 2^d →
      runFwd (exactArith R) k roots a l (i * 2^d + j)
        = blockVal a (2^d) (2^l) (ψ^((2 * brev l i + 1) * 2^d)) j := by
  intro l
  induction l with
  | zero =>
    intro d _ i j hi hj
    have : i = 0 := by simpa using hi
    subst this
    simp [blockVal, runFwd]
  | succ l ih =>
    intro d hk i j hi hj
    have hk' : k = l+1+d := by omega
    have IH := ih (d+1) (by omega)
    have hg : 0 < 2^d := Nat.two_pow_pos d
    have hl : 0 < 2^l := Nat.two_pow_pos l
    have hi0 : i / 2 < 2^l := by rw [pow_succ] at hi; omega
    have hK : 2^k = 2^l * (2 * 2^d) := by rw [hk']; exact two_pow_split l d
    -- the root used by block i/2 of layer l
    have hroot : roots (2^l + i/2) = ψ^((2 * brev l (i/2) + 1) * 2^d) := by
      rw [hroots (2^l + i/2) (by omega) (by
        have : (2^l + i/2) + 1 ≤ 2^l * 2 := by omega
        calc 2^l + i/2 < 2^l * 2 := by omega
          _ ≤ 2^l * (2 * 2^d) := Nat.mul_le_mul_left _ (by omega)
          _ = 2^k := hK.symm), hk', brev_top l d _ hi0]
    have hsq : (ψ^((2 * brev l (i/2) + 1) * 2^d))^2 = ψ^((2 * brev l (i/2) + 1) * 2^(d+1)) := by
      rw [← pow_mul, pow_succ 2 d, Nat.mul_assoc]
    have e2l : 2^(l+1) = 2 * 2^l := by ring
    have e2d : 2^(d+1) = 2 * 2^d := by ring
    show fwdLayer (exactArith R) k l roots (runFwd (exactArith R) k roots a l) (i * 2^d + j) = _
    rw [fwdLayer_eq k l d hk']
    rcases Nat.mod_two_eq_zero_or_one i with hb | hb
    · -- left child
      have hi2 : i = 2 * (i/2) := by omega
      have ep : i * 2^d + j = (i/2) * (2 * 2^d) + j := by
        conv_lhs => rw [hi2]
        ring
      have hj2 : j < 2 * 2^d := by omega
      obtain ⟨em, ed⟩ := idx_block (2 * 2^d) (i/2) j hj2
      rw [ep, em, ed, if_pos hj, hroot]
      have e1 := IH (i/2) j hi0 (by omega)
      have e3 := IH (i/2) (j + 2^d) hi0 (by omega)
      rw [e2d] at e1 e3
      rw [Nat.add_assoc, e1, e3]
      conv_rhs => rw [hi2, brev_two_mul, e2l, butterfly_left, hsq, e2d]
      ring
    · -- right child
      have hi2 : i = 2 * (i/2) + 1 := by omega
      have ep : i * 2^d + j = (i/2) * (2 * 2^d) + (j + 2^d) := by
        conv_lhs => rw [hi2]
        ring
      have hj2 : j + 2^d < 2 * 2^d := by omega
      obtain ⟨em, ed⟩ := idx_block (2 * 2^d) (i/2) (j + 2^d) hj2
      rw [ep, em, ed, if_neg (by omega), hroot]
      have e1 := IH (i/2) j hi0 (by omega)
      have e3 := IH (i/2) (j + 2^d) hi0 (by omega)
      rw [e2d] at e1 e3
      have esub : i / 2 * (2 * 2^d) + (j + 2^d) - 2^d = i / 2 * (2 * 2^d) + j := by omega
      rw [esub, e1, e3]
      have hneg : ψ^((2 * brev (l+1) (2 * (i/2) + 1) + 1) * 2^d)
          = - ψ^((2 * brev l (i/2) + 1) * 2^d) := by
        rw [brev_two_mul_add_one]
        have : (2 * (2^l + brev l (i/2)) + 1) * 2^d = 2^k + (2 * brev l (i/2) + 1) * 2^d := by
          rw [hK]; ring
        rw [this, pow_add, hψ]; ring
      conv_rhs => rw [hi2, hneg, e2l, butterfly_right, hsq, e2d]
      ring

/-- FORWARD: output i is the evaluation of the input polynomial at psi^(2·brev k i + 1) -/
theorem fwd_eval (k : Nat) (ψ : R) (hψ : ψ^(2^k) = -1) (roots : Nat → R)
    (hroots : ∀ j, 0 < j → j < 2^k → roots j = ψ^(brev k j)) (a : Nat → R) :
    ∀ i, i < 2^k → runFwd (exactArith R) k roots a k i = ∑ j ∈ range (2^k), a j * (ψ^(2 * brev k i + 1))^j := by
  intro i hi
  have h := fwd_invariant k ψ hψ roots hroots a k 0 (by omega) i 0 hi (by norm_num)
  simpa [blockVal] using h

/-! ### layer-wise cancellation -/
theorem inv_fwd_layer (k l d : Nat) (hk : k = l+1+d) (roots iroots v : Nat → R) (p : Nat)
    (hrs : iroots (2^k - 2*2^l + 1 + p/(2*2^d)) * roots (2^l + p/(2*2^d)) = 1) :
    invLayer (exactArith R) k d iroots (fwdLayer (exactArith R) k l roots v) p = 2 * v p := by
  have hg : 0 < 2^d := Nat.two_pow_pos d
  rw [invLayer_eq k d l (by omega)]
  simp only [fwdLayer_eq k l d hk]
  by_cases ho : p % (2*2^d) < 2^d
  · obtain ⟨h1, h2⟩ := half_up (2^d) p ho
    rw [if_pos ho, if_pos ho, h1, h2, if_neg (by omega), Nat.add_sub_cancel]
    ring
  · obtain ⟨h0, h1, h2⟩ := half_down (2^d) p hg ho
    have hm : p % (2*2^d) < 2*2^d := Nat.mod_lt _ (by omega)
    rw [if_neg ho, if_neg ho, h1, h2, if_pos (by omega), Nat.sub_add_cancel h0]
    have : (v (p - 2^d) + v p * roots (2^l + p/(2*2^d)) - (v (p - 2^d) - v p * roots (2^l + p/(2*2^d))))
        * iroots (2^k - 2*2^l + 1 + p/(2*2^d))
        = 2 * v p * (iroots (2^k - 2*2^l + 1 + p/(2*2^d)) * roots (2^l + p/(2*2^d))) := by ring
    rw [this, hrs, mul_one]

theorem fwd_inv_layer (k l d : Nat) (hk : k = l+1+d) (roots iroots v : Nat → R) (p : Nat)
    (hrs : iroots (2^k - 2*2^l + 1 + p/(2*2^d)) * roots (2^l + p/(2*2^d)) = 1) :
    fwdLayer (exactArith R) k l roots (invLayer (exactArith R) k d iroots v) p = 2 * v p := by
  have hg : 0 < 2^d := Nat.two_pow_pos d
  rw [fwdLayer_eq k l d hk]
  simp only [invLayer_eq k d l (by omega)]
  by_cases ho : p % (2*2^d) < 2^d
  · obtain ⟨h1, h2⟩ := half_up (2^d) p ho
    rw [if_pos ho, if_pos ho, h1, h2, if_neg (by omega), Nat.add_sub_cancel]
    have : v p + v (p + 2^d) + (v p - v (p + 2^d)) * iroots (2^k - 2*2^l + 1 + p/(2*2^d))
          * roots (2^l + p/(2*2^d))
        = v p + v (p + 2^d) + (v p - v (p + 2^d))
          * (iroots (2^k - 2*2^l + 1 + p/(2*2^d)) * roots (2^l + p/(2*2^d))) := by ring
    rw [this, hrs]; ring
  · obtain ⟨h0, h1, h2⟩ := half_down (2^d) p hg ho
    have hm : p % (2*2^d) < 2*2^d := Nat.mod_lt _ (by omega)
    rw [if_neg ho, if_neg ho, h1, h2, if_pos (by omega), Nat.sub_add_cancel h0]
    have : v (p - 2^d) + v p - (v (p - 2^d) - v p) * iroots (2^k - 2*2^l + 1 + p/(2*2^d))
          * roots (2^l + p/(2*2^d))
        = v (p - 2^d) + v p - (v (p - 2^d) - v p)
          * (iroots (2^k - 2*2^l + 1 + p/(2*2^d)) * roots (2^l + p/(2*2^d))) := by ring
    rw [this, hrs]; ring

/-- the inverse table entry of block `i` in the layer with `2^l` blocks inverts the forward one -/
theorem roots_cancel (k : Nat) (ψ ψi : R) (hinv : ψ * ψi = 1) (roots iroots : Nat → R)
    (hroots : ∀ j, 0 < j → j < 2^k → roots j = ψ^(brev k j))
    (hiroots : ∀ p, 0 < p → p < 2^k → iroots p = ψi^(brev k (p-1) + 1))
    (l d : Nat) (hk : k = l+1+d) (i : Nat) (hi : i < 2^l) :
    iroots (2^k - 2*2^l + 1 + i) * roots (2^l + i) = 1 := by
  have hl : 0 < 2^l := Nat.two_pow_pos l
  have hg : 0 < 2^d := Nat.two_pow_pos d
  have hK : 2^k = 2^l * (2 * 2^d) := by rw [hk]; exact two_pow_split l d
  have hK2 : 2 * 2^l ≤ 2^k := by
    calc 2 * 2^l = 2^l * (2 * 1) := by ring
      _ ≤ 2^l * (2 * 2^d) := Nat.mul_le_mul_left _ (by omega)
      _ = 2^k := hK.symm
  have hj : brev k (2^l + i) = (2 * brev l i + 1) * 2^d := by rw [hk]; exact brev_top l d i hi
  have hjpos : 0 < brev k (2^l + i) := by rw [hj]; positivity
  have hjlt := brev_lt k (2^l + i)
  have hpred := brev_pred (k := k) (l := l) (i := i) (by omega) hi
  rw [pow_succ, Nat.mul_comm (2^l) 2] at hpred
  have e : 2^k - 2*2^l + 1 + i - 1 = 2^k - 2*2^l + i := by omega
  rw [hroots (2^l + i) (by omega) (by omega), hiroots (2^k - 2*2^l + 1 + i) (by omega) (by omega),
    e, ← hpred, brev_brev (by omega), Nat.sub_add_cancel hjpos, ← mul_pow, mul_comm ψi, hinv, one_pow]

/-- INVERSE ∘ FORWARD = 2^k · id (the remaining factor is cancelled by the scalar n^{-1}) -/
theorem inv_fwd (k : Nat) (ψ ψi : R) (hinv : ψ * ψi = 1) (roots iroots : Nat → R)
    (hroots : ∀ j, 0 < j → j < 2^k → roots j = ψ^(brev k j))
    (hiroots : ∀ p, 0 < p → p < 2^k → iroots p = ψi^(brev k (p-1) + 1)) (a : Nat → R) :
    ∀ p, p < 2^k → runInv (exactArith R) k iroots (runFwd (exactArith R) k roots a k) k p = 2^k * a p := by
  have key : ∀ n m, n + m = k → ∀ p, p < 2^k →
      runInv (exactArith R) k iroots (runFwd (exactArith R) k roots a k) n p
        = 2^n * runFwd (exactArith R) k roots a m p := by
    intro n
    induction n with
    | zero => intro m hm p _; have : m = k := by omega
              subst this; simp [runInv]
    | succ n ih =>
      intro m hm p hp
      have IH := ih (m+1) (by omega)
      have hk : k = m+1+n := by omega
      have hK : 2^k = 2^m * (2 * 2^n) := by rw [hk]; exact two_pow_split m n
      show invLayer (exactArith R) k n iroots _ p = _
      rw [invLayer_congr k n (by omega) iroots _ (fun q => 2^n * runFwd (exactArith R) k roots a (m+1) q) IH p hp,
        invLayer_smul]
      show 2^n * invLayer (exactArith R) k n iroots (fwdLayer (exactArith R) k m roots _) p = _
      rw [inv_fwd_layer k m n hk roots iroots _ p
        (roots_cancel k ψ ψi hinv roots iroots hroots hiroots m n hk _
          (block_div_lt _ _ _ (Nat.two_pow_pos n) (hK ▸ hp)))]
      rw [pow_succ]; ring
  intro p hp
  have := key k 0 (by omega) p hp
  simpa [runFwd] using this

/-- FORWARD ∘ INVERSE = 2^k · id -/
theorem fwd_inv (k : Nat) (ψ ψi : R) (hinv : ψ * ψi = 1) (roots iroots : Nat → R)
    (hroots : ∀ j, 0 < j → j < 2^k → roots j = ψ^(brev k j))
    (hiroots : ∀ p, 0 < p → p < 2^k → iroots p = ψi^(brev k (p-1) + 1)) (a : Nat → R) :
    ∀ p, p < 2^k → runFwd (exactArith R) k roots (runInv (exactArith R) k iroots a k) k p = 2^k * a p := by
  have key : ∀ n m, n + m = k → ∀ p, p < 2^k →
      runFwd (exactArith R) k roots (runInv (exactArith R) k iroots a k) n p
        = 2^n * runInv (exactArith R) k iroots a m p := by
    intro n
    induction n with
    | zero => intro m hm p _; have : m = k := by omega
              subst this; simp [runFwd]
    | succ n ih =>
      intro m hm p hp
      have IH := ih (m+1) (by omega)
      have hk : k = n+1+m := by omega
      have hK : 2^k = 2^n * (2 * 2^m) := by rw [hk]; exact two_pow_split n m
      show fwdLayer (exactArith R) k n roots _ p = _
      rw [fwdLayer_congr k n (by omega) roots _ (fun q => 2^n * runInv (exactArith R) k iroots a (m+1) q) IH p hp,
        fwdLayer_smul]
      show 2^n * fwdLayer (exactArith R) k n roots (invLayer (exactArith R) k m iroots _) p = _
      rw [fwd_inv_layer k n m hk roots iroots _ p
        (roots_cancel k ψ ψi hinv roots iroots hroots hiroots n m hk _
          (block_div_lt _ _ _ (Nat.two_pow_pos m) (hK ▸ hp)))]
      rw [pow_succ]; ring
  intro p hp
  have := key k 0 (by omega) p hp
  simpa [runInv] using this

/-! ### evaluation is multiplicative for the negacyclic product -/
theorem eval_negMul_row (i e : Nat) (x : R) (hx : x^(i+e) = -1) (ai : R) (b : Nat → R) :
    ∑ c ∈ range (i+e), (if i ≤ c then ai * b (c - i) else - (ai * b (i + e + c - i))) * x^c
      = ai * x^i * ∑ j ∈ range (i+e), b j * x^j := by
  rw [sum_range_add, Nat.add_comm i e, sum_range_add, mul_add, add_comm]
  congr 1
  · rw [mul_sum]
    apply sum_congr rfl
    intro c _
    rw [if_pos (Nat.le_add_right i c), Nat.add_sub_cancel_left, pow_add]
    ring
  · rw [mul_sum]
    apply sum_congr rfl
    intro c hc
    have hc' : c < i := mem_range.mp hc
    have e1 : e + i + c - i = e + c := by omega
    rw [if_neg (by omega), e1]
    have : x^i * x^(e + c) = - x^c := by
      rw [← pow_add, show i + (e + c) = (i + e) + c by omega, pow_add, hx]; ring
    calc -(ai * b (e + c)) * x^c = ai * b (e + c) * (- x^c) := by ring
      _ = ai * b (e + c) * (x^i * x^(e+c)) := by rw [this]
      _ = ai * x^i * (b (e + c) * x^(e + c)) := by ring

/-- evaluation at a root of X^n + 1 is multiplicative for the negacyclic product -/
theorem eval_negMul (n : Nat) (hn : 0 < n) (x : R) (hx : x^n = -1) (a b : Nat → R) :
    ∑ c ∈ range n, negMulR n a b c * x^c = (∑ i ∈ range n, a i * x^i) * (∑ j ∈ range n, b j * x^j) := by
  unfold negMulR
  simp only [sum_mul]
  rw [sum_comm]
  apply sum_congr rfl
  intro i hi
  have hi' : i < n := mem_range.mp hi
  obtain ⟨e, rfl⟩ : ∃ e, n = i + e := ⟨n - i, by omega⟩
  exact eval_negMul_row i e x hx (a i) b

/-- CONVOLUTION: inverse transform of the pointwise product of transforms = 2^k · negacyclic product -/
theorem ntt_convolution (k : Nat) (ψ ψi : R) (hψ : ψ^(2^k) = -1) (hinv : ψ * ψi = 1) (roots iroots : Nat → R)
    (hroots : ∀ j, 0 < j → j < 2^k → roots j = ψ^(brev k j))
    (hiroots : ∀ p, 0 < p → p < 2^k → iroots p = ψi^(brev k (p-1) + 1)) (a b : Nat → R) :
    ∀ c, c < 2^k →
      runInv (exactArith R) k iroots
        (fun i => runFwd (exactArith R) k roots a k i * runFwd (exactArith R) k roots b k i) k c
      = 2^k * negMulR (2^k) a b c := by
  intro c hc
  have hpt : ∀ i, i < 2^k →
      (fun i => runFwd (exactArith R) k roots a k i * runFwd (exactArith R) k roots b k i) i
        = runFwd (exactArith R) k roots (negMulR (2^k) a b) k i := by
    intro i hi
    have hx : (ψ^(2 * brev k i + 1))^(2^k) = -1 := by
      rw [← pow_mul, Nat.mul_comm, pow_mul, hψ]
      exact Odd.neg_one_pow ⟨brev k i, rfl⟩
    show runFwd (exactArith R) k roots a k i * runFwd (exactArith R) k roots b k i = _
    rw [fwd_eval k ψ hψ roots hroots a i hi, fwd_eval k ψ hψ roots hroots b i hi,
      fwd_eval k ψ hψ roots hroots (negMulR (2^k) a b) i hi,
      eval_negMul (2^k) (Nat.two_pow_pos k) _ hx a b]
  rw [runInv_congr k iroots _ _ hpt k (le_refl k) c hc]
  exact inv_fwd k ψ ψi hinv roots iroots hroots hiroots (negMulR (2^k) a b) c hc

end HC
