/-
  Translator phase 4h (app mode): the index lists `MatmulHelper::input_terms` / `output_terms` (src/app/matmul/cheetah.rs)
  regenerated into Gen/AppFns.lean = `inputTerms` / `outputTerms` of the hand model.  Helper prefix `ga_`.
-/
import Heathcliff.Proofs.GenAppConv
import Heathcliff.Proofs.C20B

namespace HC
open HC.MM HC.GenApp

theorem ga_pairs_map {β : Type} (A C : Nat) (g : Nat → Nat → β) :
    (pairs A C).map (fun p => g p.1 p.2) = (List.range A).flatMap fun a => (List.range C).map fun c => g a c := by
  simp [pairs, List.map_flatMap, List.map_map, Function.comp_def]

theorem ga_block_le {i j bb ib ob : Nat} (hi : i < bb) (hj : j < ob) : i * ib * ob + j * ib + ib ≤ bb * ib * ob := by
  have e1 : j * ib + ib ≤ ob * ib := c20_succ_mul_le hj
  have e2 : i * (ib * ob) + ib * ob ≤ bb * (ib * ob) := c20_succ_mul_le hi
  rw [Nat.mul_assoc i ib ob, Nat.mul_assoc bb ib ob]
  rw [Nat.mul_comm ob ib] at e1
  omega

/-- **`MatmulHelper::output_terms`, generated = model** for every helper whose block product fits a word and whose input block is
    non-zero (with `input_block = 0` and non-empty loops the code evaluates `0 + 0 + 0 - 1`: a trap) -/
theorem ga_mm_output_terms_eq (H : MatmulHelper) (hfit : H.batch_block * H.input_block * H.output_block < 2^64)
    (hib : 1 ≤ H.input_block) :
    mm_output_terms H = .ok (outputTerms (ga_toHelper H)) := by
  have inner : ∀ i, i < H.batch_block → ∀ j l, j < H.output_block →
      mm_output_terms_loop1 H i j l = .ok (.next (l ++ [outPos (ga_toHelper H) i j])) := by
    intro i hi j l hj
    have hb := ga_block_le (ib := H.input_block) hi hj
    have e1 : i * H.input_block ≤ i * H.input_block * H.output_block := Nat.le_mul_of_pos_right _ (by omega)
    simp only [mm_output_terms_loop1, ga_ckMul (show i * H.input_block < 2^64 by omega),
      ga_ckMul (show i * H.input_block * H.output_block < 2^64 by omega), ga_ckMul (show j * H.input_block < 2^64 by omega),
      ga_ckAdd (show i * H.input_block * H.output_block + j * H.input_block < 2^64 by omega),
      ga_ckAdd (show i * H.input_block * H.output_block + j * H.input_block + H.input_block < 2^64 by omega),
      ga_ckSub (show 1 ≤ i * H.input_block * H.output_block + j * H.input_block + H.input_block by omega), ga_ok_bind]
    rfl
  have outer : ∀ i l, i < H.batch_block →
      mm_output_terms_loop2 H H.output_block i l
        = .ok (.next (l ++ (List.range H.output_block).map (fun j => outPos (ga_toHelper H) i j))) := by
    intro i l hi
    simp only [mm_output_terms_loop2, Nat.sub_zero,
      ga_forUp_push _ (fun j => outPos (ga_toHelper H) i j) H.output_block l (fun j l hj => inner i hi j l hj), ga_ok_bind]
    rfl
  simp only [mm_output_terms, Nat.sub_zero,
    ga_forUp_push_list _ (fun i => (List.range H.output_block).map (fun j => outPos (ga_toHelper H) i j)) H.batch_block []
      (fun i l hi => outer i l hi), ga_ok_bind, outputTerms]
  rw [ga_pairs_map (ga_toHelper H).bb (ga_toHelper H).ob (outPos (ga_toHelper H))]
  rfl

/-- **`MatmulHelper::input_terms`, generated = model** (block product fits a word, non-zero output block) -/
theorem ga_mm_input_terms_eq (H : MatmulHelper) (hfit : H.batch_block * H.input_block * H.output_block < 2^64)
    (hob : 1 ≤ H.output_block) :
    mm_input_terms H = .ok (inputTerms (ga_toHelper H)) := by
  have inner : ∀ i, i < H.batch_block → ∀ j l, j < H.input_block →
      mm_input_terms_loop1 H i j l = .ok (.next (l ++ [inPos (ga_toHelper H) i j])) := by
    intro i hi j l hj
    have e2 : i * (H.input_block * H.output_block) + H.input_block * H.output_block ≤ H.batch_block * (H.input_block * H.output_block) :=
      c20_succ_mul_le hi
    rw [← Nat.mul_assoc, ← Nat.mul_assoc] at e2
    have e1 : i * H.input_block ≤ i * H.input_block * H.output_block := Nat.le_mul_of_pos_right _ (by omega)
    have e3 : H.input_block ≤ H.input_block * H.output_block := Nat.le_mul_of_pos_right _ (by omega)
    simp only [mm_input_terms_loop1, ga_ckMul (show i * H.input_block < 2^64 by omega),
      ga_ckMul (show i * H.input_block * H.output_block < 2^64 by omega),
      ga_ckAdd (show i * H.input_block * H.output_block + j < 2^64 by omega), ga_ok_bind]
    rfl
  have outer : ∀ i l, i < H.batch_block →
      mm_input_terms_loop2 H H.input_block i l
        = .ok (.next (l ++ (List.range H.input_block).map (fun j => inPos (ga_toHelper H) i j))) := by
    intro i l hi
    simp only [mm_input_terms_loop2, Nat.sub_zero,
      ga_forUp_push _ (fun j => inPos (ga_toHelper H) i j) H.input_block l (fun j l hj => inner i hi j l hj), ga_ok_bind]
    rfl
  simp only [mm_input_terms, Nat.sub_zero,
    ga_forUp_push_list _ (fun i => (List.range H.input_block).map (fun j => inPos (ga_toHelper H) i j)) H.batch_block []
      (fun i l hi => outer i l hi), ga_ok_bind, inputTerms]
  rw [ga_pairs_map (ga_toHelper H).bb (ga_toHelper H).ib (inPos (ga_toHelper H))]
  rfl

end HC
