/-
  Translator phase 4h (app mode): the prelude's `revBitsK` is the model's `brev`; reversing more bits than the operand has = shifting.
  Shared by the two generated copies of `reverse_bits_u64` (Gen/AppBatchFns.lean, Gen/AppLweFns.lean).  Imports no generated function file.
-/
import Heathcliff.Proofs.GenAppBase
import Heathcliff.Model.NTT
import Mathlib.Tactic.Ring

namespace HC
open HC.GenApp

theorem ga_revBitsK_eq_brev : ∀ k x, revBitsK k x = brev k x := by
  intro k; induction k with
  | zero => intro x; rfl
  | succ k ih => intro x; rw [revBitsK, brev, ih]

theorem ga_brev_zero : ∀ k, brev k 0 = 0 := by
  intro k; induction k with
  | zero => rfl
  | succ k ih => rw [brev, ih]; simp

theorem ga_brev_add : ∀ k j x, x < 2^k → brev (k + j) x = brev k x * 2^j := by
  intro k; induction k with
  | zero => intro j x hx; have : x = 0 := by simpa using hx
            subst this; rw [ga_brev_zero, brev]; simp
  | succ k ih =>
    intro j x hx
    have h2 : x / 2 < 2^k := by rw [Nat.pow_succ] at hx; omega
    rw [show k + 1 + j = (k + j) + 1 by omega, brev, brev, ih j _ h2, Nat.pow_add]; ring

/-- `x.reverse_bits() >> (64 - k)` (checked subtraction, checked shift) = `brev k x` for `1 ≤ k ≤ 64`, `x < 2^k` -/
theorem ga_rev_shift (x k : Nat) (hk : k ≤ 64) (h0 : k ≠ 0) (hx : x < 2^k) :
    (ckSub 64 k >>= fun t => GenApp.ckShr (revBitsK 64 x) t) = .ok (brev k x) := by
  rw [ga_ckSub hk, ga_ok_bind]
  unfold GenApp.ckShr
  rw [if_pos (by omega), ga_revBitsK_eq_brev]
  have := ga_brev_add k (64 - k) x hx
  rw [show k + (64 - k) = 64 by omega] at this
  rw [this, Nat.shiftRight_eq_div_pow, Nat.mul_div_cancel _ (Nat.two_pow_pos _)]

end HC
