/-
  C20, convolution: the coefficient of the negacyclic product of an encoded input tile and an encoded weight block at an output
  position is the valid cross-correlation entry (partial sum over the input-channel block).
-/
import Heathcliff.Proofs.C20E

namespace HC
open Finset HC.MM

set_option maxHeartbeats 1000000 in
theorem c20_conv2d_coeff {R : Type} [CommRing R] (h : CHelper) (x w : Nat → R)
    (hfit : h.bb * (h.cib * h.cob) * (h.hb * h.wb) ≤ h.n)
    (hkh : 1 ≤ h.S.kh) (hkw : 1 ≤ h.S.kw) (hkhb : h.S.kh ≤ h.hb) (hkwb : h.S.kw ≤ h.wb)
    (lb ub lci uci si ui sj uj loc uoc : Nat)
    (hb : ub - lb ≤ h.bb) (hc : uci - lci ≤ h.cib) (hr : ui - si ≤ h.hb) (hs : uj - sj ≤ h.wb) (ho : uoc - loc ≤ h.cob)
    (db dc i j : Nat) (hdb : db < ub - lb) (hdc : dc < uoc - loc) (hi : i + h.S.kh ≤ ui - si) (hj : j + h.S.kw ≤ uj - sj) :
    ∃ px pw, cvEncInputBlock h 0 x lb ub lci uci si ui sj uj = .ok px ∧ cvEncWeightBlock h 0 w loc uoc lci uci = .ok pw ∧
      negMulR h.n (fun p => px.getD p 0) (fun p => pw.getD p 0) (cyPos h db dc i j)
        = ∑ ic ∈ range (uci - lci), ∑ ki ∈ range h.S.kh, ∑ kj ∈ range h.S.kw,
            x ((lb + db) * h.S.ci * (h.S.h * h.S.w) + (lci + ic) * (h.S.h * h.S.w) + (si + (i + ki)) * h.S.w + (sj + (j + kj)))
              * w (((loc + dc) * h.S.ci + (lci + ic)) * (h.S.kh * h.S.kw) + ki * h.S.kw + kj) := by
  have hcob : 0 < h.cob := by omega
  have hbb : 0 < h.bb := by omega
  have hfitW : h.cob * h.cib * (h.hb * h.wb) ≤ h.n := by
    have h1 : h.cib * h.cob * (h.hb * h.wb) ≤ h.bb * (h.cib * h.cob * (h.hb * h.wb)) := Nat.le_mul_of_pos_left _ hbb
    have e1 : h.bb * (h.cib * h.cob) * (h.hb * h.wb) = h.bb * (h.cib * h.cob * (h.hb * h.wb)) := by ring
    have e2 : h.cob * h.cib * (h.hb * h.wb) = h.cib * h.cob * (h.hb * h.wb) := by ring
    omega
  obtain ⟨px, hpx, _, hxz, hxv⟩ := c20_cvEncInput_spec (0 : R) h x hfit hcob lb ub lci uci si ui sj uj hb hc hr hs
  obtain ⟨pw, hpw, hwz, hwv⟩ := c20_cvEncWeight_spec (0 : R) h w hfitW hkhb hkwb loc uoc lci uci ho hc
  refine ⟨px, pw, hpx, hpw, ?_⟩
  by_cases hcib : 0 < h.cib
  swap
  · have : uci - lci = 0 := by omega
    rw [this, Finset.sum_range_zero]
    unfold negMulR
    apply Finset.sum_eq_zero
    intro p _
    have hz : px.getD p 0 = 0 := hxz p (fun _ dc' _ _ _ hdc' _ _ => by omega)
    split <;> simp [hz]
  -- the read position in digit form
  have hcy := c20_cyPos_eq h db dc i j hcib hkh hkw hkhb hkwb
  have hsum : ∀ ic ki kj, ic < uci - lci → ki < h.S.kh → kj < h.S.kw →
      cxPos h db ic (i + ki) (j + kj) + cwPos h dc ic (h.S.kh - 1 - ki) (h.S.kw - 1 - kj) = cyPos h db dc i j := by
    intro ic ki kj h1 h2 h3
    rw [c20_cxPos_eq, c20_cwPos_eq, hcy]
    exact c20_cv_sum (by omega) h2 h3
  rw [c20_negMul_sparse h.n _ _ (cyPos h db dc i j) (range (uci - lci) ×ˢ (range h.S.kh ×ˢ range h.S.kw))
    (fun t => cxPos h db t.1 (i + t.2.1) (j + t.2.2))]
  · rw [Finset.sum_product]
    apply Finset.sum_congr rfl
    intro ic hic
    rw [Finset.sum_product]
    apply Finset.sum_congr rfl
    intro ki hki
    apply Finset.sum_congr rfl
    intro kj hkj
    have h1 : ic < uci - lci := Finset.mem_range.mp hic
    have h2 : ki < h.S.kh := Finset.mem_range.mp hki
    have h3 : kj < h.S.kw := Finset.mem_range.mp hkj
    have hpos : cyPos h db dc i j - cxPos h db ic (i + ki) (j + kj) = cwPos h dc ic (h.S.kh - 1 - ki) (h.S.kw - 1 - kj) := by
      have := hsum ic ki kj h1 h2 h3; omega
    show px.getD (cxPos h db ic (i + ki) (j + kj)) 0 * pw.getD (cyPos h db dc i j - cxPos h db ic (i + ki) (j + kj)) 0 = _
    rw [hpos, hxv db ic (i + ki) (j + kj) hdb h1 (by omega) (by omega),
      hwv dc ic (h.S.kh - 1 - ki) (h.S.kw - 1 - kj) hdc h1 (by omega) (by omega)]
    have e1 : h.S.kh - (h.S.kh - 1 - ki) - 1 = ki := by omega
    have e2 : h.S.kw - (h.S.kw - 1 - kj) - 1 = kj := by omega
    rw [e1, e2]
  · -- injectivity of the index map
    intro t ht t' ht' he
    simp only [Finset.mem_product, Finset.mem_range] at ht ht'
    simp only [c20_cxPos_eq] at he
    obtain ⟨_, e2, e3, e4⟩ := c20_pos4_inj (C := h.cib * h.cob) (hb := h.hb) (W := h.wb)
      (by have := Nat.le_mul_of_pos_right h.cib hcob; omega) (by have := Nat.le_mul_of_pos_right h.cib hcob; omega)
      (by omega) (by omega) (by omega) (by omega) he
    exact Prod.ext e2 (Prod.ext (by omega) (by omega))
  · intro t ht
    simp only [Finset.mem_product, Finset.mem_range] at ht
    have := hsum t.1 t.2.1 t.2.2 ht.1 ht.2.1 ht.2.2
    show cxPos h db t.1 (i + t.2.1) (j + t.2.2) ≤ _
    omega
  · -- the read position lies inside the ring
    rw [hcy]
    have hlt : db * h.cob + dc < h.bb * h.cob := by
      have := c20_succ_mul_le (ib := h.cob) (lt_of_lt_of_le hdb hb); omega
    have hfit' : h.bb * h.cob * h.cib * (h.hb * h.wb) ≤ h.n := by
      have : h.bb * h.cob * h.cib * (h.hb * h.wb) = h.bb * (h.cib * h.cob) * (h.hb * h.wb) := by ring
      omega
    have := c20_pos4_bound (C := h.cib) (hb := h.hb) (W := h.wb) (a := db * h.cob + dc) (c := h.cib - 1)
      (r := h.S.kh - 1 + i) (s := h.S.kw - 1 + j) (bb := h.bb * h.cob) (n := h.n) hlt (by omega) (by omega) (by omega) hfit'
    rw [Nat.add_mul]
    exact this
  · -- below the read position only the expected pairs are non-zero
    intro p hp hnot
    by_cases hA : ∀ db' dc' ti tj, db' < ub - lb → dc' < uci - lci → ti < ui - si → tj < uj - sj → cxPos h db' dc' ti tj ≠ p
    · show px.getD p 0 * _ = 0
      rw [hxz p hA, zero_mul]
    by_cases hB : ∀ doc dic ki kj, doc < uoc - loc → dic < uci - lci → ki < h.S.kh → kj < h.S.kw →
        cwPos h doc dic ki kj ≠ cyPos h db dc i j - p
    · show _ * pw.getD (cyPos h db dc i j - p) 0 = 0
      rw [hwz _ hB, mul_zero]
    exfalso
    push Not at hA hB
    obtain ⟨db', dc', ti, tj, hdb', hdc', hti, htj, hpa⟩ := hA
    obtain ⟨doc, dic, ki, kj, hdoc, hdic, hki, hkj, hpb⟩ := hB
    have hpq : cxPos h db' dc' ti tj + cwPos h doc dic ki kj = cyPos h db dc i j := by omega
    rw [c20_cxPos_eq, c20_cwPos_eq, hcy] at hpq
    obtain ⟨a1, a2, a3, a4, a5⟩ := c20_cv_low (W := h.wb) (hb := h.hb) (cib := h.cib) (cob := h.cob)
      (by omega) (by omega) (by omega) (by omega) hcib (by omega) (by omega) (by omega) hpq
    apply hnot (dic, h.S.kh - 1 - ki, h.S.kw - 1 - kj)
      (by simp only [Finset.mem_product, Finset.mem_range]; omega)
    show cxPos h db dic (i + (h.S.kh - 1 - ki)) (j + (h.S.kw - 1 - kj)) = p
    rw [← hpa, a4]
    have e1 : dc' = dic := by omega
    have e2 : ti = i + (h.S.kh - 1 - ki) := by omega
    have e3 : tj = j + (h.S.kw - 1 - kj) := by omega
    rw [e1, e2, e3]
  · -- wrap-around terms
    intro p hp hpn
    by_cases hA : ∀ db' dc' ti tj, db' < ub - lb → dc' < uci - lci → ti < ui - si → tj < uj - sj → cxPos h db' dc' ti tj ≠ p
    · show px.getD p 0 * _ = 0
      rw [hxz p hA, zero_mul]
    by_cases hB : ∀ doc dic ki kj, doc < uoc - loc → dic < uci - lci → ki < h.S.kh → kj < h.S.kw →
        cwPos h doc dic ki kj ≠ h.n + cyPos h db dc i j - p
    · show _ * pw.getD (h.n + cyPos h db dc i j - p) 0 = 0
      rw [hwz _ hB, mul_zero]
    exfalso
    push Not at hA hB
    obtain ⟨db', dc', ti, tj, hdb', hdc', hti, htj, hpa⟩ := hA
    obtain ⟨doc, dic, ki, kj, hdoc, hdic, hki, hkj, hpb⟩ := hB
    have hpq : cxPos h db' dc' ti tj + cwPos h doc dic ki kj = h.n + cyPos h db dc i j := by omega
    rw [c20_cxPos_eq, c20_cwPos_eq, hcy] at hpq
    exact c20_cv_high (n := h.n) (bb := h.bb) (kh := h.S.kh) (kw := h.S.kw) hfit (by omega) (by omega) (by omega) (by omega)
      (by omega) (by omega) hki hkj (by omega) (by omega) hpq

end HC
