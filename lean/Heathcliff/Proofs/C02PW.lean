/- C02 (task P): non-vacuity of `hom_program_bgv` in the constructor-built world of Proofs/NonVac.lean (N = 4, q = {97, 113}, Q = 10961,
   t = 17, secret (1, −1, 0, 1)): two fresh BGV ciphertexts (phases m + 17·e), the depth-2 program  (x0 + x1)·(−x0) − x1  (add, negate,
   2×2 multiply giving size 3, mixed-size subtract 3 − 2), all hypotheses of the theorem discharged, conclusion evaluated. -/
import Heathcliff.Proofs.C02PH
import Heathcliff.Proofs.C01EW
namespace HC

def c02p_exL : Level := { nv_level with scheme := .bgv }

theorem c02p_exL_ok : c02p_LevelOK c02p_exL :=
  ⟨⟨nv_level_wf.npow, nv_level_wf.tsize, nv_level_wf.twf⟩, ⟨nv_toolOK_fields.1, nv_toolOK_fields.2.1⟩,
    ⟨c01e_exDecOK.n_eq, c01e_exDecOK.t_eq, c01e_exDecOK.base_eq, c01e_exDecOK.tool⟩, rfl⟩

/-- x0: message (1, 2, 0, −1), error (1, 0, −1, 0); x1: message (3, −2, 1, 0), error (0, 1, 0, −1) -/
def c02p_exCt0 : Ct := ⟨#[#[#[84, 3, 52, 61], #[84, 77, 42, 110]], #[#[56, 44, 96, 18], #[3, 70, 19, 41]]], true, 1⟩
def c02p_exCt1 : Ct := ⟨#[#[#[18, 74, 10, 33], #[5, 109, 48, 85]], #[#[19, 55, 21, 71], #[104, 16, 38, 89]]], true, 1⟩
def c02p_exM (i : Nat) (j : Nat) : Int := if i = 0 then (#[1, 2, 0, -1] : Array Int).getD j 0 else (#[3, -2, 1, 0] : Array Int).getD j 0
def c02p_exE (i : Nat) (j : Nat) : Int := if i = 0 then (#[1, 0, -1, 0] : Array Int).getD j 0 else (#[0, 1, 0, -1] : Array Int).getD j 0
def c02p_exCts (i : Nat) : Ct := if i = 0 then c02p_exCt0 else c02p_exCt1
def c02p_exProg : BProg := .sub (.mul (.add (.inp 0) (.inp 1)) (.neg (.inp 0))) (.inp 1)

theorem c02p_exGood (i : Nat) : c02p_Good c02p_exL (c02p_exCts i) := by
  have hc : ∀ p ∈ [c02p_exCt0.polys.getD 0 #[], c02p_exCt0.polys.getD 1 #[], c02p_exCt1.polys.getD 0 #[], c02p_exCt1.polys.getD 1 #[]],
      RnsCanon c02p_exL p := by
    intro p hp
    simp only [List.mem_cons, List.mem_nil_iff, or_false] at hp
    rcases hp with rfl | rfl | rfl | rfl <;> (unfold RnsCanon; decide +kernel)
  unfold c02p_exCts
  split
  · refine ⟨⟨⟨by decide, by decide, fun k hk => ?_⟩, ⟨by decide, by decide⟩⟩, rfl, by decide⟩
    have hk' : k < 2 := hk
    interval_cases k
    · exact hc _ (by simp)
    · exact hc _ (by simp)
  · refine ⟨⟨⟨by decide, by decide, fun k hk => ?_⟩, ⟨by decide, by decide⟩⟩, rfl, by decide⟩
    have hk' : k < 2 := hk
    interval_cases k
    · exact hc _ (by simp)
    · exact hc _ (by simp)

theorem c02p_exPhase : ∀ i, i < 2 → ∀ j, j < 4 →
    c02p_ph c02p_exL nv_sk (c02p_exCts i) j = ((c02p_exCts i).cf : Int) * c02p_exM i j + 17 * c02p_exE i j := by decide +kernel

theorem c02p_exEnc (i : Nat) (hi : i < 2) : c02p_Enc c02p_exL nv_sk (c02p_exCts i) (c02p_exM i) 20 ∧ (c02p_exCts i).cf = 1 := by
  have h := c02p_enc_of_fresh (sk := nv_sk) (c02p_exGood i) (c02p_exM i) (c02p_exE i) 3 1 (fun j hj => c02p_exPhase i hi j hj)
    (by revert i; decide) (by revert i; decide)
  have hcf : (c02p_exCts i).cf = 1 := by interval_cases i <;> rfl
  rw [hcf] at h
  exact ⟨h, hcf⟩

/-- the value the model returns for the program -/
def c02p_exR : Ct := (c02p_exProg.eval c02p_exL c02p_exCts (fun _ => #[])).toOption.getD default

/-- the model does not refuse the program -/
theorem c02p_exEval : c02p_exProg.eval c02p_exL c02p_exCts (fun _ => #[]) = .ok c02p_exR :=
  nv_ok_of_isOk default (by decide +kernel)

/-- ... and returns a size-3 NTT-form ciphertext with correction factor 1 -/
theorem c02p_exR_val : (c02p_exR.polys, c02p_exR.ntt, c02p_exR.cf) =
    (#[#[#[47, 83, 64, 53], #[90, 33, 14, 48]], #[#[94, 43, 68, 83], #[20, 4, 39, 103]], #[#[68, 9, 20, 47], #[18, 82, 47, 94]]], true, 1) := by
  decide +kernel

/-- the a-priori bound: (1, 4·(20+20)·20 + 20) and 2·3220 < Q = 10961 -/
theorem c02p_exUB : c02p_exProg.noiseUB c02p_exL.t c02p_exL.n (fun _ => (1, 20)) (fun _ => 0) = some (1, 3220) := by decide +kernel

/-- NON-VACUITY: every hypothesis of `hom_program_bgv` holds for the concrete depth-2 program; its conclusion for this instance -/
theorem hom_program_bgv_example :
    bgvDecrypt c02p_exL nv_sk c02p_exR =
      .ok (Spec.trim (Array.ofFn (n := c02p_exL.n) fun j =>
        Spec.imod (c02p_exProg.shadow c02p_exL.n c02p_exM (fun _ _ => 0) j.val) c02p_exL.t.value)) :=
  hom_program_bgv c02p_exL_ok (by decide) c02p_exCts (fun _ => #[]) c02p_exM (fun _ _ => 0) (fun _ => (1, 20)) (fun _ => 0) c02p_exProg
    (fun i hi => by
      have : i < 2 := by
        simp [c02p_exProg, BProg.ctInputs] at hi
        omega
      exact c02p_exEnc i this)
    (fun k hk => by simp [c02p_exProg, BProg.plInputs] at hk)
    c02p_exEval c02p_exUB (by
      show 2 * 3220 < nv_tool.baseQ.prod
      rw [nv_tool_shape.2.1]
      decide)

/-- ... and both sides evaluated: the model decrypts the result to (8, 10, 16, 3) = ((m0 + m1)·(−m0) − m1) mod (X^4 + 1, 17) -/
theorem hom_program_bgv_example_val : (bgvDecrypt c02p_exL nv_sk c02p_exR).toOption = some #[8, 10, 16, 3] := by decide +kernel

end HC
