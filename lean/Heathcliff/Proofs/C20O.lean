/-
  C20O: `MatmulBoltCcDc` end to end over the model (`Model/Matmul.lean`): LHS packed by diagonals, RHS column-major, outputs
  column-major.

    * `c20_boltSpread_spec`    `spread_inputs`: the masked segment of one column is copied onto every column (log-many rotations whose
                               direction follows the bits of the column index, the last one across the rows);
    * `c20_dcMulSmall_spec`    `MatmulBoltCcDcSmall::multiply`;
    * `c20_zipFold_get`        the `add_inplace` accumulation of the block products;
    * `c20_boltDc_whole`, `c20_boltDc_new`   the end-to-end theorems (`r > 0`: the constructor accepts `r = 0`, `multiply` does not).
-/
import Heathcliff.Proofs.C20N
namespace HC
open Finset HC.MM

variable {S : Type}

/-! ### block arithmetic of `spread_inputs` -/

/-- a rotation by `a` blocks of `B` columns inside a row of `nb` blocks, on block indices -/
theorem c20_colrot_block {B nb a c : Nat} (hB : 0 < B) (hnb : 0 < nb) :
    (c / (nb * B) * (nb * B) + (c % (nb * B) + a * B) % (nb * B)) / B = c / B / nb * nb + (c / B % nb + a) % nb := by
  have e1 : c / (nb * B) = c / B / nb := by rw [Nat.div_div_eq_div_mul, Nat.mul_comm]
  have e2 : c % (nb * B) = c / B % nb * B + c % B := by
    rw [Nat.mul_comm nb B, Nat.mod_mul]; ring
  have hlt : c % B < B := Nat.mod_lt _ hB
  have e3 : c / B % nb * B + c % B + a * B = (c / B % nb + a) * B + c % B := by ring
  rw [e1, e2, e3, (c20_col_divmod (x := c / B % nb + a) (w := nb) hnb hlt).2]
  have e4 : c / B / nb * (nb * B) + ((c / B % nb + a) % nb * B + c % B) = (c / B / nb * nb + (c / B % nb + a) % nb) * B + c % B := by
    ring
  rw [e4]
  exact (c20_divmod hlt).1

/-- one doubling of `spread_inputs` on block indices: the block `u'` read by the rotation is the sibling of `u` exactly when needed -/
theorem c20_spread_blocks {nb' u us : Nat} (hnb : 0 < nb') :
    let u' := u / (2 * nb') * (2 * nb') + (u % (2 * nb') + (if us % 2 = 0 then 2 * nb' - 1 else 1)) % (2 * nb')
    (u = us → u' ≠ us) ∧ ((u = us ∨ u' = us) ↔ u / 2 = us / 2) := by
  intro u'
  have hv := Nat.mod_lt u (by omega : 0 < 2 * nb')
  have hu := Nat.div_add_mod' u (2 * nb')
  have hq : u / (2 * nb') * (2 * nb') = 2 * (u / (2 * nb') * nb') := by ring
  generalize u / (2 * nb') * nb' = Q at hq
  by_cases hpar : us % 2 = 0
  · have hu' : u' = u / (2 * nb') * (2 * nb') + (u % (2 * nb') + (2 * nb' - 1)) % (2 * nb') := by
      show _ + (_ + (if us % 2 = 0 then 2 * nb' - 1 else 1)) % _ = _; rw [if_pos hpar]
    rcases Nat.eq_zero_or_pos (u % (2 * nb')) with hz | hp
    · rw [hz, Nat.zero_add, Nat.mod_eq_of_lt (by omega : 2 * nb' - 1 < 2 * nb')] at hu'
      omega
    · have e : u % (2 * nb') + (2 * nb' - 1) = (u % (2 * nb') - 1) + 2 * nb' := by omega
      rw [e, Nat.add_mod_right, Nat.mod_eq_of_lt (by omega)] at hu'
      omega
  · have hu' : u' = u / (2 * nb') * (2 * nb') + (u % (2 * nb') + 1) % (2 * nb') := by
      show _ + (_ + (if us % 2 = 0 then 2 * nb' - 1 else 1)) % _ = _; rw [if_neg hpar]
    rcases Nat.lt_or_ge (u % (2 * nb') + 1) (2 * nb') with hlt | hge
    · rw [Nat.mod_eq_of_lt hlt] at hu'
      omega
    · have e : u % (2 * nb') + 1 = 2 * nb' := by omega
      rw [e, Nat.mod_self] at hu'
      omega

/-! ### `spread_inputs` -/

theorem c20_spread_go_succ (add : S → S → S) (z : S) (N f rc sid : Nat) (a : Array S) :
    boltSpread.go add z N (f+1) rc sid a = if rc = N then a else
      boltSpread.go add z N f (2 * rc) (sid / 2) (slotZip add z N a
        (if rc < N / 2 then (if sid % 2 = 0 then rotRows z N (N / 2 - rc) a else rotRows z N rc a) else swapRows z N a)) := rfl

/-- the rotation phase of `spread_inputs`: after the doublings up to a whole row, the column `σ` has been copied onto its row -/
theorem c20_spread_phase [AddCommMonoid S] (gap g σ : Nat) (hgap : 0 < gap) (v : Nat → S) :
    ∀ j k f (ak : Array S), k + j = g →
      (∀ c t, c < 2 * 2^g → t < gap → ak.getD (c * gap + t) 0 = if c / 2^k = σ / 2^k then v t else 0) →
      ∃ a', boltSpread.go (· + ·) 0 (2 * (2^g * gap)) (f + j) (2^k * gap) (σ / 2^k) ak
          = boltSpread.go (· + ·) 0 (2 * (2^g * gap)) f (2^g * gap) (σ / 2^g) a' ∧
        ∀ c t, c < 2 * 2^g → t < gap → a'.getD (c * gap + t) 0 = if c / 2^g = σ / 2^g then v t else 0 := by
  have hhp : 0 < 2^g := Nat.two_pow_pos g
  have hH : 0 < 2^g * gap := Nat.mul_pos hhp hgap
  intro j
  induction j with
  | zero =>
    intro k f ak hk hak
    have : k = g := by omega
    subst this
    exact ⟨ak, rfl, hak⟩
  | succ j ih =>
    intro k f ak hk hak
    have hkg : k < g := by omega
    have hBp : 0 < 2^k := Nat.two_pow_pos k
    have hlt : 2^k * gap < 2^g * gap :=
      Nat.mul_lt_mul_of_pos_right (Nat.pow_lt_pow_right (by decide) hkg) hgap
    -- the row holds `2·nb'` blocks of `2^k` columns
    have hnb : 2^g = 2 * 2^(g-k-1) * 2^k := by
      rw [Nat.mul_comm 2, ← Nat.pow_succ, ← Nat.pow_add]; congr 1; omega
    have hnbp : 0 < 2^(g-k-1) := Nat.two_pow_pos _
    show ∃ a', boltSpread.go (· + ·) 0 (2 * (2^g * gap)) ((f + j) + 1) (2^k * gap) (σ / 2^k) ak = _ ∧ _
    rw [c20_spread_go_succ, if_neg (by omega), Nat.mul_div_cancel_left _ (by decide : 0 < 2), if_pos hlt]
    have e2 : 2 * (2^k * gap) = 2^(k+1) * gap := by rw [Nat.pow_succ]; ring
    have e3 : σ / 2^k / 2 = σ / 2^(k+1) := by rw [Nat.div_div_eq_div_mul, Nat.pow_succ]
    rw [e2, e3]
    apply ih (k+1) f _ (by omega)
    intro c t hc ht
    have hp : c * gap + t < 2 * (2^g * gap) := by
      have := c20_succ_mul_le (ib := gap) hc
      rw [← Nat.mul_assoc]; omega
    -- the slot read by the rotation, in (column, entry) form
    have hrot : (if σ / 2^k % 2 = 0 then rotRows 0 (2 * (2^g * gap)) (2^g * gap - 2^k * gap) ak
          else rotRows 0 (2 * (2^g * gap)) (2^k * gap) ak).getD (c * gap + t) 0
        = ak.getD ((c / 2^g * 2^g + (c % 2^g + (if σ / 2^k % 2 = 0 then 2 * 2^(g-k-1) - 1 else 1) * 2^k) % 2^g) * gap + t) 0 := by
      have hiter : ∀ amt, c20_rho (2^g * gap) (amt * gap) (c * gap + t)
          = (c / 2^g * 2^g + (c % 2^g + amt) % 2^g) * gap + t := by
        intro amt
        have := c20_rho_iter_col (irc := amt) hhp 1 c t hc ht
        rw [Function.iterate_one, Nat.one_mul] at this
        exact this
      split
      · rw [c20_rotRows_get 0 _ _ ak hp]
        have e : 2^g * gap - 2^k * gap = ((2 * 2^(g-k-1) - 1) * 2^k) * gap := by
          rw [← Nat.sub_mul]; congr 1
          rw [Nat.sub_mul, Nat.one_mul, ← hnb]
        rw [e, hiter]
      · rw [c20_rotRows_get 0 _ _ ak hp]
        have e : 2^k * gap = (1 * 2^k) * gap := by rw [Nat.one_mul]
        rw [e, hiter]
    rw [c20_slotZip_get _ _ _ _ _ hp, hrot, hak c t hc ht]
    have hc' : c / 2^g * 2^g + (c % 2^g + (if σ / 2^k % 2 = 0 then 2 * 2^(g-k-1) - 1 else 1) * 2^k) % 2^g < 2 * 2^g := by
      have h1 : c / 2^g < 2 := by rw [Nat.div_lt_iff_lt_mul hhp]; omega
      have := c20_succ_mul_le (ib := 2^g) h1
      have := Nat.mod_lt (c % 2^g + (if σ / 2^k % 2 = 0 then 2 * 2^(g-k-1) - 1 else 1) * 2^k) hhp
      omega
    rw [hak _ t hc' ht]
    -- block indices
    have hblk := c20_colrot_block (B := 2^k) (nb := 2 * 2^(g-k-1)) (a := if σ / 2^k % 2 = 0 then 2 * 2^(g-k-1) - 1 else 1) (c := c)
      hBp (by omega)
    rw [← hnb] at hblk
    rw [hblk]
    obtain ⟨hx1, hx2⟩ := c20_spread_blocks (nb' := 2^(g-k-1)) (u := c / 2^k) (us := σ / 2^k) hnbp
    have e4 : c / 2^(k+1) = c / 2^k / 2 := by rw [Nat.div_div_eq_div_mul, Nat.pow_succ]
    have e5 : σ / 2^(k+1) = σ / 2^k / 2 := by rw [Nat.div_div_eq_div_mul, Nat.pow_succ]
    rw [e4, e5]
    by_cases h1 : c / 2^k = σ / 2^k
    · rw [if_pos h1, if_neg (hx1 h1), add_zero, if_pos (hx2.mp (Or.inl h1))]
    · rw [if_neg h1, zero_add]
      by_cases h2 : c / 2 ^ k / (2 * 2 ^ (g - k - 1)) * (2 * 2 ^ (g - k - 1)) +
          (c / 2 ^ k % (2 * 2 ^ (g - k - 1)) + if σ / 2 ^ k % 2 = 0 then 2 * 2 ^ (g - k - 1) - 1 else 1) % (2 * 2 ^ (g - k - 1))
          = σ / 2^k
      · rw [if_pos h2, if_pos (hx2.mp (Or.inr h2))]
      · rw [if_neg h2, if_neg (fun h3 => by rcases hx2.mpr h3 with h4 | h4; exact h1 h4; exact h2 h4)]

/-- **`spread_inputs`**: the segment `[lo, hi)` (inside column `σ = lo / gap`) of the input is kept and copied onto every column -/
theorem c20_boltSpread_spec [AddCommMonoid S] (half gap g : Nat) (hhalf : half = 2^g) (hg : g ≤ 63) (hgap : 0 < gap) (a : Array S)
    (lo hi σ : Nat) (hσ : σ < 2 * half) (hlo : σ * gap ≤ lo) (hlh : lo < hi) (hhi : hi ≤ σ * gap + gap) :
    ∃ r, boltSpread (· + ·) 0 (2 * (half * gap)) gap lo hi a = .ok r ∧ r.size = 2 * (half * gap) ∧
      ∀ c t, c < 2 * half → t < gap →
        r.getD (c * gap + t) 0 = if lo ≤ σ * gap + t ∧ σ * gap + t < hi then a.getD (σ * gap + t) 0 else 0 := by
  subst hhalf
  have hhp : 0 < 2^g := Nat.two_pow_pos g
  have hH : 0 < 2^g * gap := Nat.mul_pos hhp hgap
  have hlog : lo / gap = σ := Nat.div_eq_of_lt_le (by rw [Nat.mul_comm] at hlo; rw [Nat.mul_comm]; exact hlo)
    (by rw [Nat.succ_mul]; omega)
  have hhig : (hi - 1) / gap = σ := Nat.div_eq_of_lt_le (by omega) (by rw [Nat.succ_mul]; omega)
  unfold boltSpread
  rw [if_neg (by rw [hlog, hhig]; omega), hlog]
  -- the masked input
  have hmask : ∀ c t, c < 2 * 2^g → t < gap →
      (slotMask 0 (2 * (2^g * gap)) lo hi a).getD (c * gap + t) 0
        = if c / 2^0 = σ / 2^0 then (if lo ≤ σ * gap + t ∧ σ * gap + t < hi then a.getD (σ * gap + t) 0 else 0) else 0 := by
    intro c t hc ht
    have hp : c * gap + t < 2 * (2^g * gap) := by
      have := c20_succ_mul_le (ib := gap) hc
      rw [← Nat.mul_assoc]; omega
    rw [c20_slotMask_get _ _ _ _ _ hp, Nat.pow_zero, Nat.div_one, Nat.div_one]
    by_cases hcs : c = σ
    · rw [if_pos hcs, hcs]
    · rw [if_neg hcs, if_neg]
      rintro ⟨c1, c2⟩
      exact hcs (c20_col_eq ht (by omega) (by omega))
  obtain ⟨a', hgo, ha'⟩ := c20_spread_phase gap g σ hgap
    (fun t => if lo ≤ σ * gap + t ∧ σ * gap + t < hi then a.getD (σ * gap + t) 0 else 0) g 0 (63 - g + 1) _ (by omega) hmask
  have e64 : 64 = (63 - g + 1) + g := by omega
  rw [Nat.pow_zero, Nat.one_mul, Nat.div_one] at hgo
  have hrun : boltSpread.go (· + ·) 0 (2 * (2^g * gap)) 64 gap σ (slotMask 0 (2 * (2^g * gap)) lo hi a)
      = slotZip (· + ·) 0 (2 * (2^g * gap)) a' (swapRows 0 (2 * (2^g * gap)) a') := by
    rw [e64, hgo, c20_spread_go_succ, if_neg (by omega), Nat.mul_div_cancel_left _ (by decide : 0 < 2), if_neg (by omega)]
    cases (63 - g) with
    | zero => rfl
    | succ f => rw [c20_spread_go_succ, if_pos rfl]
  refine ⟨_, by rw [hrun], c20_slotZip_size _ _ _ _ _, ?_⟩
  intro c t hc ht
  have hp : c * gap + t < 2 * (2^g * gap) := by
    have := c20_succ_mul_le (ib := gap) hc
    rw [← Nat.mul_assoc]; omega
  rw [c20_slotZip_get _ _ _ _ _ hp, c20_swapRows_get 0 _ a' hp, c20_sigma_col hhp c t ht, ha' c t hc ht,
    ha' _ t (Nat.mod_lt _ (by omega)) ht]
  have hq : c / 2^g < 2 := by rw [Nat.div_lt_iff_lt_mul hhp]; omega
  have hqs : σ / 2^g < 2 := by rw [Nat.div_lt_iff_lt_mul hhp]; omega
  have hother : (c + 2^g) % (2 * 2^g) / 2^g = 1 - c / 2^g := by
    rcases Nat.lt_or_ge c (2^g) with hlt | hge
    · rw [Nat.mod_eq_of_lt (by omega), Nat.div_eq_of_lt hlt]; exact c20_div_half (by omega) (by omega)
    · have e : c + 2^g = c - 2^g + 2 * 2^g := by omega
      rw [e, Nat.add_mod_right, Nat.mod_eq_of_lt (by omega), c20_div_half hge hc]
      exact Nat.div_eq_of_lt (by omega)
  rw [hother]
  generalize c / 2^g = q at hq ⊢
  generalize σ / 2^g = qs at hqs ⊢
  by_cases h1 : q = qs
  · rw [if_pos h1, if_neg (show ¬ (1 - q = qs) by omega), add_zero]
  · rw [if_neg h1, if_pos (show 1 - q = qs by omega), zero_add]

/-! ### the accepted helpers and the encoders -/

theorem c20_boltDcNew_ok {m r n N : Nat} {h : BoltCc} (hnew : BoltCc.newDc m r n N = .ok h) (hpow : ∃ e, N = 2^e) (hN64 : N < 2^64) :
    h.N = N ∧ h.mAll = m ∧ h.r = r ∧ h.nAll = n ∧ 0 < n ∧ ∃ half g, c20_CcOK h half g := by
  unfold BoltCc.newDc at hnew
  dsimp only at hnew
  split at hnew
  · cases hnew
  rename_i hc
  cases hnew
  have h1 : min (max m r) (N / 2) ≠ 0 := fun h => hc (Or.inl h)
  have h2 : n ≠ 0 := fun h => hc (Or.inr (Or.inl h))
  have h3 : N / 2 ≠ 0 := fun h => hc (Or.inr (Or.inr h))
  obtain ⟨half, g, e1, e2, e3, e4, e5⟩ := c20_boltCc_params hpow hN64 (Nat.min_le_right _ _) h3
  exact ⟨rfl, rfl, rfl, rfl, Nat.pos_of_ne_zero h2, half, g,
    { hN := e1, hgsc := e2, hhalf := e3, hg := e4, hm0 := Nat.pos_of_ne_zero h1, hmg := e5 }⟩

/-- `MatmulBoltCcDcSmall::encode_inputs`: column `c` of polynomial `i` holds diagonal `i·gsc + c` of the block: entry `k` is
    `a[sy + k][sx + (i·gsc + k + c) mod m]` (for every `k < gap` with the row inside the matrix) -/
theorem c20_boltDcEncIn_spec (z : S) (h : BoltCc) {half g : Nat} (ok : c20_CcOK h half g) (a : Nat → S) (sy sx i : Nat) :
    ∃ arr, boltDcEncIn h z a sy sx i = .ok arr ∧ arr.size = h.N ∧
      ∀ c k, c < h.gsc → k < h.gap → arr.getD (c * h.gap + k) z =
        if sy + k < h.mAll ∧ sx + (i * h.gsc + k + c) % h.m < h.r then a ((sy + k) * h.r + (sx + (i * h.gsc + k + c) % h.m)) else z := by
  unfold boltDcEncIn
  have hmemI : ∀ jk : Nat × Nat, jk ∈ ((pairs h.gsc h.gap).filter fun jk =>
      sy + jk.2 < h.mAll ∧ sx + (i * h.gsc + jk.2 + jk.1) % h.m < h.r) ↔
      (jk.1 < h.gsc ∧ jk.2 < h.gap) ∧ (sy + jk.2 < h.mAll ∧ sx + (i * h.gsc + jk.2 + jk.1) % h.m < h.r) := by
    intro jk
    rw [List.mem_filter, c20_mem_pairs, decide_eq_true_eq]
  obtain ⟨arr, hok, hsz, hz, hv⟩ := c20_scatter_map z h.N h.N
    ((pairs h.gsc h.gap).filter fun jk => sy + jk.2 < h.mAll ∧ sx + (i * h.gsc + jk.2 + jk.1) % h.m < h.r)
    (fun jk => jk.1 * h.gap + jk.2) (fun jk => a ((sy + jk.2) * h.r + (sx + (i * h.gsc + jk.2 + jk.1) % h.m)))
    (by
      intro jk hjk
      obtain ⟨⟨h1, h2⟩, _⟩ := (hmemI jk).mp hjk
      show jk.1 * h.gap + jk.2 < h.N ∧ jk.1 * h.gap + jk.2 < h.N
      rw [ok.hN]
      have := c20_succ_mul_le (ib := h.gap) h1
      omega)
    (by
      intro k hk k' hk' heq
      obtain ⟨⟨_, h2⟩, _⟩ := (hmemI k).mp hk
      obtain ⟨⟨_, h2'⟩, _⟩ := (hmemI k').mp hk'
      obtain ⟨e2, e1⟩ := c20_digit_unique (W := h.gap) h2' h2 heq
      show a _ = a _
      rw [e1, e2])
  refine ⟨arr, hok, hsz, ?_⟩
  intro c k hc hk
  split
  · rename_i hcond
    exact hv (c, k) ((hmemI (c, k)).mpr ⟨⟨hc, hk⟩, hcond⟩)
  · rename_i hcond
    apply hz
    intro jk hjk heq
    obtain ⟨⟨_, h2⟩, h3⟩ := (hmemI jk).mp hjk
    obtain ⟨e2, e1⟩ := c20_digit_unique (W := h.gap) hk h2 heq
    rw [e1, e2] at h3
    exact hcond h3

/-- `MatmulBoltCcDcSmall::encode_weights`: column-major rows `sy ..` of the RHS, columns `i·gsc ..` -/
theorem c20_boltDcEncW_spec (z : S) (h : BoltCc) {half g : Nat} (ok : c20_CcOK h half g) (b : Nat → S) (sy i : Nat) :
    ∃ arr, boltDcEncW h z b sy i = .ok arr ∧ arr.size = h.N ∧
      ∀ c k, c < h.gsc → k < h.gap → arr.getD (c * h.gap + k) z =
        if k < h.m ∧ sy + k < h.r ∧ i * h.gsc + c < h.nAll then b ((sy + k) * h.nAll + (i * h.gsc + c)) else z := by
  unfold boltDcEncW
  have hmg := ok.hmg
  have hmemI : ∀ ck : Nat × Nat, ck ∈ ((pairs (min h.nAll (i * h.gsc + h.gsc) - i * h.gsc) h.m).filter fun ck =>
      sy + ck.2 < h.r ∧ i * h.gsc + ck.1 < h.nAll) ↔
      (ck.1 < min h.nAll (i * h.gsc + h.gsc) - i * h.gsc ∧ ck.2 < h.m) ∧ (sy + ck.2 < h.r ∧ i * h.gsc + ck.1 < h.nAll) := by
    intro ck
    rw [List.mem_filter, c20_mem_pairs, decide_eq_true_eq]
  obtain ⟨arr, hok, hsz, hz, hv⟩ := c20_scatter_map z h.N h.N
    ((pairs (min h.nAll (i * h.gsc + h.gsc) - i * h.gsc) h.m).filter fun ck => sy + ck.2 < h.r ∧ i * h.gsc + ck.1 < h.nAll)
    (fun ck => ck.1 * h.gap + ck.2) (fun ck => b ((sy + ck.2) * h.nAll + (i * h.gsc + ck.1)))
    (by
      intro ck hck
      obtain ⟨⟨h1, h2⟩, _⟩ := (hmemI ck).mp hck
      have hc : ck.1 < h.gsc := by omega
      show ck.1 * h.gap + ck.2 < h.N ∧ ck.1 * h.gap + ck.2 < h.N
      rw [ok.hN]
      have := c20_succ_mul_le (ib := h.gap) hc
      omega)
    (by
      intro k hk k' hk' heq
      obtain ⟨⟨_, h2⟩, _⟩ := (hmemI k).mp hk
      obtain ⟨⟨_, h2'⟩, _⟩ := (hmemI k').mp hk'
      obtain ⟨e2, e1⟩ := c20_digit_unique (W := h.gap) (by omega) (by omega) heq
      show b _ = b _
      rw [e1, e2])
  refine ⟨arr, hok, hsz, ?_⟩
  intro c k hc hk
  split
  · rename_i hcond
    exact hv (c, k) ((hmemI (c, k)).mpr ⟨⟨by show c < _; omega, hcond.1⟩, hcond.2.1, hcond.2.2⟩)
  · rename_i hcond
    apply hz
    intro ck hck heq
    obtain ⟨⟨_, h2⟩, h3⟩ := (hmemI ck).mp hck
    obtain ⟨e2, e1⟩ := c20_digit_unique (W := h.gap) hk (by omega) heq
    rw [e1, e2] at h3
    rw [e2] at h2
    exact hcond ⟨h2, h3.1, h3.2⟩

/-- the LHS polynomial `ii` of block (`i`, `j`) and the RHS polynomial `i` of row part `p` -/
def c20_dcIn (z : S) (h : BoltCc) (x : Nat → S) (i j ii : Nat) : Array S := c20_val #[] (boltDcEncIn h z x (i * h.m) (j * h.m) ii)
def c20_dcW (z : S) (h : BoltCc) (w : Nat → S) (p i : Nat) : Array S := c20_val #[] (boltDcEncW h z w (p * h.m) i)

theorem c20_boltDcEncodeInputs_ok (z : S) (h : BoltCc) {half g : Nat} (ok : c20_CcOK h half g) (x : Nat → S) :
    boltDcEncodeInputs h z x (h.mAll * h.r)
      = .ok ((pairs (ceilDiv h.mAll h.m) (ceilDiv h.r h.m)).map fun ij => (List.range (ceilDiv h.m h.gsc)).map fun ii =>
          c20_dcIn z h x ij.1 ij.2 ii) := by
  unfold boltDcEncodeInputs
  rw [if_neg (by simp)]
  apply c20_mapM_eq
  intro ij _
  apply c20_mapM_eq
  intro ii _
  obtain ⟨arr, hok, _⟩ := c20_boltDcEncIn_spec z h ok x (ij.1 * h.m) (ij.2 * h.m) ii
  exact c20_val_ok #[] hok

theorem c20_boltDcEncodeWeights_ok (z : S) (h : BoltCc) {half g : Nat} (ok : c20_CcOK h half g) (w : Nat → S) :
    boltDcEncodeWeights h z w (h.r * h.nAll)
      = .ok ((List.range (ceilDiv h.r h.m)).map fun p => (List.range (ceilDiv h.nAll h.gsc)).map fun i => c20_dcW z h w p i) := by
  unfold boltDcEncodeWeights
  rw [if_neg (by simp)]
  apply c20_mapM_eq
  intro p _
  apply c20_mapM_eq
  intro i _
  obtain ⟨arr, hok, _⟩ := c20_boltDcEncW_spec z h ok w (p * h.m) i
  exact c20_val_ok #[] hok

theorem c20_dcIn_get (z : S) (h : BoltCc) {half g : Nat} (ok : c20_CcOK h half g) (x : Nat → S) (i j ii : Nat) {c k : Nat}
    (hc : c < h.gsc) (hk : k < h.gap) :
    (c20_dcIn z h x i j ii).getD (c * h.gap + k) z =
      if i * h.m + k < h.mAll ∧ j * h.m + (ii * h.gsc + k + c) % h.m < h.r
      then x ((i * h.m + k) * h.r + (j * h.m + (ii * h.gsc + k + c) % h.m)) else z := by
  obtain ⟨arr, hok, _, hget⟩ := c20_boltDcEncIn_spec z h ok x (i * h.m) (j * h.m) ii
  have e : c20_dcIn z h x i j ii = arr := by unfold c20_dcIn; rw [hok]; rfl
  rw [e, hget c k hc hk]

theorem c20_dcW_get (z : S) (h : BoltCc) {half g : Nat} (ok : c20_CcOK h half g) (w : Nat → S) (p i : Nat) {c k : Nat}
    (hc : c < h.gsc) (hk : k < h.gap) :
    (c20_dcW z h w p i).getD (c * h.gap + k) z =
      if k < h.m ∧ p * h.m + k < h.r ∧ i * h.gsc + c < h.nAll then w ((p * h.m + k) * h.nAll + (i * h.gsc + c)) else z := by
  obtain ⟨arr, hok, _, hget⟩ := c20_boltDcEncW_spec z h ok w (p * h.m) i
  have e : c20_dcW z h w p i = arr := by unfold c20_dcW; rw [hok]; rfl
  rw [e, hget c k hc hk]

/-! ### `MatmulBoltCcDcSmall::multiply` -/

/-- the spread polynomial (value of `spread_inputs`) -/
def c20_dcSP [Add S] [Zero S] (h : BoltCc) (lo hi : Nat) (ai : Array S) : Array S :=
  c20_val #[] (boltSpread (· + ·) 0 h.N h.gap lo hi ai)

theorem c20_dcSP_get [AddCommMonoid S] (h : BoltCc) {half g : Nat} (ok : c20_CcOK h half g) (ai : Array S) (lo hi σ : Nat)
    (hσ : σ < h.gsc) (hlo : σ * h.gap ≤ lo) (hlh : lo < hi) (hhi : hi ≤ σ * h.gap + h.gap) :
    boltSpread (· + ·) 0 h.N h.gap lo hi ai = .ok (c20_dcSP h lo hi ai) ∧ (c20_dcSP h lo hi ai).size = h.N ∧
      ∀ c t, c < h.gsc → t < h.gap →
        (c20_dcSP h lo hi ai).getD (c * h.gap + t) 0 = if lo ≤ σ * h.gap + t ∧ σ * h.gap + t < hi then ai.getD (σ * h.gap + t) 0 else 0 := by
  obtain ⟨r, hr, hsz, hget⟩ := c20_boltSpread_spec half h.gap g ok.hhalf ok.hg ok.gap_pos ai lo hi σ (by rw [← ok.hgsc]; exact hσ)
    hlo hlh hhi
  rw [← ok.hN2] at hr hsz
  have e : c20_dcSP h lo hi ai = r := by unfold c20_dcSP; rw [hr]; rfl
  rw [e]
  exact ⟨hr, hsz, fun c t hc ht => hget c t (by rw [← ok.hgsc]; exact hc) ht⟩

theorem c20_list_sum_filter {M : Type} [AddCommMonoid M] (p : Nat → Prop) [DecidablePred p] (F : Nat → M) :
    ∀ l : List Nat, ((l.filter fun x => decide (p x)).map F).sum = (l.map fun x => if p x then F x else 0).sum
  | [] => rfl
  | x :: l => by
    rw [List.filter_cons]
    by_cases hx : p x
    · simp only [hx, decide_true, if_true, List.map_cons, List.sum_cons]
      rw [c20_list_sum_filter p F l]
    · simp only [hx, decide_false, if_false, List.map_cons, List.sum_cons, Bool.false_eq_true]
      rw [c20_list_sum_filter p F l, zero_add]

/-- **`MatmulBoltCcDcSmall::multiply`** on ANY LHS polynomials `fa ii` (diagonals `ii·gsc ..` of the block) and RHS polynomials `fb o`
    (column-major): never fails; column `c`, entry `k < m` of output polynomial `o` holds
    `Σ_sh (fb o)[c][(k + sh) mod m] · (fa (sh / gsc))[sh mod gsc][k]` -/
theorem c20_dcMulSmall_spec [CommRing S] (h : BoltCc) {half g : Nat} (ok : c20_CcOK h half g) (fa fb : Nat → Array S) :
    ∃ Yq, boltDcMulSmall h (· + ·) (· * ·) 0 ((List.range (ceilDiv h.m h.gsc)).map fa) ((List.range (ceilDiv h.nAll h.gsc)).map fb)
        = .ok Yq ∧ Yq.length = ceilDiv h.nAll h.gsc ∧
      ∀ o, o < ceilDiv h.nAll h.gsc → ∃ v, Yq[o]? = some v ∧ v.size = h.N ∧ ∀ c k, c < h.gsc → k < h.m →
        v.getD (c * h.gap + k) 0
          = ∑ sh ∈ range h.m, (fb o).getD (c * h.gap + (k + sh) % h.m) 0 * (fa (sh / h.gsc)).getD (sh % h.gsc * h.gap + k) 0 := by
  have hh := ok.half_pos
  have hgs := ok.gsc_pos
  have hmg := ok.hmg
  have hm0 := ok.hm0
  have hH : h.N / 2 = half * h.gap := ok.hNdiv
  have hgapH : h.gap ≤ half * h.gap := Nat.le_mul_of_pos_left _ hh
  have hbind : ∀ {α β : Type} (a : α) (f : α → R β), (Except.ok a >>= f) = f a := fun _ _ => rfl
  unfold boltDcMulSmall
  simp only [List.length_map, List.length_range, ne_eq, not_true_eq_false, or_self, if_false]
  refine c20_mapM_spec' _ (fun (o : Nat) (v : Array S) => v.size = h.N ∧ ∀ c k, c < h.gsc → k < h.m →
      v.getD (c * h.gap + k) 0
        = ∑ sh ∈ range h.m, (fb o).getD (c * h.gap + (k + sh) % h.m) 0 * (fa (sh / h.gsc)).getD (sh % h.gsc * h.gap + k) 0) _ _ ?_ ?_
  swap
  · intro Yq hlen hall
    refine ⟨by simpa using hlen, ?_⟩
    intro o ho
    obtain ⟨v, hv, hP⟩ := hall o (by simpa using ho)
    rw [List.getElem_range] at hP
    exact ⟨v, hv, hP⟩
  intro o ho
  have ho' : o < ceilDiv h.nAll h.gsc := List.mem_range.mp ho
  rw [c20_getSlots_map _ _ _ ho']
  simp only [hbind]
  have hstep : ∀ (rot lo hi sh σ : Nat) (acc : Option (Array S)), sh < h.m → σ < h.gsc → σ * h.gap ≤ lo → lo < hi →
      hi ≤ σ * h.gap + h.gap →
      (do
        let ai ← getSlots ((List.range (ceilDiv h.m h.gsc)).map fa) (sh / h.gsc)
        let ma ← boltSpread (· + ·) 0 h.N h.gap lo hi ai
        (pure (accAdd (· + ·) 0 h.N acc (slotZip (· * ·) 0 h.N (rotRows 0 h.N rot (fb o)) ma)) : R (Option (Array S))))
      = .ok (accAdd (· + ·) 0 h.N acc (slotZip (· * ·) 0 h.N (rotRows 0 h.N rot (fb o)) (c20_dcSP h lo hi (fa (sh / h.gsc))))) := by
    intro rot lo hi sh σ acc hsh hσ h1 h2 h3
    rw [c20_getSlots_map _ _ _ (c20_div_lt_ceilDiv hgs hsh)]
    simp only [hbind]
    rw [(c20_dcSP_get h ok (fa (sh / h.gsc)) lo hi σ hσ h1 h2 h3).1]
    rfl
  rw [c20_foldlM_pure _ (fun acc sh => accAdd (· + ·) 0 h.N acc (slotZip (· * ·) 0 h.N (rotRows 0 h.N (sh % (h.N / 2)) (fb o))
    (c20_dcSP h (sh % h.gsc * h.gap) (sh % h.gsc * h.gap + (h.m - sh)) (fa (sh / h.gsc))))) _ _
    (fun st sh hsh => by
      have hsh' := List.mem_range.mp hsh
      exact hstep _ _ _ sh (sh % h.gsc) st hsh' (Nat.mod_lt _ hgs) (le_refl _) (by omega) (by omega))]
  simp only [hbind]
  rw [c20_foldlM_pure _ (fun acc sh => accAdd (· + ·) 0 h.N acc (slotZip (· * ·) 0 h.N
      (rotRows 0 h.N ((h.N / 2 - (h.m - sh) % (h.N / 2)) % (h.N / 2)) (fb o))
      (c20_dcSP h (sh % h.gsc * h.gap + (h.m - sh)) (sh % h.gsc * h.gap + (h.m - sh) + sh) (fa (sh / h.gsc))))) _ _
    (fun st sh hsh => by
      rw [List.mem_filter, List.mem_reverse, List.mem_range, decide_eq_true_eq] at hsh
      exact hstep _ _ _ sh (sh % h.gsc) st hsh.1 (Nat.mod_lt _ hgs) (by omega) (by omega) (by omega))]
  -- the accumulated products
  have hl1 : List.range h.m ≠ [] := by intro h0; have := congrArg List.length h0; simp at this; omega
  have hne := c20_accFold_ne_none (· + ·) h.N
    (fun sh => slotZip (· * ·) 0 h.N (rotRows 0 h.N ((h.N / 2 - (h.m - sh) % (h.N / 2)) % (h.N / 2)) (fb o))
      (c20_dcSP h (sh % h.gsc * h.gap + (h.m - sh)) (sh % h.gsc * h.gap + (h.m - sh) + sh) (fa (sh / h.gsc))))
    ((List.range h.m).reverse.filter fun sh => sh ≠ 0) _
    (Or.inr (c20_accFold_ne_none (· + ·) h.N
      (fun sh => slotZip (· * ·) 0 h.N (rotRows 0 h.N (sh % (h.N / 2)) (fb o))
        (c20_dcSP h (sh % h.gsc * h.gap) (sh % h.gsc * h.gap + (h.m - sh)) (fa (sh / h.gsc))))
      (List.range h.m) none (Or.inl hl1)))
  have hwf := c20_accFold_wf (· + ·) h.N
    (fun sh => slotZip (· * ·) 0 h.N (rotRows 0 h.N ((h.N / 2 - (h.m - sh) % (h.N / 2)) % (h.N / 2)) (fb o))
      (c20_dcSP h (sh % h.gsc * h.gap + (h.m - sh)) (sh % h.gsc * h.gap + (h.m - sh) + sh) (fa (sh / h.gsc))))
    ((List.range h.m).reverse.filter fun sh => sh ≠ 0) _
    (fun x _ => c20_slotZip_size _ _ _ _ _)
    (c20_accFold_wf (· + ·) h.N
      (fun sh => slotZip (· * ·) 0 h.N (rotRows 0 h.N (sh % (h.N / 2)) (fb o))
        (c20_dcSP h (sh % h.gsc * h.gap) (sh % h.gsc * h.gap + (h.m - sh)) (fa (sh / h.gsc))))
      (List.range h.m) none (fun x _ => c20_slotZip_size _ _ _ _ _) (c20_wf_none _))
  refine ⟨_, c20_unwrapAcc_getD hne, ?_, ?_⟩
  · obtain ⟨v, hv⟩ := Option.ne_none_iff_exists'.mp hne
    rw [hv]; exact hwf v hv
  intro c k hc hk
  have hkg : k < h.gap := by omega
  have hc2 : c < 2 * half := by rw [← ok.hgsc]; exact hc
  have hp : c * h.gap + k < h.N := by rw [ok.hN]; have := c20_succ_mul_le (ib := h.gap) hc; omega
  have hp2 : c * h.gap + k < 2 * (half * h.gap) := by rw [← ok.hN2]; exact hp
  rw [c20_og_getD hne, c20_accFold_og h.N _ hp, c20_accFold_og h.N _ hp, c20_list_sum_filter (fun sh => sh ≠ 0),
    List.map_reverse, List.sum_reverse, c20_list_sum_range, c20_list_sum_range]
  show 0 + _ + _ = _
  rw [zero_add, ← Finset.sum_add_distrib]
  apply Finset.sum_congr rfl
  intro sh hsh
  have hsh' := Finset.mem_range.mp hsh
  have hσ := Nat.mod_lt sh hgs
  rw [c20_slotZip_get _ _ _ _ _ hp, c20_slotZip_get _ _ _ _ _ hp,
    (c20_dcSP_get h ok (fa (sh / h.gsc)) _ _ (sh % h.gsc) hσ (le_refl _) (by omega) (by omega)).2.2 c k hc hkg]
  rcases Nat.lt_or_ge k (h.m - sh) with hlo | hhi
  · -- reached by the left shift
    have h2z : (if sh ≠ 0 then (rotRows 0 h.N ((h.N / 2 - (h.m - sh) % (h.N / 2)) % (h.N / 2)) (fb o)).getD (c * h.gap + k) 0 *
        (c20_dcSP h (sh % h.gsc * h.gap + (h.m - sh)) (sh % h.gsc * h.gap + (h.m - sh) + sh) (fa (sh / h.gsc))).getD (c * h.gap + k) 0
        else (0 : S)) = 0 := by
      split
      · rename_i hne0
        rw [(c20_dcSP_get h ok (fa (sh / h.gsc)) _ _ (sh % h.gsc) hσ (by omega) (by omega) (by omega)).2.2 c k hc hkg,
          if_neg (by omega), mul_zero]
      · rfl
    rw [h2z, add_zero, if_pos ⟨by omega, by omega⟩]
    congr 1
    rw [hH, ok.hN2, c20_rotRows_get 0 _ _ _ hp2, Nat.mod_eq_of_lt (by omega : sh < half * h.gap),
      c20_rho_incol_add hh (by omega : k + sh < h.gap), Nat.mod_eq_of_lt (by omega : k + sh < h.m)]
  · -- reached by the right shift
    have hsh0 : sh ≠ 0 := by omega
    rw [if_neg (by omega), mul_zero, zero_add, if_pos hsh0,
      (c20_dcSP_get h ok (fa (sh / h.gsc)) _ _ (sh % h.gsc) hσ (by omega) (by omega) (by omega)).2.2 c k hc hkg,
      if_pos ⟨by omega, by omega⟩]
    congr 1
    have e1 : (h.m - sh) % (half * h.gap) = h.m - sh := Nat.mod_eq_of_lt (by omega)
    have e2 : (half * h.gap - (h.m - sh)) % (half * h.gap) = half * h.gap - (h.m - sh) := Nat.mod_eq_of_lt (by omega)
    have e3 : (k + sh) % h.m = k - (h.m - sh) := by
      have e : k + sh = (k - (h.m - sh)) + h.m := by omega
      rw [e, Nat.add_mod_right, Nat.mod_eq_of_lt (by omega)]
    rw [hH, ok.hN2, c20_rotRows_get 0 _ _ _ hp2, e1, e2, c20_rho_incol_sub hh hkg hhi, e3]

end HC
