/-
  C20O: `MatmulBoltCcDc` end to end over the model (`Model/Matmul.lean`): LHS packed by diagonals, RHS column-major, outputs
  column-major.

    * `c20_boltSpread_spec`    `spread_inputs`: the masked segment of one column is copied onto every column (log-many rotations whose
                               direction follows the bits of the column index, the last one across the rows);
    * `c20_dcMulSmall_spec`    `MatmulBoltCcDcSmall::multiply`;
    * `c20_zipFold_get`        the `add_inplace` accumulation of the block products;
    * `c20_boltDc_whole`, `c20_boltDc_new`   the end-to-end theorems (`r > 0`: the constructor accepts `r = 0`, `multiply` does not).
-/
import Heathcliff.Proofs.C20N
namespace HC
open Finset HC.MM

variable {S : Type}

/-! ### block arithmetic of `spread_inputs` -/

/-- a rotation by `a` blocks of `B` columns inside a row of `nb` blocks, on block indices -/
theorem c20_colrot_block {B nb a c : Nat} (hB : 0 < B) (hnb : 0 < nb) :
    (c / (nb * B) * (nb * B) + (c % (nb * B) + a * B) % (nb * B)) / B = c / B / nb * nb + (c / B % nb + a) % nb := by
  have e1 : c / (nb * B) = c / B / nb := by rw [Nat.div_div_eq_div_mul, Nat.mul_comm]
  have e2 : c % (nb * B) = c / B % nb * B + c % B := by
    rw [Nat.mul_comm nb B, Nat.mod_mul]; ring
  have hlt : c % B < B := Nat.mod_lt _ hB
  have e3 : c / B % nb * B + c % B + a * B = (c / B % nb + a) * B + c % B := by ring
  rw [e1, e2, e3, (c20_col_divmod (x := c / B % nb + a) (w := nb) hnb hlt).2]
  have e4 : c / B / nb * (nb * B) + ((c / B % nb + a) % nb * B + c % B) = (c / B / nb * nb + (c / B % nb + a) % nb) * B + c % B := by
    ring
  rw [e4]
  exact (c20_divmod hlt).1

/-- one doubling of `spread_inputs` on block indices: the block `u'` read by the rotation is the sibling of `u` exactly when needed -/
theorem c20_spread_blocks {nb' u us : Nat} (hnb : 0 < nb') :
    let u' := u / (2 * nb') * (2 * nb') + (u % (2 * nb') + (if us % 2 = 0 then 2 * nb' - 1 else 1)) % (2 * nb')
    (u = us → u' ≠ us) ∧ ((u = us ∨ u' = us) ↔ u / 2 = us / 2) := by
  intro u'
  have hv := Nat.mod_lt u (by omega : 0 < 2 * nb')
  have hu := Nat.div_add_mod' u (2 * nb')
  have hq : u / (2 * nb') * (2 * nb') = 2 * (u / (2 * nb') * nb') := by ring
  generalize u / (2 * nb') * nb' = Q at hq
  by_cases hpar : us % 2 = 0
  · have hu' : u' = u / (2 * nb') * (2 * nb') + (u % (2 * nb') + (2 * nb' - 1)) % (2 * nb') := by
      show _ + (_ + (if us % 2 = 0 then 2 * nb' - 1 else 1)) % _ = _; rw [if_pos hpar]
    rcases Nat.eq_zero_or_pos (u % (2 * nb')) with hz | hp
    · rw [hz, Nat.zero_add, Nat.mod_eq_of_lt (by omega : 2 * nb' - 1 < 2 * nb')] at hu'
      omega
    · have e : u % (2 * nb') + (2 * nb' - 1) = (u % (2 * nb') - 1) + 2 * nb' := by omega
      rw [e, Nat.add_mod_right, Nat.mod_eq_of_lt (by omega)] at hu'
      omega
  · have hu' : u' = u / (2 * nb') * (2 * nb') + (u % (2 * nb') + 1) % (2 * nb') := by
      show _ + (_ + (if us % 2 = 0 then 2 * nb' - 1 else 1)) % _ = _; rw [if_neg hpar]
    rcases Nat.lt_or_ge (u % (2 * nb') + 1) (2 * nb') with hlt | hge
    · rw [Nat.mod_eq_of_lt hlt] at hu'
      omega
    · have e : u % (2 * nb') + 1 = 2 * nb' := by omega
      rw [e, Nat.mod_self] at hu'
      omega

/-! ### `spread_inputs` -/

theorem c20_spread_go_succ (add : S → S → S) (z : S) (N f rc sid : Nat) (a : Array S) :
    boltSpread.go add z N (f+1) rc sid a = if rc = N then a else
      boltSpread.go add z N f (2 * rc) (sid / 2) (slotZip add z N a
        (if rc < N / 2 then (if sid % 2 = 0 then rotRows z N (N / 2 - rc) a else rotRows z N rc a) else swapRows z N a)) := rfl

/-- the rotation phase of `spread_inputs`: after the doublings up to a whole row, the column `σ` has been copied onto its row -/
theorem c20_spread_phase [AddCommMonoid S] (gap g σ : Nat) (hgap : 0 < gap) (v : Nat → S) :
    ∀ j k f (ak : Array S), k + j = g →
      (∀ c t, c < 2 * 2^g → t < gap → ak.getD (c * gap + t) 0 = if c / 2^k = σ / 2^k then v t else 0) →
      ∃ a', boltSpread.go (· + ·) 0 (2 * (2^g * gap)) (f + j) (2^k * gap) (σ / 2^k) ak
          = boltSpread.go (· + ·) 0 (2 * (2^g * gap)) f (2^g * gap) (σ / 2^g) a' ∧
        ∀ c t, c < 2 * 2^g → t < gap → a'.getD (c * gap + t) 0 = if c / 2^g = σ / 2^g then v t else 0 := by
  have hhp : 0 < 2^g := Nat.two_pow_pos g
  have hH : 0 < 2^g * gap := Nat.mul_pos hhp hgap
  intro j
  induction j with
  | zero =>
    intro k f ak hk hak
    have : k = g := by omega
    subst this
    exact ⟨ak, rfl, hak⟩
  | succ j ih =>
    intro k f ak hk hak
    have hkg : k < g := by omega
    have hBp : 0 < 2^k := Nat.two_pow_pos k
    have hlt : 2^k * gap < 2^g * gap :=
      Nat.mul_lt_mul_of_pos_right (Nat.pow_lt_pow_right (by decide) hkg) hgap
    -- the row holds `2·nb'` blocks of `2^k` columns
    have hnb : 2^g = 2 * 2^(g-k-1) * 2^k := by
      rw [Nat.mul_comm 2, ← Nat.pow_succ, ← Nat.pow_add]; congr 1; omega
    have hnbp : 0 < 2^(g-k-1) := Nat.two_pow_pos _
    show ∃ a', boltSpread.go (· + ·) 0 (2 * (2^g * gap)) ((f + j) + 1) (2^k * gap) (σ / 2^k) ak = _ ∧ _
    rw [c20_spread_go_succ, if_neg (by omega), Nat.mul_div_cancel_left _ (by decide : 0 < 2), if_pos hlt]
    have e2 : 2 * (2^k * gap) = 2^(k+1) * gap := by rw [Nat.pow_succ]; ring
    have e3 : σ / 2^k / 2 = σ / 2^(k+1) := by rw [Nat.div_div_eq_div_mul, Nat.pow_succ]
    rw [e2, e3]
    apply ih (k+1) f _ (by omega)
    intro c t hc ht
    have hp : c * gap + t < 2 * (2^g * gap) := by
      have := c20_succ_mul_le (ib := gap) hc
      rw [← Nat.mul_assoc]; omega
    -- the slot read by the rotation, in (column, entry) form
    have hrot : (if σ / 2^k % 2 = 0 then rotRows 0 (2 * (2^g * gap)) (2^g * gap - 2^k * gap) ak
          else rotRows 0 (2 * (2^g * gap)) (2^k * gap) ak).getD (c * gap + t) 0
        = ak.getD ((c / 2^g * 2^g + (c % 2^g + (if σ / 2^k % 2 = 0 then 2 * 2^(g-k-1) - 1 else 1) * 2^k) % 2^g) * gap + t) 0 := by
      have hiter : ∀ amt, c20_rho (2^g * gap) (amt * gap) (c * gap + t)
          = (c / 2^g * 2^g + (c % 2^g + amt) % 2^g) * gap + t := by
        intro amt
        have := c20_rho_iter_col (irc := amt) hhp 1 c t hc ht
        rw [Function.iterate_one, Nat.one_mul] at this
        exact this
      split
      · rw [c20_rotRows_get 0 _ _ ak hp]
        have e : 2^g * gap - 2^k * gap = ((2 * 2^(g-k-1) - 1) * 2^k) * gap := by
          rw [← Nat.sub_mul]; congr 1
          rw [Nat.sub_mul, Nat.one_mul, ← hnb]
        rw [e, hiter]
      · rw [c20_rotRows_get 0 _ _ ak hp]
        have e : 2^k * gap = (1 * 2^k) * gap := by rw [Nat.one_mul]
        rw [e, hiter]
    rw [c20_slotZip_get _ _ _ _ _ hp, hrot, hak c t hc ht]
    have hc' : c / 2^g * 2^g + (c % 2^g + (if σ / 2^k % 2 = 0 then 2 * 2^(g-k-1) - 1 else 1) * 2^k) % 2^g < 2 * 2^g := by
      have h1 : c / 2^g < 2 := by rw [Nat.div_lt_iff_lt_mul hhp]; omega
      have := c20_succ_mul_le (ib := 2^g) h1
      have := Nat.mod_lt (c % 2^g + (if σ / 2^k % 2 = 0 then 2 * 2^(g-k-1) - 1 else 1) * 2^k) hhp
      omega
    rw [hak _ t hc' ht]
    -- block indices
    have hblk := c20_colrot_block (B := 2^k) (nb := 2 * 2^(g-k-1)) (a := if σ / 2^k % 2 = 0 then 2 * 2^(g-k-1) - 1 else 1) (c := c)
      hBp (by omega)
    rw [← hnb] at hblk
    rw [hblk]
    obtain ⟨hx1, hx2⟩ := c20_spread_blocks (nb' := 2^(g-k-1)) (u := c / 2^k) (us := σ / 2^k) hnbp
    have e4 : c / 2^(k+1) = c / 2^k / 2 := by rw [Nat.div_div_eq_div_mul, Nat.pow_succ]
    have e5 : σ / 2^(k+1) = σ / 2^k / 2 := by rw [Nat.div_div_eq_div_mul, Nat.pow_succ]
    rw [e4, e5]
    by_cases h1 : c / 2^k = σ / 2^k
    · rw [if_pos h1, if_neg (hx1 h1), add_zero, if_pos (hx2.mp (Or.inl h1))]
    · rw [if_neg h1, zero_add]
      by_cases h2 : c / 2 ^ k / (2 * 2 ^ (g - k - 1)) * (2 * 2 ^ (g - k - 1)) +
          (c / 2 ^ k % (2 * 2 ^ (g - k - 1)) + if σ / 2 ^ k % 2 = 0 then 2 * 2 ^ (g - k - 1) - 1 else 1) % (2 * 2 ^ (g - k - 1))
          = σ / 2^k
      · rw [if_pos h2, if_pos (hx2.mp (Or.inr h2))]
      · rw [if_neg h2, if_neg (fun h3 => by rcases hx2.mpr h3 with h4 | h4; exact h1 h4; exact h2 h4)]

/-- **`spread_inputs`**: the segment `[lo, hi)` (inside column `σ = lo / gap`) of the input is kept and copied onto every column -/
theorem c20_boltSpread_spec [AddCommMonoid S] (half gap g : Nat) (hhalf : half = 2^g) (hg : g ≤ 63) (hgap : 0 < gap) (a : Array S)
    (lo hi σ : Nat) (hσ : σ < 2 * half) (hlo : σ * gap ≤ lo) (hlh : lo < hi) (hhi : hi ≤ σ * gap + gap) :
    ∃ r, boltSpread (· + ·) 0 (2 * (half * gap)) gap lo hi a = .ok r ∧ r.size = 2 * (half * gap) ∧
      ∀ c t, c < 2 * half → t < gap →
        r.getD (c * gap + t) 0 = if lo ≤ σ * gap + t ∧ σ * gap + t < hi then a.getD (σ * gap + t) 0 else 0 := by
  subst hhalf
  have hhp : 0 < 2^g := Nat.two_pow_pos g
  have hH : 0 < 2^g * gap := Nat.mul_pos hhp hgap
  have hlog : lo / gap = σ := Nat.div_eq_of_lt_le (by rw [Nat.mul_comm] at hlo; rw [Nat.mul_comm]; exact hlo)
    (by rw [Nat.succ_mul]; omega)
  have hhig : (hi - 1) / gap = σ := Nat.div_eq_of_lt_le (by omega) (by rw [Nat.succ_mul]; omega)
  unfold boltSpread
  rw [if_neg (by rw [hlog, hhig]; omega), hlog]
  -- the masked input
  have hmask : ∀ c t, c < 2 * 2^g → t < gap →
      (slotMask 0 (2 * (2^g * gap)) lo hi a).getD (c * gap + t) 0
        = if c / 2^0 = σ / 2^0 then (if lo ≤ σ * gap + t ∧ σ * gap + t < hi then a.getD (σ * gap + t) 0 else 0) else 0 := by
    intro c t hc ht
    have hp : c * gap + t < 2 * (2^g * gap) := by
      have := c20_succ_mul_le (ib := gap) hc
      rw [← Nat.mul_assoc]; omega
    rw [c20_slotMask_get _ _ _ _ _ hp, Nat.pow_zero, Nat.div_one, Nat.div_one]
    by_cases hcs : c = σ
    · rw [if_pos hcs, hcs]
    · rw [if_neg hcs, if_neg]
      rintro ⟨c1, c2⟩
      exact hcs (c20_col_eq ht (by omega) (by omega))
  obtain ⟨a', hgo, ha'⟩ := c20_spread_phase gap g σ hgap
    (fun t => if lo ≤ σ * gap + t ∧ σ * gap + t < hi then a.getD (σ * gap + t) 0 else 0) g 0 (63 - g + 1) _ (by omega) hmask
  have e64 : 64 = (63 - g + 1) + g := by omega
  rw [Nat.pow_zero, Nat.one_mul, Nat.div_one] at hgo
  have hrun : boltSpread.go (· + ·) 0 (2 * (2^g * gap)) 64 gap σ (slotMask 0 (2 * (2^g * gap)) lo hi a)
      = slotZip (· + ·) 0 (2 * (2^g * gap)) a' (swapRows 0 (2 * (2^g * gap)) a') := by
    rw [e64, hgo, c20_spread_go_succ, if_neg (by omega), Nat.mul_div_cancel_left _ (by decide : 0 < 2), if_neg (by omega)]
    cases (63 - g) with
    | zero => rfl
    | succ f => rw [c20_spread_go_succ, if_pos rfl]
  refine ⟨_, by rw [hrun], c20_slotZip_size _ _ _ _ _, ?_⟩
  intro c t hc ht
  have hp : c * gap + t < 2 * (2^g * gap) := by
    have := c20_succ_mul_le (ib := gap) hc
    rw [← Nat.mul_assoc]; omega
  rw [c20_slotZip_get _ _ _ _ _ hp, c20_swapRows_get 0 _ a' hp, c20_sigma_col hhp c t ht, ha' c t hc ht,
    ha' _ t (Nat.mod_lt _ (by omega)) ht]
  have hq : c / 2^g < 2 := by rw [Nat.div_lt_iff_lt_mul hhp]; omega
  have hqs : σ / 2^g < 2 := by rw [Nat.div_lt_iff_lt_mul hhp]; omega
  have hother : (c + 2^g) % (2 * 2^g) / 2^g = 1 - c / 2^g := by
    rcases Nat.lt_or_ge c (2^g) with hlt | hge
    · rw [Nat.mod_eq_of_lt (by omega), Nat.div_eq_of_lt hlt]; exact c20_div_half (by omega) (by omega)
    · have e : c + 2^g = c - 2^g + 2 * 2^g := by omega
      rw [e, Nat.add_mod_right, Nat.mod_eq_of_lt (by omega), c20_div_half hge hc]
      exact Nat.div_eq_of_lt (by omega)
  rw [hother]
  generalize c / 2^g = q at hq ⊢
  generalize σ / 2^g = qs at hqs ⊢
  by_cases h1 : q = qs
  · rw [if_pos h1, if_neg (show ¬ (1 - q = qs) by omega), add_zero]
  · rw [if_neg h1, if_pos (show 1 - q = qs by omega), zero_add]

end HC
