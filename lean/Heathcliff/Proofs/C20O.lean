/-
  C20O: `MatmulBoltCcDc` end to end over the model (`Model/Matmul.lean`): LHS packed by diagonals, RHS column-major, outputs
  column-major.

    * `c20_boltSpread_spec`    `spread_inputs`: the masked segment of one column is copied onto every column (log-many rotations whose
                               direction follows the bits of the column index, the last one across the rows);
    * `c20_dcMulSmall_spec`    `MatmulBoltCcDcSmall::multiply`;
    * `c20_zipFold_get`        the `add_inplace` accumulation of the block products;
    * `c20_boltDc_whole`, `c20_boltDc_new`   the end-to-end theorems (`r > 0`: the constructor accepts `r = 0`, `multiply` does not).
-/
import Heathcliff.Proofs.C20N
namespace HC
open Finset HC.MM

variable {S : Type}

/-! ### block arithmetic of `spread_inputs` -/

/-- a rotation by `a` blocks of `B` columns inside a row of `nb` blocks, on block indices -/
theorem c20_colrot_block {B nb a c : Nat} (hB : 0 < B) (hnb : 0 < nb) :
    (c / (nb * B) * (nb * B) + (c % (nb * B) + a * B) % (nb * B)) / B = c / B / nb * nb + (c / B % nb + a) % nb := by
  have e1 : c / (nb * B) = c / B / nb := by rw [Nat.div_div_eq_div_mul, Nat.mul_comm]
  have e2 : c % (nb * B) = c / B % nb * B + c % B := by
    rw [Nat.mul_comm nb B, Nat.mod_mul]; ring
  have hlt : c % B < B := Nat.mod_lt _ hB
  have e3 : c / B % nb * B + c % B + a * B = (c / B % nb + a) * B + c % B := by ring
  rw [e1, e2, e3, (c20_col_divmod (x := c / B % nb + a) (w := nb) hnb hlt).2]
  have e4 : c / B / nb * (nb * B) + ((c / B % nb + a) % nb * B + c % B) = (c / B / nb * nb + (c / B % nb + a) % nb) * B + c % B := by
    ring
  rw [e4]
  exact (c20_divmod hlt).1

/-- one doubling of `spread_inputs` on block indices: the block `u'` read by the rotation is the sibling of `u` exactly when needed -/
theorem c20_spread_blocks {nb' u us : Nat} (hnb : 0 < nb') :
    let u' := u / (2 * nb') * (2 * nb') + (u % (2 * nb') + (if us % 2 = 0 then 2 * nb' - 1 else 1)) % (2 * nb')
    (u = us → u' ≠ us) ∧ ((u = us ∨ u' = us) ↔ u / 2 = us / 2) := by
  intro u'
  have hv := Nat.mod_lt u (by omega : 0 < 2 * nb')
  have hu := Nat.div_add_mod' u (2 * nb')
  have hq : u / (2 * nb') * (2 * nb') = 2 * (u / (2 * nb') * nb') := by ring
  generalize u / (2 * nb') * nb' = Q at hq
  by_cases hpar : us % 2 = 0
  · have hu' : u' = u / (2 * nb') * (2 * nb') + (u % (2 * nb') + (2 * nb' - 1)) % (2 * nb') := by
      show _ + (_ + (if us % 2 = 0 then 2 * nb' - 1 else 1)) % _ = _; rw [if_pos hpar]
    rcases Nat.eq_zero_or_pos (u % (2 * nb')) with hz | hp
    · rw [hz, Nat.zero_add, Nat.mod_eq_of_lt (by omega : 2 * nb' - 1 < 2 * nb')] at hu'
      omega
    · have e : u % (2 * nb') + (2 * nb' - 1) = (u % (2 * nb') - 1) + 2 * nb' := by omega
      rw [e, Nat.add_mod_right, Nat.mod_eq_of_lt (by omega)] at hu'
      omega
  · have hu' : u' = u / (2 * nb') * (2 * nb') + (u % (2 * nb') + 1) % (2 * nb') := by
      show _ + (_ + (if us % 2 = 0 then 2 * nb' - 1 else 1)) % _ = _; rw [if_neg hpar]
    rcases Nat.lt_or_ge (u % (2 * nb') + 1) (2 * nb') with hlt | hge
    · rw [Nat.mod_eq_of_lt hlt] at hu'
      omega
    · have e : u % (2 * nb') + 1 = 2 * nb' := by omega
      rw [e, Nat.mod_self] at hu'
      omega

/-! ### `spread_inputs` -/

theorem c20_spread_go_succ (add : S → S → S) (z : S) (N f rc sid : Nat) (a : Array S) :
    boltSpread.go add z N (f+1) rc sid a = if rc = N then a else
      boltSpread.go add z N f (2 * rc) (sid / 2) (slotZip add z N a
        (if rc < N / 2 then (if sid % 2 = 0 then rotRows z N (N / 2 - rc) a else rotRows z N rc a) else swapRows z N a)) := rfl

/-- the rotation phase of `spread_inputs`: after the doublings up to a whole row, the column `σ` has been copied onto its row -/
theorem c20_spread_phase [AddCommMonoid S] (gap g σ : Nat) (hgap : 0 < gap) (v : Nat → S) :
    ∀ j k f (ak : Array S), k + j = g →
      (∀ c t, c < 2 * 2^g → t < gap → ak.getD (c * gap + t) 0 = if c / 2^k = σ / 2^k then v t else 0) →
      ∃ a', boltSpread.go (· + ·) 0 (2 * (2^g * gap)) (f + j) (2^k * gap) (σ / 2^k) ak
          = boltSpread.go (· + ·) 0 (2 * (2^g * gap)) f (2^g * gap) (σ / 2^g) a' ∧
        ∀ c t, c < 2 * 2^g → t < gap → a'.getD (c * gap + t) 0 = if c / 2^g = σ / 2^g then v t else 0 := by
  have hhp : 0 < 2^g := Nat.two_pow_pos g
  have hH : 0 < 2^g * gap := Nat.mul_pos hhp hgap
  intro j
  induction j with
  | zero =>
    intro k f ak hk hak
    have : k = g := by omega
    subst this
    exact ⟨ak, rfl, hak⟩
  | succ j ih =>
    intro k f ak hk hak
    have hkg : k < g := by omega
    have hBp : 0 < 2^k := Nat.two_pow_pos k
    have hlt : 2^k * gap < 2^g * gap :=
      Nat.mul_lt_mul_of_pos_right (Nat.pow_lt_pow_right (by decide) hkg) hgap
    -- the row holds `2·nb'` blocks of `2^k` columns
    have hnb : 2^g = 2 * 2^(g-k-1) * 2^k := by
      rw [Nat.mul_comm 2, ← Nat.pow_succ, ← Nat.pow_add]; congr 1; omega
    have hnbp : 0 < 2^(g-k-1) := Nat.two_pow_pos _
    show ∃ a', boltSpread.go (· + ·) 0 (2 * (2^g * gap)) ((f + j) + 1) (2^k * gap) (σ / 2^k) ak = _ ∧ _
    rw [c20_spread_go_succ, if_neg (by omega), Nat.mul_div_cancel_left _ (by decide : 0 < 2), if_pos hlt]
    have e2 : 2 * (2^k * gap) = 2^(k+1) * gap := by rw [Nat.pow_succ]; ring
    have e3 : σ / 2^k / 2 = σ / 2^(k+1) := by rw [Nat.div_div_eq_div_mul, Nat.pow_succ]
    rw [e2, e3]
    apply ih (k+1) f _ (by omega)
    intro c t hc ht
    have hp : c * gap + t < 2 * (2^g * gap) := by
      have := c20_succ_mul_le (ib := gap) hc
      rw [← Nat.mul_assoc]; omega
    -- the slot read by the rotation, in (column, entry) form
    have hrot : (if σ / 2^k % 2 = 0 then rotRows 0 (2 * (2^g * gap)) (2^g * gap - 2^k * gap) ak
          else rotRows 0 (2 * (2^g * gap)) (2^k * gap) ak).getD (c * gap + t) 0
        = ak.getD ((c / 2^g * 2^g + (c % 2^g + (if σ / 2^k % 2 = 0 then 2 * 2^(g-k-1) - 1 else 1) * 2^k) % 2^g) * gap + t) 0 := by
      have hiter : ∀ amt, c20_rho (2^g * gap) (amt * gap) (c * gap + t)
          = (c / 2^g * 2^g + (c % 2^g + amt) % 2^g) * gap + t := by
        intro amt
        have := c20_rho_iter_col (irc := amt) hhp 1 c t hc ht
        rw [Function.iterate_one, Nat.one_mul] at this
        exact this
      split
      · rw [c20_rotRows_get 0 _ _ ak hp]
        have e : 2^g * gap - 2^k * gap = ((2 * 2^(g-k-1) - 1) * 2^k) * gap := by
          rw [← Nat.sub_mul]; congr 1
          rw [Nat.sub_mul, Nat.one_mul, ← hnb]
        rw [e, hiter]
      · rw [c20_rotRows_get 0 _ _ ak hp]
        have e : 2^k * gap = (1 * 2^k) * gap := by rw [Nat.one_mul]
        rw [e, hiter]
    rw [c20_slotZip_get _ _ _ _ _ hp, hrot, hak c t hc ht]
    have hc' : c / 2^g * 2^g + (c % 2^g + (if σ / 2^k % 2 = 0 then 2 * 2^(g-k-1) - 1 else 1) * 2^k) % 2^g < 2 * 2^g := by
      have h1 : c / 2^g < 2 := by rw [Nat.div_lt_iff_lt_mul hhp]; omega
      have := c20_succ_mul_le (ib := 2^g) h1
      have := Nat.mod_lt (c % 2^g + (if σ / 2^k % 2 = 0 then 2 * 2^(g-k-1) - 1 else 1) * 2^k) hhp
      omega
    rw [hak _ t hc' ht]
    -- block indices
    have hblk := c20_colrot_block (B := 2^k) (nb := 2 * 2^(g-k-1)) (a := if σ / 2^k % 2 = 0 then 2 * 2^(g-k-1) - 1 else 1) (c := c)
      hBp (by omega)
    rw [← hnb] at hblk
    rw [hblk]
    obtain ⟨hx1, hx2⟩ := c20_spread_blocks (nb' := 2^(g-k-1)) (u := c / 2^k) (us := σ / 2^k) hnbp
    have e4 : c / 2^(k+1) = c / 2^k / 2 := by rw [Nat.div_div_eq_div_mul, Nat.pow_succ]
    have e5 : σ / 2^(k+1) = σ / 2^k / 2 := by rw [Nat.div_div_eq_div_mul, Nat.pow_succ]
    rw [e4, e5]
    by_cases h1 : c / 2^k = σ / 2^k
    · rw [if_pos h1, if_neg (hx1 h1), add_zero, if_pos (hx2.mp (Or.inl h1))]
    · rw [if_neg h1, zero_add]
      by_cases h2 : c / 2 ^ k / (2 * 2 ^ (g - k - 1)) * (2 * 2 ^ (g - k - 1)) +
          (c / 2 ^ k % (2 * 2 ^ (g - k - 1)) + if σ / 2 ^ k % 2 = 0 then 2 * 2 ^ (g - k - 1) - 1 else 1) % (2 * 2 ^ (g - k - 1))
          = σ / 2^k
      · rw [if_pos h2, if_pos (hx2.mp (Or.inr h2))]
      · rw [if_neg h2, if_neg (fun h3 => by rcases hx2.mpr h3 with h4 | h4; exact h1 h4; exact h2 h4)]

/-- **`spread_inputs`**: the segment `[lo, hi)` (inside column `σ = lo / gap`) of the input is kept and copied onto every column -/
theorem c20_boltSpread_spec [AddCommMonoid S] (half gap g : Nat) (hhalf : half = 2^g) (hg : g ≤ 63) (hgap : 0 < gap) (a : Array S)
    (lo hi σ : Nat) (hσ : σ < 2 * half) (hlo : σ * gap ≤ lo) (hlh : lo < hi) (hhi : hi ≤ σ * gap + gap) :
    ∃ r, boltSpread (· + ·) 0 (2 * (half * gap)) gap lo hi a = .ok r ∧ r.size = 2 * (half * gap) ∧
      ∀ c t, c < 2 * half → t < gap →
        r.getD (c * gap + t) 0 = if lo ≤ σ * gap + t ∧ σ * gap + t < hi then a.getD (σ * gap + t) 0 else 0 := by
  subst hhalf
  have hhp : 0 < 2^g := Nat.two_pow_pos g
  have hH : 0 < 2^g * gap := Nat.mul_pos hhp hgap
  have hlog : lo / gap = σ := Nat.div_eq_of_lt_le (by rw [Nat.mul_comm] at hlo; rw [Nat.mul_comm]; exact hlo)
    (by rw [Nat.succ_mul]; omega)
  have hhig : (hi - 1) / gap = σ := Nat.div_eq_of_lt_le (by omega) (by rw [Nat.succ_mul]; omega)
  unfold boltSpread
  rw [if_neg (by rw [hlog, hhig]; omega), hlog]
  -- the masked input
  have hmask : ∀ c t, c < 2 * 2^g → t < gap →
      (slotMask 0 (2 * (2^g * gap)) lo hi a).getD (c * gap + t) 0
        = if c / 2^0 = σ / 2^0 then (if lo ≤ σ * gap + t ∧ σ * gap + t < hi then a.getD (σ * gap + t) 0 else 0) else 0 := by
    intro c t hc ht
    have hp : c * gap + t < 2 * (2^g * gap) := by
      have := c20_succ_mul_le (ib := gap) hc
      rw [← Nat.mul_assoc]; omega
    rw [c20_slotMask_get _ _ _ _ _ hp, Nat.pow_zero, Nat.div_one, Nat.div_one]
    by_cases hcs : c = σ
    · rw [if_pos hcs, hcs]
    · rw [if_neg hcs, if_neg]
      rintro ⟨c1, c2⟩
      exact hcs (c20_col_eq ht (by omega) (by omega))
  obtain ⟨a', hgo, ha'⟩ := c20_spread_phase gap g σ hgap
    (fun t => if lo ≤ σ * gap + t ∧ σ * gap + t < hi then a.getD (σ * gap + t) 0 else 0) g 0 (63 - g + 1) _ (by omega) hmask
  have e64 : 64 = (63 - g + 1) + g := by omega
  rw [Nat.pow_zero, Nat.one_mul, Nat.div_one] at hgo
  have hrun : boltSpread.go (· + ·) 0 (2 * (2^g * gap)) 64 gap σ (slotMask 0 (2 * (2^g * gap)) lo hi a)
      = slotZip (· + ·) 0 (2 * (2^g * gap)) a' (swapRows 0 (2 * (2^g * gap)) a') := by
    rw [e64, hgo, c20_spread_go_succ, if_neg (by omega), Nat.mul_div_cancel_left _ (by decide : 0 < 2), if_neg (by omega)]
    cases (63 - g) with
    | zero => rfl
    | succ f => rw [c20_spread_go_succ, if_pos rfl]
  refine ⟨_, by rw [hrun], c20_slotZip_size _ _ _ _ _, ?_⟩
  intro c t hc ht
  have hp : c * gap + t < 2 * (2^g * gap) := by
    have := c20_succ_mul_le (ib := gap) hc
    rw [← Nat.mul_assoc]; omega
  rw [c20_slotZip_get _ _ _ _ _ hp, c20_swapRows_get 0 _ a' hp, c20_sigma_col hhp c t ht, ha' c t hc ht,
    ha' _ t (Nat.mod_lt _ (by omega)) ht]
  have hq : c / 2^g < 2 := by rw [Nat.div_lt_iff_lt_mul hhp]; omega
  have hqs : σ / 2^g < 2 := by rw [Nat.div_lt_iff_lt_mul hhp]; omega
  have hother : (c + 2^g) % (2 * 2^g) / 2^g = 1 - c / 2^g := by
    rcases Nat.lt_or_ge c (2^g) with hlt | hge
    · rw [Nat.mod_eq_of_lt (by omega), Nat.div_eq_of_lt hlt]; exact c20_div_half (by omega) (by omega)
    · have e : c + 2^g = c - 2^g + 2 * 2^g := by omega
      rw [e, Nat.add_mod_right, Nat.mod_eq_of_lt (by omega), c20_div_half hge hc]
      exact Nat.div_eq_of_lt (by omega)
  rw [hother]
  generalize c / 2^g = q at hq ⊢
  generalize σ / 2^g = qs at hqs ⊢
  by_cases h1 : q = qs
  · rw [if_pos h1, if_neg (show ¬ (1 - q = qs) by omega), add_zero]
  · rw [if_neg h1, if_pos (show 1 - q = qs by omega), zero_add]

/-! ### the accepted helpers and the encoders -/

theorem c20_boltDcNew_ok {m r n N : Nat} {h : BoltCc} (hnew : BoltCc.newDc m r n N = .ok h) (hpow : ∃ e, N = 2^e) (hN64 : N < 2^64) :
    h.N = N ∧ h.mAll = m ∧ h.r = r ∧ h.nAll = n ∧ 0 < n ∧ ∃ half g, c20_CcOK h half g := by
  unfold BoltCc.newDc at hnew
  dsimp only at hnew
  split at hnew
  · cases hnew
  rename_i hc
  cases hnew
  have h1 : min (max m r) (N / 2) ≠ 0 := fun h => hc (Or.inl h)
  have h2 : n ≠ 0 := fun h => hc (Or.inr (Or.inl h))
  have h3 : N / 2 ≠ 0 := fun h => hc (Or.inr (Or.inr h))
  obtain ⟨half, g, e1, e2, e3, e4, e5⟩ := c20_boltCc_params hpow hN64 (Nat.min_le_right _ _) h3
  exact ⟨rfl, rfl, rfl, rfl, Nat.pos_of_ne_zero h2, half, g,
    { hN := e1, hgsc := e2, hhalf := e3, hg := e4, hm0 := Nat.pos_of_ne_zero h1, hmg := e5 }⟩

/-- `MatmulBoltCcDcSmall::encode_inputs`: column `c` of polynomial `i` holds diagonal `i·gsc + c` of the block: entry `k` is
    `a[sy + k][sx + (i·gsc + k + c) mod m]` (for every `k < gap` with the row inside the matrix) -/
theorem c20_boltDcEncIn_spec (z : S) (h : BoltCc) {half g : Nat} (ok : c20_CcOK h half g) (a : Nat → S) (sy sx i : Nat) :
    ∃ arr, boltDcEncIn h z a sy sx i = .ok arr ∧ arr.size = h.N ∧
      ∀ c k, c < h.gsc → k < h.gap → arr.getD (c * h.gap + k) z =
        if sy + k < h.mAll ∧ sx + (i * h.gsc + k + c) % h.m < h.r then a ((sy + k) * h.r + (sx + (i * h.gsc + k + c) % h.m)) else z := by
  unfold boltDcEncIn
  have hmemI : ∀ jk : Nat × Nat, jk ∈ ((pairs h.gsc h.gap).filter fun jk =>
      sy + jk.2 < h.mAll ∧ sx + (i * h.gsc + jk.2 + jk.1) % h.m < h.r) ↔
      (jk.1 < h.gsc ∧ jk.2 < h.gap) ∧ (sy + jk.2 < h.mAll ∧ sx + (i * h.gsc + jk.2 + jk.1) % h.m < h.r) := by
    intro jk
    rw [List.mem_filter, c20_mem_pairs, decide_eq_true_eq]
  obtain ⟨arr, hok, hsz, hz, hv⟩ := c20_scatter_map z h.N h.N
    ((pairs h.gsc h.gap).filter fun jk => sy + jk.2 < h.mAll ∧ sx + (i * h.gsc + jk.2 + jk.1) % h.m < h.r)
    (fun jk => jk.1 * h.gap + jk.2) (fun jk => a ((sy + jk.2) * h.r + (sx + (i * h.gsc + jk.2 + jk.1) % h.m)))
    (by
      intro jk hjk
      obtain ⟨⟨h1, h2⟩, _⟩ := (hmemI jk).mp hjk
      show jk.1 * h.gap + jk.2 < h.N ∧ jk.1 * h.gap + jk.2 < h.N
      rw [ok.hN]
      have := c20_succ_mul_le (ib := h.gap) h1
      omega)
    (by
      intro k hk k' hk' heq
      obtain ⟨⟨_, h2⟩, _⟩ := (hmemI k).mp hk
      obtain ⟨⟨_, h2'⟩, _⟩ := (hmemI k').mp hk'
      obtain ⟨e2, e1⟩ := c20_digit_unique (W := h.gap) h2' h2 heq
      show a _ = a _
      rw [e1, e2])
  refine ⟨arr, hok, hsz, ?_⟩
  intro c k hc hk
  split
  · rename_i hcond
    exact hv (c, k) ((hmemI (c, k)).mpr ⟨⟨hc, hk⟩, hcond⟩)
  · rename_i hcond
    apply hz
    intro jk hjk heq
    obtain ⟨⟨_, h2⟩, h3⟩ := (hmemI jk).mp hjk
    obtain ⟨e2, e1⟩ := c20_digit_unique (W := h.gap) hk h2 heq
    rw [e1, e2] at h3
    exact hcond h3

/-- `MatmulBoltCcDcSmall::encode_weights`: column-major rows `sy ..` of the RHS, columns `i·gsc ..` -/
theorem c20_boltDcEncW_spec (z : S) (h : BoltCc) {half g : Nat} (ok : c20_CcOK h half g) (b : Nat → S) (sy i : Nat) :
    ∃ arr, boltDcEncW h z b sy i = .ok arr ∧ arr.size = h.N ∧
      ∀ c k, c < h.gsc → k < h.gap → arr.getD (c * h.gap + k) z =
        if k < h.m ∧ sy + k < h.r ∧ i * h.gsc + c < h.nAll then b ((sy + k) * h.nAll + (i * h.gsc + c)) else z := by
  unfold boltDcEncW
  have hmg := ok.hmg
  have hmemI : ∀ ck : Nat × Nat, ck ∈ ((pairs (min h.nAll (i * h.gsc + h.gsc) - i * h.gsc) h.m).filter fun ck =>
      sy + ck.2 < h.r ∧ i * h.gsc + ck.1 < h.nAll) ↔
      (ck.1 < min h.nAll (i * h.gsc + h.gsc) - i * h.gsc ∧ ck.2 < h.m) ∧ (sy + ck.2 < h.r ∧ i * h.gsc + ck.1 < h.nAll) := by
    intro ck
    rw [List.mem_filter, c20_mem_pairs, decide_eq_true_eq]
  obtain ⟨arr, hok, hsz, hz, hv⟩ := c20_scatter_map z h.N h.N
    ((pairs (min h.nAll (i * h.gsc + h.gsc) - i * h.gsc) h.m).filter fun ck => sy + ck.2 < h.r ∧ i * h.gsc + ck.1 < h.nAll)
    (fun ck => ck.1 * h.gap + ck.2) (fun ck => b ((sy + ck.2) * h.nAll + (i * h.gsc + ck.1)))
    (by
      intro ck hck
      obtain ⟨⟨h1, h2⟩, _⟩ := (hmemI ck).mp hck
      have hc : ck.1 < h.gsc := by omega
      show ck.1 * h.gap + ck.2 < h.N ∧ ck.1 * h.gap + ck.2 < h.N
      rw [ok.hN]
      have := c20_succ_mul_le (ib := h.gap) hc
      omega)
    (by
      intro k hk k' hk' heq
      obtain ⟨⟨_, h2⟩, _⟩ := (hmemI k).mp hk
      obtain ⟨⟨_, h2'⟩, _⟩ := (hmemI k').mp hk'
      obtain ⟨e2, e1⟩ := c20_digit_unique (W := h.gap) (by omega) (by omega) heq
      show b _ = b _
      rw [e1, e2])
  refine ⟨arr, hok, hsz, ?_⟩
  intro c k hc hk
  split
  · rename_i hcond
    exact hv (c, k) ((hmemI (c, k)).mpr ⟨⟨by show c < _; omega, hcond.1⟩, hcond.2.1, hcond.2.2⟩)
  · rename_i hcond
    apply hz
    intro ck hck heq
    obtain ⟨⟨_, h2⟩, h3⟩ := (hmemI ck).mp hck
    obtain ⟨e2, e1⟩ := c20_digit_unique (W := h.gap) hk (by omega) heq
    rw [e1, e2] at h3
    rw [e2] at h2
    exact hcond ⟨h2, h3.1, h3.2⟩

/-- the LHS polynomial `ii` of block (`i`, `j`) and the RHS polynomial `i` of row part `p` -/
def c20_dcIn (z : S) (h : BoltCc) (x : Nat → S) (i j ii : Nat) : Array S := c20_val #[] (boltDcEncIn h z x (i * h.m) (j * h.m) ii)
def c20_dcW (z : S) (h : BoltCc) (w : Nat → S) (p i : Nat) : Array S := c20_val #[] (boltDcEncW h z w (p * h.m) i)

theorem c20_boltDcEncodeInputs_ok (z : S) (h : BoltCc) {half g : Nat} (ok : c20_CcOK h half g) (x : Nat → S) :
    boltDcEncodeInputs h z x (h.mAll * h.r)
      = .ok ((pairs (ceilDiv h.mAll h.m) (ceilDiv h.r h.m)).map fun ij => (List.range (ceilDiv h.m h.gsc)).map fun ii =>
          c20_dcIn z h x ij.1 ij.2 ii) := by
  unfold boltDcEncodeInputs
  rw [if_neg (by simp)]
  apply c20_mapM_eq
  intro ij _
  apply c20_mapM_eq
  intro ii _
  obtain ⟨arr, hok, _⟩ := c20_boltDcEncIn_spec z h ok x (ij.1 * h.m) (ij.2 * h.m) ii
  exact c20_val_ok #[] hok

theorem c20_boltDcEncodeWeights_ok (z : S) (h : BoltCc) {half g : Nat} (ok : c20_CcOK h half g) (w : Nat → S) :
    boltDcEncodeWeights h z w (h.r * h.nAll)
      = .ok ((List.range (ceilDiv h.r h.m)).map fun p => (List.range (ceilDiv h.nAll h.gsc)).map fun i => c20_dcW z h w p i) := by
  unfold boltDcEncodeWeights
  rw [if_neg (by simp)]
  apply c20_mapM_eq
  intro p _
  apply c20_mapM_eq
  intro i _
  obtain ⟨arr, hok, _⟩ := c20_boltDcEncW_spec z h ok w (p * h.m) i
  exact c20_val_ok #[] hok

theorem c20_dcIn_get (z : S) (h : BoltCc) {half g : Nat} (ok : c20_CcOK h half g) (x : Nat → S) (i j ii : Nat) {c k : Nat}
    (hc : c < h.gsc) (hk : k < h.gap) :
    (c20_dcIn z h x i j ii).getD (c * h.gap + k) z =
      if i * h.m + k < h.mAll ∧ j * h.m + (ii * h.gsc + k + c) % h.m < h.r
      then x ((i * h.m + k) * h.r + (j * h.m + (ii * h.gsc + k + c) % h.m)) else z := by
  obtain ⟨arr, hok, _, hget⟩ := c20_boltDcEncIn_spec z h ok x (i * h.m) (j * h.m) ii
  have e : c20_dcIn z h x i j ii = arr := by unfold c20_dcIn; rw [hok]; rfl
  rw [e, hget c k hc hk]

theorem c20_dcW_get (z : S) (h : BoltCc) {half g : Nat} (ok : c20_CcOK h half g) (w : Nat → S) (p i : Nat) {c k : Nat}
    (hc : c < h.gsc) (hk : k < h.gap) :
    (c20_dcW z h w p i).getD (c * h.gap + k) z =
      if k < h.m ∧ p * h.m + k < h.r ∧ i * h.gsc + c < h.nAll then w ((p * h.m + k) * h.nAll + (i * h.gsc + c)) else z := by
  obtain ⟨arr, hok, _, hget⟩ := c20_boltDcEncW_spec z h ok w (p * h.m) i
  have e : c20_dcW z h w p i = arr := by unfold c20_dcW; rw [hok]; rfl
  rw [e, hget c k hc hk]

/-! ### `MatmulBoltCcDcSmall::multiply` -/

/-- the spread polynomial (value of `spread_inputs`) -/
def c20_dcSP [Add S] [Zero S] (h : BoltCc) (lo hi : Nat) (ai : Array S) : Array S :=
  c20_val #[] (boltSpread (· + ·) 0 h.N h.gap lo hi ai)

theorem c20_dcSP_get [AddCommMonoid S] (h : BoltCc) {half g : Nat} (ok : c20_CcOK h half g) (ai : Array S) (lo hi σ : Nat)
    (hσ : σ < h.gsc) (hlo : σ * h.gap ≤ lo) (hlh : lo < hi) (hhi : hi ≤ σ * h.gap + h.gap) :
    boltSpread (· + ·) 0 h.N h.gap lo hi ai = .ok (c20_dcSP h lo hi ai) ∧ (c20_dcSP h lo hi ai).size = h.N ∧
      ∀ c t, c < h.gsc → t < h.gap →
        (c20_dcSP h lo hi ai).getD (c * h.gap + t) 0 = if lo ≤ σ * h.gap + t ∧ σ * h.gap + t < hi then ai.getD (σ * h.gap + t) 0 else 0 := by
  obtain ⟨r, hr, hsz, hget⟩ := c20_boltSpread_spec half h.gap g ok.hhalf ok.hg ok.gap_pos ai lo hi σ (by rw [← ok.hgsc]; exact hσ)
    hlo hlh hhi
  rw [← ok.hN2] at hr hsz
  have e : c20_dcSP h lo hi ai = r := by unfold c20_dcSP; rw [hr]; rfl
  rw [e]
  exact ⟨hr, hsz, fun c t hc ht => hget c t (by rw [← ok.hgsc]; exact hc) ht⟩

theorem c20_list_sum_filter {M : Type} [AddCommMonoid M] (p : Nat → Prop) [DecidablePred p] (F : Nat → M) :
    ∀ l : List Nat, ((l.filter fun x => decide (p x)).map F).sum = (l.map fun x => if p x then F x else 0).sum
  | [] => rfl
  | x :: l => by
    rw [List.filter_cons]
    by_cases hx : p x
    · simp only [hx, decide_true, if_true, List.map_cons, List.sum_cons]
      rw [c20_list_sum_filter p F l]
    · simp only [hx, decide_false, if_false, List.map_cons, List.sum_cons, Bool.false_eq_true]
      rw [c20_list_sum_filter p F l, zero_add]

/-- **`MatmulBoltCcDcSmall::multiply`** on ANY LHS polynomials `fa ii` (diagonals `ii·gsc ..` of the block) and RHS polynomials `fb o`
    (column-major): never fails; column `c`, entry `k < m` of output polynomial `o` holds
    `Σ_sh (fb o)[c][(k + sh) mod m] · (fa (sh / gsc))[sh mod gsc][k]` -/
theorem c20_dcMulSmall_spec [CommRing S] (h : BoltCc) {half g : Nat} (ok : c20_CcOK h half g) (fa fb : Nat → Array S) :
    ∃ Yq, boltDcMulSmall h (· + ·) (· * ·) 0 ((List.range (ceilDiv h.m h.gsc)).map fa) ((List.range (ceilDiv h.nAll h.gsc)).map fb)
        = .ok Yq ∧ Yq.length = ceilDiv h.nAll h.gsc ∧
      ∀ o, o < ceilDiv h.nAll h.gsc → ∃ v, Yq[o]? = some v ∧ v.size = h.N ∧ ∀ c k, c < h.gsc → k < h.m →
        v.getD (c * h.gap + k) 0
          = ∑ sh ∈ range h.m, (fb o).getD (c * h.gap + (k + sh) % h.m) 0 * (fa (sh / h.gsc)).getD (sh % h.gsc * h.gap + k) 0 := by
  have hh := ok.half_pos
  have hgs := ok.gsc_pos
  have hmg := ok.hmg
  have hm0 := ok.hm0
  have hH : h.N / 2 = half * h.gap := ok.hNdiv
  have hgapH : h.gap ≤ half * h.gap := Nat.le_mul_of_pos_left _ hh
  have hbind : ∀ {α β : Type} (a : α) (f : α → R β), (Except.ok a >>= f) = f a := fun _ _ => rfl
  unfold boltDcMulSmall
  simp only [List.length_map, List.length_range, ne_eq, not_true_eq_false, or_self, if_false]
  refine c20_mapM_spec' _ (fun (o : Nat) (v : Array S) => v.size = h.N ∧ ∀ c k, c < h.gsc → k < h.m →
      v.getD (c * h.gap + k) 0
        = ∑ sh ∈ range h.m, (fb o).getD (c * h.gap + (k + sh) % h.m) 0 * (fa (sh / h.gsc)).getD (sh % h.gsc * h.gap + k) 0) _ _ ?_ ?_
  swap
  · intro Yq hlen hall
    refine ⟨by simpa using hlen, ?_⟩
    intro o ho
    obtain ⟨v, hv, hP⟩ := hall o (by simpa using ho)
    rw [List.getElem_range] at hP
    exact ⟨v, hv, hP⟩
  intro o ho
  have ho' : o < ceilDiv h.nAll h.gsc := List.mem_range.mp ho
  rw [c20_getSlots_map _ _ _ ho']
  simp only [hbind]
  have hstep : ∀ (rot lo hi sh σ : Nat) (acc : Option (Array S)), sh < h.m → σ < h.gsc → σ * h.gap ≤ lo → lo < hi →
      hi ≤ σ * h.gap + h.gap →
      (do
        let ai ← getSlots ((List.range (ceilDiv h.m h.gsc)).map fa) (sh / h.gsc)
        let ma ← boltSpread (· + ·) 0 h.N h.gap lo hi ai
        (pure (accAdd (· + ·) 0 h.N acc (slotZip (· * ·) 0 h.N (rotRows 0 h.N rot (fb o)) ma)) : R (Option (Array S))))
      = .ok (accAdd (· + ·) 0 h.N acc (slotZip (· * ·) 0 h.N (rotRows 0 h.N rot (fb o)) (c20_dcSP h lo hi (fa (sh / h.gsc))))) := by
    intro rot lo hi sh σ acc hsh hσ h1 h2 h3
    rw [c20_getSlots_map _ _ _ (c20_div_lt_ceilDiv hgs hsh)]
    simp only [hbind]
    rw [(c20_dcSP_get h ok (fa (sh / h.gsc)) lo hi σ hσ h1 h2 h3).1]
    rfl
  rw [c20_foldlM_pure _ (fun acc sh => accAdd (· + ·) 0 h.N acc (slotZip (· * ·) 0 h.N (rotRows 0 h.N (sh % (h.N / 2)) (fb o))
    (c20_dcSP h (sh % h.gsc * h.gap) (sh % h.gsc * h.gap + (h.m - sh)) (fa (sh / h.gsc))))) _ _
    (fun st sh hsh => by
      have hsh' := List.mem_range.mp hsh
      exact hstep _ _ _ sh (sh % h.gsc) st hsh' (Nat.mod_lt _ hgs) (le_refl _) (by omega) (by omega))]
  simp only [hbind]
  rw [c20_foldlM_pure _ (fun acc sh => accAdd (· + ·) 0 h.N acc (slotZip (· * ·) 0 h.N
      (rotRows 0 h.N ((h.N / 2 - (h.m - sh) % (h.N / 2)) % (h.N / 2)) (fb o))
      (c20_dcSP h (sh % h.gsc * h.gap + (h.m - sh)) (sh % h.gsc * h.gap + (h.m - sh) + sh) (fa (sh / h.gsc))))) _ _
    (fun st sh hsh => by
      rw [List.mem_filter, List.mem_reverse, List.mem_range, decide_eq_true_eq] at hsh
      exact hstep _ _ _ sh (sh % h.gsc) st hsh.1 (Nat.mod_lt _ hgs) (by omega) (by omega) (by omega))]
  -- the accumulated products
  have hl1 : List.range h.m ≠ [] := by intro h0; have := congrArg List.length h0; simp at this; omega
  have hne := c20_accFold_ne_none (· + ·) h.N
    (fun sh => slotZip (· * ·) 0 h.N (rotRows 0 h.N ((h.N / 2 - (h.m - sh) % (h.N / 2)) % (h.N / 2)) (fb o))
      (c20_dcSP h (sh % h.gsc * h.gap + (h.m - sh)) (sh % h.gsc * h.gap + (h.m - sh) + sh) (fa (sh / h.gsc))))
    ((List.range h.m).reverse.filter fun sh => sh ≠ 0) _
    (Or.inr (c20_accFold_ne_none (· + ·) h.N
      (fun sh => slotZip (· * ·) 0 h.N (rotRows 0 h.N (sh % (h.N / 2)) (fb o))
        (c20_dcSP h (sh % h.gsc * h.gap) (sh % h.gsc * h.gap + (h.m - sh)) (fa (sh / h.gsc))))
      (List.range h.m) none (Or.inl hl1)))
  have hwf := c20_accFold_wf (· + ·) h.N
    (fun sh => slotZip (· * ·) 0 h.N (rotRows 0 h.N ((h.N / 2 - (h.m - sh) % (h.N / 2)) % (h.N / 2)) (fb o))
      (c20_dcSP h (sh % h.gsc * h.gap + (h.m - sh)) (sh % h.gsc * h.gap + (h.m - sh) + sh) (fa (sh / h.gsc))))
    ((List.range h.m).reverse.filter fun sh => sh ≠ 0) _
    (fun x _ => c20_slotZip_size _ _ _ _ _)
    (c20_accFold_wf (· + ·) h.N
      (fun sh => slotZip (· * ·) 0 h.N (rotRows 0 h.N (sh % (h.N / 2)) (fb o))
        (c20_dcSP h (sh % h.gsc * h.gap) (sh % h.gsc * h.gap + (h.m - sh)) (fa (sh / h.gsc))))
      (List.range h.m) none (fun x _ => c20_slotZip_size _ _ _ _ _) (c20_wf_none _))
  refine ⟨_, c20_unwrapAcc_getD hne, ?_, ?_⟩
  · obtain ⟨v, hv⟩ := Option.ne_none_iff_exists'.mp hne
    rw [hv]; exact hwf v hv
  intro c k hc hk
  have hkg : k < h.gap := by omega
  have hc2 : c < 2 * half := by rw [← ok.hgsc]; exact hc
  have hp : c * h.gap + k < h.N := by rw [ok.hN]; have := c20_succ_mul_le (ib := h.gap) hc; omega
  have hp2 : c * h.gap + k < 2 * (half * h.gap) := by rw [← ok.hN2]; exact hp
  rw [c20_og_getD hne, c20_accFold_og h.N _ hp, c20_accFold_og h.N _ hp, c20_list_sum_filter (fun sh => sh ≠ 0),
    List.map_reverse, List.sum_reverse, c20_list_sum_range, c20_list_sum_range]
  show 0 + _ + _ = _
  rw [zero_add, ← Finset.sum_add_distrib]
  apply Finset.sum_congr rfl
  intro sh hsh
  have hsh' := Finset.mem_range.mp hsh
  have hσ := Nat.mod_lt sh hgs
  rw [c20_slotZip_get _ _ _ _ _ hp, c20_slotZip_get _ _ _ _ _ hp,
    (c20_dcSP_get h ok (fa (sh / h.gsc)) _ _ (sh % h.gsc) hσ (le_refl _) (by omega) (by omega)).2.2 c k hc hkg]
  rcases Nat.lt_or_ge k (h.m - sh) with hlo | hhi
  · -- reached by the left shift
    have h2z : (if sh ≠ 0 then (rotRows 0 h.N ((h.N / 2 - (h.m - sh) % (h.N / 2)) % (h.N / 2)) (fb o)).getD (c * h.gap + k) 0 *
        (c20_dcSP h (sh % h.gsc * h.gap + (h.m - sh)) (sh % h.gsc * h.gap + (h.m - sh) + sh) (fa (sh / h.gsc))).getD (c * h.gap + k) 0
        else (0 : S)) = 0 := by
      split
      · rename_i hne0
        rw [(c20_dcSP_get h ok (fa (sh / h.gsc)) _ _ (sh % h.gsc) hσ (by omega) (by omega) (by omega)).2.2 c k hc hkg,
          if_neg (by omega), mul_zero]
      · rfl
    rw [h2z, add_zero, if_pos ⟨by omega, by omega⟩]
    congr 1
    rw [hH, ok.hN2, c20_rotRows_get 0 _ _ _ hp2, Nat.mod_eq_of_lt (by omega : sh < half * h.gap),
      c20_rho_incol_add hh (by omega : k + sh < h.gap), Nat.mod_eq_of_lt (by omega : k + sh < h.m)]
  · -- reached by the right shift
    have hsh0 : sh ≠ 0 := by omega
    rw [if_neg (by omega), mul_zero, zero_add, if_pos hsh0,
      (c20_dcSP_get h ok (fa (sh / h.gsc)) _ _ (sh % h.gsc) hσ (by omega) (by omega) (by omega)).2.2 c k hc hkg,
      if_pos ⟨by omega, by omega⟩]
    congr 1
    have e1 : (h.m - sh) % (half * h.gap) = h.m - sh := Nat.mod_eq_of_lt (by omega)
    have e2 : (half * h.gap - (h.m - sh)) % (half * h.gap) = half * h.gap - (h.m - sh) := Nat.mod_eq_of_lt (by omega)
    have e3 : (k + sh) % h.m = k - (h.m - sh) := by
      have e : k + sh = (k - (h.m - sh)) + h.m := by omega
      rw [e, Nat.add_mod_right, Nat.mod_eq_of_lt (by omega)]
    rw [hH, ok.hN2, c20_rotRows_get 0 _ _ _ hp2, e1, e2, c20_rho_incol_sub hh hkg hhi, e3]

/-! ### accumulation of the block products, end to end -/

/-- `Cipher1d::add_inplace` folded over the block products: polynomial `o` of the result is the slot-wise sum -/
theorem c20_zipFold_get [AddCommMonoid S] (N L : Nat) :
    ∀ (rest : List (List (Array S))) (acc : List (Array S)), acc.length = L → (∀ p ∈ rest, p.length = L) → ∀ o, o < L →
      ∃ v, (rest.foldl (fun acc p => (acc.zip p).map fun ap => slotZip (· + ·) 0 N ap.1 ap.2) acc)[o]? = some v ∧
        ((acc.getD o #[]).size = N → v.size = N) ∧
        (∀ q, q < N → v.getD q 0 = (acc.getD o #[]).getD q 0 + (rest.map fun p => (p.getD o #[]).getD q 0).sum) ∧
        (rest.foldl (fun acc p => (acc.zip p).map fun ap => slotZip (· + ·) 0 N ap.1 ap.2) acc).length = L
  | [], acc, hacc, _, o, ho => by
    refine ⟨acc[o]'(by omega), by simp, ?_, ?_, hacc⟩
    · intro hs; simpa [List.getD, List.getElem?_eq_getElem (by omega : o < acc.length)] using hs
    · intro q _; simp [List.getD, List.getElem?_eq_getElem (by omega : o < acc.length)]
  | p :: rest, acc, hacc, hrest, o, ho => by
    have hp : p.length = L := hrest p (by simp)
    have hlen : ((acc.zip p).map fun ap => slotZip (· + ·) 0 N ap.1 ap.2).length = L := by simp [hacc, hp]
    obtain ⟨v, hv, hsz, hval, hl⟩ := c20_zipFold_get N L rest _ hlen (fun p' hp' => hrest p' (by simp [hp'])) o ho
    have hget : (((acc.zip p).map fun ap => slotZip (· + ·) 0 N ap.1 ap.2).getD o #[])
        = slotZip (· + ·) 0 N (acc.getD o #[]) (p.getD o #[]) := by
      simp [List.getD, List.getElem?_map, List.getElem?_eq_getElem (by omega : o < acc.length),
        List.getElem?_eq_getElem (by omega : o < p.length), List.getElem?_eq_getElem (by simp [hacc, hp]; omega : o < (acc.zip p).length)]
    refine ⟨v, by rw [List.foldl_cons]; exact hv, fun _ => hsz (by rw [hget]; exact c20_slotZip_size _ _ _ _ _), ?_,
      by rw [List.foldl_cons]; exact hl⟩
    intro q hq
    rw [hval q hq, hget, c20_slotZip_get _ _ _ _ _ hq, List.map_cons, List.sum_cons, add_assoc]

theorem c20_zipFold_length (N L : Nat) (f : Array S → Array S → Array S) :
    ∀ (rest : List (List (Array S))) (acc : List (Array S)), acc.length = L → (∀ p ∈ rest, p.length = L) →
      (rest.foldl (fun acc p => (acc.zip p).map fun (ap : Array S × Array S) => f ap.1 ap.2) acc).length = L
  | [], _, hacc, _ => hacc
  | p :: rest, acc, hacc, hrest => by
    rw [List.foldl_cons]
    exact c20_zipFold_length N L f rest _ (by simp [hacc, hrest p (by simp)]) (fun p' hp' => hrest p' (by simp [hp']))

/-- **`MatmulBoltCcDc`, whole pipeline** (any commutative ring, every helper satisfying `c20_CcOK`, `r > 0`): encode the LHS blocks by
    diagonals and the RHS row parts column-major, run `multiply` of the small helper for every block pair (rotate the RHS by the shift,
    `spread_inputs` of the masked diagonal segment, multiply, accumulate; then the right shifts), add the block products, decode
    column-major: the result is `x · w`, row major `m × n` -/
theorem c20_boltDc_whole [CommRing S] (h : BoltCc) {half g : Nat} (ok : c20_CcOK h half g) (hr : 0 < h.r) (x w : Nat → S) :
    ∃ X W Y out, boltDcEncodeInputs h 0 x (h.mAll * h.r) = .ok X ∧ boltDcEncodeWeights h 0 w (h.r * h.nAll) = .ok W ∧
      boltDcMultiply h (· + ·) (· * ·) 0 X W = .ok Y ∧ boltDcDecodeOutputs h 0 Y = .ok out ∧ out.size = h.mAll * h.nAll ∧
      ∀ i j, i < h.mAll → j < h.nAll → out.getD (i * h.nAll + j) 0 = ∑ k ∈ range h.r, x (i * h.r + k) * w (k * h.nAll + j) := by
  have hgs := ok.gsc_pos
  have hm0 := ok.hm0
  have hmg := ok.hmg
  have hR : 0 < ceilDiv h.r h.m := c20_ceilDiv_pos hr hm0
  have hbind : ∀ {α β : Type} (a : α) (f : α → R β), (Except.ok a >>= f) = f a := fun _ _ => rfl
  let Xr : Nat × Nat → List (Array S) := fun ij => (List.range (ceilDiv h.m h.gsc)).map fun ii => c20_dcIn 0 h x ij.1 ij.2 ii
  let Wr : Nat → List (Array S) := fun p => (List.range (ceilDiv h.nAll h.gsc)).map fun i => c20_dcW 0 h w p i
  -- the block products
  let YQ : Nat → Nat → List (Array S) := fun i j => c20_val [] (boltDcMulSmall h (· + ·) (· * ·) 0 (Xr (i, j)) (Wr j))
  have hYQ : ∀ i j, boltDcMulSmall h (· + ·) (· * ·) 0 (Xr (i, j)) (Wr j) = .ok (YQ i j) ∧ (YQ i j).length = ceilDiv h.nAll h.gsc ∧
      ∀ o, o < ceilDiv h.nAll h.gsc → ∃ v, (YQ i j)[o]? = some v ∧ v.size = h.N ∧ ∀ c k, c < h.gsc → k < h.m →
        v.getD (c * h.gap + k) 0 = ∑ sh ∈ range h.m, (c20_dcW 0 h w j o).getD (c * h.gap + (k + sh) % h.m) 0
          * (c20_dcIn 0 h x i j (sh / h.gsc)).getD (sh % h.gsc * h.gap + k) 0 := by
    intro i j
    obtain ⟨Yq, hYq, hl, hv⟩ := c20_dcMulSmall_spec h ok (fun ii => c20_dcIn 0 h x i j ii) (fun o => c20_dcW 0 h w j o)
    have e : YQ i j = Yq := by
      show c20_val [] (boltDcMulSmall h (· + ·) (· * ·) 0 ((List.range _).map _) ((List.range _).map _)) = Yq
      rw [hYq]; rfl
    rw [e]
    exact ⟨hYq, hl, hv⟩
  -- the multiplication: every output part is the sum of the block products
  have hmulE : ∃ Y, boltDcMultiply h (· + ·) (· * ·) 0 ((pairs (ceilDiv h.mAll h.m) (ceilDiv h.r h.m)).map Xr)
        ((List.range (ceilDiv h.r h.m)).map Wr) = .ok Y ∧ Y.length = ceilDiv h.mAll h.m ∧
      ∀ i, i < ceilDiv h.mAll h.m → ∃ part, Y[i]? = some part ∧ part.length = ceilDiv h.nAll h.gsc ∧
        ∀ o, o < ceilDiv h.nAll h.gsc → ∃ v, part[o]? = some v ∧ v.size = h.N ∧ ∀ q, q < h.N →
          v.getD q 0 = ∑ j ∈ range (ceilDiv h.r h.m), ((YQ i j).getD o #[]).getD q 0 := by
    unfold boltDcMultiply
    have hlenA : ((pairs (ceilDiv h.mAll h.m) (ceilDiv h.r h.m)).map Xr).length = ceilDiv h.mAll h.m * ceilDiv h.r h.m := by
      rw [List.length_map, c20_pairs_eq, List.length_map, List.length_range]
    simp only [hlenA, List.length_map, List.length_range, ne_eq, not_true_eq_false, or_self, if_false]
    refine c20_mapM_spec' _ (fun (i : Nat) (part : List (Array S)) => part.length = ceilDiv h.nAll h.gsc ∧
        ∀ o, o < ceilDiv h.nAll h.gsc → ∃ v, part[o]? = some v ∧ v.size = h.N ∧ ∀ q, q < h.N →
          v.getD q 0 = ∑ j ∈ range (ceilDiv h.r h.m), ((YQ i j).getD o #[]).getD q 0) _ _ ?_ ?_
    swap
    · intro Y hlen hall
      refine ⟨by simpa using hlen, ?_⟩
      intro i hi
      obtain ⟨part, hp, hP⟩ := hall i (by simpa using hi)
      rw [List.getElem_range] at hP
      exact ⟨part, hp, hP⟩
    intro i hi
    have hi' := List.mem_range.mp hi
    have hparts : (List.range (ceilDiv h.r h.m)).mapM (fun j => do
          let a ← getRow ((pairs (ceilDiv h.mAll h.m) (ceilDiv h.r h.m)).map Xr) (i * ceilDiv h.r h.m + j)
          let b ← getRow ((List.range (ceilDiv h.r h.m)).map Wr) j
          boltDcMulSmall h (· + ·) (· * ·) 0 a b) = .ok ((List.range (ceilDiv h.r h.m)).map fun j => YQ i j) := by
      apply c20_mapM_eq
      intro j hj
      have hj' := List.mem_range.mp hj
      have h1 : getRow ((pairs (ceilDiv h.mAll h.m) (ceilDiv h.r h.m)).map Xr) (i * ceilDiv h.r h.m + j) = .ok (Xr (i, j)) := by
        unfold getRow; rw [c20_pairs_map_getElem? _ _ _ _ _ hi' hj']
      rw [h1, c20_getRow_map _ _ _ hj']
      simp only [hbind]
      exact (hYQ i j).1
    rw [hparts]
    simp only [hbind]
    obtain ⟨R', hR'⟩ : ∃ R', ceilDiv h.r h.m = R' + 1 := ⟨ceilDiv h.r h.m - 1, by omega⟩
    rw [hR', List.range_succ_eq_map, List.map_cons, List.map_map]
    have hrestlen : ∀ p ∈ (List.range R').map ((fun j => YQ i j) ∘ Nat.succ), p.length = ceilDiv h.nAll h.gsc := by
      intro p hp
      obtain ⟨j, _, rfl⟩ := List.mem_map.mp hp
      exact (hYQ i _).2.1
    refine ⟨_, rfl, c20_zipFold_length h.N _ _ _ _ (hYQ i 0).2.1 hrestlen, ?_⟩
    intro o ho
    obtain ⟨v, hv, hsz, hval, _⟩ := c20_zipFold_get h.N (ceilDiv h.nAll h.gsc) _ (YQ i 0) (hYQ i 0).2.1 hrestlen o ho
    obtain ⟨v0, hv0, hv0s, _⟩ := (hYQ i 0).2.2 o ho
    have hg0 : (YQ i 0).getD o #[] = v0 := by simp [List.getD, hv0]
    refine ⟨v, hv, hsz (by rw [hg0]; exact hv0s), ?_⟩
    intro q hq
    rw [hval q hq, List.map_map, c20_list_sum_range, Finset.sum_range_succ', add_comm]
    rfl
  obtain ⟨Y, hmul, hYlen, hYall⟩ := hmulE
  -- decoding
  have hany : (Y.any fun p => p.length ≠ ceilDiv h.nAll h.gsc) = false := by
    rw [List.any_eq_false]
    intro part hpart
    obtain ⟨p, hp, hget⟩ := List.getElem_of_mem hpart
    obtain ⟨b, hb, hbl, _⟩ := hYall p (by omega)
    rw [List.getElem?_eq_getElem hp, hget] at hb
    cases hb
    simp [hbl]
  obtain ⟨out, hout, hosz, hoval⟩ := c20_boltColMajorDecode_spec (0 : S) h.gap h.gsc h.m h.mAll h.nAll Y
    (fun row col => ∑ k ∈ range h.r, x (row * h.r + k) * w (k * h.nAll + col)) hm0 hYlen
    (by
      intro p hp
      obtain ⟨part, hpart, _, hpv⟩ := hYall p hp
      refine ⟨part, by unfold getRow; rw [hpart], ?_⟩
      intro k col hk hcol
      have hco : col / h.gsc < ceilDiv h.nAll h.gsc := c20_div_lt_ceilDiv hgs hcol
      have hcc : col % h.gsc < h.gsc := Nat.mod_lt _ hgs
      have hkm : k < h.m := by omega
      have hkg : k < h.gap := by omega
      obtain ⟨v, hv, hvs, hvv⟩ := hpv (col / h.gsc) hco
      refine ⟨v, by unfold getSlots; rw [hv], ?_⟩
      have hlt : col % h.gsc * h.gap + k < h.N := by
        rw [ok.hN]; have := c20_succ_mul_le (ib := h.gap) hcc; omega
      rw [c20_readAt_getD 0 v (by rw [hvs]; exact hlt), hvv _ hlt]
      congr 1
      have ecol : col / h.gsc * h.gsc + col % h.gsc = col := Nat.div_add_mod' col h.gsc
      let G : Nat → S := fun q => if q < h.r then w (q * h.nAll + col) * x ((p * h.m + k) * h.r + q) else 0
      have hblock : ∀ j, ((YQ p j).getD (col / h.gsc) #[]).getD (col % h.gsc * h.gap + k) 0 = ∑ t ∈ range h.m, G (j * h.m + t) := by
        intro j
        obtain ⟨vj, hvj, _, hvjv⟩ := (hYQ p j).2.2 (col / h.gsc) hco
        have hgj : (YQ p j).getD (col / h.gsc) #[] = vj := by simp [List.getD, hvj]
        rw [hgj, hvjv _ _ hcc hkm, ← c20_sum_rot (fun t => G (j * h.m + t)) h.m k]
        apply Finset.sum_congr rfl
        intro sh hsh
        have hsh' := Finset.mem_range.mp hsh
        have htm : (k + sh) % h.m < h.m := Nat.mod_lt _ hm0
        have esh : sh / h.gsc * h.gsc + k + sh % h.gsc = k + sh := by have := Nat.div_add_mod' sh h.gsc; omega
        rw [c20_dcW_get 0 h ok w j (col / h.gsc) hcc (by omega : (k + sh) % h.m < h.gap),
          c20_dcIn_get 0 h ok x p j (sh / h.gsc) (Nat.mod_lt _ hgs) hkg, esh, ecol, Nat.add_comm sh k]
        show _ = if _ < h.r then _ else 0
        by_cases hq : j * h.m + (k + sh) % h.m < h.r
        · rw [if_pos ⟨htm, hq, hcol⟩, if_pos ⟨by omega, hq⟩, if_pos hq]
        · rw [if_neg (fun hc' => hq hc'.2.1), if_neg hq, zero_mul]
      rw [Finset.sum_congr rfl (fun j _ => hblock j), c20_sum_range_mul G]
      have hsub : range h.r ⊆ range (ceilDiv h.r h.m * h.m) := by
        intro q hq
        have := c20_le_ceilDiv_mul h.r h.m hm0
        exact Finset.mem_range.mpr (lt_of_lt_of_le (Finset.mem_range.mp hq) this)
      rw [← Finset.sum_subset hsub (fun q _ hq => by
        show (if q < h.r then _ else 0) = 0
        rw [if_neg (fun hlt => hq (Finset.mem_range.mpr hlt))])]
      apply Finset.sum_congr rfl
      intro q hq
      show (if q < h.r then _ else 0) = _
      rw [if_pos (Finset.mem_range.mp hq), mul_comm])
  refine ⟨_, _, Y, out, c20_boltDcEncodeInputs_ok 0 h ok x, c20_boltDcEncodeWeights_ok 0 h ok w, hmul, ?_, hosz, hoval⟩
  unfold boltDcDecodeOutputs
  rw [if_neg (by rw [hany]; simp [hYlen])]
  exact hout

/-- **... for every helper `MatmulBoltCcDc::new` accepts, with `r > 0`** (`N` a power of two in the `usize` range).  For `r = 0` the
    constructor still accepts (`BoltCc.newDc 1 0 1 2` is `ok`), but `multiply` fails on the empty list of block products
    (`item.unwrap()` on `None` in the code): the hypothesis `0 < r` cannot be dropped -/
theorem c20_boltDc_new [CommRing S] {m r n N : Nat} {h : BoltCc} (hnew : BoltCc.newDc m r n N = .ok h) (hpow : ∃ e, N = 2^e)
    (hN64 : N < 2^64) (hr0 : 0 < r) (x w : Nat → S) :
    ∃ X W Y out, boltDcEncodeInputs h 0 x (m * r) = .ok X ∧ boltDcEncodeWeights h 0 w (r * n) = .ok W ∧
      boltDcMultiply h (· + ·) (· * ·) 0 X W = .ok Y ∧ boltDcDecodeOutputs h 0 Y = .ok out ∧ out.size = m * n ∧
      ∀ i j, i < m → j < n → out.getD (i * n + j) 0 = ∑ k ∈ range r, x (i * r + k) * w (k * n + j) := by
  obtain ⟨_, hm, hr, hn, _, half, g, ok⟩ := c20_boltDcNew_ok hnew hpow hN64
  have := c20_boltDc_whole h ok (by rw [hr]; exact hr0) x w
  rw [hm, hr, hn] at this
  exact this

end HC
