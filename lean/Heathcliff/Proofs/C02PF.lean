/- C02 (task P, part 7): BFV.  Linear operations of the model on the exact phase of COEFFICIENT-form ciphertexts (helper prefix `c02f_`),
   the invariant-noise algebra of linear combinations, and the program theorem `hom_program_bfv` for negate / add / sub / multiply by
   induction over `FProg`, multiplication through `bfvMultiply_noise` / `bfvMultiply_noiseLe` / `bfvMultiply_canon` of C02X / C02W.
   Invariant (`c02f_Enc`): canonical, coefficient form, invariant noise `‖[t·x]_Q‖∞ ≤ V`, `2V < Q`, message part ≡ shadow (mod t). -/
import Heathcliff.Proofs.C02PG
namespace HC
open Finset

/-! ## A. lifts and exact phases in coefficient form -/

def c02f_Lift (l : Level) (ct : Ct) (A : Nat → Nat → Int) : Prop :=
  ∀ k, k < ct.polys.size → ∀ i, i < l.size → ∀ c, c < l.n → ((ct.c02v_res k i c : Nat) : Int) ≡ A k c [ZMOD (l.q i).value]

/-- coefficient `j` of the exact (centred) phase of a coefficient-form ciphertext -/
def c02f_ph (l : Level) (sk : Array Int) (ct : Ct) (j : Nat) : Int :=
  (Spec.phase (c01p_qvals l) l.n sk ct.polys.toList).getD j 0

theorem c02f_lift_exists {l : Level} (hq : c07s_LevelQ l) (ct : Ct) : ∃ A, c02f_Lift l ct A := by
  have h : ∀ k c, ∃ x : Nat, ∀ i, i < l.size → x % (l.q i).value = ct.c02v_res k i c % (l.q i).value := by
    intro k c
    obtain ⟨x, -, hx⟩ := c02w_crt_exists hq.bwf (fun i => ct.c02v_res k i c)
    refine ⟨x, fun i hi => ?_⟩
    have := hx i (by rw [hq.size_eq]; exact hi)
    rwa [hq.q_eq hi] at this
  choose X hX using h
  exact ⟨fun k c => (X k c : Int), fun k _ i hi c _ => (Int.natCast_modEq_iff.mpr (hX k c i hi)).symm⟩

theorem c02f_phase_of_lift {l : Level} (hl : l.WF) (hq : c07s_LevelQ l) {sk : Array Int} (hsk : sk.size = l.n) {ct : Ct}
    (hc : c02v_PolysCanon l ct) {A : Nat → Nat → Int} (hA : c02f_Lift l ct A) {j : Nat} (hj : j < l.n) :
    c02f_ph l sk ct j ≡ c02x_phZ l.n (c02p_sk sk) ct.polys.size A j [ZMOD l.tool.baseQ.prod] := by
  have h := c02x_phase_link hl hq hsk (polys := ct.polys.toList) (c01q_polys_ne hc.two_le) (c01q_polys_mem hc.canon) A
    (fun k hk i hi c hc' => by
      rw [c02x_toList_getD]
      exact hA k (by simpa using hk) i hi c hc') hj
  rw [Array.length_toList] at h
  exact h

theorem c02f_lift_zmod {l : Level} {ct : Ct} {A : Nat → Nat → Int} (hA : c02f_Lift l ct A) {k i c : Nat}
    (hk : k < ct.polys.size) (hi : i < l.size) (hc : c < l.n) :
    ((ct.c02v_res k i c : Nat) : ZMod (l.q i).value) = ((A k c : Int) : ZMod (l.q i).value) := by
  have := (ZMod.intCast_eq_intCast_iff _ _ _).mpr (hA k hk i hi c hc)
  rwa [Int.cast_natCast] at this

theorem c02f_lift_tr {l : Level} {a b r : Ct} {n1 n2 : Nat} (hn1 : n1 ≤ a.polys.size) (hn2 : n2 ≤ b.polys.size)
    (hsz : r.polys.size = max n1 n2) (sub : Bool) (e1 e2 : Int)
    (hres : ∀ k, k < max n1 n2 → ∀ i, i < l.size → ∀ j, j < l.n →
      ((r.c02v_res k i j : Nat) : ZMod (l.q i).value) =
        (if k < n1 then (e1 : ZMod (l.q i).value) * ((a.c02v_res k i j : Nat) : ZMod (l.q i).value) else 0) +
        (if k < n2 then (((if sub then -e2 else e2) : Int) : ZMod (l.q i).value) * ((b.c02v_res k i j : Nat) : ZMod (l.q i).value) else 0))
    {A B : Nat → Nat → Int} (hA : c02f_Lift l a A) (hB : c02f_Lift l b B) :
    c02f_Lift l r (c02p_trZ sub e1 e2 n1 n2 A B) := by
  intro k hk i hi c hc
  have hk' : k < max n1 n2 := by rw [← hsz]; exact hk
  apply (ZMod.intCast_eq_intCast_iff _ _ _).mp
  rw [Int.cast_natCast, hres k hk' i hi c hc]
  unfold c02p_trZ
  by_cases h1 : k < n1 <;> by_cases h2 : k < n2
  · rw [if_pos h1, if_pos h2, if_pos h1, if_pos h2]
    push_cast
    rw [c02f_lift_zmod hA (by omega) hi hc, c02f_lift_zmod hB (by omega) hi hc]
  · rw [if_pos h1, if_neg h2, if_pos h1, if_neg h2]
    push_cast
    rw [c02f_lift_zmod hA (by omega) hi hc]
  · rw [if_neg h1, if_pos h2, if_neg h1, if_pos h2]
    push_cast
    rw [c02f_lift_zmod hB (by omega) hi hc]
  · omega

theorem c02f_tr_ph {l : Level} (hl : l.WF) (hq : c07s_LevelQ l) {sk : Array Int} (hsk : sk.size = l.n) {a b r : Ct}
    (hr : c02v_PolysCanon l r) {n1 n2 : Nat} (hn1 : n1 ≤ a.polys.size) (hn2 : n2 ≤ b.polys.size) (hsz : r.polys.size = max n1 n2)
    (sub : Bool) (e1 e2 : Int)
    (hres : ∀ k, k < max n1 n2 → ∀ i, i < l.size → ∀ j, j < l.n →
      ((r.c02v_res k i j : Nat) : ZMod (l.q i).value) =
        (if k < n1 then (e1 : ZMod (l.q i).value) * ((a.c02v_res k i j : Nat) : ZMod (l.q i).value) else 0) +
        (if k < n2 then (((if sub then -e2 else e2) : Int) : ZMod (l.q i).value) * ((b.c02v_res k i j : Nat) : ZMod (l.q i).value) else 0))
    {A B : Nat → Nat → Int} (hA : c02f_Lift l a A) (hB : c02f_Lift l b B) {j : Nat} (hj : j < l.n) :
    c02f_ph l sk r j ≡ e1 * c02x_phZ l.n (c02p_sk sk) n1 A j + (if sub then -e2 else e2) * c02x_phZ l.n (c02p_sk sk) n2 B j
      [ZMOD l.tool.baseQ.prod] := by
  have hL := c02f_lift_tr hn1 hn2 hsz sub e1 e2 hres hA hB
  have h1 := c02f_phase_of_lift hl hq hsk hr hL (sk := sk) hj
  rw [hsz, c02p_phZ_tr (c01q_n_pos hl) _ sub e1 e2 n1 n2 A B j hj] at h1
  exact h1

/-- negate: ph(r) ≡ −ph(a) -/
theorem c02f_negate_ph {l : Level} (hl : l.WF) (hq : c07s_LevelQ l) {sk : Array Int} (hsk : sk.size = l.n) {a r : Ct} (ha : CtCanon l a)
    (hr : ctNegate l a = .ok r) :
    CtCanon l r ∧ r.ntt = a.ntt ∧ r.polys.size = a.polys.size ∧
      ∀ j, j < l.n → c02f_ph l sk r j ≡ - c02f_ph l sk a j [ZMOD l.tool.baseQ.prod] := by
  have hqs := c02v_qsWF_of_levelWF hl
  obtain ⟨r', hr', hcan, hsz, hntt, _, hres⟩ := ctNegate_spec hqs ha
  rw [hr] at hr'
  obtain rfl := Except.ok.inj hr'
  refine ⟨hcan, hntt, hsz, fun j hj => ?_⟩
  obtain ⟨A, hA⟩ := c02f_lift_exists hq a
  have hpa := c02f_phase_of_lift hl hq hsk ha.toc02v_PolysCanon hA (sk := sk) hj
  have := c02f_tr_ph hl hq hsk hcan.toc02v_PolysCanon (a := a) (b := a) (n1 := a.polys.size) (n2 := 0)
    (Nat.le_refl _) (Nat.zero_le _) (by rw [hsz]; simp) false (-1) 0
    (fun k hk i hi c hc => by
      have hk' : k < a.polys.size := by simpa using hk
      rw [hres k hk' i hi c hc, if_pos hk', if_neg (Nat.not_lt_zero k),
        c02p_cast_neg (a.c02v_res k i c) (le_of_lt (((ha.canon k hk').2 i hi).2 c hc))]
      push_cast; ring) hA hA hj
  refine this.trans ?_
  have e : c02x_phZ l.n (c02p_sk sk) 0 A j = 0 := rfl
  rw [e]
  simp only [Bool.false_eq_true, if_false, mul_zero, add_zero]
  have := hpa.symm.neg
  simpa using this

/-- add / sub, all size pairs (equal correction factors: BFV): ph(r) ≡ ph(a) ± ph(b) -/
theorem c02f_translate_ph {l : Level} (hl : l.WF) (hq : c07s_LevelQ l) {sk : Array Int} (hsk : sk.size = l.n) {a b r : Ct}
    (ha : CtCanon l a) (hb : CtCanon l b) (hntt : a.ntt = b.ntt) (hcf : a.cf = b.cf) (sub : Bool) (hr : ctTranslate l a b sub = .ok r) :
    CtCanon l r ∧ r.ntt = a.ntt ∧ r.polys.size = max a.polys.size b.polys.size ∧
      ∀ j, j < l.n → c02f_ph l sk r j ≡ c02f_ph l sk a j + (if sub then -1 else 1) * c02f_ph l sk b j [ZMOD l.tool.baseQ.prod] := by
  have hqs := c02v_qsWF_of_levelWF hl
  obtain ⟨r', hr', hcan, hsz, hn, _, hres⟩ := ctTranslate_spec hqs ha hb sub hntt hcf
  rw [hr] at hr'
  obtain rfl := Except.ok.inj hr'
  refine ⟨hcan, hn, hsz, fun j hj => ?_⟩
  obtain ⟨A, hA⟩ := c02f_lift_exists hq a
  obtain ⟨B, hB⟩ := c02f_lift_exists hq b
  have hpa := c02f_phase_of_lift hl hq hsk ha.toc02v_PolysCanon hA (sk := sk) hj
  have hpb := c02f_phase_of_lift hl hq hsk hb.toc02v_PolysCanon hB (sk := sk) hj
  have := c02f_tr_ph hl hq hsk hcan.toc02v_PolysCanon (Nat.le_refl a.polys.size) (Nat.le_refl b.polys.size) hsz sub 1 1
    (fun k hk i hi c hc => by
      rw [hres k hk i hi c hc]
      by_cases h1 : k < a.polys.size <;> by_cases h2 : k < b.polys.size
      · have hbl := ((hb.canon k h2).2 i hi).2 c hc
        rw [if_pos ⟨h1, h2⟩, if_pos h1, if_pos h2]
        cases sub
        · simp only [Bool.false_eq_true, if_false]
          rw [ZMod.natCast_mod]; push_cast; ring
        · simp only [if_true]
          rw [c02p_cast_sub _ _ (by unfold Ct.c02v_res; omega)]; push_cast; ring
      · rw [if_neg (by tauto), if_pos h1, if_pos h1, if_neg h2]
        push_cast; ring
      · have hbl := ((hb.canon k h2).2 i hi).2 c hc
        rw [if_neg (by tauto), if_neg h1, if_neg h1, if_pos h2]
        cases sub
        · simp only [Bool.false_eq_true, if_false]
          push_cast; ring
        · simp only [if_true]
          rw [c02p_cast_neg _ (by unfold Ct.c02v_res; omega)]; push_cast; ring
      · omega) hA hB hj
  refine this.trans ?_
  rw [one_mul]
  exact hpa.symm.add (hpb.symm.mul_left _)

/-! ## B. invariant noise of a linear combination -/

/-- if `x_r ≡ α·x_a + β·x_b (mod Q)` and `2(|α|V_a + |β|V_b) < Q` then the invariant noise of `x_r` is at most `|α|V_a + |β|V_b` and its
    message part is `α·msg(x_a) + β·msg(x_b)` modulo t -/
theorem c02f_noise_lin {t Q : Nat} (hQ : 0 < Q) {xa xb xr α β : Int} (h : xr ≡ α * xa + β * xb [ZMOD Q]) {Va Vb : Nat}
    (ha : (c07l_v true t Q xa).natAbs ≤ Va) (hb : (c07l_v true t Q xb).natAbs ≤ Vb)
    (hV : 2 * (α.natAbs * Va + β.natAbs * Vb) < Q) :
    (c07l_v true t Q xr).natAbs ≤ α.natAbs * Va + β.natAbs * Vb ∧
      c02x_msg t Q xr ≡ α * c02x_msg t Q xa + β * c02x_msg t Q xb [ZMOD t] := by
  obtain ⟨ea, _⟩ := c02x_split t hQ xa
  obtain ⟨eb, _⟩ := c02x_split t hQ xb
  obtain ⟨er, _⟩ := c02x_split t hQ xr
  obtain ⟨k, hk⟩ := Int.modEq_iff_dvd.mp h.symm
  -- xr = α xa + β xb + Q k
  have hx : xr = α * xa + β * xb + Q * k := by linarith
  have hsplit : (t : Int) * xr = Q * (α * c02x_msg t Q xa + β * c02x_msg t Q xb + t * k)
      + (α * c07l_v true t Q xa + β * c07l_v true t Q xb) := by
    rw [hx]
    have : (t : Int) * (α * xa + β * xb + Q * k) = α * ((t : Int) * xa) + β * ((t : Int) * xb) + Q * (t * k) := by ring
    rw [this, ea, eb]; ring
  have hνb : (α * c07l_v true t Q xa + β * c07l_v true t Q xb).natAbs ≤ α.natAbs * Va + β.natAbs * Vb := by
    refine le_trans (Int.natAbs_add_le _ _) ?_
    rw [Int.natAbs_mul, Int.natAbs_mul]
    exact Nat.add_le_add (Nat.mul_le_mul_left _ ha) (Nat.mul_le_mul_left _ hb)
  have huniq := c07s_noise_unique hsplit (by omega)
  refine ⟨by rw [huniq]; exact hνb, ?_⟩
  have hQ0 : (Q : Int) ≠ 0 := by exact_mod_cast (by omega : Q ≠ 0)
  have hm : c02x_msg t Q xr = α * c02x_msg t Q xa + β * c02x_msg t Q xb + t * k := by
    have : (Q : Int) * c02x_msg t Q xr = Q * (α * c02x_msg t Q xa + β * c02x_msg t Q xb + t * k) := by
      rw [huniq] at er; linarith
    exact Int.eq_of_mul_eq_mul_left hQ0 this
  rw [hm, Int.modEq_iff_dvd]
  exact ⟨-k, by ring⟩


/-! ## C. the invariant, the steps -/

/-- BFV level bundle: the BEHZ multiplication bundle `MulOK` (C02W; from the constructors: `c02w_mulOK_of_new`), the decryption bundle
    `DecOK` (C01P), the window condition for all sizes ≤ 16 (`c02w_window_of_new`: holds whenever `min(n1,n2)·N ≤ 2^30`) -/
structure c02f_LevelOK (l : Level) (T : Array NTTTables) : Prop where
  mul : MulOK l T
  dec : DecOK l
  bfv : l.scheme = .bfv
  tpos : 0 < l.t.value
  win : ∀ n1 n2, n1 ≤ 16 → n2 ≤ 16 → c02w_Window l n1 n2

theorem c02f_LevelOK.wf {l : Level} {T : Array NTTTables} (h : c02f_LevelOK l T) : l.WF := h.mul.lwf
theorem c02f_LevelOK.lq {l : Level} {T : Array NTTTables} (h : c02f_LevelOK l T) : c07s_LevelQ l := c02x_levelQ h.mul
theorem c02f_LevelOK.qpos {l : Level} {T : Array NTTTables} (h : c02f_LevelOK l T) : 0 < l.tool.baseQ.prod := h.mul.tool.qwf.prod_pos

/-- `ct` encrypts `m`: canonical, coefficient form, invariant noise `‖[t·x]_Q‖∞ ≤ V` with `2V < Q`, message part of the phase ≡ m (mod t) -/
def c02f_Enc (l : Level) (sk : Array Int) (ct : Ct) (m : Nat → Int) (V : Nat) : Prop :=
  CtCanon l ct ∧ ct.ntt = false ∧
  (∀ j, j < l.n → (c07l_v true l.t.value l.tool.baseQ.prod (c02f_ph l sk ct j)).natAbs ≤ V) ∧
  2 * V < l.tool.baseQ.prod ∧
  ∀ j, j < l.n → c02x_msg l.t.value l.tool.baseQ.prod (c02f_ph l sk ct j) ≡ m j [ZMOD l.t.value]

theorem c02f_cf_one {l : Level} (hs : l.scheme = .bfv) {ct : Ct} (h : CtCanon l ct) : ct.cf = 1 := by
  have := h.cf
  unfold c02v_cfOk at this
  rw [hs] at this
  exact this

theorem c02f_step_neg {l : Level} {T : Array NTTTables} (h : c02f_LevelOK l T) {sk : Array Int} (hsk : sk.size = l.n) {a r : Ct}
    {m : Nat → Int} {V : Nat} (ha : c02f_Enc l sk a m V) (hr : ctNegate l a = .ok r) :
    r.polys.size = a.polys.size ∧ c02f_Enc l sk r (fun j => - m j) V := by
  obtain ⟨ca, na, va, hV, ma⟩ := ha
  obtain ⟨cr, hn, hsz, hph⟩ := c02f_negate_ph h.wf h.lq hsk ca hr (sk := sk)
  have key : ∀ j, j < l.n → _ := fun j hj =>
    c02f_noise_lin (t := l.t.value) h.qpos (xa := c02f_ph l sk a j) (xb := c02f_ph l sk a j) (xr := c02f_ph l sk r j) (α := -1) (β := 0)
      (by have := hph j hj; simpa using this) (va j hj) (va j hj) (by simpa using hV)
  refine ⟨hsz, cr, by rw [hn]; exact na, fun j hj => ?_, hV, fun j hj => ?_⟩
  · have := (key j hj).1
    simpa using this
  · have := (key j hj).2
    refine this.trans ?_
    have := (ma j hj).neg
    simpa using this

theorem c02f_step_tr {l : Level} {T : Array NTTTables} (h : c02f_LevelOK l T) {sk : Array Int} (hsk : sk.size = l.n) {a b r : Ct}
    {ma mb : Nat → Int} {Va Vb : Nat} (ha : c02f_Enc l sk a ma Va) (hb : c02f_Enc l sk b mb Vb) (sub : Bool)
    (hV : 2 * (Va + Vb) < l.tool.baseQ.prod) (hr : ctTranslate l a b sub = .ok r) :
    r.polys.size = max a.polys.size b.polys.size ∧
      c02f_Enc l sk r (fun j => if sub then ma j - mb j else ma j + mb j) (Va + Vb) := by
  obtain ⟨ca, na, va, _, ma'⟩ := ha
  obtain ⟨cb, nb, vb, _, mb'⟩ := hb
  obtain ⟨cr, hn, hsz, hph⟩ := c02f_translate_ph h.wf h.lq hsk ca cb (by rw [na, nb])
    (by rw [c02f_cf_one h.bfv ca, c02f_cf_one h.bfv cb]) sub hr (sk := sk)
  have hσ : (if sub then (-1 : Int) else 1).natAbs = 1 := by cases sub <;> simp
  have key : ∀ j, j < l.n → _ := fun j hj =>
    c02f_noise_lin (t := l.t.value) h.qpos (xa := c02f_ph l sk a j) (xb := c02f_ph l sk b j) (xr := c02f_ph l sk r j) (α := 1)
      (β := if sub then -1 else 1) (by have := hph j hj; rwa [← one_mul (c02f_ph l sk a j)] at this) (va j hj) (vb j hj)
      (by rw [hσ]; simpa using hV)
  refine ⟨hsz, cr, by rw [hn]; exact na, fun j hj => ?_, hV, fun j hj => ?_⟩
  · have := (key j hj).1
    rw [hσ] at this
    simpa using this
  · refine (key j hj).2.trans ?_
    have := ((ma' j hj).mul_left 1).add ((mb' j hj).mul_left (if sub then (-1 : Int) else 1))
    refine this.trans ?_
    cases sub
    · simp
    · simp only [if_true]
      have e : (1 : Int) * ma j + -1 * mb j = ma j - mb j := by ring
      rw [e]

theorem c02f_F_eq (N t K S na nb Va Vb : Nat) : bfvMulF N t K S na nb Va Vb = c02x_F N t K S na nb Va Vb := by
  unfold bfvMulF c02x_F
  rw [c02p_geoSum_eq, c02p_geoSum_eq, c02p_geoSum_eq]

theorem c02f_F_mono_S (N t K : Nat) {S S' : Nat} (hS : S ≤ S') (na nb Va Vb : Nat) :
    c02x_F N t K S na nb Va Vb ≤ c02x_F N t K S' na nb Va Vb := by
  unfold c02x_F
  have g1 := c02x_geo_le_S S S' hS na
  have g2 := c02x_geo_le_S S S' hS nb
  have g3 := c02x_geo_le_S S S' hS (na + nb - 1)
  refine Nat.add_le_add (Nat.add_le_add_right (Nat.mul_le_mul_left _ (Nat.add_le_add
    (Nat.mul_le_mul_right _ (Nat.add_le_add_right (Nat.mul_le_mul_left _ (Nat.mul_le_mul_left _ g1)) _))
    (Nat.mul_le_mul_right _ (Nat.add_le_add_right (Nat.mul_le_mul_left _ (Nat.mul_le_mul_left _ g2)) _)))) _)
    (Nat.mul_le_mul_left _ (Nat.mul_le_mul_left _ g3))

theorem c02f_step_mul {l : Level} {T : Array NTTTables} (h : c02f_LevelOK l T) {sk : Array Int} (hsk : sk.size = l.n) {S : Nat}
    (hS : ∑ k ∈ range l.n, (sk.getD k 0).natAbs ≤ S) {a b r : Ct} {ma mb : Nat → Int} {Va Vb : Nat}
    (ha : c02f_Enc l sk a ma Va) (hb : c02f_Enc l sk b mb Vb)
    (hF : bfvMulF l.n l.t.value l.size S a.polys.size b.polys.size Va Vb < 2^33 * l.tool.baseQ.prod)
    (hr : bfvMultiply l T a b = .ok r) :
    r.polys.size = a.polys.size + b.polys.size - 1 ∧
      c02f_Enc l sk r (negMulR l.n ma mb) (bfvMulF l.n l.t.value l.size S a.polys.size b.polys.size Va Vb / 2^34) := by
  obtain ⟨ca, na, va, _, ma'⟩ := ha
  obtain ⟨cb, nb, vb, _, mb'⟩ := hb
  have hm := h.mul
  have hQ := h.qpos
  have hPQ := c02x_prodL hm
  have h16 := bfvMultiply_ok_le16 hr
  obtain ⟨r', hr', cr, hsz, hn⟩ := bfvMultiply_canon hm ca cb na nb h16
  rw [hr] at hr'
  obtain rfl := Except.ok.inj hr'
  have h2a := ca.two_le; have h2b := cb.two_le
  have hwin := h.win a.polys.size b.polys.size ca.le16 cb.le16
  rw [c02f_F_eq] at hF ⊢
  have hnoise := bfvMultiply_noise hm ca.canon cb.canon na nb (by omega) (by omega) hwin hr hsk (Va := Va) (Vb := Vb)
    (by rw [hPQ]; exact va) (by rw [hPQ]; exact vb)
  rw [hPQ] at hnoise
  have key : ∀ c, c < l.n → (c07l_v true l.t.value l.tool.baseQ.prod (c02f_ph l sk r c)).natAbs ≤
        c02x_F l.n l.t.value l.size S a.polys.size b.polys.size Va Vb / 2^34 ∧
      c02x_msg l.t.value l.tool.baseQ.prod (c02f_ph l sk r c) ≡ negMulR l.n ma mb c [ZMOD l.t.value] := by
    intro c hc
    obtain ⟨μ, ν, e1, e2, e3⟩ := hnoise c hc
    have e3' : 2 * 2^33 * ν.natAbs ≤ c02x_F l.n l.t.value l.size S a.polys.size b.polys.size Va Vb :=
      le_trans e3 (c02f_F_mono_S _ _ _ hS _ _ _ _)
    have hν : 2 * ν.natAbs < l.tool.baseQ.prod := by
      have : (2:Nat)^33 = 8589934592 := by norm_num
      rw [this] at e3' hF
      omega
    have huniq := c07s_noise_unique e1 hν
    obtain ⟨er, _⟩ := c02x_split l.t.value hQ (c02f_ph l sk r c)
    have hQ0 : (l.tool.baseQ.prod : Int) ≠ 0 := by exact_mod_cast (by omega : l.tool.baseQ.prod ≠ 0)
    have hmsg : c02x_msg l.t.value l.tool.baseQ.prod (c02f_ph l sk r c) = μ := by
      have e1' : (l.t.value : Int) * c02f_ph l sk r c = l.tool.baseQ.prod * μ + ν := e1
      have huniq' : c07l_v true l.t.value l.tool.baseQ.prod (c02f_ph l sk r c) = ν := huniq
      have : (l.tool.baseQ.prod : Int) * c02x_msg l.t.value l.tool.baseQ.prod (c02f_ph l sk r c) = l.tool.baseQ.prod * μ := by
        rw [huniq'] at er; linarith
      exact Int.eq_of_mul_eq_mul_left hQ0 this
    refine ⟨?_, ?_⟩
    · have huniq' : c07l_v true l.t.value l.tool.baseQ.prod (c02f_ph l sk r c) = ν := huniq
      rw [huniq', Nat.le_div_iff_mul_le (by positivity)]
      have : (2:Nat)^34 = 2 * 2^33 := by norm_num
      rw [this, Nat.mul_comm]; exact e3'
    · rw [hmsg]
      exact e2.trans (c02x_negMulR_modEq l.n _ ma' mb' hc)
  refine ⟨hsz, cr, hn, fun c hc => (key c hc).1, ?_, fun c hc => (key c hc).2⟩
  have := Nat.div_mul_le_self (c02x_F l.n l.t.value l.size S a.polys.size b.polys.size Va Vb) (2^34)
  have e34 : (2:Nat)^34 = 17179869184 := by norm_num
  have e33 : (2:Nat)^33 = 8589934592 := by norm_num
  rw [e34] at this ⊢
  rw [e33] at hF
  omega


/-! ## D. the induction and the theorem -/

def FProg.shadow (n : Nat) (M : Nat → Nat → Int) : FProg → Nat → Int
  | .inp i => M i
  | .neg p => fun j => - p.shadow n M j
  | .add p q => fun j => p.shadow n M j + q.shadow n M j
  | .sub p q => fun j => p.shadow n M j - q.shadow n M j
  | .mul p q => negMulR n (p.shadow n M) (q.shadow n M)

/-- THE INDUCTION (BFV): whenever the model does not refuse and the bookkeeping (which checks `2V < Q` at every node) succeeds, it returns
    the size of the result and a bound on its invariant noise, and the message part of the result's phase is the shadow value modulo t -/
theorem c02f_prog_inv {l : Level} {T : Array NTTTables} (h : c02f_LevelOK l T) {sk : Array Int} (hsk : sk.size = l.n) {S : Nat}
    (hS : ∑ k ∈ range l.n, (sk.getD k 0).natAbs ≤ S) (cts : Nat → Ct) (M : Nat → Nat → Int) (inB : Nat → Nat × Nat) :
    ∀ (prog : FProg) (r : Ct),
      (∀ i ∈ prog.ctInputs, c02f_Enc l sk (cts i) (M i) (inB i).2 ∧ (cts i).polys.size = (inB i).1) →
      prog.eval l T cts = .ok r →
      ∀ s V, prog.noiseUB l.n l.t.value l.size l.tool.baseQ.prod S inB = some (s, V) →
        s = r.polys.size ∧ c02f_Enc l sk r (prog.shadow l.n M) V := by
  intro prog
  induction prog with
  | inp i =>
    intro r hin hev s V hub
    have hr : cts i = r := Except.ok.inj hev
    subst hr
    obtain ⟨he, hsz⟩ := hin i (by simp [FProg.ctInputs])
    rw [FProg.noiseUB] at hub
    have e : inB i = (s, V) := Option.some.inj hub
    rw [e] at he hsz
    exact ⟨hsz.symm, he⟩
  | neg p ih =>
    intro r hin hev s V hub
    rw [FProg.eval] at hev
    obtain ⟨a, hea, hra⟩ := c01p_bind_ok hev
    rw [FProg.noiseUB] at hub
    obtain ⟨hs, ea⟩ := ih a hin hea s V hub
    obtain ⟨hsz, er⟩ := c02f_step_neg h hsk ea hra
    exact ⟨by rw [hs, hsz], er⟩
  | add p q ihp ihq =>
    intro r hin hev s V hub
    rw [FProg.eval] at hev
    obtain ⟨a, hea, hev1⟩ := c01p_bind_ok hev
    obtain ⟨b, heb, hrb⟩ := c01p_bind_ok hev1
    rw [FProg.noiseUB] at hub
    cases hp : p.noiseUB l.n l.t.value l.size l.tool.baseQ.prod S inB with
    | none => rw [hp] at hub; simp at hub
    | some x =>
      cases hq : q.noiseUB l.n l.t.value l.size l.tool.baseQ.prod S inB with
      | none => rw [hp, hq] at hub; simp at hub
      | some y =>
        obtain ⟨s1, b1⟩ := x
        obtain ⟨s2, b2⟩ := y
        rw [hp, hq] at hub
        dsimp only at hub
        split at hub
        · rename_i hV
          have e := Option.some.inj hub
          obtain ⟨hs1, ea⟩ := ihp a (fun i hi => hin i (by simp [FProg.ctInputs, hi])) hea s1 b1 hp
          obtain ⟨hs2, eb⟩ := ihq b (fun i hi => hin i (by simp [FProg.ctInputs, hi])) heb s2 b2 hq
          obtain ⟨hsz, er⟩ := c02f_step_tr h hsk ea eb false hV hrb
          have e1 : s = max s1 s2 := (congrArg Prod.fst e).symm
          have e2 : V = b1 + b2 := (congrArg Prod.snd e).symm
          subst e1 e2
          refine ⟨by rw [hs1, hs2, hsz], ?_⟩
          have er' : c02f_Enc l sk r (fun j => p.shadow l.n M j + q.shadow l.n M j) (b1 + b2) := by simpa using er
          exact er'
        · simp at hub
  | sub p q ihp ihq =>
    intro r hin hev s V hub
    rw [FProg.eval] at hev
    obtain ⟨a, hea, hev1⟩ := c01p_bind_ok hev
    obtain ⟨b, heb, hrb⟩ := c01p_bind_ok hev1
    rw [FProg.noiseUB] at hub
    cases hp : p.noiseUB l.n l.t.value l.size l.tool.baseQ.prod S inB with
    | none => rw [hp] at hub; simp at hub
    | some x =>
      cases hq : q.noiseUB l.n l.t.value l.size l.tool.baseQ.prod S inB with
      | none => rw [hp, hq] at hub; simp at hub
      | some y =>
        obtain ⟨s1, b1⟩ := x
        obtain ⟨s2, b2⟩ := y
        rw [hp, hq] at hub
        dsimp only at hub
        split at hub
        · rename_i hV
          have e := Option.some.inj hub
          obtain ⟨hs1, ea⟩ := ihp a (fun i hi => hin i (by simp [FProg.ctInputs, hi])) hea s1 b1 hp
          obtain ⟨hs2, eb⟩ := ihq b (fun i hi => hin i (by simp [FProg.ctInputs, hi])) heb s2 b2 hq
          obtain ⟨hsz, er⟩ := c02f_step_tr h hsk ea eb true hV hrb
          have e1 : s = max s1 s2 := (congrArg Prod.fst e).symm
          have e2 : V = b1 + b2 := (congrArg Prod.snd e).symm
          subst e1 e2
          refine ⟨by rw [hs1, hs2, hsz], ?_⟩
          have er' : c02f_Enc l sk r (fun j => p.shadow l.n M j - q.shadow l.n M j) (b1 + b2) := by simpa using er
          exact er'
        · simp at hub
  | mul p q ihp ihq =>
    intro r hin hev s V hub
    rw [FProg.eval] at hev
    obtain ⟨a, hea, hev1⟩ := c01p_bind_ok hev
    obtain ⟨b, heb, hrb⟩ := c01p_bind_ok hev1
    rw [FProg.noiseUB] at hub
    cases hp : p.noiseUB l.n l.t.value l.size l.tool.baseQ.prod S inB with
    | none => rw [hp] at hub; simp at hub
    | some x =>
      cases hq : q.noiseUB l.n l.t.value l.size l.tool.baseQ.prod S inB with
      | none => rw [hp, hq] at hub; simp at hub
      | some y =>
        obtain ⟨s1, b1⟩ := x
        obtain ⟨s2, b2⟩ := y
        rw [hp, hq] at hub
        dsimp only at hub
        split at hub
        · rename_i hF
          have e := Option.some.inj hub
          obtain ⟨hs1, ea⟩ := ihp a (fun i hi => hin i (by simp [FProg.ctInputs, hi])) hea s1 b1 hp
          obtain ⟨hs2, eb⟩ := ihq b (fun i hi => hin i (by simp [FProg.ctInputs, hi])) heb s2 b2 hq
          subst hs1 hs2
          obtain ⟨hsz, er⟩ := c02f_step_mul h hsk hS ea eb hF hrb
          have e1 : s = a.polys.size + b.polys.size - 1 := (congrArg Prod.fst e).symm
          have e2 : V = bfvMulF l.n l.t.value l.size S a.polys.size b.polys.size b1 b2 / 2^34 := (congrArg Prod.snd e).symm
          subst e1 e2
          exact ⟨hsz.symm, er⟩
        · simp at hub

/-- decryption below the BEHZ threshold: `2·γ·V + 2·|q|·Q ≤ Q·γ` (i.e. `V ≤ Q·(1/2 − |q|/γ)`, γ the auxiliary prime of `decryptScaleAndRound`) -/
theorem c02f_decrypt_of_enc {l : Level} {T : Array NTTTables} (h : c02f_LevelOK l T) {sk : Array Int} (hsk : sk.size = l.n) {r : Ct}
    {m : Nat → Int} {V : Nat} (he : c02f_Enc l sk r m V)
    (hγ : 2 * l.tool.gamma.value * V + 2 * l.size * l.tool.baseQ.prod ≤ l.tool.baseQ.prod * l.tool.gamma.value) :
    bfvDecrypt l sk r = .ok (Spec.trim (Array.ofFn (n := l.n) fun j => Spec.imod (m j.val) l.t.value)) := by
  obtain ⟨cr, nr, vr, hV, mr⟩ := he
  have hQ := h.qpos
  have hPQ := c01p_prodL_qvals h.dec
  have hr : r = ⟨r.polys, false, r.cf⟩ := by
    cases r with
    | mk polys ntt cf => simp only at nr; subst nr; rfl
  have hν : ∀ j, j < l.n → 2 * (c07l_v true l.t.value l.tool.baseQ.prod (c02f_ph l sk r j)).natAbs < l.tool.baseQ.prod :=
    fun j hj => by have := vr j hj; omega
  rw [hr, bfvDecrypt_eq_spec h.wf h.dec hsk cr.two_le cr.canon r.cf (fun j hj => by
    rw [hPQ]
    obtain ⟨e1, _⟩ := c02x_split l.t.value hQ (c02f_ph l sk r j)
    have hx : (Spec.phase (c01p_qvals l) l.n sk r.polys.toList).getD j 0 = c02f_ph l sk r j := rfl
    rw [hx, exact_below_threshold hQ e1 (hν j hj)]
    have e2 : (l.t.value : Int) * c02f_ph l sk r j - l.tool.baseQ.prod * c02x_msg l.t.value l.tool.baseQ.prod (c02f_ph l sk r j)
        = c07l_v true l.t.value l.tool.baseQ.prod (c02f_ph l sk r j) := by rw [e1]; ring
    rw [e2, Int.abs_eq_natAbs]
    have h1 : 2 * l.tool.gamma.value * (c07l_v true l.t.value l.tool.baseQ.prod (c02f_ph l sk r j)).natAbs
        ≤ 2 * l.tool.gamma.value * V := Nat.mul_le_mul_left _ (vr j hj)
    exact_mod_cast le_trans (Nat.add_le_add_right h1 _) hγ)]
  congr 2
  rw [hPQ]
  have hne := c01q_polys_ne cr.two_le
  have hps := (c01q_phase_general h.lq (sk := sk) hne (fun p hp => (c01q_polys_mem cr.canon p hp).1) (c01q_n_pos h.wf)).1
  apply array_ext_getD (n := l.n) (by simp [Spec.bfvDecode, hps]) (by simp)
  intro j hj
  rw [c02x_decode_msg l.t.value hQ _ (by rw [hps]; exact hj) (hν j hj), c01o_ofFn_getD _ _ _ hj]
  exact c02x_imod_congr (mr j hj)

/-- inputs: a canonical coefficient-form ciphertext whose exact phase splits as `t·x = Q·m + ν` with `‖ν‖∞ ≤ V`, `2V < Q` -/
theorem c02f_enc_of_split {l : Level} {T : Array NTTTables} (h : c02f_LevelOK l T) {sk : Array Int} {ct : Ct} (hc : CtCanon l ct)
    (hn : ct.ntt = false) (m ν : Nat → Int) (V : Nat)
    (hsp : ∀ j, j < l.n → (l.t.value : Int) * c02f_ph l sk ct j = l.tool.baseQ.prod * m j + ν j)
    (hν : ∀ j, j < l.n → (ν j).natAbs ≤ V) (hV : 2 * V < l.tool.baseQ.prod) : c02f_Enc l sk ct m V := by
  have hQ := h.qpos
  have hQ0 : (l.tool.baseQ.prod : Int) ≠ 0 := by exact_mod_cast (by omega : l.tool.baseQ.prod ≠ 0)
  have hu : ∀ j, j < l.n → c07l_v true l.t.value l.tool.baseQ.prod (c02f_ph l sk ct j) = ν j :=
    fun j hj => c07s_noise_unique (hsp j hj) (by have := hν j hj; omega)
  refine ⟨hc, hn, fun j hj => by rw [hu j hj]; exact hν j hj, hV, fun j hj => ?_⟩
  obtain ⟨er, _⟩ := c02x_split l.t.value hQ (c02f_ph l sk ct j)
  have : (l.tool.baseQ.prod : Int) * c02x_msg l.t.value l.tool.baseQ.prod (c02f_ph l sk ct j) = l.tool.baseQ.prod * m j := by
    rw [hu j hj] at er; have := hsp j hj; linarith
  rw [Int.eq_of_mul_eq_mul_left hQ0 this]

/-! ## Property theorem -/

/-- THE PROGRAM-LEVEL HOMOMORPHISM THEOREM FOR BFV, ring operations (PARTIAL with respect to the operation list of C02: plaintext operations,
    modulus switching and relinearisation are not composed for BFV; see notes).  For every BFV level satisfying the constructor bundles, every
    secret with `‖s‖₁ ≤ S`, every program over negate / add / sub / multiply (all size pairs): if the model does not refuse, the bookkeeping
    returns `(s, V)` and `V` is below the BEHZ decryption threshold, then `bfvDecrypt (eval prog)` is the shadow value modulo t. -/
theorem hom_program_bfv_partial {l : Level} {T : Array NTTTables} (h : c02f_LevelOK l T) {sk : Array Int} (hsk : sk.size = l.n) {S : Nat}
    (hS : ∑ k ∈ range l.n, (sk.getD k 0).natAbs ≤ S) (cts : Nat → Ct) (M : Nat → Nat → Int) (inB : Nat → Nat × Nat) (prog : FProg)
    {r : Ct} (hin : ∀ i ∈ prog.ctInputs, c02f_Enc l sk (cts i) (M i) (inB i).2 ∧ (cts i).polys.size = (inB i).1)
    (hev : prog.eval l T cts = .ok r) {s V : Nat}
    (hub : prog.noiseUB l.n l.t.value l.size l.tool.baseQ.prod S inB = some (s, V))
    (hγ : 2 * l.tool.gamma.value * V + 2 * l.size * l.tool.baseQ.prod ≤ l.tool.baseQ.prod * l.tool.gamma.value) :
    bfvDecrypt l sk r = .ok (Spec.trim (Array.ofFn (n := l.n) fun j => Spec.imod (prog.shadow l.n M j.val) l.t.value)) := by
  obtain ⟨_, he⟩ := c02f_prog_inv h hsk hS cts M inB prog r hin hev s V hub
  exact c02f_decrypt_of_enc h hsk he hγ

end HC
