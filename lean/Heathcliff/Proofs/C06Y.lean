/- C06 (task Y): VALIDITY (`ctValid`, the model of `Ciphertext::is_valid_for`) is preserved by every modelled operation.
   Y1  `ctValid` = size 0 or 2..16 ∧ all polynomials canonical ∧ scale flags ∧ correction factor in range (`ctValid_iff`); for non-empty
       ciphertexts `ctValid ↔ CtCanon ∧ scale condition`; the only difference to `CtCanon` is the empty ciphertext.
   Y2  for negate, add / sub (plain and balanced), dyadic / BGV / plain multiply, the three scheme-specific modulus switches, the drop,
       switchKey, relinearize, applyGalois: total on valid operands in the prescribed representation, result valid at the result
       level — including operands of size 0; for BGV the exact condition on the correction factors (units modulo t), with witnesses at a
       COMPOSITE plain modulus that it is needed, and the strong closure (no unit hypothesis) for PRIME t (`*_valid_prime`).
       The accepted BGV range is 1 ≤ cf ≤ t − 1 (`is_metadata_valid_for` after the repair `>` → `>=`; `ctValid_rejects_cf_t`).
   Y3  refusals on representation / scheme / level-count / size mismatches (`evaluator_refusals`), and what the model does not check.
   Y4  size law n1 + n2 − 1 of the products; the model does NOT refuse oversize results (the code does, through `resize`).
   Helper names carry the prefix `c06y_`; the user-facing theorems are at the end under "Property theorems".
   This file holds the GENERAL theorems and does not import `Proofs/NonVac.lean`; the witnesses, findings and non-vacuity examples in the
   constructor-built world of `NonVac` are in `Proofs/C06YW.lean`. -/
import Heathcliff.Proofs.C02V
import Heathcliff.Proofs.C02W
import Heathcliff.Proofs.C05U
import Heathcliff.Proofs.C04T
import Mathlib.Data.Nat.Prime.Basic
namespace HC

/-! ## Y1: `ctValid` versus `CtCanon` -/

/-- the scale part of `Ciphertext::is_valid_for`: scale = 1.0 (BFV / BGV, flag `s1`) resp. scale ≠ 0 (CKKS, flag `s2` = "scale is zero") -/
def c06y_scaleOk (l : Level) (s1 s2 : Bool) : Prop :=
  match l.scheme with
  | .bfv | .bgv => s1 = true
  | .ckks => s2 = false

/-- the propositional content of `ctValid`: size 0 or 2..16, every polynomial canonical at the level, scale condition,
    correction factor in the accepted range -/
structure c06y_Valid (l : Level) (ct : Ct) (s1 s2 : Bool) : Prop where
  size : ct.polys.size = 0 ∨ (2 ≤ ct.polys.size ∧ ct.polys.size ≤ 16)
  canon : c05u_CtCanon l ct
  scale : c06y_scaleOk l s1 s2
  cf : c02v_cfOk l ct.cf

theorem c06y_all_lt (c : Array Nat) (q : Nat) : c.all (· < q) = true ↔ ∀ j, j < c.size → c.getD j 0 < q := by
  rw [Array.all_eq_true]
  constructor
  · intro h j hj
    have := h j hj
    simpa [Array.getD, hj] using this
  · intro h j hj
    have := h j hj
    simpa [Array.getD, hj] using this

theorem c06y_poly_iff (l : Level) (p : RnsPoly) :
    (decide (p.size = l.size ∧
      ((List.range l.size).all fun i => let c := p.getD i #[]; decide (c.size = l.n ∧ c.all (· < (l.q i).value) = true)) = true)) = true
      ↔ RnsCanon l p := by
  simp only [decide_eq_true_eq, List.all_eq_true, List.mem_range, c06y_all_lt]
  unfold RnsCanon
  constructor
  · rintro ⟨h1, h2⟩
    exact ⟨h1, fun i hi => ⟨(h2 i hi).1, fun j hj => (h2 i hi).2 j (by rw [(h2 i hi).1]; exact hj)⟩⟩
  · rintro ⟨h1, h2⟩
    exact ⟨h1, fun i hi => ⟨(h2 i hi).1, fun j hj => (h2 i hi).2 j (by rw [← (h2 i hi).1]; exact hj)⟩⟩

theorem c06y_ctValid_iff (l : Level) (ct : Ct) (s1 s2 : Bool) : ctValid l ct s1 s2 = true ↔ c06y_Valid l ct s1 s2 := by
  unfold ctValid
  simp only [Bool.and_eq_true, decide_eq_true_eq]
  rw [Array.all_eq_true]
  have hp : (∀ (i : Nat) (x : i < ct.polys.size), decide (ct.polys[i].size = l.size ∧
      ((List.range l.size).all fun j => decide ((Array.getD ct.polys[i] j #[]).size = l.n ∧
        ((Array.getD ct.polys[i] j #[]).all fun x => decide (x < (l.q j).value)) = true)) = true) = true)
      ↔ c05u_CtCanon l ct := by
    unfold c05u_CtCanon
    constructor
    · intro h k hk
      have := (c06y_poly_iff l ct.polys[k]).mp (h k hk)
      simpa [Array.getD, hk] using this
    · intro h k hk
      apply (c06y_poly_iff l ct.polys[k]).mpr
      have := h k hk
      simpa [Array.getD, hk] using this
  rw [hp]
  constructor
  · rintro ⟨⟨⟨a, b⟩, c⟩, d⟩
    refine ⟨a, b, ?_, ?_⟩
    · unfold c06y_scaleOk
      cases hs : l.scheme <;> rw [hs] at c <;> simpa using c
    · unfold c02v_cfOk
      cases hs : l.scheme <;> rw [hs] at d <;> simpa using d
  · rintro ⟨a, b, c, d⟩
    refine ⟨⟨⟨a, b⟩, ?_⟩, ?_⟩
    · unfold c06y_scaleOk at c
      cases hs : l.scheme <;> rw [hs] at c <;> simpa using c
    · unfold c02v_cfOk at d
      cases hs : l.scheme <;> rw [hs] at d <;> simpa using d

theorem c06y_valid_parts {l : Level} {ct : Ct} {s1 s2 : Bool} (h : ctValid l ct s1 s2 = true) : c06y_Valid l ct s1 s2 :=
  (c06y_ctValid_iff l ct s1 s2).mp h

theorem c06y_valid_mk {l : Level} {ct : Ct} {s1 s2 : Bool}
    (hsz : ct.polys.size = 0 ∨ (2 ≤ ct.polys.size ∧ ct.polys.size ≤ 16)) (hc : c05u_CtCanon l ct)
    (hs : c06y_scaleOk l s1 s2) (hcf : c02v_cfOk l ct.cf) : ctValid l ct s1 s2 = true :=
  (c06y_ctValid_iff l ct s1 s2).mpr ⟨hsz, hc, hs, hcf⟩

theorem c06y_canon_of_valid {l : Level} {ct : Ct} {s1 s2 : Bool} (h : c06y_Valid l ct s1 s2) (h0 : ct.polys.size ≠ 0) :
    CtCanon l ct :=
  ⟨⟨by have := h.size; omega, by have := h.size; omega, h.canon⟩, h.cf⟩

/-! ## Y2: generic helpers on ciphertexts with any number of canonical polynomials (`c05u_CtCanon`) -/

/-- a polynomial-wise operation that maps canonical polynomials of level `l` to canonical polynomials of level `l'` -/
theorem c06y_polys_map {l l' : Level} (F : RnsPoly → R RnsPoly) {ct : Ct} (hc : c05u_CtCanon l ct)
    (hF : ∀ p, RnsCanon l p → ∃ r, F p = .ok r ∧ RnsCanon l' r) :
    ∃ ps, ct.polys.toList.mapM F = .ok ps ∧ ps.toArray.size = ct.polys.size ∧
      ∀ k, k < ct.polys.size → RnsCanon l' (ps.toArray.getD k #[]) :=
  c05u_polys_mapM F (fun _ y => RnsCanon l' y) ct (fun k hk => hF _ (hc k hk))

theorem c06y_negate_core {l : Level} (hq : c02v_QsWF l) {a : Ct} (ha : c05u_CtCanon l a) :
    ∃ r, ctNegate l a = .ok r ∧ c05u_CtCanon l r ∧ r.polys.size = a.polys.size ∧ r.ntt = a.ntt ∧ r.cf = a.cf := by
  obtain ⟨ps, h1, h2, h3⟩ := c06y_polys_map (l' := l) (fun p => rnsNeg l p) ha (fun p hp => by
    obtain ⟨r, hr, hc, _⟩ := c02v_rnsNeg_spec hq hp
    exact ⟨r, hr, hc⟩)
  refine ⟨{ a with polys := ps.toArray }, ?_, fun k hk => h3 k (by rw [← h2]; exact hk), h2, rfl, rfl⟩
  unfold ctNegate
  rw [h1]; rfl

/-- the per-term step of `ctTranslate`, for operands with any number of canonical polynomials -/
theorem c06y_tr_step {l : Level} (hq : c02v_QsWF l) {a b : Ct} (ha : c05u_CtCanon l a) (hb : c05u_CtCanon l b) (sub : Bool)
    {k : Nat} (hk : k < max a.polys.size b.polys.size) :
    ∃ y, (match c02v_trTerm a.polys.size b.polys.size k with
        | .both i => if sub then rnsSub l (a.polys.getD i #[]) (b.polys.getD i #[]) else rnsAdd l (a.polys.getD i #[]) (b.polys.getD i #[])
        | .left i => pure (a.polys.getD i #[])
        | .right i => if sub then rnsNeg l (b.polys.getD i #[]) else pure (b.polys.getD i #[])) = Except.ok y ∧
      RnsCanon l y := by
  unfold c02v_trTerm
  by_cases h1 : k < min a.polys.size b.polys.size
  · rw [if_pos h1]
    have ca := ha k (by omega)
    have cb := hb k (by omega)
    cases sub
    · obtain ⟨y, h, c, _⟩ := c02v_rnsAdd_spec hq ca cb
      exact ⟨y, by simpa using h, c⟩
    · obtain ⟨y, h, c, _⟩ := c02v_rnsSub_spec hq ca cb
      exact ⟨y, by simpa using h, c⟩
  · rw [if_neg h1]
    by_cases h2 : a.polys.size > b.polys.size
    · rw [if_pos h2]
      exact ⟨_, rfl, ha k (by omega)⟩
    · rw [if_neg h2]
      have cb := hb k (by omega)
      cases sub
      · exact ⟨_, rfl, cb⟩
      · obtain ⟨y, h, c, _⟩ := c02v_rnsNeg_spec hq cb
        exact ⟨y, by simpa using h, c⟩

theorem c06y_translate_core {l : Level} (hq : c02v_QsWF l) {a b : Ct} (ha : c05u_CtCanon l a) (hb : c05u_CtCanon l b)
    (sub : Bool) (hntt : a.ntt = b.ntt) (hcf : a.cf = b.cf) :
    ∃ r, ctTranslate l a b sub = .ok r ∧ c05u_CtCanon l r ∧ r.polys.size = max a.polys.size b.polys.size ∧
      r.ntt = a.ntt ∧ r.cf = a.cf := by
  obtain ⟨ys, hys, hall⟩ := c02v_mapM_ok
    (fun (_ : TrTerm) (y : RnsPoly) => RnsCanon l y)
    (fun t => match t with
      | .both i => if sub then rnsSub l (a.polys.getD i #[]) (b.polys.getD i #[]) else rnsAdd l (a.polys.getD i #[]) (b.polys.getD i #[])
      | .left i => pure (a.polys.getD i #[])
      | .right i => if sub then rnsNeg l (b.polys.getD i #[]) else pure (b.polys.getD i #[]))
    (translateShape a.polys.size b.polys.size) (fun t ht => by
      obtain ⟨k, hk, rfl⟩ := List.mem_iff_getElem.mp ht
      rw [c02v_shape_len] at hk
      have e := c02v_shape_getD a.polys.size b.polys.size hk (.both 0)
      rw [List.getD_eq_getElem?_getD, List.getElem?_eq_getElem (by rw [c02v_shape_len]; exact hk), Option.getD_some] at e
      rw [e]
      exact c06y_tr_step hq ha hb sub hk)
  have hlen : ys.length = max a.polys.size b.polys.size := by rw [← hall.length_eq, c02v_shape_len]
  refine ⟨{ a with polys := ys.toArray }, ?_, ?_, by simp [hlen], rfl, rfl⟩
  · unfold ctTranslate
    rw [if_neg (not_not.mpr hntt), if_neg (not_not.mpr hcf)]
    erw [hys]; rfl
  · intro k hk
    have hk' : k < max a.polys.size b.polys.size := by simpa [hlen] using hk
    have := c02v_forall2_getD hall (.both 0) #[] (k := k) (by rw [c02v_shape_len]; exact hk')
    rw [← c02v_toArray_getD] at this
    exact this

theorem c06y_scale_core {l : Level} (hq : c02v_QsWF l) (f : Nat) {e : Nat} (he : e < 2^64) {a : Ct} (ha : c05u_CtCanon l a) :
    ∃ r, c02v_scale l f a e = .ok r ∧ c05u_CtCanon l r ∧ r.polys.size = a.polys.size ∧ r.ntt = a.ntt ∧ r.cf = f := by
  obtain ⟨ps, h1, h2, h3⟩ := c06y_polys_map (l' := l) (fun p => compsMap l.qs p (fun x m => mulMod x e m)) ha (fun p hp => by
    obtain ⟨r, hr, hc, _⟩ := c02v_compsMap_spec hq he hp
    exact ⟨r, hr, hc⟩)
  refine ⟨{ a with polys := ps.toArray, cf := f }, ?_, fun k hk => h3 k (by rw [← h2]; exact hk), h2, rfl, rfl⟩
  unfold c02v_scale
  rw [h1]; rfl

theorem c06y_size_max {m n : Nat} (hm : m = 0 ∨ (2 ≤ m ∧ m ≤ 16)) (hn : n = 0 ∨ (2 ≤ n ∧ n ≤ 16)) :
    max m n = 0 ∨ (2 ≤ max m n ∧ max m n ≤ 16) := by omega

/-- the balancing branch with the multipliers as data (only their word size is needed for the residue arithmetic) -/
theorem c06y_balanced_core' {l : Level} (hq : c02v_QsWF l) {a b : Ct} (ha : c05u_CtCanon l a)
    (hb : c05u_CtCanon l b) (sub : Bool) (hntt : a.ntt = b.ntt) (hne : a.cf ≠ b.cf)
    {f e1 e2 : Nat} (he1 : e1 < 2^64) (he2 : e2 < 2^64) (hbal : balanceCorrectionFactors a.cf b.cf l.t = .ok (f, e1, e2)) :
    ∃ r, ctTranslateBalanced l a b sub = .ok r ∧ c05u_CtCanon l r ∧ r.polys.size = max a.polys.size b.polys.size ∧
      r.ntt = a.ntt ∧ r.cf = f := by
  obtain ⟨a', ha', ca, sa, na, fa⟩ := c06y_scale_core hq f (e := e1) he1 ha
  obtain ⟨b', hb', cb, sb, nb, fb⟩ := c06y_scale_core hq f (e := e2) he2 hb
  obtain ⟨r, hr, cr, sr, nr, fr⟩ := c06y_translate_core hq ca cb sub (by rw [na, nb, hntt]) (by rw [fa, fb])
  refine ⟨r, ?_, cr, by rw [sr, sa, sb], by rw [nr, na], by rw [fr, fa]⟩
  rw [c02v_balanced_eq l a b sub hne, hbal]
  simp only [bind, Except.bind]
  rw [ha', hb']
  exact hr

theorem c06y_balanced_core {l : Level} (hq : c02v_QsWF l) (ht : l.t.WF) {a b : Ct} (ha : c05u_CtCanon l a)
    (hb : c05u_CtCanon l b) (sub : Bool) (hntt : a.ntt = b.ntt) (hne : a.cf ≠ b.cf) (h1 : a.cf < l.t.value)
    (h2 : b.cf < l.t.value) {f e1 e2 : Nat} (hbal : balanceCorrectionFactors a.cf b.cf l.t = .ok (f, e1, e2)) :
    ∃ r, ctTranslateBalanced l a b sub = .ok r ∧ c05u_CtCanon l r ∧ r.polys.size = max a.polys.size b.polys.size ∧
      r.ntt = a.ntt ∧ r.cf = f := by
  obtain ⟨he1, he2, _, _⟩ := c02v_balance_inv ht h1 h2 hbal
  have htlt := ht.lt
  exact c06y_balanced_core' hq ha hb sub hntt hne (by omega) (by omega) hbal

theorem c06y_bgv_of_cf_ne {l : Level} {f1 f2 : Nat} (h1 : c02v_cfOk l f1) (h2 : c02v_cfOk l f2) (hne : f1 ≠ f2) :
    l.scheme = .bgv ∧ f1 ≠ 0 ∧ f1 < l.t.value ∧ f2 ≠ 0 ∧ f2 < l.t.value := by
  unfold c02v_cfOk at h1 h2
  cases hs : l.scheme <;> rw [hs] at h1 h2 <;> simp only at h1 h2
  · omega
  · omega
  · exact ⟨rfl, h1.1, h1.2, h2.1, h2.2⟩

theorem c06y_cfOk_bgv {l : Level} (hs : l.scheme = .bgv) (f : Nat) : c02v_cfOk l f ↔ f ≠ 0 ∧ f < l.t.value := by
  unfold c02v_cfOk
  rw [hs]

/-- for a PRIME modulus every factor in the accepted range 1 ≤ f < t is a unit -/
theorem c06y_coprime_of_prime {f t : Nat} (hp : Nat.Prime t) (h0 : f ≠ 0) (hlt : f < t) : Nat.Coprime f t :=
  ((Nat.Prime.coprime_iff_not_dvd hp).mpr (Nat.not_dvd_of_pos_of_lt (Nat.pos_of_ne_zero h0) hlt)).symm

theorem c06y_ne_zero_of_coprime {f t : Nat} (h2 : 2 ≤ t) (hc : Nat.Coprime f t) : f ≠ 0 := by
  rintro rfl
  rw [Nat.Coprime, Nat.gcd_zero_left] at hc
  omega

/-! ## levels: the next level of the chain, for validity -/

/-- `l'` is the level below `l` for the purposes of validity: the moduli are the prefix without the last prime (`c05u_IsNext`),
    same scheme, same plain modulus value -/
structure c06y_NextLevel (l l' : Level) : Prop extends c05u_IsNext l l' where
  scheme : l'.scheme = l.scheme
  t : l'.t.value = l.t.value

theorem c06y_next_scale {l l' : Level} (hn : c06y_NextLevel l l') {s1 s2 : Bool} (h : c06y_scaleOk l s1 s2) :
    c06y_scaleOk l' s1 s2 := by
  unfold c06y_scaleOk at h ⊢
  rw [hn.scheme]; exact h

theorem c06y_next_cf {l l' : Level} (hn : c06y_NextLevel l l') {f : Nat} (h : c02v_cfOk l f) : c02v_cfOk l' f := by
  unfold c02v_cfOk at h ⊢
  rw [hn.scheme, hn.t]; exact h

theorem c06y_unit_cancel {cf invt qL t : Nat} (h1 : (invt * qL) % t = 1) (h0 : (cf * invt) % t = 0) : cf % t = 0 := by
  have e : cf % t = ((cf * invt) % t * qL) % t := by
    rw [Nat.mod_mul_mod, Nat.mul_assoc, ← Nat.mul_mod_mod, h1, Nat.mul_one]
  rw [e, h0, Nat.zero_mul, Nat.zero_mod]

/-- the new BGV correction factor `cf·q_L^{-1} mod t` of a factor in [1, t − 1] never vanishes (q_L^{-1} is a unit) -/
theorem c06y_bgv_cf_next {cf invt qL t : Nat} (h1 : (invt * qL) % t = 1) (hc0 : cf ≠ 0) (hct : cf < t) :
    (cf * invt) % t ≠ 0 := by
  intro h0
  have := c06y_unit_cancel h1 h0
  rw [Nat.mod_eq_of_lt hct] at this
  exact hc0 this

theorem c06y_mapM_length {α β : Type} (F : α → R β) : ∀ (xs : List α) (ys : List β), xs.mapM F = .ok ys → ys.length = xs.length
  | [], ys, h => by
    simp [pure, Except.pure] at h
    subst h; rfl
  | x :: xs, ys, h => by
    rw [List.mapM_cons] at h
    simp only [bind, Except.bind] at h
    split at h
    · cases h
    · rename_i y hy
      split at h
      · cases h
      · rename_i ys' hys'
        simp only [pure, Except.pure, Except.ok.injEq] at h
        subst h
        simp [c06y_mapM_length F xs ys' hys']

theorem c06y_scale_ntt {l : Level} {f e : Nat} {c r : Ct} (h : c02v_scale l f c e = .ok r) : r.ntt = c.ntt := by
  unfold c02v_scale at h
  simp only [bind, Except.bind] at h
  split at h
  · cases h
  · simp only [pure, Except.pure, Except.ok.injEq] at h
    subst h; rfl

/-! ## key switching: the ciphertext level inside the key level -/

/-- the ciphertext level `l` consists of the first `l.size` moduli of the key level `kl` (same degree) -/
structure c06y_KeyLevelOf (kl : KeyLevel) (l : Level) : Prop where
  n : kl.n = l.n
  q : ∀ j, j < l.size → (kl.m j).value = (l.q j).value

theorem c06y_canon_to_ks {kl : KeyLevel} {l : Level} (hk : c06y_KeyLevelOf kl l) {p : RnsPoly} (hp : RnsCanon l p) :
    c04t_Canon kl l.size p := by
  intro j hj
  rw [hk.n, hk.q j hj]
  exact hp.2 j hj

/-- the frame of `moddown_spec` / `moddown_spec_bgv` gives canonicity of the updated ciphertext at the level `l` -/
theorem c06y_ks_frame {kl : KeyLevel} {l : Level} (hk : c06y_KeyLevelOf kl l) (hpos : ∀ j, j < l.size → 0 < (kl.m j).value)
    {ct r : Ct} {kcc : Nat} (hc : c05u_CtCanon l ct) (hsz : r.polys.size = ct.polys.size)
    (hrest : ∀ idx, kcc ≤ idx → r.polys.getD idx #[] = ct.polys.getD idx #[])
    (hnew : ∀ k, k < kcc → k < ct.polys.size → (r.polys.getD k #[]).size = l.size ∧ ∀ j, j < l.size →
      ((r.polys.getD k #[]).getD j #[]).size = kl.n ∧
      ∀ i, i < kl.n → ∃ x, ((r.polys.getD k #[]).getD j #[]).getD i 0 = x % (kl.m j).value) :
    c05u_CtCanon l r := by
  intro k hk'
  rw [hsz] at hk'
  by_cases hkk : k < kcc
  · obtain ⟨h1, h2⟩ := hnew k hkk hk'
    refine ⟨h1, fun j hj => ?_⟩
    obtain ⟨h3, h4⟩ := h2 j hj
    refine ⟨by rw [h3, hk.n], fun i hi => ?_⟩
    obtain ⟨x, hx⟩ := h4 i (by rw [hk.n]; exact hi)
    rw [hx, ← hk.q j hj]
    exact Nat.mod_lt _ (hpos j hj)
  · rw [hrest k (by omega)]
    exact hc k hk'

theorem c06y_extract_getD {α : Type} (a : Array α) (d : α) {m k : Nat} (hm : m ≤ a.size) (hk : k < m) :
    (a.extract 0 m).getD k d = a.getD k d := by
  simp [Array.getD, show k < a.size by omega, hk, Nat.min_eq_left hm]

/-- the ciphertext-independent part of `c04t_KSInput`: key level and digit count -/
structure c06y_KLOK (kl : KeyLevel) (dsz : Nat) : Prop where
  hkl : kl.WF
  hsz : 2 ≤ kl.ms.size
  hd : dsz + 1 ≤ kl.ms.size
  hov : ∀ i, i ≤ dsz →
    dsz * (4 * (kl.m (c04t_keyIndex kl dsz i)).value * (kl.m (c04t_keyIndex kl dsz i)).value) < 2^128
  hinv : c04t_InvP kl dsz

/-- the key-only part of `c04t_KSInput`: enough digits, at most two key components (the code always has two), canonical residues -/
structure c06y_KeyOK (kl : KeyLevel) (dsz : Nat) (key : KSKey) : Prop where
  hks : dsz ≤ key.size
  kcc : (key.getD 0 #[]).size ≤ 2
  hkey : ∀ i, i ≤ dsz → c04t_KeyCanonAt kl dsz (key.getD 0 #[]).size key (c04t_keyIndex kl dsz i)

/-- `c04t_KSInput` assembled from its independent parts and the canonicity of ciphertext and target -/
theorem c06y_ksinput {kl : KeyLevel} {l : Level} (hk : c06y_KeyLevelOf kl l) (ho : c06y_KLOK kl l.size) {key : KSKey}
    (hkey : c06y_KeyOK kl l.size key) {ct : Ct} (hc : c05u_CtCanon l ct) (h2 : 2 ≤ ct.polys.size) {target : RnsPoly}
    (ht : RnsCanon l target) : c04t_KSInput kl l.size ct target key :=
  ⟨ho.hkl, ho.hsz, ho.hd, hkey.hks, c06y_canon_to_ks hk ht, hkey.hkey, ho.hov,
    fun k hk' => c06y_canon_to_ks hk (hc k (by have := hkey.kcc; omega)), ho.hinv⟩

/-! ## Galois automorphisms keep polynomials canonical -/

theorem c06y_fold_set_inv (B : Nat) (idx v : Nat → Nat) :
    ∀ (xs : List Nat), (∀ i ∈ xs, v i < B) → ∀ (init : Array Nat), (∀ j, j < init.size → init.getD j 0 < B) →
      (xs.foldl (fun (res : Array Nat) i => res.setIfInBounds (idx i) (v i)) init).size = init.size ∧
      ∀ j, j < init.size → (xs.foldl (fun (res : Array Nat) i => res.setIfInBounds (idx i) (v i)) init).getD j 0 < B
  | [], _, init, hi => ⟨rfl, hi⟩
  | x :: xs, hv, init, hi => by
    have hstep : ∀ j, j < (init.setIfInBounds (idx x) (v x)).size → (init.setIfInBounds (idx x) (v x)).getD j 0 < B := by
      intro j hj
      have hj' : j < init.size := by simpa using hj
      by_cases he : idx x = j
      · subst he
        rw [Array.getD_eq_getD_getElem?, Array.getElem?_setIfInBounds_self_of_lt hj']
        exact hv x (by simp)
      · rw [Array.getD_eq_getD_getElem?, Array.getElem?_setIfInBounds_ne he, ← Array.getD_eq_getD_getElem?]
        exact hi j hj'
    obtain ⟨h1, h2⟩ := c06y_fold_set_inv B idx v xs (fun i hi' => hv i (by simp [hi'])) _ hstep
    rw [List.foldl_cons]
    exact ⟨by rw [h1]; simp, fun j hj => h2 j (by simpa using hj)⟩

theorem c06y_galoisApply_canon {k g : Nat} {m : Modulus} (hm : m.WF) {a : Array Nat}
    (ha : ∀ i, i < 2^k → a.getD i 0 < m.value) :
    ∃ r, galoisApply k a g m = .ok r ∧ r.size = 2^k ∧ ∀ i, i < 2^k → r.getD i 0 < m.value := by
  have h2 := hm.two_le
  rw [c04m_apply_eq, c04m_foldlM_ok hm ha _ (fun i hi => List.mem_range.mp hi)]
  obtain ⟨h1, h3⟩ := c06y_fold_set_inv m.value (fun i => (i * g) % 2^k) (c04m_val k g m a) (List.range (2^k))
    (fun i hi => by
      have hi := List.mem_range.mp hi
      unfold c04m_val
      split
      · exact Nat.mod_lt _ (by omega)
      · exact ha i hi)
    (Array.replicate (2^k) 0) (fun j hj => by
      have hj' : j < 2^k := by simpa using hj
      simp [Array.getD, hj']; omega)
  exact ⟨_, rfl, by rw [h1]; simp, fun i hi => h3 i (by simpa using hi)⟩

theorem c06y_galoisApplyNtt_canon {k g B : Nat} (hg : g % 2 = 1) {a : Array Nat} (ha : ∀ i, i < 2^k → a.getD i 0 < B) :
    (galoisApplyNtt k a g).size = 2^k ∧ ∀ i, i < 2^k → (galoisApplyNtt k a g).getD i 0 < B := by
  have hsz : (galoisTableNtt k g).size = 2^k := by simp [galoisTableNtt]
  unfold galoisApplyNtt
  refine ⟨by rw [Array.size_map, hsz], fun i hi => ?_⟩
  rw [c10i_getD_map_lt _ _ (by rw [hsz]; exact hi)]
  exact ha _ (galoisTable_spec hg hi).2

theorem c06y_foldlM_push_exists {β : Type} (n : Nat) (F : Nat → R β) (P : Nat → β → Prop) (d : β)
    (h : ∀ i, i < n → ∃ y, F i = .ok y ∧ P i y) :
    ∃ r : Array β, (List.range n).foldlM (fun acc i => do let y ← F i; pure (acc.push y)) #[] = .ok r ∧ r.size = n ∧
      ∀ i, i < n → P i (r.getD i d) := by
  let G : Nat → β := fun i => match F i with | .ok y => y | .error _ => d
  have hG : ∀ i, i < n → F i = .ok (G i) ∧ P i (G i) := by
    intro i hi
    obtain ⟨y, hy, hp⟩ := h i hi
    have : G i = y := by show (match F i with | .ok y => y | .error _ => d) = y; rw [hy]
    rw [this]; exact ⟨hy, hp⟩
  refine ⟨_, c01o_foldlM_push (List.range n) F G (fun i hi => (hG i (List.mem_range.mp hi)).1) #[], by simp, fun i hi => ?_⟩
  rw [Array.empty_append, getD_rangeMap' _ _ _ hi]
  exact (hG i hi).2

/-- the component-wise Galois step of `applyGalois` maps canonical polynomials to canonical polynomials -/
theorem c06y_galois_poly {l : Level} (hl : l.WF) (ntt : Bool) {g : Nat} (hg : g % 2 = 1) {p : RnsPoly} (hp : RnsCanon l p) :
    ∃ r, (List.range l.size).foldlM (fun (acc : RnsPoly) i =>
        (if ntt then pure (galoisApplyNtt l.k (p.getD i #[]) g) else galoisApply l.k (p.getD i #[]) g (l.q i)) >>=
          fun c => pure (acc.push c)) #[] = .ok r ∧ RnsCanon l r := by
  obtain ⟨r, hr, sr, pr⟩ := c06y_foldlM_push_exists l.size
    (fun i => if ntt then pure (galoisApplyNtt l.k (p.getD i #[]) g) else galoisApply l.k (p.getD i #[]) g (l.q i))
    (fun i c => c.size = l.n ∧ ∀ j, j < l.n → c.getD j 0 < (l.q i).value) #[] (fun i hi => by
      have hc := hp.2 i hi
      have hn := hl.npow
      cases ntt
      · obtain ⟨r, h1, h2, h3⟩ := c06y_galoisApply_canon (k := l.k) (g := g) ((c01o_level_comp hl hi).2.2.2)
          (a := p.getD i #[]) (fun j hj => hc.2 j (by rw [hn]; exact hj))
        exact ⟨r, by simpa using h1, by rw [h2, hn], fun j hj => h3 j (by rw [← hn]; exact hj)⟩
      · obtain ⟨h2, h3⟩ := c06y_galoisApplyNtt_canon (k := l.k) (B := (l.q i).value) hg (a := p.getD i #[])
          (fun j hj => hc.2 j (by rw [hn]; exact hj))
        exact ⟨_, rfl, by rw [h2, hn], fun j hj => h3 j (by rw [← hn]; exact hj)⟩)
  exact ⟨r, hr, sr, pr⟩

/-- the same, in the shape the `do` block of `applyGalois` elaborates to -/
theorem c06y_galois_poly' {l : Level} (hl : l.WF) (ntt : Bool) {g : Nat} (hg : g % 2 = 1) {p : RnsPoly} (hp : RnsCanon l p) :
    ∃ r, (List.range l.size).foldlM (fun (acc : RnsPoly) i =>
        if ntt = true then (do let c ← (pure (galoisApplyNtt l.k (p.getD i #[]) g) : R (Array Nat)); pure (acc.push c))
        else (do let c ← galoisApply l.k (p.getD i #[]) g (l.q i); pure (acc.push c))) #[] = .ok r ∧ RnsCanon l r := by
  obtain ⟨r, hr, cr⟩ := c06y_galois_poly hl ntt hg hp
  refine ⟨r, ?_, cr⟩
  rw [← hr]
  congr 1
  funext acc i
  split <;> rfl

/-! ## Property theorems -/

/-- Y1: `ctValid` is exactly: size 0 or 2..16, all polynomials canonical, scale condition, correction factor in range -/
theorem ctValid_iff (l : Level) (ct : Ct) (s1 s2 : Bool) : ctValid l ct s1 s2 = true ↔ c06y_Valid l ct s1 s2 :=
  c06y_ctValid_iff l ct s1 s2

/-- Y1, converse of `CtCanon.of_ctValid`: a canonical ciphertext with the right scale flags is valid -/
theorem ctValid_of_CtCanon {l : Level} {ct : Ct} {s1 s2 : Bool} (h : CtCanon l ct) (hs : c06y_scaleOk l s1 s2) :
    ctValid l ct s1 s2 = true :=
  c06y_valid_mk (Or.inr ⟨h.two_le, h.le16⟩) h.canon hs h.cf

/-- Y1: for a NON-EMPTY ciphertext, validity is canonicity plus the scale condition (an iff: the correction-factor ranges of the two
    predicates coincide, for BGV both are 1 ≤ cf ≤ t − 1) -/
theorem ctValid_iff_CtCanon {l : Level} {ct : Ct} {s1 s2 : Bool} (h0 : ct.polys.size ≠ 0) :
    ctValid l ct s1 s2 = true ↔ CtCanon l ct ∧ c06y_scaleOk l s1 s2 :=
  ⟨fun h => ⟨c06y_canon_of_valid (c06y_valid_parts h) h0, (c06y_valid_parts h).scale⟩, fun h => ctValid_of_CtCanon h.1 h.2⟩

/-- Y1, the only difference: the EMPTY ciphertext (size 0) is valid (with the right flags and correction factor) but not `CtCanon` -/
theorem ctValid_empty {l : Level} {ct : Ct} {s1 s2 : Bool} (h0 : ct.polys.size = 0) :
    (ctValid l ct s1 s2 = true ↔ c06y_scaleOk l s1 s2 ∧ c02v_cfOk l ct.cf) ∧ ¬ CtCanon l ct :=
  ⟨⟨fun h => ⟨(c06y_valid_parts h).scale, (c06y_valid_parts h).cf⟩,
    fun h => c06y_valid_mk (Or.inl h0) (fun k hk => by omega) h.1 h.2⟩, fun h => by have := h.two_le; omega⟩

/-- Y1: the polynomial / size / correction-factor part of validity does not depend on the scale flags -/
theorem ctValid_flags {l : Level} {ct : Ct} {s1 s2 s1' s2' : Bool} (h : ctValid l ct s1 s2 = true)
    (hs : c06y_scaleOk l s1' s2') : ctValid l ct s1' s2' = true :=
  let v := c06y_valid_parts h
  c06y_valid_mk v.size v.canon hs v.cf

/-- Y1 (the repaired boundary): for BGV a correction factor EQUAL to `t` (≡ 0, not a unit modulo t) is rejected, whatever the rest of
    the ciphertext is (before the repair of `is_metadata_valid_for` it was accepted: `correction_factor > plain_modulus`) -/
theorem ctValid_rejects_cf_t {l : Level} {ct : Ct} {s1 s2 : Bool} (hs : l.scheme = .bgv) :
    ctValid l { ct with cf := l.t.value } s1 s2 = false := by
  cases h : ctValid l { ct with cf := l.t.value } s1 s2
  · rfl
  · exact absurd ((c06y_cfOk_bgv hs _).mp (c06y_valid_parts h).cf).2 (Nat.lt_irrefl _)

/-- Y1: for BGV the accepted correction factors are exactly 1 ≤ cf ≤ t − 1: replacing the factor of a valid ciphertext by `f` keeps it
    valid iff `f ≠ 0 ∧ f < t` -/
theorem ctValid_bgv_cf_range {l : Level} {ct : Ct} {s1 s2 : Bool} (hs : l.scheme = .bgv) (h : ctValid l ct s1 s2 = true) (f : Nat) :
    ctValid l { ct with cf := f } s1 s2 = true ↔ f ≠ 0 ∧ f < l.t.value :=
  let v := c06y_valid_parts h
  ⟨fun h' => (c06y_cfOk_bgv hs _).mp (c06y_valid_parts h').cf,
   fun hf => c06y_valid_mk v.size v.canon v.scale ((c06y_cfOk_bgv hs _).mpr hf)⟩

/-- Y2 `negate`: total on valid ciphertexts, result valid (same size, representation, correction factor) -/
theorem ctNegate_valid {l : Level} (hq : c02v_QsWF l) {a : Ct} {s1 s2 : Bool} (ha : ctValid l a s1 s2 = true) :
    ∃ r, ctNegate l a = .ok r ∧ ctValid l r s1 s2 = true ∧ r.polys.size = a.polys.size ∧ r.ntt = a.ntt ∧ r.cf = a.cf := by
  have v := c06y_valid_parts ha
  obtain ⟨r, hr, cr, sr, nr, fr⟩ := c06y_negate_core hq v.canon
  exact ⟨r, hr, c06y_valid_mk (by rw [sr]; exact v.size) cr v.scale (by rw [fr]; exact v.cf), sr, nr, fr⟩

theorem ctNegate_preserves_valid {l : Level} (hq : c02v_QsWF l) {a r : Ct} {s1 s2 : Bool} (ha : ctValid l a s1 s2 = true)
    (hr : ctNegate l a = .ok r) : ctValid l r s1 s2 = true := by
  obtain ⟨r', hr', hv, _⟩ := ctNegate_valid hq ha
  rw [hr] at hr'; cases hr'; exact hv

/-- Y2 `add` / `sub` (equal correction factors): total on valid operands in the same representation, result valid, size max -/
theorem ctTranslate_valid {l : Level} (hq : c02v_QsWF l) {a b : Ct} {s1 s2 s1' s2' : Bool} (ha : ctValid l a s1 s2 = true)
    (hb : ctValid l b s1' s2' = true) (sub : Bool) (hntt : a.ntt = b.ntt) (hcf : a.cf = b.cf) :
    ∃ r, ctTranslate l a b sub = .ok r ∧ ctValid l r s1 s2 = true ∧ r.polys.size = max a.polys.size b.polys.size ∧
      r.ntt = a.ntt ∧ r.cf = a.cf := by
  have va := c06y_valid_parts ha
  have vb := c06y_valid_parts hb
  obtain ⟨r, hr, cr, sr, nr, fr⟩ := c06y_translate_core hq va.canon vb.canon sub hntt hcf
  exact ⟨r, hr, c06y_valid_mk (by rw [sr]; exact c06y_size_max va.size vb.size) cr va.scale (by rw [fr]; exact va.cf), sr, nr, fr⟩

theorem ctTranslate_preserves_valid {l : Level} (hq : c02v_QsWF l) {a b r : Ct} {s1 s2 s1' s2' : Bool}
    (ha : ctValid l a s1 s2 = true) (hb : ctValid l b s1' s2' = true) {sub : Bool} (hr : ctTranslate l a b sub = .ok r) :
    ctValid l r s1 s2 = true := by
  have hntt : a.ntt = b.ntt := by
    by_contra h; rw [ctTranslate_refuse_ntt l a b sub h] at hr; cases hr
  have hcf : a.cf = b.cf := by
    by_contra h; rw [ctTranslate_error_cf l a b sub hntt h] at hr; cases hr
  obtain ⟨r', hr', hv, _⟩ := ctTranslate_valid hq ha hb sub hntt hcf
  rw [hr] at hr'; cases hr'; exact hv

/-- Y2 `add` / `sub` with balancing: total on valid operands in the same representation whose correction factors are equal or
    both UNITS modulo t; the result is valid.  (For BFV / CKKS validity forces both factors to be 1, so the unit hypothesis is
    vacuous there; `ht` is only used when the factors differ, which forces BGV.) -/
theorem ctTranslateBalanced_valid {l : Level} (hq : c02v_QsWF l) (ht : l.scheme = .bgv → l.t.WF) {a b : Ct}
    {s1 s2 s1' s2' : Bool} (ha : ctValid l a s1 s2 = true) (hb : ctValid l b s1' s2' = true) (sub : Bool)
    (hntt : a.ntt = b.ntt)
    (hu : a.cf ≠ b.cf → Nat.Coprime a.cf l.t.value ∧ Nat.Coprime b.cf l.t.value) :
    ∃ r, ctTranslateBalanced l a b sub = .ok r ∧ ctValid l r s1 s2 = true ∧
      r.polys.size = max a.polys.size b.polys.size ∧ r.ntt = a.ntt := by
  have va := c06y_valid_parts ha
  have vb := c06y_valid_parts hb
  by_cases hcf : a.cf = b.cf
  · rw [ctTranslateBalanced_same l a b sub hcf]
    obtain ⟨r, hr, hv, sr, nr, _⟩ := ctTranslate_valid hq ha hb sub hntt hcf
    exact ⟨r, hr, hv, sr, nr⟩
  · obtain ⟨hs, _, a1, _, b1⟩ := c06y_bgv_of_cf_ne va.cf vb.cf hcf
    obtain ⟨ca, cb⟩ := hu hcf
    have htw := ht hs
    have h2 := htw.two_le
    have h1' := a1
    have h2' := b1
    obtain ⟨⟨f, e1, e2⟩, hbal⟩ := balance_total htw h1' h2' ca
    obtain ⟨r, hr, cr, sr, nr, fr⟩ := c06y_balanced_core hq htw va.canon vb.canon sub hntt hcf h1' h2' hbal
    obtain ⟨_, _, flt⟩ := balance_spec htw h1' h2' hbal
    obtain ⟨_, _, _, i4⟩ := c02v_balance_inv htw h1' h2' hbal
    have fc := (i4 cb).2
    refine ⟨r, hr, c06y_valid_mk (by rw [sr]; exact c06y_size_max va.size vb.size) cr va.scale ?_, sr, nr⟩
    rw [fr]
    exact (c06y_cfOk_bgv hs f).mpr ⟨c06y_ne_zero_of_coprime h2 fc, flt⟩

/-- Y2, `.ok` form: whenever the balanced add / sub of valid operands succeeds and (in case the factors differ) the SECOND factor
    is a unit, the result is valid (success already certifies that the first factor is a unit) -/
theorem ctTranslateBalanced_preserves_valid {l : Level} (hq : c02v_QsWF l) (ht : l.scheme = .bgv → l.t.WF) {a b r : Ct}
    {s1 s2 s1' s2' : Bool} (ha : ctValid l a s1 s2 = true) (hb : ctValid l b s1' s2' = true) {sub : Bool}
    (hu : a.cf ≠ b.cf → Nat.Coprime b.cf l.t.value) (hr : ctTranslateBalanced l a b sub = .ok r) :
    ctValid l r s1 s2 = true := by
  have va := c06y_valid_parts ha
  have vb := c06y_valid_parts hb
  by_cases hcf : a.cf = b.cf
  · rw [ctTranslateBalanced_same l a b sub hcf] at hr
    exact ctTranslate_preserves_valid hq ha hb hr
  · obtain ⟨hs, _, a1, _, _⟩ := c06y_bgv_of_cf_ne va.cf vb.cf hcf
    have htw := ht hs
    have hlt := htw.lt
    have ca : Nat.Coprime a.cf l.t.value := by
      by_contra hc
      rw [ctTranslateBalanced_refuse htw a b sub hcf (by omega) hc] at hr; cases hr
    have hntt : a.ntt = b.ntt := by
      by_contra hn
      have h1' := a1
      -- the representation check happens inside `ctTranslate`, after the scaling
      obtain ⟨_, _, b0, b1⟩ := c06y_bgv_of_cf_ne va.cf vb.cf hcf |>.2
      have h2' := b1
      obtain ⟨⟨f, e1, e2⟩, hbal⟩ := balance_total htw h1' h2' ca
      obtain ⟨he1, he2, _, _⟩ := c02v_balance_inv htw h1' h2' hbal
      obtain ⟨a', ha', _, _, na, _⟩ := c06y_scale_core hq f (e := e1) (by omega) va.canon
      obtain ⟨b', hb', _, _, nb, _⟩ := c06y_scale_core hq f (e := e2) (by omega) vb.canon
      rw [c02v_balanced_eq l a b sub hcf, hbal] at hr
      simp only [bind, Except.bind] at hr
      rw [ha', hb'] at hr
      change ctTranslate l a' b' sub = .ok r at hr
      rw [ctTranslate_refuse_ntt l a' b' sub (by rw [na, nb]; exact hn)] at hr
      cases hr
    obtain ⟨r', hr', hv, _⟩ := ctTranslateBalanced_valid hq ht ha hb sub hntt (fun h => ⟨ca, hu h⟩)
    rw [hr] at hr'; cases hr'; exact hv

/-- Y2 `add` / `sub` with balancing, PRIME plain modulus: strong closure — total on valid operands in the same representation, the
    result is valid; no unit hypothesis (every accepted factor 1 ≤ cf ≤ t − 1 is a unit modulo a prime) -/
theorem ctTranslateBalanced_valid_prime {l : Level} (hq : c02v_QsWF l) (ht : l.scheme = .bgv → l.t.WF)
    (hp : l.scheme = .bgv → Nat.Prime l.t.value) {a b : Ct} {s1 s2 s1' s2' : Bool} (ha : ctValid l a s1 s2 = true)
    (hb : ctValid l b s1' s2' = true) (sub : Bool) (hntt : a.ntt = b.ntt) :
    ∃ r, ctTranslateBalanced l a b sub = .ok r ∧ ctValid l r s1 s2 = true ∧
      r.polys.size = max a.polys.size b.polys.size ∧ r.ntt = a.ntt :=
  ctTranslateBalanced_valid hq ht ha hb sub hntt (fun hne => by
    obtain ⟨hs, a0, a1, b0, b1⟩ := c06y_bgv_of_cf_ne (c06y_valid_parts ha).cf (c06y_valid_parts hb).cf hne
    exact ⟨c06y_coprime_of_prime (hp hs) a0 a1, c06y_coprime_of_prime (hp hs) b0 b1⟩)

/-- Y3 / Y4 refusal: an empty operand is refused by the dyadic product -/
theorem ctMultiplyDyadic_refuse_empty (l : Level) (a b : Ct) (hna : a.ntt = true) (hnb : b.ntt = true)
    (h0 : a.polys.size = 0 ∨ b.polys.size = 0) : ctMultiplyDyadic l a b = .error .refused := by
  unfold ctMultiplyDyadic
  rw [if_neg (by simp [hna, hnb])]
  simp only []
  rw [if_pos (by omega)]

/-- Y2 + Y4 `multiply` (CKKS product / dyadic step): on valid non-empty NTT-form operands whose product fits
    (`n1 + n2 − 1 ≤ 16`) the model succeeds, and the result has `n1 + n2 − 1` canonical polynomials and is VALID.  (Oversize
    products are refused, as `Ciphertext::resize` does in the code: `ctMultiplyDyadic_valid_or_refused`.) -/
theorem ctMultiplyDyadic_valid {l : Level} (hq : c02v_QsWF l) {a b : Ct} {s1 s2 s1' s2' : Bool} (ha : ctValid l a s1 s2 = true)
    (hb : ctValid l b s1' s2' = true) (hna : a.ntt = true) (hnb : b.ntt = true) (h0a : a.polys.size ≠ 0)
    (h0b : b.polys.size ≠ 0) (h16 : a.polys.size + b.polys.size - 1 ≤ 16) :
    ∃ r, ctMultiplyDyadic l a b = .ok r ∧ r.polys.size = a.polys.size + b.polys.size - 1 ∧ r.ntt = true ∧ r.cf = a.cf ∧
      c05u_CtCanon l r ∧ ctValid l r s1 s2 = true := by
  have va := c06y_valid_parts ha
  have vb := c06y_valid_parts hb
  have ca := c06y_canon_of_valid va h0a
  have cb := c06y_canon_of_valid vb h0b
  obtain ⟨r, hr, sr, nr, fr, cr, _, _⟩ := ctMultiplyDyadic_spec hq ca cb hna hnb h16
  have crr : c05u_CtCanon l r := fun k hk => cr k (by rw [← sr]; exact hk)
  refine ⟨r, hr, sr, nr, fr, crr, ?_⟩
  have := ca.two_le; have := cb.two_le
  exact c06y_valid_mk (Or.inr (by omega)) crr va.scale (by rw [fr]; exact va.cf)

/-- Y4 refusal (size), as in the code (`Ciphertext::resize`: "[Invalid argument] Size invalid."): a product of more than 16
    polynomials is refused, whatever the operands are -/
theorem ctMultiplyDyadic_refuse_oversize (l : Level) (a b : Ct) (h : 16 < a.polys.size + b.polys.size - 1) :
    ctMultiplyDyadic l a b = .error .refused :=
  ctMultiplyDyadic_refuse_size l a b ((ctResizeRefuses_eq_true_iff _).mpr (Or.inr h))

/-- Y2 + Y4, the complete case analysis of `multiply` (CKKS product / dyadic step) on VALID operands: the model either returns a
    VALID result of `n1 + n2 − 1` polynomials or REFUSES (error code `refused`, never another error); it refuses exactly when an
    operand is not in NTT form, an operand is empty, or the product would have more than 16 polynomials.  In particular, for
    non-empty NTT-form valid operands: refused IFF `n1 + n2 − 1 > 16`. -/
theorem ctMultiplyDyadic_valid_or_refused {l : Level} (hq : c02v_QsWF l) {a b : Ct} {s1 s2 s1' s2' : Bool}
    (ha : ctValid l a s1 s2 = true) (hb : ctValid l b s1' s2' = true) :
    ((∃ r, ctMultiplyDyadic l a b = .ok r ∧ ctValid l r s1 s2 = true ∧ r.polys.size = a.polys.size + b.polys.size - 1) ∨
      ctMultiplyDyadic l a b = .error .refused) ∧
    (ctMultiplyDyadic l a b = .error .refused ↔
      (a.ntt = false ∨ b.ntt = false ∨ a.polys.size = 0 ∨ b.polys.size = 0 ∨ 16 < a.polys.size + b.polys.size - 1)) := by
  by_cases hna : a.ntt = true
  swap
  · have h := ctMultiplyDyadic_refuse l a b (Or.inl (by simpa using hna))
    exact ⟨Or.inr h, fun _ => Or.inl (by simpa using hna), fun _ => h⟩
  by_cases hnb : b.ntt = true
  swap
  · have h := ctMultiplyDyadic_refuse l a b (Or.inr (by simpa using hnb))
    exact ⟨Or.inr h, fun _ => Or.inr (Or.inl (by simpa using hnb)), fun _ => h⟩
  by_cases h0 : a.polys.size = 0 ∨ b.polys.size = 0
  · have h := ctMultiplyDyadic_refuse_empty l a b hna hnb h0
    exact ⟨Or.inr h, fun _ => by omega, fun _ => h⟩
  by_cases h16 : 16 < a.polys.size + b.polys.size - 1
  · have h := ctMultiplyDyadic_refuse_oversize l a b h16
    exact ⟨Or.inr h, fun _ => by omega, fun _ => h⟩
  obtain ⟨r, hr, sr, _, _, _, hv⟩ := ctMultiplyDyadic_valid hq ha hb hna hnb (by omega) (by omega) (by omega)
  refine ⟨Or.inl ⟨r, hr, hv, sr⟩, fun h => ?_, fun h => ?_⟩
  · rw [hr] at h; cases h
  · rcases h with h | h | h | h | h
    · rw [hna] at h; cases h
    · rw [hnb] at h; cases h
    · omega
    · omega
    · omega

/-- for non-empty NTT-form valid operands: refused IFF the product would have more than 16 polynomials -/
theorem ctMultiplyDyadic_refused_iff {l : Level} (hq : c02v_QsWF l) {a b : Ct} {s1 s2 s1' s2' : Bool}
    (ha : ctValid l a s1 s2 = true) (hb : ctValid l b s1' s2' = true) (hna : a.ntt = true) (hnb : b.ntt = true)
    (h0a : a.polys.size ≠ 0) (h0b : b.polys.size ≠ 0) :
    ctMultiplyDyadic l a b = .error .refused ↔ 16 < a.polys.size + b.polys.size - 1 := by
  rw [(ctMultiplyDyadic_valid_or_refused hq ha hb).2]
  constructor
  · rintro (h | h | h | h | h)
    · rw [hna] at h; cases h
    · rw [hnb] at h; cases h
    · exact absurd h h0a
    · exact absurd h h0b
    · exact h
  · exact fun h => Or.inr (Or.inr (Or.inr (Or.inr h)))

theorem ctMultiplyDyadic_preserves_valid {l : Level} (hq : c02v_QsWF l) {a b r : Ct} {s1 s2 s1' s2' : Bool}
    (ha : ctValid l a s1 s2 = true) (hb : ctValid l b s1' s2' = true) (hr : ctMultiplyDyadic l a b = .ok r) :
    ctValid l r s1 s2 = true := by
  have h16 := ctMultiplyDyadic_ok_le16 hr
  have hna : a.ntt = true := by
    by_contra h; rw [ctMultiplyDyadic_refuse l a b (Or.inl (by simpa using h))] at hr; cases hr
  have hnb : b.ntt = true := by
    by_contra h; rw [ctMultiplyDyadic_refuse l a b (Or.inr (by simpa using h))] at hr; cases hr
  have h0 : a.polys.size ≠ 0 ∧ b.polys.size ≠ 0 := by
    by_contra h
    rw [ctMultiplyDyadic_refuse_empty l a b hna hnb (by omega)] at hr; cases hr
  obtain ⟨r', hr', _, _, _, _, hv⟩ := ctMultiplyDyadic_valid hq ha hb hna hnb h0.1 h0.2 h16
  rw [hr] at hr'; cases hr'; exact hv

/-- Y4: the size law of the product, from `.ok` alone (no validity needed) -/
theorem ctMultiplyDyadic_size {l : Level} {a b r : Ct} (hr : ctMultiplyDyadic l a b = .ok r) :
    r.polys.size = a.polys.size + b.polys.size - 1 ∧ 1 ≤ a.polys.size ∧ 1 ≤ b.polys.size ∧ a.ntt = true ∧ b.ntt = true ∧
      r.ntt = true ∧ r.cf = a.cf ∧ 2 ≤ r.polys.size ∧ r.polys.size ≤ 16 := by
  have hszok := (ctResizeRefuses_eq_false_iff _).mp (ctMultiplyDyadic_ok_size hr)
  have hna : a.ntt = true := by
    by_contra h; rw [ctMultiplyDyadic_refuse l a b (Or.inl (by simpa using h))] at hr; cases hr
  have hnb : b.ntt = true := by
    by_contra h; rw [ctMultiplyDyadic_refuse l a b (Or.inr (by simpa using h))] at hr; cases hr
  have h0 : a.polys.size ≠ 0 ∧ b.polys.size ≠ 0 := by
    by_contra h
    rw [ctMultiplyDyadic_refuse_empty l a b hna hnb (by omega)] at hr; cases hr
  unfold ctMultiplyDyadic at hr
  rw [if_neg (by simp [hna, hnb])] at hr
  simp only [] at hr
  rw [if_neg (by omega), if_neg (by rw [Bool.not_eq_true, ctResizeRefuses_eq_false_iff]; exact hszok)] at hr
  simp only [bind, Except.bind] at hr
  split at hr
  · cases hr
  · rename_i ps hps
    simp only [pure, Except.pure, Except.ok.injEq] at hr
    subst hr
    have hlen := c06y_mapM_length _ _ _ hps
    simp only [List.length_range] at hlen
    exact ⟨by simp [hlen], by omega, by omega, hna, hnb, hna, rfl, by simp [hlen]; omega, by simp [hlen]; omega⟩

/-- Y4 refusal (size) for `bgv_multiply` -/
theorem bgvMultiply_refuse_oversize (l : Level) (a b : Ct) (h : 16 < a.polys.size + b.polys.size - 1) :
    bgvMultiply l a b = .error .refused := by
  unfold bgvMultiply
  rw [ctMultiplyDyadic_refuse_oversize l a b h]
  rfl

/-- Y2 `bgv_multiply`: on valid non-empty NTT-form BGV operands whose product fits (`n1 + n2 − 1 ≤ 16`; otherwise refused:
    `bgvMultiply_refuse_oversize`) the model succeeds with correction factor `cf_a·cf_b mod t`; the result is valid IF AND ONLY IF
    that product is non-zero modulo t -/
theorem bgvMultiply_valid_iff {l : Level} (hq : c02v_QsWF l) (ht : l.t.WF) (hs : l.scheme = .bgv) {a b : Ct}
    {s1 s2 s1' s2' : Bool} (ha : ctValid l a s1 s2 = true) (hb : ctValid l b s1' s2' = true) (hna : a.ntt = true)
    (hnb : b.ntt = true) (h0a : a.polys.size ≠ 0) (h0b : b.polys.size ≠ 0) (h16 : a.polys.size + b.polys.size - 1 ≤ 16) :
    ∃ r, bgvMultiply l a b = .ok r ∧ r.polys.size = a.polys.size + b.polys.size - 1 ∧ r.ntt = true ∧
      r.cf = (a.cf * b.cf) % l.t.value ∧
      (ctValid l r s1 s2 = true ↔ (a.cf * b.cf) % l.t.value ≠ 0) := by
  have va := c06y_valid_parts ha
  have vb := c06y_valid_parts hb
  obtain ⟨c, hc, sc, nc, fc, cc, hv⟩ := ctMultiplyDyadic_valid hq ha hb hna hnb h0a h0b h16
  have fa := (c06y_cfOk_bgv hs _).mp va.cf
  have fb := (c06y_cfOk_bgv hs _).mp vb.cf
  have htlt := ht.lt
  have h2 := ht.two_le
  refine ⟨_, bgvMultiply_spec ht hc (by omega) (by omega), sc, nc, rfl, fun hr => ?_, fun hr => ?_⟩
  · have v := c06y_valid_parts hr
    have hcf : (a.cf * b.cf) % l.t.value ≠ 0 ∧ (a.cf * b.cf) % l.t.value < l.t.value := (c06y_cfOk_bgv hs _).mp v.cf
    exact hcf.1
  · have vc := c06y_valid_parts hv
    exact c06y_valid_mk vc.size cc va.scale ((c06y_cfOk_bgv hs _).mpr ⟨hr, Nat.mod_lt _ (by omega)⟩)

/-- Y2 `bgv_multiply`, unit correction factors: the result is valid -/
theorem bgvMultiply_valid {l : Level} (hq : c02v_QsWF l) (ht : l.t.WF) (hs : l.scheme = .bgv) {a b : Ct}
    {s1 s2 s1' s2' : Bool} (ha : ctValid l a s1 s2 = true) (hb : ctValid l b s1' s2' = true) (hna : a.ntt = true)
    (hnb : b.ntt = true) (h0a : a.polys.size ≠ 0) (h0b : b.polys.size ≠ 0) (h16 : a.polys.size + b.polys.size - 1 ≤ 16)
    (c1 : Nat.Coprime a.cf l.t.value) (c2 : Nat.Coprime b.cf l.t.value) :
    ∃ r, bgvMultiply l a b = .ok r ∧ ctValid l r s1 s2 = true ∧ r.polys.size = a.polys.size + b.polys.size - 1 ∧
      r.ntt = true ∧ r.cf = (a.cf * b.cf) % l.t.value ∧ Nat.Coprime r.cf l.t.value := by
  obtain ⟨r, hr, sr, nr, fr, hv⟩ := bgvMultiply_valid_iff hq ht hs ha hb hna hnb h0a h0b h16
  have hcop : Nat.Coprime ((a.cf * b.cf) % l.t.value) l.t.value := by
    unfold Nat.Coprime
    rw [← Nat.gcd_rec, Nat.gcd_comm]
    exact Nat.Coprime.mul_left c1 c2
  exact ⟨r, hr, hv.mpr (c06y_ne_zero_of_coprime ht.two_le hcop), sr, nr, fr, by rw [fr]; exact hcop⟩

theorem bgvMultiply_preserves_valid {l : Level} (hq : c02v_QsWF l) (ht : l.t.WF) (hs : l.scheme = .bgv) {a b r : Ct}
    {s1 s2 s1' s2' : Bool} (ha : ctValid l a s1 s2 = true) (hb : ctValid l b s1' s2' = true)
    (hr : bgvMultiply l a b = .ok r)
    (c1 : Nat.Coprime a.cf l.t.value) (c2 : Nat.Coprime b.cf l.t.value) : ctValid l r s1 s2 = true := by
  have h16 : a.polys.size + b.polys.size - 1 ≤ 16 := by
    by_contra h
    rw [bgvMultiply_refuse_oversize l a b (by omega)] at hr; cases hr
  have hna : a.ntt = true := by
    by_contra h; rw [bgvMultiply_refuse l a b (Or.inl (by simpa using h))] at hr; cases hr
  have hnb : b.ntt = true := by
    by_contra h; rw [bgvMultiply_refuse l a b (Or.inr (by simpa using h))] at hr; cases hr
  have h0 : a.polys.size ≠ 0 ∧ b.polys.size ≠ 0 := by
    by_contra h
    unfold bgvMultiply at hr
    rw [ctMultiplyDyadic_refuse_empty l a b hna hnb (by omega)] at hr; cases hr
  obtain ⟨r', hr', hv, _⟩ := bgvMultiply_valid hq ht hs ha hb hna hnb h0.1 h0.2 h16 c1 c2
  rw [hr] at hr'; cases hr'; exact hv

/-- Y2 `bgv_multiply`, PRIME plain modulus: strong closure — valid non-empty NTT-form operands give a valid result (with a unit
    correction factor); no unit hypothesis (every accepted factor 1 ≤ cf ≤ t − 1 is a unit modulo a prime) -/
theorem bgvMultiply_valid_prime {l : Level} (hq : c02v_QsWF l) (ht : l.t.WF) (hp : Nat.Prime l.t.value) (hs : l.scheme = .bgv)
    {a b : Ct} {s1 s2 s1' s2' : Bool} (ha : ctValid l a s1 s2 = true) (hb : ctValid l b s1' s2' = true) (hna : a.ntt = true)
    (hnb : b.ntt = true) (h0a : a.polys.size ≠ 0) (h0b : b.polys.size ≠ 0) (h16 : a.polys.size + b.polys.size - 1 ≤ 16) :
    ∃ r, bgvMultiply l a b = .ok r ∧ ctValid l r s1 s2 = true ∧ r.polys.size = a.polys.size + b.polys.size - 1 ∧
      r.ntt = true ∧ r.cf = (a.cf * b.cf) % l.t.value ∧ Nat.Coprime r.cf l.t.value :=
  have fa := (c06y_cfOk_bgv hs _).mp (c06y_valid_parts ha).cf
  have fb := (c06y_cfOk_bgv hs _).mp (c06y_valid_parts hb).cf
  bgvMultiply_valid hq ht hs ha hb hna hnb h0a h0b h16 (c06y_coprime_of_prime hp fa.1 fa.2) (c06y_coprime_of_prime hp fb.1 fb.2)

/-- Y2 `multiply_plain_ntt`: total on valid NTT-form ciphertexts and canonical plaintexts, result valid -/
theorem ctMultiplyPlainNtt_valid {l : Level} (hq : c02v_QsWF l) {a : Ct} {s1 s2 : Bool} (ha : ctValid l a s1 s2 = true)
    (hna : a.ntt = true) {p : RnsPoly} (hp : RnsCanon l p) :
    ∃ r, ctMultiplyPlainNtt l a p = .ok r ∧ ctValid l r s1 s2 = true ∧ r.polys.size = a.polys.size ∧ r.ntt = true ∧
      r.cf = a.cf := by
  have v := c06y_valid_parts ha
  obtain ⟨ps, h1, h2, h3⟩ := c06y_polys_map (l' := l) (fun c => rnsDyadic l c p) v.canon (fun c hc => by
    obtain ⟨r, hr, hcr, _⟩ := c02v_rnsDyadic_spec hq hc hp
    exact ⟨r, hr, hcr⟩)
  refine ⟨{ a with polys := ps.toArray }, ?_, c06y_valid_mk (by rw [h2]; exact v.size)
    (fun k hk => h3 k (by rw [← h2]; exact hk)) v.scale v.cf, h2, hna, rfl⟩
  unfold ctMultiplyPlainNtt
  rw [if_neg (by simp [hna])]
  erw [h1]; rfl

theorem ctMultiplyPlainNtt_preserves_valid {l : Level} (hq : c02v_QsWF l) {a r : Ct} {s1 s2 : Bool}
    (ha : ctValid l a s1 s2 = true) {p : RnsPoly} (hp : RnsCanon l p) (hr : ctMultiplyPlainNtt l a p = .ok r) :
    ctValid l r s1 s2 = true := by
  have hna : a.ntt = true := by
    by_contra h; rw [ctMultiplyPlainNtt_refuse l a p (by simpa using h)] at hr; cases hr
  obtain ⟨r', hr', hv, _⟩ := ctMultiplyPlainNtt_valid hq ha hna hp
  rw [hr] at hr'; cases hr'; exact hv

/-! ### the unit hypothesis on BGV correction factors is needed when t is COMPOSITE: validity (1 ≤ cf ≤ t − 1) does not imply that the
      factor is a unit.  Witnesses at the level `c02v_exLevel4` (q = 17·17, N = 2, t = 4; the non-unit factor is 2) -/

/-- `c02v_exCt2` with the correction factor replaced by `f` -/
def c06y_exCt (f : Nat) : Ct := { c02v_exCt2 with cf := f }

theorem c06y_exCt_valid (f : Nat) (h0 : f ≠ 0) (h4 : f < 4) : ctValid c02v_exLevel4 (c06y_exCt f) true false = true :=
  ctValid_of_CtCanon ⟨⟨c02v_exCt2_canon4.two_le, c02v_exCt2_canon4.le16, c02v_exCt2_canon4.canon⟩, ⟨h0, h4⟩⟩ (rfl : true = true)

/-- FINDING (validity predicate, composite t): `bgv_multiply` of two VALID ciphertexts (t = 4, correction factors 2 and 2, in the accepted
    range but not units) succeeds and returns a ciphertext with correction factor 0, which is NOT valid: validity is not preserved
    without the unit hypothesis when t is composite (for prime t it is: `bgvMultiply_valid_prime`) -/
theorem bgvMultiply_valid_needs_unit :
    ∃ a b r, ctValid c02v_exLevel4 a true false = true ∧ ctValid c02v_exLevel4 b true false = true ∧
      bgvMultiply c02v_exLevel4 a b = .ok r ∧ r.cf = 0 ∧ ctValid c02v_exLevel4 r true false = false := by
  have ha := c06y_exCt_valid 2 (by decide) (by decide)
  obtain ⟨r, hr, _, _, fr, hv⟩ := bgvMultiply_valid_iff c02v_exLevel4_qsWF c02v_exT4_wf rfl ha ha rfl rfl (by decide) (by decide)
    (by decide)
  have f0 : r.cf = 0 := fr
  refine ⟨_, _, r, ha, ha, hr, f0, ?_⟩
  cases h : ctValid c02v_exLevel4 r true false
  · rfl
  · exact absurd f0 ((c06y_cfOk_bgv rfl _).mp (c06y_valid_parts h).cf).1

/-- FINDING (composite t): a VALID first operand (t = 4, correction factor 2) is REFUSED by the balanced add / sub ("accepted by any
    later operation" fails for the non-unit factors that `ctValid` admits when t is composite) -/
theorem ctTranslateBalanced_refuses_valid (sub : Bool) :
    ∃ a b, ctValid c02v_exLevel4 a true false = true ∧ ctValid c02v_exLevel4 b true false = true ∧ a.ntt = b.ntt ∧
      ctTranslateBalanced c02v_exLevel4 a b sub = .error .refused :=
  ⟨c06y_exCt 2, c06y_exCt 3, c06y_exCt_valid 2 (by decide) (by decide), c06y_exCt_valid 3 (by decide) (by decide), rfl,
    ctTranslateBalanced_refuse c02v_exT4_wf _ _ sub (by decide) (by decide) (by decide)⟩

/-- FINDING (composite t): with a unit first factor (1) and a VALID non-unit second factor (2, t = 4) the balanced add / sub SUCCEEDS and
    the result is valid, but its correction factor (2) is again not a unit: validity does not imply that the BGV factor is a unit.
    (Before the repair the non-unit factor `t` itself was accepted and this operation returned the INVALID factor 0; with the
    accepted range 1 ≤ cf ≤ t − 1 no input with result factor 0 was found for t < 130.) -/
theorem ctTranslateBalanced_valid_nonunit_result (sub : Bool) :
    ∃ a b r, ctValid c02v_exLevel4 a true false = true ∧ ctValid c02v_exLevel4 b true false = true ∧
      ctTranslateBalanced c02v_exLevel4 a b sub = .ok r ∧ ctValid c02v_exLevel4 r true false = true ∧
      ¬ Nat.Coprime r.cf c02v_exLevel4.t.value := by
  have ha := c06y_exCt_valid 1 (by decide) (by decide)
  have hb := c06y_exCt_valid 2 (by decide) (by decide)
  have hbal : balanceCorrectionFactors (c06y_exCt 1).cf (c06y_exCt 2).cf c02v_exLevel4.t = .ok (2, 2, 1) := by decide
  obtain ⟨r, hr, cr, sr, _, fr⟩ := c06y_balanced_core' c02v_exLevel4_qsWF (c06y_valid_parts ha).canon (c06y_valid_parts hb).canon
    sub rfl (by decide) (by decide) (by decide) hbal
  refine ⟨_, _, r, ha, hb, hr, c06y_valid_mk (Or.inr ?_) cr (rfl : true = true) ?_, ?_⟩
  · rw [sr]; decide
  · rw [fr]; exact ⟨by decide, by decide⟩
  · rw [fr]; decide

/-! ### modulus switching: the result is valid at the NEXT level -/

/-- Y2 `mod_switch_drop_to_next` (CKKS `mod_switch_to_next`, also the plain drop): total on valid ciphertexts at a level with ≥ 2
    moduli (CKKS: NTT form), the result is valid at the next level -/
theorem modSwitchDropNext_valid {l l' : Level} (hn : c06y_NextLevel l l') (h2 : 2 ≤ l.size) {ct : Ct} {s1 s2 : Bool}
    (hv : ctValid l ct s1 s2 = true) (hs : l.scheme = .ckks → ct.ntt = true) :
    ∃ r, modSwitchDropNext l ct = .ok r ∧ ctValid l' r s1 s2 = true ∧ r.polys.size = ct.polys.size ∧ r.ntt = ct.ntt ∧
      r.cf = ct.cf := by
  have v := c06y_valid_parts hv
  obtain ⟨r, hr, sr, nr, fr, _, cr⟩ := modSwitchDropNext_spec h2 hs v.canon
  exact ⟨r, hr, c06y_valid_mk (by rw [sr]; exact v.size) (cr l' hn.toc05u_IsNext) (c06y_next_scale hn v.scale)
    (by rw [fr]; exact c06y_next_cf hn v.cf), sr, nr, fr⟩

theorem modSwitchDropNext_preserves_valid {l l' : Level} (hn : c06y_NextLevel l l') {ct r : Ct} {s1 s2 : Bool}
    (hv : ctValid l ct s1 s2 = true) (hr : modSwitchDropNext l ct = .ok r) : ctValid l' r s1 s2 = true := by
  have h2 : 2 ≤ l.size := by
    by_contra h; rw [(modSwitchDropNext_refusals ct).1 (by omega)] at hr; cases hr
  have hs : l.scheme = .ckks → ct.ntt = true := by
    intro hs
    by_contra h; rw [(modSwitchDropNext_refusals ct).2 hs (by simpa using h)] at hr; cases hr
  obtain ⟨r', hr', hv', _⟩ := modSwitchDropNext_valid hn h2 hv hs
  rw [hr] at hr'; cases hr'; exact hv'

/-- Y2 BFV `mod_switch_to_next`: total on valid coefficient-form ciphertexts, the result is valid at the next level -/
theorem modSwitchScaleNext_bfv_valid {l l' : Level} (h : c05u_ToolOK l) (hn : c06y_NextLevel l l') (h2 : 2 ≤ l.size)
    (hs : l.scheme = .bfv) {ct : Ct} {s1 s2 : Bool} (hv : ctValid l ct s1 s2 = true) (hntt : ct.ntt = false) :
    ∃ r, modSwitchScaleNext l ct = .ok r ∧ ctValid l' r s1 s2 = true ∧ r.polys.size = ct.polys.size ∧ r.ntt = false ∧
      r.cf = ct.cf := by
  have v := c06y_valid_parts hv
  obtain ⟨r, hr, sr, nr, fr, dr⟩ := modSwitchScaleNext_bfv_spec h h2 hs hntt v.canon
  refine ⟨r, hr, c06y_valid_mk (by rw [sr]; exact v.size) (fun k hk => ?_) (c06y_next_scale hn v.scale)
    (by rw [fr]; exact c06y_next_cf hn v.cf), sr, nr, fr⟩
  rw [sr] at hk
  exact (modSwitchScaleNext_next_canon h hn.toc05u_IsNext).1 (v.canon k hk) (dr k hk)

/-- Y2 CKKS `rescale_to_next`: total on valid NTT-form ciphertexts, the result is valid at the next level (for the flags of the
    new scale use `ctValid_flags`) -/
theorem modSwitchScaleNext_ckks_valid {l l' : Level} (hl : l.WF) (h : c05u_ToolOK l) (hn : c06y_NextLevel l l')
    (h2 : 2 ≤ l.size) (hs : l.scheme = .ckks) {ct : Ct} {s1 s2 : Bool} (hv : ctValid l ct s1 s2 = true)
    (hntt : ct.ntt = true) :
    ∃ r, modSwitchScaleNext l ct = .ok r ∧ ctValid l' r s1 s2 = true ∧ r.polys.size = ct.polys.size ∧ r.ntt = true ∧
      r.cf = ct.cf := by
  have v := c06y_valid_parts hv
  obtain ⟨r, hr, sr, nr, fr, dr⟩ := modSwitchScaleNext_ckks_spec hl h h2 hs hntt v.canon
  refine ⟨r, hr, c06y_valid_mk (by rw [sr]; exact v.size) (fun k hk => ?_) (c06y_next_scale hn v.scale)
    (by rw [fr]; exact c06y_next_cf hn v.cf), sr, nr, fr⟩
  rw [sr] at hk
  exact (modSwitchScaleNext_next_canon (p := ct.polys.getD k #[]) h hn.toc05u_IsNext).2.1 (dr k hk)

/-- Y2 BGV `mod_switch_to_next`, strong closure: total on valid NTT-form ciphertexts; the polynomials are canonical at the next level,
    the new correction factor is `cf·q_L^{-1} mod t`, and the result is VALID at the next level — for every valid operand, whatever t is
    (q_L^{-1} is a unit modulo t, so a factor in [1, t − 1] cannot be mapped to 0) -/
theorem modSwitchScaleNext_bgv_valid_closed {l l' : Level} (hl : l.WF) (h : c05u_ToolOK l) (hg : c05u_BgvOK l)
    (hn : c06y_NextLevel l l') (h2 : 2 ≤ l.size) (hs : l.scheme = .bgv) {ct : Ct} {s1 s2 : Bool}
    (hv : ctValid l ct s1 s2 = true) (hntt : ct.ntt = true) :
    ∃ r, modSwitchScaleNext l ct = .ok r ∧ ctValid l' r s1 s2 = true ∧ r.polys.size = ct.polys.size ∧ r.ntt = true ∧
      r.cf = (ct.cf * l.tool.invQLastModT) % l.t.value ∧ c05u_CtCanon l' r := by
  have v := c06y_valid_parts hv
  have fc := (c06y_cfOk_bgv hs _).mp v.cf
  have htlt := hg.twf.lt
  have ht2 := hg.twf.two_le
  have hs' : l'.scheme = .bgv := by rw [hn.scheme, hs]
  obtain ⟨r, hr, sr, nr, fr, dr⟩ := modSwitchScaleNext_bgv_spec hl h hg h2 hs hntt (by omega) v.canon
  have cr : c05u_CtCanon l' r := fun k hk => by
    rw [sr] at hk
    exact (modSwitchScaleNext_next_canon (p := ct.polys.getD k #[]) h hn.toc05u_IsNext).2.2 (dr k hk)
  have key := c06y_bgv_cf_next hg.invt fc.1 fc.2
  refine ⟨r, hr, ?_, sr, nr, fr, cr⟩
  refine c06y_valid_mk (by rw [sr]; exact v.size) cr (c06y_next_scale hn v.scale) ((c06y_cfOk_bgv hs' _).mpr ?_)
  rw [fr, hn.t]
  exact ⟨key, Nat.mod_lt _ (by omega)⟩

/-- Y2 BGV `mod_switch_to_next`: total on valid NTT-form ciphertexts; the polynomials are canonical at the next level, the new
    correction factor is `cf·q_L^{-1} mod t`, and the result is valid IF AND ONLY IF `cf ≠ t`.  (Statement kept from before the repair
    of the validity predicate; since `ctValid` now rejects `cf = t`, both sides hold for every valid operand:
    `modSwitchScaleNext_bgv_valid_closed`.) -/
theorem modSwitchScaleNext_bgv_valid_iff {l l' : Level} (hl : l.WF) (h : c05u_ToolOK l) (hg : c05u_BgvOK l)
    (hn : c06y_NextLevel l l') (h2 : 2 ≤ l.size) (hs : l.scheme = .bgv) {ct : Ct} {s1 s2 : Bool}
    (hv : ctValid l ct s1 s2 = true) (hntt : ct.ntt = true) :
    ∃ r, modSwitchScaleNext l ct = .ok r ∧ r.polys.size = ct.polys.size ∧ r.ntt = true ∧
      r.cf = (ct.cf * l.tool.invQLastModT) % l.t.value ∧ c05u_CtCanon l' r ∧
      (ctValid l' r s1 s2 = true ↔ ct.cf ≠ l.t.value) := by
  obtain ⟨r, hr, hv', sr, nr, fr, cr⟩ := modSwitchScaleNext_bgv_valid_closed hl h hg hn h2 hs hv hntt
  have fc := (c06y_cfOk_bgv hs _).mp (c06y_valid_parts hv).cf
  exact ⟨r, hr, sr, nr, fr, cr, fun _ => Nat.ne_of_lt fc.2, fun _ => hv'⟩

theorem modSwitchScaleNext_bgv_valid {l l' : Level} (hl : l.WF) (h : c05u_ToolOK l) (hg : c05u_BgvOK l)
    (hn : c06y_NextLevel l l') (h2 : 2 ≤ l.size) (hs : l.scheme = .bgv) {ct : Ct} {s1 s2 : Bool}
    (hv : ctValid l ct s1 s2 = true) (hntt : ct.ntt = true) (_hu : Nat.Coprime ct.cf l.t.value) :
    ∃ r, modSwitchScaleNext l ct = .ok r ∧ ctValid l' r s1 s2 = true ∧ r.polys.size = ct.polys.size ∧ r.ntt = true ∧
      r.cf = (ct.cf * l.tool.invQLastModT) % l.t.value := by
  obtain ⟨r, hr, hv', sr, nr, fr, _⟩ := modSwitchScaleNext_bgv_valid_closed hl h hg hn h2 hs hv hntt
  exact ⟨r, hr, hv', sr, nr, fr⟩

/-- Y2 BGV `mod_switch_to_next`, PRIME plain modulus: valid operand ⇒ valid result at the next level, and the new correction factor
    is again a unit (no unit hypothesis on the operand) -/
theorem modSwitchScaleNext_bgv_valid_prime {l l' : Level} (hl : l.WF) (h : c05u_ToolOK l) (hg : c05u_BgvOK l)
    (hn : c06y_NextLevel l l') (h2 : 2 ≤ l.size) (hs : l.scheme = .bgv) (hp : Nat.Prime l.t.value) {ct : Ct} {s1 s2 : Bool}
    (hv : ctValid l ct s1 s2 = true) (hntt : ct.ntt = true) :
    ∃ r, modSwitchScaleNext l ct = .ok r ∧ ctValid l' r s1 s2 = true ∧ r.polys.size = ct.polys.size ∧ r.ntt = true ∧
      r.cf = (ct.cf * l.tool.invQLastModT) % l.t.value ∧ Nat.Coprime r.cf l'.t.value := by
  obtain ⟨r, hr, hv', sr, nr, fr, _⟩ := modSwitchScaleNext_bgv_valid_closed hl h hg hn h2 hs hv hntt
  have hs' : l'.scheme = .bgv := by rw [hn.scheme, hs]
  have fc := (c06y_cfOk_bgv hs' _).mp (c06y_valid_parts hv').cf
  exact ⟨r, hr, hv', sr, nr, fr, c06y_coprime_of_prime (by rw [hn.t]; exact hp) fc.1 fc.2⟩

/-- Y2, `.ok` form for all three schemes: whenever the scheme-specific switch of a valid ciphertext succeeds (and, for BGV, the
    correction factor is not t), the result is valid at the next level.  `Level.WF` is needed for the NTT-form schemes only. -/
theorem modSwitchScaleNext_preserves_valid {l l' : Level} (hl : l.scheme ≠ .bfv → l.WF) (h : c05u_ToolOK l)
    (hg : l.scheme = .bgv → c05u_BgvOK l) (hn : c06y_NextLevel l l') {ct r : Ct} {s1 s2 : Bool}
    (hv : ctValid l ct s1 s2 = true) (hcf : l.scheme = .bgv → ct.cf ≠ l.t.value)
    (hr : modSwitchScaleNext l ct = .ok r) : ctValid l' r s1 s2 = true := by
  have h2 : 2 ≤ l.size := by
    by_contra h'; rw [(modSwitchScaleNext_refusals ct).1 (by omega)] at hr; cases hr
  cases hs : l.scheme
  · have hntt : ct.ntt = false := by
      by_contra h'; rw [(modSwitchScaleNext_refusals ct).2.1 hs (by simpa using h')] at hr; cases hr
    obtain ⟨r', hr', hv', _⟩ := modSwitchScaleNext_bfv_valid h hn h2 hs hv hntt
    rw [hr] at hr'; cases hr'; exact hv'
  · have hntt : ct.ntt = true := by
      by_contra h'; rw [(modSwitchScaleNext_refusals ct).2.2.1 hs (by simpa using h')] at hr; cases hr
    obtain ⟨r', hr', hv', _⟩ := modSwitchScaleNext_ckks_valid (hl (by rw [hs]; decide)) h hn h2 hs hv hntt
    rw [hr] at hr'; cases hr'; exact hv'
  · have hntt : ct.ntt = true := by
      by_contra h'; rw [(modSwitchScaleNext_refusals ct).2.2.2 hs (by simpa using h')] at hr; cases hr
    obtain ⟨r', hr', _, _, _, _, hiff⟩ := modSwitchScaleNext_bgv_valid_iff (hl (by rw [hs]; decide)) h (hg hs) hn h2 hs hv hntt
    rw [hr] at hr'; cases hr'; exact hiff.mpr (hcf hs)

/-- Y2, `.ok` form for all three schemes, strong closure: whenever the scheme-specific switch of a valid ciphertext succeeds, the result is
    valid at the next level (no side condition on the BGV correction factor: `ctValid` rejects `cf = t`) -/
theorem modSwitchScaleNext_preserves_valid_closed {l l' : Level} (hl : l.scheme ≠ .bfv → l.WF) (h : c05u_ToolOK l)
    (hg : l.scheme = .bgv → c05u_BgvOK l) (hn : c06y_NextLevel l l') {ct r : Ct} {s1 s2 : Bool}
    (hv : ctValid l ct s1 s2 = true) (hr : modSwitchScaleNext l ct = .ok r) : ctValid l' r s1 s2 = true :=
  modSwitchScaleNext_preserves_valid hl h hg hn hv
    (fun hs => Nat.ne_of_lt ((c06y_cfOk_bgv hs _).mp (c06y_valid_parts hv).cf).2) hr

/-! ### Y3: refusals — metadata the operations inspect -/

/-- Y3: operands in different representations are never accepted by the balanced add / sub either (on the balancing path the
    error is the first one met: a failed balancing, or the representation check after the scaling) -/
theorem ctTranslateBalanced_refuse_ntt (l : Level) (a b : Ct) (sub : Bool) (h : a.ntt ≠ b.ntt) :
    ∃ e, ctTranslateBalanced l a b sub = .error e := by
  by_cases hcf : a.cf = b.cf
  · rw [ctTranslateBalanced_same l a b sub hcf, ctTranslate_refuse_ntt l a b sub h]
    exact ⟨_, rfl⟩
  · rw [c02v_balanced_eq l a b sub hcf]
    cases hb : balanceCorrectionFactors a.cf b.cf l.t with
    | error e => exact ⟨e, rfl⟩
    | ok r =>
      simp only [bind, Except.bind]
      cases ha' : c02v_scale l r.1 a r.2.1 with
      | error e => exact ⟨e, rfl⟩
      | ok a' =>
        cases hb' : c02v_scale l r.1 b r.2.2 with
        | error e => exact ⟨e, rfl⟩
        | ok b' =>
          show ∃ e, ctTranslate l a' b' sub = .error e
          rw [ctTranslate_refuse_ntt l a' b' sub (by rw [c06y_scale_ntt ha', c06y_scale_ntt hb']; exact h)]
          exact ⟨_, rfl⟩

/-- Y3: `bfv_multiply` refuses NTT-form operands -/
theorem c06y_bfvMultiply_refuse_ntt (l : Level) (bsk : Array NTTTables) (a b : Ct) (h : a.ntt = true ∨ b.ntt = true) :
    bfvMultiply l bsk a b = .error .refused := by
  unfold bfvMultiply
  rw [if_pos h]

/-- Y3, summary of the representation / scheme / level / size refusals of the modelled operations (a ciphertext of the model has
    no level tag: "operands at different levels" is not representable in the single-level signatures `op (l : Level) a b`;
    representation and scheme mismatches are, and they are refused) -/
theorem evaluator_refusals (l : Level) (a b : Ct) (sub : Bool) (p : RnsPoly) :
    (a.ntt ≠ b.ntt → ctTranslate l a b sub = .error .refused) ∧
    (a.ntt ≠ b.ntt → ∃ e, ctTranslateBalanced l a b sub = .error e) ∧
    (a.ntt = false ∨ b.ntt = false → ctMultiplyDyadic l a b = .error .refused) ∧
    (a.ntt = false ∨ b.ntt = false → bgvMultiply l a b = .error .refused) ∧
    (a.ntt = true → b.ntt = true → a.polys.size = 0 ∨ b.polys.size = 0 → ctMultiplyDyadic l a b = .error .refused) ∧
    (a.ntt = false → ctMultiplyPlainNtt l a p = .error .refused) ∧
    (∀ bsk, a.ntt = true ∨ b.ntt = true → bfvMultiply l bsk a b = .error .refused) ∧
    (l.size < 2 → modSwitchScaleNext l a = .error .refused) ∧
    (l.scheme = .bfv → a.ntt = true → modSwitchScaleNext l a = .error .refused) ∧
    (l.scheme = .ckks → a.ntt = false → modSwitchScaleNext l a = .error .refused) ∧
    (l.scheme = .bgv → a.ntt = false → modSwitchScaleNext l a = .error .refused) ∧
    (l.size < 2 → modSwitchDropNext l a = .error .refused) ∧
    (l.scheme = .ckks → a.ntt = false → modSwitchDropNext l a = .error .refused) :=
  ⟨ctTranslate_refuse_ntt l a b sub, ctTranslateBalanced_refuse_ntt l a b sub, ctMultiplyDyadic_refuse l a b,
    bgvMultiply_refuse l a b, ctMultiplyDyadic_refuse_empty l a b, ctMultiplyPlainNtt_refuse l a p,
    fun bsk => c06y_bfvMultiply_refuse_ntt l bsk a b,
    (modSwitchScaleNext_refusals a).1, (modSwitchScaleNext_refusals a).2.1, (modSwitchScaleNext_refusals a).2.2.1,
    (modSwitchScaleNext_refusals a).2.2.2, (modSwitchDropNext_refusals a).1, (modSwitchDropNext_refusals a).2⟩

/-- Y3, what the model does NOT do: the operations of the model are the bodies AFTER `check_ciphertext`; they do not re-run the
    validator.  E.g. `ctNegate` of a (canonical) ciphertext with the invalid correction factor 0 succeeds and returns an invalid
    ciphertext — the refusal of invalid operands is `ctValid` itself (`Evaluator::check_ciphertext` panics iff it is false). -/
theorem ctNegate_does_not_validate {l : Level} (hq : c02v_QsWF l) (hs : l.scheme = .bgv) {a : Ct} {s1 s2 : Bool}
    (ha : ctValid l a s1 s2 = true) :
    ctValid l { a with cf := 0 } s1 s2 = false ∧
      ∃ r, ctNegate l { a with cf := 0 } = .ok r ∧ ctValid l r s1 s2 = false := by
  have hbad : ∀ c : Ct, c.cf = 0 → ctValid l c s1 s2 = false := by
    intro c hc
    cases h : ctValid l c s1 s2
    · rfl
    · exact absurd hc ((c06y_cfOk_bgv hs _).mp (c06y_valid_parts h).cf).1
  obtain ⟨r, hr, _, _, _, fr⟩ := c06y_negate_core (a := { a with cf := 0 }) hq (c06y_valid_parts ha).canon
  exact ⟨hbad _ rfl, r, hr, hbad r fr⟩

/-! ### key switching -/

/-- Y2 `switch_key_inplace`: for inputs satisfying the bundle `c04t_KSInput` of C04T (for BGV also `c04t_BgvData`), a valid ciphertext
    in the representation its scheme prescribes is switched to a VALID ciphertext of the same level (same size, representation,
    correction factor).  The ciphertext level is the first `l.size` moduli of the key level (`c06y_KeyLevelOf`). -/
theorem switchKey_valid {kl : KeyLevel} {l : Level} (hk : c06y_KeyLevelOf kl l) {ct : Ct} {target : RnsPoly} {key : KSKey}
    {s1 s2 : Bool} (hv : ctValid l ct s1 s2 = true) (h : c04t_KSInput kl l.size ct target key)
    (hb : l.scheme = .bgv → c04t_BgvData kl) (hrep : ct.ntt = true ↔ l.scheme ≠ .bfv) :
    ∃ r, switchKey kl l.scheme l.size ct target key = .ok r ∧ ctValid l r s1 s2 = true ∧ r.polys.size = ct.polys.size ∧
      r.ntt = ct.ntt ∧ r.cf = ct.cf := by
  have v := c06y_valid_parts hv
  have hpos : ∀ j, j < l.size → 0 < (kl.m j).value := fun j hj => by
    have := (c04t_kl_comp h.hkl (show j < kl.ms.size by have := h.hd; omega)).2.2.2.two_le
    omega
  have fin : ∀ r : Ct, r.polys.size = ct.polys.size → r.cf = ct.cf → c05u_CtCanon l r → ctValid l r s1 s2 = true :=
    fun r sr fr cr => c06y_valid_mk (by rw [sr]; exact v.size) cr v.scale (by rw [fr]; exact v.cf)
  cases hs : l.scheme
  · have hn : ct.ntt = false := by
      cases hc : ct.ntt
      · rfl
      · exact absurd hs (hrep.mp hc)
    obtain ⟨r, hr, nr, fr, sr, hrest, hnew⟩ := moddown_spec (scheme := .bfv) h (Or.inl ⟨rfl, hn⟩)
    refine ⟨r, hr, fin r sr fr (c06y_ks_frame hk hpos v.canon sr hrest (fun k hk1 hk2 => ?_)), sr, nr, fr⟩
    obtain ⟨a, b⟩ := hnew k hk1 hk2
    exact ⟨a, fun j hj => let ⟨δ, _, _, sz, vl, _⟩ := b j hj; ⟨sz, fun i hi => ⟨_, vl i hi⟩⟩⟩
  · have hn : ct.ntt = true := hrep.mpr (by rw [hs]; decide)
    obtain ⟨r, hr, nr, fr, sr, hrest, hnew⟩ := moddown_spec (scheme := .ckks) h (Or.inr ⟨rfl, hn⟩)
    refine ⟨r, hr, fin r sr fr (c06y_ks_frame hk hpos v.canon sr hrest (fun k hk1 hk2 => ?_)), sr, nr, fr⟩
    obtain ⟨a, b⟩ := hnew k hk1 hk2
    exact ⟨a, fun j hj => let ⟨δ, _, _, sz, vl, _⟩ := b j hj; ⟨sz, fun i hi => ⟨_, vl i hi⟩⟩⟩
  · have hn : ct.ntt = true := hrep.mpr (by rw [hs]; decide)
    obtain ⟨r, hr, nr, fr, sr, hrest, hnew⟩ := moddown_spec_bgv h (hb hs) hn
    refine ⟨r, hr, fin r sr fr (c06y_ks_frame hk hpos v.canon sr hrest (fun k hk1 hk2 => ?_)), sr, nr, fr⟩
    obtain ⟨a, b⟩ := hnew k hk1 hk2
    exact ⟨a, fun j hj => let ⟨δ, _, _, sz, vl, _⟩ := b j hj; ⟨sz, fun i hi => ⟨_, vl i hi⟩⟩⟩

theorem switchKey_preserves_valid {kl : KeyLevel} {l : Level} (hk : c06y_KeyLevelOf kl l) {ct r : Ct} {target : RnsPoly}
    {key : KSKey} {s1 s2 : Bool} (hv : ctValid l ct s1 s2 = true) (h : c04t_KSInput kl l.size ct target key)
    (hb : l.scheme = .bgv → c04t_BgvData kl) (hr : switchKey kl l.scheme l.size ct target key = .ok r) :
    ctValid l r s1 s2 = true := by
  have hrep : ct.ntt = true ↔ l.scheme ≠ .bfv := by
    constructor
    · intro hn hs
      rw [hs, switchKey_refuses_bfv_ntt kl l.size ct target key hn] at hr; cases hr
    · intro hs
      by_contra hn
      rw [switchKey_refuses_coeff_form kl l.scheme hs l.size ct target key (by simpa using hn)] at hr; cases hr
  obtain ⟨r', hr', hv', _⟩ := switchKey_valid hk hv h hb hrep
  rw [hr] at hr'; cases hr'; exact hv'

/-- Y2 `relinearize` (any size 2..16, enough fuel): with a good key (`c06y_KeyOK`) for every power s^m, 2 ≤ m < size, a valid
    ciphertext (in the prescribed representation if there is anything to switch) is relinearized to a VALID size-2 ciphertext -/
theorem relinearize_valid {kl : KeyLevel} {l : Level} (hk : c06y_KeyLevelOf kl l) (ho : c06y_KLOK kl l.size)
    (hb : l.scheme = .bgv → c04t_BgvData kl) (keys : Nat → Option KSKey) {s1 s2 : Bool} :
    ∀ (fuel : Nat) (ct : Ct), ctValid l ct s1 s2 = true → 2 ≤ ct.polys.size → ct.polys.size ≤ fuel + 1 →
      (2 < ct.polys.size → (ct.ntt = true ↔ l.scheme ≠ .bfv)) →
      (∀ m, 2 ≤ m → m < ct.polys.size → ∃ key, keys m = some key ∧ c06y_KeyOK kl l.size key) →
      ∃ r, relinearize kl l.scheme l.size keys fuel ct = .ok r ∧ ctValid l r s1 s2 = true ∧ r.polys.size = 2 ∧
        r.ntt = ct.ntt ∧ r.cf = ct.cf := by
  intro fuel
  induction fuel with
  | zero => intro ct _ h2 hf; omega
  | succ fuel ih =>
    intro ct hv h2 hf hrep hkeys
    by_cases hsz : ct.polys.size = 2
    · exact ⟨ct, relinearize_size2 kl l.scheme l.size keys fuel ct hsz, hv, hsz, rfl, rfl⟩
    · have h3 : 2 < ct.polys.size := by omega
      have v := c06y_valid_parts hv
      obtain ⟨key, hkm, hkok⟩ := hkeys (ct.polys.size - 1) (by omega) (by omega)
      have hin := c06y_ksinput hk ho hkok v.canon h2 (v.canon (ct.polys.size - 1) (by omega))
      obtain ⟨ct', hs, hv', sr, nr, fr⟩ := switchKey_valid hk hv hin hb (hrep h3)
      have v' := c06y_valid_parts hv'
      rw [c04t_relin_step kl l.scheme l.size keys fuel ct h3 hkm hs]
      have hsz' : ({ ct' with polys := ct'.polys.extract 0 (ct.polys.size - 1) } : Ct).polys.size = ct.polys.size - 1 := by
        simp only [Array.size_extract, sr]; omega
      have hvv : ctValid l { ct' with polys := ct'.polys.extract 0 (ct.polys.size - 1) } s1 s2 = true := by
        refine c06y_valid_mk (by rw [hsz']; have := v.size; omega) (fun k hk' => ?_) v'.scale v'.cf
        rw [hsz'] at hk'
        show RnsCanon l ((ct'.polys.extract 0 (ct.polys.size - 1)).getD k #[])
        rw [c06y_extract_getD _ _ (by rw [sr]; omega) hk']
        exact v'.canon k (by rw [sr]; omega)
      obtain ⟨r, hr, hvr, szr, nrr, frr⟩ := ih _ hvv (by rw [hsz']; omega) (by rw [hsz']; omega)
        (fun _ => by show ct'.ntt = true ↔ _; rw [nr]; exact hrep h3)
        (fun m hm1 hm2 => hkeys m hm1 (by rw [hsz'] at hm2; omega))
      exact ⟨r, hr, hvr, szr, by rw [nrr]; exact nr, by rw [frr]; exact fr⟩

/-- Y2 `apply_galois_inplace` (size 2, odd element ≤ 2N): the Galois images of the two polynomials are canonical, and the key switch of
    (σ(c0), 0) with target σ(c1) returns a VALID ciphertext -/
theorem applyGalois_valid {kl : KeyLevel} {l : Level} (hl : l.WF) (hk : c06y_KeyLevelOf kl l) (ho : c06y_KLOK kl l.size)
    (hb : l.scheme = .bgv → c04t_BgvData kl) {key : KSKey} (hkey : c06y_KeyOK kl l.size key) {ct : Ct} {s1 s2 : Bool}
    (hv : ctValid l ct s1 s2 = true) (hsz : ct.polys.size = 2) (hrep : ct.ntt = true ↔ l.scheme ≠ .bfv) {g : Nat}
    (hg : g % 2 = 1) (hg2 : g ≤ 2 * l.n) :
    ∃ r, applyGalois kl l l.scheme ct g key = .ok r ∧ ctValid l r s1 s2 = true ∧ r.polys.size = 2 ∧ r.ntt = ct.ntt ∧
      r.cf = ct.cf := by
  have v := c06y_valid_parts hv
  obtain ⟨c0, h0, cc0⟩ := c06y_galois_poly' hl ct.ntt hg (v.canon 0 (by omega))
  obtain ⟨c1, h1, cc1⟩ := c06y_galois_poly' hl ct.ntt hg (v.canon 1 (by omega))
  have hcc : c05u_CtCanon l { polys := #[c0, rnsZero l], ntt := ct.ntt, cf := ct.cf } := by
    intro k hk'
    have hk2 : k < 2 := hk'
    interval_cases k
    · exact cc0
    · exact (c02v_rnsZero_spec (c02v_qsWF_of_levelWF hl)).1
  have hv' : ctValid l { polys := #[c0, rnsZero l], ntt := ct.ntt, cf := ct.cf } s1 s2 = true :=
    c06y_valid_mk (Or.inr ⟨Nat.le_refl 2, (by decide : 2 ≤ 16)⟩) hcc v.scale v.cf
  have hin := c06y_ksinput hk ho hkey hcc (Nat.le_refl 2) cc1
  obtain ⟨r, hr, hvr, sr, nr, fr⟩ := switchKey_valid hk hv' hin hb hrep
  refine ⟨r, ?_, hvr, sr, nr, fr⟩
  unfold applyGalois
  simp only []
  rw [if_neg (by omega), if_neg (by omega), h0, h1]
  exact hr

/-! ### `bfv_multiply`: metadata and size from `.ok` alone (the data part is `bfvMultiply_valid` below, through C02W) -/

/-- Y4 for `bfv_multiply`: whenever the model succeeds, both operands are non-empty and in coefficient form, the result has
    `n1 + n2 − 1` polynomials, coefficient form and the correction factor of the first operand -/
theorem bfvMultiply_shape_of_ok {l : Level} {bsk : Array NTTTables} {a b r : Ct} (hr : bfvMultiply l bsk a b = .ok r) :
    r.polys.size = a.polys.size + b.polys.size - 1 ∧ 1 ≤ a.polys.size ∧ 1 ≤ b.polys.size ∧ a.ntt = false ∧ b.ntt = false ∧
      r.ntt = false ∧ r.cf = a.cf := by
  have hn : a.ntt = false ∧ b.ntt = false := by
    by_contra h
    rw [c06y_bfvMultiply_refuse_ntt l bsk a b (by cases ha : a.ntt <;> cases hb : b.ntt <;> simp_all)] at hr
    cases hr
  have hszok := bfvMultiply_ok_size hr
  unfold bfvMultiply at hr
  rw [if_neg (by simp [hn.1, hn.2]), if_neg (by simp [hszok])] at hr
  simp only [bind, Except.bind] at hr
  split at hr
  · cases hr
  split at hr
  · cases hr
  split at hr
  · cases hr
  split at hr
  · cases hr
  split at hr
  · cases hr
  split at hr
  · cases hr
  rename_i hsz _ _ _ _ _ _ _ outs houts
  simp only [pure, Except.pure, Except.ok.injEq] at hr
  subst hr
  have hlen := c06y_mapM_length _ _ _ houts
  simp only [List.length_range] at hlen
  exact ⟨by simp [hlen], by omega, by omega, hn.1, hn.2, hn.1, rfl⟩

/-- Y2 for `bfv_multiply` at ANY level (no `MulOK`): the result of a successful product of a valid first operand is valid iff its
    polynomials are canonical (the size fits because the model refuses otherwise; scale and correction factor are handled here;
    canonicity of the output of `fastbconvSk` at a `MulOK` level is `bfvMultiply_valid`) -/
theorem bfvMultiply_valid_iff_canon {l : Level} {bsk : Array NTTTables} {a b r : Ct} {s1 s2 : Bool}
    (ha : ctValid l a s1 s2 = true) (hr : bfvMultiply l bsk a b = .ok r) :
    ctValid l r s1 s2 = true ↔ c05u_CtCanon l r := by
  obtain ⟨sr, h1, h2, _, _, _, fr⟩ := bfvMultiply_shape_of_ok hr
  have hszok := (ctResizeRefuses_eq_false_iff _).mp (bfvMultiply_ok_size hr)
  have v := c06y_valid_parts ha
  constructor
  · intro hv
    exact (c06y_valid_parts hv).canon
  · intro hc
    exact c06y_valid_mk (by have := v.size; omega) hc v.scale (by rw [fr]; exact v.cf)

/-! ### "accepted by any later operation": a composed pipeline -/

/-- the product of two valid size-2 NTT-form ciphertexts (CKKS, or the dyadic step of BGV) is valid of size 3, is ACCEPTED by
    `relinearize` with a good key for s², whose result is valid of size 2 and is in turn ACCEPTED by `modSwitchDropNext`, giving a
    valid ciphertext at the next level — every intermediate object satisfies the hypotheses of the next operation -/
theorem multiply_relinearize_drop_valid {kl : KeyLevel} {l l' : Level} (hq : c02v_QsWF l) (hk : c06y_KeyLevelOf kl l)
    (ho : c06y_KLOK kl l.size) (hb : l.scheme = .bgv → c04t_BgvData kl) (hn : c06y_NextLevel l l') (h2 : 2 ≤ l.size)
    (hs : l.scheme ≠ .bfv) {keys : Nat → Option KSKey} {key : KSKey} (hkey : keys 2 = some key)
    (hkok : c06y_KeyOK kl l.size key) {a b : Ct} {s1 s2 s1' s2' : Bool} (ha : ctValid l a s1 s2 = true)
    (hb' : ctValid l b s1' s2' = true) (hna : a.ntt = true) (hnb : b.ntt = true) (sa : a.polys.size = 2)
    (sb : b.polys.size = 2) :
    ∃ c r d, ctMultiplyDyadic l a b = .ok c ∧ ctValid l c s1 s2 = true ∧ c.polys.size = 3 ∧
      relinearize kl l.scheme l.size keys 2 c = .ok r ∧ ctValid l r s1 s2 = true ∧ r.polys.size = 2 ∧
      modSwitchDropNext l r = .ok d ∧ ctValid l' d s1 s2 = true ∧ d.polys.size = 2 ∧ d.cf = a.cf := by
  obtain ⟨c, hc, sc, nc, fc, _, vc⟩ := ctMultiplyDyadic_valid hq ha hb' hna hnb (by omega) (by omega) (by rw [sa, sb]; decide)
  rw [sa, sb] at sc
  obtain ⟨r, hr, vr, sr, nr, fr⟩ := relinearize_valid hk ho hb keys 2 c vc (by omega) (by omega)
    (fun _ => ⟨fun _ => hs, fun _ => nc⟩)
    (fun m h1 h2' => by
      have : m = 2 := by omega
      subst this
      exact ⟨key, hkey, hkok⟩)
  obtain ⟨d, hd, vd, sd, _, fd⟩ := modSwitchDropNext_valid hn h2 vr (fun _ => by rw [nr, nc])
  exact ⟨c, r, d, hc, vc, sc, hr, vr, sr, hd, vd, by rw [sd, sr], by rw [fd, fr, fc]⟩

/-! ### `bgv_multiply` and `bfv_multiply`: valid operands give a valid result or a refusal -/

/-- Y2 + Y4 for `bgv_multiply` with a PRIME plain modulus, the complete case analysis on VALID operands: a VALID result or the
    error `refused`; refused exactly when an operand is not in NTT form, an operand is empty, or the product would have more than 16
    polynomials (so, for non-empty NTT-form valid operands: refused IFF `n1 + n2 − 1 > 16`).  For composite t validity of the result
    additionally needs unit correction factors (`bgvMultiply_valid_needs_unit`). -/
theorem bgvMultiply_valid_or_refused {l : Level} (hq : c02v_QsWF l) (ht : l.t.WF) (hp : Nat.Prime l.t.value) (hs : l.scheme = .bgv)
    {a b : Ct} {s1 s2 s1' s2' : Bool} (ha : ctValid l a s1 s2 = true) (hb : ctValid l b s1' s2' = true) :
    ((∃ r, bgvMultiply l a b = .ok r ∧ ctValid l r s1 s2 = true ∧ r.polys.size = a.polys.size + b.polys.size - 1) ∨
      bgvMultiply l a b = .error .refused) ∧
    (bgvMultiply l a b = .error .refused ↔
      (a.ntt = false ∨ b.ntt = false ∨ a.polys.size = 0 ∨ b.polys.size = 0 ∨ 16 < a.polys.size + b.polys.size - 1)) := by
  by_cases hna : a.ntt = true
  swap
  · have h := bgvMultiply_refuse l a b (Or.inl (by simpa using hna))
    exact ⟨Or.inr h, fun _ => Or.inl (by simpa using hna), fun _ => h⟩
  by_cases hnb : b.ntt = true
  swap
  · have h := bgvMultiply_refuse l a b (Or.inr (by simpa using hnb))
    exact ⟨Or.inr h, fun _ => Or.inr (Or.inl (by simpa using hnb)), fun _ => h⟩
  by_cases h0 : a.polys.size = 0 ∨ b.polys.size = 0
  · have h : bgvMultiply l a b = .error .refused := by
      unfold bgvMultiply
      rw [ctMultiplyDyadic_refuse_empty l a b hna hnb h0]; rfl
    exact ⟨Or.inr h, fun _ => by omega, fun _ => h⟩
  by_cases h16 : 16 < a.polys.size + b.polys.size - 1
  · have h := bgvMultiply_refuse_oversize l a b h16
    exact ⟨Or.inr h, fun _ => by omega, fun _ => h⟩
  obtain ⟨r, hr, hv, sr, _⟩ := bgvMultiply_valid_prime hq ht hp hs ha hb hna hnb (by omega) (by omega) (by omega)
  refine ⟨Or.inl ⟨r, hr, hv, sr⟩, fun h => ?_, fun h => ?_⟩
  · rw [hr] at h; cases h
  · rcases h with h | h | h | h | h
    · rw [hna] at h; cases h
    · rw [hnb] at h; cases h
    · omega
    · omega
    · omega

/-- Y2 for `bfv_multiply` (BEHZ), now with the data part (C02W): on valid non-empty coefficient-form operands at a level satisfying
    `MulOK` (derived from the constructors: `c02w_mulOK_of_new`) whose product fits, the model succeeds and the result is VALID -/
theorem bfvMultiply_valid {l : Level} {T : Array NTTTables} (hm : MulOK l T) {a b : Ct} {s1 s2 s1' s2' : Bool}
    (ha : ctValid l a s1 s2 = true) (hb : ctValid l b s1' s2' = true) (hna : a.ntt = false) (hnb : b.ntt = false)
    (h0a : a.polys.size ≠ 0) (h0b : b.polys.size ≠ 0) (h16 : a.polys.size + b.polys.size - 1 ≤ 16) :
    ∃ r, bfvMultiply l T a b = .ok r ∧ ctValid l r s1 s2 = true ∧ r.polys.size = a.polys.size + b.polys.size - 1 ∧
      r.ntt = false := by
  have va := c06y_valid_parts ha
  have vb := c06y_valid_parts hb
  obtain ⟨r, hr, cr, sr, nr⟩ := bfvMultiply_canon hm (c06y_canon_of_valid va h0a) (c06y_canon_of_valid vb h0b) hna hnb h16
  exact ⟨r, hr, ctValid_of_CtCanon cr va.scale, sr, nr⟩

/-- Y2 + Y4 for `bfv_multiply`, the complete case analysis on VALID operands at a `MulOK` level: a VALID result or the error
    `refused` (never another error: no overflow / out-of-range branch of the BEHZ pipeline is reachable); refused exactly when an
    operand is in NTT form, an operand is empty, or the product would have more than 16 polynomials -/
theorem bfvMultiply_valid_or_refused {l : Level} {T : Array NTTTables} (hm : MulOK l T) {a b : Ct} {s1 s2 s1' s2' : Bool}
    (ha : ctValid l a s1 s2 = true) (hb : ctValid l b s1' s2' = true) :
    ((∃ r, bfvMultiply l T a b = .ok r ∧ ctValid l r s1 s2 = true ∧ r.polys.size = a.polys.size + b.polys.size - 1) ∨
      bfvMultiply l T a b = .error .refused) ∧
    (bfvMultiply l T a b = .error .refused ↔
      (a.ntt = true ∨ b.ntt = true ∨ a.polys.size = 0 ∨ b.polys.size = 0 ∨ 16 < a.polys.size + b.polys.size - 1)) := by
  have va := c06y_valid_parts ha
  have vb := c06y_valid_parts hb
  by_cases hna : a.ntt = true
  · have h := bfvMultiply_refuse_ntt l T a b (Or.inl hna)
    exact ⟨Or.inr h, fun _ => Or.inl hna, fun _ => h⟩
  by_cases hnb : b.ntt = true
  · have h := bfvMultiply_refuse_ntt l T a b (Or.inr hnb)
    exact ⟨Or.inr h, fun _ => Or.inr (Or.inl hnb), fun _ => h⟩
  have hna' : a.ntt = false := by simpa using hna
  have hnb' : b.ntt = false := by simpa using hnb
  by_cases h0 : a.polys.size = 0 ∨ b.polys.size = 0
  · have h := bfvMultiply_refuse_empty hm va.canon vb.canon hna' hnb' (by omega)
    exact ⟨Or.inr h, fun _ => by omega, fun _ => h⟩
  by_cases h16 : 16 < a.polys.size + b.polys.size - 1
  · have h := bfvMultiply_refuse_size l T a b ((ctResizeRefuses_eq_true_iff _).mpr (Or.inr h16))
    exact ⟨Or.inr h, fun _ => by omega, fun _ => h⟩
  obtain ⟨r, hr, hv, sr, _⟩ := bfvMultiply_valid hm ha hb hna' hnb' (by omega) (by omega) (by omega)
  refine ⟨Or.inl ⟨r, hr, hv, sr⟩, fun h => ?_, fun h => ?_⟩
  · rw [hr] at h; cases h
  · rcases h with h | h | h | h | h
    · exact absurd h hna
    · exact absurd h hnb
    · omega
    · omega
    · omega

end HC
