/-
  Phase 4m, part 11: witnesses (non-vacuity) for the composition theorem and the dot-product plan.
-/
import Heathcliff.Proofs.GenDec10
import Heathcliff.Proofs.GenDec5
import Heathcliff.Proofs.GenDec4
namespace HC
open HC.GenDec

/-- the hypotheses of `gd_budget_source_spec_full` are satisfiable: two-word Q = 2^64 + 13, two coefficients 5 and Q - 3 -/
theorem gd_budget_source_witness :
    dec_invariant_noise_budget true 2 .bgv false 2 2 [13, 1] 65 [5, 0, 10, 1] [] =
      .ok ([] ++ [1] ++ (if Scheme.bgv = .bfv then [2] else []) ++ [3],
           budgetOfBits 65 (bitCount (normFoldV (toNat [13, 1]) ((toNat [13, 1] + 1) / 2)
             ((List.range' 0 2).map (fun j => toNat (coefW [5, 0, 10, 1] 2 j))) 0))) :=
  gd_budget_source_spec_full 2 .bgv 2 2 [13, 1] 65 [5, 0, 10, 1] [] (by decide) (Or.inr rfl) (by decide) (by decide)
    (by unfold Limbs; decide) rfl (by unfold Limbs; decide) rfl (by decide) (by decide) (by decide)

/-- size 3, NTT form, n = 4, level of 1 prime under a KEY level of 2 primes: the second key power is read at offset 1·(4·2) = 8 (not 4) -/
theorem gd_dot_plan_witness :
    dec_dot_product_plan (List.replicate 12 0) 3 true 4 1 2 [] =
      .ok [100, 2, 20, 0, 4, 0, 4, 20, 4, 8, 8, 12, 22, 23, 0, 4, 23, 4, 8, 25] := by decide +kernel

/-- size 2, coefficient form: copy c1, NTT, multiply by the key, inverse NTT, add c0 -/
theorem gd_dot_plan_witness2 :
    dec_dot_product_plan (List.replicate 8 0) 2 false 4 1 2 [] = .ok [100, 1, 12, 13, 14, 15, 11] := by decide +kernel

/-- the hypotheses of `gd_dot_product_plan_eq` are satisfiable (size 16) -/
theorem gd_dot_plan_witness16 :
    dec_dot_product_plan (List.replicate (16 * (8 * 3)) 0) 16 false 8 3 5 [] = .ok ([] ++ dotPlanModel 16 false 8 3 5) :=
  gd_dot_product_plan_eq _ 16 false 8 3 5 [] (by decide) (by decide) (by rw [List.length_replicate]) (by decide) (by decide) (by decide)

end HC
