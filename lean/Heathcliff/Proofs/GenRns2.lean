import Heathcliff.Proofs.GenRns
import Heathcliff.Proofs.C10I

/-!
  Phase 4c, part 2: the generated `RNSTool` routines of `Gen/RnsFns.lean` EQUAL the hand model of `Model/RNS.lean`
  (`RnsPoly` = array of components; the generated functions work on the flat buffer `flatP p`), and the composition with the C10
  specification theorems (rounding division by the last prime, BGV division).
-/
namespace HC
open HC.GenW HC.GenR

/-- the flat `&[u64]` layout of an RNS polynomial: component `i`, coefficient `j` at `i * n + j` -/
def flatP (p : RnsPoly) : List Nat := (p.toList.map Array.toList).flatten

theorem gr_foldlM_push {α : Type} (F : α → R Nat) : ∀ (l : List α) (acc : Array Nat),
    l.foldlM (fun acc x => do let y ← F x; pure (acc.push y)) acc = (l.mapM F >>= fun ys => .ok (acc ++ ys.toArray)) := by
  intro l
  induction l with
  | nil => intro acc; rw [gr_mapM_nil, gr_ok_bind]; simp [pure, Except.pure]
  | cons a l ih =>
    intro acc
    rw [List.foldlM_cons, gr_mapM_cons]
    cases hF : F a with
    | error e => rfl
    | ok y =>
      rw [gr_ok_bind]
      show (l.foldlM _ (acc.push y)) = _
      rw [ih (acc.push y)]
      cases l.mapM F with
      | error e => rfl
      | ok ys => rw [gr_ok_bind, gr_ok_bind, gr_ok_bind]; simp; rfl

theorem gr_mapM'_eq (a : Array Nat) (f : Nat → R Nat) : mapM' a f = (a.toList.mapM f >>= fun ys => .ok ys.toArray) := by
  unfold mapM'
  rw [← Array.foldlM_toList, gr_foldlM_push]
  cases a.toList.mapM f with
  | error e => rfl
  | ok ys => rw [gr_ok_bind, gr_ok_bind]; simp

theorem gr_arr_getD (a : Array Nat) (j : Nat) : a.getD j 0 = a.toList.getD j 0 := by
  simp [Array.getD_eq_getD_getElem?, List.getD_eq_getElem?_getD]

theorem gr_cs_getD (p : RnsPoly) (i : Nat) : (p.toList.map Array.toList).getD i [] = (p.getD i #[]).toList := by
  rw [List.getD_eq_getElem?_getD, List.getElem?_map]
  by_cases h : i < p.size
  · simp [Array.getD_eq_getD_getElem?, h]
  · simp [Array.getD_eq_getD_getElem?, h]

/-! ### `divide_and_round_q_last_inplace` -/

/-- the hand model, computed: one possibly trapping `mapM` (the `+ half` on the last component), then total list functions -/
theorem gr_dar_model (r : RNSTool) (p : RnsPoly)
    (hq : ∀ i, i < r.baseQ.size → (r.baseQ.q i).WF) (hs : 1 ≤ r.baseQ.size) :
    r.divideAndRoundQLast p =
      ((p.getD (r.baseQ.size - 1) #[]).toList.mapM (fun x => addMod x ((r.baseQ.q (r.baseQ.size - 1)).value / 2) (r.baseQ.q (r.baseQ.size - 1))) >>= fun lastc =>
        .ok (((List.range (r.baseQ.size - 1)).map (fun i =>
          (gr_darComp (r.baseQ.q i) ((r.baseQ.q (r.baseQ.size - 1)).value / 2) (r.invQLastModQ.getD i default) lastc (p.getD i #[]).toList).toArray)).toArray.push lastc.toArray)) := by
  unfold RNSTool.divideAndRoundQLast
  dsimp only
  rw [gr_mapM'_eq]
  cases hm : (p.getD (r.baseQ.size - 1) #[]).toList.mapM (fun x => addMod x ((r.baseQ.q (r.baseQ.size - 1)).value / 2) (r.baseQ.q (r.baseQ.size - 1))) with
  | error e => rfl
  | ok lastc =>
    have hlt : ∀ x ∈ lastc, x < 2^64 := gr_mapM_forall _ (fun z => z < 2^64) (fun x y h => gr_addMod_lt _ _ _ _ h) _ _ hm
    have hh : (r.baseQ.q (r.baseQ.size - 1)).value / 2 < 2^64 := by have := (hq (r.baseQ.size - 1) (by omega)).lt; omega
    rw [gr_ok_bind, gr_ok_bind, gr_ok_bind]
    rw [listMapM_ok (G := fun i => (gr_darComp (r.baseQ.q i) ((r.baseQ.q (r.baseQ.size - 1)).value / 2) (r.invQLastModQ.getD i default) lastc (p.getD i #[]).toList).toArray)]
    · rfl
    · intro i hi
      rw [List.mem_range] at hi
      have hb := hq i (by omega)
      rw [barrett64_exact hb hh, ok_bind,
        mapM'_ok (g := fun x => subModV (x % (r.baseQ.q i).value) ((r.baseQ.q (r.baseQ.size - 1)).value / 2 % (r.baseQ.q i).value) (r.baseQ.q i))
          (by intro x hx; rw [barrett64_exact hb (hlt x (by simpa using hx)), ok_bind]; rfl), ok_bind,
        zipM'_ok (g := fun x y => subModV x y (r.baseQ.q i)) (fun _ _ => rfl), ok_bind,
        mapM'_ok (g := fun x => mulOpV x (r.invQLastModQ.getD i default) (r.baseQ.q i)) (fun x _ => gr_mulOperandMod _ _ _)]
      congr 1
      unfold gr_darComp
      apply Array.ext'
      simp only [List.map_toArray, List.range_eq_range', Array.length_toList, gr_arr_getD]

theorem gr_q_toList (b : RNSBase) (i : Nat) : b.base.toList.getD i gr_dflt = b.q i := by
  unfold RNSBase.q gr_dflt
  simp [Array.getD_eq_getD_getElem?, List.getD_eq_getElem?_getD]

theorem gr_ops_toList (a : Array MulOperand) (i : Nat) : a.toList.getD i default = a.getD i default := by
  simp [Array.getD_eq_getD_getElem?, List.getD_eq_getElem?_getD]

/-- shape of an RNS polynomial for a tool: one component of `n` coefficients per prime of the base -/
def gr_Shape (r : RNSTool) (p : RnsPoly) : Prop := p.size = r.baseQ.size ∧ ∀ i, i < r.baseQ.size → (p.getD i #[]).size = r.n

theorem gr_shape_cs {r : RNSTool} {p : RnsPoly} (h : gr_Shape r p) :
    (p.toList.map Array.toList).length = r.baseQ.size ∧ ∀ c ∈ p.toList.map Array.toList, c.length = r.n := by
  refine ⟨by simp [h.1], ?_⟩
  intro c hc
  obtain ⟨a, ha, rfl⟩ := List.mem_map.mp hc
  obtain ⟨i, hi, rfl⟩ := List.getElem_of_mem ha
  have hi' : i < p.size := by simpa using hi
  have := h.2 i (by rw [← h.1]; exact hi')
  rw [Array.length_toList]
  simpa [Array.getD_eq_getD_getElem?, hi'] using this

/-- **`RNSTool::divide_and_round_q_last_inplace` (generated from src/util/rns.rs) = the hand model**, on the flat buffer of any polynomial of
    the right shape: WF primes (2 ≤ q < 2^61 with their Barrett constants), the buffer length `s·n` fits a `usize`, the table of inverses has
    its `s-1` entries.  No range assumption on the coefficients: on unreduced input both sides trap in the same `+ half`. -/
theorem gr_divide_and_round_q_last_inplace_eq (r : RNSTool) (p : RnsPoly)
    (hs : 1 ≤ r.baseQ.size) (hq : ∀ i, i < r.baseQ.size → (r.baseQ.q i).WF) (hinv : r.baseQ.size - 1 ≤ r.invQLastModQ.size)
    (hsn : r.baseQ.size * r.n < 2^64) (hs64 : r.baseQ.size < 2^64) (hp : gr_Shape r p) :
    GenR.divide_and_round_q_last_inplace (flatP p) r.baseQ.size r.baseQ.base.toList r.n r.invQLastModQ.toList
      = (r.divideAndRoundQLast p).map flatP := by
  obtain ⟨hcs, hn⟩ := gr_shape_cs hp
  unfold flatP
  rw [gr_dar_list r.baseQ.base.toList r.invQLastModQ.toList r.baseQ.size r.n _ hs (by simp [RNSBase.size]) (by simpa using hinv)
    (by intro i hi; rw [gr_q_toList]; exact hq i hi) hsn hs64 hcs hn, gr_dar_model r p hq hs]
  simp only [gr_q_toList, gr_cs_getD, gr_ops_toList]
  cases (p.getD (r.baseQ.size - 1) #[]).toList.mapM (fun x => addMod x ((r.baseQ.q (r.baseQ.size - 1)).value / 2) (r.baseQ.q (r.baseQ.size - 1))) with
  | error e => rfl
  | ok lastc =>
    rw [gr_ok_bind, gr_ok_bind]
    show Except.ok _ = Except.ok _
    congr 1
    simp [List.range_eq_range', List.map_map, Function.comp_def]

/-! ### reading the flat result, and the end-to-end statement -/

theorem gr_flatP_getD {r : RNSTool} {p : RnsPoly} (h : gr_Shape r p) {i j : Nat} (hi : i < r.baseQ.size) (hj : j < r.n) :
    (flatP p).getD (i * r.n + j) 0 = (p.getD i #[]).getD j 0 := by
  obtain ⟨hcs, hn⟩ := gr_shape_cs h
  unfold flatP
  rw [gr_flat_getD r.n _ i j hn (by omega) hj, gr_cs_getD, gr_arr_getD]

/-- the model's result has the shape of its input -/
theorem gr_dar_shape {r : RNSTool} {p out : RnsPoly} (hq : ∀ i, i < r.baseQ.size → (r.baseQ.q i).WF) (hs : 1 ≤ r.baseQ.size)
    (hp : gr_Shape r p) (h : r.divideAndRoundQLast p = .ok out) : gr_Shape r out := by
  rw [gr_dar_model r p hq hs] at h
  cases hm : (p.getD (r.baseQ.size - 1) #[]).toList.mapM (fun x => addMod x ((r.baseQ.q (r.baseQ.size - 1)).value / 2) (r.baseQ.q (r.baseQ.size - 1))) with
  | error e => rw [hm] at h; cases h
  | ok lastc =>
    rw [hm, gr_ok_bind] at h
    cases h
    have hll : lastc.length = r.n := by rw [gr_mapM_length _ _ _ hm, Array.length_toList, hp.2 _ (by omega)]
    refine ⟨by simp; omega, ?_⟩
    intro i hi
    by_cases his : i < r.baseQ.size - 1
    · rw [getD_push_rangeMap _ _ _ _ his]
      unfold gr_darComp
      have := hp.2 i hi
      simp only [Array.getD_eq_getD_getElem?] at this
      simp [this]
    · have : i = r.baseQ.size - 1 := by omega
      subst this
      simp [Array.getD_eq_getD_getElem?, hll]

/-- **END TO END (C10, rounding division)**: the function generated from the Rust source of `RNSTool::divide_and_round_q_last_inplace`,
    run on the flat buffer of a polynomial whose coefficient `j` holds the canonical residues of an integer `X j`, returns — at position
    `i * n + j`, for every remaining prime `q_i` — the residue of the NEAREST INTEGER to `X j / q_last` (ties up). -/
theorem gr_divide_and_round_q_last_inplace_rounds (r : RNSTool) (p : RnsPoly) (X : Nat → Nat)
    (hq : ∀ i, i < r.baseQ.size → (r.baseQ.q i).WF) (hs : 2 ≤ r.baseQ.size)
    (hinv : ∀ i, i < r.baseQ.size - 1 → WFOp (r.baseQ.q i) (r.invQLastModQ.getD i default) ∧
        ((r.invQLastModQ.getD i default).operand * (r.baseQ.q (r.baseQ.size - 1)).value) % (r.baseQ.q i).value = 1)
    (hinvs : r.baseQ.size - 1 ≤ r.invQLastModQ.size)
    (hsn : r.baseQ.size * r.n < 2^64) (hs64 : r.baseQ.size < 2^64) (hp : gr_Shape r p)
    (hX : ∀ i j, i < r.baseQ.size → j < r.n → (p.getD i #[]).getD j 0 = X j % (r.baseQ.q i).value) :
    ∃ out, GenR.divide_and_round_q_last_inplace (flatP p) r.baseQ.size r.baseQ.base.toList r.n r.invQLastModQ.toList = .ok out ∧
      ∀ i j, i < r.baseQ.size - 1 → j < r.n →
        out.getD (i * r.n + j) 0 = ((X j + (r.baseQ.q (r.baseQ.size - 1)).value / 2) / (r.baseQ.q (r.baseQ.size - 1)).value) % (r.baseQ.q i).value := by
  have hc : ∀ i j, i < r.baseQ.size → j < r.n → (p.getD i #[]).getD j 0 < (r.baseQ.q i).value := by
    intro i j hi hj; rw [hX i j hi hj]; exact Nat.mod_lt _ (by have := (hq i hi).two_le; omega)
  obtain ⟨o, ho, hv⟩ := divideAndRoundQLast_spec hq hs hinv hp.1 hp.2 hc
  have hsh := gr_dar_shape hq (by omega) hp ho
  refine ⟨flatP o, ?_, ?_⟩
  · rw [gr_divide_and_round_q_last_inplace_eq r p (by omega) hq hinvs hsn hs64 hp, ho]; rfl
  · intro i j hi hj
    rw [gr_flatP_getD hsh (by omega) hj, hv i j hi hj, hX _ j (by omega) hj, hX i j (by omega) hj]
    exact divRoundLast_scalar (hq _ (by omega)).two_le (hq i (by omega)).two_le (hinv i hi).2

/-! ### `mod_t_and_divide_q_last_ntt_inplace` -/

abbrev gr_tdflt : NTTTables := RNSTool.modTAndDivideQLastNtt.dflt
/-- what the abstract (i)NTT inputs of the generated function are instantiated with: the model's transforms with table `i` -/
def gr_IT (tables : Array NTTTables) (i : Nat) (x : List Nat) : List Nat := (intt (tables.getD i gr_tdflt) x.toArray).toList
def gr_NT (tables : Array NTTTables) (i : Nat) (x : List Nat) : List Nat := (ntt (tables.getD i gr_tdflt) x.toArray).toList

theorem gr_mtdn_model (r : RNSTool) (tables : Array NTTTables) (p : RnsPoly)
    (hq : ∀ i, i < r.baseQ.size → (r.baseQ.q i).WF) (hs : 1 ≤ r.baseQ.size) (ht : r.t.WF) (hinvt : r.invQLastModT < 2^64) (hp : gr_Shape r p)
    (hI : (intt (tables.getD (r.baseQ.size - 1) gr_tdflt) (p.getD (r.baseQ.size - 1) #[])).size = r.n)
    (hIw : ∀ x ∈ intt (tables.getD (r.baseQ.size - 1) gr_tdflt) (p.getD (r.baseQ.size - 1) #[]), x < 2^64) :
    r.modTAndDivideQLastNtt tables p =
      .ok (((List.range (r.baseQ.size - 1)).map (fun i =>
          (gr_mtdnComp (r.baseQ.q i) (r.baseQ.q (r.baseQ.size - 1)).value (r.invQLastModQ.getD i default) (gr_NT tables i)
            (gr_negList r.t r.invQLastModT (intt (tables.getD (r.baseQ.size - 1) gr_tdflt) (p.getD (r.baseQ.size - 1) #[])).toList)
            (intt (tables.getD (r.baseQ.size - 1) gr_tdflt) (p.getD (r.baseQ.size - 1) #[])).toList (p.getD i #[]).toList).toArray)).toArray.push
        (intt (tables.getD (r.baseQ.size - 1) gr_tdflt) (p.getD (r.baseQ.size - 1) #[]))) := by
  have ht0 : 0 < r.t.value := by have := ht.two_le; omega
  have ht61 := ht.lt
  have hL := hq (r.baseQ.size - 1) (by omega)
  unfold RNSTool.modTAndDivideQLastNtt
  dsimp only
  rw [show RNSTool.modTAndDivideQLastNtt.dflt = gr_tdflt from rfl]
  generalize intt (tables.getD (r.baseQ.size - 1) gr_tdflt) (p.getD (r.baseQ.size - 1) #[]) = lastc at hI hIw ⊢
  have h0 : mapM' lastc (fun x => do let y ← barrett64 x r.t; negateMod y r.t) = .ok (lastc.map (fun x => (r.t.value - x % r.t.value) % r.t.value)) := by
    apply mapM'_ok
    intro x hx
    rw [barrett64_exact ht (hIw x hx), ok_bind]
    exact negateMod_exact ht (Nat.mod_lt _ ht0).le
  have hneg : (if r.invQLastModT ≠ 1 then mapM' (lastc.map (fun x => (r.t.value - x % r.t.value) % r.t.value)) (fun x => mulMod x r.invQLastModT r.t)
        else pure (lastc.map (fun x => (r.t.value - x % r.t.value) % r.t.value))) = .ok (gr_negList r.t r.invQLastModT lastc.toList).toArray := by
    unfold gr_negList
    by_cases h1 : r.invQLastModT ≠ 1
    · rw [if_pos h1, if_pos h1, mapM'_ok (g := fun x => (x * r.invQLastModT) % r.t.value)]
      · congr 1; apply Array.ext'; simp
      · intro x hx
        obtain ⟨y, -, rfl⟩ := Array.mem_map.mp hx
        have := Nat.mod_lt (r.t.value - y % r.t.value) ht0
        exact mulMod_exact ht (by omega) hinvt
    · rw [if_neg h1, if_neg h1]; show Except.ok _ = Except.ok _; congr 1; apply Array.ext'; simp
  rw [h0, ok_bind, ite_bind_join, hneg, ok_bind]
  have hnegw := gr_negList_lt r.t ht r.invQLastModT lastc.toList
  rw [listMapM_ok (G := fun i => (gr_mtdnComp (r.baseQ.q i) (r.baseQ.q (r.baseQ.size - 1)).value (r.invQLastModQ.getD i default) (gr_NT tables i)
            (gr_negList r.t r.invQLastModT lastc.toList) lastc.toList (p.getD i #[]).toList).toArray)]
  · rfl
  · intro i hi
    rw [List.mem_range] at hi
    have hb := hq i (by omega)
    have hb0 : 0 < (r.baseQ.q i).value := by have := hb.two_le; omega
    have hb61 := hb.lt
    have hpi := hp.2 i (by omega)
    rw [mapM'_ok (g := fun x => (x % (r.baseQ.q i).value * (r.baseQ.q (r.baseQ.size - 1)).value) % (r.baseQ.q i).value)
        (by intro x hx
            rw [barrett64_exact hb (hnegw x (by simpa using hx)), ok_bind]
            have := Nat.mod_lt x hb0; have := hL.lt
            exact mulMod_exact hb (by omega) (by omega)), ok_bind,
      zipM'_ok (g := fun d c => d + c % (r.baseQ.q i).value)
        (by intro j hj
            rw [Array.size_map] at hj
            have hd : ((gr_negList r.t r.invQLastModT lastc.toList).toArray.map
                (fun x => (x % (r.baseQ.q i).value * (r.baseQ.q (r.baseQ.size - 1)).value) % (r.baseQ.q i).value)).getD j 0 < (r.baseQ.q i).value := by
              apply getD_lt_of_forall _ hb0
              intro x hx
              obtain ⟨y, -, rfl⟩ := Array.mem_map.mp hx
              exact Nat.mod_lt _ hb0
            have hc : lastc.getD j 0 < 2^64 := getD_lt_of_forall hIw (by norm_num) j
            rw [barrett64_exact hb hc, ok_bind]
            have := Nat.mod_lt (lastc.getD j 0) hb0
            exact gr_ckAdd_ok (by omega)), ok_bind,
      zipM'_ok (g := fun x y => subModV x y (r.baseQ.q i)) (fun _ _ => rfl), ok_bind,
      mapM'_ok (g := fun x => mulOpV x (r.invQLastModQ.getD i default) (r.baseQ.q i)) (fun x _ => gr_mulOperandMod _ _ _)]
    congr 1
    unfold gr_mtdnComp gr_NT
    apply Array.ext'
    simp only [List.map_toArray, List.range_eq_range', Array.length_toList, gr_arr_getD, List.size_toArray, gr_negList_length, hI, hpi, List.length_map]

/-- **`RNSTool::mod_t_and_divide_q_last_ntt_inplace` (generated from src/util/rns.rs) = the hand model**, with the two abstract function
    inputs of the generated code (`polymod::intt`, `polymod::ntt` on table `i`) instantiated by the model's `intt` / `ntt` with `tables[i]`.
    Hypotheses: WF primes and plain modulus, `inv_q_last_mod_t` a word, shape, buffer length fits a `usize`, `s-1` inverses, and about the
    transforms only that they keep the length `n` and that the inverse transform of the last component consists of words. -/
theorem gr_mod_t_and_divide_q_last_ntt_inplace_eq (r : RNSTool) (tables : Array NTTTables) (p : RnsPoly)
    (hs : 1 ≤ r.baseQ.size) (hq : ∀ i, i < r.baseQ.size → (r.baseQ.q i).WF) (ht : r.t.WF) (hinvt : r.invQLastModT < 2^64)
    (hinv : r.baseQ.size - 1 ≤ r.invQLastModQ.size) (hsn : r.baseQ.size * r.n < 2^64) (hs64 : r.baseQ.size < 2^64) (hp : gr_Shape r p)
    (hI : (intt (tables.getD (r.baseQ.size - 1) gr_tdflt) (p.getD (r.baseQ.size - 1) #[])).size = r.n)
    (hIw : ∀ x ∈ intt (tables.getD (r.baseQ.size - 1) gr_tdflt) (p.getD (r.baseQ.size - 1) #[]), x < 2^64)
    (hN : ∀ i (a : Array Nat), i < r.baseQ.size - 1 → a.size = r.n → (∀ y ∈ a, y < 2 * (r.baseQ.q i).value) → (ntt (tables.getD i gr_tdflt) a).size = r.n) :
    GenR.mod_t_and_divide_q_last_ntt_inplace (flatP p) r.baseQ.size r.baseQ.base.toList r.n r.invQLastModQ.toList r.t r.invQLastModT
        (fun i x => .ok (gr_IT tables i x)) (fun i x => .ok (gr_NT tables i x))
      = (r.modTAndDivideQLastNtt tables p).map flatP := by
  obtain ⟨hcs, hn⟩ := gr_shape_cs hp
  have hlast : gr_IT tables (r.baseQ.size - 1) ((p.toList.map Array.toList).getD (r.baseQ.size - 1) [])
      = (intt (tables.getD (r.baseQ.size - 1) gr_tdflt) (p.getD (r.baseQ.size - 1) #[])).toList := by
    unfold gr_IT; rw [gr_cs_getD]
  unfold flatP
  rw [gr_mtdn_list r.baseQ.base.toList r.invQLastModQ.toList r.t r.invQLastModT r.baseQ.size r.n (gr_IT tables) (gr_NT tables) _ hs (by simp [RNSBase.size])
    (by simpa using hinv) (by intro i hi; rw [gr_q_toList]; exact hq i hi) ht hinvt hsn hs64 hcs hn
    (by rw [hlast, Array.length_toList]; exact hI) (by rw [hlast]; intro x hx; exact hIw x (by simpa using hx))
    (by intro i x hi hx hb; unfold gr_NT; rw [Array.length_toList]; exact hN i _ hi (by simpa using hx) (by intro y hy; rw [← gr_q_toList]; exact hb y (by simpa using hy))),
    gr_mtdn_model r tables p hq hs ht hinvt hp hI hIw, hlast]
  simp only [gr_q_toList, gr_cs_getD, gr_ops_toList]
  show Except.ok _ = Except.ok _
  congr 1
  simp [List.range_eq_range', List.map_map, Function.comp_def]

/-! ### `divide_and_round_q_last_ntt_inplace` -/

def gr_NL (tables : Array NTTTables) (i : Nat) (x : List Nat) : List Nat := (nttLazy (tables.getD i gr_tdflt) x.toArray).toList

/-- the transforms keep the length `2^k` of their table (no well-formedness needed) -/
theorem gr_runFwdA_size (A : Arith Nat MulOperand) (k : Nat) (roots : Nat → MulOperand) (a : Array Nat) (h : a.size = 2^k) :
    ∀ l, (runFwdA A k roots a l).size = 2^k := by
  intro l; cases l with
  | zero => exact h
  | succ l => simp [runFwdA]
theorem gr_runInvA_size (A : Arith Nat MulOperand) (k : Nat) (roots : Nat → MulOperand) (a : Array Nat) (h : a.size = 2^k) :
    ∀ l, (runInvA A k roots a l).size = 2^k := by
  intro l; cases l with
  | zero => exact h
  | succ l => simp [runInvA]
theorem gr_nttLazy_size (t : NTTTables) (a : Array Nat) (h : a.size = 2^t.k) : (nttLazy t a).size = 2^t.k := by
  unfold nttLazy transformToRev; exact gr_runFwdA_size _ _ _ _ h _
theorem gr_ntt_size (t : NTTTables) (a : Array Nat) (h : a.size = 2^t.k) : (ntt t a).size = 2^t.k := by
  unfold ntt; simp only [Array.size_map]; exact gr_nttLazy_size t a h
theorem gr_intt_size (t : NTTTables) (a : Array Nat) (h : a.size = 2^t.k) : (intt t a).size = 2^t.k := by
  unfold intt inttLazy transformFromRev; simp only [Array.size_map]; exact gr_runInvA_size _ _ _ _ h _

theorem gr_zipM'_eq (a b : Array Nat) (f : Nat → Nat → R Nat) :
    zipM' a b f = ((List.range' 0 a.size).mapM (fun j => f (a.toList.getD j 0) (b.toList.getD j 0)) >>= fun ys => .ok ys.toArray) := by
  unfold zipM'
  rw [gr_foldlM_push, List.range_eq_range']
  simp only [gr_arr_getD]
  cases (List.range' 0 a.size).mapM (fun j => f (a.toList.getD j 0) (b.toList.getD j 0)) with
  | error e => rfl
  | ok ys => rw [gr_ok_bind, gr_ok_bind]; simp

theorem gr_mapM_map_ok {α β γ : Type} (F : α → R β) (g : β → γ) (l : List α) :
    l.mapM (fun i => F i >>= fun c => .ok (g c)) = (l.mapM F >>= fun outs => .ok (outs.map g)) := by
  induction l with
  | nil => rfl
  | cons a l ih =>
    rw [gr_mapM_cons, gr_mapM_cons, ih]
    cases F a with
    | error e => rfl
    | ok b =>
      rw [gr_ok_bind, gr_ok_bind, gr_ok_bind]
      cases l.mapM F with
      | error e => rfl
      | ok bs => rfl

theorem gr_darn_model (r : RNSTool) (tables : Array NTTTables) (p : RnsPoly)
    (hq : ∀ i, i < r.baseQ.size → (r.baseQ.q i).WF) (hs : 1 ≤ r.baseQ.size) :
    r.divideAndRoundQLastNtt tables p =
      ((intt (tables.getD (r.baseQ.size - 1) gr_tdflt) (p.getD (r.baseQ.size - 1) #[])).toList.mapM
          (fun x => addMod x ((r.baseQ.q (r.baseQ.size - 1)).value / 2) (r.baseQ.q (r.baseQ.size - 1))) >>= fun lastc =>
       (List.range' 0 (r.baseQ.size - 1)).mapM (fun i => gr_darnComp (r.baseQ.q i) (r.baseQ.q (r.baseQ.size - 1)) ((r.baseQ.q (r.baseQ.size - 1)).value / 2)
          (r.invQLastModQ.getD i default) (gr_NL tables i) lastc (p.getD i #[]).toList) >>= fun outs =>
       .ok ((outs.map List.toArray).toArray.push lastc.toArray)) := by
  unfold RNSTool.divideAndRoundQLastNtt
  dsimp only
  rw [show RNSTool.divideAndRoundQLastNtt.dflt = gr_tdflt from rfl, gr_mapM'_eq]
  generalize intt (tables.getD (r.baseQ.size - 1) gr_tdflt) (p.getD (r.baseQ.size - 1) #[]) = lastI
  cases hm : lastI.toList.mapM (fun x => addMod x ((r.baseQ.q (r.baseQ.size - 1)).value / 2) (r.baseQ.q (r.baseQ.size - 1))) with
  | error e => rfl
  | ok lastc =>
    have hlt : ∀ x ∈ lastc, x < 2^64 := gr_mapM_forall _ (fun z => z < 2^64) (fun x y h => gr_addMod_lt _ _ _ _ h) _ _ hm
    have hh : (r.baseQ.q (r.baseQ.size - 1)).value / 2 < 2^64 := by have := (hq (r.baseQ.size - 1) (by omega)).lt; omega
    simp only [gr_ok_bind]
    refine Eq.trans (congrArg (fun m => m >>= _) (gr_mapM_congr _ (fun i => gr_darnComp (r.baseQ.q i) (r.baseQ.q (r.baseQ.size - 1)) ((r.baseQ.q (r.baseQ.size - 1)).value / 2)
            (r.invQLastModQ.getD i default) (gr_NL tables i) lastc (p.getD i #[]).toList >>= fun c => .ok c.toArray) _ ?hb)) ?rest
    case hb =>
      intro i hi
      rw [List.mem_range] at hi
      have hb := hq i (by omega)
      have hb0 : 0 < (r.baseQ.q i).value := by have := hb.two_le; omega
      have e0 : (if (r.baseQ.q i).value < (r.baseQ.q (r.baseQ.size - 1)).value then mapM' lastc.toArray (fun x => barrett64 x (r.baseQ.q i)) else pure lastc.toArray)
          = .ok (if (r.baseQ.q i).value < (r.baseQ.q (r.baseQ.size - 1)).value then lastc.map (fun x => x % (r.baseQ.q i).value) else lastc).toArray := by
        split
        · rw [mapM'_ok (g := fun x => x % (r.baseQ.q i).value) (fun x hx => barrett64_exact hb (hlt x (by simpa using hx)))]; simp
        · rfl
      rw [ite_bind_join, e0, ok_bind, barrett64_exact hb hh, ok_bind, gr_ckSub_ok (Nat.mod_lt _ hb0).le, ok_bind, gr_mapM'_eq]
      unfold gr_darnComp
      cases (if (r.baseQ.q i).value < (r.baseQ.q (r.baseQ.size - 1)).value then lastc.map (fun x => x % (r.baseQ.q i).value) else lastc).mapM
          (fun x => ckAdd x ((r.baseQ.q i).value - (r.baseQ.q (r.baseQ.size - 1)).value / 2 % (r.baseQ.q i).value)) with
      | error e => rfl
      | ok temp1 =>
        simp only [gr_ok_bind]
        rw [gr_zipM'_eq]
        unfold gr_NL
        simp only [Array.length_toList]
        cases (List.range' 0 (p.getD i #[]).size).mapM (fun j => ckSub ((r.baseQ.q i).value * 4) ((nttLazy (tables.getD i gr_tdflt) temp1.toArray).toList.getD j 0)
            >>= fun z => ckAdd ((p.getD i #[]).toList.getD j 0) z) with
        | error e => rfl
        | ok d =>
          simp only [gr_ok_bind]
          rw [mapM'_ok (g := fun x => mulOpV x (r.invQLastModQ.getD i default) (r.baseQ.q i)) (fun x _ => gr_mulOperandMod _ _ _)]
          simp
    case rest =>
      rw [List.range_eq_range', gr_mapM_map_ok]
      cases (List.range' 0 (r.baseQ.size - 1)).mapM (fun i => gr_darnComp (r.baseQ.q i) (r.baseQ.q (r.baseQ.size - 1)) ((r.baseQ.q (r.baseQ.size - 1)).value / 2)
          (r.invQLastModQ.getD i default) (gr_NL tables i) lastc (p.getD i #[]).toList) with
      | error e => rfl
      | ok outs => rfl

/-- **`RNSTool::divide_and_round_q_last_ntt_inplace` (generated from src/util/rns.rs) = the hand model**; the two abstract function inputs of
    the generated code (`inverse_ntt_negacyclic_harvey`, `ntt_negacyclic_harvey_lazy` of table `i`) are instantiated with the model's `intt` /
    `nttLazy` of `tables[i]`.  About the tables only their size parameter is used (`2^k = n`); no range assumption on the coefficients: the
    lazy additions / subtractions trap on both sides at the same point. -/
theorem gr_divide_and_round_q_last_ntt_inplace_eq (r : RNSTool) (tables : Array NTTTables) (p : RnsPoly)
    (hs : 1 ≤ r.baseQ.size) (hq : ∀ i, i < r.baseQ.size → (r.baseQ.q i).WF) (hinv : r.baseQ.size - 1 ≤ r.invQLastModQ.size)
    (hsn : r.baseQ.size * r.n < 2^64) (hs64 : r.baseQ.size < 2^64) (hp : gr_Shape r p)
    (hk : ∀ i, i < r.baseQ.size → 2^(tables.getD i gr_tdflt).k = r.n) :
    GenR.divide_and_round_q_last_ntt_inplace (flatP p) r.baseQ.size r.baseQ.base.toList r.n r.invQLastModQ.toList
        (fun i x => .ok (gr_IT tables i x)) (fun i x => .ok (gr_NL tables i x))
      = (r.divideAndRoundQLastNtt tables p).map flatP := by
  obtain ⟨hcs, hn⟩ := gr_shape_cs hp
  have hlast : gr_IT tables (r.baseQ.size - 1) ((p.toList.map Array.toList).getD (r.baseQ.size - 1) [])
      = (intt (tables.getD (r.baseQ.size - 1) gr_tdflt) (p.getD (r.baseQ.size - 1) #[])).toList := by
    unfold gr_IT; rw [gr_cs_getD]
  unfold flatP
  rw [gr_darn_list r.baseQ.base.toList r.invQLastModQ.toList r.baseQ.size r.n (gr_IT tables) (gr_NL tables) _ hs (by simp [RNSBase.size])
    (by simpa using hinv) (by intro i hi; rw [gr_q_toList]; exact hq i hi) hsn hs64 hcs hn
    (by rw [hlast, Array.length_toList, gr_intt_size _ _ (by rw [hp.2 _ (by omega), hk _ (by omega)]), hk _ (by omega)])
    (by intro i x hi hx; unfold gr_NL; rw [Array.length_toList, gr_nttLazy_size _ _ (by rw [List.size_toArray, hx, hk i (by omega)]), hk i (by omega)]),
    gr_darn_model r tables p hq hs, hlast]
  simp only [gr_q_toList, gr_cs_getD, gr_ops_toList]
  cases (intt (tables.getD (r.baseQ.size - 1) gr_tdflt) (p.getD (r.baseQ.size - 1) #[])).toList.mapM
          (fun x => addMod x ((r.baseQ.q (r.baseQ.size - 1)).value / 2) (r.baseQ.q (r.baseQ.size - 1))) with
  | error e => rfl
  | ok lastc =>
    simp only [gr_ok_bind]
    cases (List.range' 0 (r.baseQ.size - 1)).mapM (fun i => gr_darnComp (r.baseQ.q i) (r.baseQ.q (r.baseQ.size - 1)) ((r.baseQ.q (r.baseQ.size - 1)).value / 2)
          (r.invQLastModQ.getD i default) (gr_NL tables i) lastc (p.getD i #[]).toList) with
    | error e => rfl
    | ok outs =>
      simp only [gr_ok_bind]
      show Except.ok _ = Except.ok _
      congr 1
      simp [List.map_map, Function.comp_def]

/-! ### `mod_t_and_divide_q_last_inplace` (coefficient form) -/

theorem gr_foldlM_push' {α : Type} (step : Array Nat → α → R (Array Nat)) (F : α → R Nat) : ∀ (l : List α) (acc : Array Nat),
    (∀ acc x, x ∈ l → step acc x = (F x >>= fun y => .ok (acc.push y))) →
    l.foldlM step acc = (l.mapM F >>= fun ys => .ok (acc ++ ys.toArray)) := by
  intro l
  induction l with
  | nil => intro acc _; rw [gr_mapM_nil, gr_ok_bind]; simp [pure, Except.pure]
  | cons a l ih =>
    intro acc h
    rw [List.foldlM_cons, gr_mapM_cons, h acc a (by simp)]
    cases hF : F a with
    | error e => rfl
    | ok y =>
      rw [gr_ok_bind, gr_ok_bind, gr_ok_bind, ih (acc.push y) (fun acc x hx => h acc x (by simp [hx]))]
      cases l.mapM F with
      | error e => rfl
      | ok ys => rw [gr_ok_bind, gr_ok_bind, gr_ok_bind]; simp

theorem gr_mtd_model (r : RNSTool) (p : RnsPoly)
    (hq : ∀ i, i < r.baseQ.size → (r.baseQ.q i).WF) (hs : 1 ≤ r.baseQ.size) (ht : r.t.WF) (hinvt : r.invQLastModT < 2^64) (hp : gr_Shape r p)
    (hw : ∀ x ∈ p.getD (r.baseQ.size - 1) #[], x < 2^64) :
    r.modTAndDivideQLast p =
      ((List.range' 0 (r.baseQ.size - 1)).mapM (fun i => gr_mtdComp (r.baseQ.q i) (r.baseQ.q (r.baseQ.size - 1)).value (r.invQLastModQ.getD i default)
          (gr_negList r.t r.invQLastModT (p.getD (r.baseQ.size - 1) #[]).toList) (p.getD (r.baseQ.size - 1) #[]).toList (p.getD i #[]).toList) >>= fun outs =>
       .ok ((outs.map List.toArray).toArray.push (p.getD (r.baseQ.size - 1) #[]))) := by
  have ht0 : 0 < r.t.value := by have := ht.two_le; omega
  have ht61 := ht.lt
  have hL := hq (r.baseQ.size - 1) (by omega)
  have hI := hp.2 (r.baseQ.size - 1) (by omega)
  unfold RNSTool.modTAndDivideQLast
  dsimp only
  generalize p.getD (r.baseQ.size - 1) #[] = lastc at hI hw ⊢
  have h0 : mapM' lastc (fun x => do let y ← barrett64 x r.t; negateMod y r.t) = .ok (lastc.map (fun x => (r.t.value - x % r.t.value) % r.t.value)) := by
    apply mapM'_ok
    intro x hx
    rw [barrett64_exact ht (hw x hx), ok_bind]
    exact negateMod_exact ht (Nat.mod_lt _ ht0).le
  have hneg : (if r.invQLastModT ≠ 1 then mapM' (lastc.map (fun x => (r.t.value - x % r.t.value) % r.t.value)) (fun x => mulMod x r.invQLastModT r.t)
        else pure (lastc.map (fun x => (r.t.value - x % r.t.value) % r.t.value))) = .ok (gr_negList r.t r.invQLastModT lastc.toList).toArray := by
    unfold gr_negList
    by_cases h1 : r.invQLastModT ≠ 1
    · rw [if_pos h1, if_pos h1, mapM'_ok (g := fun x => (x * r.invQLastModT) % r.t.value)]
      · congr 1; apply Array.ext'; simp
      · intro x hx
        obtain ⟨y, -, rfl⟩ := Array.mem_map.mp hx
        have := Nat.mod_lt (r.t.value - y % r.t.value) ht0
        exact mulMod_exact ht (by omega) hinvt
    · rw [if_neg h1, if_neg h1]; show Except.ok _ = Except.ok _; congr 1; apply Array.ext'; simp
  rw [h0, ok_bind, ite_bind_join, hneg, ok_bind]
  have hnegw := gr_negList_lt r.t ht r.invQLastModT lastc.toList
  refine Eq.trans (congrArg (fun m => m >>= _) (gr_mapM_congr _ (fun i => gr_mtdComp (r.baseQ.q i) (r.baseQ.q (r.baseQ.size - 1)).value (r.invQLastModQ.getD i default)
          (gr_negList r.t r.invQLastModT lastc.toList) lastc.toList (p.getD i #[]).toList >>= fun c => .ok c.toArray) _ ?hb)) ?rest
  case hb =>
    intro i hi
    rw [List.mem_range] at hi
    have hb := hq i (by omega)
    have hb0 : 0 < (r.baseQ.q i).value := by have := hb.two_le; omega
    have hb61 := hb.lt
    have hpi := hp.2 i (by omega)
    rw [mapM'_ok (g := fun x => (x % (r.baseQ.q i).value * (r.baseQ.q (r.baseQ.size - 1)).value) % (r.baseQ.q i).value)
        (by intro x hx
            rw [barrett64_exact hb (hnegw x (by simpa using hx)), ok_bind]
            have := Nat.mod_lt x hb0; have := hL.lt
            exact mulMod_exact hb (by omega) (by omega)), ok_bind,
      gr_foldlM_push' _ (fun j => ckAdd ((p.getD i #[]).getD j 0) ((r.baseQ.q i).value * 2 - lastc.getD j 0 % (r.baseQ.q i).value
          - ((gr_negList r.t r.invQLastModT lastc.toList).toArray.map (fun x => (x % (r.baseQ.q i).value * (r.baseQ.q (r.baseQ.size - 1)).value) % (r.baseQ.q i).value)).getD j 0))
        _ _ (by
          intro acc j _
          have hc : lastc.getD j 0 < 2^64 := getD_lt_of_forall hw (by norm_num) j
          have hm := Nat.mod_lt (lastc.getD j 0) hb0
          have hd : ((gr_negList r.t r.invQLastModT lastc.toList).toArray.map
              (fun x => (x % (r.baseQ.q i).value * (r.baseQ.q (r.baseQ.size - 1)).value) % (r.baseQ.q i).value)).getD j 0 < (r.baseQ.q i).value := by
            apply getD_lt_of_forall _ hb0
            intro x hx
            obtain ⟨y, -, rfl⟩ := Array.mem_map.mp hx
            exact Nat.mod_lt _ hb0
          rw [barrett64_exact hb hc, ok_bind, gr_ckSub_ok (by omega), ok_bind, gr_ckSub_ok (by omega), ok_bind]
          rfl)]
    unfold gr_mtdComp
    simp only [Array.length_toList, hpi, List.range_eq_range', gr_arr_getD, List.map_toArray]
    cases (List.range' 0 r.n).mapM (fun j => ckAdd ((p.getD i #[]).toList.getD j 0) ((r.baseQ.q i).value * 2 - lastc.toList.getD j 0 % (r.baseQ.q i).value
          - ((gr_negList r.t r.invQLastModT lastc.toList).map (fun x => (x % (r.baseQ.q i).value * (r.baseQ.q (r.baseQ.size - 1)).value) % (r.baseQ.q i).value)).getD j 0)) with
    | error e => rfl
    | ok d =>
      simp only [gr_ok_bind]
      rw [mapM'_ok (g := fun x => mulOpV x (r.invQLastModQ.getD i default) (r.baseQ.q i)) (fun x _ => gr_mulOperandMod _ _ _)]
      simp
  case rest =>
    rw [List.range_eq_range', gr_mapM_map_ok]
    cases (List.range' 0 (r.baseQ.size - 1)).mapM (fun i => gr_mtdComp (r.baseQ.q i) (r.baseQ.q (r.baseQ.size - 1)).value (r.invQLastModQ.getD i default)
          (gr_negList r.t r.invQLastModT lastc.toList) lastc.toList (p.getD i #[]).toList) with
    | error e => rfl
    | ok outs => rfl

/-- **`RNSTool::mod_t_and_divide_q_last_inplace` (generated from src/util/rns.rs) = the hand model** on flat buffers; the trapping `+=` of the
    inner loop traps on both sides at the same coefficient -/
theorem gr_mod_t_and_divide_q_last_inplace_eq (r : RNSTool) (p : RnsPoly)
    (hs : 1 ≤ r.baseQ.size) (hq : ∀ i, i < r.baseQ.size → (r.baseQ.q i).WF) (ht : r.t.WF) (hinvt : r.invQLastModT < 2^64)
    (hinv : r.baseQ.size - 1 ≤ r.invQLastModQ.size) (hsn : r.baseQ.size * r.n < 2^64) (hs64 : r.baseQ.size < 2^64) (hp : gr_Shape r p)
    (hw : ∀ x ∈ p.getD (r.baseQ.size - 1) #[], x < 2^64) :
    GenR.mod_t_and_divide_q_last_inplace (flatP p) r.baseQ.size r.baseQ.base.toList r.n r.invQLastModQ.toList r.t r.invQLastModT
      = (r.modTAndDivideQLast p).map flatP := by
  obtain ⟨hcs, hn⟩ := gr_shape_cs hp
  unfold flatP
  rw [gr_mtd_list r.baseQ.base.toList r.invQLastModQ.toList r.t r.invQLastModT r.baseQ.size r.n _ hs (by simp [RNSBase.size])
    (by simpa using hinv) (by intro i hi; rw [gr_q_toList]; exact hq i hi) ht hinvt hsn hs64 hcs hn
    (by rw [gr_cs_getD]; intro x hx; exact hw x (by simpa using hx)),
    gr_mtd_model r p hq hs ht hinvt hp hw]
  simp only [gr_q_toList, gr_cs_getD, gr_ops_toList]
  cases (List.range' 0 (r.baseQ.size - 1)).mapM (fun i => gr_mtdComp (r.baseQ.q i) (r.baseQ.q (r.baseQ.size - 1)).value (r.invQLastModQ.getD i default)
          (gr_negList r.t r.invQLastModT (p.getD (r.baseQ.size - 1) #[]).toList) (p.getD (r.baseQ.size - 1) #[]).toList (p.getD i #[]).toList) with
  | error e => rfl
  | ok outs =>
    simp only [gr_ok_bind]
    show Except.ok _ = Except.ok _
    congr 1
    simp [List.map_map, Function.comp_def]

theorem gr_mtd_shape {r : RNSTool} {p out : RnsPoly} (hq : ∀ i, i < r.baseQ.size → (r.baseQ.q i).WF) (hs : 1 ≤ r.baseQ.size) (ht : r.t.WF)
    (hinvt : r.invQLastModT < 2^64) (hp : gr_Shape r p) (hw : ∀ x ∈ p.getD (r.baseQ.size - 1) #[], x < 2^64)
    (h : r.modTAndDivideQLast p = .ok out) : gr_Shape r out := by
  rw [gr_mtd_model r p hq hs ht hinvt hp hw] at h
  cases hm : (List.range' 0 (r.baseQ.size - 1)).mapM (fun i => gr_mtdComp (r.baseQ.q i) (r.baseQ.q (r.baseQ.size - 1)).value (r.invQLastModQ.getD i default)
          (gr_negList r.t r.invQLastModT (p.getD (r.baseQ.size - 1) #[]).toList) (p.getD (r.baseQ.size - 1) #[]).toList (p.getD i #[]).toList) with
  | error e => rw [hm] at h; cases h
  | ok outs =>
    rw [hm, gr_ok_bind] at h
    cases h
    have hol : outs.length = r.baseQ.size - 1 := by rw [gr_mapM_length _ _ _ hm, List.length_range']
    have hoc : ∀ c ∈ outs, c.length = r.n := by
      intro c0 hc0
      refine (gr_mapM_forall' _ (fun _ c => c.length = r.n) _ ?_ _ hm c0 hc0).elim (fun _ h => h.2)
      intro i hi c hc
      rw [List.mem_range'_1] at hi
      unfold gr_mtdComp at hc
      cases hd : (List.range' 0 (p.getD i #[]).toList.length).mapM (fun j => ckAdd ((p.getD i #[]).toList.getD j 0)
          ((r.baseQ.q i).value * 2 - (p.getD (r.baseQ.size - 1) #[]).toList.getD j 0 % (r.baseQ.q i).value -
            ((gr_negList r.t r.invQLastModT (p.getD (r.baseQ.size - 1) #[]).toList).map
              (fun x => (x % (r.baseQ.q i).value * (r.baseQ.q (r.baseQ.size - 1)).value) % (r.baseQ.q i).value)).getD j 0)) with
      | error e => rw [hd] at hc; cases hc
      | ok d =>
        rw [hd, gr_ok_bind] at hc; cases hc
        rw [List.length_map, gr_mapM_length _ _ _ hd, List.length_range', Array.length_toList, hp.2 i (by omega)]
    have key : ∀ i, ((outs.map List.toArray).toArray.push (p.getD (r.baseQ.size - 1) #[])).getD i #[]
        = ((outs.map List.toArray) ++ [p.getD (r.baseQ.size - 1) #[]]).getD i #[] := by
      intro i; simp [Array.getD_eq_getD_getElem?, List.getD_eq_getElem?_getD]
    refine ⟨by simp [hol]; omega, ?_⟩
    intro i hi
    rw [key]
    by_cases his : i < r.baseQ.size - 1
    · rw [gr_getD_append_left _ _ _ _ (by rw [List.length_map, hol]; exact his), List.getD_eq_getElem?_getD, List.getElem?_map,
        List.getElem?_eq_getElem (by omega)]
      show (outs[i]).toArray.size = r.n
      rw [List.size_toArray]
      exact hoc _ (List.getElem_mem _)
    · have : i = r.baseQ.size - 1 := by omega
      subst this
      rw [gr_getD_append_right _ _ _ _ (by rw [List.length_map, hol]), List.length_map, hol, Nat.sub_self]
      exact hp.2 _ (by omega)

/-- **END TO END (C10, BGV division, coefficient form)**: the function generated from the Rust source of `RNSTool::mod_t_and_divide_q_last_inplace`,
    run on the flat buffer of a polynomial holding the canonical residues of integers `X j`, returns at position `i·n + j` the residue mod `q_i` of
    y = (X − [X]_{q_L})/q_L − [−X·q_L⁻¹]_t, and y·q_L ≡ X (mod t). -/
theorem gr_mod_t_and_divide_q_last_inplace_bgv (r : RNSTool) (p : RnsPoly) (X : Nat → Nat)
    (hq : ∀ i, i < r.baseQ.size → (r.baseQ.q i).WF) (hs : 2 ≤ r.baseQ.size) (ht : r.t.WF)
    (hinv : ∀ i, i < r.baseQ.size - 1 → WFOp (r.baseQ.q i) (r.invQLastModQ.getD i default) ∧
        ((r.invQLastModQ.getD i default).operand * (r.baseQ.q (r.baseQ.size - 1)).value) % (r.baseQ.q i).value = 1)
    (hinvt : (r.invQLastModT * (r.baseQ.q (r.baseQ.size - 1)).value) % r.t.value = 1) (hit : r.invQLastModT < r.t.value)
    (hinvs : r.baseQ.size - 1 ≤ r.invQLastModQ.size)
    (hsn : r.baseQ.size * r.n < 2^64) (hs64 : r.baseQ.size < 2^64) (hp : gr_Shape r p)
    (hX : ∀ i j, i < r.baseQ.size → j < r.n → (p.getD i #[]).getD j 0 = X j % (r.baseQ.q i).value) :
    ∃ out, GenR.mod_t_and_divide_q_last_inplace (flatP p) r.baseQ.size r.baseQ.base.toList r.n r.invQLastModQ.toList r.t r.invQLastModT = .ok out ∧
      ∀ i j, i < r.baseQ.size - 1 → j < r.n →
        let qL := (r.baseQ.q (r.baseQ.size - 1)).value
        let y : Int := ((X j - X j % qL) / qL : Nat) - ((((r.t.value - (X j % qL) % r.t.value) % r.t.value) * r.invQLastModT) % r.t.value : Nat)
        (out.getD (i * r.n + j) 0 : Int) = y % ((r.baseQ.q i).value : Int) ∧ (y * qL - X j) % (r.t.value : Int) = 0 := by
  have ht61 := ht.lt
  have hc : ∀ i j, i < r.baseQ.size → j < r.n → (p.getD i #[]).getD j 0 < (r.baseQ.q i).value := by
    intro i j hi hj; rw [hX i j hi hj]; exact Nat.mod_lt _ (by have := (hq i hi).two_le; omega)
  have hw : ∀ x ∈ p.getD (r.baseQ.size - 1) #[], x < 2^64 := by
    apply mem_lt_of_getD
    intro j hj
    rw [hp.2 _ (by omega)] at hj
    have := hc _ j (show r.baseQ.size - 1 < r.baseQ.size by omega) hj
    have := (hq (r.baseQ.size - 1) (by omega)).lt
    omega
  obtain ⟨o, ho, hv⟩ := modTAndDivideQLast_spec hq hs ht (by omega) (fun i hi => (hinv i hi).1) (hp.2 _ (by omega))
    (fun j hj => by have := hc _ j (show r.baseQ.size - 1 < r.baseQ.size by omega) hj; have := (hq (r.baseQ.size - 1) (by omega)).lt; omega)
    (fun i j hi hj => by have := hc i j (by omega) hj; have := (hq i (by omega)).lt; omega)
  have hsh := gr_mtd_shape hq (by omega) ht (by omega) hp hw ho
  refine ⟨flatP o, ?_, ?_⟩
  · rw [gr_mod_t_and_divide_q_last_inplace_eq r p (by omega) hq ht (by omega) hinvs hsn hs64 hp hw, ho]; rfl
  · intro i j hi hj
    rw [gr_flatP_getD hsh (by omega) hj, hv i j hi hj, hX _ j (by omega) hj, hX i j (by omega) hj]
    have := modTDivLast_scalar (x := X j) ht.two_le (hq _ (by omega)).two_le (hq i (by omega)).two_le (hinv i hi).2 hinvt hit
    exact ⟨this.1, this.2.1⟩

/-! ### `sm_mrq` -/

theorem gr_sm_model (r : RNSTool) (p : RnsPoly) :
    r.smMrq p =
      ((List.range' 0 r.baseBsk.size).mapM (fun i => gr_smComp (r.baseBsk.q i) r.mTilde (r.mTilde.value / 2) (r.prodQModBsk.getD i 0) (r.invMtModBsk.getD i default)
          ((p.getD r.baseBsk.size #[]).toList.map (fun x => mulOpV x r.negInvProdQModMt r.mTilde)) (p.getD i #[]).toList) >>= fun outs =>
       .ok (outs.map List.toArray).toArray) := by
  unfold RNSTool.smMrq
  dsimp only
  rw [mapM'_ok (g := fun x => mulOpV x r.negInvProdQModMt r.mTilde) (fun x _ => gr_mulOperandMod _ _ _), ok_bind]
  refine Eq.trans (congrArg (fun m => m >>= _) (gr_mapM_congr _ (fun i => gr_smComp (r.baseBsk.q i) r.mTilde (r.mTilde.value / 2) (r.prodQModBsk.getD i 0)
          (r.invMtModBsk.getD i default) ((p.getD r.baseBsk.size #[]).toList.map (fun x => mulOpV x r.negInvProdQModMt r.mTilde)) (p.getD i #[]).toList
          >>= fun c => .ok c.toArray) _ ?hb)) ?rest
  case hb =>
    intro i _
    unfold gr_smComp
    cases MulOperand.new (r.prodQModBsk.getD i 0) (r.baseBsk.q i) with
    | error e => rfl
    | ok pq =>
      simp only [gr_ok_bind]
      rw [gr_zipM'_eq]
      simp only [Array.size_map, Array.toList_map, List.length_map, Array.length_toList]
      have hcg : (List.range' 0 (p.getD r.baseBsk.size #[]).size).mapM (fun j =>
            (do
              let temp ← if ((p.getD r.baseBsk.size #[]).toList.map (fun x => mulOpV x r.negInvProdQModMt r.mTilde)).getD j 0 ≥ r.mTilde.value / 2 then do
                    let d ← ckSub (r.baseBsk.q i).value r.mTilde.value
                    ckAdd (((p.getD r.baseBsk.size #[]).toList.map (fun x => mulOpV x r.negInvProdQModMt r.mTilde)).getD j 0) d
                  else pure (((p.getD r.baseBsk.size #[]).toList.map (fun x => mulOpV x r.negInvProdQModMt r.mTilde)).getD j 0)
              let u ← mulOperandAddMod temp pq ((p.getD i #[]).toList.getD j 0) (r.baseBsk.q i)
              mulOperandMod u (r.invMtModBsk.getD i default) (r.baseBsk.q i)))
          = (List.range' 0 (p.getD r.baseBsk.size #[]).size).mapM (fun j => gr_smElt (r.baseBsk.q i) r.mTilde (r.mTilde.value / 2) pq (r.invMtModBsk.getD i default)
              (((p.getD r.baseBsk.size #[]).toList.map (fun x => mulOpV x r.negInvProdQModMt r.mTilde)).getD j 0) ((p.getD i #[]).toList.getD j 0)) := by
        apply gr_mapM_congr
        intro j _
        unfold gr_smElt
        split
        · cases ckSub (r.baseBsk.q i).value r.mTilde.value with
          | error e => rfl
          | ok d =>
            cases ckAdd (((p.getD r.baseBsk.size #[]).toList.map (fun x => mulOpV x r.negInvProdQModMt r.mTilde)).getD j 0) d with
            | error e => rfl
            | ok t => rfl
        · rfl
      rw [hcg]
  case rest =>
    rw [List.range_eq_range', gr_mapM_map_ok]
    cases (List.range' 0 r.baseBsk.size).mapM (fun i => gr_smComp (r.baseBsk.q i) r.mTilde (r.mTilde.value / 2) (r.prodQModBsk.getD i 0) (r.invMtModBsk.getD i default)
          ((p.getD r.baseBsk.size #[]).toList.map (fun x => mulOpV x r.negInvProdQModMt r.mTilde)) (p.getD i #[]).toList) with
    | error e => rfl
    | ok outs => rfl

theorem gr_shape_cs' {p : RnsPoly} {s n : Nat} (h1 : p.size = s) (h2 : ∀ i, i < s → (p.getD i #[]).size = n) :
    (p.toList.map Array.toList).length = s ∧ ∀ c ∈ p.toList.map Array.toList, c.length = n := by
  refine ⟨by simp [h1], ?_⟩
  intro c hc
  obtain ⟨a, ha, rfl⟩ := List.mem_map.mp hc
  obtain ⟨i, hi, rfl⟩ := List.getElem_of_mem ha
  have hi' : i < p.size := by simpa using hi
  have := h2 i (by rw [← h1]; exact hi')
  rw [Array.length_toList]
  simpa [Array.getD_eq_getD_getElem?, hi'] using this

theorem gr_baseq_toList (b : RNSBase) (i : Nat) : b.base.toList.getD i gr_dflt = b.q i := gr_q_toList b i

/-- **`RNSTool::sm_mrq` (generated from src/util/rns.rs) = the hand model**: input = flat buffer of the `|Bsk| + 1` components (last one mod m̃),
    destination = any flat buffer of `|Bsk|` components (its old contents are irrelevant).  All checked operations of the routine (the operand set-up
    `MultiplyU64ModOperand::new`, `temp += b − m̃`, the multiply-add) trap on both sides alike: no well-formedness hypotheses. -/
theorem gr_sm_mrq_eq (r : RNSTool) (p d : RnsPoly)
    (hp1 : p.size = r.baseBsk.size + 1) (hp2 : ∀ i, i < r.baseBsk.size + 1 → (p.getD i #[]).size = r.n)
    (hd1 : d.size = r.baseBsk.size) (hd2 : ∀ i, i < r.baseBsk.size → (d.getD i #[]).size = r.n)
    (hpq : r.prodQModBsk.size = r.baseBsk.size) (hpqw : ∀ x ∈ r.prodQModBsk, x < 2^64) (hinv : r.baseBsk.size ≤ r.invMtModBsk.size)
    (hsn : (r.baseBsk.size + 1) * r.n < 2^64) (hs64 : r.baseBsk.size + 1 < 2^64) :
    GenR.sm_mrq (flatP p) (flatP d) r.baseBsk.size r.baseBsk.base.toList r.n r.mTilde r.negInvProdQModMt r.prodQModBsk.toList r.invMtModBsk.toList
      = (r.smMrq p).map flatP := by
  obtain ⟨hcs, hn⟩ := gr_shape_cs' hp1 hp2
  obtain ⟨hds, hdn⟩ := gr_shape_cs' hd1 hd2
  unfold flatP
  rw [gr_sm_list _ _ r.baseBsk.base.toList r.prodQModBsk.toList r.invMtModBsk.toList r.mTilde r.negInvProdQModMt r.baseBsk.size r.n
    (by simp [RNSBase.size]) (by simpa using hpq) (by intro x hx; exact hpqw x (by simpa using hx)) (by simpa using hinv) hsn hs64 hcs hn hds hdn,
    gr_sm_model r p]
  simp only [gr_q_toList, gr_cs_getD, gr_ops_toList, ← gr_arr_getD]
  cases (List.range' 0 r.baseBsk.size).mapM (fun i => gr_smComp (r.baseBsk.q i) r.mTilde (r.mTilde.value / 2) (r.prodQModBsk.getD i 0) (r.invMtModBsk.getD i default)
          ((p.getD r.baseBsk.size #[]).toList.map (fun x => mulOpV x r.negInvProdQModMt r.mTilde)) (p.getD i #[]).toList) with
  | error e => rfl
  | ok outs =>
    simp only [gr_ok_bind]
    show Except.ok _ = Except.ok _
    congr 1
    simp [List.map_map, Function.comp_def]
