import Heathcliff.Gen.NttFns
import Heathcliff.Model.NTT
import Heathcliff.Proofs.GenWord

/-!
  Translator tie for the lazy modular arithmetic of the NTT butterflies: `impl Arithmetic for ModArithLazy` and `ModArithLazy::new`
  (src/util/ntt.rs), generated into `Heathcliff/Gen/NttFns.lean` (namespace `HC.GenN`), against the instance `HC.modArithLazy`
  of `Heathcliff/Model/NTT.lean` — the `Arith` record `fwdLayer`/`invLayer` are run with and the C09 theorems are about.
  The hand model uses plain `Nat` `+`/`-` (its theorems show the documented ranges exclude overflow); the code is overflow-checked.
  Hence the hypotheses: they are exactly "the checked operation does not trap".  Helper names start with `gx_`.
-/
namespace HC
open HC.GenN

/-- `ModArithLazy::new`: the modulus is stored, `two_times_modulus = value << 1` (a shift does not trap: exact below 2^63) -/
theorem gx_mal_new_modulus (m : Modulus) : (GenN.mal_new m).modulus = m := rfl

theorem gx_mal_new_two (m : Modulus) (hm : m.value < 2^63) : (GenN.mal_new m).two_times_modulus = 2 * m.value := by
  show (m.value <<< 1) % B64 = 2 * m.value
  have hB : B64 = 2^64 := by decide
  rw [Nat.shiftLeft_eq, hB, Nat.pow_one, Nat.mod_eq_of_lt (by omega), Nat.mul_comm]

/-- `add`: `a + b` (checked) -/
theorem gx_mal_add_eq (s : GenN.ModArithLazy) (m : Modulus) (a b : Nat) (h : a + b < 2^64) :
    GenN.mal_add s a b = .ok ((modArithLazy m).add a b) := by
  unfold GenN.mal_add ckAdd
  have hB : B64 = 2^64 := by decide
  rw [if_pos (by rw [hB]; exact h)]; rfl

/-- `sub`: `a + two_times_modulus - b` (both steps checked) -/
theorem gx_mal_sub_eq (s : GenN.ModArithLazy) (m : Modulus) (a b : Nat) (hs : s.two_times_modulus = 2 * m.value)
    (h1 : a + 2 * m.value < 2^64) (h2 : b ≤ a + 2 * m.value) :
    GenN.mal_sub s a b = .ok ((modArithLazy m).sub a b) := by
  unfold GenN.mal_sub ckAdd ckSub
  have hB : B64 = 2^64 := by decide
  rw [hs, if_pos (by rw [hB]; exact h1)]
  simp only [bind, Except.bind]
  rw [if_pos h2]; rfl

/-- `mul_root` / `mul_scalar`: `multiply_u64operand_mod_lazy` with the stored modulus (no hypotheses) -/
theorem gx_mal_mul_root_eq (s : GenN.ModArithLazy) (m : Modulus) (a : Nat) (r : MulOperand) (hs : s.modulus = m) :
    GenN.mal_mul_root s a r = (modArithLazy m).mulRoot a r := by
  unfold GenN.mal_mul_root; rw [hs, gw_multiply_u64operand_mod_lazy_eq]; rfl

theorem gx_mal_mul_scalar_eq (s : GenN.ModArithLazy) (m : Modulus) (a : Nat) (r : MulOperand) (hs : s.modulus = m) :
    GenN.mal_mul_scalar s a r = (modArithLazy m).mulRoot a r := by
  unfold GenN.mal_mul_scalar; rw [hs, gw_multiply_u64operand_mod_lazy_eq]; rfl

/-- `guard`: one conditional subtraction of `two_times_modulus` (no range hypothesis: the subtraction is guarded by the comparison) -/
theorem gx_mal_guard_eq (s : GenN.ModArithLazy) (m : Modulus) (a : Nat) (hs : s.two_times_modulus = 2 * m.value) :
    GenN.mal_guard s a = .ok ((modArithLazy m).guard a) := by
  unfold GenN.mal_guard ckSub
  rw [hs]
  by_cases h : a ≥ 2 * m.value
  · rw [if_pos h, if_pos h]; show _ = Except.ok (if a ≥ 2 * m.value then a - 2 * m.value else a); rw [if_pos h]
  · rw [if_neg h]; show _ = Except.ok (if a ≥ 2 * m.value then a - 2 * m.value else a); rw [if_neg h]; rfl

/-! ### the same facts for the value `ModArithLazy::new(modulus)` the tables are built with -/
theorem gx_new_add_eq (m : Modulus) (a b : Nat) (h : a + b < 2^64) :
    GenN.mal_add (GenN.mal_new m) a b = .ok ((modArithLazy m).add a b) := gx_mal_add_eq _ m a b h

theorem gx_new_sub_eq (m : Modulus) (hm : m.value < 2^63) (a b : Nat) (h1 : a + 2 * m.value < 2^64) (h2 : b ≤ a + 2 * m.value) :
    GenN.mal_sub (GenN.mal_new m) a b = .ok ((modArithLazy m).sub a b) := gx_mal_sub_eq _ m a b (gx_mal_new_two m hm) h1 h2

theorem gx_new_mul_root_eq (m : Modulus) (a : Nat) (r : MulOperand) :
    GenN.mal_mul_root (GenN.mal_new m) a r = (modArithLazy m).mulRoot a r := gx_mal_mul_root_eq _ m a r rfl

theorem gx_new_mul_scalar_eq (m : Modulus) (a : Nat) (r : MulOperand) :
    GenN.mal_mul_scalar (GenN.mal_new m) a r = (modArithLazy m).mulRoot a r := gx_mal_mul_scalar_eq _ m a r rfl

theorem gx_new_guard_eq (m : Modulus) (hm : m.value < 2^63) (a : Nat) :
    GenN.mal_guard (GenN.mal_new m) a = .ok ((modArithLazy m).guard a) := gx_mal_guard_eq _ m a (gx_mal_new_two m hm)

/-! ### is_primitive_root (src/util/number_theory.rs) against `isPrimitiveRoot` of Model/NTT.lean -/
/-- `modulus.value() - 1` is overflow-checked in the code (traps for the zero modulus), truncated in the hand model: hence `1 ≤ m.value` -/
theorem gx_is_primitive_root_eq (root degree : Nat) (m : Modulus) (hm : 1 ≤ m.value) :
    GenN.is_primitive_root root degree m = isPrimitiveRoot root degree m := by
  unfold GenN.is_primitive_root isPrimitiveRoot
  by_cases h0 : root = 0
  · simp only [h0, if_true]; rfl
  · have hs : ckSub m.value 1 = .ok (m.value - 1) := by unfold ckSub; rw [if_pos hm]
    simp only [h0, if_false, gw_exponentiate_u64_mod_eq, Nat.shiftRight_eq_div_pow, Nat.pow_one, hs, bind, Except.bind]

end HC
