/-
  Phase 4m, part 6: `poly_infty_norm` (src/encryptor.rs) as regenerated = the norm fold of `noiseBudget` (Model/Scheme.lean) on the values
  of the multi-word coefficients; composition with the budget tail.
-/
import Heathcliff.Proofs.GenDec3
namespace HC
open HC.GenDec

/-- the model's fold (`noiseBudget`: `vals.foldl (fun acc v => let a := if v ≥ negThr then Q - v else v; if a > acc then a else acc) 0`) -/
def normFoldV (Q thr : Nat) (vs : List Nat) (acc : Nat) : Nat :=
  vs.foldl (fun acc v => let a := if v ≥ thr then Q - v else v; if a > acc then a else acc) acc

/-- coefficient `i` of a flat array of `k`-word values -/
def coefW (poly : List Nat) (k i : Nat) : List Nat := (poly.drop (i * k)).take k

theorem gd_coefW_length (poly : List Nat) (k i : Nat) (h : (i + 1) * k ≤ poly.length) : (coefW poly k i).length = k := by
  unfold coefW; rw [List.length_take, List.length_drop]
  have : (i + 1) * k = i * k + k := by rw [Nat.add_mul, Nat.one_mul]
  omega

theorem gd_coefW_limbs (poly : List Nat) (k i : Nat) (h : Limbs poly) : Limbs (coefW poly k i) := by
  intro x hx; unfold coefW at hx
  exact h x (List.mem_of_mem_drop (List.mem_of_mem_take hx))

/-- GENERATED loop of `poly_infty_norm`, one pass (fuel + 1): coefficient `i` = words `i·k .. (i+1)·k`, then `normStepW` -/
theorem gd_norm_loop_succ (poly : List Nat) (k : Nat) (Q thr : List Nat) (cnt fuel i : Nat) (acc abs : List Nat)
    (h1 : (i + 1) * k ≤ poly.length) (h2 : poly.length < 2^64) (hk : 1 ≤ k) :
    poly_infty_norm_loop1 poly k Q thr cnt (fuel+1) i acc abs =
      (normStepW Q thr acc abs (coefW poly k i) >>= fun p => poly_infty_norm_loop1 poly k Q thr cnt fuel (i+1) p.1 p.2) := by
  have e0 : (i + 1) * k = i * k + k := by rw [Nat.add_mul, Nat.one_mul]
  have e1 : i + 1 ≤ (i + 1) * k := Nat.le_mul_of_pos_right _ hk
  have hm1 : ckMul i k = .ok (i * k) := by unfold ckMul; rw [if_pos (by simp only [B64]; omega)]
  have ha : ckAdd i 1 = .ok (i + 1) := by unfold ckAdd; rw [if_pos (by simp only [B64]; omega)]
  have hm2 : ckMul (i + 1) k = .ok ((i + 1) * k) := by unfold ckMul; rw [if_pos (by simp only [B64]; omega)]
  have hs : GenR.slice poly (i * k) ((i + 1) * k) = .ok (coefW poly k i) := by
    unfold GenR.slice coefW; rw [if_pos ⟨by omega, h1⟩]; congr 2; omega
  conv_lhs => unfold poly_infty_norm_loop1
  simp only [hm1, ha, hm2, hs, bind, Except.bind, gq_is_greater_than_or_equal_uint_eq, is_greater_than_uint, gq_compare_uint_eq, gx_sub_uint_eq,
    normStepW, pure, Except.pure]
  by_cases hge : geUint (coefW poly k i) thr = true
  · simp only [hge, if_true]
    cases subUint Q (coefW poly k i) abs.length with
    | error e => rfl
    | ok p =>
      obtain ⟨d, bw⟩ := p
      simp only []
      by_cases hgt : gq_ofInt (compareUint d acc) = .gt
      · simp only [hgt, decide_true, if_true]
        cases copyWhole acc d <;> rfl
      · simp only [hgt, decide_false, if_false, Bool.false_eq_true]
  · simp only [hge, if_false, Bool.false_eq_true]
    cases copyWhole abs (coefW poly k i) with
    | error e => rfl
    | ok d =>
      simp only []
      by_cases hgt : gq_ofInt (compareUint d acc) = .gt
      · simp only [hgt, decide_true, if_true]
        cases copyWhole acc d <;> rfl
      · simp only [hgt, decide_false, if_false, Bool.false_eq_true]

theorem gd_normFoldV_cons (Q thr v : Nat) (vs : List Nat) (acc : Nat) :
    normFoldV Q thr (v :: vs) acc = normFoldV Q thr vs (max acc (if thr ≤ v then Q - v else v)) := by
  unfold normFoldV
  rw [List.foldl_cons]
  congr 1
  simp only [ge_iff_le, gt_iff_lt]
  split_ifs <;> omega

/-- the whole loop: `cnt - i` passes from coefficient `i` compute the fold over the coefficient VALUES -/
theorem gd_norm_loop_spec (poly : List Nat) (k : Nat) (Q thr : List Nat) (cnt : Nat) (hk : 1 ≤ k)
    (hQ : Limbs Q) (hthr : Limbs thr) (hp : Limbs poly) (lQ : Q.length = k) (hlen : poly.length = cnt * k) (h64 : poly.length < 2^64)
    (hcQ : ∀ j, j < cnt → toNat (coefW poly k j) ≤ toNat Q) :
    ∀ (f i : Nat) (acc abs : List Nat), i + f = cnt → Limbs acc → acc.length = k → abs.length = k →
      ∃ r, poly_infty_norm_loop1 poly k Q thr cnt f i acc abs = .ok r ∧ r.length = k ∧ Limbs r ∧
        toNat r = normFoldV (toNat Q) (toNat thr) ((List.range' i f).map (fun j => toNat (coefW poly k j))) (toNat acc) := by
  intro f
  induction f with
  | zero =>
    intro i acc abs _ hacc lacc _
    exact ⟨acc, rfl, lacc, hacc, by simp [normFoldV]⟩
  | succ f ih =>
    intro i acc abs hif hacc lacc labs
    have hi : (i + 1) * k ≤ poly.length := by rw [hlen]; exact Nat.mul_le_mul_right k (by omega)
    rw [gd_norm_loop_succ poly k Q thr cnt f i acc abs hi h64 hk]
    obtain ⟨acc', abs', hstep, lacc', labs', hacc', hv⟩ :=
      gd_normStepW_spec Q thr acc abs (coefW poly k i) k hk hQ hthr hacc (gd_coefW_limbs poly k i hp) lQ lacc labs
        (gd_coefW_length poly k i hi) (hcQ i (by omega))
    rw [hstep]
    obtain ⟨r, hr, lr, hrL, hrv⟩ := ih (i + 1) acc' abs' (by omega) hacc' lacc' labs'
    refine ⟨r, hr, lr, hrL, ?_⟩
    rw [hrv, List.range'_succ, List.map_cons, gd_normFoldV_cons, hv]

/-- GENERATED `poly_infty_norm` = the model's norm fold on the coefficient values, GIVEN that `half_round_up_uint(modulus)` returned the
    threshold `thr` (generated in Gen/DecFns.lean; its value `(Q + 1) / 2` is the hand model's `halfRoundUp_spec`, C08). -/
theorem gd_poly_infty_norm_spec (poly : List Nat) (k : Nat) (Q thr res : List Nat) (cnt : Nat) (hk : 1 ≤ k)
    (hQ : Limbs Q) (hp : Limbs poly) (lQ : Q.length = k) (lres : res.length = k) (hlen : poly.length = cnt * k) (h64 : poly.length < 2^64)
    (hcQ : ∀ j, j < cnt → toNat (coefW poly k j) ≤ toNat Q)
    (hthr : half_round_up_uint Q (List.replicate k 0) = .ok thr) (hthrL : Limbs thr) :
    ∃ r, poly_infty_norm poly k Q res = .ok r ∧ r.length = k ∧ Limbs r ∧
      toNat r = normFoldV (toNat Q) (toNat thr) ((List.range' 0 cnt).map (fun j => toNat (coefW poly k j))) 0 := by
  rw [gd_poly_infty_norm_unfold, if_pos lQ, hthr]
  have hdiv : GenW.ckDiv poly.length k = .ok cnt := by
    unfold GenW.ckDiv; rw [if_neg (by omega), hlen, Nat.mul_div_cancel _ (by omega)]
  simp only [hdiv, bind, Except.bind, lres]
  have hz : Limbs (List.replicate k 0) := by intro x hx; rw [List.mem_replicate] at hx; rw [hx.2]; decide
  obtain ⟨r, hr, lr, hrL, hrv⟩ := gd_norm_loop_spec poly k Q thr cnt hk hQ hthrL hp lQ hlen h64 hcQ cnt 0 (List.replicate k 0) (List.replicate k 0)
    (by omega) hz (by simp) (by simp)
  refine ⟨r, hr, lr, hrL, ?_⟩
  rw [hrv, toNat_replicate_zero]

end HC
