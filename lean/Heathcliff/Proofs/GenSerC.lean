/-
  Translator phase 4i (stream mode), ciphertext level: `Ciphertext::serialize_full` (Gen/SerFns.lean `ct_serialize_full`, translated with the
  context lookup read as the level `lv` and the ciphertext as the view `CtV`) is the chunk program of the model's `ctFullC`.
  Helper prefix `gc_`.
-/
import Heathcliff.Proofs.GenSerP
namespace HC.GS
open HC HC.Codec HC.GenS

variable {S E : Type}

theorem gc_full_loop (st : WStream S E) (l : List Nat) (acc : Nat) :
    ct_serialize_full_loop1 st l acc
      = wbind (runChunks st (seqChunks (List.replicate l.length u64C) l)) fun n => wpure (acc + n) := by
  induction l generalizing acc with
  | nil => simp [ct_serialize_full_loop1, seqChunks, runChunks, wbind_wpure]
  | cons x xs ih =>
    simp only [ct_serialize_full_loop1, List.length_cons, List.replicate_succ, seqChunks, runChunks_append, gs_u64_serialize, ih,
      wbind_assoc, wbind_wpure]
    congr 1; funext n; congr 1; funext m; rw [Nat.add_assoc]

/-- the wire tuple's scheme-dependent field -/
def fullExtra (lv : Level) (c : CtFull) : List Nat :=
  if lv.scheme == 2 then [c.scale] else if lv.scheme == 3 then [c.cf] else []

theorem gc_full_chunks (ctx : Ctx) (expand : List Nat → Level → List Nat) (c : CtFull) :
    (ctFullC ctx expand).chunks c =
      pidC.chunks c.pid ++ (usizeC.chunks c.size ++ (boolC.chunks c.ntt ++
        ((extraC ((ctx.find c.pid).getD noLevel).scheme).chunks (fullExtra ((ctx.find c.pid).getD noLevel) c) ++
          (vecC u64C).chunks (c.data.take (fullSent ((ctx.find c.pid).getD noLevel) c))))) := rfl

/-- `Ciphertext::serialize_full` = the chunk program of `ctFullC`, for every stream.  Hypotheses: `v` is a view of `c` (same header
    fields and data; `hsent`: the number of words the code sends, computed from `contains_seed()` / `poly(0).len()`, is the model's
    `fullSent`), `lv` is the level the context finds, the writer's own shape check passes (`hchk`), the level's scheme is BFV / CKKS /
    BGV (`hsch`; for `None` see `gc_ct_serialize_full_none`), and the data vector holds the words to be sent (`hle`; else the slice panics). -/
theorem gc_ct_serialize_full (st : WStream S E) (ctx : Ctx) (expand : List Nat → Level → List Nat) (c : CtFull) (lv : Level) (v : CtV)
    (hfind : ctx.find c.pid = some lv)
    (hpid : v.pid = c.pid) (hl : c.pid.length = 4) (hsize : v.size = c.size) (hntt : v.ntt = c.ntt) (hscale : v.scale = c.scale)
    (hcf : v.cf = c.cf) (hdata : v.data = c.data)
    (hchk : v.cms = lv.moduli.length ∧ v.deg = lv.n)
    (hsch : lv.scheme = 1 ∨ lv.scheme = 2 ∨ lv.scheme = 3)
    (hsent : fullSentV v = fullSent lv c) (hle : fullSent lv c ≤ c.data.length) :
    ct_serialize_full st ctx v = runChunks st ((ctFullC ctx expand).chunks c) := by
  have hlv : (ctx.find c.pid).getD noLevel = lv := by rw [hfind]; rfl
  rw [gc_full_chunks, hlv]
  have hlen : (c.data.take (fullSent lv c)).length = fullSent lv c := by rw [List.length_take]; omega
  have hvec : (vecC u64C).chunks (c.data.take (fullSent lv c))
      = usizeC.chunks (fullSent lv c) ++ seqChunks (List.replicate (fullSent lv c) u64C) (c.data.take (fullSent lv c)) := by
    have : (vecC u64C).chunks (c.data.take (fullSent lv c))
      = usizeC.chunks (c.data.take (fullSent lv c)).length
          ++ seqChunks (List.replicate (c.data.take (fullSent lv c)).length u64C) (c.data.take (fullSent lv c)) := rfl
    rw [this, hlen]
  have hs : (if v.seeded = true then (v.poly 0).length + 1 + (64 + 7) / 8 else c.data.length) = fullSent lv c := by
    rw [← hsent, ← hdata]; rfl
  have hc1 : ((v.cms != lv.moduli.length) || (v.deg != lv.n)) = false := by simp [hchk.1, hchk.2]
  have hloop := fun acc => gc_full_loop st (c.data.take (fullSent lv c)) acc
  unfold ct_serialize_full
  simp only [hpid, hfind]
  simp only [hc1, Bool.false_eq_true, if_false, hs, hpid, hsize, hntt, hscale, hcf, hdata, hle, if_true, gs_pid_serialize st _ hl,
    gs_usize_serialize, gs_bool_serialize, gs_f64_serialize, gs_u64_serialize, hloop, hlen, hvec, runChunks_append, wbind_assoc,
    wbind_wpure, Nat.zero_add]
  rcases hsch with h | h | h
  · simp only [h, fullExtra, extraC, repC, seqC, seqChunks, runChunks, wbind_wpure, List.replicate_zero]
    simp only [show ((1 : Nat) == 1) = true from rfl, show ((1 : Nat) == 2) = false from rfl, show ((1 : Nat) == 3) = false from rfl,
      if_true, Bool.false_eq_true, if_false, seqChunks, runChunks, wbind_wpure, List.replicate_zero]
    congr 1; funext a; congr 1; funext b; congr 1; funext d; congr 1; funext e; congr 1; funext f
    congr 1; omega
  · simp only [h, fullExtra, extraC, show ((2 : Nat) == 1) = false from rfl, show ((2 : Nat) == 2) = true from rfl, if_true,
      Bool.false_eq_true, if_false, repC, seqC, List.replicate_succ, List.replicate_zero, seqChunks, List.append_nil, wbind_assoc,
      wbind_wpure]
    congr 1; funext a; congr 1; funext b; congr 1; funext d; congr 1; funext e; congr 1; funext f; congr 1; funext g
    congr 1; omega
  · simp only [h, fullExtra, extraC, show ((3 : Nat) == 1) = false from rfl, show ((3 : Nat) == 2) = false from rfl,
      show ((3 : Nat) == 3) = true from rfl, if_true, Bool.false_eq_true, if_false, repC, seqC, List.replicate_succ, List.replicate_zero,
      seqChunks, List.append_nil, wbind_assoc, wbind_wpure, f64C]
    congr 1; funext a; congr 1; funext b; congr 1; funext d; congr 1; funext e; congr 1; funext f; congr 1; funext g
    congr 1; omega

/-- the excluded points.  (1) the writer's shape check fails: `Err(InvalidData)` before anything is written.
    (2) a level whose scheme is `None`: parms id, size and NTT flag ARE written, then `Err(InvalidData)` -/
theorem gc_ct_serialize_full_shape_refused (st : WStream S E) (ctx : Ctx) (lv : Level) (v : CtV) (hfind : ctx.find v.pid = some lv)
    (h : v.cms ≠ lv.moduli.length ∨ v.deg ≠ lv.n) : ct_serialize_full st ctx v = winvalid := by
  have hc1 : ((v.cms != lv.moduli.length) || (v.deg != lv.n)) = true := by
    rcases h with h | h <;> simp [h]
  unfold ct_serialize_full
  simp only [hfind, hc1, if_true]

/-- an unknown parms id: `get_context_data(..).unwrap()` panics before anything is written -/
theorem gc_ct_serialize_full_unknown_pid (st : WStream S E) (ctx : Ctx) (v : CtV) (hfind : ctx.find v.pid = none) :
    ct_serialize_full st ctx v = wpanic := by
  unfold ct_serialize_full
  simp only [hfind]

theorem gc_ct_serialize_full_none (st : WStream S E) (ctx : Ctx) (lv : Level) (v : CtV) (hfind : ctx.find v.pid = some lv)
    (hl : v.pid.length = 4) (hchk : v.cms = lv.moduli.length ∧ v.deg = lv.n) (hs : lv.scheme = 0) :
    ct_serialize_full st ctx v
      = wbind (runChunks st (pidC.chunks v.pid ++ (usizeC.chunks v.size ++ boolC.chunks v.ntt))) fun _ => winvalid := by
  have hc1 : ((v.cms != lv.moduli.length) || (v.deg != lv.n)) = false := by simp [hchk.1, hchk.2]
  unfold ct_serialize_full
  simp only [hfind]
  simp only [hc1, Bool.false_eq_true, if_false, hs, gs_pid_serialize st _ hl, gs_usize_serialize, gs_bool_serialize, runChunks_append,
    wbind_assoc, wbind_wpure, show ((0 : Nat) == 1) = false from rfl, show ((0 : Nat) == 2) = false from rfl,
    show ((0 : Nat) == 3) = false from rfl]

/-- the view of a model `CtFull` the code works with: `contains_seed()` = size 2 and the flag word at the start of polynomial 1,
    `poly(i)` = the i-th block of `k·N` words -/
def ctvOfFull (lv : Level) (c : CtFull) : CtV :=
  let kn := lv.moduli.length * lv.n
  { pid := c.pid, size := c.size, ntt := c.ntt, scale := c.scale, cf := c.cf,
    seeded := (c.size == 2 && c.data.getD kn 0 == seedFlag), data := c.data,
    poly := fun i => (c.data.drop (i * kn)).take kn, comp := fun i j => (c.data.drop (i * kn + j * lv.n)).take lv.n,
    cms := lv.moduli.length, deg := lv.n }

theorem gc_sent_view (lv : Level) (c : CtFull) : fullSentV (ctvOfFull lv c) = fullSent lv c := by
  unfold fullSentV ctvOfFull fullSent
  simp only []
  by_cases h : (c.size == 2 && c.data.getD (lv.moduli.length * lv.n) 0 == seedFlag) = true
  · simp only [h, if_true, Nat.zero_mul, List.drop_zero, List.length_take]
    have h2 : c.data.getD (lv.moduli.length * lv.n) 0 = seedFlag := by
      simp only [Bool.and_eq_true, beq_iff_eq] at h; exact h.2
    have hlt : lv.moduli.length * lv.n < c.data.length := by
      by_contra hge
      have : c.data.getD (lv.moduli.length * lv.n) 0 = 0 := by
        rw [List.getD_eq_getElem?_getD, List.getElem?_eq_none (by omega)]; rfl
      rw [this] at h2; exact absurd h2 (by decide)
    omega
  · have h0 : (c.size == 2 && c.data.getD (lv.moduli.length * lv.n) 0 == seedFlag) = false := by simpa using h
    simp only [h0, Bool.false_eq_true, if_false]

/-- `serialize_full` on the view of a model object: the hypotheses left are the parms id's length, the scheme, and that a flagged
    ciphertext really carries the seed words -/
theorem gc_ct_serialize_full_view (st : WStream S E) (ctx : Ctx) (expand : List Nat → Level → List Nat) (c : CtFull) (lv : Level)
    (hfind : ctx.find c.pid = some lv) (hl : c.pid.length = 4)
    (hsch : lv.scheme = 1 ∨ lv.scheme = 2 ∨ lv.scheme = 3) (hle : fullSent lv c ≤ c.data.length) :
    ct_serialize_full st ctx (ctvOfFull lv c) = runChunks st ((ctFullC ctx expand).chunks c) :=
  gc_ct_serialize_full st ctx expand c lv _ hfind rfl hl rfl rfl rfl rfl rfl ⟨rfl, rfl⟩ hsch (gc_sent_view _ c) hle

/-! ### property-level statements (restated in Props/C14.lean, Props/C15.lean) -/

/-- C14: on an in-memory stream the generated `Ciphertext::serialize_full` appends exactly `ctFullC.enc` and returns its length -/
theorem c14g_ct_serialize_full (ctx : Ctx) (expand : List Nat → Level → List Nat) (c : CtFull) (lv : Level)
    (hfind : ctx.find c.pid = some lv) (hl : c.pid.length = 4)
    (hsch : lv.scheme = 1 ∨ lv.scheme = 2 ∨ lv.scheme = 3) (hle : fullSent lv c ≤ c.data.length) (s : Bytes) :
    ct_serialize_full idealStream ctx (ctvOfFull lv c) s
      = (.ok ((ctFullC ctx expand).enc c).length, s ++ (ctFullC ctx expand).enc c) :=
  gs_ideal (ctFullC ctx expand) c _ (gc_ct_serialize_full_view idealStream ctx expand c lv hfind hl hsch hle) s

/-- C15: … and on every faulty sink: complete encoding with the right count, or the stream's error with a prefix (never a panic, never
    the writer's own `InvalidData`) -/
theorem c15g_ct_serialize_full_fails_cleanly (ctx : Ctx) (expand : List Nat → Level → List Nat) (c : CtFull) (lv : Level)
    (hfind : ctx.find c.pid = some lv) (hl : c.pid.length = 4)
    (hsch : lv.scheme = 1 ∨ lv.scheme = 2 ∨ lv.scheme = 3) (hle : fullSent lv c ≤ c.data.length) (s : Sink) :
    let w := ct_serialize_full sinkStream ctx (ctvOfFull lv c)
    (∀ n, (w s).1 = .ok n → n = ((ctFullC ctx expand).enc c).length ∧ (w s).2.out = s.out ++ (ctFullC ctx expand).enc c) ∧
    (∀ e, (w s).1 = .error e → (∃ io, e = .io io) ∧
      ∃ j, j ≤ ((ctFullC ctx expand).enc c).length ∧ (w s).2.out = s.out ++ ((ctFullC ctx expand).enc c).take j) :=
  gs_writer_clean (ctFullC ctx expand) c _ (gc_ct_serialize_full_view sinkStream ctx expand c lv hfind hl hsch hle) s

/-- the writer's refusals: unknown parms id = panic (`unwrap`) with nothing written; shape mismatch = `InvalidData` with NOTHING written; a scheme-`None` level = `InvalidData` AFTER parms id,
    size and NTT flag were written (41 bytes on an in-memory stream) -/
theorem c14g_ct_serialize_full_refusals (ctx : Ctx) (v : CtV) (s : Bytes) :
    (ctx.find v.pid = none → ct_serialize_full idealStream ctx v s = (.error .panic, s)) ∧
    (∀ lv, ctx.find v.pid = some lv → (v.cms ≠ lv.moduli.length ∨ v.deg ≠ lv.n) →
      ct_serialize_full idealStream ctx v s = (.error .invalid, s)) ∧
    (∀ lv, ctx.find v.pid = some lv → v.pid.length = 4 → v.cms = lv.moduli.length ∧ v.deg = lv.n → lv.scheme = 0 →
      ct_serialize_full idealStream ctx v s = (.error .invalid, s ++ (pidC.enc v.pid ++ (usizeC.enc v.size ++ boolC.enc v.ntt)))) := by
  refine ⟨fun h => ?_, fun lv hf h => ?_, fun lv hf hl hchk hs => ?_⟩
  · rw [gc_ct_serialize_full_unknown_pid idealStream ctx v h]; rfl
  · rw [gc_ct_serialize_full_shape_refused idealStream ctx lv v hf h]; rfl
  · rw [gc_ct_serialize_full_none idealStream ctx lv v hf hl hchk hs]
    simp only [wbind, runChunks_ideal, winvalid, flat_append]
    rfl

end HC.GS
