/-
  Phase 4m, part 7: the counting helpers of src/util/basic.rs regenerated in Gen/DecFns.lean against the hand model:
  `get_significant_uint64_count_uint` = `sigWords` (trimming of `bgv_decrypt` = `trimPlain`), `get_significant_bit_count_uint` = `bitCountUint`.
-/
import Heathcliff.Proofs.GenDec6
namespace HC
open HC.GenDec

theorem gd_sigWords_snoc (l : List Nat) (x : Nat) : sigWords (l ++ [x]) = if x = 0 then sigWords l else l.length + 1 := by
  unfold sigWords
  rw [List.reverse_append, List.reverse_singleton, List.singleton_append, List.dropWhile_cons]
  by_cases h : x = 0
  · simp [h]
  · simp [h]

theorem gd_sig_loop (a : List Nat) : ∀ (c fuel : Nat), c ≤ a.length → c < fuel →
    get_significant_uint64_count_uint_loop1 a fuel c = .ok (sigWords (a.take c)) := by
  intro c
  induction c with
  | zero =>
    intro fuel _ hf
    obtain ⟨f, rfl⟩ : ∃ f, fuel = f + 1 := ⟨fuel - 1, by omega⟩
    simp [get_significant_uint64_count_uint_loop1, sigWords, pure, Except.pure, bind, Except.bind]
  | succ c ih =>
    intro fuel hc hf
    obtain ⟨f, rfl⟩ : ∃ f, fuel = f + 1 := ⟨fuel - 1, by omega⟩
    have hlt : c < a.length := by omega
    have hsub : ckSub (c + 1) 1 = .ok c := by unfold ckSub; rw [if_pos (by omega)]; rfl
    have htk : a.take (c + 1) = a.take c ++ [a[c]] := by rw [List.take_succ_eq_append_getElem hlt]
    rw [get_significant_uint64_count_uint_loop1]
    simp only [Nat.zero_lt_succ, if_true, hsub, gw_idx_eq a c hlt, bind, Except.bind, pure, Except.pure, gt_iff_lt]
    rw [htk, gd_sigWords_snoc, List.length_take, Nat.min_eq_left (by omega)]
    by_cases h0 : a[c] = 0
    · simp only [h0, decide_true, if_true]
      exact ih f (by omega) (by omega)
    · simp only [h0, decide_false, if_false, Bool.false_eq_true]

/-- `get_significant_uint64_count_uint` = `sigWords` (every slice, the empty one included) -/
theorem gd_get_significant_uint64_count_uint_eq (a : List Nat) : get_significant_uint64_count_uint a = .ok (sigWords a) := by
  unfold get_significant_uint64_count_uint
  have := gd_sig_loop a a.length (a.length + 1) (le_refl _) (by omega)
  rw [List.take_length] at this
  exact this

/-- the trimming of the generated `bgv_decrypt` = `trimPlain` (Model/Scheme.lean) on lists -/
theorem gd_bgv_trim_eq (d plan : List Nat) : gd_bgv_trim d plan = .ok (resizeL d (max (sigWords d) 1) 0, plan) := by
  unfold gd_bgv_trim; rw [gd_get_significant_uint64_count_uint_eq]; rfl

theorem gd_trimPlain_toList (d : Array Nat) : (trimPlain d).toList = resizeL d.toList (max (sigWords d.toList) 1) 0 ∨ d.size = 0 := by
  by_cases h0 : d.size = 0
  · exact Or.inr h0
  · left
    unfold trimPlain resizeL
    have hs : sigWords d.toList ≤ d.toList.length := by
      unfold sigWords
      calc (d.toList.reverse.dropWhile (· = 0)).length ≤ d.toList.reverse.length := (List.dropWhile_sublist _).length_le
        _ = d.toList.length := List.length_reverse
    have hm : max (sigWords d.toList) 1 ≤ d.toList.length := by
      have : 1 ≤ d.toList.length := by simp; omega
      omega
    simp only [Array.toList_extract, List.extract_eq_take_drop, List.drop_zero, Nat.sub_zero]
    rw [Nat.sub_eq_zero_of_le hm]; simp

end HC
