/-
  C20L: generic lemmas for the end-to-end theorems of the BOLT slot-packing helpers (C20M `bolt_cp`, C20N `bolt_cc_cr`,
  C20O `bolt_cc_dc`): slot views of `rotRows` / `swapRows` / `slotZip` / `slotMask`, the optional accumulators (`accAdd`),
  monadic folds that never fail, list sums as `Finset` sums, the column-major encoder and decoder shared by the helpers.
-/
import Heathcliff.Proofs.C20K
namespace HC
open Finset HC.MM

variable {S : Type}

/-! ### monadic folds -/

theorem c20_foldlM_pure {σ β : Type} (f : σ → β → R σ) (g : σ → β → σ) :
    ∀ (l : List β) (init : σ), (∀ st, ∀ x ∈ l, f st x = .ok (g st x)) → l.foldlM f init = .ok (l.foldl g init)
  | [], _, _ => rfl
  | x :: l, init, h => by
    rw [List.foldlM_cons, h init x (by simp)]
    exact c20_foldlM_pure f g l (g init x) (fun st y hy => h st y (by simp [hy]))

theorem c20_list_sum_range {M : Type} [AddCommMonoid M] (f : Nat → M) (n : Nat) :
    ((List.range n).map f).sum = ∑ i ∈ range n, f i := by
  induction n with
  | zero => simp
  | succ n ih => rw [List.range_succ, List.map_append, List.sum_append, ih, Finset.sum_range_succ]; simp

theorem c20_list_sum_pairs {M : Type} [AddCommMonoid M] (f : Nat × Nat → M) (A C : Nat) :
    ((pairs A C).map f).sum = ∑ a ∈ range A, ∑ c ∈ range C, f (a, c) := by
  unfold pairs
  rw [← c20_list_sum_range]
  induction (List.range A) with
  | nil => simp
  | cons a l ih =>
    rw [List.flatMap_cons, List.map_append, List.sum_append, ih, List.map_cons, List.sum_cons, List.map_map,
      ← c20_list_sum_range]
    rfl

/-! ### slot views -/

theorem c20_slotZip_size (f : S → S → S) (z : S) (N : Nat) (a b : Array S) : (slotZip f z N a b).size = N := by
  unfold slotZip; simp

theorem c20_slotZip_get (f : S → S → S) (z : S) (N : Nat) (a b : Array S) {p : Nat} (hp : p < N) :
    (slotZip f z N a b).getD p z = f (a.getD p z) (b.getD p z) := by
  unfold slotZip; rw [c20_getD_ofFn _ _ hp]

theorem c20_rotRows_size (z : S) (N s : Nat) (v : Array S) : (rotRows z N s v).size = N := by
  unfold rotRows; simp

theorem c20_swapRows_size (z : S) (N : Nat) (v : Array S) : (swapRows z N v).size = N := by
  unfold swapRows; simp

theorem c20_slotMask_size (z : S) (N lo hi : Nat) (v : Array S) : (slotMask z N lo hi v).size = N := by
  unfold slotMask; simp

/-- the slot read by `rotate_rows` by `a` slots at slot `p` (two rows of `H` slots) -/
def c20_rho (H a p : Nat) : Nat := p / H * H + (p % H + a) % H
/-- the slot read by `rotate_columns` at slot `p` -/
def c20_sigma (H p : Nat) : Nat := (p + H) % (2 * H)

theorem c20_rotRows_get (z : S) (H a : Nat) (v : Array S) {p : Nat} (hp : p < 2 * H) :
    (rotRows z (2 * H) a v).getD p z = v.getD (c20_rho H a p) z := by
  unfold rotRows
  rw [c20_getD_ofFn _ _ hp]
  simp only [Nat.mul_div_cancel_left _ (by decide : 0 < 2)]
  rfl

theorem c20_swapRows_get (z : S) (H : Nat) (v : Array S) {p : Nat} (hp : p < 2 * H) :
    (swapRows z (2 * H) v).getD p z = v.getD (c20_sigma H p) z := by
  unfold swapRows
  rw [c20_getD_ofFn _ _ hp]
  simp only [Nat.mul_div_cancel_left _ (by decide : 0 < 2)]
  rfl

theorem c20_slotMask_get (z : S) (N lo hi : Nat) (v : Array S) {p : Nat} (hp : p < N) :
    (slotMask z N lo hi v).getD p z = if lo ≤ p ∧ p < hi then v.getD p z else z := by
  unfold slotMask; rw [c20_getD_ofFn _ _ hp]

theorem c20_rho_lt {H a p : Nat} (hH : 0 < H) (hp : p < 2 * H) : c20_rho H a p < 2 * H := by
  unfold c20_rho
  have h1 : p / H < 2 := by rw [Nat.div_lt_iff_lt_mul hH]; omega
  have h2 := Nat.mod_lt (p % H + a) hH
  have h3 := c20_succ_mul_le (ib := H) h1
  omega

theorem c20_sigma_lt {H p : Nat} (hH : 0 < H) : c20_sigma H p < 2 * H := Nat.mod_lt _ (by omega)

theorem c20_rho_divmod {H a p : Nat} (hH : 0 < H) : c20_rho H a p / H = p / H ∧ c20_rho H a p % H = (p % H + a) % H :=
  c20_divmod (Nat.mod_lt _ hH)

theorem c20_rho_rho {H a b p : Nat} (hH : 0 < H) : c20_rho H a (c20_rho H b p) = c20_rho H (b + a) p := by
  obtain ⟨d, m⟩ := c20_rho_divmod (a := b) (p := p) hH
  show c20_rho H b p / H * H + (c20_rho H b p % H + a) % H = _
  rw [d, m, Nat.mod_add_mod, Nat.add_assoc]
  rfl

theorem c20_rho_iter {H a p : Nat} (hH : 0 < H) (hp : p < 2 * H) : ∀ k, (c20_rho H a)^[k] p = c20_rho H (k * a) p
  | 0 => by
    show p = p / H * H + (p % H + 0 * a) % H
    rw [Nat.zero_mul, Nat.add_zero, Nat.mod_mod, Nat.div_add_mod']
  | k+1 => by
    rw [Function.iterate_succ_apply', c20_rho_iter hH hp k, c20_rho_rho hH, Nat.succ_mul]

/-! ### optional accumulators -/

/-- the slot view of an optional accumulator (`None` counts as zero) -/
def c20_og [Zero S] : Option (Array S) → Nat → S
  | none, _ => 0
  | some v, p => v.getD p 0

/-- the arrays stored in an optional accumulator have `N` slots -/
def c20_wf (N : Nat) (o : Option (Array S)) : Prop := ∀ v, o = some v → v.size = N

theorem c20_wf_none (N : Nat) : c20_wf N (none : Option (Array S)) := fun _ h => by cases h

theorem c20_accAdd_og [AddCommMonoid S] (N : Nat) (acc : Option (Array S)) (v : Array S) {p : Nat} (hp : p < N) :
    c20_og (accAdd (· + ·) 0 N acc v) p = c20_og acc p + v.getD p 0 := by
  cases acc with
  | none => show v.getD p 0 = 0 + v.getD p 0; rw [zero_add]
  | some a => exact c20_slotZip_get _ _ _ _ _ hp

theorem c20_accAdd_wf [Zero S] (f : S → S → S) (N : Nat) (acc : Option (Array S)) (v : Array S) (hv : v.size = N) :
    c20_wf N (accAdd f 0 N acc v) := by
  intro u hu
  cases acc with
  | none => cases hu; exact hv
  | some a => cases hu; exact c20_slotZip_size _ _ _ _ _

theorem c20_accAdd_ne_none [Zero S] (f : S → S → S) (N : Nat) (acc : Option (Array S)) (v : Array S) :
    accAdd f 0 N acc v ≠ none := by
  cases acc <;> simp [accAdd]

theorem c20_accFold_og [AddCommMonoid S] {β : Type} (N : Nat) (g : β → Array S) {p : Nat} (hp : p < N) :
    ∀ (l : List β) (init : Option (Array S)),
      c20_og (l.foldl (fun acc x => accAdd (· + ·) 0 N acc (g x)) init) p = c20_og init p + (l.map fun x => (g x).getD p 0).sum
  | [], init => by simp
  | x :: l, init => by
    rw [List.foldl_cons, c20_accFold_og N g hp l, c20_accAdd_og N _ _ hp, List.map_cons, List.sum_cons, add_assoc]

theorem c20_accFold_wf [Zero S] {β : Type} (f : S → S → S) (N : Nat) (g : β → Array S) :
    ∀ (l : List β) (init : Option (Array S)), (∀ x ∈ l, (g x).size = N) → c20_wf N init →
      c20_wf N (l.foldl (fun acc x => accAdd f 0 N acc (g x)) init)
  | [], _, _, h => h
  | x :: l, init, hs, _ => by
    rw [List.foldl_cons]
    exact c20_accFold_wf f N g l _ (fun y hy => hs y (by simp [hy])) (c20_accAdd_wf f N _ _ (hs x (by simp)))

theorem c20_accFold_ne_none [Zero S] {β : Type} (f : S → S → S) (N : Nat) (g : β → Array S) :
    ∀ (l : List β) (init : Option (Array S)), (l ≠ [] ∨ init ≠ none) →
      l.foldl (fun acc x => accAdd f 0 N acc (g x)) init ≠ none
  | [], _, h => by rcases h with h | h; exact absurd rfl h; exact h
  | x :: l, init, _ => by
    rw [List.foldl_cons]
    exact c20_accFold_ne_none f N g l _ (Or.inr (c20_accAdd_ne_none f N _ _))

theorem c20_unwrapAcc_some {o : Option (Array S)} (h : o ≠ none) : ∃ v, o = some v ∧ unwrapAcc o = .ok v := by
  cases o with
  | none => exact absurd rfl h
  | some v => exact ⟨v, rfl, rfl⟩

theorem c20_getSlots_map {β : Type} (f : Nat → Array β) (A i : Nat) (hi : i < A) :
    getSlots ((List.range A).map f) i = .ok (f i) := by
  unfold getSlots; rw [c20_range_map_getElem? _ _ _ hi]

theorem c20_getRow_map {β : Type} (f : Nat → List (Array β)) (A i : Nat) (hi : i < A) :
    getRow ((List.range A).map f) i = .ok (f i) := by
  unfold getRow; rw [c20_range_map_getElem? _ _ _ hi]

theorem c20_pairs_map_getElem? {β : Type} (f : Nat × Nat → β) (A C a c : Nat) (ha : a < A) (hc : c < C) :
    ((pairs A C).map f)[a * C + c]? = some (f (a, c)) := by
  have hlt : a * C + c < A * C := by have := c20_succ_mul_le (ib := C) ha; omega
  rw [c20_pairs_eq, List.map_map, c20_range_map_getElem? _ _ _ hlt]
  obtain ⟨d, m⟩ := c20_divmod (X := a) hc
  show some (f ((a * C + c) / C, (a * C + c) % C)) = _
  rw [d, m]

/-! ### the column-major layout (`bolt_cp` inputs / outputs, `bolt_cc_cr` inputs, `bolt_cc_dc` outputs) -/

/-- `MatmulBolt*Small::encode_inputs` on a row slice: total; column `c` of polynomial `i`, entry `j` -/
theorem c20_boltColMajor_spec (z : S) (N gap s m width : Nat) (a : Nat → S) (len i : Nat) (hN : N = s * gap) (hm : m ≤ gap) :
    ∃ arr, boltColMajor N gap s m width z a len i = .ok arr ∧ arr.size = N ∧
      ∀ c j, c < s → j < gap → arr.getD (c * gap + j) z =
        if j < m ∧ i * s + c < width ∧ j * width + (i * s + c) < len then a (j * width + (i * s + c)) else z := by
  unfold boltColMajor
  have hmemI : ∀ cj : Nat × Nat, cj ∈ ((pairs (min width (i * s + s) - i * s) m).filter
      fun cj => cj.2 * width + (i * s + cj.1) < len) ↔
      (cj.1 < min width (i * s + s) - i * s ∧ cj.2 < m) ∧ cj.2 * width + (i * s + cj.1) < len := by
    intro cj
    rw [List.mem_filter, c20_mem_pairs, decide_eq_true_eq]
  have hmod : ∀ c, c < s → (i * s + c) % s = c := fun c hc => (c20_divmod hc).2
  obtain ⟨arr, hok, hsz, hz, hv⟩ := c20_scatter_map z N N
    ((pairs (min width (i * s + s) - i * s) m).filter fun cj => cj.2 * width + (i * s + cj.1) < len)
    (fun cj => (i * s + cj.1) % s * gap + cj.2) (fun cj => a (cj.2 * width + (i * s + cj.1)))
    (by
      intro cj hcj
      obtain ⟨⟨h1, h2⟩, _⟩ := (hmemI cj).mp hcj
      have hc : cj.1 < s := by omega
      show (i * s + cj.1) % s * gap + cj.2 < N ∧ (i * s + cj.1) % s * gap + cj.2 < N
      rw [hmod _ hc, hN]
      have := c20_succ_mul_le (ib := gap) hc
      omega)
    (by
      intro k hk k' hk' heq
      obtain ⟨⟨h1, h2⟩, _⟩ := (hmemI k).mp hk
      obtain ⟨⟨h1', h2'⟩, _⟩ := (hmemI k').mp hk'
      have hc : k.1 < s := by omega
      have hc' : k'.1 < s := by omega
      have heq' : (i * s + k.1) % s * gap + k.2 = (i * s + k'.1) % s * gap + k'.2 := heq
      rw [hmod _ hc, hmod _ hc'] at heq'
      obtain ⟨e2, e1⟩ := c20_digit_unique (W := gap) (by omega) (by omega) heq'
      show a (k.2 * width + (i * s + k.1)) = a (k'.2 * width + (i * s + k'.1))
      rw [e1, e2])
  refine ⟨arr, hok, hsz, ?_⟩
  intro c j hc hj
  split
  · rename_i hcond
    have hin : (c, j) ∈ ((pairs (min width (i * s + s) - i * s) m).filter fun cj => cj.2 * width + (i * s + cj.1) < len) :=
      (hmemI (c, j)).mpr ⟨⟨by show c < _; omega, hcond.1⟩, hcond.2.2⟩
    have := hv (c, j) hin
    simp only [hmod c hc] at this
    exact this
  · rename_i hcond
    apply hz
    intro k hk heq
    obtain ⟨⟨h1, h2⟩, h3⟩ := (hmemI k).mp hk
    have hck : k.1 < s := by omega
    have heq' : (i * s + k.1) % s * gap + k.2 = c * gap + j := heq
    rw [hmod _ hck] at heq'
    obtain ⟨e2, e1⟩ := c20_digit_unique (W := gap) hj (by omega) heq'
    apply hcond
    rw [← e1, ← e2]
    exact ⟨h2, by omega, h3⟩

/-- the column-major array of part `p`, polynomial `i` -/
def c20_colMajorArr (z : S) (N gap s m mAll width : Nat) (x : Nat → S) (p i : Nat) : Array S :=
  c20_val #[] (boltColMajor N gap s m width z (fun id => x (p * m * width + id)) ((min (p * m + m) mAll - p * m) * width) i)

theorem c20_boltRowParts_ok (z : S) (N gap s m mAll width : Nat) (x : Nat → S) (hN : N = s * gap) (hm : m ≤ gap) :
    boltRowParts N gap s m mAll width z x
      = .ok ((List.range (ceilDiv mAll m)).map fun p => (List.range (ceilDiv width s)).map fun i =>
          c20_colMajorArr z N gap s m mAll width x p i) := by
  unfold boltRowParts
  apply c20_mapM_eq
  intro p _
  apply c20_mapM_eq
  intro i _
  obtain ⟨arr, hok, _⟩ := c20_boltColMajor_spec z N gap s m width (fun id => x (p * m * width + id))
    ((min (p * m + m) mAll - p * m) * width) i hN hm
  exact c20_val_ok #[] hok

/-- entry (`row` of the part, column `i·s + c`) of the matrix at column `c`, entry `j` of polynomial `i` of part `p` -/
theorem c20_colMajorArr_get (z : S) (N gap s m mAll width : Nat) (x : Nat → S) (hN : N = s * gap) (hm : m ≤ gap) (p i : Nat)
    {c j : Nat} (hc : c < s) (hj : j < gap) :
    (c20_colMajorArr z N gap s m mAll width x p i).size = N ∧
    (c20_colMajorArr z N gap s m mAll width x p i).getD (c * gap + j) z
      = if p * m + j < min (p * m + m) mAll ∧ i * s + c < width then x ((p * m + j) * width + (i * s + c)) else z := by
  obtain ⟨arr, hok, hsz, hget⟩ := c20_boltColMajor_spec z N gap s m width (fun id => x (p * m * width + id))
    ((min (p * m + m) mAll - p * m) * width) i hN hm
  have e : c20_colMajorArr z N gap s m mAll width x p i = arr := by unfold c20_colMajorArr; rw [hok]; rfl
  rw [e, hget c j hc hj]
  refine ⟨hsz, ?_⟩
  by_cases hw : i * s + c < width
  · have hiff : j * width + (i * s + c) < (min (p * m + m) mAll - p * m) * width ↔ j < min (p * m + m) mAll - p * m := by
      constructor
      · intro h
        by_contra hn
        have := Nat.mul_le_mul_right width (Nat.le_of_not_lt hn)
        omega
      · intro h
        have := c20_succ_mul_le (ib := width) h
        omega
    by_cases hjm : j < min (p * m + m) mAll - p * m
    · rw [if_pos ⟨by omega, hw, hiff.mpr hjm⟩, if_pos ⟨by omega, hw⟩]
      congr 1; ring
    · rw [if_neg (fun h => hjm (hiff.mp h.2.2)), if_neg (fun h => hjm (by omega))]
  · rw [if_neg (fun h => hw h.2.1), if_neg (fun h => hw h.2)]

/-- `decode_outputs` of the column-major layout over all parts, for ANY family of polynomials carrying `F row col` at the read
    position of every entry: the result is the `mAll × width` matrix `F`, row major -/
theorem c20_boltColMajorDecode_spec (z : S) (gap s m mAll width : Nat) (Y : List (List (Array S))) (F : Nat → Nat → S)
    (hm : 0 < m) (hlen : Y.length = ceilDiv mAll m)
    (hY : ∀ p, p < ceilDiv mAll m → ∃ part, getRow Y p = .ok part ∧
      ∀ i j, i < min (p * m + m) mAll - p * m → j < width → ∃ poly, getSlots part (j / s) = .ok poly ∧
        readAt poly (j % s * gap + i) = .ok (F (p * m + i) j)) :
    ∃ out, boltColMajorDecode gap s m mAll width z Y = .ok out ∧ out.size = mAll * width ∧
      ∀ row col, row < mAll → col < width → out.getD (row * width + col) z = F row col := by
  let ws : List (List (Nat × S)) := (List.range (ceilDiv mAll m)).map fun p =>
    (pairs (min (p * m + m) mAll - p * m) width).map fun ij => ((p * m + ij.1) * width + ij.2, F (p * m + ij.1) ij.2)
  have hmem : ∀ pv, pv ∈ ws.flatten ↔ ∃ p, p < ceilDiv mAll m ∧ ∃ ij ∈ pairs (min (p * m + m) mAll - p * m) width,
      pv = ((p * m + ij.1) * width + ij.2, F (p * m + ij.1) ij.2) := by
    intro pv
    simp only [ws, List.mem_flatten, List.mem_map, List.mem_range]
    constructor
    · rintro ⟨l, ⟨p, hp, rfl⟩, hpv⟩
      obtain ⟨ij, hij, rfl⟩ := List.mem_map.mp hpv
      exact ⟨p, hp, ij, hij, rfl⟩
    · rintro ⟨p, hp, ij, hij, rfl⟩
      exact ⟨_, ⟨p, hp, rfl⟩, List.mem_map.mpr ⟨ij, hij, rfl⟩⟩
  have hrun : boltColMajorDecode gap s m mAll width z Y = scatterA z (mAll * width) (mAll * width) ws.flatten := by
    unfold boltColMajorDecode
    have hw : (List.range Y.length).mapM (fun p => do
        let part ← getRow Y p
        (pairs (min (p * m + m) mAll - p * m) width).mapM fun (ij : Nat × Nat) => do
          let poly ← getSlots part (ij.2 / s)
          let v ← readAt poly (ij.2 % s * gap + ij.1)
          (pure ((p * m + ij.1) * width + ij.2, v) : R (Nat × S))) = .ok ws := by
      rw [hlen]
      apply c20_mapM_eq
      intro p hp
      obtain ⟨part, hpart, hread⟩ := hY p (List.mem_range.mp hp)
      rw [hpart]
      show (pairs _ _).mapM _ = _
      apply c20_mapM_eq
      intro ij hij
      obtain ⟨h1, h2⟩ := c20_mem_pairs.mp hij
      obtain ⟨poly, hpoly, hr⟩ := hread ij.1 ij.2 h1 h2
      rw [hpoly]
      show (do let v ← readAt poly (ij.2 % s * gap + ij.1); (pure ((p * m + ij.1) * width + ij.2, v) : R (Nat × S))) = _
      rw [hr]
      rfl
    rw [hw]
    rfl
  have hb : ∀ pv ∈ ws.flatten, pv.1 < mAll * width ∧ pv.1 < (Array.replicate (mAll * width) z).size := by
    intro pv hpv
    obtain ⟨p, hp, ij, hij, rfl⟩ := (hmem pv).mp hpv
    obtain ⟨h1, h2⟩ := c20_mem_pairs.mp hij
    have h3 : p * m + ij.1 < mAll := by omega
    have h4 := c20_succ_mul_le (ib := width) h3
    simp only [Array.size_replicate]
    constructor <;> omega
  obtain ⟨out, hout, hsz, _, hval⟩ := c20_scatter_fold (mAll * width) ws.flatten (Array.replicate (mAll * width) z) hb
  refine ⟨out, by rw [hrun]; exact hout, by simpa using hsz, ?_⟩
  intro row col hrow hcol
  have hp : row / m < ceilDiv mAll m := c20_div_lt_ceilDiv hm hrow
  have er : row / m * m + row % m = row := Nat.div_add_mod' row m
  have hmr := Nat.mod_lt row hm
  have hin : (row * width + col, F row col) ∈ ws.flatten := by
    rw [hmem]
    refine ⟨row / m, hp, (row % m, col), c20_mem_pairs.mpr ⟨by show row % m < _; omega, hcol⟩, ?_⟩
    show _ = ((row / m * m + row % m) * width + col, F (row / m * m + row % m) col)
    rw [er]
  have huniq : ∀ pv ∈ ws.flatten, pv.1 = row * width + col → pv.2 = F row col := by
    intro pv hpv heq
    obtain ⟨p, _, ij, hij, rfl⟩ := (hmem pv).mp hpv
    obtain ⟨_, h2⟩ := c20_mem_pairs.mp hij
    obtain ⟨e2, e1⟩ := c20_digit_unique (W := width) hcol h2 heq
    show F (p * m + ij.1) ij.2 = F row col
    rw [e1, e2]
  have := hval (row * width + col) (F row col) hin huniq
  rw [Array.getD_eq_getD_getElem?, this]; rfl

end HC
