import Heathcliff.Gen.PolyFns
import Heathcliff.Model.Scheme
import Heathcliff.Proofs.GenWord2

/-!
  Phase 4b of the translator tie: the coefficient-wise kernels of src/util/polysmallmod.rs (generated into
  `Heathcliff/Gen/PolyFns.lean`, `HC.GenP`) against the per-component operations of the hand model (`zipM'`, `mapM'` of
  Model/RNS.lean, `dyadicProduct` / `negacyclicShift` of Model/NTT.lean).  Every generated kernel is an index loop
  `r[i] := g i r`; `gp_loop` is that loop with `g` abstract, `gp_loop_mapM` turns it into a `List.mapM` over the indices,
  `gp_zipM'_eq` / `gp_mapM'_eq` do the same for the model's `push` folds.  Helper names start with `gp_`.
-/
namespace HC
open HC.GenW HC.GenP

/-! ### generic index loop -/

/-- `for i in i0..i0+cnt { r[i] = g i r }` -/
def gp_loop (g : Nat → List Nat → R Nat) : Nat → Nat → List Nat → R (List Nat)
  | 0, _, r => pure r
  | fuel+1, i, r => do
    let v ← g i r
    let r ← GenW.setIdx r i v
    gp_loop g fuel (i + 1) r

theorem gp_setIdx_ok (l : List Nat) (i v : Nat) (h : i < l.length) : GenW.setIdx l i v = .ok (l.set i v) := by
  unfold GenW.setIdx; rw [if_pos h]

theorem gp_idx_getD (l : List Nat) (i : Nat) (h : i < l.length) : GenW.idx l i = .ok (l.getD i 0) := by
  rw [gw_idx_eq l i h]; simp [List.getD, h]

theorem gp_getD_set_ne (a : List Nat) {p p' : Nat} (v : Nat) (h : p ≠ p') : (a.set p v).getD p' 0 = a.getD p' 0 := by
  simp [List.getD, h]

theorem gp_take_set (l : List Nat) (i v : Nat) (h : i < l.length) : (l.set i v).take (i+1) = l.take i ++ [v] := by
  rw [List.take_succ_eq_append_getElem (by rw [List.length_set]; exact h), List.getElem_set_self, List.take_set_of_le (Nat.le_refl i)]

theorem gp_drop_set (l : List Nat) {i K : Nat} (v : Nat) (h : i < K) : (l.set i v).drop K = l.drop K := by
  apply List.ext_getElem?
  intro k
  simp only [List.getElem?_drop, List.getElem?_set]
  rw [if_neg (by omega)]

/-- the loop as a `mapM` over the indices, when `g k` depends on the buffer only through its length and position `k` -/
theorem gp_loop_range' (g : Nat → List Nat → R Nat) (h : Nat → R Nat) (r0 : List Nat) (K : Nat) (hK : K ≤ r0.length)
    (hg : ∀ k r, k < K → r.length = r0.length → r.getD k 0 = r0.getD k 0 → g k r = h k) :
    ∀ cnt i r, i + cnt = K → r.length = r0.length → (∀ k, i ≤ k → r.getD k 0 = r0.getD k 0) →
    gp_loop g cnt i r = (do let vs ← (List.range' i cnt).mapM h; pure (r.take i ++ vs ++ r.drop K)) := by
  intro cnt
  induction cnt with
  | zero =>
    intro i r hi hl _
    rw [gp_loop, List.range'_zero, List.mapM_nil]
    have : i = K := by omega
    subst this
    simp
  | succ n ih =>
    intro i r hi hl hr
    have hil : i < r.length := by omega
    rw [gp_loop, hg i r (by omega) hl (hr i (Nat.le_refl _)), List.range'_succ, List.mapM_cons]
    cases hh : h i with
    | error e => rfl
    | ok v =>
      simp only [bind, Except.bind, gp_setIdx_ok _ _ _ hil]
      rw [ih (i + 1) (r.set i v) (by omega) (by rw [List.length_set]; exact hl)
        (fun k hk => by rw [gp_getD_set_ne _ _ (by omega)]; exact hr k (by omega))]
      simp only [bind, Except.bind]
      cases (List.range' (i + 1) n).mapM h with
      | error e => rfl
      | ok vs =>
        simp only [pure, Except.pure]
        rw [gp_take_set _ _ _ hil, gp_drop_set _ _ (by omega)]
        simp

theorem gp_loop_mapM (g : Nat → List Nat → R Nat) (h : Nat → R Nat) (r0 : List Nat) (K : Nat) (hK : K ≤ r0.length)
    (hg : ∀ k r, k < K → r.length = r0.length → r.getD k 0 = r0.getD k 0 → g k r = h k) :
    gp_loop g K 0 r0 = (do let vs ← (List.range K).mapM h; pure (vs ++ r0.drop K)) := by
  rw [gp_loop_range' g h r0 K hK hg K 0 r0 (by omega) rfl (fun _ _ => rfl), List.range_eq_range']
  simp

/-! ### the model's `push` folds as `mapM` -/

theorem gp_mapM_congr {α : Type} (f g : α → R Nat) : ∀ (l : List α), (∀ k, k ∈ l → f k = g k) → l.mapM f = l.mapM g := by
  intro l
  induction l with
  | nil => intro _; rfl
  | cons x t ih =>
    intro h
    rw [List.mapM_cons, List.mapM_cons, h x (List.mem_cons_self), ih (fun k hk => h k (List.mem_cons_of_mem _ hk))]

theorem gp_foldl_push {α : Type} (h : α → R Nat) : ∀ (l : List α) (acc : Array Nat),
    l.foldlM (fun acc i => do let y ← h i; pure (acc.push y)) acc = (do let vs ← l.mapM h; pure (acc ++ vs.toArray)) := by
  intro l
  induction l with
  | nil => intro acc; simp
  | cons x t ih =>
    intro acc
    simp only [List.foldlM_cons, List.mapM_cons, bind_assoc, pure_bind, ih]
    congr 1; funext y; congr 1; funext vs
    simp

theorem gp_zipM'_eq (A B : Array Nat) (f : Nat → Nat → R Nat) :
    zipM' A B f = (do let vs ← (List.range A.size).mapM (fun i => f (A.getD i 0) (B.getD i 0)); pure vs.toArray) := by
  unfold zipM'
  rw [gp_foldl_push]
  simp

theorem gp_mapM'_eq (A : Array Nat) (f : Nat → R Nat) : mapM' A f = (do let vs ← A.toList.mapM f; pure vs.toArray) := by
  unfold mapM'
  rw [← Array.foldlM_toList, gp_foldl_push]
  simp

theorem gp_mapM_idx (h : Nat → R Nat) : ∀ (l pre : List Nat),
    (List.range' pre.length l.length).mapM (fun k => h ((pre ++ l).getD k 0)) = l.mapM h := by
  intro l
  induction l with
  | nil => intro pre; simp
  | cons x t ih =>
    intro pre
    rw [List.length_cons, List.range'_succ, List.mapM_cons, List.mapM_cons]
    have hx : (pre ++ x :: t).getD pre.length 0 = x := by simp [List.getD]
    rw [hx]
    have := ih (pre ++ [x])
    rw [List.length_append, List.length_singleton, List.append_assoc, List.singleton_append] at this
    rw [this]

theorem gp_mapM_range (h : Nat → R Nat) (l : List Nat) : (List.range l.length).mapM (fun k => h (l.getD k 0)) = l.mapM h := by
  have := gp_mapM_idx h l []
  simpa [List.range_eq_range'] using this
theorem gp_take_getD (a : List Nat) {k n : Nat} (h : k < n) : (a.take n).toArray.getD k 0 = a.getD k 0 := by
  simp [List.getD, h]

theorem gp_zipM'_take (f : Nat → Nat → R Nat) (a b : List Nat) (n : Nat) (hla : n ≤ a.length) :
    zipM' (a.take n).toArray (b.take n).toArray f =
      (do let vs ← (List.range n).mapM (fun k => f (a.getD k 0) (b.getD k 0)); pure vs.toArray) := by
  rw [gp_zipM'_eq]
  have hs : (a.take n).toArray.size = n := by simp [hla]
  rw [hs, gp_mapM_congr _ (fun k => f (a.getD k 0) (b.getD k 0)) _
    (fun k hk => by have := List.mem_range.mp hk; rw [gp_take_getD a this, gp_take_getD b this])]

theorem gp_mapM_take (f : Nat → R Nat) (c : List Nat) (n : Nat) (hl : n ≤ c.length) :
    (List.range n).mapM (fun k => f (c.getD k 0)) = (c.take n).mapM f := by
  rw [← gp_mapM_range f (c.take n), List.length_take, Nat.min_eq_left hl]
  apply gp_mapM_congr
  intro k hk
  have := List.mem_range.mp hk
  congr 1
  simp [List.getD, this]

/-- finishing step shared by the out-of-place kernels: the whole buffer is overwritten -/
theorem gp_finish (x : R (List Nat)) (r : List Nat) :
    (do let vs ← x; pure (vs ++ r.drop r.length) : R (List Nat)) = Except.map Array.toList (do let vs ← x; pure vs.toArray) := by
  cases x with
  | error e => rfl
  | ok vs => simp [bind, Except.bind, pure, Except.pure, Except.map]

/-! ### add / add_inplace -/

theorem gp_add_loop_eq (a b : List Nat) (m : Modulus) : ∀ cnt i r,
    GenP.poly_add_loop1 a b m.value cnt i r =
      gp_loop (fun i _ => do let t1 ← GenW.idx a i; let t2 ← GenW.idx b i; addMod t1 t2 m) cnt i r := by
  intro cnt
  induction cnt with
  | zero => intro i r; rfl
  | succ n ih =>
    intro i r
    rw [GenP.poly_add_loop1, gp_loop]
    simp only [addMod, bind_assoc, ih]

/-- `add(comp1, comp2, modulus, result)`: refused (`assert!`) unless both inputs are at least as long as `result`; then `result` becomes
    the coefficient-wise `addMod` of their first `result.len()` words — the hand model's `zipM'` (the body of `rnsAdd`) -/
theorem gp_poly_add_eq (a b : List Nat) (m : Modulus) (r : List Nat) :
    GenP.poly_add a b m r =
      if r.length ≤ a.length ∧ r.length ≤ b.length then
        Except.map Array.toList (zipM' (a.take r.length).toArray (b.take r.length).toArray (fun x y => addMod x y m))
      else .error .refused := by
  unfold GenP.poly_add
  simp only []
  by_cases h : r.length ≤ a.length ∧ r.length ≤ b.length
  · rw [if_pos (show a.length ≥ r.length ∧ b.length ≥ r.length from h), if_pos h, gp_add_loop_eq,
      gp_loop_mapM _ (fun k => addMod (a.getD k 0) (b.getD k 0) m) r r.length (Nat.le_refl _)
        (fun k r' hk _ _ => by simp only [gp_idx_getD a k (by omega), gp_idx_getD b k (by omega), bind, Except.bind]),
      gp_zipM'_take _ a b _ h.1, gp_finish]
  · rw [if_neg (show ¬ (a.length ≥ r.length ∧ b.length ≥ r.length) from h), if_neg h]
/-! ### generic finishing lemmas -/

/-- out-of-place unary kernel over `zip` (stops at the shorter side): the first `K = min(result.len(), comp.len())` words of `result`
    are overwritten with the images of `comp`, the rest stays -/
theorem gp_unary_out (g : Nat → List Nat → R Nat) (F : Nat → R Nat) (c r : List Nat) (K : Nat) (hKr : K ≤ r.length) (hKc : K ≤ c.length)
    (hg : ∀ k r', k < K → g k r' = (do let t ← GenW.idx c k; F t)) :
    gp_loop g K 0 r = (do let vs ← (c.take K).mapM F; pure (vs ++ r.drop K)) := by
  rw [gp_loop_mapM g (fun k => F (c.getD k 0)) r K hKr
    (fun k r' hk _ _ => by rw [hg k r' hk, gp_idx_getD c k (by omega)]; rfl), gp_mapM_take F c K hKc]

/-- … for equal lengths this is the hand model's `mapM'` -/
theorem gp_unary_out_model (F : Nat → R Nat) (c r : List Nat) (h : c.length = r.length) :
    (do let vs ← (c.take (min r.length c.length)).mapM F; pure (vs ++ r.drop (min r.length c.length)) : R (List Nat)) =
      Except.map Array.toList (mapM' c.toArray F) := by
  rw [gp_mapM'_eq, h, Nat.min_self, ← h, List.take_length]
  cases c.mapM F with
  | error e => rfl
  | ok vs => simp [bind, Except.bind, pure, Except.pure, Except.map, h]

/-- in-place unary kernel = the hand model's `mapM'` -/
theorem gp_unary_in (g : Nat → List Nat → R Nat) (F : Nat → R Nat) (a : List Nat)
    (hg : ∀ k r', k < a.length → g k r' = (do let t ← GenW.idx r' k; F t)) :
    gp_loop g a.length 0 a = Except.map Array.toList (mapM' a.toArray F) := by
  rw [gp_loop_mapM g (fun k => F (a.getD k 0)) a a.length (Nat.le_refl _)
    (fun k r' hk hl hv => by rw [hg k r' hk, gp_idx_getD r' k (by omega), ← hv]; rfl), gp_mapM_range F a, gp_mapM'_eq]
  exact gp_finish _ a

/-- in-place binary kernel = the hand model's `zipM'` on the first operand and the matching prefix of the second -/
theorem gp_binary_in (g : Nat → List Nat → R Nat) (f : Nat → Nat → R Nat) (a b : List Nat) (hl : a.length ≤ b.length)
    (hg : ∀ k r', k < a.length → g k r' = (do let t1 ← GenW.idx r' k; let t2 ← GenW.idx b k; f t1 t2)) :
    gp_loop g a.length 0 a = Except.map Array.toList (zipM' a.toArray (b.take a.length).toArray f) := by
  rw [gp_loop_mapM g (fun k => f (a.getD k 0) (b.getD k 0)) a a.length (Nat.le_refl _)
    (fun k r' hk hl' hv => by rw [hg k r' hk, gp_idx_getD r' k (by omega), gp_idx_getD b k (by omega), ← hv]; rfl)]
  have := gp_zipM'_take f a b a.length (Nat.le_refl _)
  rw [List.take_length] at this
  rw [this]
  exact gp_finish _ a

/-- out-of-place binary kernel (`result.len()` drives the loop) -/
theorem gp_binary_out (g : Nat → List Nat → R Nat) (f : Nat → Nat → R Nat) (a b r : List Nat) (hla : r.length ≤ a.length) (hlb : r.length ≤ b.length)
    (hg : ∀ k r', k < r.length → g k r' = (do let t1 ← GenW.idx a k; let t2 ← GenW.idx b k; f t1 t2)) :
    gp_loop g r.length 0 r = Except.map Array.toList (zipM' (a.take r.length).toArray (b.take r.length).toArray f) := by
  rw [gp_loop_mapM g (fun k => f (a.getD k 0) (b.getD k 0)) r r.length (Nat.le_refl _)
    (fun k r' hk _ _ => by rw [hg k r' hk, gp_idx_getD a k (by omega), gp_idx_getD b k (by omega)]; rfl),
    gp_zipM'_take f a b _ hla]
  exact gp_finish _ r
/-! ### unary kernels with a scalar: add_scalar, sub_scalar, multiply_scalar, multiply_operand (+ in-place forms) -/

theorem gp_add_scalar_loop_eq (c : List Nat) (s : Nat) (m : Modulus) : ∀ cnt i r,
    GenP.poly_add_scalar_loop1 c s m cnt i r = gp_loop (fun i _ => do let t ← GenW.idx c i; addMod t s m) cnt i r := by
  intro cnt
  induction cnt with
  | zero => intro i r; rfl
  | succ n ih =>
    intro i r
    rw [GenP.poly_add_scalar_loop1, gp_loop]
    simp only [gw_add_u64_mod_eq, bind_assoc, ih]

/-- `add_scalar(comp, scalar, modulus, result)` (`result.iter_mut().zip(comp.iter())`: stops at the shorter slice): the first
    `min(result.len(), comp.len())` words of `result` become `add_u64_mod(c, scalar, modulus)` of the words of `comp`, the rest of `result` is kept -/
theorem gp_poly_add_scalar_eq (c : List Nat) (s : Nat) (m : Modulus) (r : List Nat) :
    GenP.poly_add_scalar c s m r =
      (do let vs ← (c.take (min r.length c.length)).mapM (fun x => addMod x s m); pure (vs ++ r.drop (min r.length c.length))) := by
  unfold GenP.poly_add_scalar
  rw [gp_add_scalar_loop_eq]
  exact gp_unary_out _ _ c r _ (Nat.min_le_left _ _) (Nat.min_le_right _ _) (fun _ _ _ => rfl)

/-- … for slices of equal length: the hand model's `mapM'` with `addMod · scalar modulus` -/
theorem gp_poly_add_scalar_model (c : List Nat) (s : Nat) (m : Modulus) (r : List Nat) (h : c.length = r.length) :
    GenP.poly_add_scalar c s m r = Except.map Array.toList (mapM' c.toArray (fun x => addMod x s m)) := by
  rw [gp_poly_add_scalar_eq, gp_unary_out_model _ c r h]

theorem gp_add_scalar_inplace_loop_eq (s : Nat) (m : Modulus) : ∀ cnt i r,
    GenP.poly_add_scalar_inplace_loop1 s m cnt i r = gp_loop (fun i r => do let t ← GenW.idx r i; addMod t s m) cnt i r := by
  intro cnt
  induction cnt with
  | zero => intro i r; rfl
  | succ n ih =>
    intro i r
    rw [GenP.poly_add_scalar_inplace_loop1, gp_loop]
    simp only [gw_add_u64_mod_eq, bind_assoc, ih]

/-- `add_scalar_inplace(comp, scalar, modulus)` = the hand model's `mapM'` with `addMod · scalar modulus` -/
theorem gp_poly_add_scalar_inplace_eq (a : List Nat) (s : Nat) (m : Modulus) :
    GenP.poly_add_scalar_inplace a s m = Except.map Array.toList (mapM' a.toArray (fun x => addMod x s m)) := by
  unfold GenP.poly_add_scalar_inplace
  rw [gp_add_scalar_inplace_loop_eq]
  exact gp_unary_in _ _ a (fun _ _ _ => rfl)

theorem gp_sub_scalar_loop_eq (c : List Nat) (s : Nat) (m : Modulus) : ∀ cnt i r,
    GenP.poly_sub_scalar_loop1 c s m cnt i r = gp_loop (fun i _ => do let t ← GenW.idx c i; subMod t s m) cnt i r := by
  intro cnt
  induction cnt with
  | zero => intro i r; rfl
  | succ n ih =>
    intro i r
    rw [GenP.poly_sub_scalar_loop1, gp_loop]
    simp only [gw_sub_u64_mod_eq, bind_assoc, ih]

/-- `sub_scalar(comp, scalar, modulus, result)` (`result.iter_mut().zip(comp.iter())`: stops at the shorter slice): the first
    `min(result.len(), comp.len())` words of `result` become `sub_u64_mod(c, scalar, modulus)` of the words of `comp`, the rest of `result` is kept -/
theorem gp_poly_sub_scalar_eq (c : List Nat) (s : Nat) (m : Modulus) (r : List Nat) :
    GenP.poly_sub_scalar c s m r =
      (do let vs ← (c.take (min r.length c.length)).mapM (fun x => subMod x s m); pure (vs ++ r.drop (min r.length c.length))) := by
  unfold GenP.poly_sub_scalar
  rw [gp_sub_scalar_loop_eq]
  exact gp_unary_out _ _ c r _ (Nat.min_le_left _ _) (Nat.min_le_right _ _) (fun _ _ _ => rfl)

/-- … for slices of equal length: the hand model's `mapM'` with `subMod · scalar modulus` -/
theorem gp_poly_sub_scalar_model (c : List Nat) (s : Nat) (m : Modulus) (r : List Nat) (h : c.length = r.length) :
    GenP.poly_sub_scalar c s m r = Except.map Array.toList (mapM' c.toArray (fun x => subMod x s m)) := by
  rw [gp_poly_sub_scalar_eq, gp_unary_out_model _ c r h]

theorem gp_sub_scalar_inplace_loop_eq (s : Nat) (m : Modulus) : ∀ cnt i r,
    GenP.poly_sub_scalar_inplace_loop1 s m cnt i r = gp_loop (fun i r => do let t ← GenW.idx r i; subMod t s m) cnt i r := by
  intro cnt
  induction cnt with
  | zero => intro i r; rfl
  | succ n ih =>
    intro i r
    rw [GenP.poly_sub_scalar_inplace_loop1, gp_loop]
    simp only [gw_sub_u64_mod_eq, bind_assoc, ih]

/-- `sub_scalar_inplace(comp, scalar, modulus)` = the hand model's `mapM'` with `subMod · scalar modulus` -/
theorem gp_poly_sub_scalar_inplace_eq (a : List Nat) (s : Nat) (m : Modulus) :
    GenP.poly_sub_scalar_inplace a s m = Except.map Array.toList (mapM' a.toArray (fun x => subMod x s m)) := by
  unfold GenP.poly_sub_scalar_inplace
  rw [gp_sub_scalar_inplace_loop_eq]
  exact gp_unary_in _ _ a (fun _ _ _ => rfl)

theorem gp_multiply_scalar_loop_eq (c : List Nat) (s : Nat) (m : Modulus) : ∀ cnt i r,
    GenP.poly_multiply_scalar_loop1 c s m cnt i r = gp_loop (fun i _ => do let t ← GenW.idx c i; mulMod t s m) cnt i r := by
  intro cnt
  induction cnt with
  | zero => intro i r; rfl
  | succ n ih =>
    intro i r
    rw [GenP.poly_multiply_scalar_loop1, gp_loop]
    simp only [gw_multiply_u64_mod_eq, bind_assoc, ih]

/-- `multiply_scalar(comp, scalar, modulus, result)` (`result.iter_mut().zip(comp.iter())`: stops at the shorter slice): the first
    `min(result.len(), comp.len())` words of `result` become `multiply_u64_mod(c, scalar, modulus)` of the words of `comp`, the rest of `result` is kept -/
theorem gp_poly_multiply_scalar_eq (c : List Nat) (s : Nat) (m : Modulus) (r : List Nat) :
    GenP.poly_multiply_scalar c s m r =
      (do let vs ← (c.take (min r.length c.length)).mapM (fun x => mulMod x s m); pure (vs ++ r.drop (min r.length c.length))) := by
  unfold GenP.poly_multiply_scalar
  rw [gp_multiply_scalar_loop_eq]
  exact gp_unary_out _ _ c r _ (Nat.min_le_left _ _) (Nat.min_le_right _ _) (fun _ _ _ => rfl)

/-- … for slices of equal length: the hand model's `mapM'` with `mulMod · scalar modulus` -/
theorem gp_poly_multiply_scalar_model (c : List Nat) (s : Nat) (m : Modulus) (r : List Nat) (h : c.length = r.length) :
    GenP.poly_multiply_scalar c s m r = Except.map Array.toList (mapM' c.toArray (fun x => mulMod x s m)) := by
  rw [gp_poly_multiply_scalar_eq, gp_unary_out_model _ c r h]

theorem gp_multiply_scalar_inplace_loop_eq (s : Nat) (m : Modulus) : ∀ cnt i r,
    GenP.poly_multiply_scalar_inplace_loop1 s m cnt i r = gp_loop (fun i r => do let t ← GenW.idx r i; mulMod t s m) cnt i r := by
  intro cnt
  induction cnt with
  | zero => intro i r; rfl
  | succ n ih =>
    intro i r
    rw [GenP.poly_multiply_scalar_inplace_loop1, gp_loop]
    simp only [gw_multiply_u64_mod_eq, bind_assoc, ih]

/-- `multiply_scalar_inplace(comp, scalar, modulus)` = the hand model's `mapM'` with `mulMod · scalar modulus` -/
theorem gp_poly_multiply_scalar_inplace_eq (a : List Nat) (s : Nat) (m : Modulus) :
    GenP.poly_multiply_scalar_inplace a s m = Except.map Array.toList (mapM' a.toArray (fun x => mulMod x s m)) := by
  unfold GenP.poly_multiply_scalar_inplace
  rw [gp_multiply_scalar_inplace_loop_eq]
  exact gp_unary_in _ _ a (fun _ _ _ => rfl)

theorem gp_multiply_operand_loop_eq (c : List Nat) (s : MulOperand) (m : Modulus) : ∀ cnt i r,
    GenP.poly_multiply_operand_loop1 c s m cnt i r = gp_loop (fun i _ => do let t ← GenW.idx c i; mulOperandMod t s m) cnt i r := by
  intro cnt
  induction cnt with
  | zero => intro i r; rfl
  | succ n ih =>
    intro i r
    rw [GenP.poly_multiply_operand_loop1, gp_loop]
    simp only [gw_multiply_u64operand_mod_eq, bind_assoc, ih]

/-- `multiply_operand(comp, scalar, modulus, result)` (`result.iter_mut().zip(comp.iter())`: stops at the shorter slice): the first
    `min(result.len(), comp.len())` words of `result` become `multiply_u64operand_mod(c, scalar, modulus)` of the words of `comp`, the rest of `result` is kept -/
theorem gp_poly_multiply_operand_eq (c : List Nat) (s : MulOperand) (m : Modulus) (r : List Nat) :
    GenP.poly_multiply_operand c s m r =
      (do let vs ← (c.take (min r.length c.length)).mapM (fun x => mulOperandMod x s m); pure (vs ++ r.drop (min r.length c.length))) := by
  unfold GenP.poly_multiply_operand
  rw [gp_multiply_operand_loop_eq]
  exact gp_unary_out _ _ c r _ (Nat.min_le_left _ _) (Nat.min_le_right _ _) (fun _ _ _ => rfl)

/-- … for slices of equal length: the hand model's `mapM'` with `mulOperandMod · scalar modulus` -/
theorem gp_poly_multiply_operand_model (c : List Nat) (s : MulOperand) (m : Modulus) (r : List Nat) (h : c.length = r.length) :
    GenP.poly_multiply_operand c s m r = Except.map Array.toList (mapM' c.toArray (fun x => mulOperandMod x s m)) := by
  rw [gp_poly_multiply_operand_eq, gp_unary_out_model _ c r h]

theorem gp_multiply_operand_inplace_loop_eq (s : MulOperand) (m : Modulus) : ∀ cnt i r,
    GenP.poly_multiply_operand_inplace_loop1 s m cnt i r = gp_loop (fun i r => do let t ← GenW.idx r i; mulOperandMod t s m) cnt i r := by
  intro cnt
  induction cnt with
  | zero => intro i r; rfl
  | succ n ih =>
    intro i r
    rw [GenP.poly_multiply_operand_inplace_loop1, gp_loop]
    simp only [gw_multiply_u64operand_mod_eq, bind_assoc, ih]

/-- `multiply_operand_inplace(comp, scalar, modulus)` = the hand model's `mapM'` with `mulOperandMod · scalar modulus` -/
theorem gp_poly_multiply_operand_inplace_eq (a : List Nat) (s : MulOperand) (m : Modulus) :
    GenP.poly_multiply_operand_inplace a s m = Except.map Array.toList (mapM' a.toArray (fun x => mulOperandMod x s m)) := by
  unfold GenP.poly_multiply_operand_inplace
  rw [gp_multiply_operand_inplace_loop_eq]
  exact gp_unary_in _ _ a (fun _ _ _ => rfl)

/-! ### modulo, negate -/

theorem gp_modulo_loop_eq (c : List Nat) (m : Modulus) : ∀ cnt i r,
    GenP.poly_modulo_loop1 c m cnt i r = gp_loop (fun i _ => do let t ← GenW.idx c i; barrett64 t m) cnt i r := by
  intro cnt
  induction cnt with
  | zero => intro i r; rfl
  | succ n ih =>
    intro i r
    rw [GenP.poly_modulo_loop1, gp_loop]
    simp only [GenP.mod_reduce, gw_barrett_reduce_u64_eq, bind_assoc, ih]

/-- `modulo(component, modulus, result)`: `Modulus::reduce` (= `barrett_reduce_u64`, generated as `GenP.mod_reduce`) of the first
    `min(result.len(), component.len())` words -/
theorem gp_poly_modulo_eq (c : List Nat) (m : Modulus) (r : List Nat) :
    GenP.poly_modulo c m r =
      (do let vs ← (c.take (min r.length c.length)).mapM (fun x => barrett64 x m); pure (vs ++ r.drop (min r.length c.length))) := by
  unfold GenP.poly_modulo
  rw [gp_modulo_loop_eq]
  exact gp_unary_out _ _ c r _ (Nat.min_le_left _ _) (Nat.min_le_right _ _) (fun _ _ _ => rfl)

theorem gp_poly_modulo_model (c : List Nat) (m : Modulus) (r : List Nat) (h : c.length = r.length) :
    GenP.poly_modulo c m r = Except.map Array.toList (mapM' c.toArray (fun x => barrett64 x m)) := by
  rw [gp_poly_modulo_eq, gp_unary_out_model _ c r h]

theorem gp_negate_cell (c : List Nat) (k : Nat) (m : Modulus) :
    (do let t1 ← GenW.idx c k
        (if t1 ≠ 0 then (do let t2 ← GenW.idx c k; ckSub m.value t2) else pure 0) : R Nat) =
      (do let t ← GenW.idx c k; negateMod t m) := by
  cases h : GenW.idx c k with
  | error e => rfl
  | ok x =>
    simp only [bind, Except.bind, negateMod]
    by_cases hx : x = 0
    · simp [hx]
    · simp [hx]

theorem gp_negate_loop_eq (c : List Nat) (m : Modulus) : ∀ cnt i r,
    GenP.poly_negate_loop1 c m.value cnt i r = gp_loop (fun i _ => do let t ← GenW.idx c i; negateMod t m) cnt i r := by
  intro cnt
  induction cnt with
  | zero => intro i r; rfl
  | succ n ih =>
    intro i r
    rw [GenP.poly_negate_loop1, gp_loop, ← gp_negate_cell]
    simp only [bind_assoc, ih]

/-- `negate(component, modulus, result)` (`component.iter().zip(result.iter_mut())`) -/
theorem gp_poly_negate_eq (c : List Nat) (m : Modulus) (r : List Nat) :
    GenP.poly_negate c m r =
      (do let vs ← (c.take (min r.length c.length)).mapM (fun x => negateMod x m); pure (vs ++ r.drop (min r.length c.length))) := by
  unfold GenP.poly_negate
  simp only []
  rw [gp_negate_loop_eq, Nat.min_comm c.length r.length]
  exact gp_unary_out _ _ c r _ (Nat.min_le_left _ _) (Nat.min_le_right _ _) (fun _ _ _ => rfl)

theorem gp_poly_negate_model (c : List Nat) (m : Modulus) (r : List Nat) (h : c.length = r.length) :
    GenP.poly_negate c m r = Except.map Array.toList (mapM' c.toArray (fun x => negateMod x m)) := by
  rw [gp_poly_negate_eq, gp_unary_out_model _ c r h]

theorem gp_negate_inplace_loop_eq (m : Modulus) : ∀ cnt i r,
    GenP.poly_negate_inplace_loop1 m.value cnt i r = gp_loop (fun i r => do let t ← GenW.idx r i; negateMod t m) cnt i r := by
  intro cnt
  induction cnt with
  | zero => intro i r; rfl
  | succ n ih =>
    intro i r
    rw [GenP.poly_negate_inplace_loop1, gp_loop, ← gp_negate_cell]
    simp only [bind_assoc, ih]

/-- `negate_inplace(component, modulus)` = the hand model's `mapM' · (negateMod · modulus)` (the body of `rnsNeg`) -/
theorem gp_poly_negate_inplace_eq (a : List Nat) (m : Modulus) :
    GenP.poly_negate_inplace a m = Except.map Array.toList (mapM' a.toArray (fun x => negateMod x m)) := by
  unfold GenP.poly_negate_inplace
  simp only []
  rw [gp_negate_inplace_loop_eq]
  exact gp_unary_in _ _ a (fun _ _ _ => rfl)
/-! ### add_inplace, sub, sub_inplace -/

theorem gp_add_inplace_loop_eq (b : List Nat) (m : Modulus) : ∀ cnt i r,
    GenP.poly_add_inplace_loop1 b m.value cnt i r =
      gp_loop (fun i r => do let t1 ← GenW.idx r i; let t2 ← GenW.idx b i; addMod t1 t2 m) cnt i r := by
  intro cnt
  induction cnt with
  | zero => intro i r; rfl
  | succ n ih =>
    intro i r
    rw [GenP.poly_add_inplace_loop1, gp_loop]
    simp only [addMod, bind_assoc, ih]

/-- `add_inplace(comp1, comp2, modulus)`: refused unless `comp2` is at least as long as `comp1`; then `comp1` becomes the
    coefficient-wise `addMod` — the hand model's `zipM'` (the body of `rnsAdd`) -/
theorem gp_poly_add_inplace_eq (a b : List Nat) (m : Modulus) :
    GenP.poly_add_inplace a b m =
      if a.length ≤ b.length then Except.map Array.toList (zipM' a.toArray (b.take a.length).toArray (fun x y => addMod x y m))
      else .error .refused := by
  unfold GenP.poly_add_inplace
  simp only []
  by_cases h : a.length ≤ b.length
  · rw [if_pos (show b.length ≥ a.length from h), if_pos h, gp_add_inplace_loop_eq]
    exact gp_binary_in _ _ a b h (fun _ _ _ => rfl)
  · rw [if_neg (show ¬ b.length ≥ a.length from h), if_neg h]

theorem gp_sub_cell (x y : Nat) (m : Modulus) :
    (match GenW.sub_u64 x y with
      | (v3, t3) => (pure (if (decide (t3 ≠ 0)) = true then wAdd v3 m.value else v3) : R Nat)) = subMod x y m := by
  unfold GenW.sub_u64 subMod subU64
  simp only []
  by_cases h : y > x
  · simp [h]
  · simp [h]

theorem gp_sub_loop_eq (a b : List Nat) (m : Modulus) : ∀ cnt i r,
    GenP.poly_sub_loop1 a b m.value cnt i r =
      gp_loop (fun i _ => do let t1 ← GenW.idx a i; let t2 ← GenW.idx b i; subMod t1 t2 m) cnt i r := by
  intro cnt
  induction cnt with
  | zero => intro i r; rfl
  | succ n ih =>
    intro i r
    rw [GenP.poly_sub_loop1, gp_loop]
    simp only [← gp_sub_cell, bind_assoc, pure_bind, ih]

/-- `sub(comp1, comp2, modulus, result)` = `zipM'` with `subMod` (the body of `rnsSub`), same `assert!` as `add` -/
theorem gp_poly_sub_eq (a b : List Nat) (m : Modulus) (r : List Nat) :
    GenP.poly_sub a b m r =
      if r.length ≤ a.length ∧ r.length ≤ b.length then
        Except.map Array.toList (zipM' (a.take r.length).toArray (b.take r.length).toArray (fun x y => subMod x y m))
      else .error .refused := by
  unfold GenP.poly_sub
  simp only []
  by_cases h : r.length ≤ a.length ∧ r.length ≤ b.length
  · rw [if_pos (show a.length ≥ r.length ∧ b.length ≥ r.length from h), if_pos h, gp_sub_loop_eq]
    exact gp_binary_out _ _ a b r h.1 h.2 (fun _ _ _ => rfl)
  · rw [if_neg (show ¬ (a.length ≥ r.length ∧ b.length ≥ r.length) from h), if_neg h]

theorem gp_sub_inplace_loop_eq (b : List Nat) (m : Modulus) : ∀ cnt i r,
    GenP.poly_sub_inplace_loop1 b m.value cnt i r =
      gp_loop (fun i r => do let t1 ← GenW.idx r i; let t2 ← GenW.idx b i; subMod t1 t2 m) cnt i r := by
  intro cnt
  induction cnt with
  | zero => intro i r; rfl
  | succ n ih =>
    intro i r
    rw [GenP.poly_sub_inplace_loop1, gp_loop]
    simp only [← gp_sub_cell, bind_assoc, pure_bind, ih]

theorem gp_poly_sub_inplace_eq (a b : List Nat) (m : Modulus) :
    GenP.poly_sub_inplace a b m =
      if a.length ≤ b.length then Except.map Array.toList (zipM' a.toArray (b.take a.length).toArray (fun x y => subMod x y m))
      else .error .refused := by
  unfold GenP.poly_sub_inplace
  simp only []
  by_cases h : a.length ≤ b.length
  · rw [if_pos (show b.length ≥ a.length from h), if_pos h, gp_sub_inplace_loop_eq]
    exact gp_binary_in _ _ a b h (fun _ _ _ => rfl)
  · rw [if_neg (show ¬ b.length ≥ a.length from h), if_neg h]
/-! ### dyadic_product (Barrett reduction of the 128-bit product, inlined in the code) -/

theorem gp_dyadic_loop_eq (a b : List Nat) (m : Modulus) : ∀ cnt i r z0 z1 t1 t20 t21 c,
    GenP.poly_dyadic_product_loop1 a b m.value m.cr0 m.cr1 cnt i r z0 z1 t1 t20 t21 c =
      gp_loop (fun i _ => do let x ← GenW.idx a i; let y ← GenW.idx b i; mulMod x y m) cnt i r := by
  intro cnt
  induction cnt with
  | zero => intro i r _ _ _ _ _ _; rfl
  | succ n ih =>
    intro i r _ _ _ _ _ _
    rw [GenP.poly_dyadic_product_loop1, gp_loop]
    simp only [gw_multiply_u64_u64_eq, gw_multiply_u64_high_word_eq, gw_add_u64_eq, mulMod, barrett128, bind_assoc, ih]
theorem gp_dyadicProduct_zipM' (A B : Array Nat) (m : Modulus) : dyadicProduct A B m = zipM' A B (fun x y => mulMod x y m) := rfl

/-- `dyadic_product(comp1, comp2, modulus, result)` (no `assert!`: `result.len()` drives the loop, shorter inputs are an index panic —
    excluded here) = the hand model's `dyadicProduct` (Model/NTT.lean; the body of `rnsDyadic`) -/
theorem gp_poly_dyadic_product_eq (a b : List Nat) (m : Modulus) (r : List Nat) (hla : r.length ≤ a.length) (hlb : r.length ≤ b.length) :
    GenP.poly_dyadic_product a b m r = Except.map Array.toList (dyadicProduct (a.take r.length).toArray (b.take r.length).toArray m) := by
  unfold GenP.poly_dyadic_product
  simp only []
  rw [gp_dyadic_loop_eq, gp_dyadicProduct_zipM']
  exact gp_binary_out _ _ a b r hla hlb (fun _ _ _ => rfl)

theorem gp_dyadic_inplace_loop_eq (b : List Nat) (m : Modulus) : ∀ cnt i r z0 z1 t1 t20 t21 c,
    GenP.poly_dyadic_product_inplace_loop1 b m.value m.cr0 m.cr1 cnt i r z0 z1 t1 t20 t21 c =
      gp_loop (fun i r => do let x ← GenW.idx r i; let y ← GenW.idx b i; mulMod x y m) cnt i r := by
  intro cnt
  induction cnt with
  | zero => intro i r _ _ _ _ _ _; rfl
  | succ n ih =>
    intro i r _ _ _ _ _ _
    rw [GenP.poly_dyadic_product_inplace_loop1, gp_loop]
    simp only [gw_multiply_u64_u64_eq, gw_multiply_u64_high_word_eq, gw_add_u64_eq, mulMod, barrett128, bind_assoc, ih]

theorem gp_poly_dyadic_product_inplace_eq (a b : List Nat) (m : Modulus) (hl : a.length ≤ b.length) :
    GenP.poly_dyadic_product_inplace a b m = Except.map Array.toList (dyadicProduct a.toArray (b.take a.length).toArray m) := by
  unfold GenP.poly_dyadic_product_inplace
  simp only []
  rw [gp_dyadic_inplace_loop_eq, gp_dyadicProduct_zipM']
  exact gp_binary_in _ _ a b hl (fun _ _ _ => rfl)
/-! ### the `_p` / `_ps` wrappers: a kernel applied to consecutive blocks of the flat buffer -/

/-- `for i in i0..i0+cnt { let upper = offset + n; r = step i offset upper r; offset = upper }` -/
def gp_bloop (step : Nat → Nat → Nat → List Nat → R (List Nat)) (n : Nat) : Nat → Nat → List Nat → Nat → R (List Nat)
  | 0, _, r, _ => pure r
  | fuel+1, i, r, off => do
    let upper ← ckAdd off n
    let r ← step i off upper r
    gp_bloop step n fuel (i + 1) r upper

/-- `B i` applied to the `cnt` consecutive `n`-blocks of `rest` (block numbers from `i`), the remainder kept -/
def gp_blocks (B : Nat → List Nat → R (List Nat)) (n : Nat) : Nat → Nat → List Nat → R (List Nat)
  | 0, _, rest => pure rest
  | cnt+1, i, rest => do
    let o ← B i (rest.take n)
    let tl ← gp_blocks B n cnt (i + 1) (rest.drop n)
    pure (o ++ tl)

theorem gp_slice_block (pre rest : List Nat) (i n : Nat) (hp : pre.length = i * n) (hn : n ≤ rest.length) :
    GenP.slice (pre ++ rest) (i * n) (i * n + n) = .ok (rest.take n) := by
  unfold GenP.slice
  rw [if_pos ⟨by omega, by rw [List.length_append]; omega⟩, ← hp, List.drop_left, Nat.add_sub_cancel_left]

theorem gp_splice_block (pre rest o : List Nat) (i n : Nat) (hp : pre.length = i * n) (ho : o.length = n) :
    GenP.splice (pre ++ rest) (i * n) o = pre ++ o ++ rest.drop n := by
  unfold GenP.splice
  rw [ho, ← hp, List.take_left, List.drop_append, List.drop_eq_nil_of_le (by omega)]
  simp

theorem gp_mapM_length {α : Type} (f : α → R Nat) : ∀ (l : List α) (vs : List Nat), l.mapM f = .ok vs → vs.length = l.length := by
  intro l
  induction l with
  | nil => intro vs h; simp at h; cases h; rfl
  | cons x t ih =>
    intro vs h
    rw [List.mapM_cons] at h
    cases hx : f x with
    | error e => rw [hx] at h; cases h
    | ok y =>
      rw [hx] at h
      cases ht : t.mapM f with
      | error e => rw [ht] at h; cases h
      | ok ws =>
        rw [ht] at h
        cases h
        simp [ih ws ht]

theorem gp_bloop_blocks (step : Nat → Nat → Nat → List Nat → R (List Nat)) (B : Nat → List Nat → R (List Nat)) (n : Nat)
    (hstep : ∀ i pre rest, pre.length = i * n → n ≤ rest.length →
      step i (i * n) (i * n + n) (pre ++ rest) = (do let o ← B i (rest.take n); pure (pre ++ o ++ rest.drop n)))
    (hlen : ∀ i x o, B i x = .ok o → o.length = x.length) :
    ∀ cnt i pre rest, pre.length = i * n → cnt * n ≤ rest.length → (pre ++ rest).length < B64 →
    gp_bloop step n cnt i (pre ++ rest) (i * n) = (do let x ← gp_blocks B n cnt i rest; pure (pre ++ x)) := by
  intro cnt
  induction cnt with
  | zero => intro i pre rest _ _ _; simp [gp_bloop, gp_blocks]
  | succ c ih =>
    intro i pre rest hp hr hB
    have hn : n ≤ rest.length := by rw [Nat.succ_mul] at hr; omega
    have hck : ckAdd (i * n) n = .ok (i * n + n) := by
      unfold ckAdd; rw [if_pos (by rw [List.length_append] at hB; omega)]
    rw [gp_bloop, gp_blocks, hck]
    simp only [bind, Except.bind]
    rw [hstep i pre rest hp hn]
    cases hb : B i (rest.take n) with
    | error e => rfl
    | ok o =>
      have hol : o.length = n := by rw [hlen i _ o hb, List.length_take, Nat.min_eq_left hn]
      simp only [bind, Except.bind, pure, Except.pure]
      have h2 : i * n + n = (i + 1) * n := by rw [Nat.succ_mul]
      rw [h2, List.append_assoc pre o, ← List.append_assoc pre o (rest.drop n)]
      rw [ih (i + 1) (pre ++ o) (rest.drop n) (by rw [List.length_append, hp, hol, Nat.succ_mul])
        (by rw [List.length_drop]; rw [Nat.succ_mul] at hr; omega)
        (by simp only [List.length_append, List.length_drop] at hB ⊢; omega)]
      cases gp_blocks B n c (i + 1) (rest.drop n) with
      | error e => rfl
      | ok tl => simp [bind, Except.bind, pure, Except.pure]

/-! ### multiply_scalar_p -/

theorem gp_multiply_scalar_len (c : List Nat) (s : Nat) (m : Modulus) (x o : List Nat)
    (h : GenP.poly_multiply_scalar c s m x = .ok o) : o.length = x.length := by
  rw [gp_poly_multiply_scalar_eq] at h
  cases hm : (c.take (min x.length c.length)).mapM (fun y => mulMod y s m) with
  | error e => rw [hm] at h; cases h
  | ok vs =>
    rw [hm] at h
    cases h
    have := gp_mapM_length _ _ vs hm
    simp only [List.length_append, List.length_drop, this, List.length_take]
    omega

/-- one iteration of the generated `multiply_scalar_p` loop -/
def gp_msp_step (poly : List Nat) (s : Nat) (mods : List Modulus) (i off up : Nat) (r : List Nat) : R (List Nat) := do
  let t1 ← GenP.slice poly off up
  let t2 ← GenP.idxT mods i
  let t3 ← GenP.slice r off up
  let t4 ← GenP.poly_multiply_scalar t1 s t2 t3
  pure (GenP.splice r off t4)

theorem gp_multiply_scalar_p_loop_eq (poly : List Nat) (s n : Nat) (mods : List Modulus) : ∀ cnt i r off,
    GenP.poly_multiply_scalar_p_loop1 poly s n mods cnt i r off = gp_bloop (gp_msp_step poly s mods) n cnt i r off := by
  intro cnt
  induction cnt with
  | zero => intro i r off; rfl
  | succ c ih =>
    intro i r off
    rw [GenP.poly_multiply_scalar_p_loop1, gp_bloop]
    simp only [gp_msp_step, bind_assoc, pure_bind, ih]

/-- the kernel call of `multiply_scalar_p` for component `i` (block `i` of `poly`, modulus `moduli[i]`) -/
def gp_msp_block (poly : List Nat) (s n : Nat) (mods : List Modulus) (i : Nat) (x : List Nat) : R (List Nat) := do
  let t1 ← GenP.slice poly (i * n) (i * n + n)
  let t2 ← GenP.idxT mods i
  GenP.poly_multiply_scalar t1 s t2 x

/-- `multiply_scalar_p(poly, scalar, degree, moduli, result)`: the kernel `multiply_scalar` applied, component after component, to
    the consecutive `degree`-blocks of `result` (with block `i` of `poly` and `moduli[i]`); words of `result` beyond the last block
    are kept.  Together with `gp_poly_multiply_scalar_eq` this fixes the function completely on the flat layout. -/
theorem gp_poly_multiply_scalar_p_blocks (poly : List Nat) (s n : Nat) (mods : List Modulus) (r : List Nat)
    (hr : mods.length * n ≤ r.length) (hB : r.length < B64) :
    GenP.poly_multiply_scalar_p poly s n mods r = gp_blocks (gp_msp_block poly s n mods) n mods.length 0 r := by
  unfold GenP.poly_multiply_scalar_p
  simp only []
  rw [gp_multiply_scalar_p_loop_eq]
  have h := gp_bloop_blocks (gp_msp_step poly s mods) (gp_msp_block poly s n mods) n
    (by
      intro i pre rest hp hn
      simp only [gp_msp_step, gp_msp_block, bind_assoc]
      cases h1 : GenP.slice poly (i * n) (i * n + n) with
      | error e => rfl
      | ok t1 =>
        cases h2 : GenP.idxT mods i with
        | error e => rfl
        | ok t2 =>
          simp only [bind, Except.bind, gp_slice_block pre rest i n hp hn]
          cases h3 : GenP.poly_multiply_scalar t1 s t2 (rest.take n) with
          | error e => rfl
          | ok o =>
            have ho : o.length = n := by
              rw [gp_multiply_scalar_len _ _ _ _ _ h3, List.length_take, Nat.min_eq_left hn]
            simp only [pure, Except.pure, gp_splice_block pre rest o i n hp ho])
    (by
      intro i x o h
      unfold gp_msp_block at h
      cases h1 : GenP.slice poly (i * n) (i * n + n) with
      | error e => rw [h1] at h; cases h
      | ok t1 =>
        cases h2 : GenP.idxT mods i with
        | error e => rw [h1, h2] at h; cases h
        | ok t2 =>
          rw [h1, h2] at h
          exact gp_multiply_scalar_len _ _ _ _ _ h)
    mods.length 0 [] r (by simp) hr (by simpa using hB)
  simp only [List.nil_append, Nat.zero_mul] at h
  rw [h]
  cases gp_blocks (gp_msp_block poly s n mods) n mods.length 0 r with
  | error e => rfl
  | ok x => rfl
end HC
