/- C12 part D: the selection semantics over ℂ.  `RootSel.apply` acts on (re, im) pairs exactly as the Rust code does
   (`mirror` swaps, unary minus / `conj` flip signs); this file shows that over ℂ it coincides with the ring-level meaning
   `c12_selVal` used by `getRootSel_spec`, and instantiates get_root with zeta = exp(2πi/m).
   Prefix every helper lemma with `c12d_`.  This file imports C12B: its statements may be used
  . -/
import Heathcliff.Proofs.C12B
import Mathlib.Data.Complex.Basic
import Mathlib.Analysis.SpecialFunctions.Trigonometric.Basic
import Mathlib.Analysis.SpecialFunctions.Complex.Circle
namespace HC
open Ckks Complex

/-- (re, im) pair ↦ complex number -/
def c12_ofPair (p : ℝ × ℝ) : ℂ := ⟨p.1, p.2⟩

/-- componentwise selection = ring-level selection with I = Complex.I, star = conj -/
theorem selVal_complex (table : Nat → ℂ) (s : RootSel) :
    c12_ofPair (RootSel.apply (fun r : ℝ => -r) (fun i => ((table i).re, (table i).im)) s) = c12_selVal Complex.I table s := by
  obtain ⟨idx, sw, nr, ni⟩ := s
  cases sw <;> cases nr <;> cases ni <;>
    apply Complex.ext <;>
    simp [RootSel.apply, c12_selVal, c12_ofPair, Complex.mul_re, Complex.mul_im]

/-- exp(iθ) has unit modulus, in the `star` form -/
theorem c12d_unit (x : ℝ) : Complex.exp (x * Complex.I) * star (Complex.exp (x * Complex.I)) = 1 := by
  rw [Complex.star_def, ← Complex.exp_conj, ← Complex.exp_add]
  simp

theorem c12d_pow (z : ℂ) (n : ℕ) : Complex.exp z ^ n = Complex.exp (n * z) := (Complex.exp_nat_mul z n).symm

/-- GET_ROOT_INDEX over ℂ: given the exact octant values exp(2πi·i/m), `get_root(j)` is exp(2πi·j/m), for every m = 2^t ≥ 8, every j -/
theorem get_root_index_complex (t : Nat) (ht : 3 ≤ t) (j : Nat) :
    ∃ s, getRootSel (2^t) 3 j = .ok s ∧ s.idx ≤ 2^t / 8 ∧
      c12_ofPair (RootSel.apply (fun r : ℝ => -r)
        (fun i => ((Complex.exp (2 * Real.pi * Complex.I * i / (2^t : ℕ))).re, (Complex.exp (2 * Real.pi * Complex.I * i / (2^t : ℕ))).im)) s)
      = Complex.exp (2 * Real.pi * Complex.I * j / (2^t : ℕ)) := by
  have hm : ((2^t : ℕ) : ℂ) ≠ 0 := by
    exact_mod_cast (pow_pos (by norm_num : 0 < 2) t).ne'
  have hpow : ∀ i : ℕ, Complex.exp (2 * Real.pi * Complex.I * i / (2^t : ℕ))
      = Complex.exp (2 * Real.pi * Complex.I / (2^t : ℕ)) ^ i := by
    intro i
    rw [c12d_pow]; congr 1; ring
  have hI : Complex.exp (2 * Real.pi * Complex.I / (2^t : ℕ)) ^ (2^t / 4) = Complex.I := by
    obtain ⟨u, rfl⟩ : ∃ u, t = u + 2 := ⟨t - 2, by omega⟩
    have h4 : 2 ^ (u + 2) / 4 = 2 ^ u := by
      rw [pow_add]; norm_num
    rw [h4, c12d_pow]
    refine Eq.trans ?_ Complex.exp_pi_div_two_mul_I
    congr 1
    have h2 : ((2 ^ u : ℕ) : ℂ) ≠ 0 := by exact_mod_cast (pow_pos (by norm_num : 0 < 2) u).ne'
    push_cast
    push_cast at h2
    field_simp
    ring
  have hu : Complex.exp (2 * Real.pi * Complex.I / (2^t : ℕ)) * star (Complex.exp (2 * Real.pi * Complex.I / (2^t : ℕ))) = 1 := by
    have := c12d_unit (2 * Real.pi / (2^t : ℕ))
    have e : 2 * (Real.pi : ℂ) * Complex.I / (2^t : ℕ) = ((2 * Real.pi / (2^t : ℕ) : ℝ) : ℂ) * Complex.I := by
      push_cast; ring
    rw [e]; exact this
  obtain ⟨s, h1, h2, h3⟩ := getRootSel_spec t ht _ Complex.I hI Complex.I_mul_I hu j
  refine ⟨s, h1, h2, ?_⟩
  rw [hpow j, ← h3, ← selVal_complex]
  congr 2
  funext i
  rw [hpow i]

/-- psi = exp(2πi/2N) satisfies the hypotheses of the embedding theorems -/
theorem psi_complex (k : Nat) :
    let ψ := Complex.exp (2 * Real.pi * Complex.I / ((2 * 2^k : ℕ) : ℂ))
    ψ^(2^k) = -1 ∧ ψ * star ψ = 1 := by
  intro ψ
  have h2 : ((2 ^ k : ℕ) : ℂ) ≠ 0 := by exact_mod_cast (pow_pos (by norm_num : 0 < 2) k).ne'
  constructor
  · show Complex.exp _ ^ _ = _
    rw [c12d_pow]
    refine Eq.trans ?_ Complex.exp_pi_mul_I
    congr 1
    push_cast
    push_cast at h2
    field_simp
  · show Complex.exp _ * star (Complex.exp _) = 1
    have := c12d_unit (2 * Real.pi / ((2 * 2^k : ℕ) : ℝ))
    have e : 2 * (Real.pi : ℂ) * Complex.I / ((2 * 2^k : ℕ) : ℂ) = ((2 * Real.pi / ((2 * 2^k : ℕ) : ℝ) : ℝ) : ℂ) * Complex.I := by
      push_cast; ring
    rw [e]; exact this

end HC
