/-
  Writers obeying the `Write` contract: `write_all` terminates and is all-or-error; a serializer whose
  scalar writers use `write_all` either transmits the complete encoding or returns an error (and then a
  prefix of the encoding is on the wire).  Core Lean only.
-/
import Heathcliff.Model.Codec
namespace HC.Codec

/-- the two possible outcomes of one `write` call (the `Write` contract of the model stream) -/
theorem Sink.write_cases (s : Sink) (buf : Bytes) :
    (s.failAt = some s.calls ∧ s.write buf = (.error .fault, { s with calls := s.calls + 1 })) ∨
    (s.failAt ≠ some s.calls ∧
      s.write buf = (.ok (min s.limit buf.length),
        { s with calls := s.calls + 1, out := s.out ++ buf.take (min s.limit buf.length) })) := by
  by_cases h : s.failAt = some s.calls
  · left; exact ⟨h, by simp [Sink.write, h]⟩
  · right; exact ⟨h, by simp [Sink.write, h]⟩

/-- outcome of `write_all`-like transmission of `buf` starting from stream state `s` -/
def AllOrErr (buf : Bytes) (s : Sink) (r : Except IOErr Unit × Sink) : Prop :=
  (r.1 = .ok () → r.2.out = s.out ++ buf) ∧
  (∀ e, r.1 = .error e → ∃ j, j ≤ buf.length ∧ r.2.out = s.out ++ buf.take j)

theorem writeAllFuel_spec (fuel : Nat) : ∀ (s : Sink) (buf : Bytes), buf.length ≤ fuel →
    ∃ r, writeAllFuel fuel s buf = some r ∧ AllOrErr buf s r := by
  induction fuel with
  | zero =>
    intro s buf h
    cases buf with
    | nil => exact ⟨(.ok (), s), rfl, by simp [AllOrErr]⟩
    | cons b bs => simp at h
  | succ f ih =>
    intro s buf h
    cases buf with
    | nil => exact ⟨(.ok (), s), rfl, by simp [AllOrErr]⟩
    | cons b bs =>
      rcases Sink.write_cases s (b :: bs) with ⟨_, hw⟩ | ⟨_, hw⟩
      · refine ⟨(.error .fault, { s with calls := s.calls + 1 }), by simp only [writeAllFuel, hw], ?_⟩
        exact ⟨(by intro h; cases h), fun e _ => ⟨0, by simp, by simp⟩⟩
      · generalize hn : min s.limit (b :: bs).length = n at hw
        cases n with
        | zero =>
          refine ⟨(.error .writeZero, { s with calls := s.calls + 1, out := s.out ++ (b :: bs).take 0 }), by simp only [writeAllFuel, hw], ?_⟩
          exact ⟨(by intro h; cases h), fun e _ => ⟨0, by simp, by simp⟩⟩
        | succ m =>
          have hm : m + 1 ≤ (b :: bs).length := by rw [← hn]; exact Nat.min_le_right _ _
          have hlen : ((b :: bs).drop (m + 1)).length ≤ f := by
            simp only [List.length_drop, List.length_cons] at h hm ⊢; omega
          obtain ⟨r, hr, hok, herr⟩ := ih { s with calls := s.calls + 1, out := s.out ++ (b :: bs).take (m + 1) }
            ((b :: bs).drop (m + 1)) hlen
          refine ⟨r, by simp only [writeAllFuel, hw]; exact hr, ?_, ?_⟩
          · intro h1
            have := hok h1
            simp only [List.append_assoc, List.take_append_drop] at this
            exact this
          · intro e h1
            obtain ⟨j, hj, ho⟩ := herr e h1
            refine ⟨m + 1 + j, ?_, ?_⟩
            · simp only [List.length_drop] at hj; omega
            · simp only at ho
              rw [ho, List.append_assoc, ← List.take_add]

/-- `write_all` (fuel = `|buf|`) never runs out of fuel and is all-or-error -/
theorem writeAll_spec (s : Sink) (buf : Bytes) : AllOrErr buf s (writeAll s buf) := by
  obtain ⟨r, hr, h⟩ := writeAllFuel_spec buf.length s buf (Nat.le_refl _)
  simp only [writeAll, hr, Option.getD_some]
  exact h

/-- outcome of a serializer over the stream: complete encoding and its exact length, or an error with a
    prefix of the encoding on the wire -/
def Clean (buf : Bytes) (s : Sink) (r : Except IOErr Nat × Sink) : Prop :=
  (∀ n, r.1 = .ok n → n = buf.length ∧ r.2.out = s.out ++ buf) ∧
  (∀ e, r.1 = .error e → ∃ j, j ≤ buf.length ∧ r.2.out = s.out ++ buf.take j)

theorem scalarWrite_writeAll_clean (s : Sink) (buf : Bytes) : Clean buf s (scalarWrite .writeAll s buf) := by
  have h := writeAll_spec s buf
  unfold scalarWrite
  generalize writeAll s buf = r at h
  obtain ⟨res, s'⟩ := r
  cases res with
  | ok u =>
    cases u
    refine ⟨fun n hn => ?_, fun e he => (by cases he)⟩
    simp only [Except.ok.injEq] at hn
    exact ⟨hn.symm, h.1 rfl⟩
  | error e =>
    exact ⟨fun n hn => (by cases hn), fun e' _ => h.2 e rfl⟩

theorem serialize_clean (mode : SK → WMode) (hm : ∀ k, mode k = .writeAll) :
    ∀ (cs : List Chunk) (s : Sink), Clean (flat cs) s (serialize mode cs s) := by
  intro cs
  induction cs with
  | nil =>
    intro s
    refine ⟨fun n hn => ?_, fun e he => ?_⟩
    · simp only [serialize, Except.ok.injEq] at hn
      simp [serialize, flat, ← hn]
    · simp [serialize] at he
  | cons c cs ih =>
    intro s
    have h1 := scalarWrite_writeAll_clean s c.bytes
    rcases hsw : scalarWrite .writeAll s c.bytes with ⟨res1, s1⟩
    rw [hsw] at h1
    cases res1 with
    | error e =>
      have hs : serialize mode (c :: cs) s = (.error e, s1) := by simp only [serialize, hm, hsw]
      rw [hs]
      obtain ⟨j, hj, ho⟩ := h1.2 e rfl
      refine ⟨fun n hn => (by cases hn), fun e' _ => ⟨j, ?_, ?_⟩⟩
      · simp only [flat, List.length_append]; omega
      · simp only [flat]; simp only at ho; rw [ho, List.take_append_of_le_length hj]
    | ok n1 =>
      obtain ⟨hn1, ho1⟩ := h1.1 n1 rfl
      simp only at ho1
      have h2 := ih s1
      rcases hse : serialize mode cs s1 with ⟨res2, s2⟩
      rw [hse] at h2
      cases res2 with
      | error e =>
        have hs : serialize mode (c :: cs) s = (.error e, s2) := by simp only [serialize, hm, hsw, hse]
        rw [hs]
        obtain ⟨j, hj, ho⟩ := h2.2 e rfl
        simp only at ho
        refine ⟨fun n hn => (by cases hn), fun e' _ => ⟨c.bytes.length + j, ?_, ?_⟩⟩
        · simp only [flat, List.length_append]; omega
        · simp only [flat]
          have e1 : List.take (c.bytes.length + j) c.bytes = c.bytes := List.take_of_length_le (by omega)
          rw [ho, ho1, List.append_assoc, List.take_append, e1, Nat.add_sub_cancel_left]
      | ok n2 =>
        have hs : serialize mode (c :: cs) s = (.ok (n1 + n2), s2) := by simp only [serialize, hm, hsw, hse]
        rw [hs]
        obtain ⟨hn2, ho2⟩ := h2.1 n2 rfl
        simp only at ho2
        refine ⟨fun n hn => ?_, fun e he => (by cases he)⟩
        simp only [Except.ok.injEq] at hn
        refine ⟨?_, ?_⟩
        · simp only [flat, List.length_append]; omega
        · simp only [flat]; rw [ho2, ho1, List.append_assoc]

/-- with the pinned scalar writers (`stream.write`, count returned) the statement is false: a stream that
    accepts 3 bytes per call makes `0x0807060504030201u64.serialize` return `Ok(3)` with 3 bytes sent -/
theorem pinned_short_write_witness :
    serialize (fun _ => .write) (u64C.chunks 578437695752307201) ⟨[3], none, 0, []⟩
      = (.ok 3, ⟨[3], none, 1, [1, 2, 3]⟩) := by rfl

theorem Sink.limit_pos (s : Sink) (h : ∀ l ∈ s.limits, 1 ≤ l) : 1 ≤ s.limit := by
  unfold Sink.limit
  split
  · decide
  · rename_i hne
    have hlen : 0 < s.limits.length := by
      cases hl : s.limits with
      | nil => simp [hl] at hne
      | cons _ _ => simp
    have hi : s.calls % s.limits.length < s.limits.length := Nat.mod_lt _ hlen
    rw [List.getD_eq_getElem?_getD, List.getElem?_eq_getElem hi, Option.getD_some]
    exact h _ (List.getElem_mem hi)

/-- liveness: a stream that never fails and accepts at least one byte per call makes `write_all` succeed -/
theorem writeAllFuel_ok (fuel : Nat) : ∀ (s : Sink) (buf : Bytes), buf.length ≤ fuel →
    s.failAt = none → (∀ l ∈ s.limits, 1 ≤ l) →
    ∃ s', writeAllFuel fuel s buf = some (.ok (), s') ∧ s'.out = s.out ++ buf := by
  induction fuel with
  | zero =>
    intro s buf h _ _
    cases buf with
    | nil => exact ⟨s, rfl, by simp⟩
    | cons b bs => simp at h
  | succ f ih =>
    intro s buf h hf hl
    cases buf with
    | nil => exact ⟨s, rfl, by simp⟩
    | cons b bs =>
      rcases Sink.write_cases s (b :: bs) with ⟨hfail, _⟩ | ⟨_, hw⟩
      · rw [hf] at hfail; cases hfail
      · have hpos := Sink.limit_pos s hl
        generalize hn : min s.limit (b :: bs).length = n at hw
        cases n with
        | zero =>
          have : 1 ≤ min s.limit (b :: bs).length := by
            simp only [List.length_cons]; omega
          omega
        | succ m =>
          have hm : m + 1 ≤ (b :: bs).length := by rw [← hn]; exact Nat.min_le_right _ _
          have hlen : ((b :: bs).drop (m + 1)).length ≤ f := by
            simp only [List.length_drop, List.length_cons] at h hm ⊢; omega
          obtain ⟨s', hr, ho⟩ := ih { s with calls := s.calls + 1, out := s.out ++ (b :: bs).take (m + 1) }
            ((b :: bs).drop (m + 1)) hlen hf hl
          refine ⟨s', by simp only [writeAllFuel, hw]; exact hr, ?_⟩
          simp only [List.append_assoc, List.take_append_drop] at ho
          exact ho

end HC.Codec
