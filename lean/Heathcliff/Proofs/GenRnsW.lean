import Heathcliff.Proofs.NonVac
import Heathcliff.Proofs.GenRns2
import Heathcliff.Proofs.GenRns3
import Heathcliff.Proofs.GenRns5
import Heathcliff.Proofs.GenRnsW2

/-!
  Non-vacuity of the hypothesis bundles of Proofs/GenRns2.lean (translator tie, phase 4c) in the concrete world of Proofs/NonVac.lean:
  `RNSTool::new(4, {97, 113}, 17)`, tables for 97 and 113, the canonical polynomial `nv_c0`.
-/
namespace HC
attribute [local instance] nv_decWFOp nv_decModWF

theorem grw_shape : gr_Shape nv_tool nv_c0 := by unfold gr_Shape; decide +kernel

/-- `gr_divide_and_round_q_last_inplace_eq` applies -/
theorem grw_dar_eq : GenR.divide_and_round_q_last_inplace (flatP nv_c0) nv_tool.baseQ.size nv_tool.baseQ.base.toList nv_tool.n nv_tool.invQLastModQ.toList
    = (nv_tool.divideAndRoundQLast nv_c0).map flatP :=
  gr_divide_and_round_q_last_inplace_eq nv_tool nv_c0 (by decide +kernel) (by decide +kernel) (by decide +kernel) (by decide +kernel) (by decide +kernel) grw_shape

/-- `gr_divide_and_round_q_last_inplace_rounds` applies: `nv_c0` holds the residues of 10960, 1363, 2134, 7122 -/
theorem grw_dar_rounds : ∃ out, GenR.divide_and_round_q_last_inplace (flatP nv_c0) nv_tool.baseQ.size nv_tool.baseQ.base.toList nv_tool.n nv_tool.invQLastModQ.toList = .ok out ∧
    ∀ i j, i < nv_tool.baseQ.size - 1 → j < nv_tool.n →
      out.getD (i * nv_tool.n + j) 0 = (([10960, 1363, 2134, 7122].getD j 0 + (nv_tool.baseQ.q (nv_tool.baseQ.size - 1)).value / 2)
        / (nv_tool.baseQ.q (nv_tool.baseQ.size - 1)).value) % (nv_tool.baseQ.q i).value :=
  gr_divide_and_round_q_last_inplace_rounds nv_tool nv_c0 (fun j => [10960, 1363, 2134, 7122].getD j 0)
    (by decide +kernel) (by decide +kernel) (by decide +kernel) (by decide +kernel) (by decide +kernel) (by decide +kernel) grw_shape (by
      intro i j hi hj
      have hs : nv_tool.baseQ.size = 2 := by decide +kernel
      have hn : nv_tool.n = 4 := nv_tool_shape.1
      rw [hs] at hi; rw [hn] at hj
      interval_cases i <;> interval_cases j <;> decide +kernel)

/-- `gr_mod_t_and_divide_q_last_ntt_inplace_eq` applies (tables of the NonVac level) -/
theorem grw_mtdn_eq : GenR.mod_t_and_divide_q_last_ntt_inplace (flatP nv_c0) nv_tool.baseQ.size nv_tool.baseQ.base.toList nv_tool.n nv_tool.invQLastModQ.toList
      nv_tool.t nv_tool.invQLastModT (fun i x => .ok (gr_IT #[nv_t97, nv_t113] i x)) (fun i x => .ok (gr_NT #[nv_t97, nv_t113] i x))
    = (nv_tool.modTAndDivideQLastNtt #[nv_t97, nv_t113] nv_c0).map flatP := by
  refine gr_mod_t_and_divide_q_last_ntt_inplace_eq nv_tool #[nv_t97, nv_t113] nv_c0 (by decide +kernel) (by decide +kernel) (by decide +kernel) (by decide +kernel)
    (by decide +kernel) (by decide +kernel) (by decide +kernel) grw_shape (by decide +kernel) ?_ ?_
  · intro x hx
    have : (intt (#[nv_t97, nv_t113].getD (nv_tool.baseQ.size - 1) gr_tdflt) (nv_c0.getD (nv_tool.baseQ.size - 1) #[])).toList.all (fun y => decide (y < 2^64)) = true := by
      decide +kernel
    exact of_decide_eq_true (List.all_eq_true.mp this x (by simpa using hx))
  · intro i a hi ha hb
    have hs : nv_tool.baseQ.size - 1 = 1 := by decide +kernel
    have hi0 : i = 0 := by omega
    subst hi0
    have hn : nv_tool.n = 4 := nv_tool_shape.1
    have hq : (nv_tool.baseQ.q 0).value = 97 := by decide +kernel
    have : (#[nv_t97, nv_t113].getD 0 gr_tdflt) = nv_t97 := rfl
    rw [this, hn]
    refine (ntt_sim nv_t97_wf a (by rw [ha, hn]; rfl) ?_).1
    intro j _
    have h97 : nv_t97.modulus.value = 97 := rfl
    rw [h97]
    have := getD_lt_of_forall (B := 2 * 97) (by intro y hy; have := hb y hy; rw [hq] at this; exact this) (by norm_num) j
    omega

/-- `gr_divide_and_round_q_last_ntt_inplace_eq` applies -/
theorem grw_darn_eq : GenR.divide_and_round_q_last_ntt_inplace (flatP nv_c0) nv_tool.baseQ.size nv_tool.baseQ.base.toList nv_tool.n nv_tool.invQLastModQ.toList
      (fun i x => .ok (gr_IT #[nv_t97, nv_t113] i x)) (fun i x => .ok (gr_NL #[nv_t97, nv_t113] i x))
    = (nv_tool.divideAndRoundQLastNtt #[nv_t97, nv_t113] nv_c0).map flatP :=
  gr_divide_and_round_q_last_ntt_inplace_eq nv_tool #[nv_t97, nv_t113] nv_c0 (by decide +kernel) (by decide +kernel) (by decide +kernel) (by decide +kernel)
    (by decide +kernel) grw_shape (by
      intro i hi
      have hs : nv_tool.baseQ.size = 2 := by decide +kernel
      rw [hs] at hi
      interval_cases i <;> decide +kernel)

/-- `gr_mod_t_and_divide_q_last_inplace_eq` / `_bgv` apply -/
theorem grw_mtd_eq : GenR.mod_t_and_divide_q_last_inplace (flatP nv_c0) nv_tool.baseQ.size nv_tool.baseQ.base.toList nv_tool.n nv_tool.invQLastModQ.toList
      nv_tool.t nv_tool.invQLastModT = (nv_tool.modTAndDivideQLast nv_c0).map flatP :=
  gr_mod_t_and_divide_q_last_inplace_eq nv_tool nv_c0 (by decide +kernel) (by decide +kernel) (by decide +kernel) (by decide +kernel) (by decide +kernel)
    (by decide +kernel) (by decide +kernel) grw_shape (by
      intro x hx
      have : (nv_c0.getD (nv_tool.baseQ.size - 1) #[]).toList.all (fun y => decide (y < 2^64)) = true := by decide +kernel
      exact of_decide_eq_true (List.all_eq_true.mp this x (by simpa using hx)))

theorem grw_mtd_bgv : ∃ out, GenR.mod_t_and_divide_q_last_inplace (flatP nv_c0) nv_tool.baseQ.size nv_tool.baseQ.base.toList nv_tool.n
    nv_tool.invQLastModQ.toList nv_tool.t nv_tool.invQLastModT = .ok out := by
  obtain ⟨out, h, _⟩ := gr_mod_t_and_divide_q_last_inplace_bgv nv_tool nv_c0 (fun j => [10960, 1363, 2134, 7122].getD j 0)
    (by decide +kernel) (by decide +kernel) (by decide +kernel) (by decide +kernel) (by decide +kernel) (by decide +kernel) (by decide +kernel)
    (by decide +kernel) (by decide +kernel) grw_shape (by
      intro i j hi hj
      have hs : nv_tool.baseQ.size = 2 := by decide +kernel
      have hn : nv_tool.n = 4 := nv_tool_shape.1
      rw [hs] at hi; rw [hn] at hj
      interval_cases i <;> interval_cases j <;> decide +kernel)
  exact ⟨out, h⟩

/-- `gr_mod_t_and_divide_q_last_ntt_inplace_bgv` applies to the NonVac level (bundles of C05U from their field witnesses) -/
theorem grw_mtdn_bgv : ∃ out : RnsPoly, c05u_BgvDivOfNtt nv_level nv_c0 (out.extract 0 (nv_level.size - 1)) := by
  obtain ⟨out, _, h, _⟩ := gr_mod_t_and_divide_q_last_ntt_inplace_bgv nv_level_wf
    ⟨nv_toolOK_fields.1, nv_toolOK_fields.2.1, nv_toolOK_fields.2.2.1, nv_toolOK_fields.2.2.2⟩
    ⟨nv_bgvOK_fields.1, nv_bgvOK_fields.2.1, nv_bgvOK_fields.2.2.1, nv_bgvOK_fields.2.2.2⟩ (by decide +kernel) (by decide +kernel) (by decide +kernel) nv_c0_canon
  exact ⟨out, h⟩

/-- `gr_sm_mrq_eq` applies: a 4-component input (|Bsk| = 3, plus the m̃ component) and a zero destination -/
theorem grw_sm_eq : GenR.sm_mrq (flatP #[#[1,2,3,4],#[5,6,7,8],#[9,10,11,12],#[13,14,15,16]]) (flatP #[#[0,0,0,0],#[0,0,0,0],#[0,0,0,0]])
      nv_tool.baseBsk.size nv_tool.baseBsk.base.toList nv_tool.n nv_tool.mTilde nv_tool.negInvProdQModMt nv_tool.prodQModBsk.toList nv_tool.invMtModBsk.toList
    = (nv_tool.smMrq #[#[1,2,3,4],#[5,6,7,8],#[9,10,11,12],#[13,14,15,16]]).map flatP := by
  have hs : nv_tool.baseBsk.size = 3 := nv_tool_shape.2.2.2.1
  have hn : nv_tool.n = 4 := nv_tool_shape.1
  refine gr_sm_mrq_eq nv_tool _ _ (by rw [hs]; rfl) ?_ (by rw [hs]; rfl) ?_ (by decide +kernel) ?_ (by decide +kernel) (by decide +kernel) (by decide +kernel)
  · intro i hi; rw [hs] at hi; rw [hn]; interval_cases i <;> rfl
  · intro i hi; rw [hs] at hi; rw [hn]; interval_cases i <;> rfl
  · intro x hx
    have : nv_tool.prodQModBsk.toList.all (fun y => decide (y < 2^64)) = true := by decide +kernel
    exact of_decide_eq_true (List.all_eq_true.mp this x (by simpa using hx))

/-- phase 4f: `gr_fast_convert_array_eq` applies to the converter {97, 113} → {17}, the canonical polynomial `nv_c0` and a DIRTY destination buffer -/
theorem grw_fca_eq : GenR.fast_convert_array (flatP nv_c0) (flatP #[#[9, 9, 9, 9]]) nv_base.size nv_base17.size nv_base.invPunct.toList nv_base.base.toList
      nv_base17.base.toList (nv_conv.matrix.toList.map Array.toList) = (nv_conv.fastConvertArray nv_c0 4).map flatP := by
  have h2 : nv_base.size = 2 := rfl
  have h1 : nv_base17.size = 1 := rfl
  refine gr_fast_convert_array_eq nv_base_wf nv_base17_wf nv_conv_new nv_c0 #[#[9, 9, 9, 9]] 4 (by rfl) ?_ ?_ (by rfl) ?_ (by decide +kernel) (by decide +kernel)
  · intro i hi
    rw [h2] at hi
    interval_cases i <;> rfl
  · intro i j hi hj
    rw [h2] at hi
    interval_cases i <;> interval_cases j <;> decide +kernel
  · intro i hi
    rw [h1] at hi
    interval_cases i
    rfl

/-- … and the values: the generated function overwrites the dirty buffer with the four converted coefficients -/
theorem grw_fca_val : GenR.fast_convert_array (flatP nv_c0) (flatP #[#[9, 9, 9, 9]]) nv_base.size nv_base17.size nv_base.invPunct.toList nv_base.base.toList
      nv_base17.base.toList (nv_conv.matrix.toList.map Array.toList) = .ok [12, 16, 9, 16] := by
  rw [grw_fca_eq]; decide +kernel

end HC
