import Heathcliff.Proofs.GenPoly
import Heathcliff.Proofs.C09G

/-!
  C09, lazy clause from the SOURCE: the generated `dyadic_product` / `dyadic_product_inplace` (src/util/polysmallmod.rs, Gen/PolyFns.lean) return
  `a_i · b_i mod q` for ANY 64-bit operands — in particular for the unreduced output (< 4q) of the lazy forward transform, which the evaluator
  feeds into `dyadic_product_inplace` (multiply_plain).  Composition of `gp_poly_dyadic_product(_inplace)_eq` with `dyadicProduct_spec`.
  Helper names start with `gpl_`.
-/
namespace HC

theorem gpl_getD_toArray (a : List Nat) (i : Nat) : a.toArray.getD i 0 = a.getD i 0 := by
  simp [Array.getD, List.getD]
  split <;> simp_all

theorem gpl_getD_take (b : List Nat) (n i : Nat) (hi : i < n) : (b.take n).getD i 0 = b.getD i 0 := by
  simp [List.getD, List.getElem?_take, hi]

/-- `dyadic_product_inplace(comp1, comp2, modulus)` on ANY words: position i becomes comp1[i] · comp2[i] mod q -/
theorem gpl_dyadic_inplace_any (a b : List Nat) (m : Modulus) (h : m.WF) (hl : a.length ≤ b.length)
    (ha : ∀ i, i < a.length → a.getD i 0 < 2^64) (hb : ∀ i, i < a.length → b.getD i 0 < 2^64) :
    ∃ o, GenP.poly_dyadic_product_inplace a b m = .ok o ∧ o.length = a.length ∧
      ∀ i, i < a.length → o.getD i 0 = (a.getD i 0 * b.getD i 0) % m.value := by
  rw [gp_poly_dyadic_product_inplace_eq a b m hl]
  obtain ⟨p, hp, hs, hv⟩ := dyadicProduct_spec h a.toArray (b.take a.length).toArray
    (by intro i hi; rw [gpl_getD_toArray]; exact ha i (by simpa using hi))
    (by intro i hi; have hi' : i < a.length := by simpa using hi
        rw [gpl_getD_toArray, gpl_getD_take _ _ _ hi']; exact hb i hi')
  rw [hp]
  refine ⟨p.toList, rfl, by simpa using hs, ?_⟩
  intro i hi
  have := hv i (by simpa using hi)
  simp only [gpl_getD_toArray] at this
  rw [gpl_getD_take _ _ _ hi] at this
  rw [← gpl_getD_toArray p.toList i]; exact this

/-- `dyadic_product(comp1, comp2, modulus, result)` on ANY words, any old contents of `result` -/
theorem gpl_dyadic_any (a b : List Nat) (m : Modulus) (r : List Nat) (h : m.WF) (hla : r.length ≤ a.length) (hlb : r.length ≤ b.length)
    (ha : ∀ i, i < r.length → a.getD i 0 < 2^64) (hb : ∀ i, i < r.length → b.getD i 0 < 2^64) :
    ∃ o, GenP.poly_dyadic_product a b m r = .ok o ∧ o.length = r.length ∧
      ∀ i, i < r.length → o.getD i 0 = (a.getD i 0 * b.getD i 0) % m.value := by
  rw [gp_poly_dyadic_product_eq a b m r hla hlb]
  obtain ⟨p, hp, hs, hv⟩ := dyadicProduct_spec h (a.take r.length).toArray (b.take r.length).toArray
    (by intro i hi; have hi' : i < r.length := by simp at hi; omega
        rw [gpl_getD_toArray, gpl_getD_take _ _ _ hi']; exact ha i hi')
    (by intro i hi; have hi' : i < r.length := by simp at hi; omega
        rw [gpl_getD_toArray, gpl_getD_take _ _ _ hi']; exact hb i hi')
  rw [hp]
  have hsz : (a.take r.length).toArray.size = r.length := by simp; omega
  refine ⟨p.toList, rfl, by simp [hs, hsz], ?_⟩
  intro i hi
  have := hv i (by rw [hsz]; exact hi)
  simp only [gpl_getD_toArray] at this
  rw [gpl_getD_take _ _ _ hi, gpl_getD_take _ _ _ hi] at this
  rw [← gpl_getD_toArray p.toList i]; exact this

end HC
