import Heathcliff.Gen.GaloisPlanFns
import Heathcliff.Model.KeySwitch
import Heathcliff.Proofs.GenGalois
import Heathcliff.Proofs.GenGalois2
import Heathcliff.Proofs.GenWord6
import Heathcliff.Proofs.C04R

/-!
  Translator tie (round 7, worker V; "plan mode" of tools/rs2lean_gal.py) for the rotation layer of src/evaluator.rs:
  `rotate_internal` (one level, generated as `GenGal.rotate_internal_level`) closed under its own recursion = `rotatePlan` of
  Model/Galois.lean; `conjugate_internal`; the step plan of `apply_galois_inplace` = `galoisPlan`, whose interpretation with the model's
  operations is `applyGalois` of Model/KeySwitch.lean; the scheme gates of the four public entry points.  Helper names start with `gal_`.
-/
namespace HC
open HC.GenGal

/-! ### rotate_internal -/

/-- one level of `rotate_internal` for a valid ciphertext / key set: (elements applied directly, sub-rotations in order) -/
def rotateLevel (k : Nat) (keys : List Nat) (steps : Int) : R (List Nat × List Int) :=
  if steps = 0 then pure ([], []) else do
  let e ← eltFromStep k steps
  if keys.contains e then pure ([e], []) else do
  let ds ← naf steps
  if ds.length = 1 then .error .refused else
  pure ([], ds.filter (fun d => decide (d.natAbs ≠ 2^k / 2)))

/-- the recursion of `rotate_internal` closed over the GENERATED level function: the sub-rotations are performed in order, each with the
    same keys (fuel = recursion depth, as in `rotatePlan`) -/
def gal_rotateGen (k : Nat) (keys : List Nat) : Nat → Int → R (List Nat)
  | 0, _ => .error .other
  | fuel+1, steps => do
    let r ← GenGal.rotate_internal_level steps (2^k) keys true true true
    r.2.foldlM (fun acc d => do
      let p ← gal_rotateGen k keys fuel d
      pure (acc ++ p)) r.1

theorem gal_filter_fold (P : Int → Prop) [DecidablePred P] (f : List Int → Int → R (List Int))
    (hf : ∀ st v, f st v = if P v then .ok (st ++ [v]) else .ok st) :
    ∀ (ds acc : List Int), ds.foldlM f acc = .ok (acc ++ ds.filter (fun d => decide (P d))) := by
  intro ds
  induction ds with
  | nil => intro acc; simp [List.foldlM_nil, gy_pure_eq]
  | cons d tl ih =>
    intro acc
    rw [List.foldlM_cons, hf]
    by_cases h : P d
    · rw [if_pos h, gy_ok_bind, ih, List.filter_cons_of_pos (by simpa using h)]; simp
    · rw [if_neg h, gy_ok_bind, ih, List.filter_cons_of_neg (by simpa using h)]

theorem gal_eltFromStep_range {k : Nat} {steps : Int} {e : Nat} (h0 : steps ≠ 0) (h : eltFromStep k steps = .ok e) :
    steps.natAbs < 2^k / 2 := by
  unfold eltFromStep at h
  rw [if_neg h0] at h
  by_cases hp : steps.natAbs ≥ 2^k / 2
  · simp only [hp, if_true] at h; cases h
  · omega

theorem gal_castI32 {x : Int} (h : x.natAbs < 2147483648) : castI32 x = x := by
  have h1 : (-2147483648 : Int) < x := by omega
  have h2 : x < (2147483648 : Int) := by omega
  show (x + 2147483648) % 4294967296 - 2147483648 = x
  have : (x + 2147483648) % 4294967296 = x + 2147483648 := Int.emod_eq_of_lt (by omega) (by omega)
  rw [this]; omega

/-- `rotate_internal` (generated level function; valid ciphertext, batching, keys of the key level) = `rotateLevel`.
    `k ≤ 31`: then every step that `get_elt_from_step` accepts (|steps| < N/2) is below 2^30, where the `naf` tie holds and
    `steps as i32` does not truncate. -/
theorem gal_rotate_level_eq (k : Nat) (hk : k ≤ 31) (keys : List Nat) (steps : Int) :
    GenGal.rotate_internal_level steps (2^k) keys true true true = rotateLevel k keys steps := by
  unfold GenGal.rotate_internal_level rotateLevel
  simp only [not_true_eq_false, if_false]
  by_cases h0 : steps = 0
  · simp only [h0, if_true]
  · simp only [h0, if_false]
    rw [gx_get_elt_from_step_eq k (by omega) steps]
    cases he : eltFromStep k steps with
    | error e => simp only [gy_err_bind]
    | ok e =>
      simp only [gy_ok_bind, bind_pure_comp, has_key]
      have hr := gal_eltFromStep_range h0 he
      have h30 : (2:Nat)^k / 2 ≤ 1073741824 := by
        calc (2:Nat)^k / 2 ≤ 2^31 / 2 := Nat.div_le_div_right (Nat.pow_le_pow_right (by omega) hk)
          _ = 1073741824 := by norm_num
      cases hc : keys.contains e with
      | true => simp only [if_true]; rfl
      | false =>
        simp only [Bool.false_eq_true, if_false]
        rw [gal_castI32 (by omega), gn_naf_eq steps (by norm_num; omega)]
        cases hn : naf steps with
        | error e => rfl
        | ok ds =>
          simp only [gy_ok_bind]
          by_cases h1 : ds.length = 1
          · simp only [h1, if_true]
          · simp only [h1, if_false]
            rw [gal_filter_fold (fun d => d.natAbs ≠ 2^k / 2) _ (by
              intro st v
              rw [Nat.shiftRight_eq_div_pow, Nat.pow_one]
              by_cases hv : v.natAbs ≠ 2^k / 2
              · rw [if_pos hv, if_pos hv]; rfl
              · rw [if_neg hv, if_neg hv]; rfl)]
            rfl

theorem gal_skip_fold (k : Nat) (F : Int → R (List Nat)) :
    ∀ (ds : List Int) (acc : List Nat),
      ds.foldlM (fun acc d => if d.natAbs = 2^k / 2 then (pure acc : R (List Nat)) else (F d >>= fun r => pure (acc ++ r))) acc =
      (ds.filter (fun d => decide (d.natAbs ≠ 2^k / 2))).foldlM (fun acc d => do
          let r ← F d
          pure (acc ++ r)) acc := by
  intro ds
  induction ds with
  | nil => intro acc; rfl
  | cons d tl ih =>
    intro acc
    by_cases h : d.natAbs = 2^k / 2
    · rw [List.foldlM_cons, if_pos h, List.filter_cons_of_neg (by simpa using h)]
      exact ih acc
    · rw [List.foldlM_cons, if_neg h, List.filter_cons_of_pos (by simpa using h), List.foldlM_cons]
      cases F d with
      | error e => rfl
      | ok r => exact ih (acc ++ r)

/-- the recursion over the GENERATED level function = `rotatePlan` (same fuel, every step, every key set) -/
theorem gal_rotateGen_eq (k : Nat) (hk : k ≤ 31) (keys : List Nat) :
    ∀ (fuel : Nat) (steps : Int), gal_rotateGen k keys fuel steps = rotatePlan k keys fuel steps := by
  intro fuel
  induction fuel with
  | zero => intro steps; rfl
  | succ fuel ih =>
    intro steps
    rw [c04r_rotatePlan_succ, gal_rotateGen, gal_rotate_level_eq k hk, rotateLevel]
    by_cases h0 : steps = 0
    · simp only [h0, if_true]; rfl
    · simp only [h0, if_false]
      cases he : eltFromStep k steps with
      | error e => rfl
      | ok e =>
        simp only [gy_ok_bind]
        cases hc : keys.contains e with
        | true => simp only [if_true]; rfl
        | false =>
          simp only [Bool.false_eq_true, if_false]
          cases hn : naf steps with
          | error e => rfl
          | ok ds =>
            simp only [gy_ok_bind]
            by_cases h1 : ds.length = 1
            · simp only [h1, if_true]; rfl
            · simp only [h1, if_false]
              rw [gal_skip_fold k (rotatePlan k keys fuel)]
              simp only [gy_pure_eq, gy_ok_bind, ih]


/-- the plan computed by the GENERATED `rotate_internal` (closed under its recursion) uses only elements that have keys, all odd and < 2N,
    and its product is 3^(steps mod N/2) modulo 2N: the composition rotates by `steps` -/
theorem gal_rotateGen_ok {k : Nat} (hk2 : 2 ≤ k) (hk : k ≤ 31) (keys : List Nat) (fuel : Nat) (steps : Int) (plan : List Nat)
    (h : gal_rotateGen k keys fuel steps = .ok plan) : c04r_PlanOK k keys steps plan :=
  c04r_rotatePlan_ok hk2 keys fuel steps plan (by rw [← gal_rotateGen_eq k hk]; exact h)

/-- executing the plan computed by the GENERATED `rotate_internal` with the model's `applyGalois` rotates the slot rows by `steps`
    (BFV; hypotheses of `c04r_rotatePlan_bfv`, the plan now comes from the source) -/
theorem gal_rotateGen_bfv {kl : KeyLevel} {l : Level} (hl : l.WF) (hd : DecOK l) (hlo : c04k_LevelOf kl l) (hK : c04r_KLOK kl l)
    {T : NTTTables} (hT : T.WF) (hTk : T.k = l.k) (hTm : T.modulus.value = l.t.value) (hk2 : 2 ≤ l.k) (hk31 : l.k ≤ 31)
    {sk : Array Int} (hsk : sk.size = l.n) (keyOf : Nat → KSKey) (eOf : Nat → Nat → Nat → Int) (GOf : Nat → Nat → Int)
    {A Be V : Nat} (hA : ∀ i, i < l.size → (kl.m i).value ≤ A)
    (hV : (l.size * (A * (kl.n * Be)) + kl.c04t_P / 2 * (1 + ∑ p ∈ Finset.range kl.n, (sk.getD p 0).natAbs)) / kl.c04t_P ≤ V)
    {keys : List Nat} (hkeys : ∀ g ∈ keys, c04r_GalKey kl l sk g (keyOf g) (eOf g) (GOf g) ∧
      ∀ i, i < l.size → ∀ p, p < kl.n → (eOf g i p).natAbs ≤ Be)
    {fuel : Nat} {steps : Int} {plan : List Nat} (hplan : gal_rotateGen l.k keys fuel steps = .ok plan)
    {polys : Array RnsPoly} {cf E : Nat} (h2 : polys.size = 2) (hc : ∀ k, k < 2 → RnsCanon l (polys.getD k #[]))
    (hE : ∀ c, c < l.n → (c04r_bfvNoise l.t.value (Spec.prodL (c01p_qvals l))
      ((Spec.phase (c01p_qvals l) l.n sk polys.toList).getD c 0)).natAbs ≤ E)
    (hm : 2 * l.tool.gamma.value * (E + plan.length * (l.t.value * V)) + 2 * l.size * Spec.prodL (c01p_qvals l)
      ≤ Spec.prodL (c01p_qvals l) * l.tool.gamma.value) :
    (∀ g ∈ plan, g ∈ keys) ∧ plan.prod % (2 * 2^l.k) = 3 ^ c04r_stepExp l.k steps % (2 * 2^l.k) ∧
    ∃ ct' m m', c04r_applyChain kl l .bfv keyOf plan ⟨polys, false, cf⟩ = .ok ct' ∧
      bfvDecrypt l sk ⟨polys, false, cf⟩ = .ok m ∧ bfvDecrypt l sk ct' = .ok m' ∧
      ∀ i, i < l.n → (batchDecode T m').getD i 0 =
        (batchDecode T m).getD (c04r_rotIdx l.k (c04r_stepExp l.k steps) i) 0 :=
  c04r_rotatePlan_bfv hl hd hlo hK hT hTk hTm hk2 hsk keyOf eOf GOf hA hV hkeys
    (by rw [← gal_rotateGen_eq l.k hk31]; exact hplan) h2 hc hE hm

/-- non-vacuity: N = 16, only the default power-of-two keys {3, 9, 27 (= 3^-1 mod 32 is 11), ...}: steps = 3 is composed from NAF terms -/
example : gal_rotateGen 4 [31, 3, 11, 9, 25, 17, 17] 4 3 = rotatePlan 4 [31, 3, 11, 9, 25, 17, 17] 4 3 := gal_rotateGen_eq 4 (by decide) _ 4 3

/-- refusals of the three panics in front: invalid parms_id, no batching, keys of another context -/
theorem gal_rotate_level_refuses (steps : Int) (n : Nat) (keys : List Nat) (valid batching keysOk : Bool)
    (h : valid = false ∨ batching = false ∨ keysOk = false) :
    GenGal.rotate_internal_level steps n keys valid batching keysOk = .error .refused := by
  unfold GenGal.rotate_internal_level
  rcases h with h | h | h
  · subst h; rfl
  · subst h; cases valid <;> rfl
  · subst h; cases valid <;> cases batching <;> rfl

/-! ### conjugate_internal -/
theorem gal_conjugate_eq (k : Nat) (hk : k ≤ 61) :
    GenGal.conjugate_internal (2^k) true true = .ok [2 * 2^k - 1] := by
  unfold GenGal.conjugate_internal
  simp only [not_true_eq_false, if_false]
  rw [gx_get_elt_from_step_eq k hk 0]
  unfold eltFromStep
  simp only [if_true]
  rfl

/-! ### apply_galois_inplace -/
/-- the step plan of `apply_galois_inplace` (codes: tools/rs2lean_gal.py, `SK_APPLY`) -/
def galoisPlan (ntt : Bool) (g : Nat) : List Nat :=
  if ntt then [11, 2, 13, 4, 5, (g - 1) / 2] else [1, 2, 3, 4, 5, (g - 1) / 2]

theorem gal_apply_plan_eq (g n k size : Nat) (ntt has : Bool) (hn : n * 2 < 2^64) (hnk : n * k < 2^64) :
    GenGal.apply_galois_inplace_plan g n k size ntt true true true has =
      if has = false then .error .refused
      else if g % 2 = 0 ∨ g > 2 * n then .error .refused
      else if size > 2 then .error .refused
      else .ok (galoisPlan ntt g) := by
  unfold GenGal.apply_galois_inplace_plan
  have h1 : ckMul n 2 = .ok (n * 2) := by unfold ckMul; rw [if_pos (by rw [gx_B64]; exact hn)]
  have h2 : ckMul n k = .ok (n * k) := by unfold ckMul; rw [if_pos (by rw [gx_B64]; exact hnk)]
  simp only [not_true_eq_false, if_false, h1, h2, gy_ok_bind, Nat.and_one_is_mod]
  cases has with
  | false => simp
  | true =>
    simp only [not_true_eq_false, if_false, Bool.true_eq_false]
    rw [Nat.mul_comm n 2]
    by_cases hg : g % 2 = 0 ∨ g > 2 * n
    · simp only [hg, if_true]
    · simp only [hg, if_false]
      by_cases hs : size > 2
      · simp only [hs, if_true]
      · simp only [hs, if_false]
        have hodd : g % 2 = 1 := by omega
        have hi : GenG.get_index_from_elt g = .ok ((g - 1) / 2) := by rw [gx_get_index_from_elt_eq, if_pos hodd]
        unfold galoisPlan
        cases ntt <;> simp [hi, gy_ok_bind, gy_pure_eq]

/-- interpretation of the step codes with the model's operations.  State: (c0, c1, temp).  `apC` / `apN` = the coefficient-form /
    NTT-form kernel over all RNS components (`apply_p` / `apply_ntt_p`), `sw c0 c1 temp i` = the key switch with key index `i`. -/
def runGaloisPlan {σ : Type} (apC apN : RnsPoly → R RnsPoly) (zero : RnsPoly) (sw : RnsPoly → RnsPoly → RnsPoly → Nat → R σ) :
    List Nat → RnsPoly → RnsPoly → RnsPoly → R σ
  | [5, i], c0, c1, t => sw c0 c1 t i
  | 1 :: rest, c0, c1, _ => do let t ← apC c0; runGaloisPlan apC apN zero sw rest c0 c1 t
  | 11 :: rest, c0, c1, _ => do let t ← apN c0; runGaloisPlan apC apN zero sw rest c0 c1 t
  | 2 :: rest, _, c1, t => runGaloisPlan apC apN zero sw rest t c1 t
  | 3 :: rest, c0, c1, _ => do let t ← apC c1; runGaloisPlan apC apN zero sw rest c0 c1 t
  | 13 :: rest, c0, c1, _ => do let t ← apN c1; runGaloisPlan apC apN zero sw rest c0 c1 t
  | 4 :: rest, c0, _, t => runGaloisPlan apC apN zero sw rest c0 zero t
  | _, _, _, _ => .error .other

/-- RNS-component-wise kernels of the model (the body of `ap` in `applyGalois`) -/
def gal_apC (l : Level) (g : Nat) (p : RnsPoly) : R RnsPoly :=
  (List.range l.size).foldlM (fun acc i => do
    let c ← galoisApply l.k (p.getD i #[]) g (l.q i)
    pure (acc.push c)) #[]
def gal_apN (l : Level) (g : Nat) (p : RnsPoly) : R RnsPoly :=
  (List.range l.size).foldlM (fun acc i => do
    let c ← (pure (galoisApplyNtt l.k (p.getD i #[]) g) : R Poly)
    pure (acc.push c)) #[]

/-- running the GENERATED plan of `apply_galois_inplace` with the model's kernels and `switchKey` is `applyGalois`
    (size-2 ciphertext, valid element); `keyAt` = the key table indexed by `GaloisKeys::get_index` -/
theorem gal_runPlan_applyGalois (kl : KeyLevel) (l : Level) (scheme : Scheme) (ct : Ct) (g : Nat) (key : KSKey)
    (keyAt : Nat → KSKey) (hkey : keyAt ((g - 1) / 2) = key)
    (h2 : ct.polys.size = 2) (hg : ¬ (g % 2 = 0 ∨ g > 2 * l.n)) :
    runGaloisPlan (gal_apC l g) (gal_apN l g) (rnsZero l)
        (fun c0 c1 t i => switchKey kl scheme l.size { ct with polys := #[c0, c1] } t (keyAt i))
        (galoisPlan ct.ntt g) (ct.polys.getD 0 #[]) (ct.polys.getD 1 #[]) #[] =
      applyGalois kl l scheme ct g key := by
  unfold applyGalois galoisPlan
  simp only [h2, ne_eq, not_true_eq_false, if_false, hg]
  cases hntt : ct.ntt with
  | true =>
    simp only [if_true, runGaloisPlan, gal_apN, hkey, gy_pure_eq, gy_ok_bind]
  | false =>
    simp only [Bool.false_eq_true, if_false, runGaloisPlan, gal_apC, hkey]


/-! ### switch_key_inplace_internal: refusals of the prologue, key-level indices of the accumulation loop -/
/-- the prologue of `switch_key_inplace_internal` (valid ciphertext, key switching available, keys of the key level): index range and the
    scheme / representation gate — the gate of the model's `switchKey` (BFV: coefficient form; CKKS, BGV: NTT form) -/
theorem gal_switch_prologue_eq (scheme : Scheme) (ntt : Bool) (index nkeys : Nat) :
    GenGal.switch_key_prologue scheme ntt true true true index nkeys =
      if index ≥ nkeys then .error .refused
      else (match scheme with
            | .bfv => if ntt then Except.error Err.refused else pure ()
            | _ => if !ntt then Except.error Err.refused else pure ()) >>= fun _ => .ok [] := by
  unfold GenGal.switch_key_prologue
  by_cases h : index ≥ nkeys
  · simp only [not_true_eq_false, if_false, h, if_true]
  · simp only [not_true_eq_false, if_false, h]
    cases scheme <;> cases ntt <;> rfl

theorem gal_switch_prologue_refuses (scheme : Scheme) (ntt valid usingKs keysOk : Bool) (index nkeys : Nat)
    (h : valid = false ∨ usingKs = false ∨ keysOk = false) :
    GenGal.switch_key_prologue scheme ntt valid usingKs keysOk index nkeys = .error .refused := by
  unfold GenGal.switch_key_prologue
  rcases h with h | h | h
  · subst h; rfl
  · subst h; cases valid <;> rfl
  · subst h; cases valid <;> cases usingKs <;> rfl

theorem gal_map_fold (g : Nat → Nat) (f : List Nat → Nat → R (List Nat)) (hf : ∀ st v, f st v = .ok (st ++ [g v])) :
    ∀ (l acc : List Nat), l.foldlM f acc = .ok (acc ++ l.map g) := by
  intro l
  induction l with
  | nil => intro acc; simp [List.foldlM_nil, gy_pure_eq]
  | cons d tl ih => intro acc; rw [List.foldlM_cons, hf, gy_ok_bind, ih]; simp

/-- the key-level modulus / NTT-table index used for RNS index i of the accumulation loop, i = 0 .. dsz: i itself for the level's own primes,
    `ksz − 1` (the special prime, LAST of the key level) for i = dsz — whatever the level — = `keyIndex` of the model's `ksAccumulate` -/
theorem gal_switch_indices_eq (dsz ksz : Nat) (hd : dsz + 1 < 2^64) (hk : 1 ≤ ksz) :
    GenGal.switch_key_indices dsz ksz = .ok ((List.range (dsz + 1)).map (fun i => if i = dsz then ksz - 1 else i)) := by
  unfold GenGal.switch_key_indices
  have h1 : ckAdd dsz 1 = .ok (dsz + 1) := by unfold ckAdd; rw [if_pos (by rw [gx_B64]; exact hd)]
  have h2 : ckSub ksz 1 = .ok (ksz - 1) := by unfold ckSub; rw [if_pos hk]
  simp only [h1, gy_ok_bind, Nat.sub_zero]
  rw [gal_map_fold (fun i => if i = dsz then ksz - 1 else i) _ (by
    intro st v
    by_cases hv : v = dsz
    · simp only [hv, if_true, h2, gy_ok_bind, gy_pure_eq]
    · simp only [hv, if_false, gy_ok_bind, gy_pure_eq])]
  simp [List.range_eq_range', gy_pure_eq]

/-! ### public entry points: scheme gates -/
theorem gal_rotate_rows_gate (s : Scheme) :
    GenGal.rotate_rows_inplace s = if s = .bfv ∨ s = .bgv then .ok [1] else .error .refused := by
  cases s <;> rfl
theorem gal_rotate_columns_gate (s : Scheme) :
    GenGal.rotate_columns_inplace s = if s = .bfv ∨ s = .bgv then .ok [2] else .error .refused := by
  cases s <;> rfl
theorem gal_rotate_vector_gate (s : Scheme) :
    GenGal.rotate_vector_inplace s = if s = .ckks then .ok [1] else .error .refused := by
  cases s <;> rfl
theorem gal_complex_conjugate_gate (s : Scheme) :
    GenGal.complex_conjugate_inplace s = if s = .ckks then .ok [2] else .error .refused := by
  cases s <;> rfl

end HC
