/-
  C20J: outputs re-encoding / decoding over the whole matrix WITH LWE packing (`h.pack = true`): output block `c = d1·obc + d2`
  (row major over the (batch block, output block) grid) is written into packed polynomial `c / ib` at the slot offset `c mod ib`
  (`outPosPacked`), and `decrypt_outputs_*` reads it back from there.  Completes `OutputsEncodeDecodeStatement` (C20H has the
  non-packed half).
-/
import Heathcliff.Proofs.C20H
namespace HC
open Finset HC.MM

variable {S : Type}

/-- the writes into packed polynomial `pid`, in program order -/
def c20_packWs (h : Helper) (y : Nat → S) (pid : Nat) : List (Nat × S) :=
  ((pairs (ceilDiv h.bs h.bb) (ceilDiv h.od h.ob)).filter fun d => (d.1 * ceilDiv h.od h.ob + d.2) / h.ib = pid).flatMap fun d =>
    (pairs (min h.bs (d.1 * h.bb + h.bb) - d.1 * h.bb) (min h.od (d.2 * h.ob + h.ob) - d.2 * h.ob)).map fun p =>
      (outPosPacked h p.1 p.2 ((d.1 * ceilDiv h.od h.ob + d.2) % h.ib), y ((d.1 * h.bb + p.1) * h.od + (d.2 * h.ob + p.2)))

theorem c20_mem_packWs (h : Helper) (y : Nat → S) (pid : Nat) (pv : Nat × S) :
    pv ∈ c20_packWs h y pid ↔ ∃ d ∈ pairs (ceilDiv h.bs h.bb) (ceilDiv h.od h.ob), (d.1 * ceilDiv h.od h.ob + d.2) / h.ib = pid ∧
      ∃ p ∈ pairs (min h.bs (d.1 * h.bb + h.bb) - d.1 * h.bb) (min h.od (d.2 * h.ob + h.ob) - d.2 * h.ob),
        pv = (outPosPacked h p.1 p.2 ((d.1 * ceilDiv h.od h.ob + d.2) % h.ib), y ((d.1 * h.bb + p.1) * h.od + (d.2 * h.ob + p.2))) := by
  unfold c20_packWs
  simp only [List.mem_flatMap, List.mem_filter, List.mem_map, decide_eq_true_eq]
  constructor
  · rintro ⟨d, ⟨hd, hc⟩, p, hp, rfl⟩
    exact ⟨d, hd, hc, p, hp, rfl⟩
  · rintro ⟨d, hd, hc, p, hp, rfl⟩
    exact ⟨d, ⟨hd, hc⟩, p, hp, rfl⟩

theorem c20_outPosPacked_eq (h : Helper) (db dj off : Nat) :
    outPosPacked h db dj off = db * (h.ob * h.ib) + (dj * h.ib + off) := by
  unfold outPosPacked; rw [Nat.mul_assoc, Nat.mul_comm h.ib h.ob]; omega

/-- one packed output polynomial: total, and reading it at the decoder's position of entry (p1, p2) of any block stored in it returns
    that entry -/
theorem c20_packedPoly_spec (zero : S) (h : Helper) (y : Nat → S) (hib : 0 < h.ib) (hfit : h.bb * h.ib * h.ob ≤ h.n) (pid : Nat) :
    ∃ a, scatterA zero h.n h.n (c20_packWs h y pid) = .ok a ∧
      ∀ d1 d2, d1 < ceilDiv h.bs h.bb → d2 < ceilDiv h.od h.ob → (d1 * ceilDiv h.od h.ob + d2) / h.ib = pid →
        ∀ p1 p2, p1 < min h.bs (d1 * h.bb + h.bb) - d1 * h.bb → p2 < min h.od (d2 * h.ob + h.ob) - d2 * h.ob →
          readAt a (outPosPacked h p1 p2 ((d1 * ceilDiv h.od h.ob + d2) % h.ib)) = .ok (y ((d1 * h.bb + p1) * h.od + (d2 * h.ob + p2))) := by
  have hM : h.bb * (h.ob * h.ib) ≤ h.n := by rw [Nat.mul_comm h.ob h.ib, ← Nat.mul_assoc]; exact hfit
  have hbound : ∀ p1 p2 off, p1 < h.bb → p2 < h.ob → off < h.ib → outPosPacked h p1 p2 off < h.n := by
    intro p1 p2 off h1 h2 h3
    have a1 := c20_succ_mul_le (ib := h.ob * h.ib) h1
    have a2 := c20_succ_mul_le (ib := h.ib) h2
    rw [c20_outPosPacked_eq]; omega
  have hb : ∀ pv ∈ c20_packWs h y pid, pv.1 < h.n ∧ pv.1 < (Array.replicate h.n zero).size := by
    intro pv hpv
    obtain ⟨d, _, _, p, hp, rfl⟩ := (c20_mem_packWs h y pid pv).mp hpv
    obtain ⟨hp1, hp2⟩ := c20_mem_pairs.mp hp
    have := hbound p.1 p.2 ((d.1 * ceilDiv h.od h.ob + d.2) % h.ib) (by omega) (by omega) (Nat.mod_lt _ hib)
    simp only [Array.size_replicate]
    exact ⟨this, this⟩
  obtain ⟨a, ha, hsz, _, hval⟩ := c20_scatter_fold h.n (c20_packWs h y pid) (Array.replicate h.n zero) hb
  refine ⟨a, ha, ?_⟩
  intro d1 d2 hd1 hd2 hc p1 p2 hp1 hp2
  have hin : (outPosPacked h p1 p2 ((d1 * ceilDiv h.od h.ob + d2) % h.ib), y ((d1 * h.bb + p1) * h.od + (d2 * h.ob + p2)))
      ∈ c20_packWs h y pid :=
    (c20_mem_packWs h y pid _).mpr ⟨(d1, d2), c20_mem_pairs.mpr ⟨hd1, hd2⟩, hc, (p1, p2), c20_mem_pairs.mpr ⟨hp1, hp2⟩, rfl⟩
  have huniq : ∀ pv ∈ c20_packWs h y pid, pv.1 = outPosPacked h p1 p2 ((d1 * ceilDiv h.od h.ob + d2) % h.ib) →
      pv.2 = y ((d1 * h.bb + p1) * h.od + (d2 * h.ob + p2)) := by
    intro pv hpv heq
    obtain ⟨d, hd, hc', p, hp, rfl⟩ := (c20_mem_packWs h y pid pv).mp hpv
    obtain ⟨hd1', hd2'⟩ := c20_mem_pairs.mp hd
    obtain ⟨hp1', hp2'⟩ := c20_mem_pairs.mp hp
    have heq' : outPosPacked h p.1 p.2 ((d.1 * ceilDiv h.od h.ob + d.2) % h.ib)
        = outPosPacked h p1 p2 ((d1 * ceilDiv h.od h.ob + d2) % h.ib) := heq
    rw [c20_outPosPacked_eq, c20_outPosPacked_eq] at heq'
    have m1 := Nat.mod_lt (d.1 * ceilDiv h.od h.ob + d.2) hib
    have m2 := Nat.mod_lt (d1 * ceilDiv h.od h.ob + d2) hib
    have a2 := c20_succ_mul_le (ib := h.ib) (show p.2 < h.ob by omega)
    have a2' := c20_succ_mul_le (ib := h.ib) (show p2 < h.ob by omega)
    obtain ⟨e2, e1⟩ := c20_digit_unique (W := h.ob * h.ib) (by omega) (by omega) heq'
    obtain ⟨e4, e3⟩ := c20_digit_unique (W := h.ib) m2 m1 e2
    -- same packed polynomial and same offset: same block
    have c1 := Nat.div_add_mod' (d.1 * ceilDiv h.od h.ob + d.2) h.ib
    have c2 := Nat.div_add_mod' (d1 * ceilDiv h.od h.ob + d2) h.ib
    rw [hc', e4] at c1
    rw [hc] at c2
    have hcc : d.1 * ceilDiv h.od h.ob + d.2 = d1 * ceilDiv h.od h.ob + d2 := by omega
    obtain ⟨f2, f1⟩ := c20_digit_unique (W := ceilDiv h.od h.ob) hd2 hd2' hcc
    show y ((d.1 * h.bb + p.1) * h.od + (d.2 * h.ob + p.2)) = _
    rw [f1, f2, e1, e3]
  have := hval _ _ hin huniq
  unfold readAt
  rw [this]

/-- packed output polynomial number `pid` -/
def c20_packedPoly (zero : S) (h : Helper) (y : Nat → S) (pid : Nat) : Array S :=
  c20_val #[] (scatterA zero h.n h.n (c20_packWs h y pid))

/-- `encode_outputs_*` with LWE packing: total, one row of `⌈bbc·obc / ib⌉` packed polynomials -/
theorem c20_encodeOutputs_packed_ok (zero : S) (h : Helper) (y : Nat → S) (hbb : 0 < h.bb) (hib : 0 < h.ib) (hob : 0 < h.ob)
    (hfit : h.bb * h.ib * h.ob ≤ h.n) (hpack : h.pack = true) :
    encodeOutputs h zero y (h.bs * h.od)
      = .ok [(List.range (ceilDiv (ceilDiv h.bs h.bb * ceilDiv h.od h.ob) h.ib)).map fun pid => c20_packedPoly zero h y pid] := by
  unfold encodeOutputs
  rw [if_neg (by simp), if_neg (by omega)]
  simp only [hpack, Bool.not_true, Bool.false_eq_true, if_false]
  rw [if_neg (by omega)]
  have hrow : (List.range (ceilDiv (ceilDiv h.bs h.bb * ceilDiv h.od h.ob) h.ib)).mapM
      (fun pid => scatterA zero h.n h.n (c20_packWs h y pid))
      = .ok ((List.range (ceilDiv (ceilDiv h.bs h.bb * ceilDiv h.od h.ob) h.ib)).map fun pid => c20_packedPoly zero h y pid) := by
    apply c20_mapM_eq
    intro pid _
    obtain ⟨a, ha, _⟩ := c20_packedPoly_spec zero h y hib hfit pid
    exact c20_val_ok #[] ha
  show (do let row ← (List.range _).mapM (fun pid => scatterA zero h.n h.n (c20_packWs h y pid)); pure [row]) = _
  rw [hrow]
  rfl

/-- **outputs: decode ∘ encode = id over the whole matrix, WITH LWE packing** (every shape, every positive block triple with
    `b·i·o ≤ n`, any coefficient type) -/
theorem c20_outputs_encode_decode_packed (zero : S) (h : Helper) (y : Nat → S) (hbb : 0 < h.bb) (hib : 0 < h.ib) (hob : 0 < h.ob)
    (hfit : h.bb * h.ib * h.ob ≤ h.n) (hpack : h.pack = true) :
    ∃ polys dec, encodeOutputs h zero y (h.bs * h.od) = .ok polys ∧ decodeOutputs h zero polys = .ok dec ∧
      dec.size = h.bs * h.od ∧ ∀ k, k < h.bs * h.od → dec.getD k zero = y k := by
  obtain ⟨Y, hY, hsz, hval⟩ := c20_decodeOutputs_spec_packed zero h
    [(List.range (ceilDiv (ceilDiv h.bs h.bb * ceilDiv h.od h.ob) h.ib)).map fun pid => c20_packedPoly zero h y pid]
    (fun row col => y (row * h.od + col)) hbb hib hob hpack
    (by
      intro d1 d2 hd1 hd2
      have hc : d1 * ceilDiv h.od h.ob + d2 < ceilDiv h.bs h.bb * ceilDiv h.od h.ob := by
        have := c20_succ_mul_le (ib := ceilDiv h.od h.ob) hd1; omega
      have hpid := c20_div_lt_ceilDiv hib hc
      obtain ⟨a, ha, hread⟩ := c20_packedPoly_spec zero h y hib hfit ((d1 * ceilDiv h.od h.ob + d2) / h.ib)
      have e : c20_packedPoly zero h y ((d1 * ceilDiv h.od h.ob + d2) / h.ib) = a := by unfold c20_packedPoly; rw [ha]; rfl
      refine ⟨a, ?_, fun p1 p2 hp1 hp2 => hread d1 d2 hd1 hd2 rfl p1 p2 hp1 hp2⟩
      unfold getPoly
      simp only [List.getElem?_cons_zero]
      rw [c20_range_map_getElem? _ _ _ hpid, e])
  refine ⟨_, Y, c20_encodeOutputs_packed_ok zero h y hbb hib hob hfit hpack, hY, hsz, fun k hk => ?_⟩
  have hod : 0 < h.od := by
    rcases Nat.eq_zero_or_pos h.od with h0 | h0
    · rw [h0] at hk; simp at hk
    · exact h0
  have hkd : k / h.od < h.bs := by
    rw [Nat.div_lt_iff_lt_mul hod]; exact hk
  have := hval (k / h.od) (k % h.od) hkd (Nat.mod_lt k hod)
  rw [Nat.div_add_mod' k h.od] at this
  exact this

/-- **`OutputsEncodeDecodeStatement`, both packing modes** (for every coefficient type; the Nat instance is the statement of
    Props/C20.lean; its divisibility hypothesis `n % ib = 0` is not needed) -/
theorem c20_outputs_encode_decode_both (zero : S) (h : Helper) (y : Nat → S) (hbb : 0 < h.bb) (hib : 0 < h.ib) (hob : 0 < h.ob)
    (hfit : h.bb * h.ib * h.ob ≤ h.n) :
    ∃ polys dec, encodeOutputs h zero y (h.bs * h.od) = .ok polys ∧ decodeOutputs h zero polys = .ok dec ∧
      dec.size = h.bs * h.od ∧ ∀ k, k < h.bs * h.od → dec.getD k zero = y k := by
  cases hp : h.pack with
  | false => exact c20_outputs_encode_decode zero h y hbb hib hob hfit hp
  | true => exact c20_outputs_encode_decode_packed zero h y hbb hib hob hfit hp

end HC
