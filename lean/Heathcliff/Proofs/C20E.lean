/-
  C20, convolution (conv2d.rs): the encoded input / weight blocks as functions of the position and the read-back coefficient
  of their negacyclic product (valid cross-correlation with the flipped kernel layout).
-/
import Heathcliff.Proofs.C20B

namespace HC
open Finset HC.MM

/-! ### four-digit positions `a·C·(hb·W) + c·(hb·W) + r·W + s` -/

theorem c20_pos4_lt {C hb W a c r s : Nat} (hc : c < C) (hr : r < hb) (hs : s < W) :
    a * C * (hb * W) + c * (hb * W) + r * W + s < (a + 1) * C * (hb * W) := by
  have h1 := c20_succ_mul_le (ib := W) hr
  have h2 := c20_succ_mul_le (ib := hb * W) hc
  have e : (a + 1) * C * (hb * W) = a * C * (hb * W) + C * (hb * W) := by ring
  omega

theorem c20_pos4_bound {C hb W a c r s bb n : Nat} (ha : a < bb) (hc : c < C) (hr : r < hb) (hs : s < W)
    (hfit : bb * C * (hb * W) ≤ n) : a * C * (hb * W) + c * (hb * W) + r * W + s < n := by
  have h1 := c20_pos4_lt (a := a) hc hr hs
  have h2 : (a + 1) * C * (hb * W) ≤ bb * C * (hb * W) :=
    Nat.mul_le_mul_right _ (Nat.mul_le_mul_right _ (by omega))
  omega

theorem c20_pos4_inj {C hb W a c r s a' c' r' s' : Nat} (hc : c < C) (hc' : c' < C) (hr : r < hb) (hr' : r' < hb)
    (hs : s < W) (hs' : s' < W)
    (h : a * C * (hb * W) + c * (hb * W) + r * W + s = a' * C * (hb * W) + c' * (hb * W) + r' * W + s') :
    a = a' ∧ c = c' ∧ r = r' ∧ s = s' := by
  have e : ∀ a c r s, a * C * (hb * W) + c * (hb * W) + r * W + s = ((a * C + c) * hb + r) * W + s := by intros; ring
  rw [e, e] at h
  obtain ⟨h1, h2⟩ := c20_digit_unique hs' hs h
  obtain ⟨h3, h4⟩ := c20_digit_unique hr' hr h2
  obtain ⟨h5, h6⟩ := c20_digit_unique hc' hc h4
  exact ⟨h6, h5, h3, h1⟩

/-- the only pairs (input position, weight position) that sum to a read position are the expected ones: no carries -/
theorem c20_cv_low {W hb cib cob b tc r s oc m ki kj b0 oc0 R0 C0 : Nat}
    (h1 : C0 < W) (h1' : s + kj < C0 + W) (h2 : R0 < hb) (h2' : r + ki < R0 + hb)
    (hcib : 0 < cib) (h3 : tc + m + 1 < 2 * cib) (h4 : oc < cob) (h4' : oc0 < cob)
    (h : (b * (cib * cob) * (hb * W) + tc * (hb * W) + r * W + s) + (oc * cib * (hb * W) + m * (hb * W) + ki * W + kj)
          = ((b0 * cob + oc0) * cib + (cib - 1)) * (hb * W) + R0 * W + C0) :
    s + kj = C0 ∧ r + ki = R0 ∧ tc + m = cib - 1 ∧ b = b0 ∧ oc = oc0 := by
  have e1 : (b * (cib * cob) * (hb * W) + tc * (hb * W) + r * W + s) + (oc * cib * (hb * W) + m * (hb * W) + ki * W + kj)
      = (((b * cob + oc) * cib + (tc + m)) * hb + (r + ki)) * W + (s + kj) := by ring
  have e2 : ((b0 * cob + oc0) * cib + (cib - 1)) * (hb * W) + R0 * W + C0
      = (((b0 * cob + oc0) * cib + (cib - 1)) * hb + R0) * W + C0 := by ring
  rw [e1, e2] at h
  rcases c20_carry h1 (by omega) h with ⟨a1, a2⟩ | ⟨a1, _⟩
  · rcases c20_carry h2 (by omega) a2 with ⟨b1, b2⟩ | ⟨b1, _⟩
    · rcases c20_carry (W := cib) (v := cib - 1) (by omega) (by omega) b2 with ⟨c1, c2⟩ | ⟨c1, _⟩
      · obtain ⟨d1, d2⟩ := c20_digit_unique h4' h4 c2
        exact ⟨a1, b1, c1, d2, d1⟩
      · omega
    · omega
  · omega

/-- wrap-around pairs do not reach a read position -/
theorem c20_cv_high {n W hb cib cob bb kh kw b tc r s oc m ki kj H0 R0 C0 : Nat}
    (hfit : bb * (cib * cob) * (hb * W) ≤ n) (hb' : b < bb) (htc : tc < cib) (hr : r < hb) (hs : s < W)
    (hoc : oc < cob) (hm : m < cib) (hki : ki < kh) (hkj : kj < kw) (hR0 : kh - 1 ≤ R0) (hC0 : kw - 1 ≤ C0)
    (h : (b * (cib * cob) * (hb * W) + tc * (hb * W) + r * W + s) + (oc * cib * (hb * W) + m * (hb * W) + ki * W + kj)
          = n + ((H0 * cib + (cib - 1)) * (hb * W) + R0 * W + C0)) : False := by
  have hT : cib * cob * (hb * W) = cob * (cib * (hb * W)) := by ring
  have a1 := c20_succ_mul_le (ib := cib * cob * (hb * W)) hb'
  have a2 := c20_succ_mul_le (ib := hb * W) htc
  have a3 := c20_succ_mul_le (ib := W) hr
  have a4 := c20_succ_mul_le (ib := cib * (hb * W)) hoc
  have a5 := c20_succ_mul_le (ib := hb * W) hm
  have a6 : ki * W ≤ (kh - 1) * W := Nat.mul_le_mul_right W (by omega)
  have a7 : (kh - 1) * W ≤ R0 * W := Nat.mul_le_mul_right W hR0
  have e1 : b * (cib * cob) * (hb * W) = b * (cib * cob * (hb * W)) := by ring
  have e2 : oc * cib * (hb * W) = oc * (cib * (hb * W)) := by ring
  have e3 : bb * (cib * cob) * (hb * W) = bb * (cib * cob * (hb * W)) := by ring
  have e4 : (H0 * cib + (cib - 1)) * (hb * W) = H0 * (cib * (hb * W)) + (cib - 1) * (hb * W) := by ring
  have e5 : (cib - 1) * (hb * W) + hb * W = cib * (hb * W) := by
    have := c20_succ_mul_le (ib := hb * W) (k := cib - 1) (ob := cib) (by omega)
    have e : cib * (hb * W) = (cib - 1 + 1) * (hb * W) := by congr 1; omega
    rw [e, Nat.add_mul, Nat.one_mul]
  rw [e1, e2, e4] at h
  rw [e3] at hfit
  rw [hT] at a1 hfit
  rw [hT] at h
  omega

/-- input position + mirrored weight position = read position -/
theorem c20_cv_sum {W hb cib cob b0 oc0 ic ki kj i0 j0 kh kw : Nat} (hic : ic < cib) (hki : ki < kh) (hkj : kj < kw) :
    (b0 * (cib * cob) * (hb * W) + ic * (hb * W) + (i0 + ki) * W + (j0 + kj))
      + (oc0 * cib * (hb * W) + (cib - 1 - ic) * (hb * W) + (kh - 1 - ki) * W + (kw - 1 - kj))
      = ((b0 * cob + oc0) * cib + (cib - 1)) * (hb * W) + (kh - 1 + i0) * W + (kw - 1 + j0) := by
  obtain ⟨e, he⟩ : ∃ e, cib - 1 - ic = e := ⟨_, rfl⟩
  obtain ⟨f, hf⟩ : ∃ f, kh - 1 - ki = f := ⟨_, rfl⟩
  have h1 : cib - 1 = ic + e := by omega
  have h2 : kh - 1 = ki + f := by omega
  rw [he, hf, h1, h2]
  have h3 : kw - 1 - kj + (j0 + kj) = kw - 1 + j0 := by omega
  have : (b0 * (cib * cob) * (hb * W) + ic * (hb * W) + (i0 + ki) * W + (j0 + kj))
      + (oc0 * cib * (hb * W) + e * (hb * W) + f * W + (kw - 1 - kj))
      = ((b0 * cob + oc0) * cib + (ic + e)) * (hb * W) + (ki + f + i0) * W + (kw - 1 - kj + (j0 + kj)) := by ring
  rw [this, h3]

/-! ### positions of the helper in digit form -/

theorem c20_cxPos_eq (h : CHelper) (db dc ti tj : Nat) :
    cxPos h db dc ti tj = db * (h.cib * h.cob) * (h.hb * h.wb) + dc * (h.hb * h.wb) + ti * h.wb + tj := by
  unfold cxPos CHelper.blockSize; rw [Nat.mul_assoc db]

theorem c20_cwPos_eq (h : CHelper) (doc dic ki kj : Nat) :
    cwPos h doc dic ki kj = doc * h.cib * (h.hb * h.wb) + (h.cib - 1 - dic) * (h.hb * h.wb) + ki * h.wb + kj := by
  unfold cwPos CHelper.blockSize; rfl

theorem c20_cyPos_eq (h : CHelper) (db dc i j : Nat) (hcib : 0 < h.cib) (hkh : 1 ≤ h.S.kh) (hkw : 1 ≤ h.S.kw)
    (hkhb : h.S.kh ≤ h.hb) (hkwb : h.S.kw ≤ h.wb) :
    cyPos h db dc i j = ((db * h.cob + dc) * h.cib + (h.cib - 1)) * (h.hb * h.wb) + (h.S.kh - 1 + i) * h.wb + (h.S.kw - 1 + j) := by
  unfold cyPos CHelper.blockSize
  have e1 : db * h.cib * h.cob + dc * h.cib + h.cib - 1 = (db * h.cob + dc) * h.cib + (h.cib - 1) := by
    have : (db * h.cob + dc) * h.cib = db * h.cib * h.cob + dc * h.cib := by ring
    omega
  have e2 : h.hb - (h.hb - h.S.kh + 1) + i = h.S.kh - 1 + i := by omega
  have e3 : h.wb - (h.wb - h.S.kw + 1) + j = h.S.kw - 1 + j := by omega
  rw [e1, e2, e3]

/-- one encoded input polynomial (`encode_inputs_*`) as a function of the position -/
theorem c20_cvEncInput_spec {R : Type} (zero : R) (h : CHelper) (x : Nat → R)
    (hfit : h.bb * (h.cib * h.cob) * (h.hb * h.wb) ≤ h.n) (hcob : 0 < h.cob)
    (lb ub lci uci si ui sj uj : Nat) (hb : ub - lb ≤ h.bb) (hc : uci - lci ≤ h.cib) (hr : ui - si ≤ h.hb) (hs : uj - sj ≤ h.wb) :
    ∃ px, cvEncInputBlock h zero x lb ub lci uci si ui sj uj = .ok px ∧ px.size = h.n ∧
      (∀ q, (∀ db dc ti tj, db < ub - lb → dc < uci - lci → ti < ui - si → tj < uj - sj → cxPos h db dc ti tj ≠ q) → px.getD q zero = zero) ∧
      (∀ db dc ti tj, db < ub - lb → dc < uci - lci → ti < ui - si → tj < uj - sj →
        px.getD (cxPos h db dc ti tj) zero
          = x ((lb + db) * h.S.ci * (h.S.h * h.S.w) + (lci + dc) * (h.S.h * h.S.w) + (si + ti) * h.S.w + (sj + tj))) := by
  have hcc : h.cib ≤ h.cib * h.cob := Nat.le_mul_of_pos_right _ hcob
  obtain ⟨a, hf, hsz, hz, hv⟩ := c20_scatter_map zero h.n h.n (quads (ub - lb) (uci - lci) (ui - si) (uj - sj))
    (fun q => cxPos h q.1 q.2.1 q.2.2.1 q.2.2.2)
    (fun q => x ((lb + q.1) * h.S.ci * (h.S.h * h.S.w) + (lci + q.2.1) * (h.S.h * h.S.w) + (si + q.2.2.1) * h.S.w + (sj + q.2.2.2)))
    (by
      intro q hq
      obtain ⟨h1, h2, h3, h4⟩ := c20_mem_quads.mp hq
      have := c20_pos4_bound (C := h.cib * h.cob) (hb := h.hb) (W := h.wb) (a := q.1) (c := q.2.1) (r := q.2.2.1) (s := q.2.2.2)
        (bb := h.bb) (n := h.n) (by omega) (by omega) (by omega) (by omega) hfit
      rw [c20_cxPos_eq]
      exact ⟨this, this⟩)
    (by
      intro q hq q' hq' he
      obtain ⟨h1, h2, h3, h4⟩ := c20_mem_quads.mp hq
      obtain ⟨h1', h2', h3', h4'⟩ := c20_mem_quads.mp hq'
      simp only [c20_cxPos_eq] at he
      obtain ⟨e1, e2, e3, e4⟩ := c20_pos4_inj (by omega) (by omega) (by omega) (by omega) (by omega) (by omega) he
      rw [e1, e2, e3, e4])
  refine ⟨a, hf, hsz, ?_, ?_⟩
  · intro q hq
    exact hz q (fun k hk => by obtain ⟨h1, h2, h3, h4⟩ := c20_mem_quads.mp hk; exact hq _ _ _ _ h1 h2 h3 h4)
  · intro db dc ti tj h1 h2 h3 h4
    exact hv (db, dc, ti, tj) (c20_mem_quads.mpr ⟨h1, h2, h3, h4⟩)

/-- one encoded weight polynomial (`encode_weights_*`, buffer sized with the height block) as a function of the position -/
theorem c20_cvEncWeight_spec {R : Type} (zero : R) (h : CHelper) (w : Nat → R)
    (hfit : h.cob * h.cib * (h.hb * h.wb) ≤ h.n) (hkhb : h.S.kh ≤ h.hb) (hkwb : h.S.kw ≤ h.wb)
    (loc uoc lic uic : Nat) (ho : uoc - loc ≤ h.cob) (hc : uic - lic ≤ h.cib) :
    ∃ pw, cvEncWeightBlock h zero w loc uoc lic uic = .ok pw ∧
      (∀ q, (∀ doc dic ki kj, doc < uoc - loc → dic < uic - lic → ki < h.S.kh → kj < h.S.kw → cwPos h doc dic ki kj ≠ q) → pw.getD q zero = zero) ∧
      (∀ doc dic ki kj, doc < uoc - loc → dic < uic - lic → ki < h.S.kh → kj < h.S.kw →
        pw.getD (cwPos h doc dic ki kj) zero
          = w (((loc + doc) * h.S.ci + (lic + dic)) * (h.S.kh * h.S.kw) + (h.S.kh - ki - 1) * h.S.kw + (h.S.kw - kj - 1))) := by
  have hsp : h.spreadSize = h.cob * h.cib * (h.hb * h.wb) := by unfold CHelper.spreadSize; ring
  obtain ⟨a, hf, hsz, hz, hv⟩ := c20_scatter_map zero h.spreadSize h.spreadSize (quads (uoc - loc) (uic - lic) h.S.kh h.S.kw)
    (fun q => cwPos h q.1 q.2.1 q.2.2.1 q.2.2.2)
    (fun q => w (((loc + q.1) * h.S.ci + (lic + q.2.1)) * (h.S.kh * h.S.kw) + (h.S.kh - q.2.2.1 - 1) * h.S.kw + (h.S.kw - q.2.2.2 - 1)))
    (by
      intro q hq
      obtain ⟨h1, h2, h3, h4⟩ := c20_mem_quads.mp hq
      have := c20_pos4_bound (C := h.cib) (hb := h.hb) (W := h.wb) (a := q.1) (c := h.cib - 1 - q.2.1) (r := q.2.2.1) (s := q.2.2.2)
        (bb := h.cob) (n := h.cob * h.cib * (h.hb * h.wb)) (by omega) (by omega) (by omega) (by omega) (le_refl _)
      rw [c20_cwPos_eq, hsp]
      exact ⟨this, this⟩)
    (by
      intro q hq q' hq' he
      obtain ⟨h1, h2, h3, h4⟩ := c20_mem_quads.mp hq
      obtain ⟨h1', h2', h3', h4'⟩ := c20_mem_quads.mp hq'
      simp only [c20_cwPos_eq] at he
      obtain ⟨e1, e2, e3, e4⟩ := c20_pos4_inj (by omega) (by omega) (by omega) (by omega) (by omega) (by omega) he
      have : q.2.1 = q'.2.1 := by omega
      rw [e1, this, e3, e4])
  refine ⟨a, ?_, ?_, ?_⟩
  · unfold cvEncWeightBlock
    rw [hf]
    simp only [bind, Except.bind, pure, Except.pure]
    rw [if_neg (by rw [hsz, hsp]; omega)]
  · intro q hq
    exact hz q (fun k hk => by obtain ⟨h1, h2, h3, h4⟩ := c20_mem_quads.mp hk; exact hq _ _ _ _ h1 h2 h3 h4)
  · intro doc dic ki kj h1 h2 h3 h4
    exact hv (doc, dic, ki, kj) (c20_mem_quads.mpr ⟨h1, h2, h3, h4⟩)

end HC
