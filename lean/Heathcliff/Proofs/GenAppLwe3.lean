/-
  Translator phase 4h, second round: the WHOLE plan of `pack_lwe_ciphertexts` (src/app/lwe.rs) as ONE generated function
  `lwe_pack_plan` (Gen/AppLweFns.lean): `[l] ++ leaves ++ butterflies ++ [trace parameter]`, an interpreter of such plans over the
  phase polynomials (`ga_runPack`: the trusted reading of the opaque evaluator steps, the same reading as the effects table), and
  the theorem that interpreting the generated plan IS the model's program `packPoly`.  Helper prefix `ga_`.
-/
import Heathcliff.Proofs.GenAppLwe2
import Heathcliff.Proofs.C19

namespace HC
open HC.GenApp

/-! ### the generated whole-plan function = concatenation of the three plans -/

theorem ga_lwe_pack_plan_loop1_eq : lwe_pack_plan_loop1 = lwe_pack_log_loop1 := rfl
theorem ga_lwe_pack_plan_loop2_eq (c l : Nat) : lwe_pack_plan_loop2 c l = lwe_pack_leaves_loop1 l c := rfl
theorem ga_lwe_pack_plan_loop4_eq (n : Nat) (ntt : Bool) (l : Nat) : lwe_pack_plan_loop4 n ntt l = lwe_pack_merge_plan_loop2 l n ntt := rfl

/-- the leaves part of a plan -/
def ga_leavesPlan (l c : Nat) : List Nat := (List.range (2^l)).map fun i => if brev l i < c then brev l i else c

/-- **the whole generated plan of `pack_lwe_ciphertexts`** for `1 ≤ … count ≤ 2^62` inputs (the code admits `count ≤ N`): with
    `l = packLog count`, the list `[l] ++ leaves ++ butterflies of layers 0 … l−1 ++ [l]` -/
theorem ga_lwe_pack_plan_eq (c n : Nat) (ntt : Bool) (hc : c ≤ 2^62) :
    lwe_pack_plan c n ntt
      = .ok ([packLog c] ++ ga_leavesPlan (packLog c) c ++ (List.range (packLog c)).flatMap (ga_mergeLayer (packLog c) n) ++ [packLog c]) := by
  have hL : packLog c ≤ 62 := c19_packLog_min c 62 hc
  have hlog : whileFuel 65 0 (lwe_pack_log_loop1 c) = .ok (packLog c) :=
    ga_lwe_pack_log_loop c (by omega) c 0 65 (by rw [Nat.zero_add]; exact Nat.le_of_lt Nat.lt_two_pow_self) (by omega) (by omega)
  have body : ∀ i plan, i < 2^(packLog c) →
      lwe_pack_leaves_loop1 (packLog c) c i plan = .ok (.next (plan ++ [if brev (packLog c) i < c then brev (packLog c) i else c])) := by
    intro i plan hi
    simp only [lwe_pack_leaves_loop1, ga_lwe_reverse_bits_u64_eq i (packLog c) (by omega) hi, ga_ok_bind]
    by_cases h : brev (packLog c) i < c <;> simp [h, pure, Except.pure]
  simp only [lwe_pack_plan, ga_lwe_pack_plan_loop1_eq, ga_lwe_pack_plan_loop2_eq, ga_lwe_pack_plan_loop4_eq, hlog, ga_ok_bind,
    ga_ckShl_one (show packLog c ≤ 63 by omega), Nat.sub_zero,
    ga_forUp_push _ (fun i => if brev (packLog c) i < c then brev (packLog c) i else c) (2^(packLog c)) _ body,
    ga_forUp_push_list _ (ga_mergeLayer (packLog c) n) (packLog c) _
      (fun layer plan h => ga_lwe_pack_merge_layer (packLog c) n ntt hL layer h plan), ga_unit_if, ga_leavesPlan, List.nil_append]
  rfl

/-! ### interpreting a plan over phase polynomials -/

section Interp
variable {α : Type} [Zero α] [Add α] [Sub α] [Neg α] [Mul α]

/-- one butterfly `(odd, shift, even, g)` on the slots: `temp = X^shift·odd; odd' = σ_g(even − temp); even' = (even + temp) + odd'` -/
def ga_bfly (k : Nat) (arr : Nat → Array α) (odd shift even g : Nat) : Nat → Array α :=
  fun i =>
    if i = even then addPoly (2^k) (addPoly (2^k) (arr even) (shiftPoly (2^k) (arr odd) shift))
        (sigmaPoly (2^k) (subPoly (2^k) (arr even) (shiftPoly (2^k) (arr odd) shift)) g)
    else if i = odd then sigmaPoly (2^k) (subPoly (2^k) (arr even) (shiftPoly (2^k) (arr odd) shift)) g
    else arr i

theorem ga_bfly_apply (k : Nat) (arr : Nat → Array α) (odd shift even g i : Nat) :
    ga_bfly k arr odd shift even g i =
      if i = even then addPoly (2^k) (addPoly (2^k) (arr even) (shiftPoly (2^k) (arr odd) shift))
          (sigmaPoly (2^k) (subPoly (2^k) (arr even) (shiftPoly (2^k) (arr odd) shift)) g)
      else if i = odd then sigmaPoly (2^k) (subPoly (2^k) (arr even) (shiftPoly (2^k) (arr odd) shift)) g
      else arr i := rfl

/-- the butterflies of a plan, four numbers each, in order -/
def ga_runBflys (k : Nat) : List Nat → (Nat → Array α) → (Nat → Array α)
  | o :: s :: e :: g :: rest, arr => ga_runBflys k rest (ga_bfly k arr o s e g)
  | _, arr => arr

/-- the slots after the leaf loop: slot `i` = input `leaves[i]` times 1/N, or zero when the entry is not an input index -/
def ga_leafSlots (k : Nat) (ninv : α) (ins : Array (Array α)) (leaves : List Nat) : Nat → Array α :=
  fun i => if leaves.getD i ins.size < ins.size then scalePoly (2^k) ninv (ins.getD (leaves.getD i ins.size) #[]) else Array.replicate (2^k) 0

/-- **interpreter of a `pack_lwe_ciphertexts` plan** `[l] ++ leaves (2^l entries) ++ butterflies ++ [t]`: leaf slots, butterflies in order,
    then the field trace with parameter `t` of slot 0 -/
def ga_runPack (k : Nat) (ninv : α) (ins : Array (Array α)) (plan : List Nat) : Array α :=
  let l := plan.headD 0
  let leaves := (plan.drop 1).take (2^l)
  let merges := (plan.drop (2^l + 1)).dropLast
  fieldTracePoly k (plan.reverse.headD 0) (ga_runBflys k merges (ga_leafSlots k ninv ins leaves) 0)

theorem ga_runBflys_quads (k : Nat) (F : Nat → Nat × Nat × Nat × Nat) : ∀ (qs : List Nat) (rest : List Nat) (f : Nat → Array α),
    ga_runBflys k (qs.flatMap (fun q => [(F q).1, (F q).2.1, (F q).2.2.1, (F q).2.2.2]) ++ rest) f
      = ga_runBflys k rest (qs.foldl (fun f q => ga_bfly k f (F q).1 (F q).2.1 (F q).2.2.1 (F q).2.2.2) f) := by
  intro qs
  induction qs with
  | nil => intro rest f; rfl
  | cons q qs ih =>
    intro rest f
    simp only [List.flatMap_cons, List.cons_append, List.nil_append, List.append_assoc, ga_runBflys, List.foldl_cons]
    exact ih rest _

/-- the slot function agrees with the array on the `2^l` slots -/
def ga_Rel (l : Nat) (f : Nat → Array α) (A : Array (Array α)) : Prop := ∀ i, i < 2^l → f i = A.getD i #[]

theorem ga_packLayer_getD (k l layer : Nat) (A : Array (Array α)) (i : Nat) (hi : i < 2^l) :
    (packLayer k l layer A).getD i #[] =
      if i % (2 * 2^layer) = 0 then packMerge k layer (A.getD i #[]) (A.getD (i + 2^layer) #[])
      else if i % (2 * 2^layer) = 2^layer then packOddAfter k layer (A.getD (i - 2^layer) #[]) (A.getD i #[])
      else A.getD i #[] := by
  simp only [packLayer]
  rw [Array.getD_eq_getD_getElem?, Array.getElem?_ofFn]
  simp only [hi, dite_true, Option.getD_some]

/-- one layer: running its butterflies in order on slots that agree with `A` gives slots that agree with `packLayer … A` -/
theorem ga_runLayer (k l layer : Nat) (hlayer : layer < l) (f : Nat → Array α) (A : Array (Array α)) (hR : ga_Rel l f A) :
    ga_Rel l ((List.range (2^l / 2^(layer+1))).foldl (fun f q => ga_bfly k f (q * 2^(layer+1) + 2^layer) (2^k >>> (layer+1))
        (q * 2^(layer+1)) (2^(layer+1) + 1)) f) (packLayer k l layer A) := by
  have hm : 2^l / 2^(layer+1) = 2^(l - (layer+1)) := Nat.pow_div (by omega) (by omega)
  have hmG : 2^(l - (layer+1)) * 2^(layer+1) = 2^l := by rw [← Nat.pow_add]; congr 1; omega
  have hG : 2 * 2^layer = 2^(layer+1) := by rw [Nat.pow_succ, Nat.mul_comm]
  have hpos : 0 < 2^layer := Nat.two_pow_pos _
  rw [hm]
  generalize hGd : 2^(layer+1) = G at hmG hG
  generalize hmd : 2^(l - (layer+1)) = m at hmG
  -- invariant after `j` butterflies
  have inv : ∀ j, j ≤ m → ∀ i, i < 2^l →
      ((List.range j).foldl (fun f q => ga_bfly k f (q * G + 2^layer) (2^k >>> (layer+1)) (q * G) (G + 1)) f) i
        = if i < j * G then (packLayer k l layer A).getD i #[] else A.getD i #[] := by
    intro j
    induction j with
    | zero => intro _ i hi; simp [hR i hi]
    | succ j ih =>
      intro hj i hi
      have hle : j * G + G ≤ m * G := ga_succ_mul_le (show j < m by omega)
      have hsucc : (j + 1) * G = j * G + G := Nat.succ_mul j G
      rw [List.range_succ, List.foldl_append, List.foldl_cons, List.foldl_nil]
      have ihe := ih (by omega) (j * G) (by omega)
      have iho := ih (by omega) (j * G + 2^layer) (by omega)
      rw [if_neg (by omega)] at ihe iho
      have hmodE : (j * G) % (2 * 2^layer) = 0 := by rw [hG]; exact Nat.mul_mod_left _ _
      have hmodO : (j * G + 2^layer) % (2 * 2^layer) = 2^layer := by
        rw [hG, Nat.add_comm, Nat.add_mul_mod_self_right]; exact Nat.mod_eq_of_lt (by omega)
      rw [ga_bfly_apply]
      by_cases he : i = j * G
      · subst he
        rw [if_pos rfl, if_pos (by omega), ihe, iho, ga_packLayer_getD k l layer A _ hi, if_pos hmodE]
        simp only [packMerge, Nat.shiftRight_eq_div_pow, hGd]
      · rw [if_neg he]
        by_cases ho : i = j * G + 2^layer
        · subst ho
          rw [if_pos rfl, if_pos (by omega), ihe, iho, ga_packLayer_getD k l layer A _ hi, if_neg (by omega), if_pos hmodO]
          simp only [packOddAfter, Nat.shiftRight_eq_div_pow, hGd, Nat.add_sub_cancel]
        · rw [if_neg ho, ih (by omega) i hi]
          by_cases h1 : i < j * G
          · rw [if_pos h1, if_pos (by omega)]
          · rw [if_neg h1]
            by_cases h2 : i < j * G + G
            · rw [if_pos (by omega), ga_packLayer_getD k l layer A _ hi]
              have hr : i % (2 * 2^layer) = i - j * G := by
                rw [hG]
                have : i = (i - j * G) + j * G := by omega
                conv_lhs => rw [this]
                rw [Nat.add_mul_mod_self_right]; exact Nat.mod_eq_of_lt (by omega)
              rw [if_neg (by omega), if_neg (by omega)]
            · rw [if_neg (by omega)]
  intro i hi
  rw [inv m (Nat.le_refl _) i hi, if_pos (by omega)]

/-- all layers -/
theorem ga_runLayers (k l : Nat) : ∀ (L : Nat), L ≤ l → ∀ (f : Nat → Array α) (A : Array (Array α)), ga_Rel l f A →
    ga_Rel l (ga_runBflys k ((List.range L).flatMap (ga_mergeLayer l (2^k))) f)
      ((List.range L).foldl (fun arr layer => packLayer k l layer arr) A) := by
  intro L
  induction L with
  | zero => intro _ f A hR; simpa [ga_runBflys] using hR
  | succ L ih =>
    intro hL f A hR
    rw [List.range_succ, List.flatMap_append, List.foldl_append]
    simp only [List.flatMap_cons, List.flatMap_nil, List.append_nil, List.foldl_cons, List.foldl_nil]
    have h1 := ga_runBflys_quads (α := α) k (fun q => (q * 2^(L+1) + 2^L, 2^k >>> (L+1), q * 2^(L+1), 2^(L+1) + 1))
    -- first the earlier layers (a prefix made of quadruples), then layer `L`
    have hpre : ∀ (Ls : List Nat) (rest : List Nat) (f : Nat → Array α),
        ga_runBflys k (Ls.flatMap (ga_mergeLayer l (2^k)) ++ rest) f = ga_runBflys k rest (ga_runBflys k (Ls.flatMap (ga_mergeLayer l (2^k))) f) := by
      intro Ls
      induction Ls with
      | nil => intro rest f; rfl
      | cons a Ls ihl =>
        intro rest f
        have q := ga_runBflys_quads (α := α) k (fun q => (q * 2^(a+1) + 2^a, 2^k >>> (a+1), q * 2^(a+1), 2^(a+1) + 1))
        simp only [List.flatMap_cons, List.append_assoc, ga_mergeLayer] at q ⊢
        rw [q, q, ihl]
    rw [hpre]
    have hlast := ga_runBflys_quads (α := α) k (fun q => (q * 2^(L+1) + 2^L, 2^k >>> (L+1), q * 2^(L+1), 2^(L+1) + 1))
      (List.range (2^l / 2^(L+1))) [] (ga_runBflys k ((List.range L).flatMap (ga_mergeLayer l (2^k))) f)
    simp only [List.append_nil] at hlast
    have e : ga_mergeLayer l (2^k) L = (List.range (2^l / 2^(L+1))).flatMap
        (fun q => [q * 2^(L+1) + 2^L, 2^k >>> (L+1), q * 2^(L+1), 2^(L+1) + 1]) := rfl
    rw [e, hlast]
    exact ga_runLayer k l L (by omega) _ _ (ih (by omega) f A hR)

/-- the leaf slots agree with `packLeaves` -/
theorem ga_leafSlots_rel (k l : Nat) (ninv : α) (ins : Array (Array α)) :
    ga_Rel l (ga_leafSlots k ninv ins (ga_leavesPlan l ins.size)) (packLeaves k l ninv ins) := by
  intro i hi
  have e1 : (ga_leavesPlan l ins.size).getD i ins.size = if brev l i < ins.size then brev l i else ins.size := by
    simp [ga_leavesPlan, List.getD_eq_getElem?_getD, hi]
  have hp : (packLeaves k l ninv ins).getD i #[]
      = if brev l i < ins.size then scalePoly (2^k) ninv (ins.getD (brev l i) #[]) else Array.replicate (2^k) 0 := by
    simp only [packLeaves]
    rw [Array.getD_eq_getD_getElem?, Array.getElem?_ofFn]
    simp only [hi, dite_true, Option.getD_some]
  rw [hp]
  unfold ga_leafSlots
  rw [e1]
  by_cases h : brev l i < ins.size
  · simp only [if_pos h]
  · simp only [if_neg h, Nat.lt_irrefl, if_false]

/-- **interpreting the plan the generated code produces IS the model's `packPoly`** (the plan's shift entries are those for `N = 2^k`) -/
theorem ga_runPack_eq (k : Nat) (ninv : α) (ins : Array (Array α)) :
    ga_runPack k ninv ins ([packLog ins.size] ++ ga_leavesPlan (packLog ins.size) ins.size
        ++ (List.range (packLog ins.size)).flatMap (ga_mergeLayer (packLog ins.size) (2^k)) ++ [packLog ins.size])
      = packPoly k ninv ins := by
  generalize hl : packLog ins.size = l
  have hlen : (ga_leavesPlan l ins.size).length = 2^l := by simp [ga_leavesPlan]
  have e1 : ([l] ++ ga_leavesPlan l ins.size ++ (List.range l).flatMap (ga_mergeLayer l (2^k)) ++ [l])
      = l :: (ga_leavesPlan l ins.size ++ ((List.range l).flatMap (ga_mergeLayer l (2^k)) ++ [l])) := by simp
  have hR := ga_runLayers k l l (Nat.le_refl _) _ _ (ga_leafSlots_rel k l ninv ins)
  unfold ga_runPack packPoly
  rw [e1]
  simp only [List.headD_cons, List.drop_succ_cons, List.drop_zero, List.take_left' hlen, List.drop_left' hlen, List.dropLast_concat, hl]
  have hlast : (l :: (ga_leavesPlan l ins.size ++ ((List.range l).flatMap (ga_mergeLayer l (2^k)) ++ [l]))).reverse.headD 0 = l := by
    simp
  rw [hlast, hR 0 (Nat.two_pow_pos l)]

end Interp

end HC
