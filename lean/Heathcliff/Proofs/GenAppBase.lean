/-
  Translator phase 4h (app mode): generic facts about the prelude of the app-mode files (Gen/AppPrelude.lean): the loop combinators
  `forUp` / `forDown` with `Ctl`, and the checked primitives.  Imports NO generated function file, so that the proofs about
  src/app/lwe.rs, src/batch_encoder.rs and src/app/{matmul,conv2d} depend only on their own generated file.  Helper prefix `ga_`.
-/
import Heathcliff.Gen.AppPrelude

namespace HC
open HC.GenApp

theorem ga_ok_bind {α β : Type} (a : α) (f : α → R β) : ((Except.ok a : R α) >>= f) = f a := rfl

/-! ### loop combinators -/

/-- a `for lo..lo+k` loop whose body never fails and either breaks at an index from which on the model step is the identity, or
    performs the model step: the loop computes the model's fold (state related through `e`) -/
theorem ga_forUp_eq {σ τ : Type} (e : τ → σ) (g : τ → Nat → τ) (P : Nat → Prop) (f : Nat → σ → R (Ctl σ))
    (hmono : ∀ j, P j → P (j+1)) (hskip : ∀ j t, P j → g t j = t) :
    ∀ (k lo : Nat) (t : τ),
    (∀ j t, lo ≤ j → j < lo + k → (P j ∧ f j (e t) = .ok (.brk (e t))) ∨ f j (e t) = .ok (.next (e (g t j)))) →
    forUp lo k (e t) f = .ok (e ((List.range' lo k).foldl g t)) := by
  intro k
  induction k with
  | zero => intro lo t _; simp [forUp, pure, Except.pure]
  | succ k ih =>
    intro lo t h
    have hP : ∀ (k' lo' : Nat) (t' : τ), P lo' → (List.range' lo' k').foldl g t' = t' := by
      intro k'
      induction k' with
      | zero => intro lo' t' _; simp
      | succ k' ih' =>
        intro lo' t' hp
        rw [List.range'_succ, List.foldl_cons, hskip lo' t' hp]
        exact ih' (lo'+1) t' (hmono lo' hp)
    rw [List.range'_succ, List.foldl_cons]
    rcases h lo t (Nat.le_refl _) (by omega) with ⟨hp, hb⟩ | hn
    · rw [hskip lo t hp, hP k (lo+1) t (hmono lo hp)]
      simp [forUp, hb, pure, Except.pure]
    · have := ih (lo+1) (g t lo) (fun j t' h1 h2 => h j t' (by omega) (by omega))
      simp only [forUp, hn]
      exact this

/-- the same without `break` -/
theorem ga_forUp_eq' {σ τ : Type} (e : τ → σ) (g : τ → Nat → τ) (f : Nat → σ → R (Ctl σ)) (k lo : Nat) (t : τ)
    (h : ∀ j t, lo ≤ j → j < lo + k → f j (e t) = .ok (.next (e (g t j)))) :
    forUp lo k (e t) f = .ok (e ((List.range' lo k).foldl g t)) :=
  ga_forUp_eq e g (fun _ => False) f (fun _ h => h) (fun _ _ h => h.elim) k lo t (fun j t h1 h2 => Or.inr (h j t h1 h2))

/-- a reversed `for` loop without `break` whose body performs the model step: the model's fold over `lo+k-1, …, lo` -/
theorem ga_forDown_eq {σ τ : Type} (e : τ → σ) (g : τ → Nat → τ) (f : Nat → σ → R (Ctl σ)) (lo : Nat) :
    ∀ (k : Nat) (t : τ),
    (∀ j t, lo ≤ j → j < lo + k → f j (e t) = .ok (.next (e (g t j)))) →
    forDown lo k (e t) f = .ok (e (((List.range k).reverse.map (· + lo)).foldl g t)) := by
  intro k
  induction k with
  | zero => intro t _; simp [forDown, pure, Except.pure]
  | succ k ih =>
    intro t h
    have h0 := h (lo + k) t (by omega) (by omega)
    have := ih (g t (lo + k)) (fun j t' h1 h2 => h j t' h1 (by omega))
    simp only [forDown, h0]
    rw [this, List.range_succ, List.reverse_append]
    simp [Nat.add_comm]

/-- a `for` loop (no `break`) whose body performs the model step as long as an invariant holds -/
theorem ga_forUp_inv {σ τ : Type} (e : τ → σ) (g : τ → Nat → τ) (Inv : Nat → τ → Prop) (f : Nat → σ → R (Ctl σ)) :
    ∀ (k lo : Nat) (t : τ), Inv lo t →
    (∀ j t, lo ≤ j → j < lo + k → Inv j t → f j (e t) = .ok (.next (e (g t j))) ∧ Inv (j+1) (g t j)) →
    forUp lo k (e t) f = .ok (e ((List.range' lo k).foldl g t)) := by
  intro k
  induction k with
  | zero => intro lo t _ _; simp [forUp, pure, Except.pure]
  | succ k ih =>
    intro lo t hI h
    obtain ⟨h0, hI'⟩ := h lo t (Nat.le_refl _) (by omega) hI
    rw [List.range'_succ, List.foldl_cons]
    simp only [forUp, h0]
    exact ih (lo+1) (g t lo) hI' (fun j t' h1 h2 hj => h j t' (by omega) (by omega) hj)

theorem ga_foldl_append {α : Type} (v : Nat → List α) (l : List Nat) (acc : List α) :
    l.foldl (fun a j => a ++ v j) acc = acc ++ l.flatMap v := by
  induction l generalizing acc with
  | nil => simp
  | cons x xs ih => simp [List.foldl_cons, ih, List.flatMap_cons, List.append_assoc]

/-- a `for j in 0..k { list.push(val j) }` loop -/
theorem ga_forUp_push (f : Nat → List Nat → R (Ctl (List Nat))) (val : Nat → Nat) (k : Nat) (l : List Nat)
    (h : ∀ j l, j < k → f j l = .ok (.next (l ++ [val j]))) :
    forUp 0 k l f = .ok (l ++ (List.range k).map val) := by
  have := ga_forUp_eq' id (fun (l : List Nat) j => l ++ [val j]) f k 0 l (fun j t _ h2 => h j t (by omega))
  simp only [id] at this
  have hs : ∀ xs : List Nat, xs.flatMap (fun j => [val j]) = xs.map val := by
    intro xs
    induction xs with
    | nil => rfl
    | cons x xs ih => simp [List.flatMap_cons, ih]
  rw [this, ga_foldl_append (fun j => [val j]), List.range_eq_range', hs]

/-- a loop whose body appends a whole list per iteration -/
theorem ga_forUp_push_list (f : Nat → List Nat → R (Ctl (List Nat))) (val : Nat → List Nat) (k : Nat) (l : List Nat)
    (h : ∀ j l, j < k → f j l = .ok (.next (l ++ val j))) :
    forUp 0 k l f = .ok (l ++ (List.range k).flatMap val) := by
  have := ga_forUp_eq' id (fun (l : List Nat) j => l ++ val j) f k 0 l (fun j t _ h2 => h j t (by omega))
  simp only [id] at this
  rw [this, ga_foldl_append val, List.range_eq_range']

/-- a `while` loop that walks through the states `st 0, st 1, …, st m` and leaves at `st m` -/
theorem ga_whileFuel_seq {σ : Type} (f : σ → R (Ctl σ)) (st : Nat → σ) (m : Nat)
    (hstep : ∀ j, j < m → f (st j) = .ok (.next (st (j+1)))) (hend : f (st m) = .ok (.brk (st m))) :
    ∀ (d j fuel : Nat), j + d = m → d < fuel → whileFuel fuel (st j) f = .ok (st m) := by
  intro d
  induction d with
  | zero =>
    intro j fuel hj hf
    obtain ⟨f', rfl⟩ : ∃ f', fuel = f' + 1 := ⟨fuel - 1, by omega⟩
    have : j = m := by omega
    subst this
    simp [whileFuel, hend, pure, Except.pure]
  | succ d ih =>
    intro j fuel hj hf
    obtain ⟨f', rfl⟩ : ∃ f', fuel = f' + 1 := ⟨fuel - 1, by omega⟩
    simp only [whileFuel, hstep j (by omega)]
    exact ih (j + 1) f' (by omega) (by omega)

theorem ga_succ_mul_le {k ob ib : Nat} (hk : k < ob) : k * ib + ib ≤ ob * ib := by
  have := Nat.mul_le_mul_right ib (Nat.succ_le_of_lt hk)
  rwa [Nat.succ_mul] at this

/-! ### checked primitives -/

theorem ga_ckAdd {a b : Nat} (h : a + b < 2^64) : ckAdd a b = .ok (a + b) := by
  have h' : a + b < B64 := by simpa [B64] using h
  simp [ckAdd, h']
theorem ga_ckMul {a b : Nat} (h : a * b < 2^64) : ckMul a b = .ok (a * b) := by
  have h' : a * b < B64 := by simpa [B64] using h
  simp [ckMul, h']
theorem ga_ckSub {a b : Nat} (h : b ≤ a) : ckSub a b = .ok (a - b) := by simp [ckSub, h]
theorem ga_ckDiv {a b : Nat} (h : 1 ≤ b) : GenApp.ckDiv a b = .ok (a / b) := by
  have : b ≠ 0 := by omega
  simp [GenApp.ckDiv, this]

theorem ga_mul_lt {a b A B : Nat} (ha : a < A) (hb : b < B) : a * b < A * B :=
  calc a * b ≤ a * B := Nat.mul_le_mul_left a (Nat.le_of_lt hb)
    _ < A * B := Nat.mul_lt_mul_of_pos_right ha (by omega)

theorem ga_ckPow {a e : Nat} (h : a ^ e < 2^64) : GenApp.ckPow a e = .ok (a ^ e) := by
  have h' : a ^ e < B64 := by simpa [B64] using h
  simp [GenApp.ckPow, h']

end HC
