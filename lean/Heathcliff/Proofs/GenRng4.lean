/- Translator phase 4j: compositions of the generated-code equalities (Proofs/GenRng*.lean) with the C16 theorems about the model:
   operation sequences on the GENERATED generator = cursor semantics over the BLAKE3 stream, chunking law, bound of the error samples,
   RNS consistency of the samples - statements whose subject is the generated code.  Helper prefix `gs_`.  No Mathlib. -/
import Heathcliff.Proofs.GenRng3
namespace HC.GenRng
open HC HC.Rng

/-! ### layout -/

theorem gs_flatCM_length (k n : Nat) (c : List (List Nat)) : (flatCM k n c).length = k * n := by simp [flatCM]

/-- component `j`, coefficient `i` sits at position `i + j·n` -/
theorem gs_flatCM_get (k n : Nat) (c : List (List Nat)) {i j : Nat} (hi : i < n) (hj : j < k) :
    (flatCM k n c).getD (i + j * n) 0 = (c.getD j []).getD i 0 := by
  have hp := gs_pos_lt hi hj
  have hn : 0 < n := by omega
  have h1 : (i + j * n) % n = i := by rw [Nat.add_mul_mod_self_right, Nat.mod_eq_of_lt hi]
  have h3 : (i + j * n) / n = j := by rw [Nat.add_mul_div_right _ _ hn, Nat.div_eq_of_lt hi, Nat.zero_add]
  simp [flatCM, List.getD_eq_getElem?_getD, hp, h1, h3]

/-! ### the generator: invariants, operation sequences -/

theorem gs_fillBytes_pos_le {xof : Xof} : ∀ (n : Nat) (s : St), s.pos ≤ BUF → (fillBytes xof s n).2.pos ≤ BUF := by
  intro n
  induction n with
  | zero => intro s h; rw [fillBytes_zero]; exact h
  | succ n ih =>
    intro s _
    rw [fillBytes_succ]
    apply ih
    have := preFill_pos_lt xof s
    simp only [readByte]; omega

/-- what every public operation keeps: the buffer is a `BUFFER_SIZE` array and the cursor is inside it (or at its end) -/
def GenInv (s : St) : Prop := SizedSt s ∧ s.pos ≤ BUF

theorem genInv_fromSeed (seed : Seed) : GenInv (fromSeed seed) := ⟨sizedSt_fromSeed seed, by simp [fromSeed]⟩

/-- `Op.fill n` asks for a `usize` number of bytes -/
def OpOK : Op → Prop
  | .fill n => n < 2^64
  | _ => True

/-- one operation on the GENERATED functions (`fill n`: a zeroed destination of `n` bytes) -/
def gs_genStep (X : XofL) (g : BlakeRNG) : Op → R (Out × BlakeRNG)
  | .fill n => do let (g, b) ← fill_bytes X g (List.replicate n 0); pure (.bytes b, g)
  | .u32 => do let (g, v) ← next_u32 X g; pure (.word v, g)
  | .u64 => do let (g, v) ← next_u64 X g; pure (.word v, g)

def gs_genRun (X : XofL) : BlakeRNG → List Op → R (List Out × BlakeRNG)
  | g, [] => pure ([], g)
  | g, o :: os => do let (r, g) ← gs_genStep X g o; let (rs, g) ← gs_genRun X g os; pure (r :: rs, g)

theorem gs_genStep_eq {xof : Xof} (hx : SizedXof xof) (s : St) (hs : GenInv s) (o : Op) (ho : OpOK o) :
    gs_genStep (xofL xof) (ofSt s) o = .ok ((step xof s o).1, ofSt (step xof s o).2) ∧ GenInv (step xof s o).2 := by
  cases o with
  | fill n =>
    have h := gn_fill_bytes_eq hx s hs.1 (List.replicate n 0) (by simpa [OpOK] using ho)
    simp only [List.length_replicate] at h
    refine ⟨by simp only [gs_genStep, h, bind, Except.bind, pure, Except.pure, step], ?_⟩
    exact ⟨sizedSt_fillBytes hx n s hs.1, gs_fillBytes_pos_le n s hs.2⟩
  | u32 =>
    refine ⟨by simp only [gs_genStep, gn_next_u32_eq hx s hs.1 hs.2, bind, Except.bind, pure, Except.pure, step], ?_⟩
    exact gn_nextWord_inv _ _ _ (by decide) (by decide) hx s hs.1 hs.2
  | u64 =>
    refine ⟨by simp only [gs_genStep, gn_next_u64_eq hx s hs.1 hs.2, bind, Except.bind, pure, Except.pure, step], ?_⟩
    exact gn_nextWord_inv _ _ _ (by decide) (by decide) hx s hs.1 hs.2

/-- every interleaving of `fill_bytes` / `next_u32` / `next_u64` on the GENERATED functions returns what the model's `run` returns -/
theorem gs_genRun_eq {xof : Xof} (hx : SizedXof xof) : ∀ (ops : List Op) (s : St), GenInv s → (∀ o ∈ ops, OpOK o) →
    gs_genRun (xofL xof) (ofSt s) ops = .ok ((run xof s ops).1, ofSt (run xof s ops).2) := by
  intro ops
  induction ops with
  | nil => intro s _ _; rfl
  | cons o os ih =>
    intro s hs hops
    obtain ⟨h1, h2⟩ := gs_genStep_eq hx s hs o (hops o (by simp))
    have h3 := ih (step xof s o).2 h2 (fun o' ho' => hops o' (by simp [ho']))
    simp only [gs_genRun, h1, h3, bind, Except.bind, pure, Except.pure, run]

/-- on a freshly seeded generator: the cursor semantics over the stream `xof seed 0 ++ xof seed 1 ++ …` -/
theorem gs_genRun_cursor {xof : Xof} (hx : SizedXof xof) (seed : Seed) (ops : List Op) (hops : ∀ o ∈ ops, OpOK o) :
    ∃ g, gs_genRun (xofL xof) (ofSt (fromSeed seed)) ops = .ok ((cursorRun xof seed 0 ops).1, g) := by
  refine ⟨ofSt (run xof (fromSeed seed) ops).2, ?_⟩
  rw [gs_genRun_eq hx ops (fromSeed seed) (genInv_fromSeed seed) hops, (rep_run (rep_fromSeed (xof := xof) seed) ops).1]
  rfl

/-- chunking law ON THE GENERATED `fill_bytes`: filling `d1 ++ d2` at once = filling `d1`, then `d2` (same bytes, same final generator) -/
theorem gs_fill_bytes_split {xof : Xof} (hx : SizedXof xof) (s : St) (hs : SizedSt s) (d1 d2 : List Nat) (hd : (d1 ++ d2).length < 2^64) :
    ∃ g1 o1 g2 o2, fill_bytes (xofL xof) (ofSt s) d1 = .ok (g1, o1) ∧ fill_bytes (xofL xof) g1 d2 = .ok (g2, o2) ∧
      fill_bytes (xofL xof) (ofSt s) (d1 ++ d2) = .ok (g2, o1 ++ o2) := by
  have hl : d1.length + d2.length < 2^64 := by simpa using hd
  have h1 := gn_fill_bytes_eq hx s hs d1 (by omega)
  have h2 := gn_fill_bytes_eq hx (fillBytes xof s d1.length).2 (sizedSt_fillBytes hx _ s hs) d2 (by omega)
  have h3 := gn_fill_bytes_eq hx s hs (d1 ++ d2) hd
  rw [List.length_append, fillBytes_add] at h3
  exact ⟨_, _, _, _, h1, h2, h3⟩

/-- from a fresh seed the generated `fill_bytes` writes the prefix of the BLAKE3 stream -/
theorem gs_fill_bytes_stream {xof : Xof} (hx : SizedXof xof) (seed : Seed) (dest : List Nat) (hd : dest.length < 2^64) :
    ∃ g, fill_bytes (xofL xof) (ofSt (fromSeed seed)) dest = .ok (g, streamSlice xof seed 0 dest.length) := by
  refine ⟨ofSt (fillBytes xof (fromSeed seed) dest.length).2, ?_⟩
  rw [gn_fill_bytes_eq hx (fromSeed seed) (sizedSt_fromSeed seed) dest hd, (rep_fillBytes (rep_fromSeed (xof := xof) seed) dest.length).1]
  rfl

/-! ### the samplers -/

/-- every value the generated `cbd` closure returns lies in `[-21, 21]` -/
theorem gs_cbd_closure_bound (U : Uniform) {xof : Xof} (hx : SizedXof xof) (hbx : ByteXof xof) (s : St) (hs : SizedSt s) (hbs : ByteSt s) :
    ∃ g v, centered_binomial_closure1 (blakeOps U xof) (ofSt s) = .ok (g, v) ∧ -21 ≤ v ∧ v ≤ 21 := by
  refine ⟨_, _, gs_cbd_closure U hx hbx s hs hbs, ?_⟩
  exact cbdValue_bound _ (fillBytes_length s 6) (byte_fillBytes hbx hbs 6).1

/-- `sample::centered_binomial` FROM SOURCE TO MATHEMATICS: on moduli `q_j ≥ 2` the generated function never panics; there are `n` values
    `|v_i| ≤ 21` such that the destination holds `v_i mod q_j` at position `i + j·n` (whatever it held before), and the generator is left in
    a state on which the next call can be made -/
theorem gs_centered_binomial_math (U : Uniform) {xof : Xof} (hx : SizedXof xof) (hbx : ByteXof xof) (s : St) (hs : SizedSt s) (hbs : ByteSt s)
    (n : Nat) (moduli dest : List Nat) (hd : dest.length = moduli.length * n) (hB : moduli.length * n < B64) (hq : ∀ q ∈ moduli, 2 ≤ q) :
    ∃ (vs : List Int) (s' : St), vs.length = n ∧ (∀ v ∈ vs, -21 ≤ v ∧ v ≤ 21) ∧ ByteSt s' ∧
      centeredBinomial xof s n moduli = .ok (moduli.map (fun (q : Nat) => vs.map fun v => (v % (q : Int)).toNat), s') ∧
      centered_binomial (blakeOps U xof) (ofSt s) moduli n dest =
        .ok (ofSt s', flatCM moduli.length n (moduli.map fun (q : Nat) => vs.map fun v => (v % (q : Int)).toNat)) := by
  obtain ⟨c, s', h⟩ := gs_centeredBinomial_total xof s n moduli (fun q hq' => by have := hq q hq'; omega)
  obtain ⟨vs, l1, p1, rfl, b1⟩ := centeredBinomial_spec hbx hbs hq h
  exact ⟨vs, s', l1, p1, b1, h, gs_centered_binomial_fwd U hx hbx s hs hbs n moduli dest hd hB _ s' h⟩

/-- `sample::ternary`: whenever the draws succeed (model returns), the generated function returns the same polynomial, which has the form
    `v_i mod q_j` with `v_i ∈ {-1, 0, 1}` -/
theorem gs_ternary_math (U : Uniform) (hU : U.Contract) {xof : Xof} (hbx : ByteXof xof) (s : St) (hbs : ByteSt s)
    (n : Nat) (moduli dest : List Nat) (hd : dest.length = moduli.length * n) (hB : moduli.length * n < B64) (hq : ∀ q ∈ moduli, 2 ≤ q)
    (c : List (List Nat)) (s' : St) (h : Rng.ternary U xof s n moduli = .ok (c, s')) :
    ∃ vs : List Int, vs.length = n ∧ (∀ v ∈ vs, -1 ≤ v ∧ v ≤ 1) ∧
      GenRng.ternary (blakeOps U xof) (ofSt s) moduli n dest =
        .ok (ofSt s', flatCM moduli.length n (moduli.map fun (q : Nat) => vs.map fun v => (v % (q : Int)).toNat)) := by
  obtain ⟨vs, l1, p1, rfl, _⟩ := ternary_spec U hU hbx hbs hq h
  exact ⟨vs, l1, p1, gs_ternary_fwd U xof s n moduli dest hd hB _ s' h⟩

/-- `sample::uniform`: whenever the draws succeed, the generated function returns the model's polynomial, all coefficients of component `j` below `q_j` -/
theorem gs_uniform_math (U : Uniform) (hU : U.Contract) {xof : Xof} (hbx : ByteXof xof) (s : St) (hbs : ByteSt s)
    (n : Nat) (moduli dest : List Nat) (hd : dest.length = moduli.length * n) (hB : moduli.length * n < B64) (hq : ∀ q ∈ moduli, q ≤ 2^64)
    (c : List (List Nat)) (s' : St) (h : uniformPoly U xof s n moduli = .ok (c, s')) :
    GenRng.uniform (blakeOps U xof) (ofSt s) moduli n dest = .ok (ofSt s', flatCM moduli.length n c) ∧ AllBelow n moduli c :=
  ⟨gs_uniform_fwd U xof s n moduli dest hd hB c s' h, (uniformPoly_spec U hU hbx moduli s s' c hbs hq h).1⟩

end HC.GenRng
