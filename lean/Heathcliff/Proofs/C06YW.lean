/- C06 (task Y), second part: the statements of `Proofs/C06Y.lean` that live in the constructor-built world of `Proofs/NonVac.lean`
   (N = 4, q = {97, 113}, t = 17; tool and tables built by the model's constructors): the level / key bundles of C06Y are inhabited
   there, the general theorems apply (examples, incl. the strong closure for the PRIME plain modulus 17), the repaired boundary is
   witnessed (correction factor t = 17 is rejected, t − 1 = 16 is accepted and survives BGV `mod_switch_to_next`) and so is the oversize
   product that the model does not refuse.  The general theorems are in `Proofs/C06Y.lean`, which does not import `NonVac`.
   Helper names carry the prefix `c06y_`; the user-facing theorems are at the end under "Property theorems". -/
import Heathcliff.Proofs.C06Y
import Heathcliff.Proofs.NonVac
namespace HC

/-! ### non-vacuity of the level bundles: the two-level world of `Proofs/NonVac.lean` (N = 4, q = {97, 113}, t = 17, tool and
      tables built by the model's constructors `RNSTool.new`, `NTTTables.new`, `RNSBase.new`), with the scheme as a parameter -/

def c06y_nvL (s : Scheme) : Level := { nv_level with scheme := s }
def c06y_nvL1 (s : Scheme) : Level := { nv_level1 with scheme := s }

theorem c06y_nvL_wf (s : Scheme) : (c06y_nvL s).WF := ⟨nv_level_wf.npow, nv_level_wf.tsize, nv_level_wf.twf⟩
theorem c06y_nvL_tool (s : Scheme) : c05u_ToolOK (c06y_nvL s) :=
  ⟨nv_toolOK_fields.1, nv_toolOK_fields.2.1, nv_toolOK_fields.2.2.1, nv_toolOK_fields.2.2.2⟩
theorem c06y_nvL_bgv (s : Scheme) : c05u_BgvOK (c06y_nvL s) :=
  ⟨nv_bgvOK_fields.1, nv_bgvOK_fields.2.1, nv_bgvOK_fields.2.2.1, nv_bgvOK_fields.2.2.2⟩
theorem c06y_nvL_next (s : Scheme) : c06y_NextLevel (c06y_nvL s) (c06y_nvL1 s) :=
  ⟨⟨nv_isNext_fields.1, nv_isNext_fields.2.1, nv_isNext_fields.2.2⟩, rfl, rfl⟩
theorem c06y_nvL_qs (s : Scheme) : c02v_QsWF (c06y_nvL s) := c02v_qsWF_of_levelWF (c06y_nvL_wf s)

/-- the ciphertext of `NonVac` with representation flag and correction factor as parameters -/
def c06y_nvCt (ntt : Bool) (f : Nat) : Ct := ⟨#[nv_c0enc, nv_c1], ntt, f⟩

theorem c06y_nvCt_canon (s : Scheme) (ntt : Bool) (f : Nat) : c05u_CtCanon (c06y_nvL s) (c06y_nvCt ntt f) := by
  intro k hk
  have hk' : k < 2 := hk
  interval_cases k
  · exact nv_c0enc_canon
  · exact nv_c1_canon

theorem c06y_nvCt_valid_bgv (ntt : Bool) (f : Nat) (h0 : f ≠ 0) (h17 : f < 17) :
    ctValid (c06y_nvL .bgv) (c06y_nvCt ntt f) true false = true :=
  c06y_valid_mk (Or.inr ⟨Nat.le_refl 2, (by decide : 2 ≤ 16)⟩) (c06y_nvCt_canon .bgv ntt f) (rfl : true = true) ⟨h0, h17⟩

theorem c06y_nvCt_valid_bfv : ctValid (c06y_nvL .bfv) (c06y_nvCt false 1) true false = true :=
  c06y_valid_mk (Or.inr ⟨by decide, by decide⟩) (c06y_nvCt_canon .bfv false 1) (rfl : true = true) (rfl : (1 : Nat) = 1)

theorem c06y_nvCt_valid_ckks : ctValid (c06y_nvL .ckks) (c06y_nvCt true 1) false false = true :=
  c06y_valid_mk (Or.inr ⟨by decide, by decide⟩) (c06y_nvCt_canon .ckks true 1) (rfl : false = false) (rfl : (1 : Nat) = 1)

/-! ### non-vacuity of the key-switching bundles: key level {97, P = 113} of `Proofs/NonVac.lean`, ciphertext level {97} -/

theorem c06y_nv_keyLevelOf (s : Scheme) : c06y_KeyLevelOf nv_kl (c06y_nvL1 s) :=
  ⟨rfl, fun j hj => by have hj' : j < 1 := hj; interval_cases j; rfl⟩

theorem c06y_nv_klok : c06y_KLOK nv_kl 1 :=
  ⟨⟨nv_kl_wf_fields.1, nv_kl_wf_fields.2⟩, nv_ksinput_fields.1, nv_ksinput_fields.2.1, nv_ksinput_fields.2.2.2.2.2.1,
    nv_ksinput_fields.2.2.2.2.2.2.2⟩

theorem c06y_nv_keyok : c06y_KeyOK nv_kl 1 nv_kskey :=
  ⟨nv_ksinput_fields.2.2.1, by decide, nv_ksinput_fields.2.2.2.2.1⟩

/-- a size-3 coefficient-form ciphertext at the level {97} -/
def c06y_nvCt3 : Ct := ⟨#[#[#[69, 3, 49, 39]], #[#[0, 0, 0, 0]], #[#[73, 12, 45, 82]]], false, 1⟩

theorem c06y_nvCt3_valid : ctValid (c06y_nvL1 .bfv) c06y_nvCt3 true false = true := by
  refine c06y_valid_mk (Or.inr ⟨by decide, by decide⟩) (fun k hk => ?_) (rfl : true = true) (rfl : (1 : Nat) = 1)
  have hk' : k < 3 := hk
  interval_cases k <;> (unfold RnsCanon; decide)

theorem c06y_nv_bgvData : c04t_BgvData nv_kl := ⟨nv_m17_wf, by decide, by decide⟩
theorem c06y_nvL1_wf (s : Scheme) : (c06y_nvL1 s).WF := ⟨nv_level1_wf.npow, nv_level1_wf.tsize, nv_level1_wf.twf⟩

/-- a size-2 NTT-form BGV ciphertext at the level {97} with correction factor 3 -/
def c06y_nvCt2 : Ct := ⟨#[#[#[69, 3, 49, 39]], #[#[73, 12, 45, 82]]], true, 3⟩

theorem c06y_nvCt2_valid : ctValid (c06y_nvL1 .bgv) c06y_nvCt2 true false = true := by
  refine c06y_valid_mk (Or.inr ⟨by decide, by decide⟩) (fun k hk => ?_) (rfl : true = true) ⟨by decide, by decide⟩
  have hk' : k < 2 := hk
  interval_cases k <;> (unfold RnsCanon; decide)

/-! ### Y4: a valid size-9 ciphertext -/

/-- nine copies of a canonical polynomial: a valid size-9 CKKS ciphertext in the constructor-built world -/
def c06y_nvBig : Ct := ⟨Array.replicate 9 nv_c0enc, true, 1⟩

theorem c06y_nvBig_valid : ctValid (c06y_nvL .ckks) c06y_nvBig false false = true := by
  refine c06y_valid_mk (Or.inr ⟨by decide, by decide⟩) (fun k hk => ?_) (rfl : false = false) (rfl : (1 : Nat) = 1)
  have hk' : k < 9 := by simpa [c06y_nvBig] using hk
  have e : c06y_nvBig.polys.getD k #[] = nv_c0enc := by simp [c06y_nvBig, Array.getD, hk']
  rw [e]; exact nv_c0enc_canon

/-! ## Property theorems -/

/-! ### modulus switching, products and balanced add / sub in the world of `Proofs/NonVac.lean` -/

theorem c06y_nv_prime17 : Nat.Prime (c06y_nvL .bgv).t.value := by
  show Nat.Prime 17
  norm_num

/-- the repaired boundary in the constructor-built world (t = 17): the correction factor t is REJECTED, t − 1 = 16 is accepted, and BGV
    `mod_switch_to_next` of that boundary ciphertext succeeds with a VALID result at the next level.  (Before the repair the factor
    17 was accepted and the switch returned the invalid factor 0 — the former finding `modSwitchScaleNext_bgv_needs_cf_ne_t`.) -/
theorem modSwitchScaleNext_bgv_boundary :
    ctValid (c06y_nvL .bgv) (c06y_nvCt true 17) true false = false ∧
    ctValid (c06y_nvL .bgv) (c06y_nvCt true 16) true false = true ∧
    ∃ r, modSwitchScaleNext (c06y_nvL .bgv) (c06y_nvCt true 16) = .ok r ∧ ctValid (c06y_nvL1 .bgv) r true false = true ∧
      Nat.Coprime r.cf 17 := by
  have hv := c06y_nvCt_valid_bgv true 16 (by decide) (by decide)
  obtain ⟨r, hr, hv', _, _, _, hc⟩ := modSwitchScaleNext_bgv_valid_prime (c06y_nvL_wf .bgv) (c06y_nvL_tool .bgv) (c06y_nvL_bgv .bgv)
    (c06y_nvL_next .bgv) (by decide) rfl c06y_nv_prime17 hv rfl
  exact ⟨ctValid_rejects_cf_t (l := c06y_nvL .bgv) (ct := c06y_nvCt true 17) rfl, hv, r, hr, hv', hc⟩

/-- the three switching theorems are not vacuous: they apply in the constructor-built world -/
example : ∃ r, modSwitchScaleNext (c06y_nvL .bfv) (c06y_nvCt false 1) = .ok r ∧ ctValid (c06y_nvL1 .bfv) r true false = true :=
  let ⟨r, h, v, _⟩ := modSwitchScaleNext_bfv_valid (c06y_nvL_tool .bfv) (c06y_nvL_next .bfv) (by decide) rfl c06y_nvCt_valid_bfv rfl
  ⟨r, h, v⟩
example : ∃ r, modSwitchScaleNext (c06y_nvL .ckks) (c06y_nvCt true 1) = .ok r ∧ ctValid (c06y_nvL1 .ckks) r false false = true :=
  let ⟨r, h, v, _⟩ := modSwitchScaleNext_ckks_valid (c06y_nvL_wf .ckks) (c06y_nvL_tool .ckks) (c06y_nvL_next .ckks) (by decide) rfl
    c06y_nvCt_valid_ckks rfl
  ⟨r, h, v⟩
example : ∃ r, modSwitchScaleNext (c06y_nvL .bgv) (c06y_nvCt true 3) = .ok r ∧ ctValid (c06y_nvL1 .bgv) r true false = true :=
  let ⟨r, h, v, _⟩ := modSwitchScaleNext_bgv_valid (c06y_nvL_wf .bgv) (c06y_nvL_tool .bgv) (c06y_nvL_bgv .bgv) (c06y_nvL_next .bgv)
    (by decide) rfl (c06y_nvCt_valid_bgv true 3 (by decide) (by decide)) rfl (by decide)
  ⟨r, h, v⟩
example : ∃ r, modSwitchDropNext (c06y_nvL .ckks) (c06y_nvCt true 1) = .ok r ∧ ctValid (c06y_nvL1 .ckks) r false false = true :=
  let ⟨r, h, v, _⟩ := modSwitchDropNext_valid (c06y_nvL_next .ckks) (by decide) c06y_nvCt_valid_ckks (fun _ => rfl)
  ⟨r, h, v⟩
example : ∃ r, bgvMultiply (c06y_nvL .bgv) (c06y_nvCt true 3) (c06y_nvCt true 5) = .ok r ∧
    ctValid (c06y_nvL .bgv) r true false = true ∧ r.polys.size = 3 :=
  let ⟨r, h, v, sz, _⟩ := bgvMultiply_valid (c06y_nvL_qs .bgv) nv_m17_wf rfl (c06y_nvCt_valid_bgv true 3 (by decide) (by decide))
    (c06y_nvCt_valid_bgv true 5 (by decide) (by decide)) rfl rfl (by decide) (by decide) (by decide) (by decide) (by decide)
  ⟨r, h, v, sz⟩
example : ∃ r, ctTranslateBalanced (c06y_nvL .bgv) (c06y_nvCt true 3) (c06y_nvCt true 5) true = .ok r ∧
    ctValid (c06y_nvL .bgv) r true false = true :=
  let ⟨r, h, v, _⟩ := ctTranslateBalanced_valid (c06y_nvL_qs .bgv) (fun _ => nv_m17_wf)
    (c06y_nvCt_valid_bgv true 3 (by decide) (by decide)) (c06y_nvCt_valid_bgv true 5 (by decide) (by decide)) true rfl
    (fun _ => ⟨by decide, by decide⟩)
  ⟨r, h, v⟩

/-- the strong closure for the prime plain modulus 17 is not vacuous: no unit hypothesis is supplied -/
example : ∃ r, bgvMultiply (c06y_nvL .bgv) (c06y_nvCt true 16) (c06y_nvCt true 16) = .ok r ∧
    ctValid (c06y_nvL .bgv) r true false = true ∧ r.polys.size = 3 :=
  let ⟨r, h, v, sz, _⟩ := bgvMultiply_valid_prime (c06y_nvL_qs .bgv) nv_m17_wf c06y_nv_prime17 rfl
    (c06y_nvCt_valid_bgv true 16 (by decide) (by decide)) (c06y_nvCt_valid_bgv true 16 (by decide) (by decide)) rfl rfl
    (by decide) (by decide) (by decide)
  ⟨r, h, v, sz⟩
example : ∃ r, ctTranslateBalanced (c06y_nvL .bgv) (c06y_nvCt true 16) (c06y_nvCt true 5) false = .ok r ∧
    ctValid (c06y_nvL .bgv) r true false = true :=
  let ⟨r, h, v, _⟩ := ctTranslateBalanced_valid_prime (c06y_nvL_qs .bgv) (fun _ => nv_m17_wf) (fun _ => c06y_nv_prime17)
    (c06y_nvCt_valid_bgv true 16 (by decide) (by decide)) (c06y_nvCt_valid_bgv true 5 (by decide) (by decide)) false rfl
  ⟨r, h, v⟩

/-! ### key switching: `relinearize` and `applyGalois` in the world of `Proofs/NonVac.lean` -/

example : ∃ r, relinearize nv_kl .bfv 1 (fun m => if m = 2 then some nv_kskey else none) 2 c06y_nvCt3 = .ok r ∧
    ctValid (c06y_nvL1 .bfv) r true false = true ∧ r.polys.size = 2 :=
  let ⟨r, h, v, sz, _⟩ := relinearize_valid (c06y_nv_keyLevelOf .bfv) c06y_nv_klok (fun h => Scheme.noConfusion h)
    (fun m => if m = 2 then some nv_kskey else none) 2 c06y_nvCt3 c06y_nvCt3_valid (by decide) (by decide)
    (fun _ => ⟨fun h => Bool.noConfusion h, fun h => absurd rfl h⟩)
    (fun m h1 h2 => by
      have h3 : m < 3 := h2
      have : m = 2 := by omega
      subst this
      exact ⟨nv_kskey, rfl, c06y_nv_keyok⟩)
  ⟨r, h, v, sz⟩

example : ∃ r, applyGalois nv_kl (c06y_nvL1 .bgv) .bgv c06y_nvCt2 3 nv_kskey = .ok r ∧
    ctValid (c06y_nvL1 .bgv) r true false = true :=
  let ⟨r, h, v, _⟩ := applyGalois_valid (c06y_nvL1_wf .bgv) (c06y_nv_keyLevelOf .bgv) c06y_nv_klok (fun _ => c06y_nv_bgvData)
    c06y_nv_keyok c06y_nvCt2_valid rfl ⟨fun _ h => Scheme.noConfusion h, fun _ => rfl⟩ (g := 3) (by decide) (by decide)
  ⟨r, h, v⟩

/-! ### Y4: the size bound is enforced by the multiplications themselves (as `Ciphertext::resize` does in the code) -/

/-- Y4 (model = code): the product of two VALID size-9 ciphertexts is REFUSED by the model — 9 + 9 − 1 = 17 > 16 =
    `HE_CIPHERTEXT_SIZE_MAX` (the regenerated constant).  The Rust code panics in `Ciphertext::resize`
    ("[Invalid argument] Size invalid.") before computing anything; the model refuses at the same place.
    (Before the model carried the size check this was `ctMultiplyDyadic_oversize_not_refused`.) -/
theorem ctMultiplyDyadic_oversize_refused :
    ctValid (c06y_nvL .ckks) c06y_nvBig false false = true ∧ c06y_nvBig.polys.size = 9 ∧
    ctMultiplyDyadic (c06y_nvL .ckks) c06y_nvBig c06y_nvBig = .error .refused ∧
    bgvMultiply (c06y_nvL .ckks) c06y_nvBig c06y_nvBig = .error .refused := by
  have s9 : c06y_nvBig.polys.size = 9 := by simp [c06y_nvBig]
  exact ⟨c06y_nvBig_valid, s9, ctMultiplyDyadic_refuse_oversize _ _ _ (by rw [s9]; decide),
    bgvMultiply_refuse_oversize _ _ _ (by rw [s9]; decide)⟩

/-- the valid-or-refused theorem is not vacuous on either side: 9 × 9 is refused (above), 9 × 8 lands on the maximum and is valid -/
example : ∃ r, ctMultiplyDyadic (c06y_nvL .ckks) c06y_nvBig { c06y_nvBig with polys := c06y_nvBig.polys.pop } = .ok r ∧
    r.polys.size = 16 := by
  have s9 : c06y_nvBig.polys.size = 9 := by simp [c06y_nvBig]
  have hv8 : ctValid (c06y_nvL .ckks) { c06y_nvBig with polys := c06y_nvBig.polys.pop } false false = true := by
    have v := c06y_valid_parts c06y_nvBig_valid
    refine c06y_valid_mk (Or.inr (by simp [c06y_nvBig])) (fun k hk => ?_) v.scale v.cf
    have hk' : k < 8 := by simpa [c06y_nvBig] using hk
    have := v.canon k (by rw [s9]; omega)
    have e : (c06y_nvBig.polys.pop).getD k #[] = c06y_nvBig.polys.getD k #[] := by
      simp [c06y_nvBig, Array.getD, hk', (by omega : k < 9)]
    show RnsCanon _ ((c06y_nvBig.polys.pop).getD k #[])
    rw [e]; exact this
  obtain ⟨r, hr, sr, _⟩ := ctMultiplyDyadic_valid (c06y_nvL_qs .ckks) c06y_nvBig_valid hv8 rfl rfl (by simp [c06y_nvBig])
    (by simp [c06y_nvBig]) (by simp [c06y_nvBig])
  exact ⟨r, hr, by rw [sr]; simp [c06y_nvBig]⟩

end HC
