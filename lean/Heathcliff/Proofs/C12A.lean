/- C12 part A: the integer side of the CKKS encoder model (Heathcliff/Model/CkksEncoder.lean): the three magnitude paths
   return the residues of the rounded coefficient (negative ones included), `encode_internal_i64_single`, the centred lift
   and limb fold of decode.  Prefix every helper lemma with `c12a_`. -/
import Heathcliff.Model.CkksEncoder
import Heathcliff.Proofs.C10H
import Mathlib.Tactic.Ring
import Mathlib.Tactic.Linarith
import Mathlib.Tactic.NormNum
namespace HC
open Ckks

/-- canonical residue of an integer modulo q -/
def c12_res (c : Int) (q : Nat) : Nat := (c % (q : Int)).toNat

/-- `f64::round` of the dyadic m·2^e: an integer within 1/2 of it (and the exact value when e ≥ 0) -/
theorem roundDyadic_spec (m e : Int) :
    (0 ≤ e → roundDyadic m e = m * 2 ^ e.toNat) ∧
    (e < 0 → 2 * |roundDyadic m e * 2 ^ (-e).toNat - m| ≤ 2 ^ (-e).toNat) := by
  constructor
  · intro h; unfold roundDyadic; rw [if_pos h]
  · intro h
    unfold roundDyadic
    rw [if_neg (by omega)]
    dsimp only
    generalize (-e).toNat = k
    have hd : 0 < 2 ^ k := Nat.pos_of_ne_zero (by positivity)
    have hD : ((2:Int) ^ k) = ((2 ^ k : Nat) : Int) := by push_cast; rfl
    rw [hD]
    generalize 2 ^ k = d at hd
    have h1 : (2 * m.natAbs + d) / (2 * d) * (2 * d) ≤ 2 * m.natAbs + d := Nat.div_mul_le_self _ _
    have h2 : 2 * m.natAbs + d < (2 * m.natAbs + d) / (2 * d) * (2 * d) + 2 * d :=
      Nat.lt_div_mul_add (by omega)
    generalize (2 * m.natAbs + d) / (2 * d) = r at h1 h2
    have e1 : r * (2 * d) = 2 * (r * d) := by ring
    rw [e1] at h1 h2
    have e2 : ((r * d : Nat) : Int) = (r : Int) * (d : Int) := by push_cast; rfl
    generalize hp : r * d = p at h1 h2 e2
    split
    · rw [neg_mul, ← e2]
      rcases abs_cases (-(p:Int) - m) with ⟨h, _⟩ | ⟨h, _⟩ <;> rw [h] <;> omega
    · rw [← e2]
      rcases abs_cases ((p:Int) - m) with ⟨h, _⟩ | ⟨h, _⟩ <;> rw [h] <;> omega

theorem c12a_mapM_ok {α β : Type} (f : α → R β) (g : α → β) (a : Array α)
    (h : ∀ x ∈ a.toList, f x = .ok (g x)) : a.mapM f = .ok (a.map g) := by
  rw [Array.mapM_eq_mapM_toList, RNSH.mapM_ok_of_forall f g a.toList h]
  show Except.ok _ = Except.ok _
  congr 1
  apply Array.toList_inj.mp
  simp

theorem c12a_res_nonneg {c : Int} (hc : 0 ≤ c) (q : Nat) : c12_res c q = c.natAbs % q := by
  unfold c12_res
  obtain ⟨n, rfl⟩ := Int.eq_ofNat_of_zero_le hc
  simp only [Int.natAbs_natCast]
  rw [← Int.natCast_mod, Int.toNat_natCast]

theorem c12a_res_neg {c : Int} (hc : c < 0) {q : Nat} (hq : 0 < q) :
    c12_res c q = (q - c.natAbs % q) % q := by
  unfold c12_res
  obtain ⟨n, rfl⟩ : ∃ n : Nat, c = -(n : Int) := ⟨c.natAbs, by omega⟩
  simp only [Int.natAbs_neg, Int.natAbs_natCast]
  have h1 := Nat.div_add_mod n q
  have h2 := Nat.mod_lt n hq
  generalize n % q = r at *
  generalize n / q = t at *
  subst h1
  by_cases hr : r = 0
  · subst hr
    have : (-((q * t + 0 : Nat) : Int)) % (q : Int) = 0 := by
      push_cast; simp
    rw [this]; simp
  · have : (-((q * t + r : Nat) : Int)) % (q : Int) = ((q - r : Nat) : Int) := by
      have e : (-((q * t + r : Nat) : Int)) = ((q - r : Nat) : Int) + (q : Int) * (-(t:Int) - 1) := by
        rw [Int.ofNat_sub h2.le]; push_cast; ring
      rw [e, Int.add_mul_emod_self_left, ← Int.natCast_mod, Nat.mod_eq_of_lt (by omega)]
    rw [this, Int.toNat_natCast, Nat.mod_eq_of_lt (by omega)]

theorem c12a_signFix {m : Modulus} (h : m.WF) (c : Int) :
    signFix (decide (c < 0)) (c.natAbs % m.value) m = .ok (c12_res c m.value) := by
  have h2 := h.two_le
  unfold signFix
  by_cases hc : c < 0
  · rw [decide_eq_true hc, if_pos rfl, negateMod_exact h (Nat.mod_lt _ (by omega)).le, c12a_res_neg hc (by omega)]
  · rw [decide_eq_false hc, if_neg (by simp)]
    rw [c12a_res_nonneg (by omega)]; rfl

theorem c12a_getD_map {α β : Type} (g : α → β) (a : Array α) (d : α) (e : β) {i : Nat} (hi : i < a.size) :
    (a.map g).getD i e = g (a.getD i d) := by
  simp [Array.getD, hi]

theorem c12a_mem_getD {α : Type} (a : Array α) (d : α) {x : α} (hx : x ∈ a.toList) :
    ∃ i, i < a.size ∧ x = a.getD i d := by
  obtain ⟨i, hi, rfl⟩ := List.getElem_of_mem hx
  have hi' : i < a.size := by simpa using hi
  exact ⟨i, hi', by simp [Array.getD, hi']⟩

/-- ≤ 64-bit path: for EVERY integer c with |c| < 2^64 the residues are c mod q_j (negative c included) -/
theorem path64_spec {qs : Array Modulus} (hq : ∀ i, i < qs.size → (qs.getD i ⟨0,0,0,0,0⟩).WF) {c : Int} (hc : c.natAbs < 2^64) :
    ∃ rs, path64 qs c = .ok rs ∧ rs.size = qs.size ∧
      ∀ i, i < qs.size → rs.getD i 0 = c12_res c (qs.getD i ⟨0,0,0,0,0⟩).value := by
  refine ⟨qs.map (fun q => c12_res c q.value), ?_, by simp, ?_⟩
  · unfold path64
    apply c12a_mapM_ok
    intro q hqm
    obtain ⟨i, hi, rfl⟩ := c12a_mem_getD qs ⟨0,0,0,0,0⟩ hqm
    have hs : satU64 c.natAbs = c.natAbs := by
      unfold satU64; rw [if_pos (by rw [B64_eq]; exact hc)]
    simp only [hs]
    rw [barrett64_exact (hq i hi) hc]
    exact c12a_signFix (hq i hi) c
  · intro i hi
    exact c12a_getD_map _ qs _ _ hi

/-- ≤ 128-bit path -/
theorem path128_spec {qs : Array Modulus} (hq : ∀ i, i < qs.size → (qs.getD i ⟨0,0,0,0,0⟩).WF) {c : Int} (hc : c.natAbs < 2^128) :
    ∃ rs, path128 qs c = .ok rs ∧ rs.size = qs.size ∧
      ∀ i, i < qs.size → rs.getD i 0 = c12_res c (qs.getD i ⟨0,0,0,0,0⟩).value := by
  refine ⟨qs.map (fun q => c12_res c q.value), ?_, by simp, ?_⟩
  · unfold path128
    apply c12a_mapM_ok
    intro q hqm
    obtain ⟨i, hi, rfl⟩ := c12a_mem_getD qs ⟨0,0,0,0,0⟩ hqm
    have hhi : c.natAbs / B64 < 2^64 := by
      rw [B64_eq, Nat.div_lt_iff_lt_mul (by norm_num)]; norm_num at hc ⊢; exact hc
    have hs : satU64 (c.natAbs / B64) = c.natAbs / B64 := by
      unfold satU64; rw [if_pos (by rw [B64_eq] at hhi ⊢; exact hhi)]
    have hlo : c.natAbs % B64 < 2^64 := by
      rw [B64_eq]; exact Nat.mod_lt _ (by norm_num)
    simp only [hs]
    rw [barrett128_exact (hq i hi) hlo hhi]
    have e : c.natAbs % B64 + 2 ^ 64 * (c.natAbs / B64) = c.natAbs := by
      rw [← B64_eq]; exact Nat.mod_add_div _ _
    rw [e]
    exact c12a_signFix (hq i hi) c
  · intro i hi
    exact c12a_getD_map _ qs _ _ hi

theorem c12a_bitCount_le {a n : Nat} (ha : a < 2 ^ n) : bitCount a ≤ n := by
  unfold bitCount
  split
  · omega
  · rename_i h0
    have := (Nat.log2_lt h0).mpr ha
    omega

/-- multi-word path (only reachable with at least 3 moduli: more than 128 bits) -/
theorem pathBig_spec {b : RNSBase} (hb : b.WF) (h1 : 1 < b.size) {c : Int} (hc : c.natAbs < 2^(64 * b.size)) :
    ∃ rs, pathBig b c = .ok rs ∧ rs.size = b.size ∧ ∀ i, i < b.size → rs.getD i 0 = c12_res c (b.q i).value := by
  obtain ⟨ds, hd, hsz, hds⟩ := decompose_spec_of hb hc (Or.inl h1)
  refine ⟨(Array.range b.size).map (fun j => c12_res c (b.q j).value), ?_, by simp, ?_⟩
  · unfold pathBig
    have hdc : ¬ digitCount c.natAbs > b.size := by
      have := c12a_bitCount_le hc
      unfold digitCount; omega
    simp only [bind, Except.bind]
    rw [if_neg hdc, hd]
    simp only []
    apply c12a_mapM_ok
    intro j hj
    have hj' : j < b.size := by simpa using hj
    rw [hds j hj']
    exact c12a_signFix (hb.mwf j hj') c
  · intro i hi
    simp [Array.getD, hi]

/-- COEFF_TO_RNS: whichever path the bit count selects, under that path's selection condition the result is the residue vector -/
theorem coeffToRns_spec {b : RNSBase} (hb : b.WF) {bits : Nat} {c : Int}
    (h64 : bits ≤ 64 → c.natAbs < 2^64) (h128 : 64 < bits → bits ≤ 128 → c.natAbs < 2^128)
    (hbig : 128 < bits → 1 < b.size ∧ c.natAbs < 2^(64 * b.size)) :
    ∃ rs, coeffToRns b bits c = .ok rs ∧ rs.size = b.size ∧ ∀ i, i < b.size → rs.getD i 0 = c12_res c (b.q i).value := by
  unfold coeffToRns
  by_cases h1 : bits ≤ 64
  · rw [if_pos h1]
    exact path64_spec (qs := b.base) hb.mwf (h64 h1)
  · rw [if_neg h1]
    by_cases h2 : bits ≤ 128
    · rw [if_pos h2]
      exact path128_spec (qs := b.base) hb.mwf (h128 (by omega) h2)
    · rw [if_neg h2]
      obtain ⟨ha, hc⟩ := hbig (by omega)
      exact pathBig_spec hb ha hc

/-- the saturating casts do not lose anything strictly below the path limits, and cost exactly this much at the limits
    (`max_coeff_bit_count <= 64` admits |c| = 2^64): |c| = 2^64 is encoded as 2^64 − 1 -/
theorem path64_saturated {qs : Array Modulus} (hq : ∀ i, i < qs.size → (qs.getD i ⟨0,0,0,0,0⟩).WF) :
    ∃ rs, path64 qs (2^64) = .ok rs ∧ ∀ i, i < qs.size → rs.getD i 0 = c12_res (2^64 - 1) (qs.getD i ⟨0,0,0,0,0⟩).value := by
  refine ⟨qs.map (fun q => c12_res (2^64 - 1) q.value), ?_, ?_⟩
  · unfold path64
    apply c12a_mapM_ok
    intro q hqm
    obtain ⟨i, hi, rfl⟩ := c12a_mem_getD qs ⟨0,0,0,0,0⟩ hqm
    have hs : satU64 (2^64 : Int).natAbs = (2^64 - 1 : Int).natAbs := by
      unfold satU64; rw [B64_eq]; norm_num
    have hd : decide ((2^64 : Int) < 0) = decide ((2^64 - 1 : Int) < 0) := by norm_num
    simp only [hs, hd]
    rw [barrett64_exact (hq i hi) (by norm_num)]
    exact c12a_signFix (hq i hi) (2^64 - 1)
  · intro i hi
    exact c12a_getD_map _ qs _ _ hi

/-- I64_SINGLE (repaired form): residues of v for every i64 value v -/
theorem i64Residues_spec {qs : Array Modulus} (hq : ∀ i, i < qs.size → (qs.getD i ⟨0,0,0,0,0⟩).WF) {v : Int}
    (hv : -2^63 ≤ v ∧ v < 2^63) :
    ∃ rs, i64Residues qs v = .ok rs ∧ rs.size = qs.size ∧
      ∀ i, i < qs.size → rs.getD i 0 = c12_res v (qs.getD i ⟨0,0,0,0,0⟩).value := by
  have hc : v.natAbs < 2^64 := by omega
  refine ⟨qs.map (fun q => c12_res v q.value), ?_, by simp, ?_⟩
  · unfold i64Residues
    apply c12a_mapM_ok
    intro q hqm
    obtain ⟨i, hi, rfl⟩ := c12a_mem_getD qs ⟨0,0,0,0,0⟩ hqm
    rw [barrett64_exact (hq i hi) hc]
    exact c12a_signFix (hq i hi) v
  · intro i hi
    exact c12a_getD_map _ qs _ _ hi

theorem encodeI64Single_spec {l : Level} (hb : l.base.WF) {v : Int} (hv : -2^63 ≤ v ∧ v < 2^63) :
    (bitCount v.natAbs + 2 ≥ l.totalBits → encodeI64Single l v = .error .refused) ∧
    (bitCount v.natAbs + 2 < l.totalBits → ∃ p, encodeI64Single l v = .ok p ∧ p.size = l.base.size ∧
        ∀ j i, j < l.base.size → i < l.n → (p.getD j #[]).getD i 0 = c12_res v (l.base.q j).value) := by
  constructor
  · intro h
    unfold encodeI64Single
    simp only [bind, Except.bind]
    rw [if_pos h]
  · intro h
    obtain ⟨rs, h1, h2, h3⟩ := i64Residues_spec (qs := l.base.base) hb.mwf hv
    unfold encodeI64Single
    simp only [bind, Except.bind]
    rw [if_neg (by omega), h1]
    refine ⟨_, rfl, by simp, ?_⟩
    intro j i hj hi
    simp [Array.getD, hj, hi]
    exact h3 j hj

/-- the pinned (unrepaired) formula `reduce(q.wrapping_sub(-v))` is wrong: −2^35 modulo the 30-bit prime 1073479681 -/
theorem i64_pinned_formula_wrong :
    ((1073479681 + 2^64 - 2^35) % 2^64) % 1073479681 ≠ c12_res (-(2^35)) 1073479681 := by
  unfold c12_res
  decide

theorem c12a_pow_succ64 (n : Nat) : 2 ^ (64 * (n + 1)) = 2 ^ (64 * n) * B64 := by
  rw [B64_eq, ← pow_add, Nat.mul_add, Nat.mul_one]

theorem c12a_mod_succ (x n : Nat) :
    x % 2 ^ (64 * (n + 1)) = x % 2 ^ (64 * n) + limb x n * 2 ^ (64 * n) := by
  rw [c12a_pow_succ64, Nat.mod_mul, Nat.mul_comm (2 ^ (64 * n))]; rfl

theorem c12a_limb_sum_mod (n x : Nat) :
    ((List.range n).map fun j => limb x j * 2^(64 * j)).sum = x % 2 ^ (64 * n) := by
  induction n with
  | zero => simp [Nat.mod_one]
  | succ n ih =>
    rw [List.range_succ, List.map_append, List.sum_append, ih, c12a_mod_succ]
    simp

/-- limbs recompose -/
theorem limb_sum (size x : Nat) (hx : x < 2^(64 * size)) :
    ((List.range size).map fun j => limb x j * 2^(64 * j)).sum = x := by
  rw [c12a_limb_sum_mod, Nat.mod_eq_of_lt hx]

theorem c12a_fold_lower (x n : Nat) :
    ((List.range n).foldl (fun (acc : Int × Nat) j =>
      (acc.1 + (limb x j : Int) * 2 ^ (64 * j), acc.2 + limb x j * 2 ^ (64 * j))) (0, 0)).1
      = ((x % 2 ^ (64 * n) : Nat) : Int) := by
  induction n with
  | zero => simp [Nat.mod_one]
  | succ n ih =>
    rw [List.range_succ, List.foldl_append, List.foldl_cons, List.foldl_nil]
    dsimp only
    rw [ih, c12a_mod_succ]
    push_cast; rfl

theorem c12a_fold_upper (x Q n : Nat) :
    ((List.range n).foldl (fun (acc : Int × Nat) j =>
      let xj := limb x j; let qj := limb Q j
      if xj > qj then (acc.1 + ((xj - qj : Nat) : Int) * 2 ^ (64 * j), acc.2 + (xj - qj) * 2 ^ (64 * j))
      else (acc.1 - ((qj - xj : Nat) : Int) * 2 ^ (64 * j), acc.2 + (qj - xj) * 2 ^ (64 * j))) (0, 0)).1
      = ((x % 2 ^ (64 * n) : Nat) : Int) - ((Q % 2 ^ (64 * n) : Nat) : Int) := by
  induction n with
  | zero => simp [Nat.mod_one]
  | succ n ih =>
    rw [List.range_succ, List.foldl_append, List.foldl_cons, List.foldl_nil]
    dsimp only
    rw [c12a_mod_succ x, c12a_mod_succ Q]
    split
    · rename_i h
      dsimp only
      rw [ih, Int.ofNat_sub h.le]; push_cast; ring
    · rename_i h
      dsimp only
      rw [ih, Int.ofNat_sub (Nat.le_of_not_gt h)]; push_cast; ring

/-- DECODE_LIFT: the fold's numerator is the centred lift of the composed value -/
theorem decodeFold_spec {size Q x : Nat} (hQ : Q < 2^(64 * size)) (hx : x < Q) :
    (decodeFold size Q (upperHalfThreshold Q) x).1 = if x ≥ (Q + 1) / 2 then (x : Int) - Q else (x : Int) := by
  unfold decodeFold upperHalfThreshold
  have hx' : x < 2 ^ (64 * size) := lt_trans hx hQ
  by_cases h : x ≥ (Q + 1) / 2
  · rw [if_pos h, if_pos h]
    refine (c12a_fold_upper x Q size).trans ?_
    rw [Nat.mod_eq_of_lt hx', Nat.mod_eq_of_lt hQ]
  · rw [if_neg h, if_neg h]
    refine (c12a_fold_lower x size).trans ?_
    rw [Nat.mod_eq_of_lt hx']

/-- … which is the representative of x modulo Q of least absolute value (Q odd, as every CKKS modulus is) -/
theorem decodeFold_centred {size Q x : Nat} (hQ : Q < 2^(64 * size)) (hx : x < Q) (hodd : Q % 2 = 1) :
    ((decodeFold size Q (upperHalfThreshold Q) x).1 - (x : Int)) % (Q : Int) = 0 ∧
    2 * |(decodeFold size Q (upperHalfThreshold Q) x).1| < (Q : Int) := by
  rw [decodeFold_spec hQ hx]
  split
  · rename_i h
    constructor
    · have : (x : Int) - Q - x = -(Q : Int) := by ring
      rw [this]; simp
    · rw [abs_of_nonpos (by omega)]; omega
  · rename_i h
    constructor
    · simp
    · rw [abs_of_nonneg (by omega)]; omega

theorem c12a_foldl_inv {α β : Type} (P : β → Prop) (f : β → α → β) (l : List α)
    (h : ∀ acc a, P acc → P (f acc a)) (init : β) (h0 : P init) : P (l.foldl f init) := by
  induction l generalizing init with
  | nil => exact h0
  | cons a l ih => exact ih _ (h _ _ h0)

/-- the second component bounds the numerator (it is the sum of the absolute limb terms: the oracle's error bound uses it) -/
theorem decodeFold_abs {size Q x : Nat} :
    |(decodeFold size Q (upperHalfThreshold Q) x).1| ≤ ((decodeFold size Q (upperHalfThreshold Q) x).2 : Int) := by
  unfold decodeFold
  split
  · apply c12a_foldl_inv (fun (acc : Int × Nat) => |acc.1| ≤ (acc.2 : Int))
    · intro acc j hacc
      dsimp only at hacc ⊢
      rw [abs_le] at hacc
      split
      · dsimp only
        have e : ((acc.2 + (limb x j - limb Q j) * 2 ^ (64 * j) : Nat) : Int)
            = acc.2 + ((limb x j - limb Q j : Nat) : Int) * 2 ^ (64 * j) := by push_cast; rfl
        have hT : (0 : Int) ≤ ((limb x j - limb Q j : Nat) : Int) * 2 ^ (64 * j) := by positivity
        rw [e, abs_le]; constructor <;> linarith [hacc.1, hacc.2]
      · dsimp only
        have e : ((acc.2 + (limb Q j - limb x j) * 2 ^ (64 * j) : Nat) : Int)
            = acc.2 + ((limb Q j - limb x j : Nat) : Int) * 2 ^ (64 * j) := by push_cast; rfl
        have hT : (0 : Int) ≤ ((limb Q j - limb x j : Nat) : Int) * 2 ^ (64 * j) := by positivity
        rw [e, abs_le]; constructor <;> linarith [hacc.1, hacc.2]
    · simp
  · apply c12a_foldl_inv (fun (acc : Int × Nat) => |acc.1| ≤ (acc.2 : Int))
    · intro acc j hacc
      dsimp only at hacc ⊢
      rw [abs_le] at hacc
      have e : ((acc.2 + limb x j * 2 ^ (64 * j) : Nat) : Int)
          = acc.2 + (limb x j : Int) * 2 ^ (64 * j) := by push_cast; rfl
      have hT : (0 : Int) ≤ (limb x j : Int) * 2 ^ (64 * j) := by positivity
      rw [e, abs_le]; constructor <;> linarith [hacc.1, hacc.2]
    · simp

/-- non-vacuity -/
example : c12_res (-5) 7 = 2 := by decide

end HC
