/-
  Generated skeletons of `RelinKeysGenerationProtocol::{new, step2, finish}` (Gen/MpFns.lean) = rlkRound1 / rlkRound2 / rlkFinish
  of Model/Multiparty.lean, for every decomposition index, with the draw order of both tapes.
-/
import Heathcliff.Proofs.GenMp
namespace HC
open HC.MP

variable {α : Type}

/-- the tape a loop `for j in i..i+r` consumes when iteration j draws `g j` (then `rest` remains) -/
def tapeRem (g : Nat → Tape α) (rest : Tape α) : Nat → Nat → Tape α
  | 0, _ => rest
  | r + 1, i => g i ++ tapeRem g rest r (i + 1)

theorem genmp_tapeRem_step (g : Nat → Tape α) (rest : Tape α) (N i : Nat) (h : i < N) :
    tapeRem g rest (N - i) i = g i ++ tapeRem g rest (N - (i + 1)) (i + 1) := by
  have : N - i = (N - (i + 1)) + 1 := by omega
  rw [this]; rfl

theorem genmp_loopFrom_inv {σ : Type} (body : Nat → σ → R σ) (inv : Nat → σ) : ∀ n j (s0 : σ), s0 = inv j →
    (∀ i, j ≤ i → i < j + n → body i (inv i) = .ok (inv (i + 1))) → loopFrom body n j s0 = .ok (inv (j + n)) := by
  intro n
  induction n with
  | zero => intro j s0 h _; subst h; rfl
  | succ n ih =>
    intro j s0 h hb; subst h
    simp only [loopFrom, hb j (Nat.le_refl _) (by omega)]
    have := ih (j + 1) (inv (j + 1)) rfl (fun i h1 h2 => hb i (by omega) (by omega))
    rw [this]; congr 2; omega

theorem genmp_idxP_range (f : Nat → α) (N i : Nat) (h : i < N) : idxP ((List.range N).map f) i = .ok (f i) := by
  simp [idxP, h]

theorem genmp_range_snoc {β : Type} (f : Nat → β) (i : Nat) : (List.range i).map f ++ [f i] = (List.range (i + 1)).map f := by
  simp [List.range_succ]

/-- `RelinKeysGenerationProtocol::new`: the common tape yields ONE uniform polynomial a_j per decomposition index (all drawn before
    anything else), the own tape yields (u_j, e0_j, e1_j) per index, and the j-th broadcast pair is `rlkRound1` on (a_j, u_j, e0_j, e1_j, w_j);
    the stored `u` is the transformed ternary sample. -/
theorem genmp_rlk_new (o : Ops α) (sch : Scheme) (t count pid K : Nat) (s : α) (w a u e0 e1 : Nat → α) (r : Nat → α × α)
    (rc rs : Tape α) (hr : ∀ j, j < K - 1 → rlkRound1 o sch t s (a j) (u j) (e0 j) (e1 j) (w j) = .ok (r j)) :
    GenMp.rlk_new o sch t count pid K s w
        (tapeRem (fun j => [(.uniform, a j)]) rc (K - 1) 0)
        (tapeRem (fun j => [(.ternary, u j), (.cbd, e0 j), (.cbd, e1 j)]) rs (K - 1) 0)
      = .ok ((List.range (K - 1)).map (fun j => Reveal.new count pid (r j).1),
             (List.range (K - 1)).map (fun j => Reveal.new count pid (r j).2),
             (List.range (K - 1)).map (fun j => o.toNtt (u j)), rc, rs) := by
  unfold GenMp.rlk_new loopM
  dsimp only
  rw [genmp_loopFrom_inv _ (fun i => (tapeRem (fun j => [(.uniform, a j)]) rc (K - 1 - i) i, (List.range i).map a)) (K - 1) 0]
  · simp only [genmp_ok_bind, Nat.zero_add, Nat.sub_self, tapeRem]
    rw [genmp_loopFrom_inv _ (fun i => (tapeRem (fun j => [(.ternary, u j), (.cbd, e0 j), (.cbd, e1 j)]) rs (K - 1 - i) i,
          (List.range i).map (fun j => o.toNtt (u j)), (List.range i).map (fun j => (r j).1), (List.range i).map (fun j => (r j).2))) (K - 1) 0]
    · simp [genmp_ok_bind, tapeRem, Reveal.new, pure, Except.pure, Function.comp_def]
    · simp
    · intro i _ hi
      have hi' : i < K - 1 := by omega
      refine Eq.trans (b := do
        let p ← rlkRound1 o sch t s (a i) (u i) (e0 i) (e1 i) (w i)
        pure (tapeRem (fun j => [(.ternary, u j), (.cbd, e0 j), (.cbd, e1 j)]) rs (K - 1 - (i + 1)) (i + 1),
          (List.range i).map (fun j => o.toNtt (u j)) ++ [o.toNtt (u i)], (List.range i).map (fun j => (r j).1) ++ [p.1],
          (List.range i).map (fun j => (r j).2) ++ [p.2])) ?_ ?_
      · unfold rlkRound1
        simp only [genmp_tapeRem_step _ _ (K - 1) i hi', genmp_idxP_range a (K - 1) i hi', genmp_ok_bind, List.cons_append, List.nil_append,
          genmp_draw_hit, genmp_sample_noise, bind_assoc, pure_bind]
      · rw [hr i hi']
        simp only [genmp_ok_bind, pure, Except.pure, genmp_range_snoc (fun j => o.toNtt (u j)), genmp_range_snoc (fun j => (r j).1),
          genmp_range_snoc (fun j => (r j).2)]
  · simp
  · intro i _ hi
    have hi' : i < K - 1 := by omega
    simp only [genmp_tapeRem_step _ _ (K - 1) i hi', List.cons_append, List.nil_append, genmp_draw_hit, genmp_ok_bind, genmp_range_snoc, pure, Except.pure]

theorem genmp_mapRM_ok {β γ δ : Type} (f : β → R γ) (g : δ → β) (h : δ → γ) (l : List δ) (hf : ∀ x ∈ l, f (g x) = .ok (h x)) :
    mapRM f (l.map g) = .ok (l.map h) := by
  induction l with
  | nil => rfl
  | cons x xs ih =>
    simp only [List.map_cons, mapRM, hf x (List.mem_cons_self ..), ih (fun y hy => hf y (List.mem_cons_of_mem _ hy))]

theorem genmp_setP_range (f : Nat → α) (N i : Nat) (v : α) (h : i < N) :
    setP ((List.range N).map f) i v = .ok ((List.range N).map (fun j => if j = i then v else f j)) := by
  simp only [setP, List.length_map, List.length_range, h, ite_true]
  congr 1
  apply List.ext_getElem
  · simp
  · intro n h1 h2
    simp only [List.length_map, List.length_range] at h2
    simp only [List.getElem_set, List.getElem_map, List.getElem_range]
    by_cases hn : i = n
    · subst hn; simp
    · have hn' : ¬ n = i := fun h => hn h.symm
      simp [hn, hn']

/-- `RelinKeysGenerationProtocol::step2`: every reveal object of round 1 is finished (completeness assertion inside), the j-th
    new broadcast pair is `rlkRound2` on the summed round-1 polynomials with the NEXT two noise draws of the own tape, the stored
    `u_j` becomes `u_j - s` and the summed `h1` is kept for `finish`. -/
theorem genmp_rlk_step2 (o : Ops α) (pa : α → α → R α) (sch : Scheme) (t count pid K : Nat) (s : α) (u e2 e3 H0 H1 d : Nat → α)
    (R0 R1 : Nat → Reveal α) (r : Nat → α × α) (rs : Tape α)
    (hf0 : ∀ j, j < K - 1 → (R0 j).finish o = .ok (H0 j)) (hf1 : ∀ j, j < K - 1 → (R1 j).finish o = .ok (H1 j))
    (hd : ∀ j, j < K - 1 → o.sub (o.toNtt (u j)) s = .ok (d j))
    (hr : ∀ j, j < K - 1 → rlkRound2 o sch t s (u j) (H0 j) (H1 j) (e2 j) (e3 j) = .ok (r j)) :
    GenMp.rlk_step2 o sch t count pid K s pa ((List.range (K - 1)).map R0) ((List.range (K - 1)).map R1)
        ((List.range (K - 1)).map (fun j => o.toNtt (u j)))
        (tapeRem (fun j => [(.cbd, e2 j), (.cbd, e3 j)]) rs (K - 1) 0)
      = .ok ((List.range (K - 1)).map (fun j => Reveal.new count pid (r j).1),
             (List.range (K - 1)).map (fun j => Reveal.new count pid (r j).2),
             (List.range (K - 1)).map d, (List.range (K - 1)).map H1, rs) := by
  unfold GenMp.rlk_step2 loopM
  rw [genmp_mapRM_ok _ R0 H0 _ (fun x hx => by rw [genmp_reveal_finish]; exact hf0 x (List.mem_range.mp hx)),
      genmp_mapRM_ok _ R1 H1 _ (fun x hx => by rw [genmp_reveal_finish]; exact hf1 x (List.mem_range.mp hx))]
  dsimp only [genmp_ok_bind]
  rw [genmp_loopFrom_inv _ (fun i => (tapeRem (fun j => [(.cbd, e2 j), (.cbd, e3 j)]) rs (K - 1 - i) i,
        (List.range (K - 1)).map (fun j => if j < i then d j else o.toNtt (u j)),
        (List.range i).map (fun j => (r j).1), (List.range i).map (fun j => (r j).2))) (K - 1) 0]
  · simp only [genmp_ok_bind, Nat.zero_add, Nat.sub_self, tapeRem, pure, Except.pure]
    simp only [List.map_map, Reveal.new, Function.comp_def]
    have hu : (List.range (K - 1)).map (fun j => if j < K - 1 then d j else o.toNtt (u j)) = (List.range (K - 1)).map d := by
      apply List.map_congr_left
      intro j hj; simp [List.mem_range.mp hj]
    rw [hu]
  · simp
  · intro i _ hi
    have hi' : i < K - 1 := by omega
    refine Eq.trans (b := do
      let p ← rlkRound2 o sch t s (u i) (H0 i) (H1 i) (e2 i) (e3 i)
      pure (tapeRem (fun j => [(.cbd, e2 j), (.cbd, e3 j)]) rs (K - 1 - (i + 1)) (i + 1),
        (List.range (K - 1)).map (fun j => if j < i + 1 then d j else o.toNtt (u j)), (List.range i).map (fun j => (r j).1) ++ [p.1],
        (List.range i).map (fun j => (r j).2) ++ [p.2])) ?_ ?_
    · unfold rlkRound2
      have hset : (List.range (K - 1)).map (fun j => if j = i then d i else (if j < i then d j else o.toNtt (u j)))
          = (List.range (K - 1)).map (fun j => if j < i + 1 then d j else o.toNtt (u j)) := by
        apply List.map_congr_left
        intro j _
        by_cases h1 : j = i
        · subst h1; simp
        · by_cases h2 : j < i
          · simp [h1, h2, Nat.lt_succ_of_lt h2]
          · have : ¬ j < i + 1 := by omega
            simp [h1, h2, this]
      simp only [genmp_tapeRem_step _ _ (K - 1) i hi', genmp_idxP_range _ (K - 1) i hi', genmp_setP_range _ (K - 1) i _ hi', hset,
        Nat.lt_irrefl, ite_false, Nat.lt_succ_self, ite_true, hd i hi',
        genmp_ok_bind, List.cons_append, List.nil_append, genmp_sample_noise, bind_assoc, pure_bind]
    · rw [hr i hi']
      simp only [genmp_ok_bind, pure, Except.pure, genmp_range_snoc (fun j => (r j).1), genmp_range_snoc (fun j => (r j).2)]

/-- `RelinKeysGenerationProtocol::finish`: every reveal object of round 2 is finished, key j = `rlkFinish` (Σh0'_j, Σh1'_j, Σh1_j) -/
theorem genmp_rlk_finish (o : Ops α) (pa : α → α → R α) (K : Nat) (P0 P1 : Nat → Reveal α) (H0p H1p h1 : Nat → α) (k : Nat → α × α)
    (hf0 : ∀ j, j < K - 1 → (P0 j).finish o = .ok (H0p j)) (hf1 : ∀ j, j < K - 1 → (P1 j).finish o = .ok (H1p j))
    (hk : ∀ j, j < K - 1 → rlkFinish o (H0p j) (H1p j) (h1 j) = .ok (k j)) :
    GenMp.rlk_finish o K pa ((List.range (K - 1)).map P0) ((List.range (K - 1)).map P1) ((List.range (K - 1)).map h1)
      = .ok ((List.range (K - 1)).map k) := by
  unfold GenMp.rlk_finish loopM
  rw [genmp_mapRM_ok _ P0 H0p _ (fun x hx => by rw [genmp_reveal_finish]; exact hf0 x (List.mem_range.mp hx)),
      genmp_mapRM_ok _ P1 H1p _ (fun x hx => by rw [genmp_reveal_finish]; exact hf1 x (List.mem_range.mp hx))]
  dsimp only [genmp_ok_bind]
  rw [genmp_loopFrom_inv _ (fun i => ((List.range (K - 1)).map (fun j => if j < i then (k j).1 else H0p j), (List.range i).map k)) (K - 1) 0]
  · simp only [genmp_ok_bind, Nat.zero_add, pure, Except.pure]
  · simp
  · intro i _ hi
    have hi' : i < K - 1 := by omega
    refine Eq.trans (b := do
      let p ← rlkFinish o (H0p i) (H1p i) (h1 i)
      pure ((List.range (K - 1)).map (fun j => if j = i then p.1 else (if j < i then (k j).1 else H0p j)), (List.range i).map k ++ [p])) ?_ ?_
    · unfold rlkFinish
      simp only [genmp_idxP_range _ (K - 1) i hi', genmp_setP_range _ (K - 1) i _ hi', Nat.lt_irrefl, ite_false, ↓reduceIte,
        genmp_ok_bind, bind_assoc, pure_bind]
    · rw [hk i hi']
      simp only [genmp_ok_bind, pure, Except.pure, genmp_range_snoc k]
      congr 2
      apply List.map_congr_left
      intro j _
      by_cases h1 : j = i
      · subst h1; simp
      · by_cases h2 : j < i
        · simp [h1, h2, Nat.lt_succ_of_lt h2]
        · have : ¬ j < i + 1 := by omega
          simp [h1, h2, this]

/-! ### the relin protocol's `receive_step1` / `receive_step2`: h0 objects first, then h1 objects, one polynomial each, same slot -/

/-- what `receive` does to one object when the sender's slot exists -/
def putSlot (sender : Nat) (p : Reveal α) (m : α) : Reveal α := { p with slots := p.slots.set sender (some m) }

theorem genmp_mapStream_receive (sender : Nat) : ∀ (ps : List (Reveal α)) (ms : List α) (rest : List α),
    ms.length = ps.length → (∀ p ∈ ps, sender < p.slots.length) →
    mapStreamM (fun r s => GenMp.reveal_receive r sender s) ps (ms ++ rest) = .ok (List.zipWith (putSlot sender) ps ms, rest) := by
  intro ps
  induction ps with
  | nil => intro ms rest hl _; cases ms with
    | nil => rfl
    | cons m ms => simp at hl
  | cons p ps ih =>
    intro ms rest hl hs
    cases ms with
    | nil => simp at hl
    | cons m ms =>
      have hp : sender < p.slots.length := hs p (List.mem_cons_self ..)
      have hr : GenMp.reveal_receive p sender (m :: (ms ++ rest)) = .ok (putSlot sender p m, ms ++ rest) := by
        rw [genmp_reveal_receive]; simp [Reveal.receive, hp, putSlot, genmp_ok_bind, pure, Except.pure]
      simp only [List.cons_append, mapStreamM, hr, List.zipWith_cons_cons,
        ih ms rest (by simpa using hl) (fun q hq => hs q (List.mem_cons_of_mem _ hq))]

theorem genmp_rlk_receive_step1 (sender : Nat) (h0d h1d : List (Reveal α)) (m0 m1 rest : List α)
    (hl0 : m0.length = h0d.length) (hl1 : m1.length = h1d.length)
    (hs0 : ∀ p ∈ h0d, sender < p.slots.length) (hs1 : ∀ p ∈ h1d, sender < p.slots.length) :
    GenMp.rlk_receive_step1 h0d h1d sender (m0 ++ (m1 ++ rest))
      = .ok (List.zipWith (putSlot sender) h0d m0, List.zipWith (putSlot sender) h1d m1, rest) ∧
    GenMp.rlk_receive_step2 h0d h1d sender (m0 ++ (m1 ++ rest))
      = .ok (List.zipWith (putSlot sender) h0d m0, List.zipWith (putSlot sender) h1d m1, rest) := by
  unfold GenMp.rlk_receive_step1 GenMp.rlk_receive_step2
  simp only [genmp_mapStream_receive sender h0d m0 _ hl0 hs0, genmp_mapStream_receive sender h1d m1 _ hl1 hs1, genmp_ok_bind]
  exact ⟨rfl, rfl⟩

/-- the message of `send_step1` / `send_step2` is exactly what `receive_step1` / `receive_step2` of the other parties consume:
    the own polynomials of the h0 objects, then those of the h1 objects -/
theorem genmp_rlk_send (h0d h1d : List (Reveal α)) :
    GenMp.rlk_send_step1 h0d h1d = h0d.map Reveal.own ++ h1d.map Reveal.own ∧
    GenMp.rlk_send_step2 h0d h1d = h0d.map Reveal.own ++ h1d.map Reveal.own := ⟨rfl, rfl⟩
